-- Root of the `PgVerif` library (modules are built per property by `./check`).
import PgVerif.Model.Units
