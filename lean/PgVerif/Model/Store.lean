/-
Model of the SQLite store (parsing/sqlite.py, utilities/sqlite_utilities.py, utilities/sqlite_db_pragmas.py):
every public write operation as the sequence of SQL statements it issues on a shared cursor, the constraints of
the schema (NOT NULL, UNIQUE, FOREIGN KEY with `PRAGMA foreign_keys = ON`), the `with_connection` wrapper
(commit only when the body returns; IntegrityError / InterfaceError → rollback + ParsingError; any other exception —
another `sqlite3.Error` as well as an exception OUTSIDE the sqlite3 hierarchy: OverflowError / UnicodeEncodeError raised while a
value is bound, an exception of the module itself between two statements, KeyboardInterrupt, MemoryError … —
propagates and the connection is closed without commit), fault injection at statement `k`, and the two
process-global lists `MATERIAL_LIST` / `ADSORBATE_LIST` that the code updates before the commit.

Rows are keyed by *name* (the AUTOINCREMENT ids never leave the module).  Values are opaque tokens.
No Mathlib: this file is executable core Lean.
-/
namespace PgVerif.Model.Store

/-- committed or working content of one database file -/
structure Db where
  ads : List String                                   -- adsorbates.name
  adsProps : List (String × String × String)          -- (adsorbate, type, value)  in insertion order
  adsTypes : List (String × String × String)          -- (type, unit, description); "" for NULL
  mats : List String
  matProps : List (String × String × String)
  matTypes : List (String × String × String)
  isoTypes : List (String × String)                   -- (type, description)
  isos : List (String × String × String × String × String)   -- (id, iso_type, material, adsorbate, temperature)
  isoProps : List (String × String × String)          -- (iso_id, type, value)
  isoData : List (String × String × String × String)  -- (iso_id, type, dtype, data)
  deriving DecidableEq, Repr

def Db.empty : Db := ⟨[], [], [], [], [], [], [], [], [], []⟩

/-- the process-global lists (names) -/
structure Mem where
  adsList : List String
  matList : List String
  deriving DecidableEq, Repr

inductive SqlErr
  | integrity      -- sqlite3.IntegrityError (constraint, or raised by the module itself)
  | interface      -- sqlite3.InterfaceError / unsupported parameter type
  | operational    -- sqlite3.OperationalError (injected), or any other sqlite3.Error that is neither of the two above
  | foreign        -- an exception that is NOT a sqlite3.Error: raised by the driver while it binds a value (OverflowError for an
                   -- int outside 64 bit, UnicodeEncodeError for a lone surrogate), by the module itself between two statements
                   -- (ParsingError, whatever json.dumps raises), or asynchronously (KeyboardInterrupt, MemoryError, SystemExit)
  | exit           -- the process died (injected)
  deriving DecidableEq, Repr

/-- what happens at the planted statement: the first four are raised INSTEAD of executing statement `k` (the statement has no
effect); `foreign` stands for every exception class outside `sqlite3.Error`, `BaseException` subclasses included -/
inductive FaultKind
  | integrity | interface | operational | foreign | exitBefore | exitAfter
  deriving DecidableEq, Repr

/-- working state of one `with_connection` call: working copy, number of `cursor.execute` calls so far, fault plan -/
structure Work where
  db : Db
  mem : Mem
  n : Nat
  fault : Option (Nat × FaultKind)
  deriving Repr

/-- the state (working copy, statement counter, in-memory lists) survives an exception: `ExceptT` over `StateM` -/
abbrev Sql := ExceptT SqlErr (StateM Work)

def raise {β : Type} (e : SqlErr) : Sql β := throw e

/-- one `cursor.execute`: counts, applies an injected fault, then runs the statement's own semantics -/
def stmt {β : Type} (body : Db → Except SqlErr (β × Db)) : Sql β := do
  let w ← get
  let k := w.n
  set { w with n := k + 1 }
  let injected : Option SqlErr :=
    match w.fault with
    | some (kf, .integrity) => if kf = k then some .integrity else none
    | some (kf, .interface) => if kf = k then some .interface else none
    | some (kf, .operational) => if kf = k then some .operational else none
    | some (kf, .foreign) => if kf = k then some .foreign else none
    | some (kf, .exitBefore) => if kf = k then some .exit else none
    | _ => none
  match injected with
  | some e => throw e
  | none =>
    match body w.db with
    | .error e => throw e
    | .ok (r, db') =>
      modify fun w' => { w' with db := db' }
      if w.fault = some (k, .exitAfter) then throw .exit
      return r

def readStmt {β : Type} (f : Db → β) : Sql β := stmt fun db => .ok (f db, db)
def writeStmt (f : Db → Except SqlErr Db) : Sql Unit := stmt fun db => (f db).map fun d => ((), d)

def modifyMem (f : Mem → Mem) : Sql Unit := modify fun w => { w with mem := f w.mem }
def getMem : Sql Mem := do return (← get).mem

/-! ### statements with their constraints -/

def insName (sel : Db → List String) (upd : Db → List String → Db) (name : Option String) (db : Db) : Except SqlErr Db :=
  match name with
  | none => .error .integrity                                     -- NOT NULL
  | some n => if (sel db).contains n then .error .integrity       -- UNIQUE
              else .ok (upd db (sel db ++ [n]))

def insAds := insName (·.ads) (fun d l => { d with ads := l })
def insMat := insName (·.mats) (fun d l => { d with mats := l })

/-- INSERT INTO adsorbate_properties: NOT NULL value, FK on the adsorbate and on the property type -/
def insAdsProp (a t : String) (v : Option String) (db : Db) : Except SqlErr Db :=
  match v with
  | none => .error .integrity
  | some v =>
    if db.ads.contains a && db.adsTypes.any (·.1 == t) then .ok { db with adsProps := db.adsProps ++ [(a, t, v)] }
    else .error .integrity

def insMatProp (m t : String) (v : Option String) (db : Db) : Except SqlErr Db :=
  match v with
  | none => .error .integrity
  | some v =>
    if db.mats.contains m && db.matTypes.any (·.1 == t) then .ok { db with matProps := db.matProps ++ [(m, t, v)] }
    else .error .integrity

def insType3 (sel : Db → List (String × String × String)) (upd : Db → List (String × String × String) → Db)
    (t : Option String) (u d : String) (db : Db) : Except SqlErr Db :=
  match t with
  | none => .error .integrity
  | some t => if (sel db).any (·.1 == t) then .error .integrity else .ok (upd db (sel db ++ [(t, u, d)]))

/-- UPDATE … WHERE type = :type (touches nothing when the row is absent) -/
def updType3 (sel : Db → List (String × String × String)) (upd : Db → List (String × String × String) → Db)
    (t : Option String) (u d : String) (db : Db) : Except SqlErr Db :=
  match t with
  | none => .ok db
  | some t => .ok (upd db ((sel db).map fun r => if r.1 == t then (t, u, d) else r))

def insIsoType (t : Option String) (d : String) (db : Db) : Except SqlErr Db :=
  match t with
  | none => .error .integrity
  | some t => if db.isoTypes.any (·.1 == t) then .error .integrity else .ok { db with isoTypes := db.isoTypes ++ [(t, d)] }

def updIsoType (t : Option String) (d : String) (db : Db) : Except SqlErr Db :=
  match t with
  | none => .ok db
  | some t => .ok { db with isoTypes := db.isoTypes.map fun r => if r.1 == t then (t, d) else r }

/-- DELETE FROM adsorbates WHERE name: refused while an isotherm or a property row references it -/
def delAds (a : String) (db : Db) : Except SqlErr Db :=
  if db.isos.any (fun r => r.2.2.2.1 == a) || db.adsProps.any (·.1 == a) then .error .integrity
  else .ok { db with ads := db.ads.filter (· != a) }

def delMat (m : String) (db : Db) : Except SqlErr Db :=
  if db.isos.any (fun r => r.2.2.1 == m) || db.matProps.any (·.1 == m) then .error .integrity
  else .ok { db with mats := db.mats.filter (· != m) }

def delAdsType (t : String) (db : Db) : Except SqlErr Db :=
  if db.adsProps.any (·.2.1 == t) then .error .integrity else .ok { db with adsTypes := db.adsTypes.filter (·.1 != t) }

def delMatType (t : String) (db : Db) : Except SqlErr Db :=
  if db.matProps.any (·.2.1 == t) then .error .integrity else .ok { db with matTypes := db.matTypes.filter (·.1 != t) }

def delIsoType (t : String) (db : Db) : Except SqlErr Db :=
  if db.isos.any (·.2.1 == t) then .error .integrity else .ok { db with isoTypes := db.isoTypes.filter (·.1 != t) }

/-- INSERT INTO isotherms -/
def insIso (id ty : String) (mat ads temp : Option String) (db : Db) : Except SqlErr Db :=
  match mat, ads, temp with
  | some m, some a, some t =>
    if db.isos.any (·.1 == id) then .error .integrity
    else if db.isoTypes.any (·.1 == ty) && db.mats.contains m && db.ads.contains a then
      .ok { db with isos := db.isos ++ [(id, ty, m, a, t)] }
    else .error .integrity
  | _, _, _ => .error .integrity

/-- a property value as handed to sqlite: `none` = Python None, `unsupported` = dict/list (cannot be bound) -/
inductive PVal | val (s : String) | null | unsupported
  deriving DecidableEq, Repr

def insIsoProp (id t : String) (v : PVal) (db : Db) : Except SqlErr Db :=
  match v with
  | .unsupported => .error .operational      -- sqlite3.ProgrammingError: the value cannot be bound; NOT caught by with_connection
  | .null => .error .integrity
  | .val s => if db.isos.any (·.1 == id) then .ok { db with isoProps := db.isoProps ++ [(id, t, s)] } else .error .integrity

def insIsoData (id t dt data : String) (db : Db) : Except SqlErr Db :=
  if db.isos.any (·.1 == id) then .ok { db with isoData := db.isoData ++ [(id, t, dt, data)] } else .error .integrity

/-! ### the public operations (bodies of the `@with_connection` functions, on a shared cursor) -/

/-- `_delete_by_id` on a property table: SELECT, raise IntegrityError if there is no row, else DELETE -/
def deleteAdsPropsById (a : String) : Sql Unit := do
  let ex ← readStmt fun db => db.adsProps.any (·.1 == a)
  if !ex then raise .integrity
  writeStmt fun db => .ok { db with adsProps := db.adsProps.filter (·.1 != a) }

def deleteMatPropsById (m : String) : Sql Unit := do
  let ex ← readStmt fun db => db.matProps.any (·.1 == m)
  if !ex then raise .integrity
  writeStmt fun db => .ok { db with matProps := db.matProps.filter (·.1 != m) }

/-- `try: … except sqlite3.IntegrityError: pass` — any IntegrityError raised inside (the module's own "nothing to delete" as
well as one coming from a statement) is swallowed; the statements issued stay counted -/
def tryIntegrity (p : Sql Unit) : Sql Unit :=
  tryCatch p fun e => if e = .integrity then pure () else throw e

/-- `adsorbate_to_db(adsorbate, autoinsert_properties, overwrite)`; `props` = `to_dict()` without the name, list values expanded -/
def adsToDb (name : Option String) (props : List (String × List (Option String))) (autoinsert overwrite : Bool) : Sql Unit := do
  let nm := name.getD ""
  if overwrite then
    let ex ← readStmt fun db => db.ads.contains nm
    if !ex then raise .integrity
    writeStmt fun db => .ok { db with adsProps := db.adsProps.filter (·.1 != nm) }
  else
    writeStmt (insAds name)
  if autoinsert then
    let types ← readStmt fun db => db.adsTypes.map (·.1)
    for (t, _) in props do
      if !types.contains t then writeStmt (insType3 (·.adsTypes) (fun d l => { d with adsTypes := l }) (some t) "" "")
  for (t, vs) in props do
    for v in vs do
      writeStmt (insAdsProp nm t v)
  if overwrite then
    modifyMem fun m => { m with adsList := m.adsList.erase nm }
  modifyMem fun m => { m with adsList := m.adsList ++ [nm] }

def matToDb (name : Option String) (props : List (String × List (Option String))) (autoinsert overwrite : Bool) : Sql Unit := do
  let nm := name.getD ""
  if overwrite then
    let ex ← readStmt fun db => db.mats.contains nm
    if !ex then raise .integrity
    writeStmt fun db => .ok { db with matProps := db.matProps.filter (·.1 != nm) }
  else
    writeStmt (insMat name)
  if autoinsert then
    let types ← readStmt fun db => db.matTypes.map (·.1)
    for (t, _) in props do
      if !types.contains t then writeStmt (insType3 (·.matTypes) (fun d l => { d with matTypes := l }) (some t) "" "")
  for (t, vs) in props do
    for v in vs do
      writeStmt (insMatProp nm t v)
  if overwrite then
    modifyMem fun m => { m with matList := m.matList.erase nm }
  modifyMem fun m => { m with matList := m.matList ++ [nm] }

def adsDelete (name : String) : Sql Unit := do
  let ex ← readStmt fun db => db.ads.contains name
  if !ex then raise .integrity
  writeStmt fun db => .ok { db with adsProps := db.adsProps.filter (·.1 != name) }
  writeStmt (delAds name)
  modifyMem fun m => { m with adsList := m.adsList.erase name }

def matDelete (name : String) : Sql Unit := do
  let ex ← readStmt fun db => db.mats.contains name
  if !ex then raise .integrity
  writeStmt fun db => .ok { db with matProps := db.matProps.filter (·.1 != name) }
  writeStmt (delMat name)
  modifyMem fun m => { m with matList := m.matList.erase name }

/-- `_upload_one_all_columns` for the three 'type' tables -/
def typeToDb (table : String) (t : Option String) (u d : String) (overwrite : Bool) : Sql Unit :=
  match table with
  | "adsorbate" => writeStmt ((if overwrite then updType3 else insType3) (·.adsTypes) (fun db l => { db with adsTypes := l }) t u d)
  | "material" => writeStmt ((if overwrite then updType3 else insType3) (·.matTypes) (fun db l => { db with matTypes := l }) t u d)
  | _ => writeStmt ((if overwrite then updIsoType else insIsoType) t d)

/-- `_delete_by_id` for the three 'type' tables -/
def typeDelete (table : String) (t : String) : Sql Unit := do
  let ex ← readStmt fun db =>
    match table with
    | "adsorbate" => db.adsTypes.any (·.1 == t)
    | "material" => db.matTypes.any (·.1 == t)
    | _ => db.isoTypes.any (·.1 == t)
  if !ex then raise .integrity
  match table with
  | "adsorbate" => writeStmt (delAdsType t)
  | "material" => writeStmt (delMatType t)
  | _ => writeStmt (delIsoType t)

/-- `isotherm_property_type_to_db` / `isotherm_property_types_from_db` / `isotherm_property_type_delete_db`: their single statement
addresses the table `isotherm_properties_type`, which the schema (utilities/sqlite_db_pragmas.py) does not create: sqlite answers
`OperationalError: no such table`, which `with_connection` does not translate (finding S39).  `what` names the entry point. -/
def isoPropTypeOp (_what : String) : Sql Unit :=
  writeStmt fun _ => .error .operational

/-- the isotherm as `isotherm_to_db` sees it -/
structure IsoIn where
  id : String
  isoType : String
  material : Option String
  matProps : List (String × List (Option String))
  adsorbate : Option String
  adsProps : List (String × List (Option String))
  temperature : Option String
  props : List (String × PVal)
  data : List (String × String × String)      -- (type, dtype, json)
  deriving Repr

def isoToDb (i : IsoIn) (autoMat autoAds : Bool) : Sql Unit := do
  -- auto-insertion is decided from the target database (one SELECT each)
  if autoMat then
    let known ← readStmt fun db => db.mats.contains (i.material.getD "")
    if !known then matToDb i.material i.matProps true false
  if autoAds then
    let known ← readStmt fun db => db.ads.contains (i.adsorbate.getD "")
    if !known then adsToDb i.adsorbate i.adsProps true false
  writeStmt (insIso i.id i.isoType i.material i.adsorbate i.temperature)
  for (t, v) in i.props do
    writeStmt (insIsoProp i.id t v)
  for (t, dt, d) in i.data do
    writeStmt (insIsoData i.id t dt d)

def isoDelete (id : String) : Sql Unit := do
  let ex ← readStmt fun db => db.isos.any (·.1 == id)
  if !ex then raise .integrity
  writeStmt fun db => .ok { db with isoData := db.isoData.filter (·.1 != id) }
  writeStmt fun db => .ok { db with isoProps := db.isoProps.filter (·.1 != id) }
  writeStmt fun db => .ok { db with isos := db.isos.filter (·.1 != id) }

inductive Op
  | adsToDb (name : Option String) (props : List (String × List (Option String))) (autoinsert overwrite : Bool)
  | matToDb (name : Option String) (props : List (String × List (Option String))) (autoinsert overwrite : Bool)
  | adsDelete (name : String)
  | matDelete (name : String)
  | typeToDb (table : String) (t : Option String) (u d : String) (overwrite : Bool)
  | typeDelete (table t : String)
  | isoToDb (i : IsoIn) (autoMat autoAds : Bool)
  | isoDelete (id : String)
  | isoPropTypeOp (what : String)
  deriving Repr

def Op.body : Op → Sql Unit
  | .adsToDb n p a o => Store.adsToDb n p a o
  | .matToDb n p a o => Store.matToDb n p a o
  | .adsDelete n => Store.adsDelete n
  | .matDelete n => Store.matDelete n
  | .typeToDb tb t u d o => Store.typeToDb tb t u d o
  | .typeDelete tb t => Store.typeDelete tb t
  | .isoToDb i am aa => Store.isoToDb i am aa
  | .isoDelete id => Store.isoDelete id
  | .isoPropTypeOp w => Store.isoPropTypeOp w

inductive Outcome
  | ok | parsingError | otherError | died
  deriving DecidableEq, Repr

/-- result of one public call: committed file content, the process-global lists (lost when the process died),
the outcome, the number of statements issued -/
structure Result where
  db : Db
  mem : Mem
  out : Outcome
  stmts : Nat
  deriving Repr

/-- `with_connection`: PRAGMA, body, then commit / rollback / propagate.  A fault index equal to the number of statements of
the fault-free run addresses the commit itself (`exitBefore` = die just before it, `exitAfter` = die just after it).
The in-memory lists are NOT rolled back: whatever the body appended before the failing statement stays (finding S12). -/
def runOp (db : Db) (mem : Mem) (op : Op) (fault : Option (Nat × FaultKind)) : Result :=
  let prog : Sql Unit := do
    writeStmt fun d => .ok d          -- PRAGMA foreign_keys = ON
    op.body
  let (r, w) := (prog.run).run ⟨db, mem, 0, fault⟩
  match r with
  | .ok _ =>
    if fault = some (w.n, .exitBefore) then ⟨db, mem, .died, w.n⟩
    else if fault = some (w.n, .exitAfter) then ⟨w.db, mem, .died, w.n⟩
    else ⟨w.db, w.mem, .ok, w.n⟩
  | .error .integrity => ⟨db, w.mem, .parsingError, w.n⟩
  | .error .interface => ⟨db, w.mem, .parsingError, w.n⟩
  | .error .operational => ⟨db, w.mem, .otherError, w.n⟩
  | .error .foreign => ⟨db, w.mem, .otherError, w.n⟩      -- no `except` clause matches: `finally` closes the connection, nothing is committed
  | .error .exit => ⟨db, mem, .died, w.n⟩

/-- number of `cursor.execute` calls of the fault-free run (fault positions are `0 … stmtCount`) -/
def stmtCount (db : Db) (mem : Mem) (op : Op) : Nat := (runOp db mem op none).stmts

/-! ### referential integrity (the "no orphans" invariant) -/

def Db.wellFormed (db : Db) : Bool :=
  db.adsProps.all (fun r => db.ads.contains r.1 && db.adsTypes.any (·.1 == r.2.1)) &&
  db.matProps.all (fun r => db.mats.contains r.1 && db.matTypes.any (·.1 == r.2.1)) &&
  db.isos.all (fun r => db.isoTypes.any (·.1 == r.2.1) && db.mats.contains r.2.2.1 && db.ads.contains r.2.2.2.1) &&
  db.isoProps.all (fun r => db.isos.any (·.1 == r.1)) &&
  db.isoData.all (fun r => db.isos.any (·.1 == r.1))

end PgVerif.Model.Store
