/-
IAST certificate for mixtures of POINT isotherms, computed from the raw branch data alone (pressures, loadings as
stored) and never from an isotherm object: the pure-component loading at a fictitious pressure is the linear
interpolation of the data (`interpLin`, the default kind of `PointIsotherm.loading_at` on a fresh object), the
spreading pressure is the exact fold of `PointIsotherm.spreading_pressure_at` (`spreadPoint` after the origin guard
`dropOrigin`).  Whatever an isotherm object has cached from earlier queries (an interpolator of another kind, branch
or fill value) cannot enter.  Polymorphic over an ordered field: run at ℚ by `Drv/Iast.lean` (`pcert`), instantiated
with real logarithms in `Props/C13/Point.lean`.

Branches: the rows of the requested branch are selected from the stored rows by their marks (`branchRows`, 0 = adsorption,
1 = desorption, stored order) and brought into increasing pressure order (`orient`: desorption points are stored in order of
decreasing pressure; `spreading_pressure_at` reverses them, `interp1d` sorts them) before the certificate is computed
(`pointCertStored`, `pointCertBranch`; `pcertb` of `Drv/Iast.lean`; theorems `Props/C11/Branch.lean`, `Props/C13/Branch.lean`).
-/
import PgVerif.Model.Iast
import PgVerif.Model.SpreadPoint

namespace PgVerif.Model.Iast
open PgVerif.Model

variable {α : Type} [Field α] [LinearOrder α]

/-- pure-component loading `n⁰(q)` and spreading pressure `Π(q)` of the piecewise-linear isotherm through the raw
data at the fictitious pressure `q`; `logs` / `lgLast` are the logarithm inputs of `spreadPoint` for the guarded data.
`none`: `q` outside the measured range (the library raises there). -/
def pointCert (ps ls logs : List α) (q lgLast : α) : Option (α × α) :=
  let d := dropOrigin ps ls
  match interpLin d.1 d.2 q with
  | none => none
  | some lq => (spreadPoint d.1 d.2 logs q lq lgLast).map (fun s => (lq, s))

/-- rows of one branch in stored order: `data_raw.loc[data_raw['branch'] == b]` -/
def branchRows {β : Type} (xs : List β) (marks : List Nat) (b : Nat) : List β :=
  ((xs.zip marks).filter (fun r => r.2 == b)).map (·.1)

/-- the orientation step of `spreading_pressure_at` (`if len(pressures) > 1 and pressures[0] > pressures[-1]`): rows stored in order
of decreasing pressure are reversed, both columns together -/
def orient (ps ls : List α) : List α × List α :=
  match ps.head?, ps.getLast? with
  | some a, some b => if b < a then (ps.reverse, ls.reverse) else (ps, ls)
  | _, _ => (ps, ls)

/-- the certificate on the rows of one branch AS STORED (either order); `logs` / `lgLast` belong to the oriented, guarded rows -/
def pointCertStored (ps ls logs : List α) (q lgLast : α) : Option (α × α) :=
  let d := orient ps ls
  pointCert d.1 d.2 logs q lgLast

/-- the certificate from the stored rows of the whole isotherm, their branch marks and the requested branch -/
def pointCertBranch (ps ls : List α) (marks : List Nat) (b : Nat) (logs : List α) (q lgLast : α) : Option (α × α) :=
  pointCertStored (branchRows ps marks b) (branchRows ls marks b) logs q lgLast

end PgVerif.Model.Iast
