/-
IAST certificate for mixtures of POINT isotherms, computed from the raw branch data alone (pressures, loadings as
stored) and never from an isotherm object: the pure-component loading at a fictitious pressure is the linear
interpolation of the data (`interpLin`, the default kind of `PointIsotherm.loading_at` on a fresh object), the
spreading pressure is the exact fold of `PointIsotherm.spreading_pressure_at` (`spreadPoint` after the origin guard
`dropOrigin`).  Whatever an isotherm object has cached from earlier queries (an interpolator of another kind, branch
or fill value) cannot enter.  Polymorphic over an ordered field: run at ℚ by `Drv/Iast.lean` (`pcert`), instantiated
with real logarithms in `Props/C13/Point.lean`.
-/
import PgVerif.Model.Iast
import PgVerif.Model.SpreadPoint

namespace PgVerif.Model.Iast
open PgVerif.Model

variable {α : Type} [Field α] [LinearOrder α]

/-- pure-component loading `n⁰(q)` and spreading pressure `Π(q)` of the piecewise-linear isotherm through the raw
data at the fictitious pressure `q`; `logs` / `lgLast` are the logarithm inputs of `spreadPoint` for the guarded data.
`none`: `q` outside the measured range (the library raises there). -/
def pointCert (ps ls logs : List α) (q lgLast : α) : Option (α × α) :=
  let d := dropOrigin ps ls
  match interpLin d.1 d.2 q with
  | none => none
  | some lq => (spreadPoint d.1 d.2 logs q lq lgLast).map (fun s => (lq, s))

end PgVerif.Model.Iast
