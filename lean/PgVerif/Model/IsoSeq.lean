/-
Order-explicit specification of the combined call `PointIsotherm.convert(...)` (core/pointisotherm.py): the
single-quantity calls it issues, in the documented order pressure → material → loading, applied one after the
other and stopped at the first refusal.  This is what the harness executes on the REAL code for every combined
call (fresh copy, `convert_pressure` / `convert_material` / `convert_loading` one by one; harness/props/c02.py
`sub_steps`, `expected_combined`); the driver runs these definitions on the same inputs, and
`Props/C02/Combined.lean` proves `convertAll = runUntilRefused ∘ subSteps` for the model of `convert`.
-/
import PgVerif.Model.IsoState

namespace PgVerif.Model

variable {α : Type} [Field α]

/-- the single-quantity calls that `convert(pressure_mode, pressure_unit, loading_basis, loading_unit,
material_basis, material_unit)` issues, in the documented order; a step is issued iff one of its two arguments
is given (truthy) -/
def subSteps (pm pu lb lu mb mu : Option String) : List Op :=
  (if truthy pm || truthy pu then [Op.pressure pm pu] else []) ++
  (if truthy mb || truthy mu then [Op.material mb mu] else []) ++
  (if truthy lb || truthy lu then [Op.loading lb lu] else [])

/-- apply calls one after the other; the first refusal stops the sequence and propagates -/
def runUntilRefused (c : Ctx α) : Iso α → List Op → Iso α × Outcome
  | s, [] => (s, .ok)
  | s, op :: ops =>
    match step c s op with
    | (s', .ok) => runUntilRefused c s' ops
    | (s', .err e) => (s', .err e)

/-- a single-quantity call (not the combined `convert`) -/
def Op.isSingle : Op → Bool
  | .all .. => false
  | _ => true

def Op.tag : Op → String
  | .pressure .. => "P" | .loading .. => "L" | .material .. => "M" | .temperature .. => "T" | .all .. => "A"

end PgVerif.Model
