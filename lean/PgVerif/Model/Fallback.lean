/-
The fallback pattern shared by every thermodynamic accessor of `Adsorbate` (`molar_mass`, `saturation_pressure`,
`liquid_density`, …), kept apart from the (large, generated) registry so that the accessor theorems
(`Props/C20/Accessors.lean`, `Props/C01/Accessors.lean`) do not depend on `Gen/Registry.lean`.
Same namespace as `Model/Registry.lean`, which imports this file.
-/
namespace PgVerif.Model.Registry

inductive Err | param | calc
  deriving DecidableEq, Repr

/-- the accessor pattern:
```
if calculate:
    try: return backend_value
    except BaseException: return self.X(calculate=False)
try: return get_prop(X)
except ParameterError: raise CalculationError
```
`backend = none` models "the backend raised"; `user = none` "the property is not in the dictionary". -/
def propValue {α : Type} (calculate : Bool) (backend user : Option α) : Except Err α :=
  if calculate then
    match backend with
    | some v => .ok v
    | none => match user with
      | some u => .ok u
      | none => .error .calc
  else
    match user with
    | some u => .ok u
    | none => .error .calc

end PgVerif.Model.Registry
