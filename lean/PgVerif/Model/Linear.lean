/-
Hand-written model of the *selection and regression* part shared by the linearised characterisation methods
(characterisation/area_bet.py `area_BET_raw`, area_lang.py `area_langmuir_raw`, dr_da_plots.py `da_plot_raw`,
t_plots.py `t_plot_raw`, alphas_plots.py `alpha_s_raw`, isosteric_enth.py `isosteric_enthalpy_raw`):

* `searchsorted`            – `numpy.searchsorted(a, v)` (side='left') on a sorted array,
* `limitWindow`             – the `if p_limits[0]: … if p_limits[1]: …` pair (Python truthiness of the limits),
* `rouquerolMax`            – the `for index, value in enumerate(roq[:-1])` loop of `area_BET_raw`,
* `betWindow`, `langWindow`, `daWindow` – `(minimum, maximum)` or the refusal `maximum - minimum < 2`,
* `openSection`             – `numpy.flatnonzero((curve > lo) & (curve < hi))` of the t-plot / alpha-s methods,
* `ols`                     – `scipy.stats.linregress` slope and intercept (ssxym/ssxm, ymean - slope*xmean).

Polymorphic over an ordered field; run at ℚ by `Drv/Char.lean` against the real functions, instantiated at ℝ in the theorems.
The per-point transforms and the parameter formulas are *not* here: they are regenerated from the Python source
into `Gen/CharR.lean` / `Gen/CharF.lean` on every run.
-/
import Mathlib.Algebra.Order.Field.Basic

namespace PgVerif.Model.Linear

variable {α : Type} [Field α] [LinearOrder α]

/-- `numpy.searchsorted(a, v)` for sorted `a`: the number of leading elements `< v`. -/
def searchsorted : List α → α → Nat
  | [], _ => 0
  | x :: xs, v => if x < v then searchsorted xs v + 1 else 0

/-- Python truthiness of a limit: `None` and `0` mean "not given". -/
def given (l : Option α) : Option α :=
  match l with
  | some v => if v = 0 then none else some v
  | none => none

/-- `minimum`, `maximum` (the latter may be `-1`) after the two `if p_limits[k]:` statements. -/
def limitWindow (ps : List α) (lo hi : Option α) : Nat × Int :=
  let minimum := match given lo with
    | some v => searchsorted ps v
    | none => 0
  let maximum : Int := match given hi with
    | some v => (searchsorted ps v : Int) - 1
    | none => (ps.length : Int) - 1
  (minimum, maximum)

/-- first `index + 1` with `roq[index] > roq[index+1]`, else `len - 1` -/
def rouquerolMaxAux : List α → Nat → Option Nat
  | a :: b :: rest, i => if a > b then some (i + 1) else rouquerolMaxAux (b :: rest) (i + 1)
  | _, _ => none

def rouquerolMax (roq : List α) : Nat :=
  (rouquerolMaxAux roq 0).getD (roq.length - 1)

/-- outcome of a window selection: the slice bounds or the `CalculationError` -/
def decide3 (w : Nat × Int) : Option (Nat × Nat) :=
  if w.2 - (w.1 : Int) < 2 then none else some (w.1, w.2.toNat)

/-- `area_BET_raw`: `roq` is the Rouquerol transform of the data, `tenth` the literal `0.1`.
`limits = none` is `p_limits is None`. -/
def betWindow (ps roq : List α) (tenth : α) (limits : Option (Option α × Option α)) : Option (Nat × Nat) :=
  match limits with
  | none =>
    let maximum := rouquerolMax roq
    let minP := ps.getD maximum 0 * tenth
    decide3 (searchsorted ps minP, (maximum : Int))
  | some (lo, hi) => decide3 (limitWindow ps lo hi)

/-- `area_langmuir_raw`: default limits `[p_last*0.05, p_last*0.9]`. -/
def langWindow (ps : List α) (c05 c90 : α) (limits : Option (Option α × Option α)) : Option (Nat × Nat) :=
  match limits with
  | none =>
    let last := ps.getD (ps.length - 1) 0
    decide3 (limitWindow ps (some (last * c05)) (some (last * c90)))
  | some (lo, hi) => decide3 (limitWindow ps lo hi)

/-- `da_plot_raw`: `p_limits = None` means `(None, None)`. -/
def daWindow (ps : List α) (limits : Option (Option α × Option α)) : Option (Nat × Nat) :=
  match limits with
  | none => decide3 (limitWindow ps none none)
  | some (lo, hi) => decide3 (limitWindow ps lo hi)

/-- `psd_mesoporous`: `p_limits = None` means `(0.1, 0.99)`. -/
def mesoWindow (ps : List α) (c10 c99 : α) (limits : Option (Option α × Option α)) : Option (Nat × Nat) :=
  match limits with
  | none => decide3 (limitWindow ps (some c10) (some c99))
  | some (lo, hi) => decide3 (limitWindow ps lo hi)

/-- the slice `a[minimum : maximum + 1]` -/
def slice (xs : List α) (w : Nat × Nat) : List α := (xs.take (w.2 + 1)).drop w.1

/-- indices with `lo < curve[i] < hi` -/
def openSection (curve : List α) (lo hi : α) : List Nat :=
  (List.range curve.length).filter (fun i => lo < curve.getD i 0 ∧ curve.getD i 0 < hi)

def pick (xs : List α) (idx : List Nat) : List α := idx.map (fun i => xs.getD i 0)

/-! ### least squares -/

def sum (xs : List α) : α := xs.foldr (· + ·) 0

def mean (xs : List α) : α := sum xs / (xs.length : α)

/-- Σ (x - x̄)(y - ȳ) -/
def sxy (xs ys : List α) : α :=
  sum (List.zipWith (fun x y => (x - mean xs) * (y - mean ys)) xs ys)

/-- slope and intercept of `scipy.stats.linregress(xs, ys)`: `ssxym / ssxm`, `ymean - slope*xmean`
(the common `1/n` of the two covariances cancels). -/
def ols (xs ys : List α) : α × α :=
  let slope := sxy xs ys / sxy xs xs
  (slope, mean ys - slope * mean xs)

end PgVerif.Model.Linear
