/-
Model of the interpolator caches of a point isotherm (core/pointisotherm.py `loading_at`, `pressure_at`,
`spreading_pressure_at`; utilities/isotherm_interpolator.py): the hidden state is the key (branch, kind, fill) of the two
cached interpolators; a query rebuilds the interpolator exactly when the cache is empty or one component of the key differs,
then evaluates the CACHED interpolator.  The evaluation of an interpolator built with key `k` on the observable content `o`
is an arbitrary function `E o k x`, whether its constructor raises an arbitrary function `B o k` (scipy is not modelled).  Core Lean.
-/
namespace PgVerif.Model.Cache

/-- the key stored with a cached interpolator; `fill = none` means "no fill value given" -/
structure Key (φ : Type) where
  branch : String
  kind : String
  fill : Option φ
  deriving DecidableEq, Repr

/-- the admissible KINDS of an `interp_fill` that is given (scipy `interp1d(fill_value=…)`): one value used on both sides (a number or a
one-element array), a `(below, above)` pair, or the string `'extrapolate'`.  The model is polymorphic in the type of fills (`φ`, only
decidable equality is used: the code compares `cache.interp_fill != interp_fill`); the driver instantiates `φ := Fill String`, so that the
executed key distinguishes the kinds and not only their spelling. -/
inductive Fill (ν : Type)
  | value (v : ν)
  | pair (lo hi : ν)
  | extrapolate
  deriving DecidableEq, Repr

structure Hidden (φ : Type) where
  l : Option (Key φ)          -- loading interpolator
  p : Option (Key φ)          -- pressure interpolator
  deriving DecidableEq, Repr

variable {φ ο χ ρ : Type} [DecidableEq φ]

/-- the condition of the code: `cache is None or cache.branch != branch or cache.kind != kind or cache.fill != fill` -/
def mustRebuild (c : Option (Key φ)) (k : Key φ) : Bool :=
  match c with
  | none => true
  | some c => c.branch != k.branch || c.kind != k.kind || c.fill != k.fill

/-- the rebuild step of `loading_at` / `pressure_at`:
`if <mustRebuild>: self.x_interpolator = IsothermInterpolator(...)`.  The constructor may raise (`B o k = some err`: e.g. a cubic
spline through duplicate abscissae): then the assignment does not happen, the cache keeps what it held and the call ends with
that error.  Returns (error of the constructor if any, cache afterwards). -/
def rebuild (B : ο → Key φ → Option ρ) (o : ο) (c : Option (Key φ)) (k : Key φ) : Option ρ × Option (Key φ) :=
  if mustRebuild c k then
    match B o k with
    | some err => (some err, c)
    | none => (none, some k)
  else (none, c)

/-- evaluate the CACHED interpolator (the code never looks at the requested key again) -/
def evalCached (E : ο → Key φ → χ → ρ) (o : ο) (c : Option (Key φ)) (k : Key φ) (x : χ) : ρ :=
  match c with
  | some c => E o c x
  | none => E o k x        -- unreachable: after a successful rebuild step the cache is never empty

/-- `loading_at`: rebuild if needed, then evaluate the cached interpolator -/
def loadingAt (E : ο → Key φ → χ → ρ) (B : ο → Key φ → Option ρ) (o : ο) (h : Hidden φ) (k : Key φ) (x : χ) : ρ × Hidden φ :=
  match (rebuild B o h.l k).1 with
  | some err => (err, { h with l := (rebuild B o h.l k).2 })
  | none => (evalCached E o (rebuild B o h.l k).2 k x, { h with l := (rebuild B o h.l k).2 })

def pressureAt (E : ο → Key φ → χ → ρ) (B : ο → Key φ → Option ρ) (o : ο) (h : Hidden φ) (k : Key φ) (x : χ) : ρ × Hidden φ :=
  match (rebuild B o h.p k).1 with
  | some err => (err, { h with p := (rebuild B o h.p k).2 })
  | none => (evalCached E o (rebuild B o h.p k).2 k x, { h with p := (rebuild B o h.p k).2 })

/-- `spreading_pressure_at` (after the repair of S7): whether the call ends BEFORE the interpolator is consulted depends on the
arguments only (`guard o fill x = some r`: a unit conversion of the data refused, the range guard `interp_fill is None and pressure >
max`, or the Henry region below the first point, where the result is `henry_const * pressure`); otherwise
the last segment is read through `loading_at` with kind `linear` (an error of that call ends the query) -/
def spreadingAt (E : ο → Key φ → χ → ρ) (B : ο → Key φ → Option ρ) (guard : ο → Option φ → χ → Option ρ) (S : ο → χ → ρ → ρ)
    (o : ο) (h : Hidden φ) (branch : String) (fill : Option φ) (x : χ) : ρ × Hidden φ :=
  match guard o fill x with
  | some refused => (refused, h)
  | none =>
    match (rebuild B o h.l ⟨branch, "linear", fill⟩).1 with
    | some err => (err, { h with l := (rebuild B o h.l ⟨branch, "linear", fill⟩).2 })
    | none => (S o x (evalCached E o (rebuild B o h.l ⟨branch, "linear", fill⟩).2 ⟨branch, "linear", fill⟩ x),
               { h with l := (rebuild B o h.l ⟨branch, "linear", fill⟩).2 })

inductive Query (φ χ : Type)
  | loadingAt (k : Key φ) (x : χ)
  | pressureAt (k : Key φ) (x : χ)
  | spreadingAt (branch : String) (fill : Option φ) (x : χ)
  | plain (name : String)                 -- any accessor / export that touches no cache

/-- everything a query needs besides the isotherm: the evaluators of the residue -/
structure World (φ ο χ ρ : Type) where
  EL : ο → Key φ → χ → ρ
  EP : ο → Key φ → χ → ρ
  /-- `some err`: the constructor of the loading / pressure interpolator raises for this key -/
  BL : ο → Key φ → Option ρ
  BP : ο → Key φ → Option ρ
  guard : ο → Option φ → χ → Option ρ
  S : ο → χ → ρ → ρ
  plain : ο → String → ρ

def run (w : World φ ο χ ρ) (o : ο) (h : Hidden φ) : Query φ χ → ρ × Hidden φ
  | .loadingAt k x => loadingAt w.EL w.BL o h k x
  | .pressureAt k x => pressureAt w.EP w.BP o h k x
  | .spreadingAt b f x => spreadingAt w.EL w.BL w.guard w.S o h b f x
  | .plain n => (w.plain o n, h)

/-- the hidden state after a history of queries (the observable content is not an output: no query can change it) -/
def after (w : World φ ο χ ρ) (o : ο) (h : Hidden φ) (qs : List (Query φ χ)) : Hidden φ :=
  qs.foldl (fun h q => (run w o h q).2) h

/-- invariant of the hidden state: a cached interpolator is one whose constructor succeeded on this content -/
def Valid (w : World φ ο χ ρ) (o : ο) (h : Hidden φ) : Prop :=
  (∀ c, h.l = some c → w.BL o c = none) ∧ (∀ c, h.p = some c → w.BP o c = none)

/-!
### The defect class "re-use the cached interpolator and change its fill IN PLACE"

`loading_at` rebuilds only when branch or kind differ; when only the fill differs the cached object is kept and relabelled
(`set_fill`).  The hidden state is then the key the object was BUILT with and the fill it carries now.  What a relabelled object returns is a
function `EI o built fill x` of its own; the shortcut is invisible exactly when `EI o built fill = E o {built with fill}` (`FillSeparable`):
scipy's `interp1d` is not like that (the code path for `'extrapolate'` is bound at construction and its flag survives a later assignment of
`fill_value` / `bounds_error`).  Used for the witnesses in Props/C04.lean.
-/
namespace Retarget

structure Cached (φ : Type) where
  built : Key φ
  fill : Option φ
  deriving DecidableEq, Repr

/-- the key the cached object claims to have (what `interp_branch`, `interp_kind`, `interp_fill` show) -/
def label (c : Cached φ) : Key φ := { c.built with fill := c.fill }

/-- rebuild when branch or kind differ, otherwise keep the object and set its fill -/
def step (c : Option (Cached φ)) (k : Key φ) : Cached φ :=
  match c with
  | none => ⟨k, k.fill⟩
  | some c => if c.built.branch != k.branch || c.built.kind != k.kind then ⟨k, k.fill⟩ else ⟨c.built, k.fill⟩

def loadingAt (EI : ο → Key φ → Option φ → χ → ρ) (o : ο) (c : Option (Cached φ)) (k : Key φ) (x : χ) : ρ × Option (Cached φ) :=
  (EI o (step c k).built (step c k).fill x, some (step c k))

def after (EI : ο → Key φ → Option φ → χ → ρ) (o : ο) (c : Option (Cached φ)) (qs : List (Key φ × χ)) : Option (Cached φ) :=
  qs.foldl (fun c q => (loadingAt EI o c q.1 q.2).2) c

/-- a relabelled object behaves like one built for its label -/
def FillSeparable (EI : ο → Key φ → Option φ → χ → ρ) : Prop :=
  ∀ o k f x, EI o k f x = EI o { k with fill := f } f x

end Retarget

/-!
### The defect class "the cache test is a PARTIAL comparison" (finding S53-C04 of the unchanged library, repaired)

The model above uses a total, decidable equality of fills.  The code wrote `cache.interp_fill != interp_fill`, and Python's `!=` between a
`(below, above)` tuple and a numpy array / numpy number broadcasts to an array without a truth value: the `if` raises `ValueError`.  Here the
comparison is a parameter `ne a b : Option Bool` (`none` = the comparison itself raises; it is reached only when branch and kind agree: `or`
short-circuits), and `cmpErr` is the error the call then ends with; the cache is left as it was.  The core model is the instance `TotalNe`.
-/
namespace PartialCmp

/-- `cache is None or cache.branch != branch or cache.kind != kind or <ne cache.fill fill>` -/
def mustRebuild (ne : Option φ → Option φ → Option Bool) (c : Option (Key φ)) (k : Key φ) : Option Bool :=
  match c with
  | none => some true
  | some c => if c.branch != k.branch || c.kind != k.kind then some true else ne c.fill k.fill

/-- `loading_at` on one cache slot: (outcome, cache afterwards) -/
def loadingAt (ne : Option φ → Option φ → Option Bool) (cmpErr : ρ) (E : ο → Key φ → χ → ρ) (B : ο → Key φ → Option ρ) (o : ο)
    (c : Option (Key φ)) (k : Key φ) (x : χ) : ρ × Option (Key φ) :=
  match mustRebuild ne c k with
  | none => (cmpErr, c)
  | some true =>
    match B o k with
    | some err => (err, c)
    | none => (E o k x, some k)
  | some false => (evalCached E o c k x, c)

def after (ne : Option φ → Option φ → Option Bool) (cmpErr : ρ) (E : ο → Key φ → χ → ρ) (B : ο → Key φ → Option ρ) (o : ο)
    (c : Option (Key φ)) (qs : List (Key φ × χ)) : Option (Key φ) :=
  qs.foldl (fun c q => (loadingAt ne cmpErr E B o c q.1 q.2).2) c

/-- the comparison never raises and is the negation of equality -/
def TotalNe (ne : Option φ → Option φ → Option Bool) : Prop :=
  ∀ a b, ne a b = some (a != b)

/-- the repaired comparison (`_same_fill` of core/pointisotherm.py) on the kinds of `Fill`: a tuple only equals a tuple, element by element;
`None` only `None`; a string only an equal string; anything else is compared as arrays (`numpy.array_equal`: here equality of `ν`) -/
def sameFill {ν : Type} [DecidableEq ν] : Option (Fill ν) → Option (Fill ν) → Bool
  | some (.pair a b), some (.pair c d) => a == c && b == d
  | some (.pair _ _), _ => false
  | _, some (.pair _ _) => false
  | none, none => true
  | none, _ => false
  | _, none => false
  | some .extrapolate, some .extrapolate => true
  | some .extrapolate, _ => false
  | _, some .extrapolate => false
  | some (.value v), some (.value w) => v == w

end PartialCmp

end PgVerif.Model.Cache

/-!
## Generic shape of a read-only query on an object with hidden state

`step o h q = (outcome, observable state afterwards, hidden state afterwards)`.  `afterG` runs a history.  The three
concrete hidden states below (thermodynamic state of an adsorbate, module-level loaded-curve / kernel caches, and the
interpolator caches above) are instances; `Session` puts them side by side.
-/
namespace PgVerif.Model.Cache

section Generic
variable {ο η Q ρ : Type}

def afterG (step : ο → η → Q → ρ × ο × η) (s : ο × η) (qs : List Q) : ο × η :=
  qs.foldl (fun s q => ((step s.1 s.2 q).2.1, (step s.1 s.2 q).2.2)) s

end Generic

/-- outcome of an accessor: a value, or the kind of error (`CalculationError` is the only one the thermodynamic
accessors raise after the fallback to the dictionary) -/
inductive Out (ρ : Type)
  | ok (v : ρ)
  | calcErr
  deriving DecidableEq, Repr

/-!
## Thermodynamic state of an adsorbate (core/adsorbate.py)

`Adsorbate._state` is `None` until the property `backend` is read for the first time; then it is ONE mutable CoolProp
`AbstractState`.  Every accessor with `calculate=True` does `state = self.backend; state.update(pair, v1, v2)` with its own
arguments and then reads one quantity from the state (`enthalpy_liquefaction`: two such steps, combined by subtraction);
when CoolProp raises, the accessor falls back to the dictionary look-up `get_prop(key)` (the `calculate=False` path), which
raises `CalculationError` when the key is absent.  `t_triple`, `t_critical`, `p_critical`, `molar_mass` read constants of the
fluid through the state without updating it; `p_triple` asks `PropsSI` without touching the state.

Observable part `o : ο`: the adsorbate as the user sees it (name, aliases, the `properties` dictionary); the model only needs
`dict o key` (the dictionary, already scaled to the unit of the accessor) and the values CoolProp would return for it.
Hidden part: `none` = `_state is None`; `some none` = created, never updated; `some (some f)` = last flash `f`.

`policy cur req` says whether the accessor really performs `state.update(req)` when the state currently holds `cur`.
The code always updates (`alwaysUpdate`).  The history-independence theorem holds under the invariant `FullUpdate`:
"an accessor may skip the update only if the state already holds ALL coordinates (pair, v1, v2) it is going to read".
-/
namespace Thermo

structure Flash (φ : Type) where
  pair : String          -- "QT" | "PQ"
  v1 : φ
  v2 : φ
  deriving DecidableEq, Repr

abbrev Hidden (φ : Type) := Option (Option (Flash φ))

structure World (φ ο ρ : Type) where
  /-- what the state returns for quantity `name` after `update f` (`none`: CoolProp raises, or there is no backend) -/
  F : ο → Flash φ → String → Option ρ
  /-- constants of the fluid (`none`: not available) -/
  K : ο → String → Option ρ
  /-- the `properties` dictionary, scaled to the unit the accessor returns -/
  dict : ο → String → Option ρ
  /-- how an accessor combines its reads -/
  comb : List ρ → ρ
  /-- does the accessor perform `state.update(req)` when the state holds `cur`? -/
  policy : Option (Flash φ) → Flash φ → Bool

def alwaysUpdate {φ : Type} : Option (Flash φ) → Flash φ → Bool := fun _ _ => true

/-- the invariant under which the shared state is invisible -/
def FullUpdate {φ : Type} (policy : Option (Flash φ) → Flash φ → Bool) : Prop :=
  ∀ cur req, policy cur req = false → cur = some req

inductive Query (φ : Type)
  /-- `calculate=True` accessor: these (update, read) steps, fall back to dictionary entry `key` -/
  | flashes (steps : List (Flash φ × String)) (key : String)
  /-- `calculate=True` accessor of a constant; `viaState`: through `self.backend` (creates the state) or not (`p_triple`) -/
  | const (name key : String) (viaState : Bool)
  /-- `calculate=False` -/
  | lookup (key : String)

variable {φ ο ρ : Type}

def lookupOut (w : World φ ο ρ) (o : ο) (key : String) : Out ρ :=
  match w.dict o key with
  | some v => .ok v
  | none => .calcErr

/-- one `state.update(f)` (if the policy says so) followed by one read from the state -/
def flashRead (w : World φ ο ρ) (o : ο) (s : Option (Flash φ)) (f : Flash φ) (name : String) : Option ρ × Option (Flash φ) :=
  let s' := if w.policy s f then some f else s
  (match s' with
   | some g => w.F o g name
   | none => none, s')

def runSteps (w : World φ ο ρ) (o : ο) : Option (Flash φ) → List (Flash φ × String) → Option (List ρ) × Option (Flash φ)
  | s, [] => (some [], s)
  | s, (f, name) :: rest =>
    match (flashRead w o s f name).1 with
    | none => (none, (flashRead w o s f name).2)
    | some v => (((runSteps w o (flashRead w o s f name).2 rest).1).map (v :: ·), (runSteps w o (flashRead w o s f name).2 rest).2)

/-- the property `backend`: the state, created on first use -/
def backend (h : Hidden φ) : Option (Flash φ) := h.getD none

/-- outcome, observable adsorbate afterwards, hidden state afterwards -/
def run (w : World φ ο ρ) (o : ο) (h : Hidden φ) : Query φ → Out ρ × ο × Hidden φ
  | .flashes steps key =>
    let r := runSteps w o (backend h) steps
    (match r.1 with
     | some vs => .ok (w.comb vs)
     | none => lookupOut w o key, o, some r.2)
  | .const name key viaState =>
    (match w.K o name with
     | some v => .ok v
     | none => lookupOut w o key, o, if viaState then some (backend h) else h)
  | .lookup key => (lookupOut w o key, o, h)

end Thermo

/-!
### The defect class "an accessor memoises into the public dictionary"

Same accessor, but a value obtained from the backend is also stored under the accessor's key when the key is absent
(`properties.setdefault(key, value)`).  The observable is then the dictionary itself.  Used only for the witnesses in
Props/C04.lean: the adsorbate is changed by a read-only call, and a later `calculate=False` look-up changes its KIND of outcome.
-/
namespace ThermoMemo
open Thermo

abbrev Dict (ρ : Type) := List (String × ρ)

variable {φ ρ : Type}

def setdefault (d : Dict ρ) (key : String) (v : ρ) : Dict ρ :=
  match d.lookup key with
  | some _ => d
  | none => d ++ [(key, v)]

/-- `run` of a constant accessor with memoisation (the dictionary is the observable) -/
def runConstMemo (w : Thermo.World φ (Dict ρ) ρ) (o : Dict ρ) (h : Thermo.Hidden φ) (name key : String) : Out ρ × Dict ρ × Thermo.Hidden φ :=
  match w.K o name with
  | some v => (.ok v, setdefault o key v, h)
  | none => (lookupOut w o key, o, h)

end ThermoMemo

/-!
### The defect class "a read-only query binds a new name on the isotherm" (export = instance dictionary minus the reserved names)

`BaseIsotherm.to_dict()` is `vars(self)` without the names listed in `_reserved_params`; the identifier, `==` and the three exporters are functions
of that dictionary.  A query that memoises something on the instance (`self.<name> = value` when absent) is therefore invisible exactly when the
name is reserved.  `readTemperature` is the shape of the seeded change seedout7/C04-m1: the kelvin value is memoised only when the temperature is
STORED in another unit — an isotherm kept in kelvin takes the early return and nothing is bound (why the stored representation is a dimension
of the worlds of the failing-input search).
-/
namespace Export
open ThermoMemo

variable {ρ : Type}

/-- `to_dict()`: the instance dictionary without the reserved names -/
def toDict (reserved : List String) (vars : Dict ρ) : Dict ρ := vars.filter (fun kv => !(reserved.contains kv.1))

/-- the `temperature` property with a memo on the instance: (value in kelvin, instance dictionary afterwards) -/
def readTemperature (toKelvin : ρ → ρ) (unit : String) (stored : ρ) (memoName : String) (vars : Dict ρ) : ρ × Dict ρ :=
  if unit = "K" then (stored, vars) else (toKelvin stored, setdefault vars memoName (toKelvin stored))

end Export

/-!
### The defect class "an accessor memoises its result under a COARSENED argument"

A one-flash accessor (`saturation_pressure`, the densities, `surface_tension`) keeps a private table `coarse f ↦ value` beside the CoolProp
state (`round(temp, 1)`, a truncated or printed float, the single-precision image of the argument): a hit returns the stored value without touching the
state, a miss computes, stores a successful result and returns it.  The table is invisible exactly when the coarsened key determines the value
(`CoarseDetermines`); rounding a temperature does not (Props/C04.lean `coarseKey_necessary`).
-/
namespace ThermoKeyed
open Thermo

abbrev Hidden (φ κ ρ : Type) := Thermo.Hidden φ × List (κ × ρ)

variable {φ ο ρ κ : Type} [DecidableEq κ]

/-- one call of the accessor reading `name` after the flash `f`, dictionary key `key` -/
def run (w : Thermo.World φ ο ρ) (coarse : Flash φ → κ) (name key : String) (o : ο) (h : Hidden φ κ ρ) (f : Flash φ) : Out ρ × ο × Hidden φ κ ρ :=
  match h.2.lookup (coarse f) with
  | some v => (.ok v, o, h)
  | none =>
    match (flashRead w o (backend h.1) f name).1 with
    | some v => (.ok v, o, (some (flashRead w o (backend h.1) f name).2, (coarse f, v) :: h.2))
    | none => (lookupOut w o key, o, (some (flashRead w o (backend h.1) f name).2, h.2))

/-- the coarsened key determines what CoolProp returns for `name` -/
def CoarseDetermines (w : Thermo.World φ ο ρ) (coarse : Flash φ → κ) (name : String) : Prop :=
  ∀ o f f', coarse f = coarse f' → w.F o f name = w.F o f' name

/-- invariant of the table: what is stored under a key is what CoolProp returns for EVERY flash with that key -/
def Sound (w : Thermo.World φ ο ρ) (coarse : Flash φ → κ) (name : String) (o : ο) (h : Hidden φ κ ρ) : Prop :=
  ∀ f v, h.2.lookup (coarse f) = some v → w.F o f name = some v

end ThermoKeyed

/-!
## Module-level caches of loaded reference curves and DFT kernels
(characterisation/models_thickness.py `_LOADED` + `load_std_isotherm`, characterisation/psd_kernel.py `_LOADED` + `_load_kernel`)

`if key in _LOADED: return _LOADED[key]`; otherwise load the file, build the interpolator(s), store, return.
A request `r : ι` (a curve name, a kernel path) is stored under `keyOf r`; `loader r` is what loading from disk gives
(the files do not change during a session).  The cache is invisible under the invariant `Sound`: "the content stored under
`keyOf r` is `loader r`"; it is preserved by `load` when the key determines the content (`KeyDetermines`).
-/
namespace Loaded

abbrev Hidden (κ ν : Type) := List (κ × ν)

variable {ι κ ν : Type} [DecidableEq κ]

def load (keyOf : ι → κ) (loader : ι → ν) (c : Hidden κ ν) (r : ι) : ν × Hidden κ ν :=
  match c.lookup (keyOf r) with
  | some v => (v, c)
  | none => (loader r, (keyOf r, loader r) :: c)

def Sound (keyOf : ι → κ) (loader : ι → ν) (c : Hidden κ ν) : Prop :=
  ∀ r v, c.lookup (keyOf r) = some v → v = loader r

def KeyDetermines (keyOf : ι → κ) (loader : ι → ν) : Prop :=
  ∀ r r', keyOf r = keyOf r' → loader r = loader r'

def after (keyOf : ι → κ) (loader : ι → ν) (c : Hidden κ ν) (rs : List ι) : Hidden κ ν :=
  rs.foldl (fun c r => (load keyOf loader c r).2) c

end Loaded

/-!
## A session: one point isotherm, its adsorbate, the module caches

Hidden state = interpolator keys × thermodynamic state × loaded curves; a query addresses one of the three.
The observable part (isotherm content, adsorbate) is returned unchanged by every query.
-/
namespace Session

structure Obs (οi οa : Type) where
  iso : οi
  ads : οa

/-- `φ`: fills of the interpolator keys, `ψ`: coordinates of the CoolProp flashes -/
structure Hid (φ ψ κ ν : Type) where
  interp : Cache.Hidden φ
  thermo : Thermo.Hidden ψ
  loaded : Loaded.Hidden κ ν

inductive Query (φ ψ χ ι : Type)
  | iso (q : Cache.Query φ χ)
  | ads (q : Thermo.Query ψ)
  | std (r : ι)

/-- uniform outcome type of a session -/
inductive Res (ρ ν : Type)
  | val (v : ρ)
  | out (v : Out ρ)
  | obj (v : ν)

structure World (φ ψ οi οa χ ρ ι κ ν : Type) where
  iso : Cache.World φ οi χ ρ
  ads : Thermo.World ψ οa ρ
  keyOf : ι → κ
  loader : ι → ν

variable {φ ψ οi οa χ ρ ι κ ν : Type} [DecidableEq φ] [DecidableEq κ]

def step (w : World φ ψ οi οa χ ρ ι κ ν) (o : Obs οi οa) (h : Hid φ ψ κ ν) : Query φ ψ χ ι → Res ρ ν × Obs οi οa × Hid φ ψ κ ν
  | .iso q => (.val (Cache.run w.iso o.iso h.interp q).1, o, { h with interp := (Cache.run w.iso o.iso h.interp q).2 })
  | .ads q => (.out (Thermo.run w.ads o.ads h.thermo q).1, { o with ads := (Thermo.run w.ads o.ads h.thermo q).2.1 },
               { h with thermo := (Thermo.run w.ads o.ads h.thermo q).2.2 })
  | .std r => (.obj (Loaded.load w.keyOf w.loader h.loaded r).1, o, { h with loaded := (Loaded.load w.keyOf w.loader h.loaded r).2 })

def fresh : Hid φ ψ κ ν := ⟨⟨none, none⟩, none, []⟩

end Session

end PgVerif.Model.Cache
