/-
Model of the interpolator caches of a point isotherm (core/pointisotherm.py `loading_at`, `pressure_at`,
`spreading_pressure_at`; utilities/isotherm_interpolator.py): the hidden state is the key (branch, kind, fill) of the two
cached interpolators; a query rebuilds the interpolator exactly when the cache is empty or one component of the key differs,
then evaluates the CACHED interpolator.  The evaluation of an interpolator built with key `k` on the observable content `o`
is an arbitrary function `E o k x` (scipy is not modelled).  Core Lean.
-/
namespace PgVerif.Model.Cache

/-- the key stored with a cached interpolator; `fill = none` means "no fill value given" -/
structure Key (φ : Type) where
  branch : String
  kind : String
  fill : Option φ
  deriving DecidableEq, Repr

structure Hidden (φ : Type) where
  l : Option (Key φ)          -- loading interpolator
  p : Option (Key φ)          -- pressure interpolator
  deriving DecidableEq, Repr

variable {φ ο χ ρ : Type} [DecidableEq φ]

/-- the condition of the code: `cache is None or cache.branch != branch or cache.kind != kind or cache.fill != fill` -/
def mustRebuild (c : Option (Key φ)) (k : Key φ) : Bool :=
  match c with
  | none => true
  | some c => c.branch != k.branch || c.kind != k.kind || c.fill != k.fill

/-- `loading_at`: rebuild if needed, then evaluate the cached interpolator -/
def loadingAt (E : ο → Key φ → χ → ρ) (o : ο) (h : Hidden φ) (k : Key φ) (x : χ) : ρ × Hidden φ :=
  let h' : Hidden φ := if mustRebuild h.l k then { h with l := some k } else h
  match h'.l with
  | some c => (E o c x, h')
  | none => (E o k x, h')        -- unreachable: after the step above the cache is never empty

def pressureAt (E : ο → Key φ → χ → ρ) (o : ο) (h : Hidden φ) (k : Key φ) (x : χ) : ρ × Hidden φ :=
  let h' : Hidden φ := if mustRebuild h.p k then { h with p := some k } else h
  match h'.p with
  | some c => (E o c x, h')
  | none => (E o k x, h')

/-- `spreading_pressure_at` (after the repair of S7): the range guard depends on the arguments only (`guard o fill x`),
then the last segment is read through `loading_at` with kind `linear` -/
def spreadingAt (E : ο → Key φ → χ → ρ) (guard : ο → Option φ → χ → Option ρ) (S : ο → χ → ρ → ρ)
    (o : ο) (h : Hidden φ) (branch : String) (fill : Option φ) (x : χ) : ρ × Hidden φ :=
  match guard o fill x with
  | some refused => (refused, h)
  | none =>
    let (lq, h') := loadingAt E o h ⟨branch, "linear", fill⟩ x
    (S o x lq, h')

inductive Query (φ χ : Type)
  | loadingAt (k : Key φ) (x : χ)
  | pressureAt (k : Key φ) (x : χ)
  | spreadingAt (branch : String) (fill : Option φ) (x : χ)
  | plain (name : String)                 -- any accessor / export that touches no cache

/-- everything a query needs besides the isotherm: the evaluators of the residue -/
structure World (φ ο χ ρ : Type) where
  EL : ο → Key φ → χ → ρ
  EP : ο → Key φ → χ → ρ
  guard : ο → Option φ → χ → Option ρ
  S : ο → χ → ρ → ρ
  plain : ο → String → ρ

def run (w : World φ ο χ ρ) (o : ο) (h : Hidden φ) : Query φ χ → ρ × Hidden φ
  | .loadingAt k x => loadingAt w.EL o h k x
  | .pressureAt k x => pressureAt w.EP o h k x
  | .spreadingAt b f x => spreadingAt w.EL w.guard w.S o h b f x
  | .plain n => (w.plain o n, h)

/-- the hidden state after a history of queries (the observable content is not an output: no query can change it) -/
def after (w : World φ ο χ ρ) (o : ο) (h : Hidden φ) (qs : List (Query φ χ)) : Hidden φ :=
  qs.foldl (fun h q => (run w o h q).2) h

end PgVerif.Model.Cache
