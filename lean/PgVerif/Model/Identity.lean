/-
Model of the CONTENT of an isotherm and of the way the constructor + `BaseIsotherm.to_dict` turn it into the dictionary that
`utilities/hashgen.isotherm_to_hash` serialises (C05).

`Model/Json.lean` speaks about the dictionary `core` as a whole; here the dictionary is built from its parts so that statements
can be made per part: the material (a name, or a dictionary name + properties), the adsorbate, the temperature, the SEVEN unit
labels, the user's metadata, and the payload (rows with every column / model dictionary / nothing).

  * `Labels.stored`  — `BaseIsotherm.__init__`: the pressure unit is cleared in the relative pressure modes, every other label is
                       stored exactly as given (`None` and `''` included, where the constructor accepts them: the loading and
                       material units of the fraction / percent loading bases are not validated);
  * `Labels.toDict`  — the labels' entries of `to_dict()`: all seven, whatever the pressure mode and whatever the bases;
  * `Content.toIso`  — `to_dict()` of the three classes (ModelIsotherm's `branch` attribute is part of the metadata here);
  * the identifier is `Json.isoId H (Content.toIso c)`.

Core Lean, executable (driver `Drv/Identity.lean`).
-/
import PgVerif.Model.Json

namespace PgVerif.Model.Identity
open PgVerif.Model.Json

/-- the seven unit labels as handed to the constructor (`none` is Python's `None`) -/
structure Labels where
  pressureMode : String
  pressureUnit : Option String
  loadingBasis : String
  loadingUnit : Option String
  materialBasis : String
  materialUnit : Option String
  temperatureUnit : String
  deriving DecidableEq, Repr

def optStr : Option String → MVal
  | none => .scalar .null
  | some s => .scalar (.str s)

def strVal (s : String) : MVal := .scalar (.str s)

/-- `self.pressure_mode.startswith('relative')` -/
def isRelative (mode : String) : Bool := "relative".toList.isPrefixOf mode.toList

/-- `BaseIsotherm.__init__`: `if self.pressure_mode.startswith('relative'): self.pressure_unit = None`; nothing else is touched -/
def Labels.stored (u : Labels) : Labels :=
  if isRelative u.pressureMode then { u with pressureUnit := none } else u

/-- the labels' entries of `to_dict()` (`vars(self)`): ALL seven, for every mode and every basis -/
def Labels.toDict (u : Labels) : Dict :=
  [("pressure_mode", strVal u.pressureMode), ("pressure_unit", optStr u.pressureUnit),
   ("material_basis", strVal u.materialBasis), ("material_unit", optStr u.materialUnit),
   ("loading_basis", strVal u.loadingBasis), ("loading_unit", optStr u.loadingUnit),
   ("temperature_unit", strVal u.temperatureUnit)]

def labelKeys : List String :=
  ["pressure_mode", "pressure_unit", "material_basis", "material_unit", "loading_basis", "loading_unit", "temperature_unit"]

/-- the keys the constructor owns: metadata cannot use them -/
def fixedKeys : List String := ["material", "adsorbate", "temperature"] ++ labelKeys

structure Content where
  material : MVal            -- the name, or the dictionary {name, properties…}
  adsorbate : String
  temperature : Scalar
  labels : Labels
  metadata : Dict            -- keys outside `fixedKeys`
  payload : Payload          -- rows (pressure, loading, branch mark, every extra column) / model dictionary / nothing
  deriving DecidableEq, Repr

/-- the constructor-owned entries of `to_dict()` -/
def Content.fixed (c : Content) : Dict :=
  [("material", c.material), ("adsorbate", strVal c.adsorbate), ("temperature", .scalar c.temperature)] ++ c.labels.stored.toDict

/-- what is observable of a freshly built isotherm: `to_dict()` and the payload -/
def Content.toIso (c : Content) : Iso := ⟨c.fixed ++ c.metadata, c.payload⟩

/-- the identifier of an isotherm built from a content -/
def contentId {ι : Type} (H : Dict × Payload → ι) (c : Content) : ι := isoId H c.toIso

end PgVerif.Model.Identity
