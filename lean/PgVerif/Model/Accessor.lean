/-
Semantics of the accessor descriptors (`Model/AccessorDesc.lean`) against an abstract thermodynamic backend and an abstract
property dictionary.  Written once over a field `α`, executed at `α = ℚ` by `Drv/Accessor.lean`, proved for every field.

The control flow is the Python one, statement for statement:

* a backend read is `B source getter input : Option α`; `none` = the backend raised (no such fluid, temperature above the
  critical point, `self.backend_name` missing, `update` called with `None` …).  In flight this is the error `.other`;
* `try_ body classes handler` routes an error of `body` to `handler` iff one of `classes` catches it
  (`BaseException`/`Exception` catch everything, `pgError` the two library errors, any other name exactly its own class);
* `prop key` is `self.get_prop(key)`: `ParameterError` when the dictionary has no (non-`None`) value for `key`;
* `self_ fwd` is the call `self.<same method>(<fwd>, calculate=False)`: the same program once more, with `calculate = False`
  and every parameter that is not forwarded at its default `None`; a second level of recursion is not modelled (`.other`);
* `unitIfGiven p table src`: `x = p; if unit is not None: x = c_unit(table, x, src, unit)` — `c_unit` is the model of
  `Model/Units.lean` over the *generated* unit table (`Gen.unitTable`), so a bad unit is a `ParameterError` here too.
-/
import PgVerif.Model.AccessorDesc
import PgVerif.Model.Units

namespace PgVerif.Model.Acc
open PgVerif.Model

variable {α : Type}

/-- Python exception class of the statement `raise <cls>(…)` -/
def errOfClass : String → Err
  | "ParameterError" => .param
  | "CalculationError" => .calc
  | "KeyError" => .key
  | "TypeError" => .type
  | "ValueError" => .value
  | _ => .other

def pyName : Err → String
  | .param => "ParameterError" | .calc => "CalculationError" | .key => "KeyError" | .type => "TypeError"
  | .value => "ValueError" | .other => ""

/-- does `except (<classes>)` catch the error? -/
def catches (classes : List String) (e : Err) : Bool :=
  classes.any fun c =>
    c == "BaseException" || c == "Exception" || (c == "pgError" && (e == .param || e == .calc)) || (c != "" && c == pyName e)

section
variable [Field α] [DecidableEq α]

/-- Python truthiness of a numeric argument: `None` and `0` are false -/
def truthyNum : Option α → Bool
  | some x => decide (x ≠ 0)
  | none => false

def Cond.eval (D : Dict α) (a : Args α) : Cond → Bool
  | .calculate => a.calculate
  | .temp => truthyNum a.temp
  | .press => truthyNum a.press
  | .hasKey k => (D k).isSome
  | .not c => !(c.eval D a)
  | .and x y => x.eval D a && y.eval D a

/-- the input a read is made at; `none` when the argument it needs was not given (`update(…, None)` raises) -/
def Read.inp (r : Read) (a : Args α) : Option (Inp α) :=
  match r.prep with
  | .none => some .none
  | .QT n d => a.temp.map fun T => .QT ((n : α) / (d : α)) T
  | .PQ n d => a.press.map fun p => .PQ p ((n : α) / (d : α))

/-- `Σ num/den · read`; `none` as soon as one read raises -/
def evalLin (B : Backend α) (a : Args α) : List Term → Option α
  | [] => some 0
  | t :: ts =>
    match t.read.inp a with
    | none => none
    | some i =>
      match B t.read.source t.read.getter i, evalLin B a ts with
      | some x, some r => some ((t.num : α) / (t.den : α) * x + r)
      | _, _ => none

/-- arguments of the recursive call `self.<method>(<fwd>, calculate=False)` -/
def forward (fwd : List String) (a : Args α) : Args α :=
  { temp := if fwd.contains "temp" then a.temp else none
    press := if fwd.contains "press" then a.press else none
    unit := if fwd.contains "unit" then a.unit else none
    calculate := false }

/-- one level of the method body; `rec` answers the recursive call -/
def evalWith (rec : List String → Args α → Except Err α) (B : Backend α) (D : Dict α) (a : Args α) :
    Prog → Except Err α
  | .lin ts =>
    match evalLin B a ts with
    | some v => .ok v
    | none => .error .other
  | .prop k n d =>
    match D k with
    | some v => .ok (v * (n : α) / (d : α))
    | none => .error .param
  | .self_ fwd => rec fwd a
  | .raise c => .error (errOfClass c)
  | .ite c t e => if c.eval D a then evalWith rec B D a t else evalWith rec B D a e
  | .try_ b cs h =>
    match evalWith rec B D a b with
    | .ok v => .ok v
    | .error e => if catches cs e then evalWith rec B D a h else .error e
  | .unitIfGiven p tb src =>
    match evalWith rec B D a p with
    | .error e => .error e
    | .ok v =>
      match a.unit with
      | none => .ok v
      | some u => cUnit (Gen.unitTable tb) v (some src) (some u) 1

/-- the method: its body, with the recursive call answered by the body once more -/
def run (p : Prog) (B : Backend α) (D : Dict α) (a : Args α) : Except Err α :=
  evalWith (fun fwd a' => evalWith (fun _ _ => .error .other) B D (forward fwd a') p) B D a p

/-- `self.<name>(…)` on a class whose accessor methods are `ds`: aliases forward their arguments unchanged -/
def call (ds : List Desc) (name : String) (B : Backend α) (D : Dict α) (a : Args α) : Except Err α :=
  match ds.find? (·.name == name) with
  | none => .error .other
  | some d =>
    match d.body with
    | .prog p => run p B D a
    | .alias t =>
      match ds.find? (·.name == t) with
      | some ⟨_, _, .prog p⟩ => run p B D a
      | _ => .error .other

/-- `get_prop(k)` of a class whose method has shape `g`: the dictionary value; a key that names an attribute of the object is
answered by the attribute when the method falls back on `getattr` (for the property getters of `Material`: the dictionary
again, i.e. `None`); anything else raises the class named by the descriptor -/
def getProp (g : GetPropDesc) (D : Dict α) (isAttr : String → Bool) (k : String) : Except Err (Option α) :=
  match D k with
  | some v => .ok (some v)
  | none => if g.attrFallback && isAttr k then .ok none else .error (errOfClass g.missing)

/-- `Material.<property>`: the value, `none` for Python's `None` -/
def matGet (g : GetPropDesc) (D : Dict α) (isAttr : String → Bool) : MatBody → Except Err (Option α)
  | .dictGet k => .ok (D k)
  | .getProp k => getProp g D isAttr k

end

/-- default of `calculate` as the signature gives it -/
def defaultCalculate (d : Desc) : Option Bool :=
  match d.params.lookup "calculate" with
  | some "True" => some true
  | some "False" => some false
  | _ => none

end PgVerif.Model.Acc
