/-
Hand-written, executable part of the C10 model (polymorphic over a field; run at α = ℚ by Drv/ModelEval.lean,
instantiated at ℝ in Props/C10/Exact.lean and Props/C10/Range.lean):

* the *rational* published model equations (Henry, Langmuir, dual/triple-site Langmuir, BET, GAB, Quadratic,
  Temkin approximation).  Same text as `Spec.M.*` (which is over ℝ only, because the other models need
  `exp/log/rpow`); at ℚ they give the EXACT value of the published equation at the doubles the harness sends, so a
  floating-point evaluation of the library that is algebraically right but numerically wrong (cancellation at
  low coverage, near the pole, …) shows up as a concrete `(parameters, pressure)`;
* how a model is *called*: a call on an array is the map of the scalar function and leaves the argument alone
  (`call`), against which the harness compares every argument kind, and the defect class "the callee works in
  place on the caller's array" (`callInPlace`);
* whole-range evaluation of a model isotherm (core/modelisotherm.py `ModelIsotherm.pressure` / `.loading`):
  `numpy.linspace` over the range the model was built on, the bare model, a linear unit conversion, the strict
  `limits` filter.  Values of transcendental models enter as input lists (as in Model/SpreadPoint.lean);
* evaluation through a model isotherm in a stored STATE (`MState`: temperature number + unit, pressure representation, loading
  scale): `kelvinOf`, `c_pressure` branch by branch (`convP`), `loadingAtS` / `pressureAtS` / `spreadingAtS` /
  `wholePressureS` / `wholeLoadingS`, and the defect class "a conversion is handed another temperature than the kelvin one"
  (`loadingAtT`, `pressureAtT`, `spreadingAtT`); theorems in Props/C10/State.lean.
-/
import Mathlib.Algebra.Order.Field.Basic

namespace PgVerif.Model.MEval

variable {α : Type} [Field α]

/-! ### rational model equations (published form; parameter order = `param_names`) -/

def henry (K p : α) : α := K * p
def henryInv (K n : α) : α := n / K
def langmuir (K nm p : α) : α := nm * (K * p) / (1 + K * p)
def langmuirInv (K nm n : α) : α := n / (K * (nm - n))
def dslangmuir (nm1 K1 nm2 K2 p : α) : α := langmuir K1 nm1 p + langmuir K2 nm2 p
def tslangmuir (nm1 nm2 nm3 K1 K2 K3 p : α) : α := langmuir K1 nm1 p + langmuir K2 nm2 p + langmuir K3 nm3 p
def bet (nm C N p : α) : α := nm * C * p / ((1 - N * p) * (1 - N * p + C * p))
def gab (nm C K p : α) : α := nm * C * (K * p) / ((1 - K * p) * (1 - K * p + C * (K * p)))
def quadratic (nm Ka Kb p : α) : α := nm * (Ka + 2 * Kb * p) * p / (1 + Ka * p + Kb * p ^ 2)
def temkin (nm K tht p : α) : α :=
  nm * (K * p / (1 + K * p) + tht * (K * p / (1 + K * p)) ^ 2 * (K * p / (1 + K * p) - 1))

/-- Henry constant `lim n(p)/p` of the rational models -/
def henryConst (model : String) (ps : List α) : Option α :=
  match model, ps with
  | "Henry", [K] => some K
  | "Langmuir", [K, nm] => some (nm * K)
  | "DSLangmuir", [nm1, K1, nm2, K2] => some (nm1 * K1 + nm2 * K2)
  | "TSLangmuir", [nm1, nm2, nm3, K1, K2, K3] => some (nm1 * K1 + nm2 * K2 + nm3 * K3)
  | "BET", [nm, C, _] => some (nm * C)
  | "GAB", [nm, C, K] => some (nm * C * K)
  | "Quadratic", [nm, Ka, _] => some (nm * Ka)
  | "TemkinApprox", [nm, K, _] => some (nm * K)
  | _, _ => none

/-- dispatch used by the driver: `none` = not a rational closed form / wrong number of parameters -/
def evalModel (model fn : String) (ps : List α) (x : α) : Option α :=
  match model, fn, ps with
  | "Henry", "loading", [K] => some (henry K x)
  | "Henry", "pressure", [K] => some (henryInv K x)
  | "Langmuir", "loading", [K, nm] => some (langmuir K nm x)
  | "Langmuir", "pressure", [K, nm] => some (langmuirInv K nm x)
  | "DSLangmuir", "loading", [nm1, K1, nm2, K2] => some (dslangmuir nm1 K1 nm2 K2 x)
  | "TSLangmuir", "loading", [nm1, nm2, nm3, K1, K2, K3] => some (tslangmuir nm1 nm2 nm3 K1 K2 K3 x)
  | "BET", "loading", [nm, C, N] => some (bet nm C N x)
  | "GAB", "loading", [nm, C, K] => some (gab nm C K x)
  | "Quadratic", "loading", [nm, Ka, Kb] => some (quadratic nm Ka Kb x)
  | "TemkinApprox", "loading", [nm, K, tht] => some (temkin nm K tht x)
  | _, _, _ => none

/-! ### call semantics -/

/-- a call of a model method on an array: `(result, the caller's array afterwards)` -/
def call (f : α → α) (xs : List α) : List α × List α := (xs.map f, xs)

/-- the defect class: the callee rewrites the caller's array with `g` on the way (the result of this call is still right) -/
def callInPlace (g f : α → α) (xs : List α) : List α × List α := (xs.map f, xs.map g)

/-! ### whole-range evaluation -/

/-- `numpy.linspace(a, b, n)` (endpoint included) -/
def linspace (a b : α) (n : Nat) : List α :=
  if n = 1 then [a] else (List.range n).map fun (i : Nat) => a + (b - a) * (Nat.cast i : α) / (Nat.cast (n - 1) : α)

section Ordered
variable [LinearOrder α]

/-- `if limits and any(limits): ret[(lo or -inf) < ret) & (ret < (hi or +inf))]` — strict on both sides, and a pair of
falsy bounds (`None`, `0`) does not filter at all -/
def limitsStrict (vs : List α) (limits : Option (Option α × Option α)) : List α :=
  match limits with
  | none => vs
  | some (lo, hi) =>
    let anyT := (match lo with | some x => x ≠ 0 | none => false) || (match hi with | some x => x ≠ 0 | none => false)
    if !anyT then vs
    else vs.filter fun v => (match lo with | some x => x < v | none => true) && (match hi with | some x => v < x | none => true)

/-- `ModelIsotherm.pressure(points, …)` for a loading-explicit model: the grid over `pressure_range`, converted
(`fP` = factor of the linear pressure conversion stored → requested), filtered -/
def wholePressureL (a b : α) (n : Nat) (fP : α) (limits : Option (Option α × Option α)) : List α :=
  limitsStrict ((linspace a b n).map (· * fP)) limits

/-- `ModelIsotherm.loading(points, …)` for a loading-explicit model: the bare model on the stored-unit grid, converted
(`fL`), filtered -/
def wholeLoadingL (model : α → α) (a b : α) (n : Nat) (fL : α) (limits : Option (Option α × Option α)) : List α :=
  limitsStrict (((linspace a b n).map model).map (· * fL)) limits

/-- the same for a pressure-explicit model (grid over `loading_range`) -/
def wholeLoadingP (a b : α) (n : Nat) (fL : α) (limits : Option (Option α × Option α)) : List α :=
  limitsStrict ((linspace a b n).map (· * fL)) limits

def wholePressureP (model : α → α) (a b : α) (n : Nat) (fP : α) (limits : Option (Option α × Option α)) : List α :=
  limitsStrict (((linspace a b n).map model).map (· * fP)) limits

/-- what the driver runs when the model values come from the implementation: conversion and filter of given values -/
def convertSelect (vs : List α) (f : α) (limits : Option (Option α × Option α)) : List α :=
  limitsStrict (vs.map (· * f)) limits

end Ordered

/-! ### evaluation through a model isotherm in a stored STATE

A model isotherm stores a temperature NUMBER together with its unit (K or °C), a pressure representation (mode, unit), a
loading | material representation, and the bare model.  Every accessor (`loading_at`, `pressure_at`,
`spreading_pressure_at`, `pressure(points)`, `loading(points)`) brings its argument to the stored representation, calls the
bare model and re-expresses the result; a change of pressure MODE needs the saturation pressure, a change to or from a
volume basis needs the densities, of the adsorbate AT THE KELVIN TEMPERATURE of the state (`BaseIsotherm.temperature`),
whatever unit the number is stored in.  The adsorbate enters as functions of the kelvin temperature. -/

/-- `BaseIsotherm.temperature`: kelvin temperature of a state whose number `t` is stored in °C (`celsius`) or in K -/
def kelvinOf (celsius : Bool) (t : α) : α := if celsius then t + 27315 / 100 else t

inductive PMode where
  | absolute | relative | percent
  deriving DecidableEq, Repr

/-- `relative` and `relative%` are of one kind (no saturation pressure between them), `absolute` of the other -/
def PMode.isAbs : PMode → Bool
  | .absolute => true
  | _ => false

/-- a pressure representation: the mode and, for absolute pressures, Pa per unit (not used by the relative modes) -/
structure PRep (α : Type) where
  mode : PMode
  unit : α

/-- Pa per 1 of the representation, `p0` = saturation pressure in Pa -/
def PRep.scale (p0 : α) (r : PRep α) : α :=
  match r.mode with
  | .absolute => r.unit
  | .relative => p0
  | .percent => p0 / 100

/-- `c_pressure(x, mode_from, mode_to, unit_from, unit_to, adsorbate, temp)`, `p0` = saturation pressure (Pa) at `temp`:
branch by branch as in units/converter_mode.py (`value * factor ** sign`, `factor = psat in the absolute unit [/ 100]`) -/
def convP (p0 : α) (src dst : PRep α) (x : α) : α :=
  match src.mode, dst.mode with
  | .absolute, .absolute => x * (src.unit / dst.unit)
  | .absolute, .relative => x / (p0 / src.unit)
  | .absolute, .percent => x / (p0 / src.unit / 100)
  | .relative, .absolute => x * (p0 / dst.unit)
  | .percent, .absolute => x * (p0 / dst.unit / 100)
  | .relative, .percent => x * 100
  | .percent, .relative => x / 100
  | .relative, .relative => x
  | .percent, .percent => x

/-- what a model isotherm stores besides the model: `lscale T` = SI content (mol adsorbate per g material) of one unit of the
stored loading | material representation at the kelvin temperature `T` (constant in `T` for molar and mass bases) -/
structure MState (α : Type) where
  celsius : Bool
  temp : α
  prep : PRep α
  lscale : α → α

def MState.kelvin (s : MState α) : α := kelvinOf s.celsius s.temp

/-- `ModelIsotherm.loading_at(x, pressure_mode, pressure_unit, loading_basis, …)` where the pressure conversion is handed the
temperature `Tp` and the loading conversion the temperature `Tl` (`rqP`, `rqL`: the requested representations) -/
def loadingAtT (psat : α → α) (Tp Tl : α) (s : MState α) (model : α → α) (rqP : PRep α) (rqL : α → α) (x : α) : α :=
  model (convP (psat Tp) rqP s.prep x) * (s.lscale Tl / rqL Tl)

/-- … as the library does it: both are the kelvin temperature of the state -/
def loadingAtS (psat : α → α) (s : MState α) (model : α → α) (rqP : PRep α) (rqL : α → α) (x : α) : α :=
  loadingAtT psat s.kelvin s.kelvin s model rqP rqL x

/-- `ModelIsotherm.pressure_at(l, loading_basis, …, pressure_mode, pressure_unit)` around the bare inverse `inv` -/
def pressureAtT (psat : α → α) (Tp Tl : α) (s : MState α) (inv : α → α) (rqL : α → α) (rqP : PRep α) (l : α) : α :=
  convP (psat Tp) s.prep rqP (inv (l * (rqL Tl / s.lscale Tl)))

def pressureAtS (psat : α → α) (s : MState α) (inv : α → α) (rqL : α → α) (rqP : PRep α) (l : α) : α :=
  pressureAtT psat s.kelvin s.kelvin s inv rqL rqP l

/-- `ModelIsotherm.spreading_pressure_at(x, pressure_mode, pressure_unit)`: input conversion only -/
def spreadingAtT (psat : α → α) (Tp : α) (s : MState α) (spr : α → α) (rqP : PRep α) (x : α) : α :=
  spr (convP (psat Tp) rqP s.prep x)

def spreadingAtS (psat : α → α) (s : MState α) (spr : α → α) (rqP : PRep α) (x : α) : α :=
  spreadingAtT psat s.kelvin s spr rqP x

section OrderedState
variable [LinearOrder α]

/-- `ModelIsotherm.pressure(points, pressure_mode, pressure_unit, limits)` of a loading-explicit model in state `s` -/
def wholePressureS (psat : α → α) (s : MState α) (a b : α) (n : Nat) (rqP : PRep α)
    (limits : Option (Option α × Option α)) : List α :=
  limitsStrict ((linspace a b n).map (convP (psat s.kelvin) s.prep rqP)) limits

/-- `ModelIsotherm.loading(points, loading_basis, …, limits)` of a loading-explicit model in state `s` -/
def wholeLoadingS (s : MState α) (model : α → α) (a b : α) (n : Nat) (rqL : α → α)
    (limits : Option (Option α × Option α)) : List α :=
  limitsStrict (((linspace a b n).map model).map (· * (s.lscale s.kelvin / rqL s.kelvin))) limits

end OrderedState

end PgVerif.Model.MEval
