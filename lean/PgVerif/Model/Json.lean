/-
Model of the content ↔ document mapping behind `BaseIsotherm.to_dict`, `parsing/json.py`
(`isotherm_to_json` / `isotherm_from_json`) and of the identifier `utilities/hashgen.isotherm_to_hash`.

An isotherm's observable content is a dictionary `core` (material, adsorbate, temperature, the seven unit labels and
the user's metadata) plus either measured rows, or a model dictionary, or nothing.  The JSON document is that
dictionary plus the format's own three keys.  Dictionaries are association lists with unique keys; `json.dumps(sort_keys=True)`
makes the document independent of their order.  The identifier is an uninterpreted hash `H` of the key-sorted
serialisation of `core` and of the data (rounded to 8 decimals by the harness) or the model dictionary.
Core Lean, executable.
-/
namespace PgVerif.Model.Json

/-- JSON scalars as they appear in metadata and in data cells (numbers as exact decimal text produced by the harness).
`nan` is the MISSING numeric cell: what pandas stores where a quantity was not recorded (IEEE NaN; python's `json` writes the
bare token `NaN` for it and reads it back), and what `DataFrame.from_dict` puts where a row object lacks a key.
`null` is python's `None` (a missing entry of a column that holds no numbers at all, or a `None` metadata value). -/
inductive Scalar
  | null | bool (b : Bool) | int (n : Int) | num (repr : String) | str (s : String) | nan
  deriving DecidableEq, Repr

/-- metadata values: scalars, flat lists, and one level of dictionary (material properties) -/
inductive MVal
  | scalar (s : Scalar) | list (l : List Scalar) | dict (kv : List (String × Scalar))
  deriving DecidableEq, Repr

abbrev Dict := List (String × MVal)

/-- one measured point: pressure, loading, branch mark (0 ads / 1 des), the extra columns (name, value) -/
structure Row where
  p : Scalar
  l : Scalar
  branch : Nat
  extra : List (String × Scalar)
  deriving DecidableEq, Repr

structure ModelDict where
  name : String
  rmse : Scalar
  params : List (String × Scalar)
  prange : Scalar × Scalar
  lrange : Scalar × Scalar
  deriving DecidableEq, Repr

inductive Payload
  | none | points (rows : List Row) | model (m : ModelDict)
  deriving DecidableEq, Repr

structure Iso where
  core : Dict
  payload : Payload
  deriving DecidableEq, Repr

/-! ### the document -/

inductive DVal
  | mval (v : MVal)
  | version (v : String)
  | data (rows : List (List (String × Scalar)))      -- each row a JSON object
  | model (m : ModelDict)
  deriving DecidableEq, Repr

abbrev Doc := List (String × DVal)

def formatKeys : List String := ["file_version", "isotherm_data", "isotherm_model"]

/-- a point as a JSON object: the `branch` key is written only for desorption points, as `"des"` -/
def encodeRow (r : Row) : List (String × Scalar) :=
  [("pressure", r.p), ("loading", r.l)] ++ r.extra ++ (if r.branch = 0 then [] else [("branch", .str "des")])

/-- `isotherm_to_json` (before `json.dumps`) -/
def encode (parserVersion : String) (i : Iso) : Doc :=
  i.core.map (fun kv => (kv.1, DVal.mval kv.2)) ++ [("file_version", .version parserVersion)] ++
    (match i.payload with
     | .none => []
     | .points rows => [("isotherm_data", .data (rows.map encodeRow))]
     | .model m => [("isotherm_model", .model m)])

def lookup (d : Doc) (k : String) : Option DVal := (d.find? (·.1 == k)).map (·.2)

/-- `split_ads_data` on the decoded pressures (see Model/Access.lean; here on an abstract order key) -/
def firstMaxIdx (le : Scalar → Scalar → Bool) : List Scalar → Nat
  | [] => 0
  | [_] => 0
  | x :: y :: t =>
    let j := firstMaxIdx le (y :: t)
    if le ((y :: t).getD j y) x then 0 else j + 1

/-- `Series.isna` on one cell: nothing was recorded there (the missing numeric cell, or `None`) -/
def Scalar.missing : Scalar → Bool
  | .nan => true
  | .null => true
  | _ => false

/-- when NO pressure was recorded at any point there is no maximum to split at: nothing marks a desorption branch and every point
is an adsorption point (`if pressure.isna().all(): return split`; S54-C06 — before that guard pandas' `idxmax` raised ValueError
here and the library could not read back the document it had written for such a table) -/
def splitAds (le : Scalar → Scalar → Bool) (ps : List Scalar) : List Nat :=
  let n := ps.length
  let infl := firstMaxIdx le ps + 1
  if ps.all Scalar.missing then List.replicate n 0
  else if infl = n then List.replicate n 0
  else
    let infl' := if infl = 1 then 0 else infl
    (List.range n).map fun i => if infl' ≤ i then 1 else 0

def decodeRow (o : List (String × Scalar)) (mark : Nat) : Option Row := do
  let p ← (o.find? (·.1 == "pressure")).map (·.2)
  let l ← (o.find? (·.1 == "loading")).map (·.2)
  some ⟨p, l, mark, o.filter fun kv => kv.1 != "pressure" && kv.1 != "loading" && kv.1 != "branch"⟩

/-- `isotherm_from_json`: the three format keys are removed, everything else is handed to the constructor;
rows get their mark from the `branch` key — `des` ↦ 1, absent ↦ 0 — unless NO row carries the key, in which case the
marks are guessed from the pressures -/
def decode (le : Scalar → Scalar → Bool) (d : Doc) : Option Iso :=
  let core : Dict := d.filterMap fun kv =>
    if formatKeys.contains kv.1 then none else match kv.2 with | .mval v => some (kv.1, v) | _ => none
  match lookup d "isotherm_data", lookup d "isotherm_model" with
  | some (.data objs), _ =>
    if objs.isEmpty then some ⟨core, .none⟩          -- `if data:` is false for an empty list
    else
      let anyMark := objs.any fun o => o.any (·.1 == "branch")
      let marks : List Nat :=
        if anyMark then objs.map fun o => if o.any (fun kv => kv.1 == "branch" && kv.2 == .str "des") then 1 else 0
        else splitAds le (objs.filterMap fun o => (o.find? (·.1 == "pressure")).map (·.2))
      (List.zipWith decodeRow objs marks).mapM id |>.map fun rows => ⟨core, .points rows⟩
  | _, some (.model m) => some ⟨core, .model m⟩
  | _, _ => some ⟨core, .none⟩

/-! ### the reader, step by step: the data frame

`isotherm_from_json` does not look at the row objects one by one as `decode` does: it first builds a table
(`pandas.DataFrame.from_dict(list of row objects)`: the columns are the union of the keys, a row that lacks a key gets the
MISSING value there), then rewrites the `branch` COLUMN — and only that column — with `fillna(0).replace('des', 1).astype(int)`,
then hands the table to the constructor.  `decodeFrame` follows these steps; `Props/C06.lean` proves that on every document the
writer produces for a rectangular table it agrees with `decode` (`decodeFrame_encode`), so that the inverse theorems hold for it,
missing cells included. -/

abbrev Obj := List (String × Scalar)

/-- the value of a key in a row object; a row that lacks the key gets the missing value -/
def cell (o : Obj) (k : String) : Scalar := ((o.find? (·.1 == k)).map (·.2)).getD .nan

/-- the keys of `o` that `acc` does not have yet, appended in their order -/
def addKeys (acc : List String) : Obj → List String
  | [] => acc
  | kv :: t => addKeys (if acc.contains kv.1 then acc else acc ++ [kv.1]) t

/-- column labels of the table: the union of the keys of all row objects, in order of first appearance -/
def frameColumns (acc : List String) : List Obj → List String
  | [] => acc
  | o :: t => frameColumns (addKeys acc o) t

/-- the table: every row has every column -/
def frame (objs : List Obj) : List Obj :=
  objs.map fun o => (frameColumns [] objs).map fun k => (k, cell o k)

/-- `fillna(0).replace('des', 1).astype(int)` on one cell of the `branch` column: a missing cell is an adsorption point.
`none`: a cell the writer never produces (other text: `astype(int)` raises; fractional numbers: not modelled) -/
def branchMark : Scalar → Option Nat
  | .nan => some 0
  | .null => some 0
  | .str s => if s == "des" then some 1 else none
  | .int n => if 0 ≤ n then some n.toNat else none
  | .bool b => some (if b then 1 else 0)
  | .num _ => none

def isDataKey (k : String) : Bool := k != "pressure" && k != "loading" && k != "branch"

/-- a row of the table and the mark assigned to it → a point.  Nothing is done to any cell: a missing cell stays missing -/
def rowOfFrame (r : Obj) (mark : Nat) : Row :=
  ⟨cell r "pressure", cell r "loading", mark, r.filter fun kv => isDataKey kv.1⟩

/-- `isotherm_from_json` through the table.  `prep` is what the reader does to every row of a table THAT HAS A `branch` COLUMN
besides rewriting that column: nothing (`decodeFrame` below takes `id`); the parameter exists so that `Props/C06.lean` can state
what goes wrong when something is done there (e.g. `fillna(0)` on the whole table instead of on the `branch` column) -/
def decodeFrameWith (prep : Obj → Obj) (le : Scalar → Scalar → Bool) (d : Doc) : Option Iso :=
  let core : Dict := d.filterMap fun kv =>
    if formatKeys.contains kv.1 then none else match kv.2 with | .mval v => some (kv.1, v) | _ => none
  match lookup d "isotherm_data", lookup d "isotherm_model" with
  | some (.data objs), _ =>
    if objs.isEmpty then some ⟨core, .none⟩
    else
      let cols := frameColumns [] objs
      let rows := if cols.contains "branch" then (frame objs).map prep else frame objs
      if !(cols.contains "pressure" && cols.contains "loading") then none     -- the constructor refuses a table without them
      else
        let marks : Option (List Nat) :=
          if cols.contains "branch" then rows.mapM fun r => branchMark (cell r "branch")
          else some (splitAds le (rows.map fun r => cell r "pressure"))
        marks.map fun ms => ⟨core, .points (List.zipWith rowOfFrame rows ms)⟩
  | _, some (.model m) => some ⟨core, .model m⟩
  | _, _ => some ⟨core, .none⟩

/-- the reader as it is: no cell outside the `branch` column is touched -/
def decodeFrame (le : Scalar → Scalar → Bool) (d : Doc) : Option Iso := decodeFrameWith id le d

/-! ### identity -/

def insertSorted (kv : String × MVal) : Dict → Dict
  | [] => [kv]
  | h :: t => if kv.1 < h.1 || kv.1 == h.1 then kv :: h :: t else h :: insertSorted kv t

/-- keys in ascending order (`json.dumps(sort_keys=True)`) -/
def sortKeys : Dict → Dict
  | [] => []
  | h :: t => insertSorted h (sortKeys t)

/-- what the identifier is computed from: the key-sorted dictionary and the payload (rows as handed over by the harness:
already rounded to 8 decimals) -/
def canon (i : Iso) : Dict × Payload := (sortKeys i.core, i.payload)

/-- `md5(json.dumps(raw_dict, sort_keys=True))` with an uninterpreted hash -/
def isoId {ι : Type} (H : Dict × Payload → ι) (i : Iso) : ι := H (canon i)

end PgVerif.Model.Json
