/-
Hand-written model of the bookkeeping around the Horvath-Kawazoe solvers (characterisation/psd_micro.py):
the tail of `psd_horvath_kawazoe` / `psd_horvath_kawazoe_ry` after the widths have been found, the width transforms per geometry,
the coverage used by the Cheng-Yang correction and the default limits of `psd_microporous`.
The potential functions themselves are regenerated from the source (`Gen/CharR.lean`: `hk_slit_potential`, …); the scalar
minimisation inside `_solve_hk` / `_solve_hk_cy` is numerical and is checked by certificate (residual of the recorded potential) in the
harness; the LOOP of the two solvers around it is `solveLoop` / `solveHK` / `solveHKCY` below (one minimisation per point, the same for
every point; Props/C17/Solver.lean), run by Drv/Char.lean with the widths measured on single points.
-/
import Mathlib.Algebra.Order.Field.Basic
import PgVerif.Model.Linear

namespace PgVerif.Model.Micro

open PgVerif.Model.Linear

variable {α : Type} [Field α]

/-- `numpy.diff(a)` -/
def diff : List α → List α
  | a :: b :: r => (b - a) :: diff (b :: r)
  | _ => []

/-- `numpy.add(a[:-1], a[1:]) / 2` -/
def avgPairs : List α → List α
  | a :: b :: r => ((a + b) / 2) :: avgPairs (b :: r)
  | _ => []

/-- reported width from the solver's internuclear distance / radius: slit `l - d_mat`, cylinder and sphere `2 l - d_mat` -/
def reportedWidth (geometry : String) (dMat l : α) : Option α :=
  if geometry = "slit" then some (l - dMat)
  else if geometry = "cylinder" ∨ geometry = "sphere" then some (2 * l - dMat)
  else none

structure Result (α : Type) where
  widths : List α          -- avg_pore_widths
  distribution : List α    -- pore_dist
  cumulative : List α      -- volume_adsorbed[1:]

/-- the tail of the two HK functions: `widths` are the reported widths found by the solver (possibly fewer than the data:
`selected = slice(0, len(pore_widths))`), `vol` the adsorbed liquid volumes of all points -/
def tail (widths vol : List α) : Result α :=
  let vol := vol.take widths.length
  { widths := avgPairs widths
    distribution := List.zipWith (· / ·) (diff vol) (diff widths)
    cumulative := vol.drop 1 }

/-- `coverage = loading / (max(loading) * 1.01)` -/
def coverage [LinearOrder α] (c101 : α) (loading : List α) : List α :=
  let m := loading.foldl max (loading.headD 0)
  loading.map (· / (m * c101))

/-! ### the solver loops `_solve_hk` / `_solve_hk_cy`

```
p_w = []; p_w_max = 10 / geo
for p_point in pressure:                      # _solve_hk_cy: for p_point, c_point in zip(pressure, coverage)
    def fun(l_pore): return (numpy.exp(hk_fun(l_pore)) - p_point)**2
    res = optimize.minimize_scalar(fun, method='bounded', bounds=(bound, 50))
    p_w.append(res.x)
    if res.x > p_w_max: break
return p_w
```
The potential `hk_fun` and the search interval `(bound, 50)` are the same for every pass; the only thing that changes between two passes is
the point itself.  The numerical minimisation is therefore a FUNCTION `solve` of the point (the harness measures it on the real code by
putting the point first in a call: the first pass of any loop has no history), and the loop is `solveLoop`. -/

/-- the loop shared by the two solvers: one width per point, in the order of the points, stopping after the first width above `wmax` -/
def solveLoop {β γ : Type} [LT γ] [DecidableLT γ] (solve : β → γ) (wmax : γ) : List β → List γ
  | [] => []
  | x :: xs => if wmax < solve x then [solve x] else solve x :: solveLoop solve wmax xs

/-- `_solve_hk(pressure, hk_fun, bound, geo)`; `solve p` = `minimize_scalar((exp(hk_fun(l)) - p)^2, bounds=(bound, 50)).x` -/
def solveHK [LinearOrder α] (solve : α → α) (geo : α) (pressure : List α) : List α :=
  solveLoop solve (10 / geo) pressure

/-- `_solve_hk_cy(pressure, loading, hk_fun, bound, geo)`; `solve p c` = the minimiser for the pressure `p` and the coverage `c`
(`sf_corr = 1 + 1 / c * log(1 - c)` is computed from `c` inside the pass); `zip` stops at the shorter list -/
def solveHKCY [LinearOrder α] (solve : α → α → α) (c101 geo : α) (pressure loading : List α) : List α :=
  solveLoop (fun pc : α × α => solve pc.1 pc.2) (10 / geo) (pressure.zip (coverage c101 loading))

/-- a measured solver: the widths found for single points, as an association list (used by the driver; anything else is `0`) -/
def tableSolve {β : Type} [DecidableEq β] (table : List (β × α)) (x : β) : α :=
  (table.lookup x).getD 0

/-- `psd_microporous`: `p_limits = None` means `(None, 0.2)` -/
def microWindow [LinearOrder α] (ps : List α) (c20 : α) (limits : Option (Option α × Option α)) : Option (Nat × Nat) :=
  match limits with
  | none => decide3 (limitWindow ps none (some c20))
  | some (lo, hi) => decide3 (limitWindow ps lo hi)

/-- model dispatch of `psd_microporous`: which potential family (`true` = Rege-Yang) and whether the Cheng-Yang correction is applied;
`none` = ParameterError (name not in `_MICRO_PSD_MODELS`) -/
def dispatch (psdModel : String) : Option (Bool × Bool) :=
  if psdModel = "HK" then some (false, false)
  else if psdModel = "HK-CY" then some (false, true)
  else if psdModel = "RY" then some (true, false)
  else if psdModel = "RY-CY" then some (true, true)
  else none

end PgVerif.Model.Micro
