/-
Hand-written model of the bookkeeping around the Horvath-Kawazoe solvers (characterisation/psd_micro.py):
the tail of `psd_horvath_kawazoe` / `psd_horvath_kawazoe_ry` after the widths have been found, the width transforms per geometry,
the coverage used by the Cheng-Yang correction and the default limits of `psd_microporous`.
The potential functions themselves are regenerated from the source (`Gen/CharR.lean`: `hk_slit_potential`, …); the scalar
minimisation `_solve_hk` is numerical and is checked by certificate (residual of the recorded potential) in the harness.
-/
import Mathlib.Algebra.Order.Field.Basic
import PgVerif.Model.Linear

namespace PgVerif.Model.Micro

open PgVerif.Model.Linear

variable {α : Type} [Field α]

/-- `numpy.diff(a)` -/
def diff : List α → List α
  | a :: b :: r => (b - a) :: diff (b :: r)
  | _ => []

/-- `numpy.add(a[:-1], a[1:]) / 2` -/
def avgPairs : List α → List α
  | a :: b :: r => ((a + b) / 2) :: avgPairs (b :: r)
  | _ => []

/-- reported width from the solver's internuclear distance / radius: slit `l - d_mat`, cylinder and sphere `2 l - d_mat` -/
def reportedWidth (geometry : String) (dMat l : α) : Option α :=
  if geometry = "slit" then some (l - dMat)
  else if geometry = "cylinder" ∨ geometry = "sphere" then some (2 * l - dMat)
  else none

structure Result (α : Type) where
  widths : List α          -- avg_pore_widths
  distribution : List α    -- pore_dist
  cumulative : List α      -- volume_adsorbed[1:]

/-- the tail of the two HK functions: `widths` are the reported widths found by the solver (possibly fewer than the data:
`selected = slice(0, len(pore_widths))`), `vol` the adsorbed liquid volumes of all points -/
def tail (widths vol : List α) : Result α :=
  let vol := vol.take widths.length
  { widths := avgPairs widths
    distribution := List.zipWith (· / ·) (diff vol) (diff widths)
    cumulative := vol.drop 1 }

/-- `coverage = loading / (max(loading) * 1.01)` -/
def coverage [LinearOrder α] (c101 : α) (loading : List α) : List α :=
  let m := loading.foldl max (loading.headD 0)
  loading.map (· / (m * c101))

/-- `psd_microporous`: `p_limits = None` means `(None, 0.2)` -/
def microWindow [LinearOrder α] (ps : List α) (c20 : α) (limits : Option (Option α × Option α)) : Option (Nat × Nat) :=
  match limits with
  | none => decide3 (limitWindow ps none (some c20))
  | some (lo, hi) => decide3 (limitWindow ps lo hi)

/-- model dispatch of `psd_microporous`: which potential family (`true` = Rege-Yang) and whether the Cheng-Yang correction is applied;
`none` = ParameterError (name not in `_MICRO_PSD_MODELS`) -/
def dispatch (psdModel : String) : Option (Bool × Bool) :=
  if psdModel = "HK" then some (false, false)
  else if psdModel = "HK-CY" then some (false, true)
  else if psdModel = "RY" then some (true, false)
  else if psdModel = "RY-CY" then some (true, true)
  else none

end PgVerif.Model.Micro
