/-
Descriptor language for the thermodynamic accessors of `Adsorbate` (core/adsorbate.py) and the property accessors of
`Material` (core/material.py).  No imports: the *generated* descriptors (`Gen/Accessors.lean`, written by the generator
`Accessors` of harness/pgv/translate.py from the Python AST on every run), the independent specification table
(`Spec/Accessors.lean`) and the semantics (`Model/Accessor.lean`) all share these types.

A method body is kept as a small program in return-normal form (`Prog`): which backend quantity is read, after which
`state.update(...)`, with which exact rational factor; which dictionary key the fallback reads and how it is scaled; where the
`unit` argument is applied; which exceptions a `try` catches and where they are routed.
-/
namespace PgVerif.Model.Acc

/-- where a backend number comes from: the CoolProp `AbstractState` held by the adsorbate (`self.backend.<getter>()`),
or the high-level function `CP.CoolProp.PropsSI(<key>, self.backend_name)` -/
inductive Source | state | propsSI
  deriving DecidableEq, Repr

/-- how the state object is prepared before the getter is called; the quality is kept as an exact rational
(`0/1` = saturated liquid, `1/1` = saturated vapour) -/
inductive Prep
  | none                     -- no `update` before the getter (state-independent constants)
  | QT (qn qd : Nat)         -- `state.update(CP.QT_INPUTS, q, temp)`
  | PQ (qn qd : Nat)         -- `state.update(CP.PQ_INPUTS, press, q)`
  deriving DecidableEq, Repr

structure Read where
  source : Source
  prep : Prep
  getter : String
  deriving DecidableEq, Repr

/-- `num/den · read` -/
structure Term where
  num : Int
  den : Nat
  read : Read
  deriving DecidableEq, Repr

/-- conditions the methods branch on.  `calculate`, `temp`, `press` are the Python truthiness of the argument of that name
(`None` and `0` are false); `hasKey k` is `self.properties.get(k) is not None` -/
inductive Cond
  | calculate | temp | press
  | hasKey (k : String)
  | not (c : Cond)
  | and (a b : Cond)
  deriving DecidableEq, Repr

/-- a method body in return-normal form -/
inductive Prog
  /-- `return Σ num/den · read` — every read may raise -/
  | lin (ts : List Term)
  /-- `return self.get_prop(key) * num / den` — `ParameterError` when the key is missing (or `None`) -/
  | prop (key : String) (num : Int) (den : Nat)
  /-- `return self.<this method>(<fwd arguments, each passed as itself>, calculate=False)` -/
  | self_ (fwd : List String)
  /-- `raise <cls>(...)` -/
  | raise (cls : String)
  | ite (c : Cond) (t e : Prog)
  /-- `try: body except (<catches>): handler` -/
  | try_ (body : Prog) (catches : List String) (handler : Prog)
  /-- `x = p; if unit is not None: x = c_unit(<table>, x, <src>, unit); return x` -/
  | unitIfGiven (p : Prog) (table src : String)
  deriving DecidableEq, Repr

inductive Body
  /-- `return self.<target>(<own parameters, in the target's order>)` -/
  | alias (target : String)
  | prog (p : Prog)
  deriving DecidableEq, Repr

/-- one accessor method: name, parameters after `self` with the text of their default (`""` = required) -/
structure Desc where
  name : String
  params : List (String × String)
  body : Body
  deriving DecidableEq, Repr

/-- body of a `Material` property -/
inductive MatBody
  /-- `return self.properties.get(key)` : `None` when missing, no exception -/
  | dictGet (key : String)
  /-- `return self.get_prop(key)` -/
  | getProp (key : String)
  deriving DecidableEq, Repr

structure MatDesc where
  name : String
  body : MatBody
  deriving DecidableEq, Repr

/-- shape of a `get_prop` method: `v = self.properties.get(prop)`; when `v is None`: [`getattr(self, prop)` if
`attrFallback`, on `AttributeError`] `raise <missing>`; `return v` -/
structure GetPropDesc where
  cls : String
  attrFallback : Bool
  missing : String
  deriving DecidableEq, Repr

/-! ### what a method is run against -/

/-- the thermodynamic input the state was updated with before a getter is called -/
inductive Inp (α : Type)
  | none
  | QT (q T : α)
  | PQ (p q : α)
  deriving DecidableEq, Repr

/-- abstract backend: `none` = the call raised -/
abbrev Backend (α : Type) := Source → String → Inp α → Option α

/-- the `properties` dictionary restricted to numbers: `none` = key absent (or `None`) -/
abbrev Dict (α : Type) := String → Option α

/-- arguments of a call; parameters the method does not have stay `none` -/
structure Args (α : Type) where
  temp : Option α := none
  press : Option α := none
  unit : Option String := none
  calculate : Bool := true

end PgVerif.Model.Acc
