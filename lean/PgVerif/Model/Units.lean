/-
Model of `pygaps/units/converter_unit.py` and `converter_mode.py`:
`c_unit`, `c_pressure`, `c_loading`, `c_material`, `c_temperature`.

Written once over an arbitrary field `α`; executed at `α = ℚ` by the driver, proved for every
field of characteristic zero (hence ℝ).  The unit tables, the mode tables and the two tables of
conversion constants are the *generated* ones (`PgVerif.Gen.Units`, regenerated from the Python
source on every run).  Error classes follow the Python exception that the statement raises:
`param` = ParameterError, `calc` = CalculationError (adsorbate accessor), `key` = KeyError,
`type` = TypeError (the last two are the un-wrapped refusals listed as finding S16).
-/
import Mathlib.Algebra.Field.Defs
import Mathlib.Algebra.Field.Basic
import PgVerif.Gen.Units

namespace PgVerif.Model
open PgVerif.Gen

inductive Err | param | calc | key | type | value | other
  deriving DecidableEq, Repr

def Err.name : Err → String
  | .param => "param" | .calc => "calc" | .key => "key" | .type => "type" | .value => "value" | .other => "other"

/-- Python truthiness of an optional string argument -/
def truthy : Option String → Bool
  | none => false
  | some s => s != ""

variable {α : Type} [Field α]

/-- table entry as a field element -/
def facOf (t : List (String × Nat × Nat)) (s : String) : Option α :=
  (t.lookup s).map fun e => (e.1 : α) / (e.2 : α)

/-- `_check_unit(unit, units)`; returns the entry so that callers need no second lookup -/
def checkUnit (t : List (String × Nat × Nat)) (u : Option String) : Except Err α :=
  match u with
  | none => .error .param
  | some s =>
    if s = "" then .error .param
    else match (facOf t s : Option α) with
      | some f => .ok f
      | none => .error .param

/-- `_check_basis(basis, bases)`; returns the name and the name of its unit table -/
def checkBasis (modes : List (String × Option String)) (b : Option String) :
    Except Err (String × Option String) :=
  match b with
  | none => .error .param
  | some s =>
    if s = "" then .error .param
    else match modes.lookup s with
      | some t => .ok (s, t)
      | none => .error .param

/-- `c_unit(unit_list, value, unit_from, unit_to, sign)` (checks `unit_to` first, like the code) -/
def cUnit (t : List (String × Nat × Nat)) (v : α) (uf ut : Option String) (sign : Int) : Except Err α := do
  let ft ← (checkUnit t ut : Except Err α)
  let ff ← (checkUnit t uf : Except Err α)
  pure (v * (ff / ft) ^ sign)

/-- `c_pressure`.  `psat` is the saturation pressure in Pa returned by the adsorbate
(`none`: the accessor raised a CalculationError); `tempOk` is the truthiness of `temp`. -/
def cPressure (psat : Option α) (tempOk : Bool) (v : α) (mf mt uf ut : Option String) : Except Err α := do
  let (mfS, _) ← checkBasis pressureMode mf
  let (mtS, _) ← checkBasis pressureMode mt
  if mfS ≠ mtS then
    if mtS = "absolute" ∨ mfS = "absolute" then
      if mtS = "absolute" then
        let _ ← (checkUnit pressureUnits ut : Except Err α)
      if mfS = "absolute" then
        let _ ← (checkUnit pressureUnits uf : Except Err α)
      -- `unit`/`sign`: the from-side assignment comes last in the code
      let unit := if mfS = "absolute" then uf else ut
      let sign : Int := if mfS = "absolute" then -1 else 1
      if !tempOk then .error .param
      else
        match psat with
        | none => .error .calc
        | some ps =>
          -- adsorbate.saturation_pressure(temp, unit=unit) = c_unit(_PRESSURE_UNITS, psat, 'Pa', unit)
          let f0 ← cUnit pressureUnits ps (some "Pa") unit 1
          let f := if mtS = "relative%" ∨ mfS = "relative%" then f0 / 100 else f0
          pure (v * f ^ sign)
    else
      -- relative <-> relative%
      let sign : Int := if mtS = "relative%" then 1 else -1
      pure (v * (100 : α) ^ sign)
  else if truthy ut && mfS = "absolute" then
    cUnit pressureUnits v uf ut 1
  else pure v

/-- the adsorbate/material quantities available to a conversion -/
abbrev Env (α : Type) := Qty → Option α

def _root_.PgVerif.Gen.Qty.isMaterial : Qty → Bool
  | .matDensity | .matMolarMass => true
  | _ => false

/-- value of one quantity: adsorbate accessors raise CalculationError when they have no value,
a missing material property is `None` and fails later with a TypeError -/
def evalQty (env : Env α) (q : Qty) : Except Err α :=
  match env q with
  | some x => .ok x
  | none => if q.isMaterial then .error .type else .error .calc

def evalConst (env : Env α) : ConstExpr → Except Err α
  | .one => .ok 1
  | .q a => evalQty env a
  | .ratio a b => do
    let x ← evalQty env a
    let y ← evalQty env b
    pure (x / y)

/-- the `if _basis_from == …: if _basis_to == …` chain: `(constant, sign)`, default `(1, 1)` -/
def leaf (tbl : List ((String × String) × ConstExpr × Int)) (env : Env α) (b1 b2 : Option String) :
    Except Err (α × Int) :=
  match b1, b2 with
  | some s1, some s2 =>
    match tbl.lookup (s1, s2) with
    | some (c, sg) => do
      let x ← evalConst env c
      pure (x, sg)
    | none => .ok (1, 1)
  | _, _ => .ok (1, 1)

/-- `_LOADING_MODE[basis][unit]` evaluated as a raw subscript (no checks) -/
def rawFac (modes : List (String × Option String)) (b u : Option String) : Except Err α :=
  match b with
  | none => .error .key
  | some bs =>
    match modes.lookup bs with
    | none => .error .key
    | some none => .error .type            -- `None[unit]`
    | some (some t) =>
      match u with
      | none => .error .key
      | some us =>
        match (facOf (unitTable t) us : Option α) with
        | some f => .ok f
        | none => .error .key

def isFrac (s : String) : Bool := s = "percent" || s = "fraction"

/-- `c_loading` -/
def cLoading (env : Env α) (v : α) (bf bt uf ut bm um : Option String) : Except Err α := do
  let (bfS, tf) ← checkBasis loadingMode bf
  let (btS, tt) ← checkBasis loadingMode bt
  if bfS ≠ btS then
    match tt with
    | some t => let _ ← (checkUnit (unitTable t) ut : Except Err α)
    | none => pure ()
    match tf with
    | some t => let _ ← (checkUnit (unitTable t) uf : Except Err α)
    | none => pure ()
    if isFrac bfS && isFrac btS then
      pure (if bfS = "percent" then v / 100 else v * 100)
    else
      let bm' := if bm = some "volume" then some "volume_liquid" else bm
      let b1 := if isFrac bfS then bm' else some bfS
      let u1 := if isFrac bfS then um else uf
      let b2 := if isFrac btS then bm' else some btS
      let u2 := if isFrac btS then um else ut
      let factor : α :=
        if bfS = "percent" then 1 / 100 else if btS = "percent" then 100 else 1
      let (c, sg) ← leaf loadingConst env b1 b2
      let f1 ← (rawFac loadingMode b1 u1 : Except Err α)
      let f2 ← (rawFac loadingMode b2 u2 : Except Err α)
      pure (v * f1 * factor * c ^ sg / f2)
  else if truthy ut && uf ≠ ut then
    match tf with
    | some t => cUnit (unitTable t) v uf ut 1
    | none => .error .type        -- `unit not in None`
  else pure v

/-- `c_material` -/
def cMaterial (env : Env α) (v : α) (bf bt uf ut : Option String) : Except Err α := do
  let (bfS, tf) ← checkBasis materialMode bf
  let (btS, tt) ← checkBasis materialMode bt
  if bfS ≠ btS then
    let f2 ← (checkUnit (unitTable (tt.getD "")) ut : Except Err α)
    let f1 ← (checkUnit (unitTable (tf.getD "")) uf : Except Err α)
    let (c, sg) ← leaf materialConst env (some bfS) (some btS)
    pure (v / f1 / c ^ sg * f2)
  else if truthy ut && uf ≠ ut then
    cUnit (unitTable (tf.getD "")) v uf ut (-1)
  else pure v

/-- `"c" in unit.lower()` for the alphabet of the model (ASCII letters and `°`) -/
def containsC (s : String) : Bool := s.toList.any fun c => c = 'c' || c = 'C'

def normTemp (u : Option String) : Option String :=
  match u with
  | some s => if s != "" && containsC s then some "°C" else some s
  | none => none

def tempOffset (s : String) : Option α :=
  (temperatureUnits.lookup s).map fun e => (e.1 : α) / (e.2 : α)

def checkTemp (u : Option String) : Except Err α :=
  match u with
  | none => .error .param
  | some s => if s = "" then .error .param else
    match (tempOffset s : Option α) with
    | some o => .ok o
    | none => .error .param

/-- `c_temperature` -/
def cTemperature (v : α) (uf ut : Option String) : Except Err α := do
  let ut' := normTemp ut
  let uf' := normTemp uf
  let ot ← (checkTemp ut' : Except Err α)
  let _ ← (checkTemp uf' : Except Err α)
  if uf' = ut' then pure v else pure (v - ot)

end PgVerif.Model
