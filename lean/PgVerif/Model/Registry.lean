/-
Model of `Adsorbate.find` / `Adsorbate.__eq__` (core/adsorbate.py) over the generated registry, and of the
fallback logic shared by every thermodynamic accessor (`molar_mass`, `saturation_pressure`, `liquid_density`, …).
-/
import PgVerif.Gen.Registry
import PgVerif.Model.Fallback

namespace PgVerif.Model.Registry

/-- `int.from_bytes(b"\x01" + s.encode("utf-8"), "big")` — the key the translator attaches to an alias -/
def encode (s : String) : Nat := s.toUTF8.foldl (fun n b => n * 256 + b.toNat) 1

/-- `next(ads for ads in ADSORBATE_LIST if name.lower() in ads.alias)` with the key of `name.lower()` -/
def find {β : Type} (reg : List (β × List Nat)) (k : Nat) : Option β :=
  (reg.find? (fun e => e.2.contains k)).map (·.1)

/-- every alias of the registry, in list order -/
def allKeys {β : Type} (reg : List (β × List Nat)) : List Nat := reg.flatMap (·.2)

/-! ## string level: what the constructor stores, `__eq__` with a string, `find` over the stored strings

`σ` is the type of strings and `norm` is `str.lower` (the driver instantiates `σ := String`, `norm := String.toLower`); nothing below
depends on what `norm` does, the theorems of `Props/C20/Normalise.lean` need at most `norm (norm x) = norm x`. -/

section Strings
variable {σ : Type} [DecidableEq σ]

/-- `Adsorbate.__init__`, the statements that fill `self.alias`:
`alias=None` -> `[name.lower()]`; a single string counts as a one-element list; every alias is lower-cased; the lower-cased name is
appended when it is not already there.  (`alias : Option (List σ)`: `none` = no `alias` keyword, `some [a]` = a string or a list of one.) -/
def ctorAlias (norm : σ → σ) (name : σ) (al : Option (List σ)) : List σ :=
  match al with
  | none => [norm name]
  | some as =>
    let l := as.map norm
    if l.contains (norm name) then l else l ++ [norm name]

/-- the same constructor with the normalisation left out for the aliases selected by `keep` ("kept as written"); `keep = fun _ => false`
is `ctorAlias`.  Only used to state why the normalisation at construction is needed. -/
def ctorAliasKeeping (keep : σ → Bool) (norm : σ → σ) (name : σ) (al : Option (List σ)) : List σ :=
  match al with
  | none => [norm name]
  | some as =>
    let l := as.map (fun a => if keep a then a else norm a)
    if l.contains (norm name) then l else l ++ [norm name]

/-- `Adsorbate.__eq__(self, other: str)`: `other.lower() in self.alias` -/
def eqStr (norm : σ → σ) (stored : List σ) (q : σ) : Bool := stored.contains (norm q)

/-- `Adsorbate.find(q)`: `next(ads for ads in ADSORBATE_LIST if ads == q)`, over (payload, stored alias list) -/
def findS {β : Type} (norm : σ → σ) (reg : List (β × List σ)) (q : σ) : Option β :=
  (reg.find? (fun e => eqStr norm e.2 q)).map (·.1)

/-- how many entries of the registry a string designates (`[a for a in ADSORBATE_LIST if a == q]`) -/
def designated {β : Type} (norm : σ → σ) (reg : List (β × List σ)) (q : σ) : List β :=
  (reg.filter (fun e => eqStr norm e.2 q)).map (·.1)

/-- every stored alias string of the registry, in list order -/
def allAliases {β : Type} (reg : List (β × List σ)) : List σ := reg.flatMap (·.2)

/-- the registry made by constructing one adsorbate per written entry (name, `alias` argument), in order:
the JSON source list through `Adsorbate(**entry)`, a database through `adsorbates_from_db`, user-made adsorbates with `store=True` -/
def build (norm : σ → σ) (entries : List (σ × Option (List σ))) : List (σ × List σ) :=
  entries.map fun e => (e.1, ctorAlias norm e.1 e.2)

def buildKeeping (keep : σ → Bool) (norm : σ → σ) (entries : List (σ × Option (List σ))) : List (σ × List σ) :=
  entries.map fun e => (e.1, ctorAliasKeeping keep norm e.1 e.2)

/-- the strings an entry is written with: its name and the elements of its `alias` argument -/
def written (e : σ × Option (List σ)) : List σ := e.1 :: (e.2.getD [])

end Strings

-- `Err` and `propValue` (the fallback pattern of the accessors) live in `Model/Fallback.lean`, same namespace

end PgVerif.Model.Registry
