/-
Model of `Adsorbate.find` / `Adsorbate.__eq__` (core/adsorbate.py) over the generated registry, and of the
fallback logic shared by every thermodynamic accessor (`molar_mass`, `saturation_pressure`, `liquid_density`, …).
-/
import PgVerif.Gen.Registry

namespace PgVerif.Model.Registry

/-- `int.from_bytes(b"\x01" + s.encode("utf-8"), "big")` — the key the translator attaches to an alias -/
def encode (s : String) : Nat := s.toUTF8.foldl (fun n b => n * 256 + b.toNat) 1

/-- `next(ads for ads in ADSORBATE_LIST if name.lower() in ads.alias)` with the key of `name.lower()` -/
def find {β : Type} (reg : List (β × List Nat)) (k : Nat) : Option β :=
  (reg.find? (fun e => e.2.contains k)).map (·.1)

/-- every alias of the registry, in list order -/
def allKeys {β : Type} (reg : List (β × List Nat)) : List Nat := reg.flatMap (·.2)

inductive Err | param | calc
  deriving DecidableEq, Repr

/-- the accessor pattern:
```
if calculate:
    try: return backend_value
    except BaseException: return self.X(calculate=False)
try: return get_prop(X)
except ParameterError: raise CalculationError
```
`backend = none` models "the backend raised"; `user = none` "the property is not in the dictionary". -/
def propValue {α : Type} (calculate : Bool) (backend user : Option α) : Except Err α :=
  if calculate then
    match backend with
    | some v => .ok v
    | none => match user with
      | some u => .ok u
      | none => .error .calc
  else
    match user with
    | some u => .ok u
    | none => .error .calc

end PgVerif.Model.Registry
