/-
Model of `Adsorbate.find` / `Adsorbate.__eq__` (core/adsorbate.py) over the generated registry, and of the
fallback logic shared by every thermodynamic accessor (`molar_mass`, `saturation_pressure`, `liquid_density`, …).
-/
import PgVerif.Gen.Registry
import PgVerif.Model.Fallback

namespace PgVerif.Model.Registry

/-- `int.from_bytes(b"\x01" + s.encode("utf-8"), "big")` — the key the translator attaches to an alias -/
def encode (s : String) : Nat := s.toUTF8.foldl (fun n b => n * 256 + b.toNat) 1

/-- `next(ads for ads in ADSORBATE_LIST if name.lower() in ads.alias)` with the key of `name.lower()` -/
def find {β : Type} (reg : List (β × List Nat)) (k : Nat) : Option β :=
  (reg.find? (fun e => e.2.contains k)).map (·.1)

/-- every alias of the registry, in list order -/
def allKeys {β : Type} (reg : List (β × List Nat)) : List Nat := reg.flatMap (·.2)

-- `Err` and `propValue` (the fallback pattern of the accessors) live in `Model/Fallback.lean`, same namespace

end PgVerif.Model.Registry
