/-
Hand-written model of the control logic of the two non-regression enthalpy methods:

* characterisation/enth_sorp_whittaker.py `enthalpy_sorption_whittaker`: the `for n in loading` loop — which loadings are
  skipped (`n == 0`; pressure NaN, negative, above the critical or above the saturation pressure), at which pressure the
  vaporisation enthalpy is read (`p = max(p, p_t)`), the pseudo-saturation pressure `p_c (T/T_c)²` used when the adsorbate has
  no saturation pressure at `T`; the formula for one loading is the generated `Gen.CharR.whit_*` chain.
* characterisation/initial_enth.py `initial_enthalpy_point`: `isotherm.other_data(key, branch)[0]`.

Pressures arrive as `Option α` (`none` = NaN from `pressure_at`).  Polymorphic over an ordered field, executed at ℚ by
`Drv/Enthalpy.lean`.
-/
import Mathlib.Algebra.Order.Field.Basic

namespace PgVerif.Model.Enthalpy

variable {α : Type} [Field α] [LinearOrder α]

/-- `if n == 0: continue` and `if np.isnan(p) or p < 0 or p > p_c or p > p_sat: continue` -/
def kept (pc psat n : α) (p : Option α) : Bool :=
  if n = 0 then false
  else match p with
    | none => false
    | some p => !(decide (p < 0) || decide (p > pc) || decide (p > psat))

/-- `p = max(p, p_t)`: the pressure at which `enthalpy_vaporisation(press=p)` is read -/
def hvapPressure (pt p : α) : α := max p pt

/-- the loop: for every kept loading the pair (loading, pressure handed to the vaporisation-enthalpy lookup), in input order -/
def whitLoop (pc pt psat : α) : List (α × Option α) → List (α × α)
  | [] => []
  | (n, p) :: rest =>
    if kept pc psat n p then
      match p with
      | some p => (n, hvapPressure pt p) :: whitLoop pc pt psat rest
      | none => whitLoop pc pt psat rest
    else whitLoop pc pt psat rest

/-- `p_sat = p_c * ((T / T_c)**2)` (only when the adsorbate has no saturation pressure at `T`) -/
def pseudoSaturation (pc T Tc : α) : α := pc * (T / Tc) ^ 2

/-- `initial_enthalpy_point`: rows are (branch mark, enthalpy) in measurement order; `branch = none` means all rows -/
def initialPoint (rows : List (Bool × α)) (branch : Option Bool) : Option α :=
  match branch with
  | none => (rows.map (·.2)).head?
  | some b => ((rows.filter (·.1 == b)).map (·.2)).head?

end PgVerif.Model.Enthalpy
