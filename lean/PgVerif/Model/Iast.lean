/-
Hand-written model of the arithmetic of IAST around the numerical root finding (iast/pgiast.py):
`iast_point` / `reverse_iast` after `scipy.optimize.root` has returned the free mole fractions, and the three wrappers
(`iast_point_fraction`, `iast_binary_svp`, `iast_binary_vle`).  The pure-component loadings at the fictitious pressures
enter as numbers (`n0`).  Polymorphic over a field, run at ℚ against the real functions by `Drv/Iast.lean`.
-/
import Mathlib.Algebra.Order.Field.Basic

namespace PgVerif.Model.Iast

variable {α : Type} [Field α]

/-- `numpy.concatenate((x, [1 - sum(x)]))` -/
def complete (free : List α) : List α := free ++ [1 - free.sum]

/-- `pressure0 = partial_pressures / adsorbed_mole_fractions` -/
def fictitious (p x : List α) : List α := List.zipWith (· / ·) p x

/-- `inverse_loading = Σ x_i / n_i⁰` -/
def inverseLoading (x n0 : List α) : α := (List.zipWith (· / ·) x n0).sum

/-- `loading_total = 1 / inverse_loading` -/
def totalLoading (x n0 : List α) : α := 1 / inverseLoading x n0

/-- `loadings = x * loading_total` -/
def loadings (x n0 : List α) : List α := x.map (· * totalLoading x n0)

/-- `iast_point_fraction`: `partial_pressures = total_pressure * gas_mole_fraction` -/
def partialPressures (y : List α) (total : α) : List α := y.map (total * ·)

/-- `reverse_iast`: `pressure0 = total_pressure * y / x` -/
def fictitiousReverse (total : α) (y x : List α) : List α := List.zipWith (fun yi xi => total * yi / xi) y x

/-- `iast_binary_svp`: `(n_0 / y_0) / (n_1 / y_1)` -/
def selectivity (n0 n1 y0 y1 : α) : α := (n0 / y0) / (n1 / y1)

/-- `iast_binary_vle`: `x = n_0 / (n_0 + n_1)` -/
def vleX (n0 n1 : α) : α := n0 / (n0 + n1)

/-- the range check on the completed fractions (`CalculationError` when violated) -/
def fractionsValid [LinearOrder α] (x : List α) : Bool := x.all (fun v => decide (0 ≤ v) && decide (v ≤ 1))

/-! ### certificate of a returned result (the IAST equations re-evaluated from the returned loadings) -/

/-- adsorbed mole fractions of a returned loading vector: `x_i = n_i / Σ_j n_j` -/
def fractionsOf (loads : List α) : List α := loads.map (· / loads.sum)

/-- the residual vector of `spreading_pressure_differences`: `π_i − π_{i+1}` for consecutive components -/
def spreadDiffs (sp : List α) : List α := List.zipWith (· - ·) sp sp.tail

/-- residual of the ideal-mixing rule for a returned total loading: `1/n_t − Σ x_i / n_i⁰` -/
def mixingResidual (x n0 : List α) (total : α) : α := 1 / total - inverseLoading x n0

end PgVerif.Model.Iast
