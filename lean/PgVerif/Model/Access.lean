/-
Model of the read accessors of point and model isotherms (core/pointisotherm.py `data`, `pressure`, `loading`,
`pressure_at`, `loading_at`; core/modelisotherm.py `pressure_at`, `loading_at`; utilities `split_ads_data`,
`get_iso_loading_and_pressure_ordered`).  Unit plumbing is expressed with `Model/Units.lean`; interpolation with
`interpLin` of `Model/SpreadPoint.lean`.  Polymorphic over an ordered field; executed at ℚ by the driver.
-/
import PgVerif.Model.IsoState
import PgVerif.Model.SpreadPoint

namespace PgVerif.Model
open PgVerif.Gen

variable {α : Type} [Field α]

/-- `arg or default` for an optional string argument -/
def orDefault (arg cur : Option String) : Option String := if truthy arg then arg else cur

/-! ### whole-column accessors -/

/-- `PointIsotherm.pressure(pressure_mode, pressure_unit)` on one stored value (before limits) -/
def accessPressure (c : Ctx α) (lab : Labels) (v : α) (pm pu : Option String) : Except Err α :=
  if truthy pm || truthy pu then
    match cPressure c.psat c.tempOk v (some lab.pmode) (orDefault pm (some lab.pmode)) lab.punit (orDefault pu lab.punit) with
    | .error _ => .error .calc          -- `except pgError: raise CalculationError`
    | .ok r => .ok r
  else .ok v

/-- `PointIsotherm.loading(loading_basis, loading_unit, material_basis, material_unit)` on one stored value;
also the output conversion of `ModelIsotherm.loading_at`: material first, then loading with the *target* material -/
def accessLoadingTarget (c : Ctx α) (lab : Labels) (v : α) (lb lu mb mu : Option String) : Except Err α := do
  let v1 ← if truthy mb || truthy mu then
      cMaterial c.env v (some lab.mbasis) (orDefault mb (some lab.mbasis)) lab.munit mu
    else pure v
  if truthy lb || truthy lu then
    cLoading c.env v1 (some lab.lbasis) (orDefault lb (some lab.lbasis)) lab.lunit lu
      (orDefault mb (some lab.mbasis)) (orDefault mu lab.munit)
  else pure v1

/-- output conversion of `PointIsotherm.loading_at`: like the above but `c_loading` gets the *stored* material -/
def accessLoadingStored (c : Ctx α) (lab : Labels) (v : α) (lb lu mb mu : Option String) : Except Err α := do
  let v1 ← if truthy mb || truthy mu then
      cMaterial c.env v (some lab.mbasis) (orDefault mb (some lab.mbasis)) lab.munit mu
    else pure v
  if truthy lb || truthy lu then
    cLoading c.env v1 (some lab.lbasis) (orDefault lb (some lab.lbasis)) lab.lunit lu (some lab.mbasis) lab.munit
  else pure v1

/-- input conversion of `loading_at` (both classes): a pressure given in (mode, unit) → stored representation -/
def inputPressure (c : Ctx α) (lab : Labels) (v : α) (pm pu : Option String) : Except Err α :=
  if truthy pm || truthy pu then
    let pm' := orDefault pm (some lab.pmode)
    if pm' = some "absolute" && !truthy pu then .error .param
    else cPressure c.psat c.tempOk v pm' (some lab.pmode) pu lab.punit
  else .ok v

/-- output conversion of `PointIsotherm.pressure_at` (mode defaults to the stored one; unit is passed as given) -/
def outputPressurePoint (c : Ctx α) (lab : Labels) (v : α) (pm pu : Option String) : Except Err α :=
  if truthy pm || truthy pu then
    cPressure c.psat c.tempOk v (some lab.pmode) (orDefault pm (some lab.pmode)) lab.punit pu
  else .ok v

/-- output conversion of `ModelIsotherm.pressure_at` (mode and unit default to the stored ones) -/
def outputPressureModel (c : Ctx α) (lab : Labels) (v : α) (pm pu : Option String) : Except Err α :=
  if truthy pm || truthy pu then
    cPressure c.psat c.tempOk v (some lab.pmode) (orDefault pm (some lab.pmode)) lab.punit (orDefault pu lab.punit)
  else .ok v

/-- input conversion of `pressure_at`: a loading given in foreign units → stored representation.
`modelClass = true` is `ModelIsotherm.pressure_at` (fraction input interpreted with the *given* material),
`false` is `PointIsotherm.pressure_at` (interpreted with the *stored* material). -/
def inputLoading (modelClass : Bool) (c : Ctx α) (lab : Labels) (v : α) (lb lu mb mu : Option String) : Except Err α := do
  let v1 ← if truthy mb || truthy mu then
      (if !truthy mu then .error .param
       else cMaterial c.env v (orDefault mb (some lab.mbasis)) (some lab.mbasis) mu lab.munit)
    else pure v
  if truthy lb || truthy lu then
    if !truthy lu then .error .param
    else
      -- ModelIsotherm passes its local `material_basis` (defaulted only when a material argument was given)
      let bm := if modelClass then (if truthy mb || truthy mu then orDefault mb (some lab.mbasis) else mb) else some lab.mbasis
      let um := if modelClass then mu else lab.munit
      cLoading c.env v1 (orDefault lb (some lab.lbasis)) (some lab.lbasis) lu lab.lunit bm um
  else pure v1

/-! ### branch and limit selection -/

variable [LinearOrder α]

/-- rows of a branch, in stored order: `data_raw.loc[data_raw['branch'] == k]` -/
def dataBranch {β : Type} (rows : List (β × Nat)) (branch : Option String) : Except Err (List β) :=
  match branch with
  | none => .ok (rows.map (·.1))
  | some b =>
    if b.startsWith "all" then .ok (rows.map (·.1))
    else if b = "ads" then .ok ((rows.filter (·.2 = 0)).map (·.1))
    else if b = "des" then .ok ((rows.filter (·.2 = 1)).map (·.1))
    else .error .param

/-- `limits and any(limits)` then `ret.between(lo or -inf, hi or +inf)` (inclusive) -/
def applyLimits (vs : List α) (limits : Option (Option α × Option α)) : List α :=
  match limits with
  | none => vs
  | some (lo, hi) =>
    let anyT := (match lo with | some x => x ≠ 0 | none => false) || (match hi with | some x => x ≠ 0 | none => false)
    if !anyT then vs
    else vs.filter fun v => (match lo with | some x => x ≤ v | none => true) && (match hi with | some x => v ≤ x | none => true)

/-- `split_ads_data`: 0 = adsorption, 1 = desorption; the split is at the first maximum of the pressures -/
def firstMaxIdx : List α → Nat
  | [] => 0
  | [_] => 0
  | x :: y :: t =>
    let j := firstMaxIdx (y :: t)
    if (y :: t).getD j y ≤ x then 0 else j + 1

def splitAds (ps : List α) : List Nat :=
  let n := ps.length
  let infl := firstMaxIdx ps + 1
  if infl = n then List.replicate n 0
  else
    let infl' := if infl = 1 then 0 else infl
    (List.range n).map fun i => if infl' ≤ i then 1 else 0

/-- `get_iso_loading_and_pressure_ordered`: desorption data are reversed (increasing pressure) -/
def orderedForBranch {β : Type} (branch : String) (xs : List β) : List β :=
  if branch = "des" then xs.reverse else xs

end PgVerif.Model
