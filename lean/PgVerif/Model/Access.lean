/-
Model of the read accessors of point and model isotherms (core/pointisotherm.py `data`, `pressure`, `loading`,
`other_data`, `has_branch`, `pressure_at`, `loading_at`; core/modelisotherm.py `pressure`, `loading`, `has_branch`,
`pressure_at`, `loading_at`; utilities `split_ads_data`, `find_limit_indices`, `get_iso_loading_and_pressure_ordered`;
core/baseisotherm.py `temperature` (the kelvin temperature every accessor hands to the unit conversions)).  Unit plumbing is expressed with `Model/Units.lean`; interpolation with
`interpLin` of `Model/SpreadPoint.lean`.  Polymorphic over an ordered field; executed at ℚ by the driver.
-/
import PgVerif.Model.IsoState
import PgVerif.Model.SpreadPoint

namespace PgVerif.Model
open PgVerif.Gen

variable {α : Type} [Field α]

/-- `arg or default` for an optional string argument -/
def orDefault (arg cur : Option String) : Option String := if truthy arg then arg else cur

/-! ### whole-column accessors -/

/-- `PointIsotherm.pressure(pressure_mode, pressure_unit)` on one stored value (before limits) -/
def accessPressure (c : Ctx α) (lab : Labels) (v : α) (pm pu : Option String) : Except Err α :=
  if truthy pm || truthy pu then
    match cPressure c.psat c.tempOk v (some lab.pmode) (orDefault pm (some lab.pmode)) lab.punit (orDefault pu lab.punit) with
    | .error _ => .error .calc          -- `except pgError: raise CalculationError`
    | .ok r => .ok r
  else .ok v

/-- `PointIsotherm.loading(loading_basis, loading_unit, material_basis, material_unit)` on one stored value;
also the output conversion of `ModelIsotherm.loading_at`: material first, then loading with the *target* material -/
def accessLoadingTarget (c : Ctx α) (lab : Labels) (v : α) (lb lu mb mu : Option String) : Except Err α := do
  let v1 ← if truthy mb || truthy mu then
      cMaterial c.env v (some lab.mbasis) (orDefault mb (some lab.mbasis)) lab.munit mu
    else pure v
  if truthy lb || truthy lu then
    cLoading c.env v1 (some lab.lbasis) (orDefault lb (some lab.lbasis)) lab.lunit lu
      (orDefault mb (some lab.mbasis)) (orDefault mu lab.munit)
  else pure v1

/-- output conversion of `PointIsotherm.loading_at`: like the above but `c_loading` gets the *stored* material -/
def accessLoadingStored (c : Ctx α) (lab : Labels) (v : α) (lb lu mb mu : Option String) : Except Err α := do
  let v1 ← if truthy mb || truthy mu then
      cMaterial c.env v (some lab.mbasis) (orDefault mb (some lab.mbasis)) lab.munit mu
    else pure v
  if truthy lb || truthy lu then
    cLoading c.env v1 (some lab.lbasis) (orDefault lb (some lab.lbasis)) lab.lunit lu (some lab.mbasis) lab.munit
  else pure v1

/-- input conversion of `loading_at` (both classes): a pressure given in (mode, unit) → stored representation -/
def inputPressure (c : Ctx α) (lab : Labels) (v : α) (pm pu : Option String) : Except Err α :=
  if truthy pm || truthy pu then
    let pm' := orDefault pm (some lab.pmode)
    if pm' = some "absolute" && !truthy pu then .error .param
    else cPressure c.psat c.tempOk v pm' (some lab.pmode) pu lab.punit
  else .ok v

/-- output conversion of `PointIsotherm.pressure_at` (mode defaults to the stored one; unit is passed as given) -/
def outputPressurePoint (c : Ctx α) (lab : Labels) (v : α) (pm pu : Option String) : Except Err α :=
  if truthy pm || truthy pu then
    cPressure c.psat c.tempOk v (some lab.pmode) (orDefault pm (some lab.pmode)) lab.punit pu
  else .ok v

/-- output conversion of `ModelIsotherm.pressure_at` (mode and unit default to the stored ones) -/
def outputPressureModel (c : Ctx α) (lab : Labels) (v : α) (pm pu : Option String) : Except Err α :=
  if truthy pm || truthy pu then
    cPressure c.psat c.tempOk v (some lab.pmode) (orDefault pm (some lab.pmode)) lab.punit (orDefault pu lab.punit)
  else .ok v

/-- input conversion of `pressure_at`: a loading given in foreign units → stored representation.
`modelClass = true` is `ModelIsotherm.pressure_at` (fraction input interpreted with the *given* material),
`false` is `PointIsotherm.pressure_at` (interpreted with the *stored* material). -/
def inputLoading (modelClass : Bool) (c : Ctx α) (lab : Labels) (v : α) (lb lu mb mu : Option String) : Except Err α := do
  let v1 ← if truthy mb || truthy mu then
      (if !truthy mu then .error .param
       else cMaterial c.env v (orDefault mb (some lab.mbasis)) (some lab.mbasis) mu lab.munit)
    else pure v
  if truthy lb || truthy lu then
    if !truthy lu then .error .param
    else
      -- ModelIsotherm passes its local `material_basis` (defaulted only when a material argument was given)
      let bm := if modelClass then (if truthy mb || truthy mu then orDefault mb (some lab.mbasis) else mb) else some lab.mbasis
      let um := if modelClass then mu else lab.munit
      cLoading c.env v1 (orDefault lb (some lab.lbasis)) (some lab.lbasis) lu lab.lunit bm um
  else pure v1

/-! ### branch and limit selection -/

variable [LinearOrder α]

/-- rows of a branch, in stored order: `data_raw.loc[data_raw['branch'] == k]` -/
def dataBranch {β : Type} (rows : List (β × Nat)) (branch : Option String) : Except Err (List β) :=
  match branch with
  | none => .ok (rows.map (·.1))
  | some b =>
    if b.startsWith "all" then .ok (rows.map (·.1))
    else if b = "ads" then .ok ((rows.filter (·.2 = 0)).map (·.1))
    else if b = "des" then .ok ((rows.filter (·.2 = 1)).map (·.1))
    else .error .param

/-- `limits and any(limits)` then `ret.between(lo or -inf, hi or +inf)` (inclusive) -/
def applyLimits (vs : List α) (limits : Option (Option α × Option α)) : List α :=
  match limits with
  | none => vs
  | some (lo, hi) =>
    let anyT := (match lo with | some x => x ≠ 0 | none => false) || (match hi with | some x => x ≠ 0 | none => false)
    if !anyT then vs
    else vs.filter fun v => (match lo with | some x => x ≤ v | none => true) && (match hi with | some x => v ≤ x | none => true)

/-- `split_ads_data`: 0 = adsorption, 1 = desorption; the split is at the first maximum of the pressures -/
def firstMaxIdx : List α → Nat
  | [] => 0
  | [_] => 0
  | x :: y :: t =>
    let j := firstMaxIdx (y :: t)
    if (y :: t).getD j y ≤ x then 0 else j + 1

def splitAds (ps : List α) : List Nat :=
  let n := ps.length
  let infl := firstMaxIdx ps + 1
  if infl = n then List.replicate n 0
  else
    let infl' := if infl = 1 then 0 else infl
    (List.range n).map fun i => if infl' ≤ i then 1 else 0

/-- `get_iso_loading_and_pressure_ordered`: desorption data are reversed (increasing pressure) -/
def orderedForBranch {β : Type} (branch : String) (xs : List β) : List β :=
  if branch = "des" then xs.reverse else xs

/-! ### whole accessors of a point isotherm: branch → conversion of every value → limits -/

/-- the common shape of `PointIsotherm.pressure / loading / other_data`: rows of the branch (stored order), every value
through the accessor's conversion `acc`, then the limits — which therefore are in the REQUESTED representation.
(`if not ret.empty` needs no case: on an empty selection `mapM` converts nothing and the limits select nothing.) -/
def column (acc : α → Except Err α) (rows : List (α × Nat)) (branch : Option String)
    (limits : Option (Option α × Option α)) : Except Err (List α) := do
  let vs ← dataBranch rows branch
  let ws ← vs.mapM acc
  pure (applyLimits ws limits)

/-- `PointIsotherm.pressure(branch, pressure_mode, pressure_unit, limits)` -/
def pressureColumn (c : Ctx α) (lab : Labels) (rows : List (α × Nat)) (branch pm pu : Option String)
    (limits : Option (Option α × Option α)) : Except Err (List α) :=
  column (fun v => accessPressure c lab v pm pu) rows branch limits

/-- `PointIsotherm.loading(branch, loading_basis, loading_unit, material_basis, material_unit, limits)` -/
def loadingColumn (c : Ctx α) (lab : Labels) (rows : List (α × Nat)) (branch lb lu mb mu : Option String)
    (limits : Option (Option α × Option α)) : Except Err (List α) :=
  column (fun v => accessLoadingTarget c lab v lb lu mb mu) rows branch limits

/-- `PointIsotherm.other_data(key, branch, limits)`: `known` = the key names a supplementary column -/
def otherColumn (known : Bool) (rows : List (α × Nat)) (branch : Option String)
    (limits : Option (Option α × Option α)) : Except Err (List α) :=
  if known then column (fun v => .ok v) rows branch limits else .error .param

/-- `PointIsotherm.has_branch(branch)`: some stored row carries the mark -/
def hasBranch (marks : List Nat) (branch : Option String) : Except Err Bool :=
  (dataBranch (marks.map fun m => ((), m)) branch).map fun l => !l.isEmpty

/-- what a characterisation routine reads (`get_iso_loading_and_pressure_ordered`): both whole-branch accessors in the
requested units; the desorption branch reversed -/
def orderedRead (c : Ctx α) (lab : Labels) (prow lrow : List (α × Nat)) (branch : String)
    (pm pu lb lu mb mu : Option String) : Except Err (List α × List α) := do
  let l ← loadingColumn c lab lrow (some branch) lb lu mb mu none
  let p ← pressureColumn c lab prow (some branch) pm pu none
  pure (orderedForBranch branch p, orderedForBranch branch l)

/-! ### whole accessors of a model isotherm -/

/-- `ret[(lo < ret) & (ret < hi)]` under `limits and any(limits)`: model isotherms slice with STRICT bounds -/
def applyLimitsStrict (vs : List α) (limits : Option (Option α × Option α)) : List α :=
  match limits with
  | none => vs
  | some (lo, hi) =>
    let anyT := (match lo with | some x => x ≠ 0 | none => false) || (match hi with | some x => x ≠ 0 | none => false)
    if !anyT then vs
    else vs.filter fun v => (match lo with | some x => x < v | none => true) && (match hi with | some x => v < x | none => true)

/-- `numpy.linspace(a, b, n)` -/
def linspace (a b : α) (n : Nat) : List α :=
  (List.range n).map fun (i : Nat) => a + (b - a) * ((i : Nat) : α) / (((n : Nat) : α) - 1)

/-- the branch guard of the model-isotherm accessors: `if branch and branch != self.branch` (`pressure()` also lets
`'all'` pass) -/
def modelBranchOk (own : String) (allowAll : Bool) (branch : Option String) : Bool :=
  !truthy branch || branch = some own || (allowAll && branch = some "all")

/-- `ModelIsotherm.has_branch(branch)` -/
def modelHasBranch (own : String) (branch : Option String) : Bool := branch = some own

/-- `ModelIsotherm.pressure(points, branch, pressure_mode, pressure_unit, limits)` of a model that calculates loading:
equidistant points of the model's pressure range, re-expressed, strictly inside the limits -/
def modelPressureColumn (c : Ctx α) (lab : Labels) (own : String) (lo hi : α) (n : Nat) (branch pm pu : Option String)
    (limits : Option (Option α × Option α)) : Except Err (List α) :=
  if !modelBranchOk own true branch then .error .param
  else do
    let ws ← (linspace lo hi n).mapM fun v => outputPressureModel c lab v pm pu
    pure (applyLimitsStrict ws limits)

/-- `ModelIsotherm.loading(points, branch, loading_basis, …, limits)` of a model that calculates loading:
`loading_at(pressure(points), …)`, i.e. the bare model `m` on the native points, re-expressed, strictly inside the limits -/
def modelLoadingColumn (c : Ctx α) (lab : Labels) (own : String) (m : α → α) (lo hi : α) (n : Nat)
    (branch lb lu mb mu : Option String) (limits : Option (Option α × Option α)) : Except Err (List α) :=
  if !modelBranchOk own false branch then .error .param
  else do
    let ws ← (linspace lo hi n).mapM fun v => accessLoadingTarget c lab (m v) lb lu mb mu
    pure (applyLimitsStrict ws limits)

/-! ### interpolated / model-evaluated values at a point: input conversion → evaluation → output conversion -/

/-- `PointIsotherm.loading_at(pressure, pressure_mode, pressure_unit, loading_basis, …)` on the knots `ps`, `ls` of the
branch (increasing pressures), linear kind, no fill rule: outside the measured range is a `ValueError` -/
def pointLoadingAt (c : Ctx α) (lab : Labels) (ps ls : List α) (q : α) (pm pu lb lu mb mu : Option String) : Except Err α := do
  let p ← inputPressure c lab q pm pu
  match interpLin ps ls p with
  | none => .error .value
  | some l => accessLoadingStored c lab l lb lu mb mu

/-- `PointIsotherm.pressure_at(loading, loading_basis, …, pressure_mode, pressure_unit)` on the knots `ls`, `ps`
(increasing loadings) -/
def pointPressureAt (c : Ctx α) (lab : Labels) (ls ps : List α) (q : α) (lb lu mb mu pm pu : Option String) : Except Err α := do
  let l ← inputLoading false c lab q lb lu mb mu
  match interpLin ls ps l with
  | none => .error .value
  | some p => outputPressurePoint c lab p pm pu

/-- `ModelIsotherm.loading_at` around the bare model `m` -/
def modelLoadingAt (c : Ctx α) (lab : Labels) (m : α → α) (q : α) (pm pu lb lu mb mu : Option String) : Except Err α := do
  let p ← inputPressure c lab q pm pu
  accessLoadingTarget c lab (m p) lb lu mb mu

/-- `ModelIsotherm.pressure_at` around the bare inverse `mi` -/
def modelPressureAt (c : Ctx α) (lab : Labels) (mi : α → α) (q : α) (lb lu mb mu pm pu : Option String) : Except Err α := do
  let l ← inputLoading true c lab q lb lu mb mu
  outputPressureModel c lab (mi l) pm pu

/-! ### `find_limit_indices` -/

/-- `numpy.searchsorted(array, a)` on an increasing array: the number of elements `< a` -/
def searchLeft (xs : List α) (a : α) : Nat := (xs.filter (· < a)).length

/-- `find_limit_indices(array, limits, smallest_selection)`: positions of the first and last element kept;
a limit that is `None` or `0` is inactive; too small a selection is a `CalculationError` -/
def findLimitIndices (xs : List α) (limits : Option (Option α × Option α)) (smallest : Int) : Except Err (Int × Int) :=
  let lo := (limits.getD (none, none)).1
  let hi := (limits.getD (none, none)).2
  let imin : Int := match lo with | some a => if a ≠ 0 then (searchLeft xs a : Int) else 0 | none => 0
  let imax : Int := match hi with | some b => if b ≠ 0 then (searchLeft xs b : Int) - 1 else (xs.length : Int) - 1
                                  | none => (xs.length : Int) - 1
  if imax - imin < smallest then .error .calc else .ok (imin, imax)

/-! ### the temperature seen by the accessors -/

/-- `BaseIsotherm.temperature` (a property): the stored temperature in kelvin, whatever `temperature_unit` is -/
def kelvin (tunit : Option String) (t : α) : Except Err α :=
  if tunit = some "K" then .ok t else cTemperature t tunit (some "K")

/-- the adsorbate (and material) as functions of the temperature IN KELVIN: saturation pressure and the densities
used by the loading conversions -/
structure Thermo (α : Type) where
  psat : α → Option α
  env : α → Env α

/-- the constants an accessor works with: those at `self.temperature` (kelvin), never at the raw stored number -/
def Thermo.ctx (th : Thermo α) (tunit : Option String) (t : α) : Except Err (Ctx α) :=
  match kelvin tunit t with
  | .error e => .error e
  | .ok T => .ok ⟨th.psat T, th.env T, decide (T ≠ 0)⟩

/-- an accessor of a point isotherm in state `s` (labels, data AND stored temperature with its unit) -/
def accessPressureAt (th : Thermo α) (s : Iso α) (v : α) (pm pu : Option String) : Except Err α :=
  if truthy pm || truthy pu then
    match th.ctx s.lab.tunit s.temp with
    | .error _ => .error .calc            -- evaluated inside the `try` of `pressure()`
    | .ok c => accessPressure c s.lab v pm pu
  else .ok v

def accessLoadingAt (th : Thermo α) (s : Iso α) (v : α) (lb lu mb mu : Option String) : Except Err α :=
  match th.ctx s.lab.tunit s.temp with
  | .error e => .error e
  | .ok c => accessLoadingTarget c s.lab v lb lu mb mu

end PgVerif.Model
