/-
Model of the permanent conversions of a point isotherm (core/pointisotherm.py `convert`, `convert_pressure`,
`convert_loading`, `convert_material`; core/baseisotherm.py `convert_temperature`) and of the label check of
the constructor (`BaseIsotherm.__init__`).  Statement order, early returns and error propagation follow the
Python; the unit conversions are `Model/Units.lean`.  Polymorphic over a field; executed at ℚ by the driver.
-/
import PgVerif.Model.Units

namespace PgVerif.Model
open PgVerif.Gen

structure Labels where
  pmode : String
  punit : Option String
  lbasis : String
  lunit : Option String
  mbasis : String
  munit : Option String
  tunit : Option String
  deriving DecidableEq, Repr

/-- the part of a point isotherm a conversion can touch -/
structure Iso (α : Type) where
  lab : Labels
  ps : List α            -- pressure column (all rows, both branches)
  ls : List α            -- loading column
  temp : α               -- stored temperature, in `lab.tunit`
  lcache : Bool          -- a loading interpolator is cached
  pcache : Bool          -- a pressure interpolator is cached

/-- adsorbate / material constants at the isotherm's (physical) temperature -/
structure Ctx (α : Type) where
  psat : Option α
  env : Env α
  tempOk : Bool          -- truthiness of the temperature in K

inductive Outcome | ok | err (e : Err)
  deriving DecidableEq, Repr

variable {α : Type} [Field α]

/-- `BaseIsotherm.__init__` label checks (after it forced `pressure_unit = None` for relative modes) -/
def validLabels (l : Labels) : Bool :=
  (pressureMode.lookup l.pmode).isSome && (loadingMode.lookup l.lbasis).isSome && (materialMode.lookup l.mbasis).isSome &&
  (l.pmode != "absolute" || (match l.punit with | some u => (pressureUnits.lookup u).isSome | none => false)) &&
  (isFrac l.lbasis ||
    ((match l.lunit, loadingMode.lookup l.lbasis with
      | some u, some (some t) => ((unitTable t).lookup u).isSome
      | _, _ => false) &&
     (match l.munit, materialMode.lookup l.mbasis with
      | some u, some (some t) => ((unitTable t).lookup u).isSome
      | _, _ => false))) &&
  (match l.tunit with | some u => (temperatureUnits.lookup u).isSome | none => false)

def orCurrent (arg : Option String) (cur : String) : String :=
  match arg with
  | some s => if s != "" then s else cur
  | none => cur

/-- `convert_pressure(mode_to, unit_to)` -/
def convertPressure (c : Ctx α) (s : Iso α) (modeTo unitTo : Option String) : Iso α × Outcome :=
  let mode' := orCurrent modeTo s.lab.pmode
  let unit' := if !truthy unitTo && mode' = s.lab.pmode then s.lab.punit else unitTo
  if mode' = s.lab.pmode ∧ unit' = s.lab.punit then (s, .ok)
  else
    match cPressure c.psat c.tempOk (1 : α) (some s.lab.pmode) (some mode') s.lab.punit unit' with
    | .error _ => (s, .err .calc)        -- `except pgError: raise CalculationError`
    | .ok f =>
      let pu := if unit' ≠ s.lab.punit ∧ mode' = "absolute" then unit' else none
      ({ s with ps := s.ps.map (· * f), lab := { s.lab with pmode := mode', punit := pu }, lcache := false, pcache := false }, .ok)

/-- `convert_loading(basis_to, unit_to)` -/
def convertLoading (c : Ctx α) (s : Iso α) (basisTo unitTo : Option String) : Iso α × Outcome :=
  let basis' := orCurrent basisTo s.lab.lbasis
  let unit' := if !truthy unitTo && basis' = s.lab.lbasis then s.lab.lunit else unitTo
  if basis' = s.lab.lbasis ∧ unit' = s.lab.lunit then (s, .ok)
  else if isFrac s.lab.lbasis && basis' = s.lab.lbasis then (s, .ok)      -- "no loading units in this mode"
  else
    match cLoading c.env (1 : α) (some s.lab.lbasis) (some basis') s.lab.lunit unit' (some s.lab.mbasis) s.lab.munit with
    | .error e => (s, .err e)
    | .ok f =>
      let lu := if isFrac basis' then none else unit'
      ({ s with ls := s.ls.map (· * f), lab := { s.lab with lbasis := basis', lunit := lu }, lcache := false, pcache := false }, .ok)

def volLiq (b : String) : String := if b = "volume" then "volume_liquid" else b

/-- `convert_material(basis_to, unit_to)` -/
def convertMaterial (c : Ctx α) (s : Iso α) (basisTo unitTo : Option String) : Iso α × Outcome :=
  let basis' := orCurrent basisTo s.lab.mbasis
  let unit' := if !truthy unitTo && basis' = s.lab.mbasis then s.lab.munit else unitTo
  if basis' = s.lab.mbasis ∧ unit' = s.lab.munit then (s, .ok)
  else if isFrac s.lab.lbasis && basis' = s.lab.mbasis then
    -- "virtual" unit change: validated, data untouched, caches kept
    match cMaterial c.env (1 : α) (some s.lab.mbasis) (some basis') s.lab.munit unit' with
    | .error e => (s, .err e)
    | .ok _ => ({ s with lab := { s.lab with munit := unit' } }, .ok)
  else
    match cMaterial c.env (1 : α) (some s.lab.mbasis) (some basis') s.lab.munit unit' with
    | .error e => (s, .err e)
    | .ok f1 =>
      let r2 : Except Err α :=
        if isFrac s.lab.lbasis then
          cLoading c.env (1 : α) (some (volLiq s.lab.mbasis)) (some (volLiq basis')) s.lab.munit unit' none none
        else .ok 1
      match r2 with
      | .error e => (s, .err e)
      | .ok f2 =>
        ({ s with ls := s.ls.map (· * f1 * f2), lab := { s.lab with mbasis := basis', munit := unit' },
                  lcache := false, pcache := false }, .ok)

/-- `convert_temperature(unit_to)` -/
def convertTemperature (s : Iso α) (unitTo : Option String) : Iso α × Outcome :=
  match cTemperature s.temp s.lab.tunit unitTo with
  | .error e => (s, .err e)
  | .ok t => ({ s with temp := t, lab := { s.lab with tunit := normTemp unitTo } }, .ok)

/-- `convert(pressure_mode, pressure_unit, loading_basis, loading_unit, material_basis, material_unit)`:
pressure, then material, then loading; the first exception propagates -/
def convertAll (c : Ctx α) (s : Iso α) (pm pu lb lu mb mu : Option String) : Iso α × Outcome :=
  let r1 := if truthy pm || truthy pu then convertPressure c s pm pu else (s, .ok)
  match r1 with
  | (s1, .err e) => (s1, .err e)
  | (s1, .ok) =>
    let r2 := if truthy mb || truthy mu then convertMaterial c s1 mb mu else (s1, .ok)
    match r2 with
    | (s2, .err e) => (s2, .err e)
    | (s2, .ok) => if truthy lb || truthy lu then convertLoading c s2 lb lu else (s2, .ok)

inductive Op
  | pressure (mode unit : Option String)
  | loading (basis unit : Option String)
  | material (basis unit : Option String)
  | temperature (unit : Option String)
  | all (pm pu lb lu mb mu : Option String)
  deriving Repr

def step (c : Ctx α) (s : Iso α) : Op → Iso α × Outcome
  | .pressure m u => convertPressure c s m u
  | .loading b u => convertLoading c s b u
  | .material b u => convertMaterial c s b u
  | .temperature u => convertTemperature s u
  | .all pm pu lb lu mb mu => convertAll c s pm pu lb lu mb mu

/-- the state after a history (outcomes dropped) -/
def run (c : Ctx α) (s : Iso α) (ops : List Op) : Iso α := ops.foldl (fun st op => (step c st op).1) s

end PgVerif.Model
