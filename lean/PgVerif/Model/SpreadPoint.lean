/-
Model of `PointIsotherm.spreading_pressure_at` (core/pointisotherm.py) after unit handling and the range
guard: the exact fold over the branch data.  Polymorphic over an ordered field; logarithms enter as inputs
(`logs[i] = ln(ps[i+1]/ps[i])`, `lgLast = ln(p/ps[k-1])`), so the same definition runs at ℚ in the driver and
is instantiated with `Real.log` in the theorems (`Props/C11/Point.lean`).
-/
import Mathlib.Algebra.Order.Field.Basic

namespace PgVerif.Model

variable {α : Type} [Field α] [LinearOrder α]

/-- one linear segment from `(p0, l0)` to `(p1, l1)`: `slope*(p1-p0) + intercept*ln(p1/p0)` -/
def seg (p0 l0 p1 l1 lg : α) : α :=
  let slope := (l1 - l0) / (p1 - p0)
  let intercept := l0 - slope * p0
  slope * (p1 - p0) + intercept * lg

/-- `n_points = numpy.sum(pressures < pressure)` -/
def nBelow (ps : List α) (p : α) : Nat := (ps.filter (· < p)).length

/-- the `for i in range(n_points - 1)` loop, started from `area = loadings[0]` -/
def spreadBody (ps ls logs : List α) (k : Nat) (l0 : α) : α :=
  (List.range (k - 1)).foldl
    (fun area i => area + seg (ps.getD i 0) (ls.getD i 0) (ps.getD (i + 1) 0) (ls.getD (i + 1) 0) (logs.getD i 0)) l0

/-- the whole computation; `lq` is `loading_at(pressure)`; `none` = IndexError on empty data -/
def spreadPoint (ps ls logs : List α) (p lq lgLast : α) : Option α :=
  match ps, ls with
  | p0 :: _, l0 :: _ =>
    let k := nBelow ps p
    if k = 0 then some (l0 / p0 * p)
    else some (spreadBody ps ls logs k l0 + seg (ps.getD (k - 1) 0) (ls.getD (k - 1) 0) p lq lgLast)
  | _, _ => none

/-- the guard added to `spreading_pressure_at`: a first data point at the origin `(0, 0)` is dropped (it is the origin of
Henry's law itself; with it the Henry constant would be `0/0`) -/
def dropOrigin : List α → List α → List α × List α
  | p0 :: p1 :: ps, l0 :: l1 :: ls => if p0 = 0 ∧ l0 = 0 then (p1 :: ps, l1 :: ls) else (p0 :: p1 :: ps, l0 :: l1 :: ls)
  | ps, ls => (ps, ls)

/-- `spreading_pressure_at` on the branch data as stored (origin guard, then the fold) -/
def spreadPointData (ps ls logs : List α) (p lq lgLast : α) : Option α :=
  let d := dropOrigin ps ls
  spreadPoint d.1 d.2 logs p lq lgLast

/-- linear interpolation through the knots at `x` (value on the segment that contains `x`;
`none` outside the measured range) — `scipy.interpolate.interp1d(kind='linear')` without fill -/
def interpLin : List α → List α → α → Option α
  | p0 :: p1 :: ps, l0 :: l1 :: ls, x =>
    if x < p0 then none
    else if x ≤ p1 then some (l0 + (l1 - l0) / (p1 - p0) * (x - p0))
    else interpLin (p1 :: ps) (l1 :: ls) x
  | [p0], [l0], x => if x = p0 then some l0 else none
  | _, _, _ => none

end PgVerif.Model
