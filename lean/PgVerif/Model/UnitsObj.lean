/-
C01 only (kept out of `Model/Units.lean`, which other properties import):

* the property store of `pygaps.core.material.Material` as far as the converters read it
  (`properties` dictionary filled by the constructor keywords, the `density` / `molar_mass`
  setters with their `if val:` guard, the getters = `properties.get`, `get_prop`), and the
  conversion environment such an object presents to `c_material`;
* one *request* = one call of a public entry point of the converters (`c_unit`, `c_pressure`,
  `c_loading`, `c_material`, `c_temperature`, `Adsorbate.saturation_pressure(T, unit)`), and the
  replies to a whole history of requests.  The model is a function of the request alone; the
  harness runs the real code through long mixed histories and compares every reply with this
  function (`Props/C01`: `reply_history_independent`).
-/
import PgVerif.Model.Units

namespace PgVerif.Model
open PgVerif.Gen

variable {α : Type} [Field α] [DecidableEq α]

/-- one step in the life of a `Material` object -/
inductive MatOp (α : Type)
  /-- constructor keyword `Material(name, k=v)` (a number) -/
  | kw (k : String) (v : α)
  /-- property setter `m.k = v` for `k ∈ {density, molar_mass}`; `none` = Python `None` -/
  | set (k : String) (v : Option α)

/-- the `properties` dictionary, newest binding first (`lookup` = `dict.get`) -/
abbrev MatProps (α : Type) := List (String × α)

/-- `if val: self.properties[k] = float(val)`: `None` and `0` are ignored -/
def matStep (p : MatProps α) : MatOp α → MatProps α
  | .kw k v => (k, v) :: p
  | .set k (some v) => if v = 0 then p else (k, v) :: p
  | .set _ none => p

def matProps (ops : List (MatOp α)) : MatProps α := ops.foldl matStep []

/-- `Material.density` / `Material.molar_mass` (getters) -/
def matDensity (p : MatProps α) : Option α := p.lookup "density"
def matMolarMass (p : MatProps α) : Option α := p.lookup "molar_mass"

/-- `Material.get_prop(k)`: the dictionary entry; for the two reserved names the getter (which may be
`None`); any other missing name is a `ParameterError` -/
def matGetProp (p : MatProps α) (k : String) : Except Err (Option α) :=
  match p.lookup k with
  | some x => .ok (some x)
  | none => if k = "density" ∨ k = "molar_mass" then .ok none else .error .param

/-- what `c_material(…, material=m)` can read from the object (it never asks for adsorbate quantities) -/
def matEnv (p : MatProps α) : Env α
  | .matDensity => matDensity p
  | .matMolarMass => matMolarMass p
  | _ => none

/-- `Adsorbate.saturation_pressure(temp, unit)` given the value in Pa (`none`: CalculationError):
`unit=None` returns Pa, otherwise `c_unit(_PRESSURE_UNITS, p, 'Pa', unit)` -/
def satPressure (psat : Option α) (unit : Option String) : Except Err α :=
  match psat with
  | none => .error .calc
  | some ps =>
    match unit with
    | none => .ok ps
    | some _ => cUnit pressureUnits ps (some "Pa") unit 1

/-- one call of a public entry point -/
inductive Req (α : Type)
  | unit (table : String) (v : α) (uf ut : Option String) (sign : Int)
  | pressure (psat : Option α) (tempOk : Bool) (v : α) (mf mt uf ut : Option String)
  | loading (env : Env α) (v : α) (bf bt uf ut bm um : Option String)
  | material (env : Env α) (v : α) (bf bt uf ut : Option String)
  | materialObj (ops : List (MatOp α)) (v : α) (bf bt uf ut : Option String)
  | temperature (v : α) (uf ut : Option String)
  | satp (psat : Option α) (unit : Option String)

def Req.run : Req α → Except Err α
  | .unit t v uf ut sg => cUnit (unitTable t) v uf ut sg
  | .pressure ps t v mf mt uf ut => cPressure ps t v mf mt uf ut
  | .loading env v bf bt uf ut bm um => cLoading env v bf bt uf ut bm um
  | .material env v bf bt uf ut => cMaterial env v bf bt uf ut
  | .materialObj ops v bf bt uf ut => cMaterial (matEnv (matProps ops)) v bf bt uf ut
  | .temperature v uf ut => cTemperature v uf ut
  | .satp ps u => satPressure ps u

/-- the replies to a history of requests, in order -/
def runAll (rs : List (Req α)) : List (Except Err α) := rs.map Req.run

end PgVerif.Model
