/-
Model of what lies UNDER the statement-level store model (Model/Store.lean): SQLite's pager for one rollback-journal
transaction, at the granularity at which a process can die.

`Model.Store.runOp` says "the process died ⇒ nothing is committed".  That is a property of the pager only in a certain
ENVIRONMENT, which the statement sequence of an operation does not show:

  * `journal`     where the rollback journal lives: a file beside the database (journal_mode DELETE / TRUNCATE / PERSIST),
                  the memory of the process (MEMORY), or nowhere (OFF);
  * `syncJournal` the journal is fsynced before a page of the database file is overwritten (synchronous ≥ NORMAL);
  * `oneTxn`      all statements of one public call run in ONE transaction on ONE connection (no autocommit /
                  isolation_level=None, no commit in the middle, no second connection).

A transaction is a list of micro-events: `write p v` (a statement changes page `p` in the page cache; the first time a page is
touched its original content is appended to the journal), `spill p` (SQLite writes the dirty page `p` into the database file to
make room in the cache — it may do so at any time before the commit, and does as soon as the cache is full) and `endTxn` (the
commit point: database file fsynced, journal deleted).  `txn` appends the commit (`spill` of every dirty page, `endTxn`) to the
statement's writes and whatever spills SQLite chose.  Death can strike between any two micro-events: `afterDeath` is the file the
next connection sees (the memory of the process is gone, a journal FILE is played back); `afterPowerLoss` additionally loses
what was not fsynced.

Page contents are opaque numbers.  No Mathlib: executable core Lean (the driver evaluates `Env.deathSafe` / `Env.powerSafe` on
the environment the harness reads from the live connection).
-/
namespace PgVerif.Model.Pager

/-- a file: page number ↦ content -/
abbrev File := Nat → Nat

def upd (d : File) (p v : Nat) : File := fun q => if q = p then v else d q

inductive Journal
  | file | memory | off
  deriving DecidableEq, Repr

structure Env where
  journal : Journal
  syncJournal : Bool
  oneTxn : Bool
  deriving DecidableEq, Repr

/-- the environment of a plain `sqlite3.connect(path)` used as `with_connection` uses it -/
def Env.default : Env := ⟨.file, true, true⟩

structure Pager where
  disk : File                   -- the database file as the operating system holds it (survives process death)
  synced : File                 -- … as of the last fsync (survives power loss)
  jfile : List (Nat × Nat)      -- records (page, original content) of the journal FILE, oldest first
  jsynced : Nat                 -- how many of them have been fsynced
  jmem : List (Nat × Nat)       -- records of a journal kept in process memory
  cache : Nat → Option Nat      -- dirty pages of the page cache
  dirty : List Nat              -- pages written in this transaction (all of them journaled, if there is a journal)

inductive Ev
  | write (p v : Nat)
  | spill (p : Nat)
  | endTxn
  deriving DecidableEq, Repr

def journalPage (env : Env) (s : Pager) (p : Nat) : Pager :=
  if p ∈ s.dirty then s
  else match env.journal with
    | .file => { s with jfile := s.jfile ++ [(p, s.disk p)], dirty := p :: s.dirty }
    | .memory => { s with jmem := s.jmem ++ [(p, s.disk p)], dirty := p :: s.dirty }
    | .off => { s with dirty := p :: s.dirty }

def step (env : Env) (s : Pager) : Ev → Pager
  | .write p v =>
    let s1 := journalPage env s p
    { s1 with cache := fun q => if q = p then some v else s1.cache q }
  | .spill p =>
    match s.cache p with
    | none => s
    | some v =>
      { s with disk := upd s.disk p v, cache := fun q => if q = p then none else s.cache q,
               jsynced := if env.syncJournal then s.jfile.length else s.jsynced }
  | .endTxn =>
    { s with synced := s.disk, jfile := [], jsynced := 0, jmem := [], dirty := [], cache := fun _ => none }

def run (env : Env) (s : Pager) (evs : List Ev) : Pager := evs.foldl (step env) s

/-- the commit: flush every dirty page, then the commit point -/
def commitEvs (s : Pager) : List Ev := s.dirty.map Ev.spill ++ [Ev.endTxn]

/-- one transaction: the writes of the statements (with the spills SQLite chose to do in between), then the commit -/
def txn (env : Env) (s : Pager) (ws : List Ev) : List Ev := ws ++ commitEvs (run env s ws)

/-- every write in a transaction of its own (autocommit) -/
def splitTxns (env : Env) : Pager → List Ev → List Ev
  | _, [] => []
  | s, e :: es => txn env s [e] ++ splitTxns env (run env s (txn env s [e])) es

/-- the micro-events of one public call in environment `env` -/
def opEvents (env : Env) (s : Pager) (ws : List Ev) : List Ev :=
  if env.oneTxn then txn env s ws else splitTxns env s ws

/-- journal playback -/
def restore : List (Nat × Nat) → File → File
  | [], d => d
  | (p, v) :: rs, d => restore rs (upd d p v)

/-- the file the next connection sees after the process died in state `s` -/
def afterDeath (s : Pager) : File := restore s.jfile s.disk

/-- … after a power loss: of the pages written since the last fsync an arbitrary subset (`keep`) reached the platter, and only the
fsynced part of the journal file exists -/
def afterPowerLoss (keep : Nat → Bool) (s : Pager) : File :=
  restore (s.jfile.take s.jsynced) (fun p => if keep p then s.disk p else s.synced p)

/-- the content the writes of `evs` produce -/
def effect : List Ev → File → File
  | [], d => d
  | .write p v :: es, d => effect es (upd d p v)
  | _ :: es, d => effect es d

/-- a connection between transactions -/
def fresh (d : File) : Pager := ⟨d, d, [], 0, [], fun _ => none, []⟩

/-- the model's verdicts on an environment -/
def Env.deathSafe (env : Env) : Bool := env.journal == .file && env.oneTxn
def Env.powerSafe (env : Env) : Bool := env.deathSafe && env.syncJournal

end PgVerif.Model.Pager
