/-
Hand-written model of the classical mesopore methods (characterisation/psd_meso.py):
`psd_pygapsdh`, `psd_bjh`, `psd_dollimore_heal` and the wrapper `psd_mesoporous` (limits, cumulative curve).
Every numpy statement of the three functions is one definition here, in the same order:

    volume_adsorbed[::-1]                    -> List.reverse
    -numpy.diff(a)                           -> diffNeg
    (a[:-1] + a[1:]) / 2                     -> avgPairs
    the `for i, … in enumerate(…)` loops     -> structural recursion over the rows with the accumulators as arguments

The thickness and Kelvin models enter as the arrays they return at the measured pressures (their formulas are regenerated
from the source into `Gen/CharR.lean`).  Polymorphic over a field, run at ℚ against the real functions by `Drv/Char.lean`.
-/
import Mathlib.Algebra.Order.Field.Basic
import PgVerif.Model.Linear

namespace PgVerif.Model.Meso

open PgVerif.Model.Linear

variable {α : Type} [Field α]

/-- `-numpy.diff(a)` -/
def diffNeg : List α → List α
  | a :: b :: r => (a - b) :: diffNeg (b :: r)
  | _ => []

/-- `(a[:-1] + a[1:]) / 2` -/
def avgPairs : List α → List α
  | a :: b :: r => ((a + b) / 2) :: avgPairs (b :: r)
  | _ => []

/-- ascending successive changes `[a1 - a0, a2 - a1, …]`: the width increments the distribution refers to
(`-numpy.diff` of the reversed array, reversed back) -/
def increments : List α → List α
  | a :: b :: r => (b - a) :: increments (b :: r)
  | _ => []

/-- `2 * (thickness + kelvin_radii)` at ALL the pressures handed to a method, ascending (the result reports all but the highest) -/
def fullWidths (thick kelvin : List α) : List α := List.zipWith (fun t k => 2 * (t + k)) thick kelvin

/-- what the three functions return, in ascending pressure order as the code returns it -/
structure Result (α : Type) where
  widths : List α
  areas : List α
  volumes : List α
  distribution : List α
  deriving Repr

/-- one interval of the pyGAPS-DH loop -/
structure DhRow (α : Type) where
  dV : α
  dT : α
  avgT : α
  avgW : α
  ratio : α

/-- the `for i, avg_pore_width in enumerate(avg_pore_widths)` loop of `psd_pygapsdh`;
returns `(pore_volume, pore_area*1e3)` per interval -/
def dhLoop (c : Nat) : List (DhRow α) → α → List (α × α)
  | [], _ => []
  | r :: rest, sumAreaCorrection =>
    let dThicknessVolume := r.dT * sumAreaCorrection
    let poreVolume := (r.dV - dThicknessVolume) * r.ratio
    let geometryCorrection := ((r.avgW - 2 * r.avgT) / r.avgW) ^ (c - 1)
    let poreArea := 2 * (c : α) * poreVolume / r.avgW
    (poreVolume, poreArea * 1000) :: dhLoop c rest (sumAreaCorrection + geometryCorrection * poreArea)

def zip5 : List α → List α → List α → List α → List α → List (DhRow α)
  | a :: as, b :: bs, c :: cs, d :: ds, e :: es => ⟨a, b, c, d, e⟩ :: zip5 as bs cs ds es
  | _, _, _, _, _ => []

/-- `c_length` of a pore geometry; `none` = ParameterError -/
def cLength (g : String) : Option Nat :=
  if g = "slit" then some 1 else if g = "cylinder" then some 2 else if g = "sphere" then some 3 else none

/-- `psd_pygapsdh(volume_adsorbed, relative_pressure, …)` with the two model arrays evaluated at the (ascending) pressures -/
def pygapsDH (c : Nat) (vol thick kelvin : List α) : Result α :=
  let vol := vol.reverse
  let thick := thick.reverse
  let kelvin := kelvin.reverse
  let dV := diffNeg vol
  let avgT := avgPairs thick
  let dT := diffNeg thick
  let w := List.zipWith (fun t k => 2 * (t + k)) thick kelvin
  let avgW := avgPairs w
  let dW := diffNeg w
  let ratio := List.zipWith (fun aw at' => (aw / (aw - 2 * at')) ^ 2) avgW avgT
  let out := dhLoop c (zip5 dV dT avgT avgW ratio) 0
  let vols := out.map (·.1)
  { widths := (w.drop 1).reverse
    areas := (out.map (·.2)).reverse
    volumes := vols.reverse
    distribution := (List.zipWith (· / ·) vols dW).reverse }

/-- one interval of the BJH / DH loops -/
structure RRow (α : Type) where
  dV : α
  dT : α
  avgT : α
  avgR : α
  ratio : α

def zipR : List α → List α → List α → List α → List α → List (RRow α)
  | a :: as, b :: bs, c :: cs, d :: ds, e :: es => ⟨a, b, c, d, e⟩ :: zipR as bs cs ds es
  | _, _, _, _, _ => []

/-- `psd_bjh` loop; `done` = the `(avg_pore_radii[x], pore_areas[x])` of the intervals already processed, oldest first -/
def bjhLoop : List (RRow α) → List (α × α) → List (α × α)
  | [], _ => []
  | r :: rest, done =>
    let sumAreaFactor := done.foldl (fun s (xa : α × α) => s + (xa.1 - r.avgT) / xa.1 * xa.2) 0
    let dThicknessVolume := r.dT * sumAreaFactor * (1 / 1000)
    let poreVolume := (r.dV - dThicknessVolume) * r.ratio
    let poreArea := 2 * poreVolume / r.avgR * 1000
    (poreVolume, poreArea) :: bjhLoop rest (done ++ [(r.avgR, poreArea)])

/-- `psd_dollimore_heal` loop with its two accumulators -/
def dollimoreLoop : List (RRow α) → α → α → List (α × α)
  | [], _, _ => []
  | r :: rest, sumArea, sum2piL =>
    let dThicknessVolume := r.dT * sumArea - r.dT * r.avgT * sum2piL
    let poreVolume := (r.dV - dThicknessVolume) * r.ratio
    let poreArea := 2 * poreVolume / r.avgR
    (poreVolume, poreArea * 1000) :: dollimoreLoop rest (sumArea + poreArea) (sum2piL + poreArea / r.avgR)

/-- the shared head and tail of `psd_bjh` and `psd_dollimore_heal` -/
def radiusMethod (loop : List (RRow α) → List (α × α)) (vol thick kelvin : List α) : Result α :=
  let vol := vol.reverse
  let thick := thick.reverse
  let kelvin := kelvin.reverse
  let dV := diffNeg vol
  let avgT := avgPairs thick
  let dT := diffNeg thick
  let avgK := avgPairs kelvin
  let rad := List.zipWith (· + ·) thick kelvin
  let avgR := avgPairs rad
  let dR := diffNeg rad
  let ratio := List.zipWith (fun (ar : α) (kd : α) => (ar / kd) ^ 2) avgR (List.zipWith (· + ·) avgK dT)
  let out := loop (zipR dV dT avgT avgR ratio)
  let vols := out.map (·.1)
  { widths := ((rad.drop 1).reverse).map (· * 2)
    areas := (out.map (·.2)).reverse
    volumes := vols.reverse
    distribution := (List.zipWith (fun v d => v / d / 2) vols dR).reverse }

def bjh (vol thick kelvin : List α) : Result α := radiusMethod (fun rows => bjhLoop rows []) vol thick kelvin

def dollimoreHeal (vol thick kelvin : List α) : Result α := radiusMethod (fun rows => dollimoreLoop rows 0 0) vol thick kelvin

/-- `numpy.cumsum` -/
def cumsum : List α → α → List α
  | [], _ => []
  | x :: xs, acc => (acc + x) :: cumsum xs (acc + x)

/-- `pore_volume_cumulative` of `psd_mesoporous`: `cumsum(v) - cumsum(v)[-1] + volume_adsorbed[-1]` -/
def cumulative (vols vol : List α) : List α :=
  let cs := cumsum vols 0
  cs.map (fun x => x - cs.getLastD 0 + vol.getLastD 0)

/-- method dispatch of `psd_mesoporous` (with the geometry restrictions of the two classical methods); `none` = ParameterError -/
def method (name geometry : String) (vol thick kelvin : List α) : Option (Result α) :=
  if name = "pygaps-DH" then (cLength geometry).map (fun c => pygapsDH c vol thick kelvin)
  else if name = "BJH" then (if geometry = "cylinder" then some (bjh vol thick kelvin) else none)
  else if name = "DH" then (if geometry = "cylinder" then some (dollimoreHeal vol thick kelvin) else none)
  else none

end PgVerif.Model.Meso
