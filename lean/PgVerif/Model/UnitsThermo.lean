/-
C01 only: the clause "**at the stated temperature**".

`Model/Units.lean` takes the adsorbate's saturation pressure and densities as given numbers.  Here the adsorbate is a
*function of the temperature* (`Thermo α`: what its thermodynamic backend delivers at `T`), every request carries the
temperature it states (`TReq`), and the reply is computed from the backend's answer at exactly that temperature
(`TReq.run`).  The driver runs it on finite tables `T ↦ constants` whose keys are a handful of temperatures that lie
1e-6 … 5e-2 K apart (exact rationals of the floats): the lookup is by equality, so a neighbour's constants are never used.

The realistic way for the code to violate the clause is a *memory*: the constants obtained for one temperature are kept under
a key computed from the temperature (rounded, truncated, single precision, formatted …) and handed out for every later
temperature with the same key.  `runMemo` is that implementation, for an arbitrary key function; `Props/C01/Temperature.lean`
proves when it is right (the backend does not separate two temperatures with one key) and that otherwise a history of two
consecutive requests exposes it — which is the sequence the harness runs on the real adsorbate objects.
-/
import PgVerif.Model.UnitsObj

namespace PgVerif.Model
open PgVerif.Gen

variable {α : Type} [Field α] [DecidableEq α]

/-- what the thermodynamic backend of one adsorbate delivers at one temperature: `saturation_pressure(T)` [Pa],
`gas_density(T)`, `liquid_density(T)` [g/cm3], `molar_mass()` [g/mol], `gas_molar_density(T)`, `liquid_molar_density(T)`
[mol/cm3]; `none` = the accessor raises a CalculationError -/
structure ThermoPoint (α : Type) where
  psat : Option α
  gasDensity : Option α
  liquidDensity : Option α
  molarMass : Option α
  gasMolarDensity : Option α
  liquidMolarDensity : Option α
  deriving DecidableEq

/-- nothing can be calculated -/
def ThermoPoint.missing : ThermoPoint α := ⟨none, none, none, none, none, none⟩

/-- the adsorbate as a function of the temperature -/
abbrev Thermo (α : Type) := α → ThermoPoint α

/-- an adsorbate quantity of the conversion environment -/
def ThermoPoint.qty (p : ThermoPoint α) : Qty → Option α
  | .gasDensity => p.gasDensity
  | .liquidDensity => p.liquidDensity
  | .molarMass => p.molarMass
  | .gasMolarDensity => p.gasMolarDensity
  | .liquidMolarDensity => p.liquidMolarDensity
  | .matDensity => none
  | .matMolarMass => none

/-- the environment of a conversion: adsorbate quantities from the point, material quantities from `mat` -/
def ThermoPoint.env (p : ThermoPoint α) (mat : Env α) : Env α :=
  fun q => if q.isMaterial then mat q else p.qty q

/-- a backend given by a finite table (driver): a temperature that is not a key has no value -/
def Thermo.ofTable (tbl : List (α × ThermoPoint α)) : Thermo α :=
  fun T => (tbl.lookup T).getD ThermoPoint.missing

/-- one call that states a temperature -/
inductive TReq (α : Type)
  /-- `c_pressure(v, mf, mt, uf, ut, adsorbate, temp=T)` -/
  | pressure (T : α) (v : α) (mf mt uf ut : Option String)
  /-- `c_loading(v, bf, bt, uf, ut, adsorbate, temp=T, bm, um)`; `mat`: what the material delivers -/
  | loading (T : α) (mat : Env α) (v : α) (bf bt uf ut bm um : Option String)
  /-- `adsorbate.saturation_pressure(T, unit)` -/
  | satp (T : α) (unit : Option String)
  /-- `adsorbate.gas_density(T)` … (`molar_mass()` ignores the temperature) -/
  | quantity (T : α) (q : Qty)

def TReq.temp : TReq α → α
  | .pressure T .. => T
  | .loading T .. => T
  | .satp T _ => T
  | .quantity T _ => T

/-- the reply when the constants `p` are used (`if not temp: raise ParameterError`: the temperature 0 is "no temperature") -/
def TReq.runWith (p : ThermoPoint α) : TReq α → Except Err α
  | .pressure T v mf mt uf ut => cPressure p.psat (decide (T ≠ 0)) v mf mt uf ut
  | .loading _ mat v bf bt uf ut bm um => cLoading (p.env mat) v bf bt uf ut bm um
  | .satp _ u => satPressure p.psat u
  | .quantity _ q => evalQty (p.env fun _ => none) q

/-- **the specification**: the constants are the backend's at the stated temperature -/
def TReq.run (B : Thermo α) (r : TReq α) : Except Err α := r.runWith (B r.temp)

/-- the replies to a history of requests on the same adsorbate, in order -/
def runAllT (B : Thermo α) (rs : List (TReq α)) : List (Except Err α) := rs.map (TReq.run B)

/-- an implementation that remembers the backend's answer under the key `k T` (the memory starts as `cache`): a hit is
handed out without asking the backend again -/
def runMemo {κ : Type} [DecidableEq κ] (k : α → κ) (B : Thermo α) :
    List (κ × ThermoPoint α) → List (TReq α) → List (Except Err α)
  | _, [] => []
  | cache, r :: rs =>
    match cache.lookup (k r.temp) with
    | some p => r.runWith p :: runMemo k B cache rs
    | none => r.runWith (B r.temp) :: runMemo k B ((k r.temp, B r.temp) :: cache) rs

end PgVerif.Model
