/-
Hand-written model of the *isotherm entry point* `psd_mesoporous(isotherm, …)` (characterisation/psd_meso.py) with real
`Adsorbate` objects, of the tabulated thickness curves (characterisation/models_thickness.py `load_std_isotherm`, `SiO2_JKO`,
`CB_KJG`) and of *sequences* of analyses in one interpreter session.

What the entry point reads, statement by statement:

    molar_mass / liquid_density / surface_tension = isotherm.adsorbate.<…>(isotherm.temperature)   -> the CURRENT `AdsProps` of the
                                                                                                      object the isotherm refers to
    isotherm.loading(branch, loading_basis="volume_liquid", loading_unit="cm3")                    -> `liquidVolume` (mmol/g -> cm3/g through the liquid
                                                                                                      molar density, mg/g -> cm3/g through the liquid density)
    minimum / maximum / the `maximum - minimum < 2` refusal                                         -> `Linear.mesoWindow`
    pressure[minimum:maximum+1], volume_adsorbed[minimum:maximum+1]                                 -> `Linear.slice`
    k_model = partial(kelvin_radius | kelvin_radius_kjs, …current properties…)                     -> `kelvinRadius`, `kelvinRadiusKJS`
    psd_pygapsdh | psd_bjh | psd_dollimore_heal                                                     -> `Meso.method`
    cumsum(...) - cumsum(...)[-1] + volume_adsorbed[-1]                                             -> `Meso.cumulative`

`numpy.log(pressure)` and the values of the thickness model at the branch pressures enter as lists (the formulas are regenerated
from the source into `Gen/CharR.lean`; `Props/C16/Session.lean` ties `kelvinRadius` to the generated `kelvin_radius`).

The session part models Python object identity: adsorbate instances live in a heap, `pygaps.ADSORBATE_LIST` maps names to
instances, an isotherm keeps a reference to the instance `Adsorbate.find` returned when it was built, `properties` can be
edited in place.  An analysis reads the heap at the time of the call and changes nothing.

Polymorphic over a field; run at ℚ by `Drv/Meso.lean` against the real functions.
-/
import Mathlib.Algebra.Order.Field.Basic
import PgVerif.Model.Linear
import PgVerif.Model.Meso

namespace PgVerif.Model.MesoSession

open PgVerif.Model.Linear PgVerif.Model.Meso

variable {α : Type} [Field α]

/-! ### the adsorbate property set and the two Kelvin models -/

/-- what `psd_mesoporous` reads from `isotherm.adsorbate` (at `isotherm.temperature`) -/
structure AdsProps (α : Type) where
  /-- g/mol -/
  molarMass : α
  /-- g/cm3 -/
  liquidDensity : α
  /-- mN/m -/
  surfaceTension : α
  /-- mol/cm3 (read by the loading conversion molar -> liquid volume) -/
  liquidMolarDensity : α
  deriving Repr

/-- `scipy.constants.gas_constant` as the translator prints it (numerator, denominator); tied to `Gen.CharR.kelvin_radius`
in `Props/C16/Session.lean` -/
def gasConstant : Nat × Nat := (207861565453831, 25000000000000)

/-- the `0.354` nm of `convert_to_thickness` (numerator, denominator); tied to `Gen.CharR.convert_to_thickness` -/
def layerThickness : Nat × Nat := (177, 500)

/-- `kelvin_radius` with `lnp = numpy.log(pressure)`, `f` the geometry factor of the meniscus -/
def kelvinRadius (R f T : α) (a : AdsProps α) (lnp : α) : α :=
  (-((2 * a.surfaceTension) * (a.molarMass / a.liquidDensity))) / (((f * R) * T) * lnp)

/-- `kelvin_radius_kjs` (cylindrical meniscus only; no geometry factor, `+ 0.3`) -/
def kelvinRadiusKJS (R T : α) (a : AdsProps α) (lnp : α) : α :=
  (-((2 * a.surfaceTension) * (a.molarMass / a.liquidDensity))) / ((R * T) * lnp) + 3 / 10

/-- `c_loading(n, molar/mmol -> volume_liquid/cm3)`: `n * 0.001 * liquid_molar_density ** -1 / 1`;
`c_loading(n, mass/mg -> volume_liquid/cm3)`: `n * 0.001 * liquid_density ** -1 / 1` -/
def liquidVolume (massBasis : Bool) (a : AdsProps α) (n : α) : α :=
  if massBasis then n * (1 / 1000) / a.liquidDensity else n * (1 / 1000) / a.liquidMolarDensity

/-! ### one analysis -/

/-- the data of one isotherm branch in increasing pressure order -/
structure IsoData (α : Type) where
  temperature : α
  pressure : List α
  /-- the amounts the isotherm holds: mg/g (`massBasis`) or mmol/g -/
  massBasis : Bool
  loading : List α
  deriving Repr

/-- the arguments of one call -/
structure Request (α : Type) where
  method : String
  geometry : String
  /-- geometry factor of the (given or inferred) meniscus geometry -/
  factor : α
  /-- `kelvin_model == "Kelvin-KJS"` -/
  kjs : Bool
  /-- `p_limits` (`none` = the argument is `None`) -/
  limits : Option (Option α × Option α)
  /-- thickness model at every branch pressure -/
  thick : List α
  /-- `numpy.log` of every branch pressure -/
  lnp : List α

/-- what a successful call returns -/
structure Analysis (α : Type) where
  result : Result α
  cumulative : List α
  window : Nat × Nat
  /-- `2 (t + r_K)` at every pressure used, the highest included (not returned by the code: the width increments are its successive changes) -/
  fullWidths : List α

/-- the Kelvin radii that the call computes from the property set it is given -/
def kelvinRadii (R : α) (a : AdsProps α) (T : α) (q : Request α) (lnp : List α) : List α :=
  if q.kjs then lnp.map (kelvinRadiusKJS R T a) else lnp.map (kelvinRadius R q.factor T a)

/-- `psd_mesoporous` on the property set `a`; `none` = `CalculationError` / `ParameterError` -/
def analysis [LinearOrder α] (R c10 c99 : α) (a : AdsProps α) (d : IsoData α) (q : Request α) : Option (Analysis α) :=
  match mesoWindow d.pressure c10 c99 q.limits with
  | none => none
  | some w =>
    let vol := slice (d.loading.map (liquidVolume d.massBasis a)) w
    let kel := kelvinRadii R a d.temperature q (slice q.lnp w)
    match method q.method q.geometry vol (slice q.thick w) kel with
    | none => none
    | some r => some ⟨r, cumulative r.volumes vol, w, fullWidths (slice q.thick w) kel⟩

/-! ### tabulated thickness curves -/

/-- the segment of a piecewise linear curve that contains `x` (`x` not below the first node); `none` = above the last node -/
def interpSeg [LinearOrder α] : List (α × α) → α → Option α
  | a :: b :: r, x =>
    if x ≤ b.1 then some (a.2 + (x - a.1) * (b.2 - a.2) / (b.1 - a.1)) else interpSeg (b :: r) x
  | _, _ => none

/-- `interp1d(xs, ys, kind="slinear", fill_value=(below, ys[-1]), bounds_error=False)(x)` -/
def tabulated [LinearOrder α] (below : α) (tab : List (α × α)) (x : α) : α :=
  match tab with
  | [] => below
  | a :: _ => if x < a.1 then below else (interpSeg tab x).getD ((tab.getLast?.map (·.2)).getD below)

/-- the nodes of a standard thickness curve: `(p, convert_to_thickness(n, monolayer))` -/
def thicknessTable (layer monolayer : α) (ps ns : List α) : List (α × α) :=
  List.zipWith (fun p n => (p, n / monolayer * layer)) ps ns

/-- `SiO2_JKO` / `CB_KJG`: interpolation of the standard isotherm, `0` below its first point, the last value above its last -/
def standardThickness [LinearOrder α] (layer monolayer : α) (ps ns : List α) (x : α) : α :=
  tabulated 0 (thicknessTable layer monolayer ps ns) x

/-! ### sessions -/

/-- interpreter state: objects (index = identity), `ADSORBATE_LIST` as (name, object) in list order, isotherms with the object they hold -/
structure State (α : Type) where
  heap : List (AdsProps α)
  registry : List (String × Nat)
  isos : List (Nat × IsoData α)

def State.empty : State α := ⟨[], [], []⟩

inductive Op (α : Type) where
  /-- `Adsorbate(name, store=…, **props)`: a new object; appended to the list only if no object of that name is in it -/
  | create (name : String) (p : AdsProps α) (store : Bool)
  /-- remove the objects of that name from `ADSORBATE_LIST` (objects stay alive where isotherms hold them) -/
  | unregister (name : String)
  /-- in-place edit of `obj.properties` -/
  | edit (obj : Nat) (p : AdsProps α)
  /-- `PointIsotherm(…, adsorbate=name, …)`: holds the first object of that name in the list -/
  | newIso (name : String) (d : IsoData α)
  /-- `psd_mesoporous(isos[i], …)` -/
  | analyse (iso : Nat) (q : Request α)

inductive Out (α : Type) where
  | done (id : Nat)
  | refused
  | result (r : Analysis α)

/-- `Adsorbate.find(name)` -/
def find (reg : List (String × Nat)) (name : String) : Option Nat :=
  (reg.find? (fun e => e.1 == name)).map (·.2)

/-- the property set an isotherm sees now -/
def State.propsOf (s : State α) (iso : Nat) : Option (AdsProps α × IsoData α) :=
  match s.isos[iso]? with
  | none => none
  | some (obj, d) => (s.heap[obj]?).map (fun a => (a, d))

def step [LinearOrder α] (R c10 c99 : α) (s : State α) : Op α → State α × Out α
  | .create name p store =>
    let id := s.heap.length
    let reg := if store && (find s.registry name).isNone then s.registry ++ [(name, id)] else s.registry
    ({ s with heap := s.heap ++ [p], registry := reg }, .done id)
  | .unregister name => ({ s with registry := s.registry.filter (fun e => !(e.1 == name)) }, .done 0)
  | .edit obj p => if obj < s.heap.length then ({ s with heap := s.heap.set obj p }, .done obj) else (s, .refused)
  | .newIso name d =>
    match find s.registry name with
    | none => (s, .refused)
    | some obj => ({ s with isos := s.isos ++ [(obj, d)] }, .done obj)
  | .analyse iso q =>
    match s.propsOf iso with
    | none => (s, .refused)
    | some (a, d) =>
      match analysis R c10 c99 a d q with
      | none => (s, .refused)
      | some r => (s, .result r)

/-- a whole session: the final state and the outputs in order -/
def run [LinearOrder α] (R c10 c99 : α) : State α → List (Op α) → State α × List (Out α)
  | s, [] => (s, [])
  | s, op :: ops =>
    let (s', o) := step R c10 c99 s op
    let (s'', os) := run R c10 c99 s' ops
    (s'', o :: os)

end PgVerif.Model.MesoSession
