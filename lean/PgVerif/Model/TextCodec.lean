/-
Model of pyGAPS's own text codec (utilities/string_utilities.py `_to_string`, `cast_string` and its recognisers; the
metadata line codec of parsing/csv.py).  Strings are `List Char` over the alphabet of the model: printable ASCII plus a few
non-numeric non-ASCII letters (the harness draws from exactly that alphabet; digits of other scripts, which Python's
`str.isnumeric()` / `float()` also accept, are outside the stated domain).  Core Lean, executable.
-/
namespace PgVerif.Model.TextCodec

abbrev Str := List Char

def lowerC (c : Char) : Char := if 'A' ≤ c ∧ c ≤ 'Z' then Char.ofNat (c.toNat + 32) else c
def lower (s : Str) : Str := s.map lowerC

def isDigitC (c : Char) : Bool := '0' ≤ c && c ≤ '9'

/-- `_is_none`: empty, or `none` in any case -/
def isNone (s : Str) : Bool := s.isEmpty || lower s == "none".toList

/-- `_is_bool` -/
def isBool (s : Str) : Bool := lower s == "true".toList || lower s == "false".toList

/-- `str.isnumeric()` on the alphabet of the model: non-empty, ASCII digits only -/
def isNumeric (s : Str) : Bool := !s.isEmpty && s.all isDigitC

/-- whitespace that `float()` strips and `str.strip()` removes (ASCII part) -/
def isSpaceC (c : Char) : Bool := c == ' ' || c == '\t' || c == '\n' || c == '\r' || c == '\x0b' || c == '\x0c'

def stripL : Str → Str
  | c :: t => if isSpaceC c then stripL t else c :: t
  | [] => []

def strip (s : Str) : Str := (stripL (stripL s).reverse).reverse

/-- digits with single underscores between them: `1_000` (Python's numeric literal grouping, accepted by `float`) -/
def digitsU : Str → Bool
  | [] => false
  | [c] => isDigitC c
  | c :: '_' :: d :: t => isDigitC c && digitsU (d :: t)
  | c :: d :: t => isDigitC c && digitsU (d :: t)

def splitAt1 (p : Char → Bool) : Str → Option (Str × Str)
  | [] => none
  | c :: t => if p c then some ([], t) else (splitAt1 p t).map fun (a, b) => (c :: a, b)

def unsigned (s : Str) : Str := match s with | '+' :: t => t | '-' :: t => t | _ => s

/-- mantissa: `d+`, `d+.`, `d+.d+`, `.d+` -/
def isMantissa (s : Str) : Bool :=
  match splitAt1 (· == '.') s with
  | none => digitsU s
  | some (a, b) => (a.isEmpty && digitsU b) || (digitsU a && (b.isEmpty || digitsU b))

/-- the grammar of Python's `float(str)` (ASCII): optional blanks, sign, `inf`/`infinity`/`nan`, or mantissa with optional exponent -/
def isFloat (s0 : Str) : Bool :=
  let s := unsigned (strip s0)
  let l := lower s
  if l == "inf".toList || l == "infinity".toList || l == "nan".toList then true
  else match splitAt1 (fun c => c == 'e' || c == 'E') s with
    | none => isMantissa s
    | some (m, e) => isMantissa m && digitsU (unsigned e)

/-- `_is_list` -/
def isList (s : Str) : Bool := s.head? == some '[' && s.getLast? == some ']'

/-- result classes of `cast_string` (the numeric value itself is Python's; the model decides the class and hands the text on) -/
inductive Cast
  | none | bool (b : Bool) | int (digits : Str) | float (text : Str) | list (text : Str) | str (s : Str)
  deriving DecidableEq, Repr

/-- `cast_string`, in Python's order of tests -/
def castString (s : Str) : Cast :=
  if isNone s then .none
  else if isBool s then .bool (lower s == "true".toList)
  else if isNumeric s then .int s
  else if isFloat s then .float s
  else if isList s then .list s
  else .str s

/-- a text value that survives: none of the recognisers fires, no separator / newline, no blanks at the ends -/
def inCsvDomain (sep : Char) (s : Str) : Bool :=
  !isNone s && !isBool s && !isNumeric s && !isFloat s && !isList s && !s.contains sep && !s.contains '\n' && !s.contains '\r' &&
  strip s == s

/-- the CSV metadata line codec: `key<sep>value\n` written, `line.strip().split(sep)` read, exactly two fields required -/
def splitOn (sep : Char) : Str → List Str
  | [] => [[]]
  | c :: t =>
    match splitOn sep t with
    | h :: r => if c == sep then [] :: h :: r else (c :: h) :: r
    | [] => [[c]]

def encodeLine (sep : Char) (k v : Str) : Str := k ++ [sep] ++ v

def decodeLine (sep : Char) (line : Str) : Option (Str × Str) :=
  match splitOn sep (strip line) with
  | [k, v] => some (k, v)
  | _ => none

end PgVerif.Model.TextCodec
