/-
Model of pyGAPS's own text codec (utilities/string_utilities.py `_to_string`, `cast_string` and its recognisers; the
metadata line codec of parsing/csv.py).  Strings are `List Char` over the alphabet of the model: printable ASCII plus a few
non-numeric non-ASCII letters (the harness draws from exactly that alphabet; digits of other scripts, which Python's
`str.isnumeric()` / `float()` also accept, are outside the stated domain).  Core Lean, executable.
-/
namespace PgVerif.Model.TextCodec

abbrev Str := List Char

def lowerC (c : Char) : Char := if 'A' ≤ c ∧ c ≤ 'Z' then Char.ofNat (c.toNat + 32) else c
def lower (s : Str) : Str := s.map lowerC

def isDigitC (c : Char) : Bool := '0' ≤ c && c ≤ '9'

/-- `_is_none`: empty, or `none` in any case -/
def isNone (s : Str) : Bool := s.isEmpty || lower s == "none".toList

/-- `_is_bool` -/
def isBool (s : Str) : Bool := lower s == "true".toList || lower s == "false".toList

/-- `str.isnumeric()` on the alphabet of the model: non-empty, ASCII digits only -/
def isNumeric (s : Str) : Bool := !s.isEmpty && s.all isDigitC

/-- whitespace that `float()` strips and `str.strip()` removes (ASCII part) -/
def isSpaceC (c : Char) : Bool := c == ' ' || c == '\t' || c == '\n' || c == '\r' || c == '\x0b' || c == '\x0c'

def stripL : Str → Str
  | c :: t => if isSpaceC c then stripL t else c :: t
  | [] => []

def strip (s : Str) : Str := (stripL (stripL s).reverse).reverse

/-- `str.rstrip()` -/
def stripR (s : Str) : Str := (stripL s.reverse).reverse

/-- digits with single underscores between them: `1_000` (Python's numeric literal grouping, accepted by `float`) -/
def digitsU : Str → Bool
  | [] => false
  | [c] => isDigitC c
  | c :: '_' :: d :: t => isDigitC c && digitsU (d :: t)
  | c :: d :: t => isDigitC c && digitsU (d :: t)

def splitAt1 (p : Char → Bool) : Str → Option (Str × Str)
  | [] => none
  | c :: t => if p c then some ([], t) else (splitAt1 p t).map fun (a, b) => (c :: a, b)

def unsigned (s : Str) : Str := match s with | '+' :: t => t | '-' :: t => t | _ => s

/-- mantissa: `d+`, `d+.`, `d+.d+`, `.d+` -/
def isMantissa (s : Str) : Bool :=
  match splitAt1 (· == '.') s with
  | none => digitsU s
  | some (a, b) => (a.isEmpty && digitsU b) || (digitsU a && (b.isEmpty || digitsU b))

/-- the grammar of Python's `float(str)` (ASCII): optional blanks, sign, `inf`/`infinity`/`nan`, or mantissa with optional exponent -/
def isFloat (s0 : Str) : Bool :=
  let s := unsigned (strip s0)
  let l := lower s
  if l == "inf".toList || l == "infinity".toList || l == "nan".toList then true
  else match splitAt1 (fun c => c == 'e' || c == 'E') s with
    | none => isMantissa s
    | some (m, e) => isMantissa m && digitsU (unsigned e)

/-- `_is_list` -/
def isList (s : Str) : Bool := s.head? == some '[' && s.getLast? == some ']'

/-- result classes of `cast_string` (the numeric value itself is Python's; the model decides the class and hands the text on) -/
inductive Cast
  | none | bool (b : Bool) | int (digits : Str) | float (text : Str) | list (text : Str) | str (s : Str)
  deriving DecidableEq, Repr

/-- `cast_string`, in Python's order of tests -/
def castString (s : Str) : Cast :=
  if isNone s then .none
  else if isBool s then .bool (lower s == "true".toList)
  else if isNumeric s then .int s
  else if isFloat s then .float s
  else if isList s then .list s
  else .str s

/-- a text value that survives: none of the recognisers fires, no separator / newline, no blanks at the ends -/
def inCsvDomain (sep : Char) (s : Str) : Bool :=
  !isNone s && !isBool s && !isNumeric s && !isFloat s && !isList s && !s.contains sep && !s.contains '\n' && !s.contains '\r' &&
  strip s == s

/-- the CSV metadata line codec: `key<sep>value\n` written, `line.strip().split(sep)` read, exactly two fields required -/
def splitOn (sep : Char) : Str → List Str
  | [] => [[]]
  | c :: t =>
    match splitOn sep t with
    | h :: r => if c == sep then [] :: h :: r else (c :: h) :: r
    | [] => [[c]]

def encodeLine (sep : Char) (k v : Str) : Str := k ++ [sep] ++ v

def decodeLine (sep : Char) (line : Str) : Option (Str × Str) :=
  match splitOn sep (strip line) with
  | [k, v] => some (k, v)
  | _ => none

/-! ### the metadata block of a CSV document

reader (parsing/csv.py): `line = readline().rstrip()`; `while not (line.startswith('data') or line.startswith('model') or line == "")`:
`line.strip().split(sep)` must be exactly `key, value`, else `ParsingError`; then the next line.  `readline()` at the end of the
document gives `''`, which ends the loop like an empty line.  The writer puts one `key<sep>value\n` per entry — a value that
contains a line break therefore occupies several LINES of the document. -/

inductive MetaRead
  | refused                                                -- some line is not `key<sep>value`: `ParsingError`
  | read (entries : List (Str × Str)) (rest : List Str)    -- entries read; the lines from the one that ended the loop on (`[]`: end of document)
  deriving DecidableEq, Repr

/-- the loop's stop test on a line already `rstrip`ped -/
def stopsAt (stops : List Str) (line : Str) : Bool := stops.any (fun p => p.isPrefixOf line) || line.isEmpty

def readMeta (sep : Char) (stops : List Str) : List Str → MetaRead
  | [] => .read [] []
  | l :: ls =>
    if stopsAt stops (stripR l) then .read [] (l :: ls)
    else match decodeLine sep (stripR l) with
      | none => .refused
      | some kv =>
        match readMeta sep stops ls with
        | .refused => .refused
        | .read es rest => .read (kv :: es) rest

/-- the text the writer produces for the metadata entries -/
def writeMeta (sep : Char) (entries : List (Str × Str)) : Str :=
  entries.flatMap fun kv => encodeLine sep kv.1 kv.2 ++ ['\n']

/-- the lines of a text (`readline()` until the end) -/
def docLines (s : Str) : List Str := splitOn '\n' s

/-! ### `_to_string` / `_from_list`: flat sequences of numbers

`_to_string(list)` is `'[' + ' '.join(str(x)) + ']'` (round brackets for a tuple); `_from_list(s)` is
`ast.literal_eval(s.replace(' ', ','))`.  The model covers what these two do on FLAT sequences of numbers: the items are the
texts of Python numeric literals over the alphabet digits, sign, `.`, `e`/`E`, `_` (the harness draws from that alphabet plus
blank, comma, brackets and a letter); nested sequences, quoted text, complex/hex literals are outside the stated domain. -/

def joinWith (sep : Char) : List Str → Str
  | [] => []
  | [a] => a
  | a :: b :: t => a ++ sep :: joinWith sep (b :: t)

inductive SeqKind | list | tuple
  deriving DecidableEq, Repr

/-- `_to_string` of a list / tuple whose items print (`str(x)`) as `items` -/
def toStringSeq : SeqKind → List Str → Str
  | .list, items => '[' :: (joinWith ' ' items ++ [']'])
  | .tuple, items => '(' :: (joinWith ' ' items ++ [')'])

/-- `str.replace(a, b)` for single characters -/
def replaceC (a b : Char) (s : Str) : Str := s.map fun c => if c == a then b else c

def isNumChar (c : Char) : Bool := isDigitC c || c == '+' || c == '-' || c == '.' || c == 'e' || c == 'E' || c == '_'

/-- Python integer literal (decimal): digits with single underscores, no leading zero unless every digit is zero -/
def isPyInt (s : Str) : Bool := digitsU s && (s.head? != some '0' || s.all fun c => c == '0' || c == '_')

/-- Python float literal: a mantissa with a point and/or an exponent (leading zeros allowed) -/
def isPyFloat (s : Str) : Bool :=
  match splitAt1 (fun c => c == 'e' || c == 'E') s with
  | none => s.contains '.' && isMantissa s
  | some (m, e) => isMantissa m && digitsU (unsigned e)

inductive NumClass | int | float
  deriving DecidableEq, Repr

/-- what `ast.literal_eval` makes of one item: an optionally signed (one sign) integer or float literal, else an error (`none`) -/
def pyNumClass (s : Str) : Option NumClass :=
  if !s.all isNumChar then none
  else
    let u := unsigned s
    if isPyInt u then some .int else if isPyFloat u then some .float else none

/-- what comes back: a list, a tuple, or — for `(x)` — the bare item -/
inductive Seq
  | list (items : List Str) | tuple (items : List Str) | scalar (item : Str)
  deriving DecidableEq, Repr

/-- `(opening bracket, text between the brackets)` when the text is bracketed by a matching pair -/
def unbracket : Str → Option (Char × Str)
  | o :: rest =>
    match rest.reverse with
    | c :: innerRev => if (o == '[' && c == ']') || (o == '(' && c == ')') then some (o, innerRev.reverse) else none
    | [] => none
  | [] => none

/-- the value built from the items: a list for square brackets; for round brackets a tuple, except that `(x)` is just `x` -/
def seqOf (o : Char) (items : List Str) (trailing : Bool) : Seq :=
  if o == '[' then .list items
  else match items, trailing with
    | [t], false => .scalar t
    | _, _ => .tuple items

/-- `ast.literal_eval` on a bracketed, comma-separated text of numeric literals (one trailing comma allowed, as in Python) -/
def literalSeq (s : Str) : Option Seq :=
  match unbracket s with
  | none => none
  | some (o, inner) =>
    if inner.isEmpty then some (seqOf o [] false)
    else
      let fs := splitOn ',' inner
      let trailing := decide (1 < fs.length) && fs.getLast? == some []
      let items := if trailing then fs.dropLast else fs
      if items.all fun t => (pyNumClass t).isSome then some (seqOf o items trailing) else none

/-- `_from_list` -/
def fromList (s : Str) : Option Seq := literalSeq (replaceC ' ' ',' s)

/-! ### material properties: `_material_<key>` (CSV, Excel) / `sample_<key>` (AIF)

writer: `f"{P}{key}"`; reader: `if key.startswith(P): material[<name>] = val` and later `raw_dict.pop(P + name)`, where `<name>` is
`key.replace(P, "")` (`Strip.replaceAll`: `str.replace` removes EVERY occurrence of `P`, not only the leading one) or `key[len(P):]`
(`Strip.leading`).  Which of the two a reader uses is read off the source (Gen/Formats, field `strip`). -/

/-- `s.replace(p, "")` for non-empty `p`: leftmost, non-overlapping occurrences removed.  `skip` = characters of the current
occurrence still to be dropped. -/
def removeAllAux (p : Str) : Nat → Str → Str
  | _, [] => []
  | skip + 1, _ :: t => removeAllAux p skip t
  | 0, c :: t => if p.isPrefixOf (c :: t) then removeAllAux p (p.length - 1) t else c :: removeAllAux p 0 t

def removeAll (p s : Str) : Str := removeAllAux p 0 s

inductive MatRead
  | notMaterial            -- an ordinary metadata key
  | prop (name : Str)      -- becomes the material property `name`
  | keyError               -- `raw_dict.pop(P + name)` does not find the key: `KeyError`
  deriving DecidableEq, Repr

def matJoin (p k : Str) : Str := p ++ k

/-- what the reader does with one key of the document when it takes the name with `key.replace(P, "")` -/
def matRead (p key : Str) : MatRead :=
  if p.isPrefixOf key then
    let name := removeAll p key
    if p ++ name == key then .prop name else .keyError
  else .notMaterial

/-- how a reader obtains the property name from a key that starts with the prefix -/
inductive Strip
  | replaceAll     -- `key.replace(P, "")`
  | leading        -- `key[len(P):]`
  deriving DecidableEq, Repr

def matName : Strip → Str → Str → Str
  | .replaceAll, p, key => removeAll p key
  | .leading, p, key => key.drop p.length

/-- what the reader does with one key of the document, for either way of taking the name -/
def matReadBy (m : Strip) (p key : Str) : MatRead :=
  if p.isPrefixOf key then
    let name := matName m p key
    if p ++ name == key then .prop name else .keyError
  else .notMaterial

/-! ### AIF: custom metadata keys and quoted values

writer: `block.set_pair(f"{P}{key.replace(' ', '_')}", f"'{value}'")`; reader: `val.strip("'")`,
`if key.startswith(P): raw_dict[key[n:]] = cast_string(val)`. -/

def aifKeyEnc (pre : Str) (k : Str) : Str := pre ++ replaceC ' ' '_' k

def aifKeyDec (pre : Str) (n : Nat) (key : Str) : Option Str := if pre.isPrefixOf key then some (key.drop n) else none

def quote (q : Char) (v : Str) : Str := q :: (v ++ [q])

def stripCharL (q : Char) : Str → Str
  | c :: t => if c == q then stripCharL q t else c :: t
  | [] => []

/-- `s.strip(q)` for a single character -/
def stripChar (q : Char) (s : Str) : Str := (stripCharL q (stripCharL q s).reverse).reverse

/-! ### Excel: end of a table

the reader walks down column 0 (resp. along the heading row) until a cell "ends" the table; xlrd reports an empty cell as `''`. -/

inductive Cell
  | empty | text (s : Str) | num (isZero : Bool) | bool (b : Bool)
  deriving DecidableEq, Repr

inductive EndTest
  | emptyText     -- `if point == '': break`
  | falsy         -- `if not point: break`
  deriving DecidableEq, Repr

def xlIsEnd : EndTest → Cell → Bool
  | _, .empty => true
  | _, .text s => s.isEmpty
  | .emptyText, _ => false
  | .falsy, .num z => z
  | .falsy, .bool b => !b

/-- number of rows (columns) read -/
def xlCount (t : EndTest) (cells : List Cell) : Nat := (cells.takeWhile fun c => !xlIsEnd t c).length

/-! ### version gates

CSV / Excel: `if not version or float(version) < float(V): warn`; AIF: `if not version or version.strip("'") != V: warn`. -/

inductive Gate | floatLt | stripNe
  deriving DecidableEq, Repr

def digitsVal (s : Str) : Nat := s.foldl (fun acc c => acc * 10 + (c.toNat - '0'.toNat)) 0

/-- plain decimal `d+`, `d+.`, `d+.d+`, `.d+` as (numerator, denominator) -/
def parseDec (s : Str) : Option (Nat × Nat) :=
  if !(s.all fun c => isDigitC c || c == '.') || !isMantissa s then none
  else match splitAt1 (· == '.') s with
    | none => some (digitsVal s, 1)
    | some (a, b) => some (digitsVal (a ++ b), 10 ^ b.length)

/-- `some true`: the reader warns (version refused); `some false`: accepted; `none`: the comparison itself raises -/
def gateWarns : Gate → Str → Str → Option Bool
  | .floatLt, written, required =>
    if isNone written then some true
    else match parseDec written, parseDec required with
      | some a, some b => some (a.1 == 0 || decide (a.1 * b.2 < b.1 * a.2))
      | _, _ => none
  | .stripNe, written, required => some (written.isEmpty || stripChar '\'' written != required)

/-! ### converters on the two sides of a model field -/

/-- writer converter / reader converter pairs that undo each other on numbers and flat sequences of numbers
(`raw`: the text itself; `str`/`_to_string` then `float`; `_to_string` then `_from_list`; `str` then `ast.literal_eval`) -/
def convCompatible (w r : Str) : Bool :=
  (w == "raw".toList && r == "raw".toList) ||
  ((w == "str".toList || w == "_to_string".toList) && r == "float".toList) ||
  (w == "_to_string".toList && r == "_from_list".toList) ||
  (w == "str".toList && (r == "literal_eval".toList || r == "cast_string".toList))

end PgVerif.Model.TextCodec
