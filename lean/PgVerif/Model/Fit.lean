/-
Hand-written model of the bookkeeping around the numerical fit (modelling/base_model.py `fit`, `initial_guess_bounds`;
modelling/virial.py `fit`; core/modelisotherm.py `__init__` branch selection and `guess`):

* `mse`, `rmseSq`       – `rmse = sqrt(sum(r²)/n) / model_range` as its square (no square roots in a field),
                           Virial: the same without the range,
* `clamp`, `clampGuess` – `initial_guess_bounds` (an infinite bound is `none`),
* `best`                – `attempts[errors.index(min(errors))]` : first attempt with the smallest error,
* `attemptsFrom`, `guessIdx` – the whole loop of `ModelIsotherm.guess`: candidates are tried in the order given, a candidate
                           whose fit is refused (`CalculationError`, here `none`) leaves NO attempt behind; the result is the
                           position IN THE CANDIDATE LIST of the attempt picked by `best` (fed by the harness with the list of
                           (converged?, reported error) in candidate order, for every entry point),
* `costErrSq`           – what an error derived from the optimiser's cost (`2·cost/n`, `cost = ½ Σ f_scale²·ρ((r/f_scale)²)`)
                           would be: equal to `rmseSq` only for the linear loss `ρ = id`,
* `selectBranch`        – `data.loc[data['branch'] == 0 | 1]`,
* `startGuess`          – start vector of a fit when `param_guess` names SOME parameters: the caller's value where given, the model's
                           default guess elsewhere (core/modelisotherm.py `__init__`); `lookupAll` – the strict reading of the tree before
                           the repair of finding S46-C12 (`KeyError` when a key is absent),
* `inBounds`            – what "parameters respect the bounds in force" means.

The optimiser (scipy.optimize.least_squares) is not modelled: every fit is decided by the oracle of the harness.
-/
import Mathlib.Algebra.Order.Field.Basic

namespace PgVerif.Model.Fit

variable {α : Type} [Field α] [LinearOrder α]

def sumSq (rs : List α) : α := (rs.map (fun r => r * r)).sum

/-- mean of squared residuals -/
def mse (rs : List α) : α := sumSq rs / (rs.length : α)

/-- square of the reported error of `IsothermBaseModel.fit` -/
def rmseSq (rs : List α) (range : α) : α := mse rs / (range * range)

/-- square of the reported error of `Virial.fit` (no normalisation) -/
def rmseSqVirial (rs : List α) : α := mse rs

/-- one parameter of `initial_guess_bounds`; `none` = -inf / +inf -/
def clamp (lo hi : Option α) (v : α) : α :=
  let r := match lo with
    | some l => if v < l then l else v
    | none => v
  -- the second `if` of the Python code tests the ORIGINAL value again
  match hi with
  | some h => if v > h then h else r
  | none => r

def inBounds (lo hi : Option α) (v : α) : Prop :=
  (∀ l, lo = some l → l ≤ v) ∧ (∀ h, hi = some h → v ≤ h)

def clampGuess (bounds : List (Option α × Option α)) (guess : List α) : List α :=
  List.zipWith (fun b v => clamp b.1 b.2 v) bounds guess

/-- index of the first minimal element: `errors.index(min(errors))` -/
def bestIdxAux : List α → Nat → Nat → α → Nat
  | [], _, bi, _ => bi
  | e :: es, i, bi, be => if e < be then bestIdxAux es (i + 1) i e else bestIdxAux es (i + 1) bi be

def bestIdx : List α → Option Nat
  | [] => none
  | e :: es => some (bestIdxAux es 1 0 e)

/-- `ModelIsotherm.guess`: (position in the candidate list, reported error) of the attempts, in the order tried;
a candidate that did not converge (`none`) is skipped. `i` = position of the head of the list. -/
def attemptsFrom : Nat → List (Option α) → List (Nat × α)
  | _, [] => []
  | i, none :: cs => attemptsFrom (i + 1) cs
  | i, some e :: cs => (i, e) :: attemptsFrom (i + 1) cs

/-- position in the candidate list of the model returned by `ModelIsotherm.guess`
(`errors = [x.model.rmse for x in attempts]; attempts[errors.index(min(errors))]`); `none` = "No model could be reliably fit" -/
def guessIdx (cs : List (Option α)) : Option Nat :=
  let as := attemptsFrom 0 cs
  match bestIdx (as.map (·.2)) with
  | none => none
  | some k => (as[k]?).map (·.1)

/-- square of an error computed from the optimiser's cost instead of the residuals: scipy `least_squares` returns
`cost = ½ Σ f_scale² ρ((r / f_scale)²)` for the loss `ρ`; `2 cost / n / range²` -/
def costErrSq (rho : α → α) (fscale : α) (rs : List α) (range : α) : α :=
  ((rs.map (fun r => fscale * fscale * rho ((r / fscale) * (r / fscale)))).sum / (rs.length : α)) / (range * range)

/-- rows of the requested branch (`0` adsorption, `1` desorption), order kept -/
def selectBranch {β : Type} (rows : List (β × Nat)) (b : Nat) : List β :=
  (rows.filter (fun r => r.2 = b)).map (·.1)

/-- start vector of a fit when the caller gives a starting guess for SOME parameters (`param_guess` dictionary; `none` = key absent):
the caller's value where there is one, the model's own default guess elsewhere
(`{**model.initial_guess(pressure, loading), **param_guess}`, read in the order of the parameter names) -/
def startGuess {β : Type} (dflt : List β) (user : List (Option β)) : List β :=
  List.zipWith (fun d u => u.getD d) dflt user

/-- what the tree before the repair did with the caller's dictionary: `[param_guess[p] for p in param_names]` -
defined only when every key is present (`none` = `KeyError`) -/
def lookupAll {β : Type} : List (Option β) → Option (List β)
  | [] => some []
  | none :: _ => none
  | some u :: us => (lookupAll us).map (u :: ·)

end PgVerif.Model.Fit
