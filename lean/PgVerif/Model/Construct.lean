/-
Model of the isotherm constructors (core/baseisotherm.py `BaseIsotherm.__init__`, the `material` / `adsorbate` / `temperature`
setters, `to_dict`; core/pointisotherm.py and core/modelisotherm.py `__init__`: the argument handling only) — statement by
statement, driven by the GENERATED tables `PgVerif.Gen.IsoParams` (regenerated from the Python source on every run).

  * `Args α` is a Python keyword dictionary: an association list (key, JSON-like value) with unique keys; `bind` is Python's
    binding of the three named parameters `material`, `adsorbate`, `temperature` (default `None`), the rest is `**properties`.
  * `World α` is what the two registries answer in the session: `Adsorbate.find` (alias → registered name) and `Material.find`
    (name → the registered material's properties).
  * `construct w a : Except CErr (Iso α)` is `BaseIsotherm(**a)`; `toDict` is `to_dict()` (for the class whose reserved list and
    extra instance attributes are given).  Errors carry the class of the Python exception of the statement that raises:
    `param` ParameterError, `attr` AttributeError (`None.startswith`, `5 .lower`), `type` TypeError (unhashable label, `float([])`,
    `__str__ returned non-string`), `value` ValueError (`float('abc')`), `key` KeyError (`properties.pop` of a key without default).
  * numbers are polymorphic (`α` a field; executed at ℚ by Drv/Construct.lean): `float(temperature)` of an int, bool, float or a
    decimal numeral.

Outside the model (the harness generator stays away from them): `Adsorbate` instances as arguments, non-string dictionary keys,
a key `store` inside a material dictionary, `Material` instances as unit labels (their `__eq__` compares the name with a string),
non-finite or non-ASCII numerals as temperature strings.  Numerical fitting of model isotherms is out of scope: `modelRoute`
stops where `get_isotherm_model(...).fit` starts.
-/
import PgVerif.Model.Access
import PgVerif.Model.Json
import PgVerif.Gen.IsoParams

namespace PgVerif.Model.Construct
open PgVerif.Gen PgVerif.Gen.IsoParams

/-! ### values -/

/-- JSON scalars; `num` is a Python float -/
inductive Sc (α : Type)
  | none | bool (b : Bool) | int (n : Int) | num (x : α) | str (s : String)
  deriving DecidableEq, Repr

/-- argument values: scalars, flat lists, one level of dictionary, and a `Material` instance (name, properties) -/
inductive Val (α : Type)
  | sc (s : Sc α)
  | list (l : List (Sc α))
  | dict (kv : List (String × Sc α))
  | mat (name : String) (props : List (String × Sc α))
  deriving DecidableEq, Repr

abbrev Args (α : Type) := List (String × Val α)

inductive CErr | param | type | value | attr | key
  deriving DecidableEq, Repr

def CErr.name : CErr → String
  | .param => "param" | .type => "type" | .value => "value" | .attr => "attr" | .key => "key"

variable {α : Type}

def Val.none : Val α := .sc .none
def Val.str (s : String) : Val α := .sc (.str s)

/-- `v is None` -/
def Val.isNone : Val α → Bool
  | .sc .none => true
  | _ => false

/-! ### Python dictionary operations on association lists (keys are unique in a Python dict) -/

/-- `k in d` -/
def has {β : Type} (d : List (String × β)) (k : String) : Bool := (d.lookup k).isSome

/-- `d` without the key `k` (`del d[k]`, the dictionary part of `d.pop(k, …)`) -/
def del {β : Type} (d : List (String × β)) (k : String) : List (String × β) := d.filter fun kv => kv.1 != k

/-- `d[k] = v`: an existing key keeps its place, a new one goes to the end -/
def put {β : Type} (d : List (String × β)) (k : String) (v : β) : List (String × β) :=
  if has d k then d.map fun kv => if kv.1 == k then (k, v) else kv else d ++ [(k, v)]

/-- `d.update(e)` -/
def update {β : Type} (d e : List (String × β)) : List (String × β) := e.foldl (fun d kv => put d kv.1 kv.2) d

/-- `s.startswith(p)` (code points) -/
def hasPrefix (p s : String) : Bool := p.toList.isPrefixOf s.toList

/-! ### the call -/

/-- the three named parameters and `**properties` -/
structure Call (α : Type) where
  material : Val α
  adsorbate : Val α
  temperature : Val α
  kw : Args α

/-- Python's binding of a keyword call `BaseIsotherm(**a)`: named parameters by name (default `None`), the rest is `properties` -/
def bind (a : Args α) : Call α :=
  ⟨(a.lookup "material").getD .none, (a.lookup "adsorbate").getD .none, (a.lookup "temperature").getD .none,
   a.filter fun kv => !initParams.contains kv.1⟩

def Call.get (c : Call α) (name : String) : Val α :=
  if name = "material" then c.material else if name = "adsorbate" then c.adsorbate
  else if name = "temperature" then c.temperature else .str name      -- any other local name is not `None`

def Call.set (c : Call α) (name : String) (v : Val α) : Call α :=
  if name = "material" then { c with material := v } else if name = "adsorbate" then { c with adsorbate := v }
  else if name = "temperature" then { c with temperature := v } else c

/-- one round of `for shorthand, prop in SHORTHANDS.items(): data = properties.pop(shorthand, None); if data is not None: …` -/
def shorthandStep (c : Call α) (sp : String × String) : Call α :=
  let data := (c.kw.lookup sp.1).getD .none
  let c' := { c with kw := del c.kw sp.1 }
  if data.isNone then c' else if shorthandTargets.contains sp.2 then c'.set sp.2 data else c'

def applyShorthands (c : Call α) : Call α := shorthands.foldl shorthandStep c

/-- `if None in [material, adsorbate, temperature]` -/
def missingRequired (c : Call α) : Bool := requiredChecked.any fun n => (c.get n).isNone

/-! ### the setters -/

structure World (α : Type) where
  /-- `Adsorbate.find(s)`: the name of the registered adsorbate that lists `s.lower()` as an alias -/
  adsFind : String → Option String
  /-- `Material.find(s)`: the properties of the registered material of that name -/
  matFind : String → Option (List (String × Sc α))

structure Mat (α : Type) where
  name : Val α
  props : List (String × Sc α)
  deriving DecidableEq, Repr

/-- the `material` setter: of a dictionary the entry `name` is the material's name and the others its properties (the setter works on a
COPY, `value = dict(value)`: the caller's dictionary stays as passed, see `dictAfterCall`), a registered material is re-used (and UPDATED
with the other entries), anything else becomes a new `Material` -/
def setMaterial (w : World α) (v : Val α) : Mat α :=
  match v with
  | .dict kv =>
    let name := (kv.lookup "name").getD .none
    let rest := del kv "name"
    match name with
    | .str s =>
      match w.matFind s with
      | some reg => ⟨.sc name, update reg rest⟩
      | none => ⟨.sc name, rest⟩
    | _ => ⟨.sc name, rest⟩                      -- `Material.find` refuses a non-string: `Material(name, **value)`
  | .mat n p => ⟨.str n, p⟩                      -- `Material.find` returns an instance as it is
  | .sc (.str s) =>
    match w.matFind s with
    | some reg => ⟨v, reg⟩
    | none => ⟨v, []⟩
  | v => ⟨v, []⟩                                 -- `Material(value)`: any object is taken as the name

/-- what the caller's material argument looks like after the call: as passed (`value.pop('name', None)` acts on the setter's own copy) -/
def dictAfterCall (v : Val α) : Val α := v

/-- the defect class "the setter takes `name` out of the ARGUMENT ITSELF" (the tree before finding S58-C05: `value.pop('name', None)`
without the copy): what the caller holds after such a call -/
def dictAfterPoppingCall (v : Val α) : Val α :=
  match v with
  | .dict kv => .dict (del kv "name")
  | v => v

/-- the keyword arguments as the caller holds them after a call whose material setter leaves `after` of the material argument (the
shorthand `m` and the long name are the two places a material can be passed in) -/
def argsAfterCall (after : Val α → Val α) (a : Args α) : Args α :=
  a.map fun kv => if kv.1 = "material" ∨ kv.1 = "m" then (kv.1, after kv.2) else kv

/-- the `adsorbate` setter: registry look-up, else a blank `Adsorbate(value)` whose constructor needs `value.lower()` -/
def setAdsorbate (w : World α) (v : Val α) : Except CErr String :=
  match v with
  | .sc (.str s) => .ok ((w.adsFind s).getD s)
  | _ => .error .attr

/-! ### `float(value)` -/

section numeral
variable [Field α]

def digitsVal (cs : List Char) : Nat := cs.foldl (fun a c => 10 * a + (c.toNat - '0'.toNat)) 0

/-- optional sign, rest -/
def takeSign (cs : List Char) : Bool × List Char :=
  match cs with
  | '-' :: t => (true, t)
  | '+' :: t => (false, t)
  | cs => (false, cs)

/-- ASCII decimal numerals `[sign] digits [. digits] [e [sign] digits]` (at least one digit in the mantissa), blanks around allowed:
(negative, mantissa digits as a natural, number of fraction digits, exponent) -/
def parseDecimal (s : String) : Option (Bool × Nat × Nat × Int) :=
  let cs := (s.toList.dropWhile (· == ' ')).reverse.dropWhile (· == ' ') |>.reverse
  let (neg, cs) := takeSign cs
  let (ip, cs) := cs.span Char.isDigit
  let (fp, cs) := match cs with
    | '.' :: t => t.span Char.isDigit
    | cs => ([], cs)
  if ip.isEmpty && fp.isEmpty then Option.none
  else
    let m := digitsVal (ip ++ fp)
    match cs with
    | [] => some (neg, m, fp.length, 0)
    | c :: t =>
      if c == 'e' || c == 'E' then
        let (eneg, t) := takeSign t
        let (ed, rest) := t.span Char.isDigit
        if ed.isEmpty || !rest.isEmpty then Option.none
        else some (neg, m, fp.length, if eneg then -(digitsVal ed : Int) else (digitsVal ed : Int))
      else Option.none

def parseFloat (s : String) : Option α :=
  (parseDecimal s).map fun (neg, m, f, e) =>
    let x : α := (m : α) / (10 : α) ^ f
    let x := if e < 0 then x / (10 : α) ^ e.natAbs else x * (10 : α) ^ e.natAbs
    if neg then -x else x

/-- the `temperature` setter: `float(value)` -/
def toFloat (v : Val α) : Except CErr α :=
  match v with
  | .sc (.int n) => .ok (n : α)
  | .sc (.bool b) => .ok (if b then 1 else 0)
  | .sc (.num x) => .ok x
  | .sc (.str s) => match (parseFloat s : Option α) with | some x => .ok x | Option.none => .error .value
  | _ => .error .type

end numeral

/-! ### unit labels -/

/-- the defaults loop `for uparam, udefault in self._unit_params.items(): if uparam not in properties: properties[uparam] = udefault` -/
def addDefaults (ds : List (String × String)) (kw : Args α) : Args α :=
  ds.foldl (fun kw kd => if has kw kd.1 then kw else kw ++ [(kd.1, .str kd.2)]) kw

/-- `properties.pop(k)` without default -/
def popKey (kw : Args α) (k : String) : Except CErr (Val α × Args α) :=
  match kw.lookup k with
  | some v => .ok (v, del kw k)
  | Option.none => .error .key

/-- `v in table` for a dictionary with string keys: unhashable values raise -/
def inTable {β : Type} (t : List (String × β)) (v : Val α) : Except CErr Bool :=
  match v with
  | .sc (.str s) => .ok (t.lookup s).isSome
  | .sc _ => .ok false
  | .mat _ _ => .ok false
  | _ => .error .type

/-- `v in MODE[basis]` -/
def inUnitTable (modes : List (String × Option String)) (basis : String) (v : Val α) : Except CErr Bool :=
  match modes.lookup basis with
  | some (some t) => inTable (unitTable t) v
  | some Option.none => .error .type
  | Option.none => .error .key

/-- `if not <test>: raise ParameterError` followed by `k` -/
def require {β : Type} (test : Except CErr Bool) (k : Except CErr β) : Except CErr β :=
  match test with
  | .error e => .error e
  | .ok false => .error .param
  | .ok true => k

/-- `if not <test>: raise ParameterError(<message>)` where building the message itself evaluates `msg` (and may raise first) -/
def requireMsg {β : Type} (test : Except CErr Bool) (msg : Except CErr Unit) (k : Except CErr β) : Except CErr β :=
  match test with
  | .error e => .error e
  | .ok false => (match msg with | .error e => .error e | .ok _ => .error .param)
  | .ok true => k

/-- the seven labels of an accepted isotherm: modes, bases and the temperature unit are table keys (strings); the three units are kept as
given (under fraction/percent, and for the pressure unit forced to `None`, they are not checked) -/
structure LabelVals (α : Type) where
  pmode : String
  punit : Val α
  lbasis : String
  lunit : Val α
  mbasis : String
  munit : Val α
  tunit : String
  deriving DecidableEq, Repr

def strOf (v : Val α) : Option String :=
  match v with
  | .sc (.str s) => some s
  | _ => Option.none

/-- lines 152–208 of `__init__` after the pops: the forcing of `pressure_unit`, then the checks in the code's order -/
def checkLabels (pm pu lb lu mb mu tu : Val α) : Except CErr (LabelVals α) :=
  match pm with
  | .sc (.str pms) =>                                      -- `self.pressure_mode.startswith(...)` needs a string
    let pu' : Val α := if hasPrefix relativePrefix pms then .none else pu
    require (inTable pressureMode pm) <|
    require (inTable loadingMode lb) <|
    require (inTable materialMode mb) <|
    match strOf lb, strOf mb with
    | some lbs, some mbs =>
      require (if pms = "absolute" then inTable pressureUnits pu' else .ok true) <|
      require (if fracBases.contains lbs then .ok true else inUnitTable loadingMode lbs lu) <|
      -- the message of this refusal reads `_MATERIAL_MODE[self.loading_basis]`: a KeyError when the loading basis is not also a material basis
      requireMsg (if fracBases.contains lbs then .ok true else inUnitTable materialMode mbs mu)
        (if (materialMode.lookup lbs).isSome then .ok () else .error .key) <|
      require (inTable temperatureUnits tu) <|
      match strOf tu with
      | some tus => .ok ⟨pms, pu', lbs, lu, mbs, mu, tus⟩
      | Option.none => .error .param
    | _, _ => .error .param
  | _ => .error .attr

/-- defaults, then `self.k = properties.pop('k')` for the seven keys in the code's order, then the checks; what is left is the metadata -/
def labelStage (kw : Args α) : Except CErr (LabelVals α × Args α) :=
  let kw := addDefaults unitParams kw
  -- (`if self._unit_params['loading_basis'] == 'volume': …` rewrites the CLASS table for later calls; this call is past the loop)
  (popKey kw "pressure_mode").bind fun r1 =>
  (popKey r1.2 "pressure_unit").bind fun r2 =>
  (popKey r2.2 "material_basis").bind fun r3 =>
  (popKey r3.2 "material_unit").bind fun r4 =>
  (popKey r4.2 "loading_basis").bind fun r5 =>
  (popKey r5.2 "loading_unit").bind fun r6 =>
  (popKey r6.2 "temperature_unit").bind fun r7 =>
  (checkLabels r1.1 r2.1 r5.1 r6.1 r3.1 r4.1 r7.1).bind fun l =>
  .ok (l, r7.2)

/-! ### the metadata-only isotherm -/

structure Iso (α : Type) where
  material : Mat α
  adsorbate : String
  temperature : α
  lab : LabelVals α
  properties : Args α
  deriving DecidableEq, Repr

/-- what `__init__` has done before it looks at the unit labels -/
structure Pre (α : Type) where
  material : Mat α
  adsorbate : String
  temperature : α
  kw : Args α

section
variable [Field α]

def prep (w : World α) (a : Args α) : Except CErr (Pre α) :=
  let c := applyShorthands (bind a)
  if missingRequired c then .error .param
  else
    let m := setMaterial w c.material
    match setAdsorbate w c.adsorbate with
    | .error e => .error e
    | .ok ads =>
      match toFloat c.temperature with
      | .error e => .error e
      | .ok t => .ok ⟨m, ads, t, c.kw⟩

/-- `BaseIsotherm(**a)` -/
def construct (w : World α) (a : Args α) : Except CErr (Iso α) :=
  match prep w a with
  | .error e => .error e
  | .ok p =>
    match labelStage p.kw with
    | .error e => .error e
    | .ok (l, props) => .ok ⟨p.material, p.adsorbate, p.temperature, l, props⟩

end

/-- the labels as the conversion model (`Model/IsoState`) sees them: a unit that is not a string is no unit -/
def LabelVals.labels (l : LabelVals α) : Labels :=
  ⟨l.pmode, strOf l.punit, l.lbasis, strOf l.lunit, l.mbasis, strOf l.munit, some l.tunit⟩

/-! ### `to_dict` -/

/-- `material.to_dict()` when the material has properties, else `str(material)` (which must be a string) -/
def matVal (m : Mat α) : Except CErr (Val α) :=
  match m.props, m.name with
  | [], .sc (.str s) => .ok (.str s)
  | [], _ => .error .type                                  -- `__str__ returned non-string`
  | p, .sc n => .ok (.dict (("name", n) :: p))
  | _, _ => .error .type                                   -- not reachable from `setMaterial` (a non-scalar name has no properties)

/-- `to_dict()` of a class with reserved list `reserved` whose constructor added the instance attributes `extra`:
`vars(self)`, the three renames, removal of the reserved names, then the metadata on top -/
def toDict (reserved : List String) (extra : Args α) (i : Iso α) : Except CErr (Args α) :=
  match matVal i.material with
  | .error e => .error e
  | .ok m =>
    let top : Args α :=
      [("pressure_mode", .str i.lab.pmode), ("pressure_unit", i.lab.punit), ("material_basis", .str i.lab.mbasis),
       ("material_unit", i.lab.munit), ("loading_basis", .str i.lab.lbasis), ("loading_unit", i.lab.lunit),
       ("temperature_unit", .str i.lab.tunit)] ++ extra ++
      [("adsorbate", .str i.adsorbate), ("material", m), ("temperature", .sc (.num i.temperature))]
    .ok (update (top.filter fun kv => !reserved.contains kv.1) i.properties)

/-- `BaseIsotherm.to_dict` -/
def toDictBase (i : Iso α) : Except CErr (Args α) := toDict reservedBase [] i

/-! ### the content of C05 / C06 (`Model/Json.lean`) as a function of the constructor's arguments -/

/-- a dictionary as `json.dumps` sees it; `pr` prints a float -/
def renderSc (pr : α → String) : Sc α → Json.Scalar
  | .none => .null
  | .bool b => .bool b
  | .int n => .int n
  | .num x => .num (pr x)
  | .str s => .str s

def renderVal (pr : α → String) : Val α → Json.MVal
  | .sc s => .scalar (renderSc pr s)
  | .list l => .list (l.map (renderSc pr))
  | .dict kv => .dict (kv.map fun x => (x.1, renderSc pr x.2))
  | .mat n p => .dict (("name", .str n) :: p.map fun x => (x.1, renderSc pr x.2))

def render (pr : α → String) (d : Args α) : Json.Dict := d.map fun kv => (kv.1, renderVal pr kv.2)

/-- the content (in the sense of `Model/Json.Iso`) of a metadata-only isotherm -/
def content (pr : α → String) (d : Args α) : Json.Iso := ⟨render pr d, .none⟩

/-! ### point isotherms: the data arguments (control logic of `PointIsotherm.__init__`) -/

/-- a table handed over as `isotherm_data`: column names in order and the numeric columns the constructor reads -/
structure Frame (α : Type) where
  cols : List String
  nrows : Nat
  num : List (String × List α)            -- values of numeric columns (the pressure column; `branch` if present)

inductive BranchArg (α : Type)
  | str (s : String)
  | marks (l : List α)                    -- an iterable of booleans / numbers, one per point
  | scalar (x : α)                        -- a single number / boolean: pandas broadcasts it
  | none                                  -- `None`: broadcast as missing values

structure PointArgs (α : Type) where
  pressure : Option (List α)
  loading : Option (List α)
  frame : Option (Frame α)
  pressureKey : Option String
  loadingKey : Option String
  branch : BranchArg α

/-- what the data arguments become: key names, column order of `data_raw`, `other_keys`, the branch marks (`none`: missing values) -/
structure PointData (α : Type) where
  pressureKey : String
  loadingKey : String
  columns : List String
  otherKeys : List String
  marks : List (Option α)
  deriving DecidableEq, Repr

/-- ascending insertion sort of column names (`sorted(other_keys)`) -/
def insertStr (s : String) : List String → List String
  | [] => [s]
  | h :: t => if s < h || s == h then s :: h :: t else h :: insertStr s t

def sortStrs : List String → List String
  | [] => []
  | h :: t => insertStr h (sortStrs t)

section
variable [Field α] [LinearOrder α]

def natMarks (l : List Nat) : List (Option α) := l.map fun (n : Nat) => some (Nat.cast n : α)

def pointData (a : PointArgs α) : Except CErr (PointData α) :=
  match a.frame with
  | some f =>
    match a.pressureKey, a.loadingKey with
    | some pk, some lk =>
      if !(f.cols.contains pk && f.cols.contains lk) then .error .param
      else
        let hasBranch := f.cols.contains "branch"
        let columns := [pk, lk, "branch"]          -- one layout whether the marks come in the table or as an argument (repo fix S45-C05c)
        let other := f.cols.filter fun c => !columns.contains c
        let columns := columns ++ sortStrs other
        let otherKeys := columns.filter fun c => !(c == pk || c == lk || c == "branch")
        if hasBranch then
          .ok ⟨pk, lk, columns, otherKeys, ((f.num.lookup "branch").getD []).map some⟩      -- the column is taken as it is; `branch=` is ignored
        else
          match a.branch with
          | .str "guess" => .ok ⟨pk, lk, columns, otherKeys, natMarks (splitAds ((f.num.lookup pk).getD []))⟩
          | .str "ads" => .ok ⟨pk, lk, columns, otherKeys, List.replicate f.nrows (some 0)⟩
          | .str "des" => .ok ⟨pk, lk, columns, otherKeys, List.replicate f.nrows (some 1)⟩
          | .str _ => .error .param
          | .marks l => if l.length = f.nrows then .ok ⟨pk, lk, columns, otherKeys, l.map some⟩ else .error .param
          | .scalar x => .ok ⟨pk, lk, columns, otherKeys, List.replicate f.nrows (some x)⟩
          | .none => .ok ⟨pk, lk, columns, otherKeys, List.replicate f.nrows Option.none⟩
    | _, _ => .error .param
  | Option.none =>
    match a.pressure, a.loading with
    | Option.none, Option.none => .error .param
    | some ps, some ls =>
      if ps.length ≠ ls.length then .error .param
      else
        let columns := ["pressure", "loading", "branch"]
        match a.branch with
        | .str "guess" => .ok ⟨"pressure", "loading", columns, [], natMarks (splitAds ps)⟩
        | .str "ads" => .ok ⟨"pressure", "loading", columns, [], List.replicate ps.length (some 0)⟩
        | .str "des" => .ok ⟨"pressure", "loading", columns, [], List.replicate ps.length (some 1)⟩
        | .str _ => .error .param
        | .marks l => if l.length = ps.length then .ok ⟨"pressure", "loading", columns, [], l.map some⟩ else .error .param
        | .scalar x => .ok ⟨"pressure", "loading", columns, [], List.replicate ps.length (some x)⟩
        | .none => .ok ⟨"pressure", "loading", columns, [], List.replicate ps.length Option.none⟩
    | _, _ => .error .param

/-! ### model isotherms: which arguments are stored, which consumed (control logic of `ModelIsotherm.__init__`) -/

inductive ModelArg
  | none                                   -- `model=None`
  | name (s : String)                      -- a model name (or a list of names): needs data to fit
  | inst (name : String)                   -- an instance of `IsothermBaseModel`

structure ModelArgs (α : Type) where
  pressure : Option (List α)
  loading : Option (List α)
  frame : Option (Frame α)
  pressureKey : Option String
  loadingKey : Option String
  branch : Val α
  model : ModelArg

/-- where the constructor goes after the base class has accepted the metadata -/
inductive ModelRoute (α : Type)
  | stored (model : String) (branch : Val α)             -- `self.model = model; self.branch = branch`: nothing fitted, nothing checked
  | fit (branch : Val α) (ps : List α)                    -- `get_isotherm_model(...).fit(...)` on these pressures (and the loadings of the same rows)
  deriving DecidableEq, Repr

def modelRoute (a : ModelArgs α) : Except CErr (ModelRoute α) :=
  match a.model with
  | .none => .error .param
  | m =>
    match a.frame with
    | some f =>
      match a.pressureKey, a.loadingKey with
      | some pk, some _ =>
        let ps := (f.num.lookup pk).getD []
        let marks : List α := if f.cols.contains "branch" then (f.num.lookup "branch").getD [] else (splitAds ps).map fun (n : Nat) => (Nat.cast n : α)
        let sel (k : α) : List α := ((ps.zip marks).filter fun pm => pm.2 = k).map (·.1)
        match a.branch with
        | .sc (.str "ads") => if (sel 0).isEmpty then .error .param else .ok (.fit a.branch (sel 0))
        | .sc (.str "des") => if (sel 1).isEmpty then .error .param else .ok (.fit a.branch (sel 1))
        | _ => .error .param
      | _, _ => .error .param
    | Option.none =>
      match a.pressure, a.loading with
      | some ps, some ls => if ps.length ≠ ls.length then .error .param else .ok (.fit a.branch ps)
      | Option.none, Option.none =>
        match m with
        | .inst n => .ok (.stored n a.branch)
        | _ => .error .param
      | _, _ => .error .param

end

/-- `Sub(**a)`: the subclass signature takes its named parameters, `**other_properties` goes on to `BaseIsotherm.__init__` -/
def otherProperties (named : List (String × Option String)) (a : Args α) : Args α :=
  a.filter fun kv => !(named.map (·.1)).contains kv.1

/-- the value a named parameter of the subclass signature is bound to (its literal default when the key is absent) -/
def namedArg (named : List (String × Option String)) (a : Args α) (k : String) : Val α :=
  (a.lookup k).getD (match named.lookup k with | some (some d) => .str d | _ => .none)

/-- `ModelIsotherm.to_dict()` of an isotherm around a stored model: `vars(self)` also holds `model` and `branch` -/
def toDictModel (i : Iso α) (branch : Val α) : Except CErr (Args α) :=
  toDict reservedModel [("model", .str "<model>"), ("branch", branch)] i

/-- `PointIsotherm.to_dict()`: `vars(self)` also holds the data and the interpolator slots -/
def toDictPoint (i : Iso α) : Except CErr (Args α) :=
  toDict reservedPoint (pointAttrs.map fun k => (k, .str "<object>")) i

end PgVerif.Model.Construct
