/-
Hand-written executable model of the pore potentials of characterisation/psd_micro.py that are NOT the slit-pore
Horvath-Kawazoe potential (that one is regenerated from the source into Gen/CharR|CharF `hk_slit_potential`):

  psd_horvath_kawazoe      cylinder (Saito-Foley series, cached coefficients `a_ks`, `b_ks`)      `hkCylinder`
                           sphere   (Cheng-Yang, `t_term`)                                        `hkSphere`
  psd_horvath_kawazoe_ry   slit     (piecewise in the number of layers)                           `rySlit`
                           cylinder (layers, `potential_general`, `a_k_sum`, `b_k_sum`)           `ryCylinder`
                           sphere   (layers, `potential_general`)                                 `rySphere`

Statement by statement as the Python closures `potential(l_pore)` compute them, polymorphic over an ordered field with floor
(run at ℚ by Drv/HKPot.lean, reasoned about in Props/C17/Potentials.lean).  π, `N_over_RT` and the dispersion constants are
arguments (`Params`); the literal `1e-9` is `1/10⁹`, `0.8583742` is `4291871/5000000`, `0.65625 = 21/32`, `0.75 = 3/4`.
`math.asin` is transcendental: the populations `π / asin(d_ads / width)` of the Rege-Yang cylinder enter as an input list
(computed by the harness, like the logarithms of Model/SpreadPoint.lean); which layers use them is decided here.
Python `x ** (-n)` is `(x ^ n)⁻¹`; `int(x)` truncates toward zero (`pyInt`).
-/
import Mathlib.Algebra.Order.Field.Basic
import Mathlib.Algebra.Order.Floor.Defs

namespace PgVerif.Model.HKPot

variable {α : Type} [Field α]

/-- what the closures of `psd_horvath_kawazoe` / `psd_horvath_kawazoe_ry` capture -/
structure Params (α : Type) where
  pi : α        -- scipy.constants.pi
  nOverRT : α   -- `_N_over_RT(temperature)`
  nAds : α      -- adsorbate surface density
  aAds : α      -- Kirkwood-Mueller constant adsorbate-adsorbate
  nMat : α      -- adsorbent surface density
  aMat : α      -- Kirkwood-Mueller constant adsorbate-adsorbent
  dAds : α      -- adsorbate molecular diameter (nm)
  dMat : α      -- adsorbent molecular diameter (nm)

/-- `d_eff = (d_ads + d_mat) / 2` -/
def Params.dEff (P : Params α) : α := (P.dAds + P.dMat) / 2

/-- the literal `1e-9` (nm → m) -/
def nano : α := 1 / 1000000000

/-- the literal `0.8583742` ≈ (2/5)^(1/6) -/
def sigmaFactor : α := 4291871 / 5000000

/-! ## the cached series coefficients -/

/-- value of `xs[k]` after `xs = [1]; for k in range(1, n): xs.append(((-c - k) / k)**2 * xs[k - 1])`
(`c = 4.5` for `a_ks`, `c = 1.5` for `b_ks`) -/
def coeff (c : α) : ℕ → α
  | 0 => 1
  | k + 1 => ((-c - ((k + 1 : ℕ) : α)) / ((k + 1 : ℕ) : α)) ^ 2 * coeff c k

/-- the appending loop from index `k` on, `prev = xs[k - 1]` -/
def cacheFrom (c : α) : ℕ → ℕ → α → List α
  | 0, _, _ => []
  | n + 1, k, prev =>
    let x := ((-c - (k : α)) / (k : α)) ^ 2 * prev
    x :: cacheFrom c n (k + 1) x

/-- the list `xs` after the caching loop with `range(1, n)` -/
def cache (c : α) (n : ℕ) : List α := 1 :: cacheFrom c (n - 1) 1 1

/-- `a_ks` (2000 cached values) -/
def aKs : List α := cache (9 / 2) 2000
/-- `b_ks` -/
def bKs : List α := cache (3 / 2) 2000

/-- `numpy.sum(pops * pots)` -/
def wsum (pops pots : List α) : α := (List.zipWith (· * ·) pops pots).sum

/-- `N_over_RT * numpy.sum(layer_populations * layer_potentials) / numpy.sum(layer_populations)` -/
def weighted (nOverRT : α) (pops pots : List α) : α := nOverRT * wsum pops pots / pops.sum

/-! ## Rege-Yang, slit -/

/-- `potential_adsorbate` -/
def rySlitAdsorbate (P : Params α) : α :=
  let sigmaAds := sigmaFactor * P.dAds
  let saOverDa := sigmaAds / P.dAds
  P.nAds * P.aAds / 2 / (sigmaAds * nano) ^ 4 * (-saOverDa ^ 4 + saOverDa ^ 10)

/-- `potential_onesurface` -/
def rySlitOneSurface (P : Params α) : α :=
  let sigma := sigmaFactor * P.dEff
  let sOverD0 := sigma / P.dEff
  P.nMat * P.aMat / 2 / (sigma * nano) ^ 4 * (-sOverD0 ^ 4 + sOverD0 ^ 10) + rySlitAdsorbate P

/-- `potential_twosurface(l_pore)` -/
def rySlitTwoSurface (P : Params α) (l : α) : α :=
  let sigma := sigmaFactor * P.dEff
  let sOverD0 := sigma / P.dEff
  P.nMat * P.aMat / 2 / (sigma * nano) ^ 4
    * (sOverD0 ^ 10 - sOverD0 ^ 4 + (sigma / (l - P.dEff)) ^ 10 - (sigma / (l - P.dEff)) ^ 4)

/-- `potential_average(n_layer)` -/
def rySlitAverage (P : Params α) (nLayer : α) : α :=
  (2 * rySlitOneSurface P + (nLayer - 2) * 2 * rySlitAdsorbate P) / nLayer

section Ordered
variable [LinearOrder α]

/-- `potential(l_pore)` of the Rege-Yang slit branch -/
def rySlit (P : Params α) (l : α) : α :=
  let nLayer := (l - P.dMat) / P.dAds
  if nLayer < 2 then P.nOverRT * rySlitTwoSurface P l else P.nOverRT * rySlitAverage P nLayer

variable [FloorRing α]

/-- Python `int(x)`: truncation toward zero -/
def pyInt (x : α) : ℤ := if 0 ≤ x then ⌊x⌋ else ⌈x⌉

/-- `int(l_pore * 25)` as a loop bound (`range` with a non-positive bound is empty) -/
def maxK (l : α) : ℕ := (pyInt (l * 25)).toNat

/-! ## Horvath-Kawazoe, cylinder (Saito-Foley) -/

/-- `potential(l_pore)` of the HK cylinder branch, the two caches passed in -/
def hkCylinderWith (aKs bKs : List α) (P : Params α) (l : α) : α :=
  let dEff := P.dEff
  let constCoeff := 3 / 4 * P.pi * P.nOverRT * (P.nAds * P.aAds + P.nMat * P.aMat) / (dEff * nano) ^ 4
  let dOverR := dEff / l
  let dOverRp4 := dOverR ^ 4
  let dOverRp10k := 21 / 32 * dOverR ^ 10
  let kSum0 := dOverRp10k - dOverRp4
  -- for k in range(1, int(l_pore * 25)):
  let kSum := (List.range' 1 (maxK l - 1)).foldl
    (fun s (k : ℕ) => s + (1 / ((k : α) + 1) * (1 - dOverR) ^ (2 * k)) * (aKs.getD k 0 * dOverRp10k - bKs.getD k 0 * dOverRp4)) kSum0
  constCoeff * kSum

def hkCylinder (P : Params α) (l : α) : α := hkCylinderWith aKs bKs P l

end Ordered

/-! ## Horvath-Kawazoe, sphere (Cheng-Yang) -/

/-- `t_term(x)` -/
def tTerm (lMinusD l : α) (x : ℕ) : α :=
  ((1 + (-1) ^ x * lMinusD / l) ^ x)⁻¹ - ((1 - (-1) ^ x * lMinusD / l) ^ x)⁻¹

/-- `potential(l_pore)` of the HK sphere branch -/
def hkSphere (P : Params α) (l : α) : α :=
  let dEff := P.dEff
  let p12 := 1 / 4 * P.aMat / (dEff * nano) ^ 6
  let p22 := 1 / 4 * P.aAds / (P.dAds * nano) ^ 6
  let lMinusD := l - dEff
  let dOverL := dEff / l
  let n1 := 4 * P.pi * (l * nano) ^ 2 * P.nMat
  let n2 := 4 * P.pi * (lMinusD * nano) ^ 2 * P.nAds
  P.nOverRT * (6 * (n1 * p12 + n2 * p22) * (l / lMinusD) ^ 3)
    * (-(dOverL ^ 6) * (tTerm lMinusD l 3 / 12 + tTerm lMinusD l 2 / 8)
        + dOverL ^ 12 * (tTerm lMinusD l 9 / 90 + tTerm lMinusD l 8 / 80))

/-! ## Rege-Yang, cylinder and sphere -/

/-- `a_k_sum(r2, max_k_pore)` / `b_k_sum(r2, max_k_pore)` over the cache `ks` -/
def kSeries (ks : List α) (r2 : α) (maxKPore : ℕ) : α :=
  (List.range' 1 (maxKPore - 1)).foldl (fun s (k : ℕ) => s + ks.getD k 0 * r2 ^ (2 * k)) 1

/-- spherical `potential_general(n_m, p_xx, r1)` -/
def rySphGeneral (nM pXX r1 : α) : α :=
  let r2 := 1 - r1
  2 * nM * pXX * ((-r1 ^ 6 / (4 * r2) * (((1 - r2) ^ 4)⁻¹ - ((1 + r2) ^ 4)⁻¹))
    + (r1 ^ 12 / (10 * r2) * (((1 - r2) ^ 10)⁻¹ - ((1 + r2) ^ 10)⁻¹)))

section Ordered
variable [LinearOrder α] [FloorRing α]

/-- `n_layers = int(((2 * l_pore - d_mat) / d_ads - 1) / 2) + 1` -/
def ryLayers (P : Params α) (l : α) : ℤ := pyInt (((2 * l - P.dMat) / P.dAds - 1) / 2) + 1

/-- `max_k_pore`: `int(l_pore * 25)` capped at 2000 -/
def ryMaxK (l : α) : ℕ := if maxK l < 2000 then maxK l else 2000

/-- cylindrical `potential_general(l_pore, d_x, n_x, a_x, r1)` -/
def ryCylGeneral (aKs bKs : List α) (pi l dX nX aX r1 : α) : α :=
  let maxKPore := ryMaxK l
  let r2 := 1 - r1
  3 / 4 * pi * nX * aX / (dX * nano) ^ 4
    * (21 / 32 * r1 ^ 10 * kSeries aKs r2 maxKPore - r1 ^ 4 * kSeries bKs r2 maxKPore)

/-- `width = 2 * (l_pore - d_eff - (layer - 1) * d_ads)` -/
def ryWidth (P : Params α) (l : α) (layer : ℕ) : α := 2 * (l - P.dEff - ((layer : α) - 1) * P.dAds)

/-- the list `layer_populations` of the cylinder; `asinPops[layer-1]` stands for `π / asin(d_ads / width)` -/
def ryCylPops (P : Params α) (asinPops : List α) (l : α) : List α :=
  (List.range' 1 (ryLayers P l).toNat).map fun (layer : ℕ) =>
    if P.dAds ≤ ryWidth P l layer then asinPops.getD (layer - 1) 0 else 1

/-- the list `layer_potentials` of the cylinder -/
def ryCylPots (aKs bKs : List α) (P : Params α) (l : α) : List α :=
  (List.range' 1 (ryLayers P l).toNat).map fun (layer : ℕ) =>
    if layer = 1 then ryCylGeneral aKs bKs P.pi l P.dEff P.nMat P.aMat (P.dEff / l)
    else ryCylGeneral aKs bKs P.pi l P.dAds P.nAds P.aAds (P.dAds / (l - P.dEff - ((layer : α) - 2) * P.dAds))

/-- `potential(l_pore)` of the Rege-Yang cylinder branch -/
def ryCylinderWith (aKs bKs : List α) (P : Params α) (asinPops : List α) (l : α) : α :=
  weighted P.nOverRT (ryCylPops P asinPops l) (ryCylPots aKs bKs P l)

def ryCylinder (P : Params α) (asinPops : List α) (l : α) : α := ryCylinderWith aKs bKs P asinPops l

/-- `layer_populations` of the sphere: `[N1 … Nm]` -/
def rySphPops (P : Params α) (l : α) : List α :=
  (List.range' 1 (ryLayers P l).toNat).map fun (layer : ℕ) =>
    4 * P.pi * ((l - P.dEff - ((layer : α) - 1) * P.dAds) * nano) ^ 2 * P.nAds

/-- `layer_potentials` of the sphere: `E1` with the surface, then `[E2 … Em]` (`zip(range(2, n_layers + 1), layer_populations)`) -/
def rySphPots (P : Params α) (l : α) : List α :=
  let p12 := P.aMat / (4 * (P.dEff * nano) ^ 6)
  let p22 := P.aAds / (4 * (P.dAds * nano) ^ 6)
  let e1 := rySphGeneral (4 * P.pi * (l * nano) ^ 2 * P.nMat) p12 (P.dEff / l)
  e1 :: List.zipWith
    (fun (layer : ℕ) pop => rySphGeneral pop p22 (P.dAds / (l - P.dEff - ((layer : α) - 2) * P.dAds)))
    (List.range' 2 ((ryLayers P l).toNat - 1)) (rySphPops P l)

/-- `potential(l_pore)` of the Rege-Yang sphere branch -/
def rySphere (P : Params α) (l : α) : α := weighted P.nOverRT (rySphPops P l) (rySphPots P l)

end Ordered

end PgVerif.Model.HKPot
