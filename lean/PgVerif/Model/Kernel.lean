/-
Hand-written model of the arithmetic of kernel (DFT) fitting around the SLSQP minimisation (characterisation/psd_kernel.py
`psd_dft_kernel_fit`): the kernel-weighted sum, the objective, the conversion from contributions to a distribution and the
cumulative volume.  `K` is the kernel evaluated at the isotherm pressures: one row per pore width (`kernel_points`).
The minimiser (scipy SLSQP), the cubic interpolation of the kernel file and the B-spline smoothing are not modelled: the first is
decided by certificate in the harness, the smoothing enters the theorems as "a convex combination of the control points".
-/
import Mathlib.Algebra.Order.Field.Basic

namespace PgVerif.Model.Kernel

variable {α : Type} [Field α]

/-- `numpy.multiply(kernel_points, pore_dist[:, newaxis]).sum(axis=0)`: Σ_w K[w][p] * x[w], one value per pressure -/
def kernelLoading : List (List α) → List α → List α
  | [row], [x] => row.map (· * x)
  | row :: rows, x :: xs => List.zipWith (· + ·) (row.map (· * x)) (kernelLoading rows xs)
  | _, _ => []

/-- `numpy.square(kernel_loading(x) - loading).sum()` -/
def sumSquares (K : List (List α)) (loading x : List α) : α :=
  ((List.zipWith (· - ·) (kernelLoading K x) loading).map (fun r => r * r)).sum

/-- `numpy.ediff1d(w, to_begin=w[0])` -/
def ediff : List α → List α
  | [] => []
  | w0 :: ws => w0 :: (List.zipWith (· - ·) ws (w0 :: ws))

/-- `pore_dist = x / ediff1d(pore_widths, to_begin=pore_widths[0])` -/
def rawDist (x widths : List α) : List α := List.zipWith (· / ·) x (ediff widths)

/-- `numpy.cumsum` -/
def cumsum : List α → α → List α
  | [], _ => []
  | x :: xs, acc => (acc + x) :: cumsum xs (acc + x)

/-- `pore_vol_cum = cumsum(pore_dist * ediff1d(widths, to_begin=widths[0]))` -/
def cumVol (dist widths : List α) : List α := cumsum (List.zipWith (· * ·) dist (ediff widths)) 0

/-- feasibility of the optimisation variable (`bounds=(0, None)`, constraint `x >= 0`) -/
def feasible [LinearOrder α] (x : List α) : Prop := ∀ v ∈ x, 0 ≤ v

/-- a smoothed sample is a convex combination of the control values (B-spline basis: non-negative, partition of unity) -/
def convexComb (weights values : List α) : α := (List.zipWith (· * ·) weights values).sum

end PgVerif.Model.Kernel
