/-
Hand-written model of the arithmetic of kernel (DFT) fitting around the SLSQP minimisation (characterisation/psd_kernel.py
`psd_dft_kernel_fit`): the kernel-weighted sum, the objective, the conversion from contributions to a distribution and the
cumulative volume.  `K` is the kernel evaluated at the isotherm pressures: one row per pore width (`kernel_points`).
The minimiser (scipy SLSQP), the cubic interpolation of the kernel file and the B-spline smoothing are not modelled: the first is
decided by certificate in the harness.  The B-spline smoothing (`bspline` of utilities/math_utilities.py) is modelled by de Boor's recursion
on the clamped uniform knot vector (what scipy's `splev` computes), the kernel cache `_LOADED` by a memo table.
-/
import Mathlib.Algebra.Order.Field.Basic

namespace PgVerif.Model.Kernel

variable {α : Type} [Field α]

/-- `numpy.multiply(kernel_points, pore_dist[:, newaxis]).sum(axis=0)`: Σ_w K[w][p] * x[w], one value per pressure -/
def kernelLoading : List (List α) → List α → List α
  | [row], [x] => row.map (· * x)
  | row :: rows, x :: xs => List.zipWith (· + ·) (row.map (· * x)) (kernelLoading rows xs)
  | _, _ => []

/-- `numpy.square(kernel_loading(x) - loading).sum()` -/
def sumSquares (K : List (List α)) (loading x : List α) : α :=
  ((List.zipWith (· - ·) (kernelLoading K x) loading).map (fun r => r * r)).sum

/-- `numpy.ediff1d(w, to_begin=w[0])` -/
def ediff : List α → List α
  | [] => []
  | w0 :: ws => w0 :: (List.zipWith (· - ·) ws (w0 :: ws))

/-- `pore_dist = x / ediff1d(pore_widths, to_begin=pore_widths[0])` -/
def rawDist (x widths : List α) : List α := List.zipWith (· / ·) x (ediff widths)

/-- `numpy.cumsum` -/
def cumsum : List α → α → List α
  | [], _ => []
  | x :: xs, acc => (acc + x) :: cumsum xs (acc + x)

/-- `pore_vol_cum = cumsum(pore_dist * ediff1d(widths, to_begin=widths[0]))` -/
def cumVol (dist widths : List α) : List α := cumsum (List.zipWith (· * ·) dist (ediff widths)) 0

/-- feasibility of the optimisation variable (`bounds=(0, None)`, constraint `x >= 0`) -/
def feasible [LinearOrder α] (x : List α) : Prop := ∀ v ∈ x, 0 ≤ v

/-- a smoothed sample is a convex combination of the control values (B-spline basis: non-negative, partition of unity) -/
def convexComb (weights values : List α) : α := (List.zipWith (· * ·) weights values).sum


/-! ### B-spline smoothing (utilities/math_utilities.py `bspline`, open curve; scipy `splev` evaluates by de Boor's recursion) -/

/-- `numpy.clip(degree, 1, count - 1)` -/
def clipDegree (degree count : ℕ) : ℕ := min (max degree 1) (count - 1)

/-- the clamped uniform knot vector `[0]*p ++ arange(n - p + 1) ++ [n - p]*p` (n control points, degree p), by index -/
def knot (n p i : ℕ) : α := ((min (max i p) n - p : ℕ) : α)

/-- de Boor's triangular scheme on knots `t` and control values `c` (absolute indices): level 0 is the control polygon,
level `r+1` blends neighbours with the ratio `(x - t_j) / (t_{j+p-r} - t_j)`; the curve value in the knot span `k` is
`deBoor t c p x p k` -/
def deBoor (t c : ℕ → α) (p : ℕ) (x : α) : ℕ → ℕ → α
  | 0, j => c j
  | r + 1, j =>
    let a := (x - t j) / (t (j + p - r) - t j)
    (1 - a) * deBoor t c p x r (j - 1) + a * deBoor t c p x r j

/-- linear search of the knot span: the first `k ≥ k₀` with `x ≤ t (k+1)`, at most `fuel` steps -/
def spanFrom [LinearOrder α] (t : ℕ → α) (x : α) : ℕ → ℕ → ℕ
  | 0, k => k
  | fuel + 1, k => if x ≤ t (k + 1) then k else spanFrom t x fuel (k + 1)

/-- the knot span of a query in `[0, n - p]`: `p ≤ k ≤ n - 1` with `knot k ≤ x ≤ knot (k+1)` -/
def span [LinearOrder α] (n p : ℕ) (x : α) : ℕ := spanFrom (knot n p) x (n - 1 - p) p

/-- one coordinate of the open B-spline through the control values `c` at the parameter `x` -/
def bsplineAt [LinearOrder α] (p : ℕ) (c : List α) (x : α) : α :=
  deBoor (knot c.length p) (fun i => c.getD i 0) p x p (span c.length p x)

/-- `numpy.linspace(0, count - degree, m)[i]` -/
def query (n p m i : ℕ) : α := ((n - p : ℕ) : α) * (i : α) / ((m - 1 : ℕ) : α)

/-- `bspline(xs, ys, n = m, degree)` for `degree ≥ 1`: `m` samples of both coordinates -/
def bsplineCurve [LinearOrder α] (degree m : ℕ) (xs ys : List α) : List (α × α) :=
  let p := clipDegree degree xs.length
  (List.range m).map fun i =>
    let x : α := query xs.length p m i
    (bsplineAt p xs x, bsplineAt p ys x)

/-! ### memoisation (`_LOADED` in psd_kernel.py: results of an expensive function kept in a table under a key) -/

/-- one memoised call: look the key of the argument up, compute and store on a miss -/
def memoStep {ι κ β : Type} [BEq κ] (key : ι → κ) (f : ι → β) (tbl : List (κ × β)) (a : ι) : β × List (κ × β) :=
  match tbl.lookup (key a) with
  | some v => (v, tbl)
  | none => (f a, (key a, f a) :: tbl)

/-- the answers of a whole history of calls, starting from the table `tbl` -/
def memoRun {ι κ β : Type} [BEq κ] (key : ι → κ) (f : ι → β) : List (κ × β) → List ι → List β
  | _, [] => []
  | tbl, a :: as => (memoStep key f tbl a).1 :: memoRun key f (memoStep key f tbl a).2 as

/-! ### resolution of the kernel argument (`KERNELS.get(kernel, kernel)` in `psd_dft`) -/

/-- the kernel argument is looked up in the table of registered kernel names under `key arg`; an argument that is not found is a path and
is passed on literally.  The library uses `key = id` (the argument itself is the name). -/
def resolveKernel {ι κ : Type} [BEq κ] (key : ι → κ) (registered : List (κ × ι)) (arg : ι) : ι :=
  match registered.lookup (key arg) with
  | some shippedPath => shippedPath
  | none => arg

end PgVerif.Model.Kernel
