/-
Specification of the isotherm model equations, written from the published formulas
(the `formula` strings / docstrings of the classes and the cited literature), NOT from the method bodies.
Parameter order follows each class's `param_names`.
-/
import Mathlib.Analysis.SpecialFunctions.Pow.Real
import Mathlib.Analysis.SpecialFunctions.Sqrt
import Mathlib.Analysis.SpecialFunctions.Log.Basic

namespace PgVerif.Spec.M

/-- Henry: n = K p -/
noncomputable def henry (K p : ℝ) : ℝ := K * p
noncomputable def henryInv (K n : ℝ) : ℝ := n / K
noncomputable def henrySpread (K p : ℝ) : ℝ := K * p

/-- Langmuir: n = n_m K p / (1 + K p) -/
noncomputable def langmuir (K nm p : ℝ) : ℝ := nm * (K * p) / (1 + K * p)
noncomputable def langmuirInv (K nm n : ℝ) : ℝ := n / (K * (nm - n))
noncomputable def langmuirSpread (K nm p : ℝ) : ℝ := nm * Real.log (1 + K * p)

/-- dual / triple site Langmuir -/
noncomputable def dslangmuir (nm1 K1 nm2 K2 p : ℝ) : ℝ := langmuir K1 nm1 p + langmuir K2 nm2 p
noncomputable def dslangmuirSpread (nm1 K1 nm2 K2 p : ℝ) : ℝ := langmuirSpread K1 nm1 p + langmuirSpread K2 nm2 p
noncomputable def tslangmuir (nm1 nm2 nm3 K1 K2 K3 p : ℝ) : ℝ :=
  langmuir K1 nm1 p + langmuir K2 nm2 p + langmuir K3 nm3 p
noncomputable def tslangmuirSpread (nm1 nm2 nm3 K1 K2 K3 p : ℝ) : ℝ :=
  langmuirSpread K1 nm1 p + langmuirSpread K2 nm2 p + langmuirSpread K3 nm3 p

/-- BET (with the `N` multilayer constant of the library): n = n_m C p / ((1 - N p)(1 - N p + C p)) -/
noncomputable def bet (nm C N p : ℝ) : ℝ := nm * C * p / ((1 - N * p) * (1 - N * p + C * p))
noncomputable def betSpread (nm C N p : ℝ) : ℝ := nm * Real.log ((1 - N * p + C * p) / (1 - N * p))

/-- GAB: n = n_m C K p / ((1 - K p)(1 - K p + C K p)) -/
noncomputable def gab (nm C K p : ℝ) : ℝ := nm * C * (K * p) / ((1 - K * p) * (1 - K * p + C * (K * p)))
noncomputable def gabSpread (nm C K p : ℝ) : ℝ := nm * Real.log ((1 - K * p + C * (K * p)) / (1 - K * p))

/-- Freundlich: n = K p^(1/m) -/
noncomputable def freundlich (K m p : ℝ) : ℝ := K * p ^ (1 / m)
noncomputable def freundlichInv (K m n : ℝ) : ℝ := (n / K) ^ m
noncomputable def freundlichSpread (K m p : ℝ) : ℝ := m * K * p ^ (1 / m)

/-- Dubinin–Radushkevich / Astakhov with `mrt = -R T`: n = n_m exp(-((-RT ln p)/e)^m), m = 2 for DR -/
noncomputable def da (nm e m mrt p : ℝ) : ℝ := nm * Real.exp (-((mrt * Real.log p / e) ^ m))
noncomputable def daInv (nm e m mrt n : ℝ) : ℝ := Real.exp (e / mrt * (-Real.log (n / nm)) ^ (1 / m))
noncomputable def dr (nm e mrt p : ℝ) : ℝ := nm * Real.exp (-((mrt * Real.log p / e) ^ (2 : ℕ)))
noncomputable def drInv (nm e mrt n : ℝ) : ℝ := Real.exp (e / mrt * Real.sqrt (-Real.log (n / nm)))

/-- Quadratic: n = n_m (Ka + 2 Kb p) p / (1 + Ka p + Kb p²) -/
noncomputable def quadratic (nm Ka Kb p : ℝ) : ℝ := nm * (Ka + 2 * Kb * p) * p / (1 + Ka * p + Kb * p ^ 2)
noncomputable def quadraticSpread (nm Ka Kb p : ℝ) : ℝ := nm * Real.log (1 + Ka * p + Kb * p ^ 2)

/-- Temkin approximation: n = n_m (θ_L + θ θ_L² (θ_L − 1)), θ_L = K p / (1 + K p) -/
noncomputable def temkin (nm K tht p : ℝ) : ℝ :=
  nm * (K * p / (1 + K * p) + tht * (K * p / (1 + K * p)) ^ 2 * (K * p / (1 + K * p) - 1))
/-- the library's closed form (finding S13: it lacks the constant −n_m θ/2 that makes it vanish at p = 0) -/
noncomputable def temkinSpreadLib (nm K tht p : ℝ) : ℝ :=
  nm * (Real.log (1 + K * p) + tht * (2 * (K * p) + 1) / (2 * (1 + K * p) ^ 2))
/-- the integral of n/p from 0 -/
noncomputable def temkinSpread (nm K tht p : ℝ) : ℝ := temkinSpreadLib nm K tht p - nm * tht / 2

/-- Toth: n = n_m K p / (1 + (K p)^t)^(1/t) -/
noncomputable def toth (nm K t p : ℝ) : ℝ := nm * (K * p) / (1 + (K * p) ^ t) ^ (1 / t)
noncomputable def tothInv (nm K t n : ℝ) : ℝ := n / (nm * K) / (1 - (n / nm) ^ t) ^ (1 / t)

/-- Jensen–Seaton: n = K p / (1 + (K p / (a (1 + b p)))^c)^(1/c) -/
noncomputable def jensenSeaton (K a b c p : ℝ) : ℝ := K * p / (1 + (K * p / (a * (1 + b * p))) ^ c) ^ (1 / c)

/-- Virial (pressure explicit): p = n exp(-ln K + A n + B n² + C n³) -/
noncomputable def virialP (K A B C n : ℝ) : ℝ := n * Real.exp (-Real.log K + A * n + B * n ^ 2 + C * n ^ 3)

/-- Flory–Huggins VST (pressure explicit), θ = n / n_m -/
noncomputable def fhvstP (nm K a1v n : ℝ) : ℝ :=
  nm / K * (n / nm / (1 - n / nm)) * Real.exp (a1v ^ 2 * (n / nm) / (1 + a1v * (n / nm)))

/-- Wilson VST (pressure explicit) -/
noncomputable def wvstP (nm K L1v Lv1 n : ℝ) : ℝ :=
  nm / K * (n / nm) / (1 - n / nm) * (L1v * (1 - (1 - Lv1) * (n / nm)) / (L1v + (1 - L1v) * (n / nm))) *
    Real.exp (-(Lv1 * ((1 - Lv1) * (n / nm)) / (1 - (1 - Lv1) * (n / nm)))
      - (1 - L1v) * (n / nm) / (L1v + (1 - L1v) * (n / nm)))

end PgVerif.Spec.M
