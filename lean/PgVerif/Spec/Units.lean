/-
Specification of the unit system, written from the SI definitions (and the two conventions the
library documents: 1 cm3(STP) = 4.461e-5 mol, 1 mmHg = 1 torr = 133.322 Pa), NOT from the code.
Tables give (numerator, denominator) of: Pa per pressure unit, mol per molar unit,
gram per mass unit, cm3 per volume unit.
-/
import Mathlib.Algebra.Field.Defs
import Mathlib.Algebra.Field.Basic

namespace PgVerif.Spec

/-- Pa per unit -/
def pressureUnits : List (String × Nat × Nat) :=
  [("Pa", 1, 1), ("kPa", 1000, 1), ("MPa", 1000000, 1), ("mbar", 100, 1), ("bar", 100000, 1),
   ("atm", 101325, 1), ("mmHg", 66661, 500), ("torr", 66661, 500)]

/-- mol per unit; gas volumes at STP hold 4.461e-5 mol per cm3 -/
def molarUnits : List (String × Nat × Nat) :=
  [("mmol", 1, 1000), ("mol", 1, 1), ("kmol", 1000, 1), ("cm3(STP)", 4461, 100000000),
   ("mL(STP)", 4461, 100000000), ("cc(STP)", 4461, 100000000), ("L(STP)", 4461, 100000)]

/-- gram per unit; 1 amu = 1.66054e-27 kg·1e3 g/kg … the library's table is in units of g with
`amu = 1.66054e-27` (sic, kept: documented value) -/
def massUnits : List (String × Nat × Nat) :=
  [("amu", 83027, 50000000000000000000000000000000), ("mg", 1, 1000), ("cg", 1, 100), ("dg", 1, 10),
   ("g", 1, 1), ("kg", 1000, 1)]

/-- cm3 per unit -/
def volumeUnits : List (String × Nat × Nat) :=
  [("cm3", 1, 1), ("mL", 1, 1), ("cc", 1, 1), ("dm3", 1000, 1), ("L", 1000, 1), ("m3", 1000000, 1)]

/-- 0 °C = 273.15 K: offset subtracted when converting *to* the unit -/
def temperatureUnits : List (String × Int × Nat) := [("K", -5463, 20), ("°C", 5463, 20)]

def pressureMode : List (String × Option String) :=
  [("absolute", some "pressure"), ("relative", none), ("relative%", none)]

def loadingMode : List (String × Option String) :=
  [("mass", some "mass"), ("volume_gas", some "volume"), ("volume_liquid", some "volume"),
   ("molar", some "molar"), ("percent", none), ("fraction", none)]

def materialMode : List (String × Option String) :=
  [("mass", some "mass"), ("volume", some "volume"), ("molar", some "molar")]

/-- physical loading bases -/
inductive LB | mass | volGas | volLiq | molar
  deriving DecidableEq, Repr

def LB.name : LB → String
  | .mass => "mass" | .volGas => "volume_gas" | .volLiq => "volume_liquid" | .molar => "molar"

def LB.table : LB → String
  | .mass => "mass" | .volGas => "volume" | .volLiq => "volume" | .molar => "molar"

/-- material bases -/
inductive MB | mass | volume | molar
  deriving DecidableEq, Repr

def MB.name : MB → String
  | .mass => "mass" | .volume => "volume" | .molar => "molar"

def MB.table : MB → String := MB.name

/-- the loading basis a fraction/percent loading is expressed in, for a material basis -/
def MB.toLB : MB → LB
  | .mass => .mass | .volume => .volLiq | .molar => .molar

variable {α : Type} [Field α]

/-- adsorbate constants: molar mass M [g/mol], molar densities ρ̄ [mol/cm3], mass densities ρ [g/cm3] -/
structure Ads (α : Type) where
  M : α
  rhoL : α
  rhoLbar : α
  rhoG : α
  rhoGbar : α

/-- the thermodynamic consistency the conversions rely on (measured on CoolProp by C20) -/
def Ads.Consistent (a : Ads α) : Prop := a.rhoL = a.rhoLbar * a.M ∧ a.rhoG = a.rhoGbar * a.M

def Ads.Pos (a : Ads α) : Prop := a.M ≠ 0 ∧ a.rhoL ≠ 0 ∧ a.rhoLbar ≠ 0 ∧ a.rhoG ≠ 0 ∧ a.rhoGbar ≠ 0

/-- mol of adsorbate per (g | cm3 gas | cm3 liquid | mol) -/
def gL (a : Ads α) : LB → α
  | .mass => 1 / a.M
  | .volGas => a.rhoGbar
  | .volLiq => a.rhoLbar
  | .molar => 1

/-- material constants: density [g/cm3], molar mass [g/mol] -/
structure Mat (α : Type) where
  density : α
  molarMass : α

/-- gram of material per (g | cm3 | mol) -/
def gM (m : Mat α) : MB → α
  | .mass => 1
  | .volume => m.density
  | .molar => m.molarMass


def unitTable : String → List (String × Nat × Nat)
  | "molar" => molarUnits
  | "mass" => massUnits
  | "volume" => volumeUnits
  | "pressure" => pressureUnits
  | _ => []

/-- table entry as a field element -/
def fac (t : List (String × Nat × Nat)) (s : String) : Option α :=
  (t.lookup s).map fun e => (e.1 : α) / (e.2 : α)

/-! ### Representations and their SI content (`scale`) -/

/-- a pressure representation: absolute in a unit, relative, relative % (the last two may carry
any unit label, the library ignores it) -/
inductive PRep | abs (u : String) | rel (u : Option String) | relp (u : Option String)

def PRep.mode : PRep → String
  | .abs _ => "absolute" | .rel _ => "relative" | .relp _ => "relative%"

def PRep.unit : PRep → Option String
  | .abs u => some u | .rel u => u | .relp u => u

/-- Pa represented by the value 1 (`ps` = saturation pressure in Pa); `none` = unsupported unit -/
def PRep.scale (tbl : List (String × Nat × Nat)) (ps : α) : PRep → Option α
  | .abs u => if u = "" then none else fac tbl u
  | .rel _ => some ps
  | .relp _ => some (ps / 100)

/-- a material representation -/
structure MRep where
  b : MB
  u : String

/-- a loading representation: physical basis with unit, or fraction / percent of the material amount -/
inductive LRep | phys (b : LB) (u : String) | frac | pct

def LRep.basis : LRep → String
  | .phys b _ => b.name | .frac => "fraction" | .pct => "percent"

def LRep.unit : LRep → Option String
  | .phys _ u => some u | _ => none

/-- mol of adsorbate represented by the value 1 in (basis, unit) -/
def physScale (ut : String → List (String × Nat × Nat)) (a : Ads α) (b : LB) (u : String) : Option α :=
  if u = "" then none else (fac (ut b.table) u : Option α).map (· * gL a b)

/-- mol of adsorbate (per unit amount of material) represented by the value 1 -/
def LRep.scale (ut : String → List (String × Nat × Nat)) (a : Ads α) (m : MRep) : LRep → Option α
  | .phys b u => physScale ut a b u
  | .frac => physScale ut a m.b.toLB m.u
  | .pct => (physScale ut a m.b.toLB m.u).map (· / 100)

/-- gram of material represented by one unit of the material representation -/
def MRep.grams (ut : String → List (String × Nat × Nat)) (mat : Mat α) (r : MRep) : Option α :=
  if r.u = "" then none else (fac (ut r.b.table) r.u : Option α).map (· * gM mat r.b)

/-- temperature scales -/
inductive TRep | K | C (spelling : String)

/-- Kelvin value of `v` read in the scale -/
def TRep.toK : TRep → α → α
  | .K, v => v
  | .C _, v => v + 5463 / 20

def TRep.ofK : TRep → α → α
  | .K, v => v
  | .C _, v => v - 5463 / 20

def TRep.label : TRep → String
  | .K => "K" | .C s => s

end PgVerif.Spec
