/-
What the isotherm constructors are DOCUMENTED to do (docs/manual/isotherm.rst, "Creating an isotherm"; the class docstrings of
`BaseIsotherm`): three required descriptors with one-letter shorthands, seven unit parameters with stated defaults, and the three
keys the JSON format adds to an isotherm's dictionary (docs/manual/parsing.rst).  Written from the documentation, never from the code;
`Props/C05/Construct.lean` ties the generated tables to these.
-/
namespace PgVerif.Spec.IsoParams

/-- "The minimum arguments required to instantiate the class are material, temperature, adsorbate" -/
def required : List String := ["material", "adsorbate", "temperature"]

/-- "m='carbon', a='nitrogen', t=77" -/
def shorthands : List (String × String) := [("m", "material"), ("a", "adsorbate"), ("t", "temperature")]

/-- "If not given, the framework will assume default values: temperature in Kelvin, absolute pressure in bar and amount adsorbed in
terms of mmol per g (molar basis loading per mass basis material)" -/
def unitDefaults : List (String × String) :=
  [("pressure_mode", "absolute"), ("pressure_unit", "bar"), ("loading_basis", "molar"), ("loading_unit", "mmol"),
   ("material_basis", "mass"), ("material_unit", "g"), ("temperature_unit", "K")]

/-- the keys of the JSON format that are not isotherm metadata -/
def jsonKeys : List String := ["file_version", "isotherm_data", "isotherm_model"]

end PgVerif.Spec.IsoParams
