/-
What the hand-written store model (`PgVerif.Model.Store`) assumes about the database schema, written as DATA by hand from the
model — not from utilities/sqlite_db_pragmas.py.  `Props/C08/Schema.lean` compares it, by kernel evaluation, with the schema
generated from the current source (`PgVerif.Gen.Schema`).

* `relied`      — every constraint some model statement enforces itself (an insert that fails on NULL, on a duplicate, on a missing
                  referenced row; a delete that fails while the row is referenced), with the model definitions that do so.  The
                  definitions are given as checked name literals: a renamed or removed definition makes this file fail to compile.
* `notModelled` — constraints of the schema the model deliberately does not enforce, each with the reason why no modelled
                  operation can ever violate it.
* `tables`      — the columns the model's `Db` fields and the harness's independent table reads stand for.
* `fields`      — which table / columns each `Db` field is the content of.
* `opTables`    — the tables the statements of each public entry point address, per the model operation that mirrors it.

No Mathlib (core Lean data).
-/
import PgVerif.Model.Store

namespace PgVerif.Spec.Schema
open PgVerif.Model.Store

inductive Constraint
  | notNull (table col : String)
  | unique (table : String) (cols : List String)
  | foreignKey (table : String) (cols : List String) (refTable : String) (refCols : List String)
  deriving DecidableEq, Repr

/-- a constraint the model relies on: `usedBy` are the model definitions whose refusal branch stands for it -/
structure Relied where
  c : Constraint
  usedBy : List Lean.Name
  effect : String
  deriving Repr

def relied : List Relied := [
  -- adsorbates / materials: `insName` (through `insAds`, `insMat`)
  ⟨.notNull "adsorbates" "name", [``insName, ``insAds], "insert of an adsorbate without a name fails"⟩,
  ⟨.unique "adsorbates" ["name"], [``insName, ``insAds, ``insIso, ``delAds], "insert of a second adsorbate of the same name fails; parent key of isotherms.adsorbate"⟩,
  ⟨.notNull "materials" "name", [``insName, ``insMat], "insert of a material without a name fails"⟩,
  ⟨.unique "materials" ["name"], [``insName, ``insMat, ``insIso, ``delMat], "insert of a second material of the same name fails; parent key of isotherms.material"⟩,
  -- property rows of adsorbates
  ⟨.notNull "adsorbate_properties" "value", [``insAdsProp], "insert of a property row with value None fails"⟩,
  ⟨.foreignKey "adsorbate_properties" ["ads_id"] "adsorbates" ["id"], [``insAdsProp, ``delAds],
    "property row of an absent adsorbate fails; delete of an adsorbate that still has property rows fails"⟩,
  ⟨.foreignKey "adsorbate_properties" ["type"] "adsorbate_properties_type" ["type"], [``insAdsProp, ``delAdsType],
    "property row of an unknown type fails; delete of a type still in use fails"⟩,
  -- property rows of materials
  ⟨.notNull "material_properties" "value", [``insMatProp], "insert of a property row with value None fails"⟩,
  ⟨.foreignKey "material_properties" ["mat_id"] "materials" ["id"], [``insMatProp, ``delMat],
    "property row of an absent material fails; delete of a material that still has property rows fails"⟩,
  ⟨.foreignKey "material_properties" ["type"] "material_properties_type" ["type"], [``insMatProp, ``delMatType],
    "property row of an unknown type fails; delete of a type still in use fails"⟩,
  -- the three type tables: `insType3`, `insIsoType`
  ⟨.notNull "adsorbate_properties_type" "type", [``insType3], "insert of a type None fails"⟩,
  ⟨.unique "adsorbate_properties_type" ["type"], [``insType3, ``insAdsProp, ``delAdsType], "duplicate type fails; parent key of adsorbate_properties.type"⟩,
  ⟨.notNull "material_properties_type" "type", [``insType3], "insert of a type None fails"⟩,
  ⟨.unique "material_properties_type" ["type"], [``insType3, ``insMatProp, ``delMatType], "duplicate type fails; parent key of material_properties.type"⟩,
  ⟨.notNull "isotherm_type" "type", [``insIsoType], "insert of a type None fails"⟩,
  ⟨.unique "isotherm_type" ["type"], [``insIsoType, ``insIso, ``delIsoType], "duplicate type fails; parent key of isotherms.iso_type"⟩,
  -- isotherms: `insIso`
  ⟨.unique "isotherms" ["id"], [``insIso, ``insIsoProp, ``insIsoData], "second isotherm of the same id fails; parent key of the property and data rows"⟩,
  ⟨.notNull "isotherms" "material", [``insIso], "isotherm without material fails"⟩,
  ⟨.notNull "isotherms" "adsorbate", [``insIso], "isotherm without adsorbate fails"⟩,
  ⟨.notNull "isotherms" "temperature", [``insIso], "isotherm without temperature fails"⟩,
  ⟨.foreignKey "isotherms" ["iso_type"] "isotherm_type" ["type"], [``insIso, ``delIsoType], "isotherm of an unknown class fails; delete of a class still in use fails"⟩,
  ⟨.foreignKey "isotherms" ["material"] "materials" ["name"], [``insIso, ``delMat], "isotherm on an unknown material fails; delete of a material still referenced fails"⟩,
  ⟨.foreignKey "isotherms" ["adsorbate"] "adsorbates" ["name"], [``insIso, ``delAds], "isotherm with an unknown adsorbate fails; delete of an adsorbate still referenced fails"⟩,
  -- rows owned by an isotherm
  ⟨.notNull "isotherm_properties" "value", [``insIsoProp], "metadata entry None fails"⟩,
  ⟨.foreignKey "isotherm_properties" ["iso_id"] "isotherms" ["id"], [``insIsoProp], "metadata row of an absent isotherm fails"⟩,
  ⟨.foreignKey "isotherm_data" ["iso_id"] "isotherms" ["id"], [``insIsoData], "data row of an absent isotherm fails"⟩]

def surrogate : String :=
  "surrogate key: rows are keyed by name in the model; the id is assigned by SQLite (INTEGER PRIMARY KEY AUTOINCREMENT) and never supplied by the module"
def neverNull : String :=
  "the module always binds a value here (the model's argument is a `String`, not an `Option`), so the constraint can never fire"

/-- constraints of the schema that no model statement enforces, with the reason -/
def notModelled : List (Constraint × String) := [
  (.notNull "adsorbates" "id", surrogate), (.unique "adsorbates" ["id"], surrogate),
  (.notNull "materials" "id", surrogate), (.unique "materials" ["id"], surrogate),
  (.notNull "adsorbate_properties" "id", surrogate), (.unique "adsorbate_properties" ["id"], surrogate),
  (.notNull "material_properties" "id", surrogate), (.unique "material_properties" ["id"], surrogate),
  (.notNull "adsorbate_properties_type" "id", surrogate), (.unique "adsorbate_properties_type" ["id"], surrogate),
  (.notNull "material_properties_type" "id", surrogate), (.unique "material_properties_type" ["id"], surrogate),
  (.notNull "isotherm_type" "id", surrogate), (.unique "isotherm_type" ["id"], surrogate),
  (.notNull "isotherm_properties" "id", surrogate), (.unique "isotherm_properties" ["id"], surrogate),
  (.notNull "isotherm_data" "id", surrogate), (.unique "isotherm_data" ["id"], surrogate),
  (.notNull "adsorbate_properties" "ads_id", "lastrowid of the insert, or the id just selected by name: " ++ neverNull),
  (.notNull "adsorbate_properties" "type", "a key of the property dictionary: " ++ neverNull),
  (.notNull "material_properties" "mat_id", "lastrowid of the insert, or the id just selected by name: " ++ neverNull),
  (.notNull "material_properties" "type", "a key of the property dictionary: " ++ neverNull),
  (.notNull "isotherms" "id", "the md5 identifier of the isotherm: " ++ neverNull),
  (.notNull "isotherms" "iso_type", "one of three string literals chosen by isinstance: " ++ neverNull),
  (.notNull "isotherm_properties" "iso_id", "the identifier of the isotherm being uploaded: " ++ neverNull),
  (.notNull "isotherm_properties" "type", "a key of the metadata dictionary: " ++ neverNull),
  (.notNull "isotherm_data" "iso_id", "the identifier of the isotherm being uploaded: " ++ neverNull),
  (.notNull "isotherm_data" "type", "a string literal or a column name of the data frame: " ++ neverNull),
  (.notNull "isotherm_data" "dtype", "a string literal or the result of find_SQL_python_type: " ++ neverNull),
  (.notNull "isotherm_data" "data", "the result of json.dumps: " ++ neverNull)]

/-- column, declared type, NOT NULL, position in the primary key (0 = not part of it), default -/
structure Col where
  name : String
  type : String
  notnull : Bool
  pk : Nat
  dflt : Option String
  deriving DecidableEq, Repr

def idCol : Col := ⟨"id", "INTEGER", true, 1, none⟩

/-- the tables (alphabetical) with their columns in declared order.  REAL is the affinity the harness's value canonicalisation
assumes for property values and temperatures; no column has a default (an omitted column is NULL). -/
def tables : List (String × List Col) := [
  ("adsorbate_properties", [idCol, ⟨"ads_id", "INTEGER", true, 0, none⟩, ⟨"type", "TEXT", true, 0, none⟩, ⟨"value", "REAL", true, 0, none⟩]),
  ("adsorbate_properties_type", [idCol, ⟨"type", "TEXT", true, 0, none⟩, ⟨"unit", "TEXT", false, 0, none⟩, ⟨"description", "TEXT", false, 0, none⟩]),
  ("adsorbates", [idCol, ⟨"name", "TEXT", true, 0, none⟩]),
  ("isotherm_data", [idCol, ⟨"iso_id", "INTEGER", true, 0, none⟩, ⟨"type", "TEXT", true, 0, none⟩, ⟨"dtype", "TEXT", true, 0, none⟩,
                     ⟨"data", "BLOB", true, 0, none⟩]),
  ("isotherm_properties", [idCol, ⟨"iso_id", "INTEGER", true, 0, none⟩, ⟨"type", "TEXT", true, 0, none⟩, ⟨"value", "REAL", true, 0, none⟩]),
  ("isotherm_type", [idCol, ⟨"type", "TEXT", true, 0, none⟩, ⟨"description", "TEXT", false, 0, none⟩]),
  ("isotherms", [⟨"id", "TEXT", true, 1, none⟩, ⟨"iso_type", "TEXT", true, 0, none⟩, ⟨"material", "TEXT", true, 0, none⟩,
                 ⟨"adsorbate", "TEXT", true, 0, none⟩, ⟨"temperature", "REAL", true, 0, none⟩]),
  ("material_properties", [idCol, ⟨"mat_id", "INTEGER", true, 0, none⟩, ⟨"type", "TEXT", true, 0, none⟩, ⟨"value", "REAL", true, 0, none⟩]),
  ("material_properties_type", [idCol, ⟨"type", "TEXT", true, 0, none⟩, ⟨"unit", "TEXT", false, 0, none⟩, ⟨"description", "TEXT", false, 0, none⟩]),
  ("materials", [idCol, ⟨"name", "TEXT", true, 0, none⟩])]

/-- constraint keywords outside NOT NULL / UNIQUE / PRIMARY KEY / FOREIGN KEY that the CREATE text of a table may carry: the surrogate
keys are AUTOINCREMENT (ids are never reused: irrelevant to a model keyed by name); no CHECK, COLLATE, DEFERRABLE, ON CONFLICT, … -/
def extras : List (String × List String) :=
  tables.map fun t => (t.1, if t.1 == "isotherms" then [] else ["AUTOINCREMENT"])

/-- which table and columns each field of the model's `Db` holds (an id column that refers to a parent row is held as the parent's name) -/
def fields : List (Lean.Name × String × List String) := [
  (``Db.ads, "adsorbates", ["name"]),
  (``Db.adsProps, "adsorbate_properties", ["ads_id", "type", "value"]),
  (``Db.adsTypes, "adsorbate_properties_type", ["type", "unit", "description"]),
  (``Db.mats, "materials", ["name"]),
  (``Db.matProps, "material_properties", ["mat_id", "type", "value"]),
  (``Db.matTypes, "material_properties_type", ["type", "unit", "description"]),
  (``Db.isoTypes, "isotherm_type", ["type", "description"]),
  (``Db.isos, "isotherms", ["id", "iso_type", "material", "adsorbate", "temperature"]),
  (``Db.isoProps, "isotherm_properties", ["iso_id", "type", "value"]),
  (``Db.isoData, "isotherm_data", ["iso_id", "type", "dtype", "data"])]

/-- the referential-integrity clauses of `Db.wellFormed` as (child table, child column, parent table, parent column) -/
def wellFormedRefs : List (String × String × String × String) := [
  ("adsorbate_properties", "ads_id", "adsorbates", "id"), ("adsorbate_properties", "type", "adsorbate_properties_type", "type"),
  ("material_properties", "mat_id", "materials", "id"), ("material_properties", "type", "material_properties_type", "type"),
  ("isotherms", "iso_type", "isotherm_type", "type"), ("isotherms", "material", "materials", "name"), ("isotherms", "adsorbate", "adsorbates", "name"),
  ("isotherm_properties", "iso_id", "isotherms", "id"), ("isotherm_data", "iso_id", "isotherms", "id")]

/-- the statement `runOp` issues first on every connection (`writeStmt fun d => .ok d  -- PRAGMA foreign_keys = ON`) -/
def connPragma : String := "pragma foreign_keys = on"

/-- public entry point of parsing/sqlite.py, the model operation (or read) that mirrors it, the tables its statements address
(alphabetical; including the entry points it calls on the shared cursor) -/
def opTables : List (String × Lean.Name × List String) := [
  ("adsorbate_delete_db", ``adsDelete, ["adsorbate_properties", "adsorbates"]),
  ("adsorbate_property_type_delete_db", ``typeDelete, ["adsorbate_properties_type"]),
  ("adsorbate_property_type_to_db", ``typeToDb, ["adsorbate_properties_type"]),
  ("adsorbate_property_types_from_db", ``Db.adsTypes, ["adsorbate_properties_type"]),
  ("adsorbate_to_db", ``adsToDb, ["adsorbate_properties", "adsorbate_properties_type", "adsorbates"]),
  ("adsorbates_from_db", ``Db.ads, ["adsorbate_properties", "adsorbates"]),
  ("isotherm_delete_db", ``isoDelete, ["isotherm_data", "isotherm_properties", "isotherms"]),
  ("isotherm_property_type_delete_db", ``isoPropTypeOp, ["isotherm_properties_type"]),
  ("isotherm_property_type_to_db", ``isoPropTypeOp, ["isotherm_properties_type"]),
  ("isotherm_property_types_from_db", ``isoPropTypeOp, ["isotherm_properties_type"]),
  ("isotherm_to_db", ``isoToDb, ["adsorbate_properties", "adsorbate_properties_type", "adsorbates", "isotherm_data", "isotherm_properties",
                                 "isotherms", "material_properties", "material_properties_type", "materials"]),
  ("isotherm_type_delete_db", ``typeDelete, ["isotherm_type"]),
  ("isotherm_type_to_db", ``typeToDb, ["isotherm_type"]),
  ("isotherm_types_from_db", ``Db.isoTypes, ["isotherm_type"]),
  ("isotherms_from_db", ``Db.isos, ["isotherm_data", "isotherm_properties", "isotherms"]),
  ("material_delete_db", ``matDelete, ["material_properties", "materials"]),
  ("material_property_type_delete_db", ``typeDelete, ["material_properties_type"]),
  ("material_property_type_to_db", ``typeToDb, ["material_properties_type"]),
  ("material_property_types_from_db", ``Db.matTypes, ["material_properties_type"]),
  ("material_to_db", ``matToDb, ["material_properties", "material_properties_type", "materials"]),
  ("materials_from_db", ``Db.mats, ["material_properties", "materials"])]

/-- the entry points modelled as `Op.isoPropTypeOp` (a statement that always fails with an OperationalError): finding S39 -/
def isoPropTypeEntryPoints : List String :=
  (opTables.filter fun e => e.2.1 == ``isoPropTypeOp).map (·.1)

end PgVerif.Spec.Schema
