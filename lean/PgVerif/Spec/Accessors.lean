/-
INDEPENDENT specification of the thermodynamic accessors of `Adsorbate` and of the property getters of `Material`.
Written from CoolProp's SI conventions and from the units pyGAPS documents for each accessor — NOT from the code:

  CoolProp low-level interface (`AbstractState`), all SI:
    molar_mass()  kg/mol      rhomass()  kg/m3      rhomolar()  mol/m3      p()  Pa      hmolar()  J/mol
    surface_tension()  N/m    Ttriple(), T_critical()  K      p_critical()  Pa
    update(QT_INPUTS, Q, T): vapour quality Q (0 = saturated liquid, 1 = saturated vapour) and temperature in K
    update(PQ_INPUTS, p, Q): pressure in Pa and quality
    PropsSI("PTRIPLE", fluid)  Pa
  pyGAPS, as documented in the accessor docstrings:
    molar_mass  g/mol = 1000 · M[kg/mol]
    liquid_density / gas_density  g/cm3 = rhomass[kg/m3] / 1000  at Q = 0 / Q = 1
    liquid_molar_density / gas_molar_density  mol/cm3 = rhomolar[mol/m3] / 1e6  at Q = 0 / Q = 1
    saturation_pressure  "in desired unit (default Pa)" = p at Q = 0, then the pressure unit table
    p_triple, p_critical  Pa ;  t_triple, t_critical  K
    surface_tension  mN/m = 1000 · σ[N/m]  at Q = 0
    enthalpy_vaporisation = enthalpy_liquefaction  kJ/mol = (h_vapour − h_liquid)[J/mol] / 1000  at the given temperature
      (or, when only a pressure is given, at that pressure)
  Dictionary (user-supplied) values are in the documented unit of the accessor, with one exception that is not in any
  docstring but is the convention of the shipped data files (data/adsorbates.json: nitrogen `p_critical` 33.958, `p_triple`
  0.1252): `p_triple` and `p_critical` are stored in bar, hence × 1e5.  A user-supplied enthalpy may be stored under either of the
  two documented keys.

  Control flow required by property C20 ("when the backend cannot provide a value the user-supplied property is returned,
  otherwise a calculation error is raised — never a silent wrong number"): with `calculate=True` the backend value; on ANY
  failure of the backend the dictionary value; a missing dictionary value is a `CalculationError`; with `calculate=False`
  the backend is not touched.

  Deviations of the code from its own docstrings that this table has to follow to stay equal to the generated one
  (each is stated as a theorem with a witness in `Props/C20/Accessors.lean`, and reported):
    (S20) `saturation_pressure(T, unit=u, calculate=False)` returns the stored value unconverted although the docstring says
          "Pressure in unit requested"; with `calculate=True` the unit is honoured on the backend path and on the fallback path;
    (D1)  every docstring lists ``ParameterError`` for "calculation not requested and the property does not exist";
          the code (and the property text) make it a `CalculationError`;
    (D2)  `enthalpy_liquefaction(temp, press)`: the `press` parameter is undocumented; the fallback call drops it (harmless:
          the dictionary path does not use it).
-/
import PgVerif.Model.AccessorDesc
import Mathlib.Algebra.Field.Defs

namespace PgVerif.Spec.Accessors
open PgVerif.Model.Acc

/-! ## the descriptor table -/

/-- dictionary path: `get_prop(key)` scaled into the documented unit; a missing key is a calculation error -/
def fromDict (p : Prog) : Prog := .try_ p ["ParameterError"] (.raise "CalculationError")

/-- backend first; ANY exception of the backend path leads to the dictionary path (`calculate=False`) -/
def backendElseDict (backend : Prog) (fwd : List String) : Prog := .try_ backend ["BaseException"] (.self_ fwd)

/-- the general accessor -/
def accessor (backend : Prog) (fwd : List String) (key : String) (num : Int) (den : Nat) : Prog :=
  .ite .calculate (backendElseDict backend fwd) (fromDict (.prop key num den))

/-- state-independent constant of the fluid -/
def const (getter : String) : Read := ⟨.state, .none, getter⟩
/-- saturated liquid (Q = 0) at the temperature argument -/
def liquidAt (getter : String) : Read := ⟨.state, .QT 0 1, getter⟩
/-- saturated vapour (Q = 1) at the temperature argument -/
def vapourAt (getter : String) : Read := ⟨.state, .QT 1 1, getter⟩
/-- the same two phases at the pressure argument -/
def liquidAtP (getter : String) : Read := ⟨.state, .PQ 0 1, getter⟩
def vapourAtP (getter : String) : Read := ⟨.state, .PQ 1 1, getter⟩

def onlyCalc : List (String × String) := [("calculate", "True")]
def tempCalc : List (String × String) := [("temp", ""), ("calculate", "True")]
def tempUnitCalc : List (String × String) := [("temp", ""), ("unit", "None"), ("calculate", "True")]
def tempPressCalc : List (String × String) := [("temp", "None"), ("press", "None"), ("calculate", "True")]

def adsorbate : List Desc := [
  -- g/mol = 1000 · kg/mol
  ⟨"molar_mass", onlyCalc, .prog (accessor (.lin [⟨1000, 1, const "molar_mass"⟩]) [] "molar_mass" 1 1)⟩,
  -- Pa; dictionary in bar
  ⟨"p_triple", onlyCalc, .prog (accessor (.lin [⟨1, 1, ⟨.propsSI, .none, "PTRIPLE"⟩⟩]) [] "p_triple" 100000 1)⟩,
  ⟨"t_triple", onlyCalc, .prog (accessor (.lin [⟨1, 1, const "Ttriple"⟩]) [] "t_triple" 1 1)⟩,
  ⟨"p_critical", onlyCalc, .prog (accessor (.lin [⟨1, 1, const "p_critical"⟩]) [] "p_critical" 100000 1)⟩,
  ⟨"t_critical", onlyCalc, .prog (accessor (.lin [⟨1, 1, const "T_critical"⟩]) [] "t_critical" 1 1)⟩,
  ⟨"pressure_saturation", tempUnitCalc, .alias "saturation_pressure"⟩,
  -- Pa at Q = 0, then the unit; the unit is applied to the result of the calculating path, whichever source it came from,
  -- and (S20) not at all when `calculate=False` is requested directly
  ⟨"saturation_pressure", tempUnitCalc, .prog (
      .ite .calculate
        (.unitIfGiven (backendElseDict (.lin [⟨1, 1, liquidAt "p"⟩]) ["temp", "unit"]) "pressure" "Pa")
        (fromDict (.prop "saturation_pressure" 1 1)))⟩,
  -- mN/m = 1000 · N/m, liquid side
  ⟨"surface_tension", tempCalc, .prog (accessor (.lin [⟨1000, 1, liquidAt "surface_tension"⟩]) ["temp"] "surface_tension" 1 1)⟩,
  -- g/cm3 = kg/m3 / 1000
  ⟨"liquid_density", tempCalc, .prog (accessor (.lin [⟨1, 1000, liquidAt "rhomass"⟩]) ["temp"] "liquid_density" 1 1)⟩,
  -- mol/cm3 = mol/m3 / 1e6
  ⟨"liquid_molar_density", tempCalc,
    .prog (accessor (.lin [⟨1, 1000000, liquidAt "rhomolar"⟩]) ["temp"] "liquid_molar_density" 1 1)⟩,
  ⟨"gas_density", tempCalc, .prog (accessor (.lin [⟨1, 1000, vapourAt "rhomass"⟩]) ["temp"] "gas_density" 1 1)⟩,
  ⟨"gas_molar_density", tempCalc,
    .prog (accessor (.lin [⟨1, 1000000, vapourAt "rhomolar"⟩]) ["temp"] "gas_molar_density" 1 1)⟩,
  ⟨"enthalpy_vaporisation", tempPressCalc, .alias "enthalpy_liquefaction"⟩,
  -- kJ/mol = (h_vapour − h_liquid) / 1000; exactly one of temperature / pressure
  ⟨"enthalpy_liquefaction", tempPressCalc, .prog (
      .ite .calculate
        (.ite (.and .temp .press) (.raise "CalculationError")
          (backendElseDict
            (.ite .temp (.lin [⟨-1, 1000, liquidAt "hmolar"⟩, ⟨1, 1000, vapourAt "hmolar"⟩])
              (.ite .press (.lin [⟨-1, 1000, liquidAtP "hmolar"⟩, ⟨1, 1000, vapourAtP "hmolar"⟩])
                (.raise "CalculationError")))
            ["temp"]))
        (fromDict
          (.ite (.not (.hasKey "enthalpy_liquefaction")) (.prop "enthalpy_vaporisation" 1 1)
            (.prop "enthalpy_liquefaction" 1 1))))⟩]

/-- `Adsorbate.get_prop` raises `ParameterError` for a missing key; `Material.get_prop` first tries the attribute of that name -/
def getProp : List GetPropDesc := [⟨"Adsorbate", false, "ParameterError"⟩, ⟨"Material", true, "ParameterError"⟩]

/-- `Material.density` (g/cm3) and `Material.molar_mass` (g/mol) are optional: `None` when not supplied, no exception -/
def material : List MatDesc := [⟨"density", .dictGet "density"⟩, ⟨"molar_mass", .dictGet "molar_mass"⟩]

/-! ## the values in the documented units (functional form of the table above) -/

variable {α : Type} [Field α]

/-- g/mol -/
def molarMass (B : Backend α) : Option α := (B .state "molar_mass" .none).map (1000 * ·)
/-- Pa -/
def pTriple (B : Backend α) : Option α := B .propsSI "PTRIPLE" .none
/-- K -/
def tTriple (B : Backend α) : Option α := B .state "Ttriple" .none
/-- Pa -/
def pCritical (B : Backend α) : Option α := B .state "p_critical" .none
/-- K -/
def tCritical (B : Backend α) : Option α := B .state "T_critical" .none
/-- Pa -/
def saturationPressure (B : Backend α) (T : α) : Option α := B .state "p" (.QT 0 T)
/-- mN/m -/
def surfaceTension (B : Backend α) (T : α) : Option α := (B .state "surface_tension" (.QT 0 T)).map (1000 * ·)
/-- g/cm3 -/
def liquidDensity (B : Backend α) (T : α) : Option α := (B .state "rhomass" (.QT 0 T)).map (· / 1000)
/-- mol/cm3 -/
def liquidMolarDensity (B : Backend α) (T : α) : Option α := (B .state "rhomolar" (.QT 0 T)).map (· / 1000000)
/-- g/cm3 -/
def gasDensity (B : Backend α) (T : α) : Option α := (B .state "rhomass" (.QT 1 T)).map (· / 1000)
/-- mol/cm3 -/
def gasMolarDensity (B : Backend α) (T : α) : Option α := (B .state "rhomolar" (.QT 1 T)).map (· / 1000000)
/-- kJ/mol, at a temperature -/
def enthalpyVapT (B : Backend α) (T : α) : Option α :=
  match B .state "hmolar" (.QT 1 T), B .state "hmolar" (.QT 0 T) with
  | some hv, some hl => some ((hv - hl) / 1000)
  | _, _ => none
/-- kJ/mol, at a pressure -/
def enthalpyVapP (B : Backend α) (p : α) : Option α :=
  match B .state "hmolar" (.PQ p 1), B .state "hmolar" (.PQ p 0) with
  | some hv, some hl => some ((hv - hl) / 1000)
  | _, _ => none

/-- user-supplied value in the accessor's unit -/
def user (D : Dict α) (key : String) : Option α := D key
/-- `p_triple` / `p_critical` are stored in bar -/
def userBar (D : Dict α) (key : String) : Option α := (D key).map (· * 100000)
/-- either documented key -/
def userEnthalpy (D : Dict α) : Option α :=
  match D "enthalpy_liquefaction" with
  | some v => some v
  | none => D "enthalpy_vaporisation"

end PgVerif.Spec.Accessors
