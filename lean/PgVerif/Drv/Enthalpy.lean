/-
Driver for Model/Enthalpy.lean:   lake env lean --run PgVerif/Drv/Enthalpy.lean
  whit <pc> <pt> <psat> [n;…] [p|~;…]      the Whittaker loop at ℚ      -> ok [kept loadings] [h_vap pressures]
  pseudo <pc> <T> <Tc>                      pseudo-saturation pressure   -> ok n/d
  init <branch: ads|des|all> [marks 0/1;…] [enthalpies]                  -> ok n/d | none
-/
import PgVerif.Model.Enthalpy
import PgVerif.Drv.Proto
import Mathlib.Algebra.Order.Field.Rat

open PgVerif.Proto PgVerif.Model.Enthalpy

def step (ts : List String) : String :=
  match ts with
  | ["whit", pc, pt, psat, ns, ps] =>
    match parseRat pc, parseRat pt, parseRat psat, ratList ns, (parseList ps).bind (·.mapM optRat) with
    | some pc, some pt, some psat, some ns, some ps =>
      if ns.length ≠ ps.length then "bad-op"
      else
        let r := whitLoop (α := ℚ) pc pt psat (ns.zip ps)
        s!"ok {showRatList (r.map (·.1))} {showRatList (r.map (·.2))}"
    | _, _, _, _, _ => "bad-op"
  | ["pseudo", pc, T, Tc] =>
    match parseRat pc, parseRat T, parseRat Tc with
    | some pc, some T, some Tc => "ok " ++ showRat (pseudoSaturation (α := ℚ) pc T Tc)
    | _, _, _ => "bad-op"
  | ["init", br, marks, hs] =>
    match ratList marks, ratList hs with
    | some marks, some hs =>
      if marks.length ≠ hs.length then "bad-op"
      else
        let rows := (marks.map (· != 0)).zip hs
        let b : Option (Option Bool) := if br = "ads" then some (some false) else if br = "des" then some (some true) else if br = "all" then some none else none
        match b with
        | none => "bad-op"
        | some b =>
          match initialPoint (α := ℚ) rows b with
          | some r => "ok " ++ showRat r
          | none => "none"
    | _, _ => "bad-op"
  | _ => "bad-op"

def main : IO Unit := do loop (← IO.getStdin) step
