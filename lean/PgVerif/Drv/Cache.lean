/-
Driver for Model/Cache.lean (stateful; the hidden state of one session):   lake env lean --run PgVerif/Drv/Cache.lean
  reset                                     fresh hidden state
  L <branch> <kind> <fill> <T|F>            loading_at (F: the interpolator constructor raises for this key) -> use=<key of the interpolator that is evaluated> | use=build-error
  P <branch> <kind> <fill> <T|F>            pressure_at          -> use=<key> | use=build-error
  S <branch> <fill> <T|F> <T|F>             spreading_pressure_at (T: the call ends before the interpolator is consulted — conversion refused, range guard, Henry
                                            region below the first point; F: the constructor raises) -> use=refused | use=<key> | use=build-error
  A <key> <T|F> [pair,v1,v2,name,T|F;...]   calculate=True accessor: dictionary key, key stored?, (update, read, read succeeds?) steps
  C <name> <key> <T|F> <T|F> <T|F>          constant accessor: key stored?, through the state?, constant available?
  K <key> <T|F>                             calculate=False accessor: key stored?
  M <key>                                   load_std_isotherm / _load_kernel request
  sync <l|~> <p|~>                          set the interpolator keys (after a call the model does not describe)
  syncth <~|new|pair,v1,v2>                 set the thermodynamic state (same)
every line answers  <outcome> | l=<b,k,f|~> p=<b,k,f|~> th=<~|new|pair,v1,v2> ld=[k1;k2]
Instantiation: a fill is a `Fill String` — `extrapolate`, a pair `(lo:hi)`, or one value (a number / an array, spelled as the harness
spells it) —, flash coordinates and results are opaque strings (the model is polymorphic in them); the
evaluators return a description of WHAT is evaluated (which interpolator key, which flash), so that the reply states the
model's prediction of the path taken.
-/
import PgVerif.Model.Cache
import PgVerif.Drv.Proto

open PgVerif.Model.Cache PgVerif.Proto

abbrev St := Session.Hid (Fill String) String String String

/-- a fill token of the harness: `~` none, `extrapolate`, `(lo:hi)` a (below, above) pair, anything else one value -/
def parseFill (t : String) : Option (Fill String) :=
  if t == "~" then none
  else if t == "extrapolate" then some .extrapolate
  else if t.startsWith "(" && t.endsWith ")" then
    match ((t.drop 1).dropEnd 1).toString.splitOn ":" with
    | [lo, hi] => some (.pair lo hi)
    | _ => some (.value t)
  else some (.value t)

def showFill (f : Option (Fill String)) : String :=
  match f with
  | none => "~"
  | some .extrapolate => "extrapolate"
  | some (.pair lo hi) => s!"({lo}:{hi})"
  | some (.value v) => v

def showKey (k : Key (Fill String)) : String := s!"{k.branch},{k.kind},{showFill k.fill}"

def showOptKey (k : Option (Key (Fill String))) : String := match k with | none => "~" | some k => showKey k

def parseKey (t : String) : Option (Option (Key (Fill String))) :=
  if t == "~" then some none else
  match t.splitOn "," with
  | [b, k, f] => some (some ⟨b, k, parseFill f⟩)
  | _ => none

def showFlash (f : Thermo.Flash String) : String := s!"{f.pair},{f.v1},{f.v2}"

def showTh (h : Thermo.Hidden String) : String :=
  match h with
  | none => "~"
  | some none => "new"
  | some (some f) => showFlash f

def parseTh (t : String) : Option (Thermo.Hidden String) :=
  if t == "~" then some none else if t == "new" then some (some none) else
  match t.splitOn "," with
  | [p, a, b] => some (some (some ⟨p, a, b⟩))
  | _ => none

def dump (s : St) : String :=
  s!"l={showOptKey s.interp.l} p={showOptKey s.interp.p} th={showTh s.thermo} ld=[{";".intercalate (s.loaded.map (·.1))}]"

def isoWorld (refused buildable : Bool) : World (Fill String) Unit Unit String :=
  { EL := fun _ k _ => showKey k, EP := fun _ k _ => showKey k,
    BL := fun _ _ => if buildable then none else some "build-error",
    BP := fun _ _ => if buildable then none else some "build-error",
    guard := fun _ _ _ => if refused then some "refused" else none,
    S := fun _ _ lq => lq, plain := fun _ n => n }

/-- the adsorbate as the driver sees it: the dictionary (key ↦ marker) -/
abbrev Ads := List (String × String)

def adsWorld (constAvail : Bool) : Thermo.World String Ads String :=
  { F := fun _ f name => if name.endsWith "!fail" then none else some (showFlash f ++ "," ++ name),
    K := fun _ name => if constAvail then some ("const," ++ name) else none,
    dict := fun o key => o.lookup key,
    comb := fun l => "+".intercalate l,
    policy := Thermo.alwaysUpdate }

def world (refused constAvail : Bool) (buildable : Bool := true) : Session.World (Fill String) String Unit Ads Unit String String String String :=
  { iso := isoWorld refused buildable, ads := adsWorld constAvail, keyOf := id, loader := fun r => "loaded:" ++ r }

def showRes (r : Session.Res String String) : String :=
  match r with
  | .val v => "use=" ++ v
  | .out (.ok v) => "ok " ++ v
  | .out .calcErr => "calcErr"
  | .obj v => "obj=" ++ v

def parseStep (t : String) : Option (Thermo.Flash String × String) :=
  match t.splitOn "," with
  | [p, a, b, name, ok] => some (⟨p, a, b⟩, if ok == "T" then name else name ++ "!fail")
  | _ => none

def exec (st : St) (refused constAvail : Bool) (ads : Ads) (q : Session.Query (Fill String) String Unit String) (buildable : Bool := true) : St × String :=
  let r := Session.step (world refused constAvail buildable) ⟨(), ads⟩ st q
  (r.2.2, showRes r.1 ++ " | " ++ dump r.2.2)

def adsOf (key : String) (stored : Bool) : Ads := if stored then [(key, "dict," ++ key)] else []

def stepLine (st : St) (ts : List String) : St × String :=
  match ts with
  | ["reset"] => (Session.fresh, "ok | " ++ dump (Session.fresh : St))
  | ["L", b, k, f, ok] =>
    match parseBool ok with
    | some ok => exec st false true [] (.iso (.loadingAt ⟨b, k, parseFill f⟩ ())) ok
    | none => (st, "bad-op")
  | ["P", b, k, f, ok] =>
    match parseBool ok with
    | some ok => exec st false true [] (.iso (.pressureAt ⟨b, k, parseFill f⟩ ())) ok
    | none => (st, "bad-op")
  | ["S", b, f, r, ok] =>
    match parseBool r, parseBool ok with
    | some r, some ok => exec st r true [] (.iso (.spreadingAt b (parseFill f) ())) ok
    | _, _ => (st, "bad-op")
  | ["A", key, stored, steps] =>
    match parseBool stored, (parseList steps).bind (·.mapM parseStep) with
    | some stored, some steps => exec st false true (adsOf key stored) (.ads (.flashes steps key))
    | _, _ => (st, "bad-op")
  | ["C", name, key, stored, via, avail] =>
    match parseBool stored, parseBool via, parseBool avail with
    | some stored, some via, some avail => exec st false avail (adsOf key stored) (.ads (.const name key via))
    | _, _, _ => (st, "bad-op")
  | ["K", key, stored] =>
    match parseBool stored with
    | some stored => exec st false true (adsOf key stored) (.ads (.lookup key))
    | none => (st, "bad-op")
  | ["M", key] => exec st false true [] (.std key)
  | ["sync", l, p] =>
    match parseKey l, parseKey p with
    | some l, some p => let s' : St := { st with interp := ⟨l, p⟩ }; (s', "ok | " ++ dump s')
    | _, _ => (st, "bad-op")
  | ["syncth", t] =>
    match parseTh t with
    | some t => let s' : St := { st with thermo := t }; (s', "ok | " ++ dump s')
    | none => (st, "bad-op")
  | _ => (st, "bad-op")

def main : IO Unit := do
  loopS (← IO.getStdin) stepLine (Session.fresh : St)
