/-
Driver for `Model/Units.lean` + `Model/UnitsObj.lean` at α = ℚ:   lake env lean --run PgVerif/Drv/Units.lean
Every line is parsed into one `Req ℚ` and answered with `Req.run` (a function of the line alone).
  cP <psat|~> <T|F> <v> <mf> <mt> <uf> <ut>
  cL <7 env values: gasDensity liquidDensity molarMass gasMolarDensity liquidMolarDensity matDensity matMolarMass> <v> <bf> <bt> <uf> <ut> <bm> <um>
  cM <7 env> <v> <bf> <bt> <uf> <ut>
  cT <v> <uf> <ut>
  cU <table: pressure|molar|mass|volume> <v> <uf> <ut> <sign: 1|-1>          c_unit on a named table
  cS <psat|~> <unit>                                                        Adsorbate.saturation_pressure(T, unit)
  cMo <v> <bf> <bt> <uf> <ut> <op>*        c_material with a Material object described by its history of
                                           operations  K:<key>:<v> (constructor keyword)  S:<key>:<v|~> (setter)
  mG <key> <op>*                           Material.get_prop(key)  ->  ok <v> | ok ~ | err param
Requests that state a temperature (`Model/UnitsThermo.lean`, `TReq.run`): the adsorbate is a finite table
  <tbl> = <n> (<T> <psat> <gasDensity> <liquidDensity> <molarMass> <gasMolarDensity> <liquidMolarDensity>)*n      (`~` = no value)
and the constants are the entry whose key EQUALS the stated temperature (no entry: nothing can be calculated)
  tP <tbl> <T> <v> <mf> <mt> <uf> <ut>                                    c_pressure(..., adsorbate, temp=T)
  tL <tbl> <matDensity> <matMolarMass> <T> <v> <bf> <bt> <uf> <ut> <bm> <um>   c_loading(..., adsorbate, temp=T, bm, um)
  tS <tbl> <T> <unit>                                                     adsorbate.saturation_pressure(T, unit)
  tQ <tbl> <T> <gas_density|liquid_density|molar_mass|gas_molar_density|liquid_molar_density>     the accessor at T
-/
import PgVerif.Model.UnitsThermo
import PgVerif.Drv.Proto
import Mathlib.Algebra.Order.Field.Rat

open PgVerif.Model PgVerif.Gen PgVerif.Proto

def showRes (r : Except Err ℚ) : String :=
  match r with
  | .ok q => "ok " ++ showRat q
  | .error e => "err " ++ e.name

def mkEnv (l : List (Option Rat)) : Option (Env ℚ) :=
  match l with
  | [a, b, c, d, e, f, g] => some fun q =>
    match q with
    | .gasDensity => a | .liquidDensity => b | .molarMass => c | .gasMolarDensity => d
    | .liquidMolarDensity => e | .matDensity => f | .matMolarMass => g
  | _ => none

def parseOp (t : String) : Option (MatOp ℚ) :=
  match t.splitOn ":" with
  | ["K", k, v] => (parseRat v).map fun x => MatOp.kw k x
  | ["S", k, v] => (optRat v).map fun x => MatOp.set k x
  | _ => none

def parseSign (t : String) : Option Int :=
  if t == "1" then some 1 else if t == "-1" then some (-1) else none

def parseReq (ts : List String) : Option (Req ℚ) :=
  match ts with
  | ["cP", ps, t, v, mf, mt, uf, ut] => do
    let ps ← optRat ps; let t ← parseBool t; let v ← parseRat v
    pure (.pressure ps t v (optStr mf) (optStr mt) (optStr uf) (optStr ut))
  | "cL" :: e1 :: e2 :: e3 :: e4 :: e5 :: e6 :: e7 :: [v, bf, bt, uf, ut, bm, um] => do
    let env ← ([e1, e2, e3, e4, e5, e6, e7].mapM optRat).bind mkEnv; let v ← parseRat v
    pure (.loading env v (optStr bf) (optStr bt) (optStr uf) (optStr ut) (optStr bm) (optStr um))
  | "cM" :: e1 :: e2 :: e3 :: e4 :: e5 :: e6 :: e7 :: [v, bf, bt, uf, ut] => do
    let env ← ([e1, e2, e3, e4, e5, e6, e7].mapM optRat).bind mkEnv; let v ← parseRat v
    pure (.material env v (optStr bf) (optStr bt) (optStr uf) (optStr ut))
  | ["cT", v, uf, ut] => do
    let v ← parseRat v
    pure (.temperature v (optStr uf) (optStr ut))
  | ["cU", tbl, v, uf, ut, sg] => do
    let v ← parseRat v; let sg ← parseSign sg
    if tbl ∈ ["pressure", "molar", "mass", "volume"] then pure (.unit tbl v (optStr uf) (optStr ut) sg) else none
  | ["cS", ps, u] => do
    let ps ← optRat ps
    pure (.satp ps (optStr u))
  | "cMo" :: v :: bf :: bt :: uf :: ut :: ops => do
    let v ← parseRat v; let ops ← ops.mapM parseOp
    pure (.materialObj ops v (optStr bf) (optStr bt) (optStr uf) (optStr ut))
  | _ => none

def parsePoint (l : List String) : Option (ℚ × ThermoPoint ℚ) :=
  match l with
  | [t, a, b, c, d, e, f] => do
    let t ← parseRat t
    let a ← optRat a; let b ← optRat b; let c ← optRat c; let d ← optRat d; let e ← optRat e; let f ← optRat f
    pure (t, ⟨a, b, c, d, e, f⟩)
  | _ => none

def parsePoints : Nat → List String → Option (List (ℚ × ThermoPoint ℚ) × List String)
  | 0, ts => some ([], ts)
  | n + 1, ts =>
    if ts.length < 7 then none else do
      let p ← parsePoint (ts.take 7)
      let (ps, rest) ← parsePoints n (ts.drop 7)
      pure (p :: ps, rest)

def parseQty (t : String) : Option Qty :=
  match t with
  | "gas_density" => some .gasDensity | "liquid_density" => some .liquidDensity | "molar_mass" => some .molarMass
  | "gas_molar_density" => some .gasMolarDensity | "liquid_molar_density" => some .liquidMolarDensity
  | _ => none

/-- a request that states a temperature, with the table it is asked of -/
def parseTReq (op : String) (ts : List String) : Option (Thermo ℚ × TReq ℚ) :=
  match ts with
  | n :: ts => do
    let n ← n.toNat?
    let (tbl, rest) ← parsePoints n ts
    let B := Thermo.ofTable tbl
    match op, rest with
    | "tP", [t, v, mf, mt, uf, ut] => do
      let t ← parseRat t; let v ← parseRat v
      pure (B, .pressure t v (optStr mf) (optStr mt) (optStr uf) (optStr ut))
    | "tL", [md, mm, t, v, bf, bt, uf, ut, bm, um] => do
      let md ← optRat md; let mm ← optRat mm; let t ← parseRat t; let v ← parseRat v
      let mat : Env ℚ := fun q => match q with | .matDensity => md | .matMolarMass => mm | _ => none
      pure (B, .loading t mat v (optStr bf) (optStr bt) (optStr uf) (optStr ut) (optStr bm) (optStr um))
    | "tS", [t, u] => do
      let t ← parseRat t
      pure (B, .satp t (optStr u))
    | "tQ", [t, q] => do
      let t ← parseRat t; let q ← parseQty q
      pure (B, .quantity t q)
    | _, _ => none
  | _ => none

def step (ts : List String) : String :=
  match ts with
  | "tP" :: r | "tL" :: r | "tS" :: r | "tQ" :: r =>
    match parseTReq (ts.headD "") r with
    | some (B, q) => showRes (q.run B)
    | none => "bad-op"
  | "mG" :: k :: ops =>
    match ops.mapM parseOp with
    | some ops =>
      match matGetProp (matProps ops) k with
      | .ok (some x) => "ok " ++ showRat x
      | .ok none => "ok ~"
      | .error e => "err " ++ e.name
    | none => "bad-op"
  | _ =>
    match parseReq ts with
    | some r => showRes r.run
    | none => "bad-op"

def main : IO Unit := do loop (← IO.getStdin) step
