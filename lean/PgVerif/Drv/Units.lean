/-
Driver for `Model/Units.lean` at α = ℚ:   lake env lean --run PgVerif/Drv/Units.lean
  cP <psat|~> <T|F> <v> <mf> <mt> <uf> <ut>
  cL <7 env values: gasDensity liquidDensity molarMass gasMolarDensity liquidMolarDensity matDensity matMolarMass> <v> <bf> <bt> <uf> <ut> <bm> <um>
  cM <7 env> <v> <bf> <bt> <uf> <ut>
  cT <v> <uf> <ut>
-/
import PgVerif.Model.Units
import PgVerif.Drv.Proto
import Mathlib.Algebra.Order.Field.Rat

open PgVerif.Model PgVerif.Gen PgVerif.Proto

def showRes (r : Except Err ℚ) : String :=
  match r with
  | .ok q => "ok " ++ showRat q
  | .error e => "err " ++ e.name

def mkEnv (l : List (Option Rat)) : Option (Env ℚ) :=
  match l with
  | [a, b, c, d, e, f, g] => some fun q =>
    match q with
    | .gasDensity => a | .liquidDensity => b | .molarMass => c | .gasMolarDensity => d
    | .liquidMolarDensity => e | .matDensity => f | .matMolarMass => g
  | _ => none

def step (ts : List String) : String :=
  match ts with
  | ["cP", ps, t, v, mf, mt, uf, ut] =>
    match optRat ps, parseBool t, parseRat v with
    | some ps, some t, some v => showRes (cPressure ps t v (optStr mf) (optStr mt) (optStr uf) (optStr ut))
    | _, _, _ => "bad-op"
  | "cL" :: e1 :: e2 :: e3 :: e4 :: e5 :: e6 :: e7 :: [v, bf, bt, uf, ut, bm, um] =>
    match ([e1, e2, e3, e4, e5, e6, e7].mapM optRat).bind mkEnv, parseRat v with
    | some env, some v =>
      showRes (cLoading env v (optStr bf) (optStr bt) (optStr uf) (optStr ut) (optStr bm) (optStr um))
    | _, _ => "bad-op"
  | "cM" :: e1 :: e2 :: e3 :: e4 :: e5 :: e6 :: e7 :: [v, bf, bt, uf, ut] =>
    match ([e1, e2, e3, e4, e5, e6, e7].mapM optRat).bind mkEnv, parseRat v with
    | some env, some v => showRes (cMaterial env v (optStr bf) (optStr bt) (optStr uf) (optStr ut))
    | _, _ => "bad-op"
  | ["cT", v, uf, ut] =>
    match parseRat v with
    | some v => showRes (cTemperature v (optStr uf) (optStr ut))
    | none => "bad-op"
  | _ => "bad-op"

def main : IO Unit := do loop (← IO.getStdin) step
