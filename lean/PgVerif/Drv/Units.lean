/-
Driver for `Model/Units.lean` + `Model/UnitsObj.lean` at α = ℚ:   lake env lean --run PgVerif/Drv/Units.lean
Every line is parsed into one `Req ℚ` and answered with `Req.run` (a function of the line alone).
  cP <psat|~> <T|F> <v> <mf> <mt> <uf> <ut>
  cL <7 env values: gasDensity liquidDensity molarMass gasMolarDensity liquidMolarDensity matDensity matMolarMass> <v> <bf> <bt> <uf> <ut> <bm> <um>
  cM <7 env> <v> <bf> <bt> <uf> <ut>
  cT <v> <uf> <ut>
  cU <table: pressure|molar|mass|volume> <v> <uf> <ut> <sign: 1|-1>          c_unit on a named table
  cS <psat|~> <unit>                                                        Adsorbate.saturation_pressure(T, unit)
  cMo <v> <bf> <bt> <uf> <ut> <op>*        c_material with a Material object described by its history of
                                           operations  K:<key>:<v> (constructor keyword)  S:<key>:<v|~> (setter)
  mG <key> <op>*                           Material.get_prop(key)  ->  ok <v> | ok ~ | err param
-/
import PgVerif.Model.UnitsObj
import PgVerif.Drv.Proto
import Mathlib.Algebra.Order.Field.Rat

open PgVerif.Model PgVerif.Gen PgVerif.Proto

def showRes (r : Except Err ℚ) : String :=
  match r with
  | .ok q => "ok " ++ showRat q
  | .error e => "err " ++ e.name

def mkEnv (l : List (Option Rat)) : Option (Env ℚ) :=
  match l with
  | [a, b, c, d, e, f, g] => some fun q =>
    match q with
    | .gasDensity => a | .liquidDensity => b | .molarMass => c | .gasMolarDensity => d
    | .liquidMolarDensity => e | .matDensity => f | .matMolarMass => g
  | _ => none

def parseOp (t : String) : Option (MatOp ℚ) :=
  match t.splitOn ":" with
  | ["K", k, v] => (parseRat v).map fun x => MatOp.kw k x
  | ["S", k, v] => (optRat v).map fun x => MatOp.set k x
  | _ => none

def parseSign (t : String) : Option Int :=
  if t == "1" then some 1 else if t == "-1" then some (-1) else none

def parseReq (ts : List String) : Option (Req ℚ) :=
  match ts with
  | ["cP", ps, t, v, mf, mt, uf, ut] => do
    let ps ← optRat ps; let t ← parseBool t; let v ← parseRat v
    pure (.pressure ps t v (optStr mf) (optStr mt) (optStr uf) (optStr ut))
  | "cL" :: e1 :: e2 :: e3 :: e4 :: e5 :: e6 :: e7 :: [v, bf, bt, uf, ut, bm, um] => do
    let env ← ([e1, e2, e3, e4, e5, e6, e7].mapM optRat).bind mkEnv; let v ← parseRat v
    pure (.loading env v (optStr bf) (optStr bt) (optStr uf) (optStr ut) (optStr bm) (optStr um))
  | "cM" :: e1 :: e2 :: e3 :: e4 :: e5 :: e6 :: e7 :: [v, bf, bt, uf, ut] => do
    let env ← ([e1, e2, e3, e4, e5, e6, e7].mapM optRat).bind mkEnv; let v ← parseRat v
    pure (.material env v (optStr bf) (optStr bt) (optStr uf) (optStr ut))
  | ["cT", v, uf, ut] => do
    let v ← parseRat v
    pure (.temperature v (optStr uf) (optStr ut))
  | ["cU", tbl, v, uf, ut, sg] => do
    let v ← parseRat v; let sg ← parseSign sg
    if tbl ∈ ["pressure", "molar", "mass", "volume"] then pure (.unit tbl v (optStr uf) (optStr ut) sg) else none
  | ["cS", ps, u] => do
    let ps ← optRat ps
    pure (.satp ps (optStr u))
  | "cMo" :: v :: bf :: bt :: uf :: ut :: ops => do
    let v ← parseRat v; let ops ← ops.mapM parseOp
    pure (.materialObj ops v (optStr bf) (optStr bt) (optStr uf) (optStr ut))
  | _ => none

def step (ts : List String) : String :=
  match ts with
  | "mG" :: k :: ops =>
    match ops.mapM parseOp with
    | some ops =>
      match matGetProp (matProps ops) k with
      | .ok (some x) => "ok " ++ showRat x
      | .ok none => "ok ~"
      | .error e => "err " ++ e.name
    | none => "bad-op"
  | _ =>
    match parseReq ts with
    | some r => showRes r.run
    | none => "bad-op"

def main : IO Unit := do loop (← IO.getStdin) step
