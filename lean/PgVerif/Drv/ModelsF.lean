/-
Driver for the generated Float copies of the model equations (translator validation and correspondence):
   lake env lean --run PgVerif/Drv/ModelsF.lean
   ev <Model> <fn> [<bits>;<bits>;…] <bits>     doubles as decimal UInt64 bit patterns   ->  ok <bits> | none
-/
import PgVerif.Gen.ModelsF
import PgVerif.Drv.Proto

open PgVerif.Proto

def fOfBits (t : String) : Option Float := t.toNat?.map fun n => Float.ofBits n.toUInt64

def step (ts : List String) : String :=
  match ts with
  | ["ev", m, f, ps, x] =>
    match (parseList ps).bind (·.mapM fOfBits), fOfBits x with
    | some ps, some x =>
      match PgVerif.Gen.F.evalModel m f ps x with
      | some r => s!"ok {r.toBits.toNat}"
      | none => "none"
    | _, _ => "bad-op"
  | _ => "bad-op"

def main : IO Unit := do loop (← IO.getStdin) step
