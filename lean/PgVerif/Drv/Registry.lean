/-
Driver for Model/Registry.lean:   lake env lean --run PgVerif/Drv/Registry.lean
  find <hex of the UTF-8 bytes of the query string>      -> ok <hex of the adsorbate name> | none
  selfcheck                                               -> ok <n aliases>  (the generated keys are `encode` of the generated alias strings) | mismatch …
  prop <T|F> <backend n/d | ~> <user n/d | ~>             -> ok n/d | err calc
 string level (Model/Registry `ctorAlias`, `findS`, `designated` at `String.toLower`); a string travels as `x` + hex of its UTF-8 bytes:
  ctor <name> <n | s | l> <alias>*                        -> ok <stored alias>*      (n = no alias argument, s = one string, l = a list)
  bfind <query> (<name> <n | s | l> <count> <alias>*count)*  -> ok <name of the entry found> <how many entries the query designates> | none 0
                                                             (registry = one constructed adsorbate per entry, in order)
-/
import PgVerif.Model.Registry
import PgVerif.Drv.Proto

open PgVerif.Model.Registry PgVerif.Gen.Registry PgVerif.Proto

def hexVal (c : Char) : Option Nat :=
  if '0' ≤ c ∧ c ≤ '9' then some (c.toNat - '0'.toNat)
  else if 'a' ≤ c ∧ c ≤ 'f' then some (c.toNat - 'a'.toNat + 10) else none

def unhex (s : String) : Option String :=
  let rec go : List Char → ByteArray → Option ByteArray
    | [], acc => some acc
    | [_], _ => none
    | a :: b :: t, acc => do
      let x ← hexVal a
      let y ← hexVal b
      go t (acc.push (x * 16 + y).toUInt8)
  (go s.toList ByteArray.empty).bind String.fromUTF8?

def hexOf (s : String) : String :=
  let d := "0123456789abcdef".toList
  String.ofList (s.toUTF8.toList.flatMap fun b => [d.getD (b.toNat / 16) '0', d.getD (b.toNat % 16) '0'])

def unx (t : String) : Option String :=
  if t.startsWith "x" then unhex (t.drop 1).toString else none

def xOf (s : String) : String := "x" ++ hexOf s

/-- the `alias` argument of the constructor: `n` = absent, `s a` = a string (a one-element list for the model), `l a*` = a list -/
def aliasArg (kind : String) (as : List String) : Option (Option (List String)) :=
  match kind, as with
  | "n", [] => some none
  | "s", [a] => (unx a).map fun a => some [a]
  | "l", as => (as.mapM unx).map some
  | _, _ => none

/-- entries `<name> <kind> <count> <alias>*count` … -/
partial def parseEntries (ts : List String) (acc : List (String × Option (List String))) :
    Option (List (String × Option (List String))) :=
  match ts with
  | [] => some acc.reverse
  | n :: k :: c :: rest =>
    match unx n, c.toNat? with
    | some n, some c =>
      if rest.length < c then none else
      match aliasArg k (rest.take c) with
      | some al => parseEntries (rest.drop c) ((n, al) :: acc)
      | none => none
    | _, _ => none
  | _ => none

def step (ts : List String) : String :=
  match ts with
  | "ctor" :: n :: k :: as =>
    match unx n, aliasArg k as with
    | some n, some al => " ".intercalate ("ok" :: (ctorAlias String.toLower n al).map xOf)
    | _, _ => "bad-op"
  | "bfind" :: q :: es =>
    match unx q, parseEntries es [] with
    | some q, some entries =>
      let reg := build String.toLower entries
      match findS String.toLower reg q with
      | some n => s!"ok {xOf n} {(designated String.toLower reg q).length}"
      | none => s!"none {(designated String.toLower reg q).length}"
    | _, _ => "bad-op"
  | ["find", h] =>
    match unhex h with
    | some s =>
      match find dbKeys (encode s.toLower) with
      | some n => "ok " ++ hexOf n
      | none => "none"
    | none => "bad-op"
  | ["selfcheck"] =>
    let bad := (List.zip dbKeys dbAliases).filter fun (k, a) => k.1 != a.1 || k.2 != a.2.map encode
    let badN := (List.zip dbKeys dbNameKeys).filter fun (k, n) => encode k.1.toLower != n
    if bad.isEmpty && badN.isEmpty && dbKeys.length == dbAliases.length then s!"ok {(allKeys dbKeys).length}"
    else s!"mismatch {bad.length} {badN.length}"
  | ["prop", c, b, u] =>
    match parseBool c, optRat b, optRat u with
    | some c, some b, some u =>
      match propValue c b u with
      | .ok v => "ok " ++ showRat v
      | .error _ => "err calc"
    | _, _, _ => "bad-op"
  | _ => "bad-op"

def main : IO Unit := do loop (← IO.getStdin) step
