/-
Driver for Model/Fit.lean at ℚ:   lake env lean --run PgVerif/Drv/Fit.lean
  rmse2 [residuals] range      -> ok n/d          (square of the reported error)
  vrmse2 [residuals]           -> ok n/d          (Virial)
  clamp lo hi v                -> ok n/d          (`~` = infinite bound)
  best [errors]                -> ok i | none
  guess [e0;~;e2;…]            -> ok i | none     (candidates in the order tried, `~` = fit refused; i = position of the one returned)
  branch [b0;b1;…] b           -> ok [indices]
  start [defaults] [u0;~;u2;…] -> ok [x0]         (start vector of a fit: default guesses, caller's guesses with `~` = key absent)
-/
import PgVerif.Model.Fit
import PgVerif.Drv.Proto
import Mathlib.Algebra.Order.Field.Rat

open PgVerif.Proto PgVerif.Model.Fit

def step (ts : List String) : String :=
  match ts with
  | ["rmse2", rs, range] =>
    match ratList rs, parseRat range with
    | some rs, some range => "ok " ++ showRat (rmseSq (α := ℚ) rs range)
    | _, _ => "bad-op"
  | ["vrmse2", rs] =>
    match ratList rs with
    | some rs => "ok " ++ showRat (rmseSqVirial (α := ℚ) rs)
    | none => "bad-op"
  | ["clamp", lo, hi, v] =>
    match optRat lo, optRat hi, parseRat v with
    | some lo, some hi, some v => "ok " ++ showRat (clamp (α := ℚ) lo hi v)
    | _, _, _ => "bad-op"
  | ["best", es] =>
    match ratList es with
    | some es =>
      match bestIdx (α := ℚ) es with
      | some i => s!"ok {i}"
      | none => "none"
    | none => "bad-op"
  | ["guess", cs] =>
    match (parseList cs).bind (·.mapM optRat) with
    | some cs =>
      match guessIdx (α := ℚ) cs with
      | some i => s!"ok {i}"
      | none => "none"
    | none => "bad-op"
  | ["branch", bs, b] =>
    match (parseList bs).bind (·.mapM String.toNat?), b.toNat? with
    | some bs, some b =>
      let rows := (List.range bs.length).zip bs
      "ok [" ++ ";".intercalate ((selectBranch rows b).map toString) ++ "]"
    | _, _ => "bad-op"
  | ["start", ds, us] =>
    match ratList ds, (parseList us).bind (·.mapM optRat) with
    | some ds, some us => "ok " ++ showRatList (startGuess ds us)
    | _, _ => "bad-op"
  | _ => "bad-op"

def main : IO Unit := do loop (← IO.getStdin) step
