/-
Driver for Model/Kernel.lean at ℚ:   lake env lean --run PgVerif/Drv/Kernel.lean
  kl [row1] [row2] … | [x]          -> ok [kernel loading]        (rows separated by blanks, `|` before x)
  ss [row1] … | [loading] [x]       -> ok n/d                      (objective)
  dist [x] [widths]                 -> ok [raw distribution] [cumulative of it]
  cum [dist] [widths]               -> ok [cumulative]
  bs degree m [xs] [ys]             -> ok [smoothed xs] [smoothed ys]   (m samples of the open B-spline; `bad-span` when a query has no knot span)
-/
import PgVerif.Model.Kernel
import PgVerif.Drv.Proto
import Mathlib.Algebra.Order.Field.Rat

open PgVerif.Proto PgVerif.Model.Kernel

def splitBar (ts : List String) : List String × List String :=
  (ts.takeWhile (· ≠ "|"), (ts.dropWhile (· ≠ "|")).drop 1)

def step (ts : List String) : String :=
  match ts with
  | "kl" :: rest =>
    let (rows, tail) := splitBar rest
    match rows.mapM ratList, tail with
    | some K, [x] =>
      match ratList x with
      | some x => "ok " ++ showRatList (kernelLoading (α := ℚ) K x)
      | none => "bad-op"
    | _, _ => "bad-op"
  | "ss" :: rest =>
    let (rows, tail) := splitBar rest
    match rows.mapM ratList, tail with
    | some K, [l, x] =>
      match ratList l, ratList x with
      | some l, some x => "ok " ++ showRat (sumSquares (α := ℚ) K l x)
      | _, _ => "bad-op"
    | _, _ => "bad-op"
  | ["dist", x, w] =>
    match ratList x, ratList w with
    | some x, some w => let d := rawDist (α := ℚ) x w; s!"ok {showRatList d} {showRatList (cumVol d w)}"
    | _, _ => "bad-op"
  | ["cum", d, w] =>
    match ratList d, ratList w with
    | some d, some w => "ok " ++ showRatList (cumVol (α := ℚ) d w)
    | _, _ => "bad-op"
  | ["bs", d, m, xs, ys] =>
    match d.toNat?, m.toNat?, ratList xs, ratList ys with
    | some d, some m, some xs, some ys =>
      if xs.length ≠ ys.length ∨ xs.length < 2 ∨ m < 2 ∨ d = 0 then "bad-op" else
      -- the hypotheses of `bsplineAt_mem_Icc` are checked on every query: knot k ≤ x ≤ knot (k+1), knot k < knot (k+1), p ≤ k
      let n := xs.length
      let p := clipDegree d n
      let ok := (List.range m).all fun i =>
        let x : ℚ := query n p m i
        let k := span n p x
        decide (p ≤ k ∧ k + 1 ≤ n ∧ (knot n p k : ℚ) ≤ x ∧ x ≤ knot n p (k + 1) ∧ (knot n p k : ℚ) < knot n p (k + 1))
      if !ok then "bad-span" else
      let c := bsplineCurve (α := ℚ) d m xs ys
      s!"ok {showRatList (c.map (·.1))} {showRatList (c.map (·.2))}"
    | _, _, _, _ => "bad-op"
  | _ => "bad-op"

def main : IO Unit := do loop (← IO.getStdin) step
