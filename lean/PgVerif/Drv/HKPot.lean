/-
Driver for Model/HKPot.lean at α = ℚ:   lake env lean --run PgVerif/Drv/HKPot.lean
  pot  <kind> [pi;N_over_RT;n_ads;a_ads;n_mat;a_mat;d_ads;d_mat] <l> [asin populations]   -> ok <m> <e> | bad-op
  potq <kind> [ … ] <l> [ … ]                                                             -> ok n/d     | bad-op
  layers [ … ] <l>                                                                        -> ok <n_layers> <int(l*25)>
  coeff <c> <k>                                                                           -> ok n/d      (cached coefficient, closed recursion)
  cached <c> <k>                                                                          -> ok n/d | none  (entry k of the caching loop with range(1, 2000))
kind ∈ hkcyl | hksph | ryslit | rycyl | rysph.  All arguments are exact rationals, the potential is evaluated exactly;
`potq` prints it in full, `pot` prints the exact value truncated to 96 significant bits: the integers m, e with
m = ⌊v · 2^(−e)⌋ (series of several hundred terms give rationals of > 10⁵ digits).
-/
import PgVerif.Model.HKPot
import PgVerif.Drv.Proto
import Mathlib.Algebra.Order.Field.Rat
import Mathlib.Data.Rat.Floor

open PgVerif.Proto PgVerif.Model.HKPot

/-- the two caches, evaluated once -/
def aKsQ : List ℚ := aKs
def bKsQ : List ℚ := bKs

def mkParams : List ℚ → Option (Params ℚ)
  | [pi, nrt, nAds, aAds, nMat, aMat, dAds, dMat] => some ⟨pi, nrt, nAds, aAds, nMat, aMat, dAds, dMat⟩
  | _ => none

def evalPot (kind : String) (P : Params ℚ) (l : ℚ) (pops : List ℚ) : Option ℚ :=
  if kind = "hkcyl" then some (hkCylinderWith aKsQ bKsQ P l)
  else if kind = "hksph" then some (hkSphere P l)
  else if kind = "ryslit" then some (rySlit P l)
  else if kind = "rycyl" then some (ryCylinderWith aKsQ bKsQ P pops l)
  else if kind = "rysph" then some (rySphere P l)
  else none

/-- `m = ⌊q · 2^(-e)⌋` with about `bits` significant bits -/
def dyadic (q : ℚ) (bits : Nat := 96) : Int × Int :=
  if q.num = 0 then (0, 0) else
  let s : Int := (bits : Int) - ((q.num.natAbs.log2 : Int) - (q.den.log2 : Int))
  let m : Int := if 0 ≤ s then Int.fdiv (q.num * (2 : Int) ^ s.toNat) q.den else Int.fdiv q.num (q.den * (2 : Int) ^ (-s).toNat)
  (m, -s)

def step (ts : List String) : String :=
  match ts with
  | [op, kind, ps, l, pops] =>
    if op ≠ "pot" ∧ op ≠ "potq" then "bad-op" else
    match (ratList ps).bind mkParams, parseRat l, ratList pops with
    | some P, some l, some pops =>
      match evalPot kind P l pops with
      | some v => if op = "potq" then "ok " ++ showRat v else let (m, e) := dyadic v; s!"ok {m} {e}"
      | none => "bad-op"
    | _, _, _ => "bad-op"
  | ["layers", ps, l] =>
    match (ratList ps).bind mkParams, parseRat l with
    | some P, some l => s!"ok {ryLayers P l} {pyInt (l * 25)}"
    | _, _ => "bad-op"
  | ["coeff", c, k] =>
    match parseRat c, k.toNat? with
    | some c, some k => "ok " ++ showRat (coeff c k)
    | _, _ => "bad-op"
  | ["cached", c, k] =>
    match parseRat c, k.toNat? with
    | some c, some k =>
      match (cache c 2000)[k]? with
      | some v => "ok " ++ showRat v
      | none => "none"
    | _, _ => "bad-op"
  | _ => "bad-op"

def main : IO Unit := do loop (← IO.getStdin) step
