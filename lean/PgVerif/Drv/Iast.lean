/-
Driver for Model/Iast.lean at ℚ:   lake env lean --run PgVerif/Drv/Iast.lean
  finish [free x] [n0]          -> ok [x complete] total [loadings] valid
  pp [y] total                  -> ok [partial pressures]
  sel n0 n1 y0 y1               -> ok n/d
  vle n0 n1                     -> ok n/d
  pcert [ps] [ls] [logs] q lgLast -> ok n0 sp | none     (Model/IastPoint.lean: loading and spreading pressure from the raw data)
  pcertb [ps] [ls] [marks] b [logs] q lgLast -> ok n0 sp | none   (stored rows of the whole isotherm, branch marks, requested branch 0 = ads / 1 = des:
                                                                  selection, orientation (desorption rows reversed), origin guard, certificate)
  resid [loads] [pp] [n0] [sp]  -> ok [x] [p0] [spreadDiffs] mixingResidual valid    (certificate arithmetic on a returned result)
-/
import PgVerif.Model.IastPoint
import PgVerif.Drv.Proto
import Mathlib.Algebra.Order.Field.Rat

open PgVerif.Proto PgVerif.Model.Iast

def step (ts : List String) : String :=
  match ts with
  | ["finish", free, n0] =>
    match ratList free, ratList n0 with
    | some free, some n0 =>
      let x := complete (α := ℚ) free
      s!"ok {showRatList x} {showRat (totalLoading x n0)} {showRatList (loadings x n0)} {fractionsValid x}"
    | _, _ => "bad-op"
  | ["pp", y, total] =>
    match ratList y, parseRat total with
    | some y, some total => "ok " ++ showRatList (partialPressures (α := ℚ) y total)
    | _, _ => "bad-op"
  | ["sel", a, b, c, d] =>
    match parseRat a, parseRat b, parseRat c, parseRat d with
    | some a, some b, some c, some d => "ok " ++ showRat (selectivity (α := ℚ) a b c d)
    | _, _, _, _ => "bad-op"
  | ["vle", a, b] =>
    match parseRat a, parseRat b with
    | some a, some b => "ok " ++ showRat (vleX (α := ℚ) a b)
    | _, _ => "bad-op"
  | ["pcert", ps, ls, logs, q, lg] =>
    match ratList ps, ratList ls, ratList logs, parseRat q, parseRat lg with
    | some ps, some ls, some logs, some q, some lg =>
      match pointCert (α := ℚ) ps ls logs q lg with
      | some (n0, sp) => s!"ok {showRat n0} {showRat sp}"
      | none => "none"
    | _, _, _, _, _ => "bad-op"
  | ["pcertb", ps, ls, marks, b, logs, q, lg] =>
    match ratList ps, ratList ls, (parseList marks).bind (·.mapM String.toNat?), b.toNat?, ratList logs, parseRat q, parseRat lg with
    | some ps, some ls, some marks, some b, some logs, some q, some lg =>
      if ps.length ≠ ls.length ∨ ps.length ≠ marks.length then "bad-op" else
      match pointCertBranch (α := ℚ) ps ls marks b logs q lg with
      | some (n0, sp) => s!"ok {showRat n0} {showRat sp}"
      | none => "none"
    | _, _, _, _, _, _, _ => "bad-op"
  | ["resid", loads, pp, n0, sp] =>
    match ratList loads, ratList pp, ratList n0, ratList sp with
    | some loads, some pp, some n0, some sp =>
      if loads.sum = 0 then "none" else
      let x := fractionsOf (α := ℚ) loads
      s!"ok {showRatList x} {showRatList (fictitious pp x)} {showRatList (spreadDiffs sp)} {showRat (mixingResidual x n0 loads.sum)} {fractionsValid x}"
    | _, _, _, _ => "bad-op"
  | _ => "bad-op"

def main : IO Unit := do loop (← IO.getStdin) step
