/-
Driver for Model/ModelEval.lean at α = ℚ:   lake env lean --run PgVerif/Drv/ModelEval.lean
  ev <Model> <fn> [params] x          -> ok n/d | none        exact value of the published rational equation
  hc <Model> [params]                 -> ok n/d | none        Henry constant
  lin a b n                           -> ok [grid]            numpy.linspace
  sel [vs] f <lo|~|-> <hi|~|->        -> ok [values]          conversion by the factor f, strict limits (`- -` = limits not given)
-/
import PgVerif.Model.ModelEval
import PgVerif.Drv.Proto
import Mathlib.Algebra.Order.Field.Rat

open PgVerif.Model.MEval PgVerif.Proto

def parseLimits (lo hi : String) : Option (Option (Option Rat × Option Rat)) :=
  if lo == "-" && hi == "-" then some none
  else match optRat lo, optRat hi with
    | some l, some h => some (some (l, h))
    | _, _ => none

def step (ts : List String) : String :=
  match ts with
  | ["ev", m, f, ps, x] =>
    match ratList ps, parseRat x with
    | some ps, some x =>
      -- a pole of the rational function (division by zero is totalised in Lean) is answered `none`
      match evalModel (α := ℚ) m f ps x with
      | some r => "ok " ++ showRat r
      | none => "none"
    | _, _ => "bad-op"
  | ["hc", m, ps] =>
    match ratList ps with
    | some ps => match henryConst (α := ℚ) m ps with
      | some r => "ok " ++ showRat r
      | none => "none"
    | none => "bad-op"
  | ["lin", a, b, n] =>
    match parseRat a, parseRat b, n.toNat? with
    | some a, some b, some n => "ok " ++ showRatList (linspace (α := ℚ) a b n)
    | _, _, _ => "bad-op"
  | ["sel", vs, f, lo, hi] =>
    match ratList vs, parseRat f, parseLimits lo hi with
    | some vs, some f, some lim => "ok " ++ showRatList (convertSelect (α := ℚ) vs f lim)
    | _, _, _ => "bad-op"
  | _ => "bad-op"

def main : IO Unit := do loop (← IO.getStdin) step
