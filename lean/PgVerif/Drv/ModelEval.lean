/-
Driver for Model/ModelEval.lean at α = ℚ:   lake env lean --run PgVerif/Drv/ModelEval.lean
  ev <Model> <fn> [params] x          -> ok n/d | none        exact value of the published rational equation
  hc <Model> [params]                 -> ok n/d | none        Henry constant
  lin a b n                           -> ok [grid]            numpy.linspace
  sel [vs] f <lo|~|-> <hi|~|->        -> ok [values]          conversion by the factor f, strict limits (`- -` = limits not given)
model isotherm in a stored STATE (`<K|C> t` = temperature unit and stored number; `Ttab p0` = the kelvin temperature at which the
adsorbate was tabulated and its saturation pressure in Pa there: at any other temperature nothing is known -> `none`;
a representation = `<absolute|relative|relative%> <Pa per unit | 1>`):
  kel <K|C> t                                                      -> ok T          kelvin temperature of the state
  cvp <K|C> t Ttab p0 smode sunit rmode runit <in|out> [xs]        -> ok [values]   requested -> stored (`in`) / stored -> requested (`out`)
  lat <K|C> t Ttab p0 smode sunit rmode runit fL Model [params] [xs] -> ok [values] loading_at around the exact rational model, fL = loading factor stored -> requested at Ttab
  pat <K|C> t Ttab p0 smode sunit rmode runit fL Model [params] [ls] -> ok [values] pressure_at around the exact rational inverse (Henry, Langmuir)
  wps <K|C> t Ttab p0 smode sunit rmode runit a b n lo hi            -> ok [values] pressure(points, …) of a loading-explicit model, strict limits
  wls <K|C> t Ttab p0 smode sunit rmode runit fL Model [params] a b n lo hi -> ok [values] loading(points, …) around the exact rational model
-/
import PgVerif.Model.ModelEval
import PgVerif.Drv.Proto
import Mathlib.Algebra.Order.Field.Rat

open PgVerif.Model.MEval PgVerif.Proto

def parseLimits (lo hi : String) : Option (Option (Option Rat × Option Rat)) :=
  if lo == "-" && hi == "-" then some none
  else match optRat lo, optRat hi with
    | some l, some h => some (some (l, h))
    | _, _ => none

def parseMode (m : String) : Option PMode :=
  if m == "absolute" then some .absolute else if m == "relative" then some .relative
  else if m == "relative%" then some .percent else none

def parseCelsius (u : String) : Option Bool :=
  if u == "K" then some false else if u == "C" then some true else none

/-- the state and the adsorbate table of one request: `none` when the line cannot be parsed, `some none` when the kelvin
temperature of the state is not the tabulated one -/
def parseState (u t tt p0 sm su rm ru : String) : Option (Option (MState ℚ × (ℚ → ℚ) × PRep ℚ)) :=
  match parseCelsius u, parseRat t, parseRat tt, parseRat p0, parseMode sm, parseRat su, parseMode rm, parseRat ru with
  | some c, some t, some tt, some p0, some sm, some su, some rm, some ru =>
    let s : MState ℚ := ⟨c, t, ⟨sm, su⟩, fun _ => 1⟩
    if s.kelvin = tt then some (some (s, (fun T => if T = tt then p0 else 0), ⟨rm, ru⟩)) else some none
  | _, _, _, _, _, _, _, _ => none

def step (ts : List String) : String :=
  match ts with
  | ["kel", u, t] =>
    match parseCelsius u, parseRat t with
    | some c, some t => "ok " ++ showRat (kelvinOf c t)
    | _, _ => "bad-op"
  | ["cvp", u, t, tt, p0, sm, su, rm, ru, dir, xs] =>
    match parseState u t tt p0 sm su rm ru, ratList xs with
    | some none, some _ => "none"
    | some (some (s, psat, rq)), some xs =>
      if dir == "in" then "ok " ++ showRatList (xs.map (convP (psat s.kelvin) rq s.prep))
      else if dir == "out" then "ok " ++ showRatList (xs.map (convP (psat s.kelvin) s.prep rq))
      else "bad-op"
    | _, _ => "bad-op"
  | ["wps", u, t, tt, p0, sm, su, rm, ru, a, b, n, lo, hi] =>
    match parseState u t tt p0 sm su rm ru, parseRat a, parseRat b, n.toNat?, parseLimits lo hi with
    | some none, some _, some _, some _, some _ => "none"
    | some (some (s, psat, rq)), some a, some b, some n, some lim => "ok " ++ showRatList (wholePressureS psat s a b n rq lim)
    | _, _, _, _, _ => "bad-op"
  | ["wls", u, t, tt, p0, sm, su, rm, ru, fl, m, ps, a, b, n, lo, hi] =>
    match parseState u t tt p0 sm su rm ru, parseRat fl, ratList ps, parseRat a, parseRat b, n.toNat?, parseLimits lo hi with
    | some none, some _, some _, some _, some _, some _, some _ => "none"
    | some (some (s, _, _)), some fl, some ps, some a, some b, some n, some lim =>
      let s' : MState ℚ := { s with lscale := fun _ => fl }
      if ((linspace a b n).all fun p => (evalModel (α := ℚ) m "loading" ps p).isSome) then
        "ok " ++ showRatList (wholeLoadingS s' (fun p => (evalModel (α := ℚ) m "loading" ps p).getD 0) a b n (fun _ => 1) lim)
      else "none"
    | _, _, _, _, _, _, _ => "bad-op"
  | [op, u, t, tt, p0, sm, su, rm, ru, fl, m, ps, xs] =>
    match parseState u t tt p0 sm su rm ru, parseRat fl, ratList ps, ratList xs with
    | some none, some _, some _, some _ => "none"
    | some (some (s, psat, rq)), some fl, some ps, some xs =>
      -- the loading factor stored -> requested at the tabulated temperature enters as `lscale T = fL`, `rqL T = 1`
      let s' : MState ℚ := { s with lscale := fun _ => fl }
      let fn := if op == "lat" then some "loading" else if op == "pat" then some "pressure" else none
      match fn with
      | none => "bad-op"
      | some fn =>
        let rs := xs.map fun x =>
          if op == "lat" then
            (evalModel (α := ℚ) m fn ps (convP (psat s.kelvin) rq s.prep x)).map fun _ =>
              loadingAtS psat s' (fun p => (evalModel (α := ℚ) m fn ps p).getD 0) rq (fun _ => 1) x
          else
            (evalModel (α := ℚ) m fn ps (x * (1 / fl))).map fun _ =>
              pressureAtS psat s' (fun l => (evalModel (α := ℚ) m fn ps l).getD 0) (fun _ => 1) rq x
        match rs.mapM id with
        | some rs => "ok " ++ showRatList rs
        | none => "none"
    | _, _, _, _ => "bad-op"
  | ["ev", m, f, ps, x] =>
    match ratList ps, parseRat x with
    | some ps, some x =>
      -- a pole of the rational function (division by zero is totalised in Lean) is answered `none`
      match evalModel (α := ℚ) m f ps x with
      | some r => "ok " ++ showRat r
      | none => "none"
    | _, _ => "bad-op"
  | ["hc", m, ps] =>
    match ratList ps with
    | some ps => match henryConst (α := ℚ) m ps with
      | some r => "ok " ++ showRat r
      | none => "none"
    | none => "bad-op"
  | ["lin", a, b, n] =>
    match parseRat a, parseRat b, n.toNat? with
    | some a, some b, some n => "ok " ++ showRatList (linspace (α := ℚ) a b n)
    | _, _, _ => "bad-op"
  | ["sel", vs, f, lo, hi] =>
    match ratList vs, parseRat f, parseLimits lo hi with
    | some vs, some f, some lim => "ok " ++ showRatList (convertSelect (α := ℚ) vs f lim)
    | _, _, _ => "bad-op"
  | _ => "bad-op"

def main : IO Unit := do loop (← IO.getStdin) step
