/-
Driver for Model/IsoState.lean at α = ℚ (stateful):   lake env lean --run PgVerif/Drv/IsoState.lean
  ctx <psat|~> <7 env values> <T|F>
  init <pmode> <punit> <lbasis> <lunit> <mbasis> <munit> <tunit> [ps] [ls] <temp>
  P <mode> <unit> | L <basis> <unit> | M <basis> <unit> | T <unit> | A <pm> <pu> <lb> <lu> <mb> <mu>
  valid <pmode> <punit> <lbasis> <lunit> <mbasis> <munit> <tunit>      (constructor label check only)
  S <pm> <pu> <lb> <lu> <mb> <mu>   (Model/IsoSeq.lean: answers  <issued steps e.g. P,M,L or -> | <ok|err e> | dump ; the driver state is NOT changed)
  cache <T|F> <T|F>     (the loading / pressure interpolator slot is occupied: a query was answered since the last reset)
every op answers:  <ok|err e> | labels (7 tokens) | [ps] | [ls] | temp | <lcache><pcache> | <valid T/F>
-/
import PgVerif.Model.IsoState
import PgVerif.Model.IsoSeq
import PgVerif.Drv.Proto
import Mathlib.Algebra.Order.Field.Rat

open PgVerif.Model PgVerif.Gen PgVerif.Proto

structure St where
  c : Ctx ℚ
  s : Iso ℚ

def showOpt (o : Option String) : String :=
  match o with | none => "~" | some "" => "\"\"" | some s => s

def dump (s : Iso ℚ) : String :=
  let l := s.lab
  s!"{l.pmode} {showOpt l.punit} {l.lbasis} {showOpt l.lunit} {l.mbasis} {showOpt l.munit} {showOpt l.tunit} | {showRatList s.ps} | {showRatList s.ls} | {showRat s.temp} | {if s.lcache then "1" else "0"}{if s.pcache then "1" else "0"} | {if validLabels l then "T" else "F"}"

def showOut (o : Outcome) : String :=
  match o with | .ok => "ok" | .err e => "err " ++ e.name

def mkEnv (l : List (Option Rat)) : Option (Env ℚ) :=
  match l with
  | [a, b, c, d, e, f, g] => some fun q =>
    match q with
    | .gasDensity => a | .liquidDensity => b | .molarMass => c | .gasMolarDensity => d
    | .liquidMolarDensity => e | .matDensity => f | .matMolarMass => g
  | _ => none

def emptyIso : Iso ℚ := ⟨⟨"", none, "", none, "", none, none⟩, [], [], 0, false, false⟩

def apply (st : St) (op : Op) : St × String :=
  let (s', o) := step st.c st.s op
  ({ st with s := s' }, showOut o ++ " | " ++ dump s')

def stepLine (st : St) (ts : List String) : St × String :=
  match ts with
  | "ctx" :: ps :: e1 :: e2 :: e3 :: e4 :: e5 :: e6 :: e7 :: [t] =>
    match optRat ps, ([e1, e2, e3, e4, e5, e6, e7].mapM optRat).bind mkEnv, parseBool t with
    | some ps, some env, some t => ({ st with c := ⟨ps, env, t⟩ }, "ok")
    | _, _, _ => (st, "bad-op")
  | ["init", pm, pu, lb, lu, mb, mu, tu, ps, ls, temp] =>
    match ratList ps, ratList ls, parseRat temp with
    | some ps, some ls, some temp =>
      let s : Iso ℚ := ⟨⟨pm, optStr pu, lb, optStr lu, mb, optStr mu, optStr tu⟩, ps, ls, temp, true, true⟩
      ({ st with s := s }, "ok | " ++ dump s)
    | _, _, _ => (st, "bad-op")
  | ["valid", pm, pu, lb, lu, mb, mu, tu] =>
    (st, if validLabels ⟨pm, optStr pu, lb, optStr lu, mb, optStr mu, optStr tu⟩ then "T" else "F")
  | ["P", m, u] => apply st (.pressure (optStr m) (optStr u))
  | ["L", b, u] => apply st (.loading (optStr b) (optStr u))
  | ["M", b, u] => apply st (.material (optStr b) (optStr u))
  | ["T", u] => apply st (.temperature (optStr u))
  | ["A", pm, pu, lb, lu, mb, mu] =>
    apply st (.all (optStr pm) (optStr pu) (optStr lb) (optStr lu) (optStr mb) (optStr mu))
  | ["S", pm, pu, lb, lu, mb, mu] =>
    -- specification of the combined call: its single calls in the documented order, stopped at the first refusal (state kept)
    let ops := subSteps (optStr pm) (optStr pu) (optStr lb) (optStr lu) (optStr mb) (optStr mu)
    let (s', o) := runUntilRefused st.c st.s ops
    (st, (if ops.isEmpty then "-" else ",".intercalate (ops.map Op.tag)) ++ " | " ++ showOut o ++ " | " ++ dump s')
  | ["cache"] => ({ st with s := { st.s with lcache := true, pcache := true } }, "ok")
  | ["cache", l, p] =>
    match parseBool l, parseBool p with
    | some l, some p => ({ st with s := { st.s with lcache := l, pcache := p } }, "ok")
    | _, _ => (st, "bad-op")
  | _ => (st, "bad-op")

def main : IO Unit := do
  loopS (← IO.getStdin) stepLine ⟨⟨none, fun _ => none, false⟩, emptyIso⟩
