/-
Driver for Model/Store.lean (stateful; several database files, one process-global memory):
   lake env lean --run PgVerif/Drv/Store.lean
  reset                       forget all files and the in-memory lists
  use <n>                     select database file n (created empty on first use)
  mem [ads…] [mats…]          set the in-memory lists
  op <fault> <operation…>     apply through `with_connection`; fault = `-` or `<k>:<integrity|interface|operational|foreign|exitBefore|exitAfter>`
                              (`foreign` = an exception outside sqlite3.Error raised instead of statement k: bind failure, KeyboardInterrupt, …)
  count <operation…>          number of statements of the fault-free run (nothing applied)
operations:
  adsToDb <name> <T|F autoinsert> <T|F overwrite> <type=[v;v]>…          (value `~` = None)
  matToDb <name> <T|F> <T|F> <type=[v]>…
  adsDelete <name> | matDelete <name> | isoDelete <id> | isoPropTypeOp <entry point>
  typeToDb <adsorbate|material|isotherm> <type|~> <unit> <description> <T|F overwrite>     (`""` = NULL/empty)
  typeDelete <table> <type>
  isoToDb <id> <iso_type> <material> <adsorbate> <temperature> <T|F autoMat> <T|F autoAds> / <material props…> / <adsorbate props…> / <type=value>… / <type:dtype:digest>…
          (isotherm property values: `~` = None, `!` = unsupported type)
reply:  <ok|parsing|other|died> <stmts> | <10 tables> | <adsList> ; <matList>
-/
import PgVerif.Model.Store
import PgVerif.Drv.Proto

open PgVerif.Model.Store PgVerif.Proto

structure St where
  files : List (Nat × Db)
  cur : Nat
  mem : Mem

def St.db (s : St) : Db := ((s.files.find? (·.1 == s.cur)).map (·.2)).getD Db.empty
def St.setDb (s : St) (d : Db) : St := { s with files := (s.cur, d) :: s.files.filter (·.1 != s.cur) }

def j (l : List String) : String := ";".intercalate l
def t3 (r : String × String × String) : String := s!"{r.1},{r.2.1},{r.2.2}"

def dumpDb (d : Db) : String :=
  " | ".intercalate [
    j d.ads, j (d.adsProps.map t3), j (d.adsTypes.map t3), j d.mats, j (d.matProps.map t3), j (d.matTypes.map t3),
    j (d.isoTypes.map fun r => s!"{r.1},{r.2}"),
    j (d.isos.map fun r => s!"{r.1},{r.2.1},{r.2.2.1},{r.2.2.2.1},{r.2.2.2.2}"),
    j (d.isoProps.map t3),
    j (d.isoData.map fun r => s!"{r.1},{r.2.1},{r.2.2.1},{r.2.2.2}")]

def unq (t : String) : String := if t == "\"\"" then "" else t

def parseProp (t : String) : Option (String × List (Option String)) :=
  match t.splitOn "=" with
  | [k, v] => (parseList v).map fun l => (k, l.map optStr)
  | _ => none

def parseFault (t : String) : Option (Option (Nat × FaultKind)) :=
  if t == "-" then some none
  else match t.splitOn ":" with
    | [k, kind] => do
      let k ← k.toNat?
      let kd ← (match kind with
        | "integrity" => some FaultKind.integrity | "interface" => some .interface | "operational" => some .operational | "foreign" => some .foreign
        | "exitBefore" => some .exitBefore | "exitAfter" => some .exitAfter | _ => none)
      some (some (k, kd))
    | _ => none

def splitSections (ts : List String) : List (List String) :=
  ts.foldr (fun t acc => if t == "/" then [] :: acc else match acc with | h :: r => (t :: h) :: r | [] => [[t]]) [[]]

def parseIsoProp (t : String) : Option (String × PVal) :=
  match t.splitOn "=" with
  | [k, v] => some (k, if v == "~" then .null else if v == "!" then .unsupported else .val (unq v))
  | _ => none

def parseIsoData (t : String) : Option (String × String × String) :=
  match t.splitOn ":" with
  | [a, b, c] => some (a, b, c)
  | _ => none

def parseOp (ts : List String) : Option Op :=
  match ts with
  | "adsToDb" :: name :: a :: o :: props => do
    let a ← parseBool a; let o ← parseBool o
    let ps ← props.mapM parseProp
    some (.adsToDb (some name) ps a o)
  | "matToDb" :: name :: a :: o :: props => do
    let a ← parseBool a; let o ← parseBool o
    let ps ← props.mapM parseProp
    some (.matToDb (some name) ps a o)
  | ["adsDelete", n] => some (.adsDelete n)
  | ["matDelete", n] => some (.matDelete n)
  | ["isoDelete", n] => some (.isoDelete n)
  | ["typeToDb", tb, t, u, d, o] => do
    let o ← parseBool o
    some (.typeToDb tb (optStr t) (unq u) (unq d) o)
  | ["typeDelete", tb, t] => some (.typeDelete tb t)
  | ["isoPropTypeOp", w] => some (.isoPropTypeOp w)
  | "isoToDb" :: id :: ty :: m :: a :: temp :: am :: aa :: rest => do
    let am ← parseBool am; let aa ← parseBool aa
    match splitSections rest with
    | [_, mp, ap, pr, da] => do
      let mp ← mp.mapM parseProp; let ap ← ap.mapM parseProp
      let pr ← pr.mapM parseIsoProp; let da ← da.mapM parseIsoData
      some (.isoToDb ⟨id, ty, some m, mp, some a, ap, some temp, pr, da⟩ am aa)
    | _ => none
  | _ => none

def showOut (o : Outcome) : String :=
  match o with | .ok => "ok" | .parsingError => "parsing" | .otherError => "other" | .died => "died"

def stepLine (st : St) (ts : List String) : St × String :=
  match ts with
  | ["reset"] => (⟨[], 0, ⟨[], []⟩⟩, "ok")
  | ["use", n] => match n.toNat? with | some n => ({ st with cur := n }, "ok") | none => (st, "bad-op")
  | ["copy", a, b] =>
    match a.toNat?, b.toNat? with
    | some a, some b =>
      let d := ((st.files.find? (·.1 == a)).map (·.2)).getD Db.empty
      ({ st with files := (b, d) :: st.files.filter (·.1 != b) }, "ok")
    | _, _ => (st, "bad-op")
  | ["mem", a, m] =>
    match parseList a, parseList m with
    | some a, some m => ({ st with mem := ⟨a, m⟩ }, "ok")
    | _, _ => (st, "bad-op")
  | "op" :: f :: rest =>
    match parseFault f, parseOp rest with
    | some f, some op =>
      let r := runOp st.db st.mem op f
      let st' := (st.setDb r.db)
      let st' := { st' with mem := r.mem }
      (st', s!"{showOut r.out} {r.stmts} | {dumpDb r.db} | {j r.mem.adsList} ; {j r.mem.matList}")
    | _, _ => (st, "bad-op")
  | "count" :: rest =>
    match parseOp rest with
    | some op => (st, s!"ok {stmtCount st.db st.mem op}")
    | none => (st, "bad-op")
  | ["wf"] => (st, if st.db.wellFormed then "T" else "F")
  | _ => (st, "bad-op")

def main : IO Unit := do
  loopS (← IO.getStdin) stepLine ⟨[], 0, ⟨[], []⟩⟩
