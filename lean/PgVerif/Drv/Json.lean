/-
Driver for Model/Json.lean:   lake env lean --run PgVerif/Drv/Json.lean      (one JSON text per request, on one line)
  decode <document>      real `to_json` output  -> the model's `decode` as JSON  {"core":{…},"rows":[{"pressure":…,"loading":…,"branch":0|1,…}]} / {"core":…,"model":{…}} / {"core":…}
  encode <iso-json>      the same shape as above -> the model's document as JSON
  decodeframe <document> the same through the model's step-by-step reader `decodeFrame` (table, `branch` column rewritten)
  canon <iso-json>       -> key-sorted serialisation the identifier is computed from
The order key for branch guessing is the numeric value of the pressure; a missing pressure is below every number (`idxmax` skips it).
python's `json` writes a missing numeric cell as the bare token `NaN` (and ±`Infinity`), which is not JSON: before parsing, such tokens
outside string literals are replaced by the object {"$pgv":"NaN"} (no cell, parameter or scalar is ever an object, so nothing real
is shadowed); the replies use the same object.
-/
import Lean.Data.Json
import PgVerif.Model.Json

open Lean PgVerif.Model.Json

/-- bare `NaN` / `Infinity` / `-Infinity` outside string literals -> {"$pgv":"…"}  (input, inside a string literal?, output reversed) -/
def protect : List Char → Bool → List Char → List Char
  | [], _, acc => acc.reverse
  | '\\' :: c :: t, true, acc => protect t true (c :: '\\' :: acc)
  | '"' :: t, b, acc => protect t (!b) ('"' :: acc)
  | 'N' :: 'a' :: 'N' :: t, false, acc => protect t false ("{\"$pgv\":\"NaN\"}".toList.reverse ++ acc)
  | '-' :: 'I' :: 'n' :: 'f' :: 'i' :: 'n' :: 'i' :: 't' :: 'y' :: t, false, acc => protect t false ("{\"$pgv\":\"-Infinity\"}".toList.reverse ++ acc)
  | 'I' :: 'n' :: 'f' :: 'i' :: 'n' :: 'i' :: 't' :: 'y' :: t, false, acc => protect t false ("{\"$pgv\":\"Infinity\"}".toList.reverse ++ acc)
  | c :: t, b, acc => protect t b (c :: acc)

def protectSpecials (s : String) : String :=
  if (s.splitOn "NaN").length > 1 || (s.splitOn "Infinity").length > 1 then String.ofList (protect s.toList false []) else s

def special (tag : String) : Json := Json.mkObj [("$pgv", .str tag)]

def toScalar : Json → Option Scalar
  | .obj o => match o.toList with
    | [("$pgv", .str "NaN")] => some .nan
    | [("$pgv", .str t)] => some (.num t)
    | _ => none
  | .null => some .null
  | .bool b => some (.bool b)
  | .num n => some (if n.exponent = 0 then .int n.mantissa else .num (toString n))
  | .str s => some (.str s)
  | _ => none

def ofScalar : Scalar → Json
  | .null => .null
  | .bool b => .bool b
  | .int n => .num ⟨n, 0⟩
  | .num r => match Json.parse r with | .ok j => j | .error _ => special r
  | .str s => .str s
  | .nan => special "NaN"

def toMVal : Json → Option MVal
  | .arr a => (a.toList.mapM toScalar).map .list
  | .obj o => (o.toList.mapM fun (kv : String × Json) => (toScalar kv.2).map fun s => (kv.1, s)).map .dict
  | j => (toScalar j).map .scalar

def ofMVal : MVal → Json
  | .scalar s => ofScalar s
  | .list l => .arr (l.map ofScalar).toArray
  | .dict kv => Json.mkObj (kv.map fun (k, s) => (k, ofScalar s))

def scalarVal (s : Scalar) : Float :=
  match s with
  | .int n => Float.ofInt n
  | .num r => (match Json.parse r with | .ok (.num n) => n.toFloat | _ => if r == "Infinity" then 1.0 / 0.0 else if r == "-Infinity" then -1.0 / 0.0 else 0.0)
  | _ => 0.0

/-- order key of the branch guess: a missing pressure never is the maximum (`Series.idxmax` skips missing values) -/
def leS (a b : Scalar) : Bool :=
  match a, b with
  | .nan, _ => true
  | _, .nan => false
  | _, _ => scalarVal a ≤ scalarVal b

def toModelDict (j : Json) : Option ModelDict := do
  let name ← (j.getObjValAs? String "name").toOption
  let rmse ← (j.getObjVal? "rmse").toOption >>= toScalar
  let ps ← (j.getObjVal? "parameters").toOption
  let params ← match ps with
    | Json.obj o => o.toList.mapM fun (kv : String × Json) => (toScalar kv.2).map fun s => (kv.1, s)
    | _ => none
  let rng (k : String) : Option (Scalar × Scalar) := do
    match (j.getObjVal? k).toOption with
    | some (Json.arr a) => if a.size = 2 then do some ((← toScalar a[0]!), (← toScalar a[1]!)) else none
    | _ => none
  some ⟨name, rmse, params, (← rng "pressure_range"), (← rng "loading_range")⟩

def ofModelDict (m : ModelDict) : Json :=
  Json.mkObj [("name", .str m.name), ("rmse", ofScalar m.rmse), ("parameters", Json.mkObj (m.params.map fun (k, s) => (k, ofScalar s))),
              ("pressure_range", .arr #[ofScalar m.prange.1, ofScalar m.prange.2]), ("loading_range", .arr #[ofScalar m.lrange.1, ofScalar m.lrange.2])]

/-- a real document -> `Doc` -/
def toDoc (j : Json) : Option Doc :=
  match j with
  | .obj o => o.toList.mapM fun (kv : String × Json) =>
    let k := kv.1
    let v := kv.2
    if k == "file_version" then (match v with | Json.str s => some (k, DVal.version s) | Json.num n => some (k, DVal.version (toString n)) | _ => none)
    else if k == "isotherm_data" then
      (match v with
       | Json.arr rows => (rows.toList.mapM fun (r : Json) => match r with
          | Json.obj ro => ro.toList.mapM fun (x : String × Json) => (toScalar x.2).map fun s => (x.1, s)
          | _ => none).map fun rs => (k, DVal.data rs)
       | _ => none)
    else if k == "isotherm_model" then (toModelDict v).map fun m => (k, DVal.model m)
    else (toMVal v).map fun m => (k, DVal.mval m)
  | _ => none

def ofDoc (d : Doc) : Json :=
  Json.mkObj (d.map fun (k, v) =>
    (k, match v with
      | .mval m => ofMVal m
      | .version s => .str s
      | .data rows => .arr (rows.map fun r => Json.mkObj (r.map fun (kk, s) => (kk, ofScalar s))).toArray
      | .model m => ofModelDict m))

def ofIso (i : Iso) : Json :=
  let core := Json.mkObj (i.core.map fun (k, v) => (k, ofMVal v))
  match i.payload with
  | .none => Json.mkObj [("core", core)]
  | .points rows => Json.mkObj [("core", core), ("rows", .arr (rows.map fun r =>
      Json.mkObj ([("pressure", ofScalar r.p), ("loading", ofScalar r.l), ("branch", .num ⟨r.branch, 0⟩)] ++ r.extra.map fun (k, s) => (k, ofScalar s))).toArray)]
  | .model m => Json.mkObj [("core", core), ("model", ofModelDict m)]

def toIso (j : Json) : Option Iso := do
  let core ← match (j.getObjVal? "core").toOption with
    | some (Json.obj o) => o.toList.mapM fun (kv : String × Json) => (toMVal kv.2).map fun m => (kv.1, m)
    | _ => none
  match (j.getObjVal? "rows").toOption, (j.getObjVal? "model").toOption with
  | some (Json.arr rows), _ =>
    let rs ← rows.toList.mapM fun (r : Json) => match r with
      | Json.obj ro => do
        let kv ← ro.toList.mapM fun (x : String × Json) => (toScalar x.2).map fun s => (x.1, s)
        let p ← (kv.find? (·.1 == "pressure")).map (·.2)
        let l ← (kv.find? (·.1 == "loading")).map (·.2)
        let b := match (kv.find? (·.1 == "branch")).map (·.2) with | some (.int 1) => 1 | _ => 0
        some (⟨p, l, b, kv.filter fun x => x.1 != "pressure" && x.1 != "loading" && x.1 != "branch"⟩ : Row)
      | _ => none
    some ⟨core, .points rs⟩
  | _, some m => (toModelDict m).map fun md => ⟨core, .model md⟩
  | _, _ => some ⟨core, .none⟩

def step (line : String) : String :=
  let line := line.trimAscii.toString
  let (cmd, rest) := match line.splitOn " " with
    | c :: r => (c, " ".intercalate r)
    | [] => ("", "")
  match Json.parse (protectSpecials rest) with
  | .error _ => "bad-op"
  | .ok j =>
    match cmd with
    | "decode" => match (toDoc j).bind (decode leS) with | some i => (ofIso i).compress | none => "none"
    | "decodeframe" => match (toDoc j).bind (decodeFrame leS) with | some i => (ofIso i).compress | none => "none"
    | "encode" => match toIso j with | some i => (ofDoc (encode "3.0" i)).compress | none => "none"
    | "canon" => match toIso j with
      | some i => let c := canon i; (Json.mkObj [("core", .arr (c.1.map fun (k, v) => .arr #[.str k, ofMVal v]).toArray), ("payload", ofIso ⟨[], c.2⟩)]).compress
      | none => "none"
    | _ => "bad-op"

partial def loop (h : IO.FS.Stream) : IO Unit := do
  let line ← h.getLine
  if line.isEmpty then return ()
  IO.println (step line)
  loop h

def main : IO Unit := do loop (← IO.getStdin)
