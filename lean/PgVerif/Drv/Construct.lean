/-
Driver for Model/Construct.lean at α = ℚ:   lake env lean --run PgVerif/Drv/Construct.lean     (one request per line: `<op> <json>`)

values:  null | true/false | integer | {"$f":"n/d"} (a Python float, exact) | "text" | [scalars] | {"$d":[[k,scalar],…]} | {"$m":{"name":s,"props":[[k,scalar],…]}}
  construct {"world":{"ads":[[s,name],…],"mat":[[s,[[k,scalar],…]],…]},"args":[[k,value],…],"cls":"base"|"point"|"model"}      (the subclass' named parameters are taken out of args first)
      -> err <class>   |   ok {"dict":[[k,value],…] | "dict_err":class, "valid":bool, "props":[k,…], "after":[[k,value],…]}
         (`dict`: `to_dict()` of the class; `valid`: `validLabels` of the stored labels; `after`: material argument after the call)
  point {"pressure":[q…]|null,"loading":…,"frame":{"cols":[…],"nrows":n,"num":[[c,[q…]],…]}|null,"pressure_key":s|null,"loading_key":s|null,"branch":{"str":s}|{"marks":[q…]}|{"scalar":q}|null}
      -> err <class> | ok {"pressure_key":…,"loading_key":…,"columns":[…],"other_keys":[…],"marks":[q|null…]}
  model {… as point …,"branch":value,"model":null|{"name":s}|{"inst":s}}  -> err <class> | ok {"stored":name,"branch":value} | ok {"fit":[q…],"branch":value}
  float "text"      -> ok n/d | err value
  tables {}         -> the generated tables the model runs on;     spec {} -> the documented tables (Spec/IsoParams.lean)
-/
import Lean.Data.Json
import PgVerif.Model.Construct
import PgVerif.Spec.IsoParams
import PgVerif.Drv.Proto
import Mathlib.Algebra.Order.Field.Rat

open Lean PgVerif.Model PgVerif.Model.Construct PgVerif.Gen.IsoParams PgVerif.Proto

abbrev Q := ℚ

def toSc : Json → Option (Sc Q)
  | .null => some .none
  | .bool b => some (.bool b)
  | .num n => if n.exponent = 0 then some (.int n.mantissa) else none
  | .str s => some (.str s)
  | .obj o => match o.toList with
    | [("$f", .str q)] => (parseRat q).map .num
    | _ => none
  | _ => none

def ofSc : Sc Q → Json
  | .none => .null
  | .bool b => .bool b
  | .int n => .num ⟨n, 0⟩
  | .num x => Json.mkObj [("$f", .str (showRat x))]
  | .str s => .str s

def toPairs {β : Type} (f : Json → Option β) : Json → Option (List (String × β))
  | .arr a => a.toList.mapM fun (j : Json) => match j with
    | .arr #[.str k, v] => (f v).map fun x => (k, x)
    | _ => none
  | _ => none

def ofPairs {β : Type} (f : β → Json) (l : List (String × β)) : Json := .arr (l.map fun (k, v) => Json.arr #[.str k, f v]).toArray

def toVal : Json → Option (Val Q)
  | .arr a => (a.toList.mapM toSc).map .list
  | .obj o => match o.toList with
    | [("$d", kv)] => (toPairs toSc kv).map .dict
    | [("$m", m)] => do
      let n ← (m.getObjValAs? String "name").toOption
      let p ← (m.getObjVal? "props").toOption >>= toPairs toSc
      some (.mat n p)
    | _ => (toSc (.obj o)).map .sc
  | j => (toSc j).map .sc

def ofVal : Val Q → Json
  | .sc s => ofSc s
  | .list l => .arr (l.map ofSc).toArray
  | .dict kv => Json.mkObj [("$d", ofPairs ofSc kv)]
  | .mat n p => Json.mkObj [("$m", Json.mkObj [("name", .str n), ("props", ofPairs ofSc p)])]

def toWorld (j : Json) : Option (World Q) := do
  let ads ← (j.getObjVal? "ads").toOption >>= toPairs fun (x : Json) => match x with | .str s => some s | _ => none
  let mat ← (j.getObjVal? "mat").toOption >>= toPairs (toPairs toSc)
  some ⟨fun s => ads.lookup s, fun s => mat.lookup s⟩

def ratArr : Json → Option (List Q)
  | .arr a => a.toList.mapM fun (j : Json) => match j with | .str s => parseRat s | _ => none
  | _ => none

def optField {β : Type} (j : Json) (k : String) (f : Json → Option β) : Option (Option β) :=
  match (j.getObjVal? k).toOption with
  | none => some none
  | some .null => some none
  | some v => (f v).map some

def jstr : Json → Option String
  | .str s => some s
  | _ => none

def jstrs : Json → Option (List String)
  | .arr a => a.toList.mapM jstr
  | _ => none

def toFrame (j : Json) : Option (Frame Q) := do
  let cols ← (j.getObjVal? "cols").toOption >>= jstrs
  let n ← (j.getObjValAs? Nat "nrows").toOption
  let num ← (j.getObjVal? "num").toOption >>= toPairs ratArr
  some ⟨cols, n, num⟩

def toBranchArg (j : Json) : Option (BranchArg Q) :=
  match j with
  | .null => some .none
  | .obj o => match o.toList with
    | [("str", .str s)] => some (.str s)
    | [("marks", m)] => (ratArr m).map .marks
    | [("scalar", .str q)] => (parseRat q).map .scalar
    | _ => none
  | _ => none

def errStr (e : CErr) : String := "err " ++ e.name

def doConstruct (j : Json) : String :=
  match (j.getObjVal? "world").toOption >>= toWorld, (j.getObjVal? "args").toOption >>= toPairs toVal, (j.getObjValAs? String "cls").toOption with
  | some w, some args, some cls =>
    let named := if cls == "model" then modelInitParams else if cls == "point" then pointInitParams else []
    match construct w (otherProperties named args) with
    | .error e => errStr e
    | .ok i =>
      let branch := namedArg named args "branch"
      let d := if cls == "model" then toDictModel i branch else if cls == "point" then toDictPoint i else toDictBase i
      let c := applyShorthands (bind args)
      let dj : List (String × Json) := match d with
        | .ok d => [("dict", ofPairs ofVal d)]
        | .error e => [("dict_err", .str e.name)]
      "ok " ++ (Json.mkObj (dj ++ [("valid", .bool (validLabels i.lab.labels)), ("props", .arr (i.properties.map fun kv => Json.str kv.1).toArray),
                                   ("after", ofVal (dictAfterCall c.material))])).compress
  | _, _, _ => "bad-op"

def optQ (o : Option Q) : Json := match o with | some q => .str (showRat q) | none => .null

def doPoint (j : Json) : String :=
  match optField j "pressure" ratArr, optField j "loading" ratArr, optField j "frame" toFrame, optField j "pressure_key" jstr, optField j "loading_key" jstr,
        (j.getObjVal? "branch").toOption >>= toBranchArg with
  | some p, some l, some f, some pk, some lk, some b =>
    match pointData (⟨p, l, f, pk, lk, b⟩ : PointArgs Q) with
    | .error e => errStr e
    | .ok d => "ok " ++ (Json.mkObj [("pressure_key", .str d.pressureKey), ("loading_key", .str d.loadingKey), ("columns", .arr (d.columns.map Json.str).toArray),
                                     ("other_keys", .arr (d.otherKeys.map Json.str).toArray), ("marks", .arr (d.marks.map optQ).toArray)]).compress
  | _, _, _, _, _, _ => "bad-op"

def toModelArg (j : Json) : Option ModelArg :=
  match j with
  | .null => some .none
  | .obj o => match o.toList with
    | [("name", .str s)] => some (.name s)
    | [("inst", .str s)] => some (.inst s)
    | _ => none
  | _ => none

def doModel (j : Json) : String :=
  match optField j "pressure" ratArr, optField j "loading" ratArr, optField j "frame" toFrame, optField j "pressure_key" jstr, optField j "loading_key" jstr,
        (j.getObjVal? "branch").toOption >>= toVal, (j.getObjVal? "model").toOption >>= toModelArg with
  | some p, some l, some f, some pk, some lk, some b, some m =>
    match modelRoute (⟨p, l, f, pk, lk, b, m⟩ : ModelArgs Q) with
    | .error e => errStr e
    | .ok (.stored n br) => "ok " ++ (Json.mkObj [("stored", .str n), ("branch", ofVal br)]).compress
    | .ok (.fit br ps) => "ok " ++ (Json.mkObj [("fit", .arr (ps.map fun q => Json.str (showRat q)).toArray), ("branch", ofVal br)]).compress
  | _, _, _, _, _, _, _ => "bad-op"

def strsJ (l : List String) : Json := .arr (l.map Json.str).toArray
def pairsJ (l : List (String × String)) : Json := .arr (l.map fun (a, b) => Json.arr #[.str a, .str b]).toArray
def optPairsJ (l : List (String × Option String)) : Json := .arr (l.map fun (a, b) => Json.arr #[.str a, match b with | some s => .str s | none => .null]).toArray

def tablesJ : Json := Json.mkObj [
  ("required", strsJ requiredParams), ("init_params", strsJ initParams), ("unit_params", pairsJ unitParams), ("reserved_base", strsJ reservedBase),
  ("reserved_point", strsJ reservedPoint), ("reserved_model", strsJ reservedModel), ("shorthands", pairsJ shorthands), ("shorthand_targets", strsJ shorthandTargets),
  ("required_checked", strsJ requiredChecked), ("setters", strsJ setterOrder), ("unit_pops", strsJ unitPops), ("relative_prefix", .str relativePrefix),
  ("frac_bases", strsJ fracBases), ("base_attrs", strsJ baseAttrs), ("point_init", optPairsJ pointInitParams), ("model_init", optPairsJ modelInitParams),
  ("point_attrs", strsJ pointAttrs), ("model_attrs", strsJ modelAttrs), ("point_from_isotherm", strsJ pointFromIsothermKeys),
  ("model_from_isotherm", strsJ modelFromIsothermKeys), ("json_version", .str jsonParserVersion), ("json_writer", strsJ jsonWriterKeys), ("json_reader", strsJ jsonReaderKeys)]

def specJ : Json := Json.mkObj [
  ("required", strsJ PgVerif.Spec.IsoParams.required), ("shorthands", pairsJ PgVerif.Spec.IsoParams.shorthands),
  ("unit_defaults", pairsJ PgVerif.Spec.IsoParams.unitDefaults), ("json_keys", strsJ PgVerif.Spec.IsoParams.jsonKeys)]

def step (line : String) : String :=
  let line := line.trimAscii.toString
  let (cmd, rest) := match line.splitOn " " with
    | c :: r => (c, " ".intercalate r)
    | [] => ("", "")
  match Json.parse rest with
  | .error _ => "bad-op"
  | .ok j =>
    match cmd with
    | "construct" => doConstruct j
    | "point" => doPoint j
    | "model" => doModel j
    | "float" => match j with
      | .str s => (match (parseFloat s : Option Q) with | some q => "ok " ++ showRat q | none => "err value")
      | _ => "bad-op"
    | "tables" => "ok " ++ tablesJ.compress
    | "spec" => "ok " ++ specJ.compress
    | _ => "bad-op"

partial def loop (h : IO.FS.Stream) : IO Unit := do
  let line ← h.getLine
  if line.isEmpty then return ()
  IO.println (step line)
  loop h

def main : IO Unit := do loop (← IO.getStdin)
