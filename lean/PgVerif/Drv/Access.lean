/-
Driver for Model/Access.lean at α = ℚ (stateful: context and labels):   lake env lean --run PgVerif/Drv/Access.lean
  ctx <psat|~> <7 env> <T|F>          lab <pmode> <punit> <lbasis> <lunit> <mbasis> <munit> <tunit>
  aP v pm pu | aLT v lb lu mb mu | aLS v lb lu mb mu | iP v pm pu | oPP v pm pu | oPM v pm pu | iL <T|F> v lb lu mb mu
  split [ps] | lim [vs] <lo|~|-> <hi|~|->  (`- -` = limits not given) | br [marks] <branch|~> | il [ps] [ls] x
-/
import PgVerif.Model.Access
import PgVerif.Drv.Proto
import Mathlib.Algebra.Order.Field.Rat

open PgVerif.Model PgVerif.Gen PgVerif.Proto

structure St where
  c : Ctx ℚ
  lab : Labels

def showRes (r : Except Err ℚ) : String :=
  match r with | .ok q => "ok " ++ showRat q | .error e => "err " ++ e.name

def mkEnv (l : List (Option Rat)) : Option (Env ℚ) :=
  match l with
  | [a, b, c, d, e, f, g] => some fun q =>
    match q with
    | .gasDensity => a | .liquidDensity => b | .molarMass => c | .gasMolarDensity => d
    | .liquidMolarDensity => e | .matDensity => f | .matMolarMass => g
  | _ => none

def stepLine (st : St) (ts : List String) : St × String :=
  match ts with
  | "ctx" :: ps :: e1 :: e2 :: e3 :: e4 :: e5 :: e6 :: e7 :: [t] =>
    match optRat ps, ([e1, e2, e3, e4, e5, e6, e7].mapM optRat).bind mkEnv, parseBool t with
    | some ps, some env, some t => ({ st with c := ⟨ps, env, t⟩ }, "ok")
    | _, _, _ => (st, "bad-op")
  | ["lab", pm, pu, lb, lu, mb, mu, tu] =>
    ({ st with lab := ⟨pm, optStr pu, lb, optStr lu, mb, optStr mu, optStr tu⟩ }, "ok")
  | [op, v, a, b] =>
    match parseRat v with
    | some v =>
      let f := match op with
        | "aP" => some (accessPressure st.c st.lab v (optStr a) (optStr b))
        | "iP" => some (inputPressure st.c st.lab v (optStr a) (optStr b))
        | "oPP" => some (outputPressurePoint st.c st.lab v (optStr a) (optStr b))
        | "oPM" => some (outputPressureModel st.c st.lab v (optStr a) (optStr b))
        | _ => none
      (st, match f with | some r => showRes r | none => "bad-op")
    | none =>
      match op with
      | "lim" =>
        let lim : Option (Option (Option ℚ × Option ℚ)) :=
          if a == "-" && b == "-" then some none
          else match optRat a, optRat b with
            | some lo, some hi => some (some (lo, hi))
            | _, _ => none
        match ratList v, lim with
        | some vs, some l => (st, "ok " ++ showRatList (applyLimits vs l))
        | _, _ => (st, "bad-op")
      | "il" =>
        match ratList v, ratList a, parseRat b with
        | some ps, some ls, some x =>
          (st, match interpLin (α := ℚ) ps ls x with | some r => "ok " ++ showRat r | none => "none")
        | _, _, _ => (st, "bad-op")
      | _ => (st, "bad-op")
  | [op, v, lb, lu, mb, mu] =>
    match parseRat v with
    | some v =>
      let f := match op with
        | "aLT" => some (accessLoadingTarget st.c st.lab v (optStr lb) (optStr lu) (optStr mb) (optStr mu))
        | "aLS" => some (accessLoadingStored st.c st.lab v (optStr lb) (optStr lu) (optStr mb) (optStr mu))
        | _ => none
      (st, match f with | some r => showRes r | none => "bad-op")
    | none => (st, "bad-op")
  | ["iL", cls, v, lb, lu, mb, mu] =>
    match parseBool cls, parseRat v with
    | some cls, some v => (st, showRes (inputLoading cls st.c st.lab v (optStr lb) (optStr lu) (optStr mb) (optStr mu)))
    | _, _ => (st, "bad-op")
  | ["split", ps] =>
    match ratList ps with
    | some ps => (st, "ok [" ++ ";".intercalate ((splitAds ps).map toString) ++ "]")
    | none => (st, "bad-op")
  | ["br", marks, b] =>
    match (parseList marks).bind (·.mapM String.toNat?) with
    | some ms =>
      let rows := (List.range ms.length).zip ms
      (st, match dataBranch rows (optStr b) with
        | .ok ix => "ok [" ++ ";".intercalate (ix.map toString) ++ "]"
        | .error e => "err " ++ e.name)
    | none => (st, "bad-op")
  | _ => (st, "bad-op")

def main : IO Unit := do
  loopS (← IO.getStdin) stepLine ⟨⟨none, fun _ => none, false⟩, ⟨"", none, "", none, "", none, none⟩⟩
