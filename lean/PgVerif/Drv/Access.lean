/-
Driver for Model/Access.lean at α = ℚ (stateful: context and labels):   lake env lean --run PgVerif/Drv/Access.lean
  ctx <psat|~> <7 env> <T|F>          lab <pmode> <punit> <lbasis> <lunit> <mbasis> <munit> <tunit>
  aP v pm pu | aLT v lb lu mb mu | aLS v lb lu mb mu | iP v pm pu | oPP v pm pu | oPM v pm pu | iL <T|F> v lb lu mb mu
  split [ps] | lim [vs] <lo|~|-> <hi|~|->  (`- -` = limits not given) | br [marks] <branch|~> | il [ps] [ls] x
whole accessors (limits `lo hi` as for `lim`):
  colP [vals] [marks] branch pm pu lo hi | colL [vals] [marks] branch lb lu mb mu lo hi | colO <T|F> [vals] [marks] branch lo hi
  hb [marks] branch | mhb own branch | ord branch [xs] | lin a b n
  mP a b n own branch pm pu lo hi | mL K a b n own branch lb lu mb mu lo hi   (Henry model `K * p`)
  fli [xs] lo hi smallest
  lat [ps] [ls] q pm pu lb lu mb mu | pat [ls] [ps] q lb lu mb mu pm pu     (point isotherm, knots increasing)
  mlat K q pm pu lb lu mb mu | mpat K q lb lu mb mu pm pu                  (Henry model `n = K p`)
temperature: thm0 | thm T psat <7 env>  (table of the adsorbate at kelvin temperatures; elsewhere: nothing known)
  tmp traw | kel | aPT v pm pu | aLTT v lb lu mb mu   (state = labels incl. temperature unit + raw temperature)
-/
import PgVerif.Model.Access
import PgVerif.Drv.Proto
import Mathlib.Algebra.Order.Field.Rat

open PgVerif.Model PgVerif.Gen PgVerif.Proto

structure St where
  c : Ctx ℚ
  lab : Labels
  temp : ℚ := 0
  table : List (ℚ × Option ℚ × Env ℚ) := []

def St.thermo (st : St) : Thermo ℚ :=
  ⟨fun T => (st.table.lookup T).bind (·.1), fun T => match st.table.lookup T with | some e => e.2 | none => fun _ => none⟩

def St.iso (st : St) : Iso ℚ := ⟨st.lab, [], [], st.temp, false, false⟩

def showList (r : Except Err (List ℚ)) : String :=
  match r with | .ok l => "ok " ++ showRatList l | .error e => "err " ++ e.name

def parseLimits (a b : String) : Option (Option (Option ℚ × Option ℚ)) :=
  if a == "-" && b == "-" then some none
  else match optRat a, optRat b with
    | some lo, some hi => some (some (lo, hi))
    | _, _ => none

def parseRows (vals marks : String) : Option (List (ℚ × Nat)) :=
  match ratList vals, (parseList marks).bind (·.mapM String.toNat?) with
  | some vs, some ms => if vs.length = ms.length then some (vs.zip ms) else none
  | _, _ => none

def showRes (r : Except Err ℚ) : String :=
  match r with | .ok q => "ok " ++ showRat q | .error e => "err " ++ e.name

def mkEnv (l : List (Option Rat)) : Option (Env ℚ) :=
  match l with
  | [a, b, c, d, e, f, g] => some fun q =>
    match q with
    | .gasDensity => a | .liquidDensity => b | .molarMass => c | .gasMolarDensity => d
    | .liquidMolarDensity => e | .matDensity => f | .matMolarMass => g
  | _ => none

/-- requests added for the whole accessors, the model-isotherm columns, `find_limit_indices` and the temperature -/
def stepNew (st : St) (ts : List String) : Option (St × String) :=
  match ts with
  | ["thm0"] => some ({ st with table := [] }, "ok")
  | "thm" :: T :: ps :: e1 :: e2 :: e3 :: e4 :: e5 :: e6 :: [e7] =>
    match parseRat T, optRat ps, ([e1, e2, e3, e4, e5, e6, e7].mapM optRat).bind mkEnv with
    | some T, some ps, some env => some ({ st with table := (T, ps, env) :: st.table }, "ok")
    | _, _, _ => some (st, "bad-op")
  | ["tmp", t] =>
    match parseRat t with
    | some t => some ({ st with temp := t }, "ok")
    | none => some (st, "bad-op")
  | ["kel"] => some (st, showRes (kelvin st.lab.tunit st.temp))
  | ["aPT", v, pm, pu] =>
    match parseRat v with
    | some v => some (st, showRes (accessPressureAt st.thermo st.iso v (optStr pm) (optStr pu)))
    | none => some (st, "bad-op")
  | ["aLTT", v, lb, lu, mb, mu] =>
    match parseRat v with
    | some v => some (st, showRes (accessLoadingAt st.thermo st.iso v (optStr lb) (optStr lu) (optStr mb) (optStr mu)))
    | none => some (st, "bad-op")
  | ["colP", vals, marks, b, pm, pu, lo, hi] =>
    match parseRows vals marks, parseLimits lo hi with
    | some rows, some l => some (st, showList (pressureColumn st.c st.lab rows (optStr b) (optStr pm) (optStr pu) l))
    | _, _ => some (st, "bad-op")
  | ["colL", vals, marks, b, lb, lu, mb, mu, lo, hi] =>
    match parseRows vals marks, parseLimits lo hi with
    | some rows, some l =>
      some (st, showList (loadingColumn st.c st.lab rows (optStr b) (optStr lb) (optStr lu) (optStr mb) (optStr mu) l))
    | _, _ => some (st, "bad-op")
  | ["colO", known, vals, marks, b, lo, hi] =>
    match parseBool known, parseRows vals marks, parseLimits lo hi with
    | some k, some rows, some l => some (st, showList (otherColumn k rows (optStr b) l))
    | _, _, _ => some (st, "bad-op")
  | ["hb", marks, b] =>
    match (parseList marks).bind (·.mapM String.toNat?) with
    | some ms => some (st, match hasBranch ms (optStr b) with
        | .ok r => "ok " ++ (if r then "T" else "F")
        | .error e => "err " ++ e.name)
    | none => some (st, "bad-op")
  | ["mhb", own, b] => some (st, "ok " ++ (if modelHasBranch own (optStr b) then "T" else "F"))
  | ["ord", b, xs] =>
    match ratList xs with
    | some xs => some (st, "ok " ++ showRatList (orderedForBranch b xs))
    | none => some (st, "bad-op")
  | ["lin", a, b, n] =>
    match parseRat a, parseRat b, n.toNat? with
    | some a, some b, some n => some (st, "ok " ++ showRatList (linspace a b n))
    | _, _, _ => some (st, "bad-op")
  | ["mP", a, b, n, own, br, pm, pu, lo, hi] =>
    match parseRat a, parseRat b, n.toNat?, parseLimits lo hi with
    | some a, some b, some n, some l =>
      some (st, showList (modelPressureColumn st.c st.lab own a b n (optStr br) (optStr pm) (optStr pu) l))
    | _, _, _, _ => some (st, "bad-op")
  | ["mL", k, a, b, n, own, br, lb, lu, mb, mu, lo, hi] =>
    match parseRat k, parseRat a, parseRat b, n.toNat?, parseLimits lo hi with
    | some k, some a, some b, some n, some l =>
      some (st, showList (modelLoadingColumn st.c st.lab own (fun p => k * p) a b n (optStr br)
        (optStr lb) (optStr lu) (optStr mb) (optStr mu) l))
    | _, _, _, _, _ => some (st, "bad-op")
  | ["lat", ps, ls, q, pm, pu, lb, lu, mb, mu] =>
    match ratList ps, ratList ls, parseRat q with
    | some ps, some ls, some q =>
      some (st, showRes (pointLoadingAt st.c st.lab ps ls q (optStr pm) (optStr pu) (optStr lb) (optStr lu) (optStr mb) (optStr mu)))
    | _, _, _ => some (st, "bad-op")
  | ["pat", ls, ps, q, lb, lu, mb, mu, pm, pu] =>
    match ratList ls, ratList ps, parseRat q with
    | some ls, some ps, some q =>
      some (st, showRes (pointPressureAt st.c st.lab ls ps q (optStr lb) (optStr lu) (optStr mb) (optStr mu) (optStr pm) (optStr pu)))
    | _, _, _ => some (st, "bad-op")
  | ["mlat", k, q, pm, pu, lb, lu, mb, mu] =>
    match parseRat k, parseRat q with
    | some k, some q =>
      some (st, showRes (modelLoadingAt st.c st.lab (fun p => k * p) q (optStr pm) (optStr pu) (optStr lb) (optStr lu) (optStr mb) (optStr mu)))
    | _, _ => some (st, "bad-op")
  | ["mpat", k, q, lb, lu, mb, mu, pm, pu] =>
    match parseRat k, parseRat q with
    | some k, some q =>
      some (st, showRes (modelPressureAt st.c st.lab (fun l => l / k) q (optStr lb) (optStr lu) (optStr mb) (optStr mu) (optStr pm) (optStr pu)))
    | _, _ => some (st, "bad-op")
  | ["fli", xs, lo, hi, sm] =>
    match ratList xs, parseLimits lo hi, sm.toInt? with
    | some xs, some l, some sm =>
      some (st, match findLimitIndices xs l sm with
        | .ok (i, j) => s!"ok [{i};{j}]"
        | .error e => "err " ++ e.name)
    | _, _, _ => some (st, "bad-op")
  | _ => none

def stepOld (st : St) (ts : List String) : St × String :=
  match ts with
  | "ctx" :: ps :: e1 :: e2 :: e3 :: e4 :: e5 :: e6 :: e7 :: [t] =>
    match optRat ps, ([e1, e2, e3, e4, e5, e6, e7].mapM optRat).bind mkEnv, parseBool t with
    | some ps, some env, some t => ({ st with c := ⟨ps, env, t⟩ }, "ok")
    | _, _, _ => (st, "bad-op")
  | ["lab", pm, pu, lb, lu, mb, mu, tu] =>
    ({ st with lab := ⟨pm, optStr pu, lb, optStr lu, mb, optStr mu, optStr tu⟩ }, "ok")
  | [op, v, a, b] =>
    match parseRat v with
    | some v =>
      let f := match op with
        | "aP" => some (accessPressure st.c st.lab v (optStr a) (optStr b))
        | "iP" => some (inputPressure st.c st.lab v (optStr a) (optStr b))
        | "oPP" => some (outputPressurePoint st.c st.lab v (optStr a) (optStr b))
        | "oPM" => some (outputPressureModel st.c st.lab v (optStr a) (optStr b))
        | _ => none
      (st, match f with | some r => showRes r | none => "bad-op")
    | none =>
      match op with
      | "lim" =>
        let lim : Option (Option (Option ℚ × Option ℚ)) :=
          if a == "-" && b == "-" then some none
          else match optRat a, optRat b with
            | some lo, some hi => some (some (lo, hi))
            | _, _ => none
        match ratList v, lim with
        | some vs, some l => (st, "ok " ++ showRatList (applyLimits vs l))
        | _, _ => (st, "bad-op")
      | "il" =>
        match ratList v, ratList a, parseRat b with
        | some ps, some ls, some x =>
          (st, match interpLin (α := ℚ) ps ls x with | some r => "ok " ++ showRat r | none => "none")
        | _, _, _ => (st, "bad-op")
      | _ => (st, "bad-op")
  | [op, v, lb, lu, mb, mu] =>
    match parseRat v with
    | some v =>
      let f := match op with
        | "aLT" => some (accessLoadingTarget st.c st.lab v (optStr lb) (optStr lu) (optStr mb) (optStr mu))
        | "aLS" => some (accessLoadingStored st.c st.lab v (optStr lb) (optStr lu) (optStr mb) (optStr mu))
        | _ => none
      (st, match f with | some r => showRes r | none => "bad-op")
    | none => (st, "bad-op")
  | ["iL", cls, v, lb, lu, mb, mu] =>
    match parseBool cls, parseRat v with
    | some cls, some v => (st, showRes (inputLoading cls st.c st.lab v (optStr lb) (optStr lu) (optStr mb) (optStr mu)))
    | _, _ => (st, "bad-op")
  | ["split", ps] =>
    match ratList ps with
    | some ps => (st, "ok [" ++ ";".intercalate ((splitAds ps).map toString) ++ "]")
    | none => (st, "bad-op")
  | ["br", marks, b] =>
    match (parseList marks).bind (·.mapM String.toNat?) with
    | some ms =>
      let rows := (List.range ms.length).zip ms
      (st, match dataBranch rows (optStr b) with
        | .ok ix => "ok [" ++ ";".intercalate (ix.map toString) ++ "]"
        | .error e => "err " ++ e.name)
    | none => (st, "bad-op")
  | _ => (st, "bad-op")

def stepLine (st : St) (ts : List String) : St × String :=
  match stepNew st ts with
  | some r => r
  | none => stepOld st ts

def main : IO Unit := do
  loopS (← IO.getStdin) stepLine { c := ⟨none, fun _ => none, false⟩, lab := ⟨"", none, "", none, "", none, none⟩ }
