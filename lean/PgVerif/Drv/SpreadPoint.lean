/-
Driver for Model/SpreadPoint.lean at α = ℚ:   lake env lean --run PgVerif/Drv/SpreadPoint.lean
  sp [ps] [ls] [logs] p lq lgLast     -> ok n/d | none
  spd [ps] [ls] [logs] p lq lgLast    -> ok n/d | none          (data as stored: origin guard, then the fold; logs of the guarded data)
  il [ps] [ls] x                      -> ok n/d | none          (interpLin)
  nb [ps] p                           -> ok k                   (nBelow)
-/
import PgVerif.Model.SpreadPoint
import PgVerif.Drv.Proto
import Mathlib.Algebra.Order.Field.Rat

open PgVerif.Model PgVerif.Proto

def step (ts : List String) : String :=
  match ts with
  | ["sp", ps, ls, logs, p, lq, lg] =>
    match ratList ps, ratList ls, ratList logs, parseRat p, parseRat lq, parseRat lg with
    | some ps, some ls, some logs, some p, some lq, some lg =>
      match spreadPoint (α := ℚ) ps ls logs p lq lg with
      | some r => "ok " ++ showRat r
      | none => "none"
    | _, _, _, _, _, _ => "bad-op"
  | ["spd", ps, ls, logs, p, lq, lg] =>
    match ratList ps, ratList ls, ratList logs, parseRat p, parseRat lq, parseRat lg with
    | some ps, some ls, some logs, some p, some lq, some lg =>
      match spreadPointData (α := ℚ) ps ls logs p lq lg with
      | some r => "ok " ++ showRat r
      | none => "none"
    | _, _, _, _, _, _ => "bad-op"
  | ["il", ps, ls, x] =>
    match ratList ps, ratList ls, parseRat x with
    | some ps, some ls, some x =>
      match interpLin (α := ℚ) ps ls x with
      | some r => "ok " ++ showRat r
      | none => "none"
    | _, _, _ => "bad-op"
  | ["nb", ps, p] =>
    match ratList ps, parseRat p with
    | some ps, some p => s!"ok {nBelow (α := ℚ) ps p}"
    | _, _ => "bad-op"
  | _ => "bad-op"

def main : IO Unit := do loop (← IO.getStdin) step
