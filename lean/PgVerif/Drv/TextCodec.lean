/-
Driver for Model/TextCodec.lean:   lake env lean --run PgVerif/Drv/TextCodec.lean
  cast <hex of the UTF-8 bytes of the string>      -> none | bool T/F | int | float | list | str
  dom <sep hex> <hex>                              -> T | F    (inCsvDomain)
  line <sep hex> <hex line>                        -> ok <hex key> <hex value> | refused
  meta <sep hex> <hex line>…                       -> refused | read <n rest lines> <hex key>=<hex value>…   (`readMeta` with the GENERATED stop prefixes on the given lines)
  seq <hex>                                        -> err | list <c:hex>… | tuple <c:hex>… | scalar <c:hex>   (`fromList`; c = i | f, the item's class)
  tostr L|T <hex item>…                            -> <hex>          (`toStringSeq`)
  removeall <hex p> <hex s>                        -> <hex>          (`removeAll`)
  mat csv|xl|aif <hex key>                         -> not | prop <hex> | keyerror   (`matReadBy` with the GENERATED prefix and strip mode of that format)
  aifkey <hex key>                                 -> <hex tag> <hex key read back>|~   (`aifKeyEnc` / `aifKeyDec` with the generated prefix and slice)
  stripq <hex>                                     -> <hex>          (`stripChar '\''`)
  xlcount row|param|col|falsy <cells>              -> <n>            (`xlCount` with the generated end test; cells: e empty, s '', t text, z 0, n number, T/F booleans)
  gate csv|xl|aif <hex written>                    -> warn | ok | raise   (`gateWarns` with the generated gate and required version)
  tbl <name>                                       -> rows `;`-separated, fields `,`-separated, texts in hex, numbers in decimal
(an empty string is sent as `-`)
-/
import PgVerif.Model.TextCodec
import PgVerif.Gen.Formats
import PgVerif.Drv.Proto

open PgVerif.Model.TextCodec PgVerif.Proto
open PgVerif.Gen.Formats

def hexVal (c : Char) : Option Nat :=
  if '0' ≤ c ∧ c ≤ '9' then some (c.toNat - '0'.toNat)
  else if 'a' ≤ c ∧ c ≤ 'f' then some (c.toNat - 'a'.toNat + 10) else none

def unhex (s : String) : Option (List Char) :=
  if s == "-" then some [] else
  let rec go : List Char → ByteArray → Option ByteArray
    | [], acc => some acc
    | [_], _ => none
    | a :: b :: t, acc => do
      let x ← hexVal a
      let y ← hexVal b
      go t (acc.push (x * 16 + y).toUInt8)
  ((go s.toList ByteArray.empty).bind String.fromUTF8?).map String.toList

def hexOf (s : List Char) : String :=
  if s.isEmpty then "-" else
  let d := "0123456789abcdef".toList
  String.ofList ((String.ofList s).toUTF8.toList.flatMap fun b => [d.getD (b.toNat / 16) '0', d.getD (b.toNat % 16) '0'])

def showItem (t : List Char) : String :=
  (match pyNumClass t with | some .int => "i:" | some .float => "f:" | none => "?:") ++ hexOf t

def showSeq : Option Seq → String
  | none => "err"
  | some (.list items) => " ".intercalate ("list" :: items.map showItem)
  | some (.tuple items) => " ".intercalate ("tuple" :: items.map showItem)
  | some (.scalar t) => "scalar " ++ showItem t

def showMat : MatRead → String
  | .notMaterial => "not" | .prop n => "prop " ++ hexOf n | .keyError => "keyerror"

def cellOf : Char → Option Cell
  | 'e' => some .empty | 's' => some (.text []) | 't' => some (.text ['x']) | 'z' => some (.num true) | 'n' => some (.num false)
  | 'T' => some (.bool true) | 'F' => some (.bool false) | _ => none

def hx (s : String) : String := hexOf s.toList

def rows (l : List (List String)) : String := ";".intercalate (l.map fun r => ",".intercalate r)

def table : String → Option String
  | "aifMeta" => some (rows (aifMeta.map fun r => [hx r.1, hx r.2.1, hx r.2.2]))
  | "aifMetaOld" => some (rows (aifMetaOld.map fun r => [hx r.1, hx r.2.1, hx r.2.2]))
  | "aifData" => some (rows (aifData.map fun r => [hx r.1, hx r.2]))
  | "aifUnits" => some (rows (aifUnits.map fun r => [hx r]))
  | "xlMeta" => some (rows (xlMeta.map fun r => [hx r.1, hx r.2.1, hx r.2.2.1, toString r.2.2.2.1, toString r.2.2.2.2]))
  | "versions" => some (rows [[hx csvVersion.written, hx xlVersion.written, hx aifVersion.written]])
  | "precision" => some (toString parserPrecision)
  | "csvModelWriter" => some (rows (csvModelWriter.map fun r => [hx r.1, hx r.2.1, hx r.2.2]))
  | "csvModelReader" => some (rows (csvModelReader.map fun r => [hx r.1, hx r.2]))
  | "csvHeaders" => some (rows [[hx csvDataHeader, hx csvModelHeader]])
  | "xlPoint" => some (rows [[toString xlPointWriter.headerRow, toString xlPointWriter.dataRow, toString xlPointWriter.firstCol,
      toString xlPointWriter.dtypeRow, toString xlPointWriter.dtypeCol, toString xlValueColOffsetWriter]])
  | "xlModelWriter" => some (rows (xlModelWriter.map fun r => [toString r.1, hx r.2.1, toString r.2.2.1, hx r.2.2.2.1, hx r.2.2.2.2.1, toString r.2.2.2.2.2]))
  | "xlParams" => some (rows [[toString xlParamsWriter.firstRow, toString xlParamsWriter.nameCol, toString xlParamsWriter.valueCol, toString xlParamHeadingRow]])
  | "xlMarkers" => some (rows [xlMarkers.map hx])
  | "aifModelWriter" => some (rows (aifModelWriter.map fun r => [hx r.1, hx r.2.1, (match r.2.2.1 with | some i => toString i | none => "~"), hx r.2.2.2]))
  | "aifPrefixes" => some (rows [[hx aifCustomWriterPrefix, hx aifParamWriterPrefix, hx aifMaterial.writer, hx csvMaterial.writer, hx xlMaterial.writer]])
  | "csvStops" => some (rows [csvMetaStops.map hx])
  | "aifDispatch" => some (rows [[hx aifDispatchData, hx aifDispatchModel]])
  | "matStrip" => some (rows [[csvMaterial, xlMaterial, aifMaterial].map fun p => hx (match p.strip with | .replaceAll => "replaceAll" | .leading => "leading")])
  | "csvBranch" => some (rows (csvBranch.writer.map fun r => [toString r.1, hx r.2]))
  | "xlBranch" => some (rows (xlBranch.writer.map fun r => [toString r.1, hx r.2]))
  | "aifLoops" => some (rows (aifLoopsWriter.map fun r => [hx r.1, hx r.2.1] ++ r.2.2.map hx))
  | _ => none

def step (ts : List String) : String :=
  match ts with
  | "meta" :: sp :: hs =>
    match unhex sp, hs.mapM unhex with
    | some [c], some ls =>
      (match readMeta c (csvMetaStops.map String.toList) ls with
       | .refused => "refused"
       | .read es rest => " ".intercalate (["read", toString rest.length] ++ es.map fun kv => s!"{hexOf kv.1}={hexOf kv.2}"))
    | _, _ => "bad-op"
  | ["seq", h] => (match unhex h with | some s => showSeq (fromList s) | none => "bad-op")
  | "tostr" :: k :: hs =>
    match (if k == "L" then some SeqKind.list else if k == "T" then some SeqKind.tuple else none), hs.mapM unhex with
    | some kind, some items => hexOf (toStringSeq kind items)
    | _, _ => "bad-op"
  | ["removeall", hp, h] =>
    match unhex hp, unhex h with
    | some p, some s => if p.isEmpty then "bad-op" else hexOf (removeAll p s)
    | _, _ => "bad-op"
  | ["mat", f, h] =>
    match (if f == "csv" then some csvMaterial else if f == "xl" then some xlMaterial else if f == "aif" then some aifMaterial else none), unhex h with
    | some p, some key => showMat (matReadBy p.strip p.startsWith.toList key)
    | _, _ => "bad-op"
  | ["aifkey", h] =>
    match unhex h with
    | some k =>
      let tag := aifKeyEnc aifCustomWriterPrefix.toList k
      s!"{hexOf tag} {match aifKeyDec aifCustomReaderPrefix.toList aifCustomReaderSlice tag with | some b => hexOf b | none => "~"}"
    | none => "bad-op"
  | ["stripq", h] => (match unhex h with | some s => hexOf (stripChar '\'' s) | none => "bad-op")
  | ["xlcount", w, cs] =>
    match (if w == "row" then some xlRowEnd else if w == "param" then some xlParamRowEnd else if w == "col" then some xlColEnd
           else if w == "falsy" then some EndTest.falsy else none), cs.toList.mapM cellOf with
    | some t, some cells => toString (xlCount t cells)
    | _, _ => "bad-op"
  | ["gate", f, h] =>
    match (if f == "csv" then some csvVersion else if f == "xl" then some xlVersion else if f == "aif" then some aifVersion else none), unhex h with
    | some v, some w => (match gateWarns v.gate w v.required.toList with | some true => "warn" | some false => "ok" | none => "raise")
    | _, _ => "bad-op"
  | ["tbl", n] => (table n).getD "bad-op"
  | ["cast", h] =>
    match unhex h with
    | some s => (match castString s with
      | .none => "none" | .bool b => if b then "bool T" else "bool F" | .int _ => "int" | .float _ => "float" | .list _ => "list" | .str _ => "str")
    | none => "bad-op"
  | ["dom", sp, h] =>
    match unhex sp, unhex h with
    | some [c], some s => if inCsvDomain c s then "T" else "F"
    | _, _ => "bad-op"
  | ["line", sp, h] =>
    match unhex sp, unhex h with
    | some [c], some s => (match decodeLine c s with | some (k, v) => s!"ok {hexOf k} {hexOf v}" | none => "refused")
    | _, _ => "bad-op"
  | _ => "bad-op"

def main : IO Unit := do loop (← IO.getStdin) step
