/-
Driver for Model/TextCodec.lean:   lake env lean --run PgVerif/Drv/TextCodec.lean
  cast <hex of the UTF-8 bytes of the string>      -> none | bool T/F | int | float | list | str
  dom <sep hex> <hex>                              -> T | F    (inCsvDomain)
  line <sep hex> <hex line>                        -> ok <hex key> <hex value> | refused
(an empty string is sent as `-`)
-/
import PgVerif.Model.TextCodec
import PgVerif.Drv.Proto

open PgVerif.Model.TextCodec PgVerif.Proto

def hexVal (c : Char) : Option Nat :=
  if '0' ≤ c ∧ c ≤ '9' then some (c.toNat - '0'.toNat)
  else if 'a' ≤ c ∧ c ≤ 'f' then some (c.toNat - 'a'.toNat + 10) else none

def unhex (s : String) : Option (List Char) :=
  if s == "-" then some [] else
  let rec go : List Char → ByteArray → Option ByteArray
    | [], acc => some acc
    | [_], _ => none
    | a :: b :: t, acc => do
      let x ← hexVal a
      let y ← hexVal b
      go t (acc.push (x * 16 + y).toUInt8)
  ((go s.toList ByteArray.empty).bind String.fromUTF8?).map String.toList

def hexOf (s : List Char) : String :=
  if s.isEmpty then "-" else
  let d := "0123456789abcdef".toList
  String.ofList ((String.ofList s).toUTF8.toList.flatMap fun b => [d.getD (b.toNat / 16) '0', d.getD (b.toNat % 16) '0'])

def step (ts : List String) : String :=
  match ts with
  | ["cast", h] =>
    match unhex h with
    | some s => (match castString s with
      | .none => "none" | .bool b => if b then "bool T" else "bool F" | .int _ => "int" | .float _ => "float" | .list _ => "list" | .str _ => "str")
    | none => "bad-op"
  | ["dom", sp, h] =>
    match unhex sp, unhex h with
    | some [c], some s => if inCsvDomain c s then "T" else "F"
    | _, _ => "bad-op"
  | ["line", sp, h] =>
    match unhex sp, unhex h with
    | some [c], some s => (match decodeLine c s with | some (k, v) => s!"ok {hexOf k} {hexOf v}" | none => "refused")
    | _, _ => "bad-op"
  | _ => "bad-op"

def main : IO Unit := do loop (← IO.getStdin) step
