/-
Driver that echoes the generated schema data (Gen/Schema.lean), so that the harness can compare what the Lean theorems are about
with the schema of a database created by the real `db_create`:
   lake env lean --run PgVerif/Drv/Schema.lean
  tables        number of tables
  table <i>     the i-th table (alphabetical): fields separated by TAB
                  <name> { COL <name> <type> <T|F notnull> <pk position> <~ | =default> } { UNIQ <c,c> } { FK <c,c> <table> <c,c> <on delete> <on update> } { EXTRA <keyword> }
                `none` when there is no such table
  other         TAB-separated <kind>,<name> of the schema objects that are neither tables nor automatic indexes
  pragmas       TAB-separated statements `with_connection` executes on every connection
  ops           TAB-separated <entry point>=<table,table> (transitive)
  opsdirect     same, statements of the entry point itself only
In every field `\`, newline, TAB and `,` are written `\\`, `\n`, `\t`, `\c`.
-/
import PgVerif.Gen.Schema
import PgVerif.Drv.Proto

open PgVerif.Gen.Schema PgVerif.Proto

def esc (s : String) : String :=
  (((s.replace "\\" "\\\\").replace "\n" "\\n").replace "\t" "\\t").replace "," "\\c"

def cl (l : List String) : String := ",".intercalate (l.map esc)
def tl (l : List String) : String := "\t".intercalate l

def showTable (t : Table) : String :=
  tl ([esc t.name] ++
    t.columns.flatMap (fun c => ["COL", esc c.name, esc c.type, if c.notnull then "T" else "F", toString c.pk,
                                 match c.dflt with | none => "~" | some d => "=" ++ esc d]) ++
    t.uniques.flatMap (fun u => ["UNIQ", cl u]) ++
    t.fks.flatMap (fun f => ["FK", cl f.cols, esc f.refTable, cl f.refCols, esc f.onDelete, esc f.onUpdate]) ++
    t.extras.flatMap (fun e => ["EXTRA", esc e]))

def showOps (l : List (String × List String)) : String := tl (l.map fun e => esc e.1 ++ "=" ++ cl e.2)

def step (ts : List String) : String :=
  match ts with
  | ["tables"] => toString tables.length
  | ["table", i] =>
    match i.toNat? with
    | some i => match tables[i]? with | some t => showTable t | none => "none"
    | none => "bad-op"
  | ["other"] => tl (otherObjects.map fun o => esc o.1 ++ "," ++ esc o.2)
  | ["pragmas"] => tl (connPragmas.map esc)
  | ["ops"] => showOps opTables
  | ["opsdirect"] => showOps opTablesDirect
  | _ => "bad-op"

def main : IO Unit := do
  loop (← IO.getStdin) step
