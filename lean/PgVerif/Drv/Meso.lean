/-
Driver for Model/MesoSession.lean (stateful: one interpreter session):   lake env lean --run PgVerif/Drv/Meso.lean
  create <name> <M> <rho> <gamma> <rho_molar> <T|F store>        -> ok <object id>
  unregister <name>                                              -> ok 0
  edit <object id> <M> <rho> <gamma> <rho_molar>                 -> ok <object id> | refused
  iso <name> <temperature> <molar|mass> [pressure] [loading mmol/g | mg/g]   -> ok <object id held> | refused
  analyse <iso index> <method> <geometry> <factor> <K|J> <N|L> <lo> <hi> [thick] [ln p]
                                                                 -> ok [widths] [areas] [volumes] [dist] [cum] <min> <max> [width increments] | refused
  tcurve <monolayer> [ps] [ns] [xs]                              -> ok [thickness at xs]      (standard thickness curve)
-/
import PgVerif.Gen.CharF
import PgVerif.Model.MesoSession
import PgVerif.Drv.Proto
import Mathlib.Algebra.Order.Field.Rat

open PgVerif.Proto PgVerif.Model.Meso PgVerif.Model.MesoSession PgVerif.Gen.CharF

def q (c : Nat × Nat) : ℚ := (c.1 : ℚ) / (c.2 : ℚ)

def props (m rho g rm : String) : Option (AdsProps ℚ) := do
  some ⟨← parseRat m, ← parseRat rho, ← parseRat g, ← parseRat rm⟩

def showOut (o : Out ℚ) : String :=
  match o with
  | .done id => s!"ok {id}"
  | .refused => "refused"
  | .result r =>
    s!"ok {showRatList r.result.widths} {showRatList r.result.areas} {showRatList r.result.volumes} {showRatList r.result.distribution} {showRatList r.cumulative} {r.window.1} {r.window.2} {showRatList (increments r.fullWidths)}"

def parseOp (ts : List String) : Option (Op ℚ) :=
  match ts with
  | ["create", name, m, rho, g, rm, store] => do
    some (.create name (← props m rho g rm) (← parseBool store))
  | ["unregister", name] => some (.unregister name)
  | ["edit", obj, m, rho, g, rm] => do
    some (.edit (← obj.toNat?) (← props m rho g rm))
  | ["iso", name, temp, basis, ps, ld] => do
    if basis ≠ "molar" ∧ basis ≠ "mass" then none
    some (.newIso name ⟨← parseRat temp, ← ratList ps, basis = "mass", ← ratList ld⟩)
  | ["analyse", iso, m, g, f, k, flag, lo, hi, thick, lnp] => do
    let lo ← optRat lo
    let hi ← optRat hi
    let limits : Option (Option ℚ × Option ℚ) := if flag = "N" then none else some (lo, hi)
    if k ≠ "K" ∧ k ≠ "J" then none
    some (.analyse (← iso.toNat?) ⟨m, g, ← parseRat f, k = "J", limits, ← ratList thick, ← ratList lnp⟩)
  | _ => none

def stepLine (s : State ℚ) (ts : List String) : State ℚ × String :=
  match ts with
  | ["tcurve", mono, ps, ns, xs] =>
    match parseRat mono, ratList ps, ratList ns, ratList xs with
    | some mono, some ps, some ns, some xs =>
      (s, "ok " ++ showRatList (xs.map (standardThickness (q layerThickness) mono ps ns)))
    | _, _, _, _ => (s, "bad-op")
  | _ =>
    match parseOp ts with
    | none => (s, "bad-op")
    | some op =>
      let (s', o) := step (q gasConstant) (q mesoLo) (q mesoHi) s op
      (s', showOut o)

def main : IO Unit := do loopS (← IO.getStdin) stepLine State.empty
