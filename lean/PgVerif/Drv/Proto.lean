/-
Line protocol helpers shared by the drivers (no Mathlib): tokens are separated by single blanks;
`~` = None, `""` = empty string, `n/d` = exact rational, `[a;b;c]` = list, `T`/`F` = booleans.
A line that cannot be parsed is answered `bad-op` (never a default).
-/
namespace PgVerif.Proto

def optStr (t : String) : Option String :=
  if t == "~" then none else if t == "\"\"" then some "" else some t

def parseRat (t : String) : Option Rat :=
  match t.splitOn "/" with
  | [n, d] => do
    let n ← n.toInt?
    let d ← d.toNat?
    if d == 0 then none else some (Rat.divInt n d)
  | [n] => do
    let n ← n.toInt?
    some (n : Rat)
  | _ => none

def optRat (t : String) : Option (Option Rat) :=
  if t == "~" then some none else (parseRat t).map some

def parseList (t : String) : Option (List String) :=
  if t.startsWith "[" && t.endsWith "]" then
    let inner := (t.drop 1).dropEnd 1 |>.toString
    if inner == "" then some [] else some (inner.splitOn ";")
  else none

def ratList (t : String) : Option (List Rat) := do
  let l ← parseList t
  l.mapM parseRat

def showRat (q : Rat) : String := s!"{q.num}/{q.den}"

def showRatList (l : List Rat) : String := "[" ++ ";".intercalate (l.map showRat) ++ "]"

def parseBool (t : String) : Option Bool :=
  if t == "T" then some true else if t == "F" then some false else none

def tokens (line : String) : List String :=
  (line.trimAscii.toString.splitOn " ").filter (· ≠ "")

/-- read stdin line by line, answer each with `step` -/
partial def loop (h : IO.FS.Stream) (step : List String → String) : IO Unit := do
  let line ← h.getLine
  if line.isEmpty then return ()
  IO.println (step (tokens line))
  loop h step

/-- stateful variant -/
partial def loopS {σ : Type} (h : IO.FS.Stream) (step : σ → List String → σ × String) (s : σ) : IO Unit := do
  let line ← h.getLine
  if line.isEmpty then return ()
  let (s', out) := step s (tokens line)
  IO.println out
  loopS h step s'

end PgVerif.Proto
