/-
Driver for the characterisation models:   lake env lean --run PgVerif/Drv/Char.lean
  ev <name> [<bits>;…]                         generated Float formula (Gen/CharF.lean)        -> ok <bits> | none
  win bet|lang|da|meso N|L <lo> <hi> [ps] [roq] window selection at ℚ (`N` = p_limits is None)  -> ok min max | refused
  ols [xs] [ys]                                 least squares at ℚ                              -> ok slope intercept | degenerate
  sec <lo> <hi> [curve]                         open section (t-plot / alpha-s limits)          -> ok [i;j;…]
  meso <method> <geometry> [vol] [thick] [kelvin] [volwindow]    -> ok [widths] [areas] [volumes] [dist] [cum] [width increments] | refused
  hktail [widths] [vol]                         tail of the HK functions                        -> ok [avg widths] [dist] [cum]
  hkwidth <geometry> <d_mat> <l>                reported width                                  -> ok n/d | none
  hksolve <geo> [ps] [key p] [widths]           `_solve_hk` loop, minimiser = measured single-point widths (table) -> ok [widths]
  hksolvecy <geo> [ps] [loading] [key p] [key coverage] [widths]   `_solve_hk_cy` loop (coverage at ℚ with 101/100) -> ok [widths]
  mg <branch> <pore geometry>                   meniscus geometry table                         -> ok <name> | none
  gf <meniscus geometry>                        geometry factor                                 -> ok n/d | none
-/
import PgVerif.Gen.CharF
import PgVerif.Model.Linear
import PgVerif.Model.Meso
import PgVerif.Model.Micro
import PgVerif.Drv.Proto
import Mathlib.Algebra.Order.Field.Rat

open PgVerif.Proto PgVerif.Model.Linear PgVerif.Model.Meso PgVerif.Gen.CharF

def fOfBits (t : String) : Option Float := t.toNat?.map fun n => Float.ofBits n.toUInt64

def q (c : Nat × Nat) : ℚ := (c.1 : ℚ) / (c.2 : ℚ)

def showWin (w : Option (Nat × Nat)) : String :=
  match w with
  | some (a, b) => s!"ok {a} {b}"
  | none => "refused"

def step (ts : List String) : String :=
  match ts with
  | ["ev", name, args] =>
    match (parseList args).bind (·.mapM fOfBits) with
    | some args =>
      match evalChar name args with
      | some r => s!"ok {r.toBits.toNat}"
      | none => "none"
    | none => "bad-op"
  | ["win", kind, flag, lo, hi, ps, roq] =>
    match optRat lo, optRat hi, ratList ps, ratList roq with
    | some lo, some hi, some ps, some roq =>
      let limits : Option (Option ℚ × Option ℚ) := if flag = "N" then none else some (lo, hi)
      if kind = "bet" then showWin (betWindow ps roq (q betMinFrac) limits)
      else if kind = "lang" then showWin (langWindow ps (q langLo) (q langHi) limits)
      else if kind = "da" then showWin (daWindow ps limits)
      else if kind = "meso" then showWin (mesoWindow ps (q mesoLo) (q mesoHi) limits)
      else if kind = "micro" then showWin (PgVerif.Model.Micro.microWindow ps (q microHi) limits)
      else "bad-op"
    | _, _, _, _ => "bad-op"
  | ["ols", xs, ys] =>
    match ratList xs, ratList ys with
    | some xs, some ys =>
      if xs.length ≠ ys.length ∨ sxy xs xs = 0 then "degenerate"
      else let r := ols xs ys; s!"ok {showRat r.1} {showRat r.2}"
    | _, _ => "bad-op"
  | ["sec", lo, hi, curve] =>
    match parseRat lo, parseRat hi, ratList curve with
    | some lo, some hi, some curve =>
      "ok [" ++ ";".intercalate ((openSection curve lo hi).map toString) ++ "]"
    | _, _, _ => "bad-op"
  | ["meso", m, g, vol, thick, kelvin] =>
    match ratList vol, ratList thick, ratList kelvin with
    | some vol, some thick, some kelvin =>
      match method (α := ℚ) m g vol thick kelvin with
      | some r => s!"ok {showRatList r.widths} {showRatList r.areas} {showRatList r.volumes} {showRatList r.distribution} {showRatList (cumulative r.volumes vol)} {showRatList (increments (fullWidths thick kelvin))}"
      | none => "refused"
    | _, _, _ => "bad-op"
  | ["hktail", widths, vol] =>
    match ratList widths, ratList vol with
    | some widths, some vol =>
      let r := PgVerif.Model.Micro.tail (α := ℚ) widths vol
      s!"ok {showRatList r.widths} {showRatList r.distribution} {showRatList r.cumulative}"
    | _, _ => "bad-op"
  | ["hkwidth", g, dmat, l] =>
    match parseRat dmat, parseRat l with
    | some dmat, some l =>
      match PgVerif.Model.Micro.reportedWidth (α := ℚ) g dmat l with
      | some r => "ok " ++ showRat r
      | none => "none"
    | _, _ => "bad-op"
  | ["hksolve", geo, ps, kp, vals] =>
    match parseRat geo, ratList ps, ratList kp, ratList vals with
    | some geo, some ps, some kp, some vals =>
      "ok " ++ showRatList (PgVerif.Model.Micro.solveHK (α := ℚ) (PgVerif.Model.Micro.tableSolve (kp.zip vals)) geo ps)
    | _, _, _, _ => "bad-op"
  | ["hksolvecy", geo, ps, loading, kp, kc, vals] =>
    match parseRat geo, ratList ps, ratList loading, ratList kp, ratList kc, ratList vals with
    | some geo, some ps, some loading, some kp, some kc, some vals =>
      let table : List ((ℚ × ℚ) × ℚ) := (kp.zip kc).zip vals
      "ok " ++ showRatList (PgVerif.Model.Micro.solveHKCY (α := ℚ)
        (fun p c => PgVerif.Model.Micro.tableSolve table (p, c)) (101 / 100) geo ps loading)
    | _, _, _, _, _, _ => "bad-op"
  | ["hkdispatch", m] =>
    match PgVerif.Model.Micro.dispatch m with
    | some (ry, cy) => s!"ok {ry} {cy}"
    | none => "none"
  | ["mg", b, g] =>
    match meniscusGeometry.lookup (b, g) with
    | some r => "ok " ++ r
    | none => "none"
  | ["gf", g] =>
    match geometryFactor.lookup g with
    | some (n, d) => s!"ok {n}/{d}"
    | none => "none"
  | _ => "bad-op"

def main : IO Unit := do loop (← IO.getStdin) step
