/-
Driver for Model/Pager.lean: the model's verdict on a transaction environment read from a live connection.
   lake env lean --run PgVerif/Drv/Pager.lean
  env <journal_mode> <synchronous> <T|F one transaction per call>
        journal_mode as `PRAGMA journal_mode` prints it (delete | truncate | persist = a journal FILE; memory; off;
        anything else, e.g. wal, is not modelled), synchronous as `PRAGMA synchronous` prints it (0 = OFF, 1 = NORMAL, 2 = FULL, 3 = EXTRA)
  reply: death=<atomic|tears> power=<atomic|tears>     (`Env.deathSafe`, `Env.powerSafe`;  Props/C09/Pager: deathSafe_sound/complete …)
         unmodelled-journal | bad-op
-/
import PgVerif.Model.Pager
import PgVerif.Drv.Proto

open PgVerif.Model.Pager PgVerif.Proto

def parseJournal (t : String) : Option Journal :=
  if t == "delete" || t == "truncate" || t == "persist" then some .file
  else if t == "memory" then some .memory
  else if t == "off" then some .off
  else none

def verdict (b : Bool) : String := if b then "atomic" else "tears"

def stepLine (ts : List String) : String :=
  match ts with
  | ["env", jm, sy, one] =>
    match sy.toInt?, parseBool one with
    | some sy, some one =>
      match parseJournal jm with
      | some j =>
        let env : Env := ⟨j, decide (sy ≥ 1), one⟩
        s!"death={verdict env.deathSafe} power={verdict env.powerSafe}"
      | none => "unmodelled-journal"
    | _, _ => "bad-op"
  | _ => "bad-op"

def main : IO Unit := do
  loop (← IO.getStdin) stepLine
