/-
Driver for Model/Accessor.lean at α = ℚ:   lake env lean --run PgVerif/Drv/Accessor.lean
  acc <gen|spec|both> <method> <calculate T|F|~ (= the default of the signature)> <temp n/d|~> <press n/d|~> <unit|~> <dict> <backend>
        dict    = [key:n/d;…]                       the numeric entries of `properties`
        backend = [<s|p>:<getter>:<n|QT|PQ>:<q n/d|~>:<x n/d|~>:<value n/d | ~ (raises)>;…]
                  s = state object, p = PropsSI; QT: q = quality, x = temperature; PQ: q = quality, x = pressure;
                  a read that has no entry raises
        -> ok n/d | err <class>          (both: `<gen result> ; <spec result>`)
  mat <gen|spec|both> <property> <dict> <attrs [a;b;…]>     -> ok n/d | ok ~ | err <class>         (Material property getter)
  getprop <gen|spec|both> <Adsorbate|Material> <key> <dict> <attrs>  -> ok n/d | ok ~ | err <class>
`gen` runs the descriptors generated from the source on this run, `spec` the independent table.
-/
import PgVerif.Model.Accessor
import PgVerif.Gen.Accessors
import PgVerif.Spec.Accessors
import PgVerif.Drv.Proto
import Mathlib.Algebra.Order.Field.Rat

open PgVerif.Model PgVerif.Model.Acc PgVerif.Proto

def showRes (r : Except Err ℚ) : String :=
  match r with
  | .ok q => "ok " ++ showRat q
  | .error e => "err " ++ e.name

def showOpt (r : Except Err (Option ℚ)) : String :=
  match r with
  | .ok (some q) => "ok " ++ showRat q
  | .ok none => "ok ~"
  | .error e => "err " ++ e.name

def parseDict (t : String) : Option (Dict ℚ) := do
  let l ← parseList t
  let kv ← l.mapM fun e =>
    match e.splitOn ":" with
    | [k, v] => (parseRat v).map fun q => (k, q)
    | _ => none
  pure fun k => kv.lookup k

structure BEntry where
  src : Source
  getter : String
  inp : Inp ℚ
  val : Option ℚ

def parseEntry (e : String) : Option BEntry :=
  match e.splitOn ":" with
  | [s, g, k, q, x, v] => do
    let src ← if s == "s" then some Source.state else if s == "p" then some Source.propsSI else none
    let val ← optRat v
    let inp ← match k with
      | "n" => if q == "~" && x == "~" then some Inp.none else none
      | "QT" => do some (Inp.QT (← parseRat q) (← parseRat x))
      | "PQ" => do some (Inp.PQ (← parseRat x) (← parseRat q))
      | _ => none
    pure ⟨src, g, inp, val⟩
  | _ => none

def parseBackend (t : String) : Option (Backend ℚ) := do
  let l ← parseList t
  let es ← l.mapM parseEntry
  pure fun s g i =>
    match es.find? (fun e => e.src == s && e.getter == g && e.inp == i) with
    | some e => e.val
    | none => none

def table (which : String) : Option (List Desc × List GetPropDesc × List MatDesc) :=
  if which == "gen" then some (PgVerif.Gen.Accessors.adsorbate, PgVerif.Gen.Accessors.getProp, PgVerif.Gen.Accessors.material)
  else if which == "spec" then some (PgVerif.Spec.Accessors.adsorbate, PgVerif.Spec.Accessors.getProp, PgVerif.Spec.Accessors.material)
  else none

def optBool (t : String) : Option (Option Bool) :=
  if t == "~" then some none else (parseBool t).map some

def step (ts : List String) : String :=
  match ts with
  | ["acc", w, name, c, temp, press, unit, dict, backend] =>
    match optBool c, optRat temp, optRat press, parseDict dict, parseBackend backend with
    | some c, some temp, some press, some D, some B =>
      let one (ds : List Desc) : String :=
        match ds.find? (·.name == name) with
        | none => "err nomethod"
        | some d =>
          match (match c with | some b => some b | none => defaultCalculate d) with
          | none => "err nodefault"
          | some cb => showRes (call ds name B D { temp := temp, press := press, unit := optStr unit, calculate := cb })
      if w == "both" then one PgVerif.Gen.Accessors.adsorbate ++ " ; " ++ one PgVerif.Spec.Accessors.adsorbate
      else match table w with
        | some (ds, _, _) => one ds
        | none => "bad-op"
    | _, _, _, _, _ => "bad-op"
  | ["mat", w, name, dict, attrs] =>
    match parseDict dict, parseList attrs with
    | some D, some ats =>
      let one (t : List Desc × List GetPropDesc × List MatDesc) : String :=
        match t.2.2.find? (·.name == name), t.2.1.find? (·.cls == "Material") with
        | some m, some g => showOpt (matGet g D (fun k => ats.contains k) m.body)
        | _, _ => "err nomethod"
      match w, table "gen", table "spec" with
      | "both", some g, some s => one g ++ " ; " ++ one s
      | "gen", some g, _ => one g
      | "spec", _, some s => one s
      | _, _, _ => "bad-op"
    | _, _ => "bad-op"
  | ["getprop", w, cls, key, dict, attrs] =>
    match parseDict dict, parseList attrs with
    | some D, some ats =>
      let one (t : List Desc × List GetPropDesc × List MatDesc) : String :=
        match t.2.1.find? (·.cls == cls) with
        | some g => showOpt (getProp g D (fun k => ats.contains k) key)
        | none => "err nomethod"
      match w, table "gen", table "spec" with
      | "both", some g, some s => one g ++ " ; " ++ one s
      | "gen", some g, _ => one g
      | "spec", _, some s => one s
      | _, _, _ => "bad-op"
    | _, _ => "bad-op"
  | _ => "bad-op"

def main : IO Unit := do loop (← IO.getStdin) step
