/-
A kernel-friendly duplicate check: `strictSorted (msort fuel l) = true → l.Nodup`.
(`List.Nodup` by `decide` is quadratic — 3 minutes on the 817 shipped aliases; this is n·log n — a second.)
-/
import Mathlib.Data.List.Perm.Basic
import Mathlib.Data.List.Nodup
import Mathlib.Data.List.Sort
import Mathlib.Tactic

namespace PgVerif.SortCheck

def strictSorted : List Nat → Bool
  | a :: b :: t => decide (a < b) && strictSorted (b :: t)
  | _ => true

/-- split into the elements at even and odd positions -/
def halve : List Nat → List Nat × List Nat
  | [] => ([], [])
  | [a] => ([a], [])
  | a :: b :: t => let (l, r) := halve t; (a :: l, b :: r)

/-- merge with explicit fuel (structural for the kernel) -/
def merge : Nat → List Nat → List Nat → List Nat
  | 0, l, r => l ++ r
  | _ + 1, [], r => r
  | _ + 1, l, [] => l
  | f + 1, a :: l, b :: r => if a ≤ b then a :: merge f l (b :: r) else b :: merge f (a :: l) r

def msort : Nat → List Nat → List Nat
  | 0, l => l
  | _ + 1, [] => []
  | _ + 1, [a] => [a]
  | f + 1, l => let (x, y) := halve l; merge (l.length) (msort f x) (msort f y)

theorem halve_perm : ∀ l : List Nat, ((halve l).1 ++ (halve l).2).Perm l
  | [] => by simp [halve]
  | [a] => by simp [halve]
  | a :: b :: t => by
    have ih := halve_perm t
    simp only [halve]
    have : (a :: (halve t).1 ++ b :: (halve t).2).Perm (a :: b :: ((halve t).1 ++ (halve t).2)) := by
      simp only [List.cons_append]
      exact List.Perm.cons a (List.perm_middle)
    exact this.trans (List.Perm.cons a (List.Perm.cons b ih))

theorem merge_perm (f : Nat) (l r : List Nat) : (merge f l r).Perm (l ++ r) := by
  induction f generalizing l r with
  | zero => simp [merge]
  | succ f ih =>
    cases l with
    | nil => simp [merge]
    | cons a l =>
      cases r with
      | nil => simp [merge]
      | cons b r =>
        simp only [merge]
        split
        · exact List.Perm.cons a (ih l (b :: r))
        · have h := List.Perm.cons b (ih (a :: l) r)
          exact h.trans (List.perm_middle.symm)

theorem msort_perm (f : Nat) (l : List Nat) : (msort f l).Perm l := by
  induction f generalizing l with
  | zero => simp [msort]
  | succ f ih =>
    match l with
    | [] => simp [msort]
    | [a] => simp [msort]
    | a :: b :: t =>
      simp only [msort]
      refine (merge_perm _ _ _).trans ?_
      refine ((ih _).append (ih _)).trans ?_
      exact halve_perm (a :: b :: t)

theorem nodup_of_strictSorted (l : List Nat) (h : strictSorted l = true) : l.Nodup := by
  have hs : l.Pairwise (· < ·) := by
    induction l with
    | nil => exact List.Pairwise.nil
    | cons a t ih =>
      cases t with
      | nil => exact List.pairwise_singleton _ _
      | cons b t =>
        simp only [strictSorted, Bool.and_eq_true, decide_eq_true_eq] at h
        have ht := ih h.2
        refine List.Pairwise.cons ?_ ht
        intro x hx
        rcases List.mem_cons.mp hx with rfl | hx'
        · exact h.1
        · exact lt_trans h.1 (List.rel_of_pairwise_cons ht hx')
  exact hs.imp (fun hab => ne_of_lt hab)

/-- the check used by the property theorems -/
theorem nodup_of_check (f : Nat) (l : List Nat) (h : strictSorted (msort f l) = true) : l.Nodup :=
  ((msort_perm f l).nodup_iff).mp (nodup_of_strictSorted _ h)

end PgVerif.SortCheck
