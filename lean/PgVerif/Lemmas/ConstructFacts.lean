/-
Facts about `Model/Construct.construct` shared by Props/C05/Construct.lean (which restates them as theorems), Props/C02/Construct.lean and
Props/C06/Params.lean: accepted ⇔ valid labels after defaulting, what ends up among the metadata, well-formedness of an accepted isotherm.
Kept apart from the C05 theorem file so that the C02 / C06 cones do not depend on the ties of the generated tables to the documented
interface (a changed default breaks C05's obligations, not theirs).
-/
import Mathlib.Tactic
import PgVerif.Lemmas.Construct

set_option linter.unusedSimpArgs false

namespace PgVerif.Model.Construct
open PgVerif.Gen PgVerif.Gen.IsoParams

variable {α : Type}

section
variable [Field α]

/-- the label state the checks see: defaults for absent keys, `pressure_unit` forced to `None` under a `relative…` mode; a unit that is
not a string is no unit; `none` when a mode / basis is not a string at all -/
def effLabels (kw : Args α) : Option Labels :=
  match strOf (eff kw "pressure_mode"), strOf (eff kw "loading_basis"), strOf (eff kw "material_basis") with
  | some pms, some lbs, some mbs =>
    some ⟨pms, strOf (forced pms (eff kw "pressure_unit")), lbs, strOf (eff kw "loading_unit"), mbs, strOf (eff kw "material_unit"),
          strOf (eff kw "temperature_unit")⟩
  | _, _, _ => none

omit [Field α] in
/-- the label checks of the constructor accept exactly the states `validLabels` accepts -/
lemma checkLabels_accepts_iff_validLabels (kw : Args α) :
    (∃ l, checkLabels (eff kw "pressure_mode") (eff kw "pressure_unit") (eff kw "loading_basis") (eff kw "loading_unit")
        (eff kw "material_basis") (eff kw "material_unit") (eff kw "temperature_unit") = .ok l ∧ effLabels kw = some l.labels) ↔
      ∃ L, effLabels kw = some L ∧ validLabels L = true := by
  constructor
  · rintro ⟨l, hl, he⟩
    exact ⟨l.labels, he, ((checkLabels_ok_iff _ _ _ _ _ _ _ _).1 hl).choose_spec.choose_spec.choose_spec.choose_spec.2.2.2.2.2⟩
  · rintro ⟨L, he, hv⟩
    unfold effLabels at he
    cases h1 : strOf (eff kw "pressure_mode") with
    | none => simp [h1] at he
    | some pms =>
      cases h2 : strOf (eff kw "loading_basis") with
      | none => simp [h1, h2] at he
      | some lbs =>
        cases h3 : strOf (eff kw "material_basis") with
        | none => simp [h1, h2, h3] at he
        | some mbs =>
          simp only [h1, h2, h3, Option.some.injEq] at he
          subst he
          cases h4 : strOf (eff kw "temperature_unit") with
          | none => simp [validLabels, h4] at hv
          | some tus =>
            refine ⟨⟨pms, forced pms (eff kw "pressure_unit"), lbs, eff kw "loading_unit", mbs, eff kw "material_unit", tus⟩, ?_, ?_⟩
            · apply (checkLabels_ok_iff _ _ _ _ _ _ _ _).2
              refine ⟨pms, lbs, mbs, tus, (strOf_eq_some _ _).1 h1, (strOf_eq_some _ _).1 h2, (strOf_eq_some _ _).1 h3,
                (strOf_eq_some _ _).1 h4, rfl, ?_⟩
              simpa [LabelVals.labels, h4] using hv
            · simp [effLabels, h1, h2, h3, h4, LabelVals.labels]

/-- **the constructor accepts exactly the label states `validLabels` accepts** (after defaulting and forcing), once the three required
descriptors are usable; and the labels it stores are that state -/
lemma construct_accepts_iff_validLabels (w : World α) (a : Args α) (ads : String) (t : α)
    (hreq : missingRequired (prepCall a) = false) (hads : setAdsorbate w (prepCall a).adsorbate = .ok ads)
    (ht : toFloat (prepCall a).temperature = .ok t) :
    (∃ i, construct w a = .ok i ∧ effLabels (prepCall a).kw = some i.lab.labels) ↔
      ∃ L, effLabels (prepCall a).kw = some L ∧ validLabels L = true := by
  rw [← checkLabels_accepts_iff_validLabels, construct_eq]
  simp only [hreq, hads, ht, Except.bind, Bool.false_eq_true, if_false]
  constructor
  · rintro ⟨i, hi, he⟩
    cases hc : checkLabels (eff (prepCall a).kw "pressure_mode") (eff (prepCall a).kw "pressure_unit") (eff (prepCall a).kw "loading_basis")
        (eff (prepCall a).kw "loading_unit") (eff (prepCall a).kw "material_basis") (eff (prepCall a).kw "material_unit")
        (eff (prepCall a).kw "temperature_unit") with
    | error e => simp [hc] at hi
    | ok l =>
      simp only [hc, Except.ok.injEq] at hi
      subst hi
      exact ⟨l, rfl, he⟩
  · rintro ⟨l, hl, he⟩
    refine ⟨⟨setMaterial w (prepCall a).material, ads, t, l, (prepCall a).kw.filter fun kv => !unitPops.contains kv.1⟩, ?_, he⟩
    simp only [hl]

/-- every accepted isotherm carries a valid label set -/
lemma accepted_labels_valid (w : World α) (a : Args α) (i : Construct.Iso α) (h : construct w a = .ok i) : validLabels i.lab.labels = true := by
  rw [construct_eq] at h
  split_ifs at h
  rcases h1 : setAdsorbate w (prepCall a).adsorbate with e | ads
  · simp [h1, Except.bind] at h
  · rcases h2 : toFloat (prepCall a).temperature with e | t
    · simp [h1, h2, Except.bind] at h
    · cases hc : checkLabels (eff (prepCall a).kw "pressure_mode") (eff (prepCall a).kw "pressure_unit") (eff (prepCall a).kw "loading_basis")
          (eff (prepCall a).kw "loading_unit") (eff (prepCall a).kw "material_basis") (eff (prepCall a).kw "material_unit")
          (eff (prepCall a).kw "temperature_unit") with
      | error e => simp [h1, h2, hc, Except.bind] at h
      | ok l =>
        simp only [h1, h2, hc, Except.bind, Except.ok.injEq] at h
        subst h
        exact ((checkLabels_ok_iff _ _ _ _ _ _ _ _).1 hc).choose_spec.choose_spec.choose_spec.choose_spec.2.2.2.2.2

/-- **the metadata are exactly the keyword arguments that are not a unit parameter, a named parameter or a shorthand** -/
lemma properties_are_the_other_keys (w : World α) (a : Args α) (i : Construct.Iso α) (h : construct w a = .ok i) (k : String) :
    i.properties.lookup k = if unitPops.contains k || specialKeys.contains k then none else a.lookup k := by
  obtain ⟨-, -, -, -, -, hp⟩ := (construct_ok_iff w a i).1 h
  rw [hp, prepCall_eq]
  show ((a.filter fun kv => !specialKeys.contains kv.1).filter fun kv => !unitPops.contains kv.1).lookup k = _
  rw [lookup_filter_key _ (fun k => !unitPops.contains k) k, lookup_filter_key a (fun k => !specialKeys.contains k) k]
  cases unitPops.contains k <;> cases specialKeys.contains k <;> simp

/-- no unit parameter, required descriptor or shorthand appears among the metadata; every metadata key was passed by the caller -/
lemma reserved_keys_not_in_properties (w : World α) (a : Args α) (i : Construct.Iso α) (h : construct w a = .ok i) :
    ∀ k ∈ keys i.properties, k ∉ unitPops ∧ k ∉ initParams ∧ k ∉ shorthands.map (·.1) ∧ k ∈ keys a := by
  intro k hk
  have hl := properties_are_the_other_keys w a i h k
  rw [mem_keys_iff] at hk
  by_cases hc : (unitPops.contains k || specialKeys.contains k) = true
  · rw [if_pos hc] at hl
    simp [hl] at hk
  · rw [if_neg hc] at hl
    simp only [Bool.or_eq_true, not_or, specialKeys, List.contains_eq_mem, List.mem_append, decide_eq_true_eq] at hc
    refine ⟨hc.1, hc.2.1, hc.2.2, ?_⟩
    rw [mem_keys_iff, ← hl]
    exact hk

/-- distinct keyword arguments give distinct metadata keys -/
lemma properties_keys_nodup (w : World α) (a : Args α) (i : Construct.Iso α) (h : construct w a = .ok i) (hn : (keys a).Nodup) :
    (keys i.properties).Nodup := by
  obtain ⟨-, -, -, -, -, hp⟩ := (construct_ok_iff w a i).1 h
  rw [hp, prepCall_eq]
  exact nodup_keys_filter (nodup_keys_filter hn _) _

omit [Field α] in
lemma forced_idem (pms : String) (pu : Val α) : forced pms (forced pms pu) = forced pms pu := by
  unfold forced; split_ifs <;> rfl

/-- an accepted isotherm is well-formed: valid labels, no pressure unit under a relative mode, metadata keys distinct and none of them a
key the constructor consumes -/
lemma construct_wellformed (w : World α) (a : Args α) (i : Construct.Iso α) (h : construct w a = .ok i) (hn : (keys a).Nodup) :
    validLabels i.lab.labels = true ∧ forced i.lab.pmode i.lab.punit = i.lab.punit ∧
      (∀ k ∈ keys i.properties, k ∉ specialKeys ∧ k ∉ unitPops) ∧ (keys i.properties).Nodup := by
  refine ⟨accepted_labels_valid w a i h, ?_, ?_, properties_keys_nodup w a i h hn⟩
  · obtain ⟨-, -, -, hl, -, -⟩ := (construct_ok_iff w a i).1 h
    obtain ⟨pms, lbs, mbs, tus, -, -, -, -, h5, -⟩ := (checkLabels_ok_iff _ _ _ _ _ _ _ _).1 hl
    rw [h5]
    exact forced_idem _ _
  · intro k hk
    obtain ⟨h1, h2, h3, -⟩ := reserved_keys_not_in_properties w a i h k hk
    refine ⟨?_, h1⟩
    simp only [specialKeys, List.mem_append, not_or]
    exact ⟨h2, h3⟩

omit [Field α] in
lemma keys_render (pr : α → String) (d : Args α) : (render pr d).map (·.1) = keys d := by
  simp [render, keys, List.map_map, Function.comp_def]

end

end PgVerif.Model.Construct
