/-
Helper lemmas for Props/C05/Construct.lean and Props/C02/Construct.lean: Python-dictionary operations on association lists
(`lookup`, `del`, `put`, `update`, the defaults loop), their behaviour under permutation of a dictionary with distinct keys,
and closed forms of the stages of `Model/Construct.construct`.
-/
import Mathlib.Tactic
import PgVerif.Model.Construct

set_option linter.unusedSimpArgs false

namespace PgVerif.Model.Construct
open PgVerif.Gen PgVerif.Gen.IsoParams

variable {α β : Type}

/-- the keys of a dictionary -/
def keys (d : List (String × β)) : List String := d.map (·.1)

@[simp] lemma keys_nil : keys ([] : List (String × β)) = [] := rfl
@[simp] lemma keys_cons (kv : String × β) (d : List (String × β)) : keys (kv :: d) = kv.1 :: keys d := rfl
@[simp] lemma keys_append (d e : List (String × β)) : keys (d ++ e) = keys d ++ keys e := by simp [keys]

lemma lookup_cons_eq (k : String) (v : β) (d : List (String × β)) : ((k, v) :: d).lookup k = some v := by
  simp [List.lookup_cons]

lemma lookup_cons_ne {k k' : String} (h : k ≠ k') (v : β) (d : List (String × β)) : ((k', v) :: d).lookup k = d.lookup k := by
  have : (k == k') = false := by simpa using h
  simp [List.lookup_cons, this]

/-- look-up in a dictionary filtered on its keys -/
lemma lookup_filter_key (d : List (String × β)) (p : String → Bool) (k : String) :
    (d.filter fun kv => p kv.1).lookup k = if p k then d.lookup k else none := by
  induction d with
  | nil => simp
  | cons kv t ih =>
    obtain ⟨a, b⟩ := kv
    by_cases hka : k = a
    · subst hka
      by_cases hp : p k = true
      · simp [List.filter_cons, hp, lookup_cons_eq]
      · have hp' : p k = false := by simpa using hp
        have hf : List.filter (fun kv => p kv.1) ((k, b) :: t) = List.filter (fun kv => p kv.1) t := by
          simp [List.filter_cons, hp']
        rw [hf, ih]
        simp [hp']
    · by_cases hp : p a = true
      · simp [List.filter_cons, hp, lookup_cons_ne hka, ih]
      · have hp' : p a = false := by simpa using hp
        simp [List.filter_cons, hp', lookup_cons_ne hka, ih]

lemma lookup_del_self (d : List (String × β)) (k : String) : (del d k).lookup k = none := by
  unfold del
  rw [lookup_filter_key d (fun x => x != k) k]
  simp

lemma lookup_del_ne (d : List (String × β)) {k k' : String} (h : k ≠ k') : (del d k').lookup k = d.lookup k := by
  unfold del
  rw [lookup_filter_key d (fun x => x != k') k]
  simp [h]

lemma mem_keys_iff (d : List (String × β)) (k : String) : k ∈ keys d ↔ (d.lookup k).isSome = true := by
  induction d with
  | nil => simp
  | cons kv t ih =>
    obtain ⟨a, b⟩ := kv
    by_cases hka : k = a
    · subst hka; simp [lookup_cons_eq]
    · simp [lookup_cons_ne hka, hka, ih]

lemma lookup_none_of_not_mem {d : List (String × β)} {k : String} (h : k ∉ keys d) : d.lookup k = none := by
  rw [mem_keys_iff] at h
  cases hl : d.lookup k with
  | none => rfl
  | some v => simp [hl] at h

lemma keys_filter_sublist (d : List (String × β)) (p : String × β → Bool) : (keys (d.filter p)).Sublist (keys d) := by
  unfold keys
  exact (List.filter_sublist (l := d)).map _

lemma nodup_keys_filter {d : List (String × β)} (h : (keys d).Nodup) (p : String × β → Bool) : (keys (d.filter p)).Nodup :=
  h.sublist (keys_filter_sublist d p)

lemma mem_keys_filter (d : List (String × β)) (p : String → Bool) (k : String) :
    k ∈ keys (d.filter fun kv => p kv.1) ↔ k ∈ keys d ∧ p k = true := by
  unfold keys
  simp only [List.mem_map, List.mem_filter]
  constructor
  · rintro ⟨kv, ⟨hm, hp⟩, rfl⟩
    exact ⟨⟨kv, hm, rfl⟩, hp⟩
  · rintro ⟨⟨kv, hm, rfl⟩, hp⟩
    exact ⟨kv, ⟨hm, hp⟩, rfl⟩

/-! ### permutations of a dictionary with distinct keys -/

lemma perm_lookup {d₁ d₂ : List (String × β)} (hp : d₁.Perm d₂) (hn : (keys d₁).Nodup) (k : String) :
    d₁.lookup k = d₂.lookup k := by
  induction hp with
  | nil => rfl
  | cons x _ ih =>
    obtain ⟨a, b⟩ := x
    have hn' := (List.nodup_cons.1 hn).2
    by_cases hka : k = a
    · subst hka; simp [lookup_cons_eq]
    · simp [lookup_cons_ne hka, ih hn']
  | swap x y l =>
    obtain ⟨a, b⟩ := x
    obtain ⟨a', b'⟩ := y
    have hne : a' ≠ a := by
      intro h
      simp [keys, h] at hn
    by_cases h1 : k = a
    · subst h1
      have : k ≠ a' := fun h => hne h.symm
      simp [lookup_cons_eq, lookup_cons_ne this]
    · by_cases h2 : k = a'
      · subst h2; simp [lookup_cons_eq, lookup_cons_ne h1]
      · simp [lookup_cons_ne h1, lookup_cons_ne h2]
  | trans h₁ _ ih₁ ih₂ =>
    have hn₂ : (keys _).Nodup := (h₁.map Prod.fst).nodup_iff.1 hn
    exact (ih₁ hn).trans (ih₂ hn₂)

lemma perm_keys {d₁ d₂ : List (String × β)} (hp : d₁.Perm d₂) : (keys d₁).Perm (keys d₂) := hp.map _

lemma perm_nodup_keys {d₁ d₂ : List (String × β)} (hp : d₁.Perm d₂) (hn : (keys d₁).Nodup) : (keys d₂).Nodup :=
  (perm_keys hp).nodup_iff.1 hn

lemma perm_has {d₁ d₂ : List (String × β)} (hp : d₁.Perm d₂) (hn : (keys d₁).Nodup) (k : String) : has d₁ k = has d₂ k := by
  unfold has; rw [perm_lookup hp hn]

lemma perm_del {d₁ d₂ : List (String × β)} (hp : d₁.Perm d₂) (k : String) : (del d₁ k).Perm (del d₂ k) := hp.filter _

/-! ### the defaults loop -/

lemma lookup_addDefaults (ds : List (String × String)) (kw : Args α) (k : String) :
    (addDefaults ds kw).lookup k = (kw.lookup k).or ((ds.lookup k).map Val.str) := by
  induction ds generalizing kw with
  | nil => simp [addDefaults]
  | cons kd t ih =>
    obtain ⟨k0, d0⟩ := kd
    have hstep : addDefaults ((k0, d0) :: t) kw = addDefaults t (if has kw k0 then kw else kw ++ [(k0, Val.str d0)]) := by
      simp [addDefaults]
    rw [hstep]
    by_cases hh : has kw k0 = true
    · rw [if_pos hh, ih]
      by_cases hk : k = k0
      · subst hk
        unfold has at hh
        cases hl : kw.lookup k with
        | none => simp [hl] at hh
        | some v => simp
      · simp [lookup_cons_ne hk]
    · rw [if_neg hh, ih]
      have hh' : kw.lookup k0 = none := by
        unfold has at hh
        cases hl : kw.lookup k0 with
        | none => rfl
        | some v => simp [hl] at hh
      by_cases hk : k = k0
      · subst hk
        simp [List.lookup_append, hh', lookup_cons_eq]
      · simp [List.lookup_append, lookup_cons_ne hk]

lemma filter_addDefaults (ds : List (String × String)) (kw : Args α) (p : String → Bool) (h : ∀ kd ∈ ds, p kd.1 = false) :
    (addDefaults ds kw).filter (fun kv => p kv.1) = kw.filter (fun kv => p kv.1) := by
  induction ds generalizing kw with
  | nil => simp [addDefaults]
  | cons kd t ih =>
    obtain ⟨k0, d0⟩ := kd
    have hstep : addDefaults ((k0, d0) :: t) kw = addDefaults t (if has kw k0 then kw else kw ++ [(k0, Val.str d0)]) := by
      simp [addDefaults]
    have ht : ∀ kd ∈ t, p kd.1 = false := fun kd hkd => h kd (List.mem_cons_of_mem _ hkd)
    have h0 : p k0 = false := h (k0, d0) List.mem_cons_self
    rw [hstep, ih _ ht]
    split_ifs
    · rfl
    · simp [List.filter_append, h0]

lemma perm_addDefaults (ds : List (String × String)) {kw₁ kw₂ : Args α} (hp : kw₁.Perm kw₂) (hn : (keys kw₁).Nodup) :
    (addDefaults ds kw₁).Perm (addDefaults ds kw₂) ∧ (keys (addDefaults ds kw₁)).Nodup := by
  induction ds generalizing kw₁ kw₂ with
  | nil => exact ⟨by simpa [addDefaults] using hp, by simpa [addDefaults] using hn⟩
  | cons kd t ih =>
    obtain ⟨k0, d0⟩ := kd
    have hstep : ∀ kw : Args α, addDefaults ((k0, d0) :: t) kw = addDefaults t (if has kw k0 then kw else kw ++ [(k0, Val.str d0)]) := by
      intro kw; simp [addDefaults]
    rw [hstep, hstep, ← perm_has hp hn k0]
    by_cases hh : has kw₁ k0 = true
    · simp only [hh, if_true]
      exact ih hp hn
    · simp only [hh]
      apply ih (hp.append_right _)
      rw [keys_append, List.nodup_append]
      refine ⟨hn, by simp [keys], ?_⟩
      intro a ha b hb
      simp [keys] at hb
      subst hb
      intro hab
      subst hab
      exact hh (by unfold has; exact (mem_keys_iff _ _).1 ha)

/-! ### `put` / `update` on disjoint keys -/

lemma put_of_not_mem {d : List (String × β)} {k : String} (h : k ∉ keys d) (v : β) : put d k v = d ++ [(k, v)] := by
  unfold put has
  rw [lookup_none_of_not_mem h]
  simp

lemma update_disjoint (d e : List (String × β)) (hd : ∀ k ∈ keys e, k ∉ keys d) (hn : (keys e).Nodup) : update d e = d ++ e := by
  unfold update
  induction e generalizing d with
  | nil => simp
  | cons kv t ih =>
    obtain ⟨k, v⟩ := kv
    have hk : k ∉ keys d := hd k (by simp)
    have hn' := List.nodup_cons.1 hn
    simp only [List.foldl_cons]
    rw [put_of_not_mem hk, ih (d ++ [(k, v)]) _ hn'.2]
    · simp
    · intro k' hk' hmem
      rw [keys_append, List.mem_append] at hmem
      rcases hmem with hmem | hmem
      · exact hd k' (by simp [hk']) hmem
      · simp [keys] at hmem
        subst hmem
        exact hn'.1 hk'

/-! ### closed form of the shorthand loop after Python's binding -/

/-- the value a named parameter ends up with: the shorthand's value unless that is absent or `None` -/
def pick (o : Option (Val α)) (d : Val α) : Val α :=
  if (o.getD .none).isNone then d else o.getD .none

/-- the call as the checks see it -/
def prepCall (a : Args α) : Call α := applyShorthands (bind a)

/-- keys the constructor takes out of the keyword dictionary before the unit parameters: its named parameters and the shorthands -/
def specialKeys : List String := initParams ++ shorthands.map (·.1)

lemma step_material (c : Call α) (s : String) :
    shorthandStep c (s, "material") = ⟨pick (c.kw.lookup s) c.material, c.adsorbate, c.temperature, del c.kw s⟩ := by
  unfold shorthandStep pick
  by_cases h : ((c.kw.lookup s).getD Val.none).isNone = true
  · simp [h]
  · simp [h, shorthandTargets, Call.set]

lemma step_adsorbate (c : Call α) (s : String) :
    shorthandStep c (s, "adsorbate") = ⟨c.material, pick (c.kw.lookup s) c.adsorbate, c.temperature, del c.kw s⟩ := by
  unfold shorthandStep pick
  by_cases h : ((c.kw.lookup s).getD Val.none).isNone = true
  · simp [h]
  · simp [h, shorthandTargets, Call.set]

lemma step_temperature (c : Call α) (s : String) :
    shorthandStep c (s, "temperature") = ⟨c.material, c.adsorbate, pick (c.kw.lookup s) c.temperature, del c.kw s⟩ := by
  unfold shorthandStep pick
  by_cases h : ((c.kw.lookup s).getD Val.none).isNone = true
  · simp [h]
  · simp [h, shorthandTargets, Call.set]

lemma specialKeys_filter (a : Args α) :
    del (del (del (a.filter fun kv => !initParams.contains kv.1) "m") "t") "a" = a.filter fun kv => !specialKeys.contains kv.1 := by
  unfold del
  simp only [List.filter_filter]
  apply List.filter_congr
  intro kv _
  simp only [specialKeys, initParams, shorthands, List.map, List.cons_append, List.nil_append, List.contains_cons, List.contains_nil,
    Bool.or_false, bne, Bool.not_or]
  cases (kv.1 == "material") <;> cases (kv.1 == "adsorbate") <;> cases (kv.1 == "temperature") <;> cases (kv.1 == "m") <;>
    cases (kv.1 == "t") <;> cases (kv.1 == "a") <;> rfl

lemma prepCall_eq (a : Args α) : prepCall a =
    ⟨pick (a.lookup "m") ((a.lookup "material").getD .none), pick (a.lookup "a") ((a.lookup "adsorbate").getD .none),
     pick (a.lookup "t") ((a.lookup "temperature").getD .none), a.filter fun kv => !specialKeys.contains kv.1⟩ := by
  unfold prepCall applyShorthands
  simp only [shorthands, List.foldl_cons, List.foldl_nil, step_material, step_adsorbate, step_temperature, bind]
  have h1 : (List.filter (fun kv => !initParams.contains kv.1) a).lookup "m" = a.lookup "m" := by
    rw [lookup_filter_key a (fun k => !initParams.contains k) "m"]; simp [initParams]
  have h2 : (del (List.filter (fun kv => !initParams.contains kv.1) a) "m").lookup "t" = a.lookup "t" := by
    rw [lookup_del_ne _ (by decide), lookup_filter_key a (fun k => !initParams.contains k) "t"]; simp [initParams]
  have h3 : (del (del (List.filter (fun kv => !initParams.contains kv.1) a) "m") "t").lookup "a" = a.lookup "a" := by
    rw [lookup_del_ne _ (by decide), lookup_del_ne _ (by decide), lookup_filter_key a (fun k => !initParams.contains k) "a"]; simp [initParams]
  rw [h1, h2, h3, specialKeys_filter]

/-! ### closed form of the label stage -/

/-- the value of a unit parameter after the defaults loop -/
def eff (kw : Args α) (k : String) : Val α := (kw.lookup k).getD (Val.str ((unitParams.lookup k).getD ""))

lemma lookup_addDefaults_eff (kw : Args α) {k : String} (hk : (unitParams.lookup k).isSome = true) :
    (addDefaults unitParams kw).lookup k = some (eff kw k) := by
  rw [lookup_addDefaults]; unfold eff
  cases h1 : kw.lookup k <;> cases h2 : unitParams.lookup k <;> simp_all

lemma popKey_of_lookup {d : Args α} {k : String} {v : Val α} (h : d.lookup k = some v) : popKey d k = .ok (v, del d k) := by
  unfold popKey; rw [h]

lemma unitKeys_filter (kw : Args α) :
    del (del (del (del (del (del (del (addDefaults unitParams kw) "pressure_mode") "pressure_unit") "material_basis") "material_unit")
      "loading_basis") "loading_unit") "temperature_unit" = kw.filter fun kv => !unitPops.contains kv.1 := by
  unfold del
  simp only [List.filter_filter]
  have hc : ∀ l : Args α, l.filter (fun a => a.1 != "temperature_unit" && (a.1 != "loading_unit" && (a.1 != "loading_basis" && (a.1 != "material_unit" &&
      (a.1 != "material_basis" && (a.1 != "pressure_unit" && a.1 != "pressure_mode")))))) = l.filter (fun kv => (fun k => !unitPops.contains k) kv.1) := by
    intro l
    apply List.filter_congr
    intro kv _
    simp only [unitPops, List.contains_cons, List.contains_nil, Bool.or_false, bne, Bool.not_or]
    cases (kv.1 == "pressure_mode") <;> cases (kv.1 == "pressure_unit") <;> cases (kv.1 == "material_basis") <;> cases (kv.1 == "material_unit") <;>
      cases (kv.1 == "loading_basis") <;> cases (kv.1 == "loading_unit") <;> cases (kv.1 == "temperature_unit") <;> rfl
  rw [hc, filter_addDefaults unitParams kw (fun k => !unitPops.contains k) (by decide)]

lemma labelStage_eq (kw : Args α) : labelStage kw =
    (checkLabels (eff kw "pressure_mode") (eff kw "pressure_unit") (eff kw "loading_basis") (eff kw "loading_unit")
      (eff kw "material_basis") (eff kw "material_unit") (eff kw "temperature_unit")).bind
    fun l => .ok (l, kw.filter fun kv => !unitPops.contains kv.1) := by
  unfold labelStage
  have h1 : (addDefaults unitParams kw).lookup "pressure_mode" = some (eff kw "pressure_mode") := lookup_addDefaults_eff kw (by decide)
  have h2 : (del (addDefaults unitParams kw) "pressure_mode").lookup "pressure_unit" = some (eff kw "pressure_unit") := by
    rw [lookup_del_ne _ (by decide)]; exact lookup_addDefaults_eff kw (by decide)
  have h3 : (del (del (addDefaults unitParams kw) "pressure_mode") "pressure_unit").lookup "material_basis" = some (eff kw "material_basis") := by
    rw [lookup_del_ne _ (by decide), lookup_del_ne _ (by decide)]; exact lookup_addDefaults_eff kw (by decide)
  have h4 : (del (del (del (addDefaults unitParams kw) "pressure_mode") "pressure_unit") "material_basis").lookup "material_unit" = some (eff kw "material_unit") := by
    rw [lookup_del_ne _ (by decide), lookup_del_ne _ (by decide), lookup_del_ne _ (by decide)]; exact lookup_addDefaults_eff kw (by decide)
  have h5 : (del (del (del (del (addDefaults unitParams kw) "pressure_mode") "pressure_unit") "material_basis") "material_unit").lookup "loading_basis"
      = some (eff kw "loading_basis") := by
    rw [lookup_del_ne _ (by decide), lookup_del_ne _ (by decide), lookup_del_ne _ (by decide), lookup_del_ne _ (by decide)]
    exact lookup_addDefaults_eff kw (by decide)
  have h6 : (del (del (del (del (del (addDefaults unitParams kw) "pressure_mode") "pressure_unit") "material_basis") "material_unit") "loading_basis").lookup
      "loading_unit" = some (eff kw "loading_unit") := by
    rw [lookup_del_ne _ (by decide), lookup_del_ne _ (by decide), lookup_del_ne _ (by decide), lookup_del_ne _ (by decide), lookup_del_ne _ (by decide)]
    exact lookup_addDefaults_eff kw (by decide)
  have h7 : (del (del (del (del (del (del (addDefaults unitParams kw) "pressure_mode") "pressure_unit") "material_basis") "material_unit") "loading_basis")
      "loading_unit").lookup "temperature_unit" = some (eff kw "temperature_unit") := by
    rw [lookup_del_ne _ (by decide), lookup_del_ne _ (by decide), lookup_del_ne _ (by decide), lookup_del_ne _ (by decide), lookup_del_ne _ (by decide),
      lookup_del_ne _ (by decide)]
    exact lookup_addDefaults_eff kw (by decide)
  simp only [popKey_of_lookup h1, popKey_of_lookup h2, popKey_of_lookup h3, popKey_of_lookup h4, popKey_of_lookup h5, popKey_of_lookup h6,
    popKey_of_lookup h7, Except.bind, unitKeys_filter]

/-! ### the label checks accept exactly what `validLabels` accepts -/

lemma require_ok_iff (t : Except CErr Bool) (k : Except CErr β) (x : β) : require t k = .ok x ↔ t = .ok true ∧ k = .ok x := by
  unfold require
  rcases t with e | b
  · simp
  · cases b <;> simp

lemma requireMsg_ok_iff (t : Except CErr Bool) (m : Except CErr Unit) (k : Except CErr β) (x : β) :
    requireMsg t m k = .ok x ↔ t = .ok true ∧ k = .ok x := by
  unfold requireMsg
  rcases t with e | b
  · simp
  · cases b
    · rcases m with e | u <;> simp
    · simp

lemma strOf_eq_some (v : Val α) (s : String) : strOf v = some s ↔ v = .str s := by
  unfold strOf Val.str
  rcases v with sc | l | d | ⟨n, p⟩
  · cases sc <;> simp
  all_goals simp

lemma inTable_true_iff (t : List (String × β)) (v : Val α) :
    inTable t v = .ok true ↔ ∃ s, v = .str s ∧ (t.lookup s).isSome = true := by
  unfold inTable Val.str
  rcases v with sc | l | d | ⟨n, p⟩
  · cases sc <;> simp
  all_goals simp

lemma inUnitTable_true_iff (modes : List (String × Option String)) (b : String) (v : Val α) :
    inUnitTable modes b v = .ok true ↔ ∃ t s, modes.lookup b = some (some t) ∧ v = .str s ∧ ((unitTable t).lookup s).isSome = true := by
  unfold inUnitTable
  rcases h : modes.lookup b with _ | (_ | t)
  · simp
  · simp
  · simp [inTable_true_iff]

lemma fracBases_contains (s : String) : fracBases.contains s = isFrac s := by
  simp [fracBases, isFrac]

/-- the pressure unit after `if self.pressure_mode.startswith('relative'): self.pressure_unit = None` -/
def forced (pms : String) (pu : Val α) : Val α := if hasPrefix relativePrefix pms then .none else pu

lemma strOf_str (s : String) : strOf (Val.str s : Val α) = some s := (strOf_eq_some _ _).2 rfl

lemma str_inj {a b : String} (h : (Val.str a : Val α) = Val.str b) : a = b := by
  unfold Val.str at h
  injection h with h
  injection h

lemma checkLabels_ok_iff (pm pu lb lu mb mu tu : Val α) (l : LabelVals α) :
    checkLabels pm pu lb lu mb mu tu = .ok l ↔
      ∃ pms lbs mbs tus, pm = .str pms ∧ lb = .str lbs ∧ mb = .str mbs ∧ tu = .str tus ∧
        l = ⟨pms, forced pms pu, lbs, lu, mbs, mu, tus⟩ ∧ validLabels l.labels = true := by
  constructor
  · intro h
    unfold checkLabels at h
    rcases pm with sc | _ | _ | _
    · rcases sc with _ | _ | _ | _ | pms
      all_goals try (simp at h)
      simp only [require_ok_iff, requireMsg_ok_iff, inTable_true_iff] at h
      obtain ⟨⟨s0, hs0, hpm⟩, ⟨lbs, rfl, hlb⟩, ⟨mbs, rfl, hmb⟩, h⟩ := h
      have hs0' : pms = s0 := str_inj hs0
      subst hs0'
      simp only [strOf_str, require_ok_iff, requireMsg_ok_iff, inTable_true_iff] at h
      obtain ⟨hpu, hlu, hmu, ⟨tus, rfl, htu⟩, h⟩ := h
      simp only [strOf_str, Except.ok.injEq] at h
      subst h
      refine ⟨pms, lbs, mbs, tus, rfl, rfl, rfl, rfl, rfl, ?_⟩
      unfold validLabels LabelVals.labels
      simp only [hpm, hlb, hmb, strOf_str, htu, Bool.true_and, Bool.and_true, Bool.and_eq_true, Bool.or_eq_true]
      refine ⟨?_, ?_⟩
      · by_cases ha : pms = "absolute"
        · right
          rw [if_pos ha, inTable_true_iff] at hpu
          obtain ⟨s, hs, hl⟩ := hpu
          rw [hs, strOf_str]
          exact hl
        · left; simpa using ha
      · have hfr : lbs ∈ fracBases ↔ isFrac lbs = true := by simp [fracBases, isFrac]
        by_cases hf : isFrac lbs = true
        · left; exact hf
        · right
          rw [if_neg (fun hc => hf (hfr.1 hc)), inUnitTable_true_iff] at hlu hmu
          obtain ⟨t1, s1, ht1, rfl, hl1⟩ := hlu
          obtain ⟨t2, s2, ht2, rfl, hl2⟩ := hmu
          simp only [strOf_str, ht1, ht2, hl1, hl2, and_self]
    all_goals simp at h
  · rintro ⟨pms, lbs, mbs, tus, rfl, rfl, rfl, rfl, rfl, hv⟩
    unfold validLabels LabelVals.labels at hv
    simp only [Bool.and_eq_true, Bool.or_eq_true, strOf_str] at hv
    obtain ⟨⟨⟨⟨⟨hpm, hlb⟩, hmb⟩, hpu⟩, hlu⟩, htu⟩ := hv
    have e1 : inTable pressureMode (Val.str pms : Val α) = .ok true := (inTable_true_iff _ _).2 ⟨pms, rfl, hpm⟩
    have e2 : inTable loadingMode (Val.str lbs : Val α) = .ok true := (inTable_true_iff _ _).2 ⟨lbs, rfl, hlb⟩
    have e3 : inTable materialMode (Val.str mbs : Val α) = .ok true := (inTable_true_iff _ _).2 ⟨mbs, rfl, hmb⟩
    have e7 : inTable temperatureUnits (Val.str tus : Val α) = .ok true := (inTable_true_iff _ _).2 ⟨tus, rfl, htu⟩
    have e4 : (if pms = "absolute" then inTable pressureUnits (forced pms pu) else Except.ok true) = .ok true := by
      by_cases ha : pms = "absolute"
      · rw [if_pos ha]
        rcases hpu with hpu | hpu
        · simp [ha] at hpu
        · cases hs : strOf (forced pms pu) with
          | none => simp [hs] at hpu
          | some u =>
            rw [hs] at hpu
            exact (inTable_true_iff _ _).2 ⟨u, (strOf_eq_some _ _).1 hs, hpu⟩
      · rw [if_neg ha]
    have hfr : fracBases.contains lbs = isFrac lbs := fracBases_contains lbs
    have e5 : (if fracBases.contains lbs then Except.ok true else inUnitTable loadingMode lbs lu) = .ok true := by
      rw [hfr]
      by_cases hf : isFrac lbs = true
      · rw [if_pos hf]
      · rw [if_neg hf]
        rcases hlu with hlu | hlu
        · exact absurd hlu hf
        · cases hs : strOf lu with
          | none => simp [hs] at hlu
          | some u =>
            rcases hm : loadingMode.lookup lbs with _ | (_ | t)
            · simp [hs, hm] at hlu
            · simp [hs, hm] at hlu
            · simp only [hs, hm] at hlu
              exact (inUnitTable_true_iff _ _ _).2 ⟨t, u, hm, (strOf_eq_some _ _).1 hs, hlu.1⟩
    have e6 : (if fracBases.contains lbs then Except.ok true else inUnitTable materialMode mbs mu) = .ok true := by
      rw [hfr]
      by_cases hf : isFrac lbs = true
      · rw [if_pos hf]
      · rw [if_neg hf]
        rcases hlu with hlu | hlu
        · exact absurd hlu hf
        · cases hs : strOf mu with
          | none => simp [hs] at hlu
          | some u =>
            rcases hm : materialMode.lookup mbs with _ | (_ | t)
            · simp [hs, hm] at hlu
            · simp [hs, hm] at hlu
            · simp only [hs, hm] at hlu
              exact (inUnitTable_true_iff _ _ _).2 ⟨t, u, hm, (strOf_eq_some _ _).1 hs, hlu.2⟩
    show checkLabels (Val.sc (Sc.str pms)) pu (Val.str lbs) lu (Val.str mbs) mu (Val.str tus) = _
    unfold checkLabels
    simp only [strOf_str]
    change require (inTable pressureMode (Val.str pms)) _ = _
    rw [e1, e2, e3]
    simp only [require]
    unfold forced at e4
    rw [e4, e5, e6, e7]
    simp only [require, requireMsg, forced]
/-! ### closed form of `construct` -/

lemma missingRequired_eq (c : Call α) : missingRequired c = (c.material.isNone || c.adsorbate.isNone || c.temperature.isNone) := by
  simp [missingRequired, requiredChecked, Call.get, Bool.or_assoc]

section
variable [Field α]

lemma construct_eq (w : World α) (a : Args α) : construct w a =
    if missingRequired (prepCall a) then .error .param
    else
      (setAdsorbate w (prepCall a).adsorbate).bind fun ads =>
      (toFloat (prepCall a).temperature).bind fun t =>
      (checkLabels (eff (prepCall a).kw "pressure_mode") (eff (prepCall a).kw "pressure_unit") (eff (prepCall a).kw "loading_basis")
        (eff (prepCall a).kw "loading_unit") (eff (prepCall a).kw "material_basis") (eff (prepCall a).kw "material_unit")
        (eff (prepCall a).kw "temperature_unit")).bind fun l =>
      .ok ⟨setMaterial w (prepCall a).material, ads, t, l, (prepCall a).kw.filter fun kv => !unitPops.contains kv.1⟩ := by
  unfold construct prep prepCall
  by_cases hm : missingRequired (applyShorthands (bind a)) = true
  · simp only [hm, if_true]
  · simp only [hm, if_false, Bool.false_eq_true]
    rcases h1 : setAdsorbate w (applyShorthands (bind a)).adsorbate with e | ads
    · rfl
    · rcases h2 : toFloat (applyShorthands (bind a)).temperature with e | t
      · rfl
      · simp only [labelStage_eq, Except.bind]
        rcases checkLabels (eff (applyShorthands (bind a)).kw "pressure_mode") (eff (applyShorthands (bind a)).kw "pressure_unit")
          (eff (applyShorthands (bind a)).kw "loading_basis") (eff (applyShorthands (bind a)).kw "loading_unit")
          (eff (applyShorthands (bind a)).kw "material_basis") (eff (applyShorthands (bind a)).kw "material_unit")
          (eff (applyShorthands (bind a)).kw "temperature_unit") with e | l <;> rfl

/-- what an accepted call means, stage by stage -/
lemma construct_ok_iff (w : World α) (a : Args α) (i : Construct.Iso α) :
    construct w a = .ok i ↔
      missingRequired (prepCall a) = false ∧ setAdsorbate w (prepCall a).adsorbate = .ok i.adsorbate ∧
      toFloat (prepCall a).temperature = .ok i.temperature ∧
      checkLabels (eff (prepCall a).kw "pressure_mode") (eff (prepCall a).kw "pressure_unit") (eff (prepCall a).kw "loading_basis")
        (eff (prepCall a).kw "loading_unit") (eff (prepCall a).kw "material_basis") (eff (prepCall a).kw "material_unit")
        (eff (prepCall a).kw "temperature_unit") = .ok i.lab ∧
      i.material = setMaterial w (prepCall a).material ∧ i.properties = (prepCall a).kw.filter fun kv => !unitPops.contains kv.1 := by
  rw [construct_eq]
  by_cases hm : missingRequired (prepCall a) = true
  · simp [hm]
  · have hm' : missingRequired (prepCall a) = false := by simpa using hm
    simp only [hm', Bool.false_eq_true, if_false, true_and]
    rcases h1 : setAdsorbate w (prepCall a).adsorbate with e | ads
    · simp [Except.bind]
    · rcases h2 : toFloat (prepCall a).temperature with e | t
      · simp [Except.bind]
      · rcases h3 : checkLabels (eff (prepCall a).kw "pressure_mode") (eff (prepCall a).kw "pressure_unit") (eff (prepCall a).kw "loading_basis")
          (eff (prepCall a).kw "loading_unit") (eff (prepCall a).kw "material_basis") (eff (prepCall a).kw "material_unit")
          (eff (prepCall a).kw "temperature_unit") with e | l
        · simp [Except.bind]
        · simp only [Except.bind, Except.ok.injEq]
          constructor
          · rintro rfl
            exact ⟨rfl, rfl, rfl, rfl, rfl⟩
          · rintro ⟨rfl, rfl, rfl, hmat, hprops⟩
            cases i
            simp_all

end

/-! ### `to_dict` and the way back -/

/-- the ten entries `to_dict` writes itself, in its order -/
def topDict (i : Construct.Iso α) (m : Val α) : Args α :=
  [("pressure_mode", .str i.lab.pmode), ("pressure_unit", i.lab.punit), ("material_basis", .str i.lab.mbasis),
   ("material_unit", i.lab.munit), ("loading_basis", .str i.lab.lbasis), ("loading_unit", i.lab.lunit),
   ("temperature_unit", .str i.lab.tunit), ("adsorbate", .str i.adsorbate), ("material", m), ("temperature", .sc (.num i.temperature))]

def topKeys : List String :=
  ["pressure_mode", "pressure_unit", "material_basis", "material_unit", "loading_basis", "loading_unit", "temperature_unit", "adsorbate",
   "material", "temperature"]

lemma keys_topDict (i : Construct.Iso α) (m : Val α) : keys (topDict i m) = topKeys := rfl

lemma topKeys_special_or_unit : ∀ k ∈ topKeys, k ∈ specialKeys ∨ k ∈ unitPops := by decide

lemma toDictBase_eq (i : Construct.Iso α) (m : Val α) (hm : matVal i.material = .ok m) (hp : ∀ k ∈ keys i.properties, k ∉ topKeys)
    (hn : (keys i.properties).Nodup) : toDictBase i = .ok (topDict i m ++ i.properties) := by
  unfold toDictBase toDict
  rw [hm]
  simp only [List.append_nil, List.cons_append, List.nil_append]
  have hf : List.filter (fun kv : String × Val α => !reservedBase.contains kv.1) (topDict i m) = topDict i m := by
    apply List.filter_eq_self.2
    intro kv hkv
    have : kv.1 ∈ topKeys := by rw [← keys_topDict i m]; exact List.mem_map_of_mem hkv
    have hd : ∀ k ∈ topKeys, (!reservedBase.contains k) = true := by decide
    exact hd _ this
  show Except.ok (update (List.filter _ (topDict i m)) i.properties) = _
  rw [hf, update_disjoint _ _ (by rw [keys_topDict]; exact hp) hn]

lemma matVal_not_none {mt : Mat α} {m : Val α} (h : matVal mt = .ok m) : m.isNone = false := by
  unfold matVal at h
  split at h <;> simp at h <;> subst h <;> rfl

lemma lookup_none_of_special {props : Args α} (hp : ∀ k ∈ keys props, k ∉ specialKeys ∧ k ∉ unitPops) {k : String}
    (hk : k ∈ specialKeys ∨ k ∈ unitPops) : props.lookup k = none := by
  apply lookup_none_of_not_mem
  intro hmem
  rcases hk with hk | hk
  · exact (hp k hmem).1 hk
  · exact (hp k hmem).2 hk

/-- the first seven entries of `to_dict` -/
def unitPart (i : Construct.Iso α) : Args α :=
  [("pressure_mode", .str i.lab.pmode), ("pressure_unit", i.lab.punit), ("material_basis", .str i.lab.mbasis),
   ("material_unit", i.lab.munit), ("loading_basis", .str i.lab.lbasis), ("loading_unit", i.lab.lunit),
   ("temperature_unit", .str i.lab.tunit)]

lemma filter_special_top (i : Construct.Iso α) (m : Val α) (props : Args α) (hp : ∀ k ∈ keys props, k ∉ specialKeys ∧ k ∉ unitPops) :
    (topDict i m ++ props).filter (fun kv => !specialKeys.contains kv.1) = unitPart i ++ props := by
  rw [List.filter_append]
  have h1 : (topDict i m).filter (fun kv => !specialKeys.contains kv.1) = unitPart i := by
    simp [topDict, unitPart, List.filter_cons, specialKeys, initParams, shorthands]
  have h2 : props.filter (fun kv => !specialKeys.contains kv.1) = props := by
    apply List.filter_eq_self.2
    intro kv hkv
    have := (hp kv.1 (List.mem_map_of_mem hkv)).1
    simpa using this
  rw [h1, h2]

lemma filter_unit_part (i : Construct.Iso α) (props : Args α) (hp : ∀ k ∈ keys props, k ∉ specialKeys ∧ k ∉ unitPops) :
    (unitPart i ++ props).filter (fun kv => !unitPops.contains kv.1) = props := by
  rw [List.filter_append]
  have h1 : (unitPart i).filter (fun kv => !unitPops.contains kv.1) = [] := by
    simp [unitPart, List.filter_cons, unitPops]
  rw [h1, List.nil_append]
  apply List.filter_eq_self.2
  intro kv hkv
  have := (hp kv.1 (List.mem_map_of_mem hkv)).2
  simpa using this

section
variable [Field α]

/-- re-constructing from the dictionary: the stages, given a well-formed isotherm -/
lemma construct_topDict (w' : World α) (i : Construct.Iso α) (m : Val α)
    (hm : matVal i.material = .ok m) (hm' : setMaterial w' m = i.material)
    (ha : (w'.adsFind i.adsorbate).getD i.adsorbate = i.adsorbate)
    (hl : validLabels i.lab.labels = true) (hf : forced i.lab.pmode i.lab.punit = i.lab.punit)
    (hp : ∀ k ∈ keys i.properties, k ∉ specialKeys ∧ k ∉ unitPops) :
    construct w' (topDict i m ++ i.properties) = .ok i := by
  have hmn := matVal_not_none hm
  have ln (k : String) (hk : k ∈ specialKeys ∨ k ∈ unitPops) : i.properties.lookup k = none := lookup_none_of_special hp hk
  have hcall : prepCall (topDict i m ++ i.properties) = ⟨m, .str i.adsorbate, .sc (.num i.temperature), unitPart i ++ i.properties⟩ := by
    rw [prepCall_eq, filter_special_top i m _ hp]
    simp only [List.lookup_append, ln "m" (by decide), ln "a" (by decide), ln "t" (by decide), ln "material" (by decide),
      ln "adsorbate" (by decide), ln "temperature" (by decide), Option.or_none]
    have e1 : (topDict i m).lookup "m" = none := by simp [topDict, List.lookup_cons]
    have e2 : (topDict i m).lookup "a" = none := by simp [topDict, List.lookup_cons]
    have e3 : (topDict i m).lookup "t" = none := by simp [topDict, List.lookup_cons]
    have e4 : (topDict i m).lookup "material" = some m := by simp [topDict, List.lookup_cons]
    have e5 : (topDict i m).lookup "adsorbate" = some (.str i.adsorbate) := by simp [topDict, List.lookup_cons]
    have e6 : (topDict i m).lookup "temperature" = some (.sc (.num i.temperature)) := by simp [topDict, List.lookup_cons]
    have hn : (Val.none : Val α).isNone = true := rfl
    simp [e1, e2, e3, e4, e5, e6, pick, hn]
  rw [construct_ok_iff, hcall]
  have hmiss : missingRequired (⟨m, .str i.adsorbate, .sc (.num i.temperature), unitPart i ++ i.properties⟩ : Call α) = false := by
    rw [missingRequired_eq]
    show (m.isNone || (Val.str i.adsorbate : Val α).isNone || (Val.sc (Sc.num i.temperature) : Val α).isNone) = false
    rw [hmn]
    rfl
  refine ⟨hmiss, ?_, ?_, ?_, hm'.symm, (filter_unit_part i _ hp).symm⟩
  · simp [setAdsorbate, Val.str, ha]
  · simp [toFloat]
  · have g (k : String) (v : Val α) (hk : k ∈ unitPops) (hv : (unitPart i).lookup k = some v) : eff (unitPart i ++ i.properties) k = v := by
      simp [eff, List.lookup_append, hv]
    rw [g "pressure_mode" (.str i.lab.pmode) (by decide) (by simp [unitPart, List.lookup_cons]),
      g "pressure_unit" i.lab.punit (by decide) (by simp [unitPart, List.lookup_cons]),
      g "loading_basis" (.str i.lab.lbasis) (by decide) (by simp [unitPart, List.lookup_cons]),
      g "loading_unit" i.lab.lunit (by decide) (by simp [unitPart, List.lookup_cons]),
      g "material_basis" (.str i.lab.mbasis) (by decide) (by simp [unitPart, List.lookup_cons]),
      g "material_unit" i.lab.munit (by decide) (by simp [unitPart, List.lookup_cons]),
      g "temperature_unit" (.str i.lab.tunit) (by decide) (by simp [unitPart, List.lookup_cons])]
    apply (checkLabels_ok_iff _ _ _ _ _ _ _ _).2
    exact ⟨i.lab.pmode, i.lab.lbasis, i.lab.mbasis, i.lab.tunit, rfl, rfl, rfl, rfl, by rw [hf], hl⟩
end
/-! ### permuted keyword arguments -/

lemma eff_perm {kw₁ kw₂ : Args α} (hp : kw₁.Perm kw₂) (hn : (keys kw₁).Nodup) (k : String) : eff kw₁ k = eff kw₂ k := by
  unfold eff; rw [perm_lookup hp hn]

lemma prepCall_perm {a₁ a₂ : Args α} (hp : a₁.Perm a₂) (hn : (keys a₁).Nodup) :
    (prepCall a₂).material = (prepCall a₁).material ∧ (prepCall a₂).adsorbate = (prepCall a₁).adsorbate ∧
    (prepCall a₂).temperature = (prepCall a₁).temperature ∧ (prepCall a₁).kw.Perm (prepCall a₂).kw ∧ (keys (prepCall a₁).kw).Nodup := by
  rw [prepCall_eq, prepCall_eq]
  simp only [perm_lookup hp hn]
  exact ⟨trivial, trivial, trivial, hp.filter _, nodup_keys_filter hn _⟩

section
variable [Field α]

/-- permuting the keyword arguments changes nothing but the order of the metadata -/
lemma construct_perm (w : World α) {a₁ a₂ : Args α} (hp : a₁.Perm a₂) (hn : (keys a₁).Nodup) :
    construct w a₂ = (construct w a₁).map (fun i => { i with properties := (prepCall a₂).kw.filter fun kv => !unitPops.contains kv.1 }) ∧
      ((prepCall a₁).kw.filter fun kv => !unitPops.contains kv.1).Perm ((prepCall a₂).kw.filter fun kv => !unitPops.contains kv.1) := by
  obtain ⟨h1, h2, h3, h4, h5⟩ := prepCall_perm hp hn
  refine ⟨?_, h4.filter _⟩
  rw [construct_eq, construct_eq, missingRequired_eq, missingRequired_eq, h1, h2, h3]
  simp only [← eff_perm h4 h5]
  split_ifs
  · rfl
  · rcases setAdsorbate w (prepCall a₁).adsorbate with e | ads
    · rfl
    · rcases toFloat (prepCall a₁).temperature with e | t
      · rfl
      · rcases checkLabels (eff (prepCall a₁).kw "pressure_mode") (eff (prepCall a₁).kw "pressure_unit") (eff (prepCall a₁).kw "loading_basis")
          (eff (prepCall a₁).kw "loading_unit") (eff (prepCall a₁).kw "material_basis") (eff (prepCall a₁).kw "material_unit")
          (eff (prepCall a₁).kw "temperature_unit") with e | l <;> rfl
end
end PgVerif.Model.Construct
