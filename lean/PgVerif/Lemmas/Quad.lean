/-
The root selected by the code's quadratic-formula inverses (BET, GAB, DSLangmuir, Quadratic).
-/
import Mathlib.Analysis.SpecialFunctions.Sqrt
import Mathlib.Tactic

namespace PgVerif.Quad

/-- For `x q² + y q + c` with roots `p`, `q'` (so `y = -x (p+q')`, `c = x p q'`), the expression
`(-y - √(y² - 4 x c)) / (2 x)` is the root `p` whenever `p` lies on the side of `q'` fixed by the sign of `x`. -/
theorem root_minus (x p q' : ℝ) (hx : x ≠ 0) (hsel : (0 < x → p ≤ q') ∧ (x < 0 → q' ≤ p)) :
    (-(-x * (p + q')) - Real.sqrt ((-x * (p + q')) ^ 2 - 4 * x * (x * p * q'))) / (2 * x) = p := by
  have hdisc : (-x * (p + q')) ^ 2 - 4 * x * (x * p * q') = (x * (p - q')) ^ 2 := by ring
  rw [hdisc, Real.sqrt_sq_eq_abs]
  rcases lt_or_gt_of_ne hx with hneg | hpos
  · have h := hsel.2 hneg
    have : x * (p - q') ≤ 0 := mul_nonpos_of_nonpos_of_nonneg hneg.le (by linarith)
    rw [abs_of_nonpos this]; field_simp; ring
  · have h := hsel.1 hpos
    have : x * (p - q') ≤ 0 := mul_nonpos_of_nonneg_of_nonpos hpos.le (by linarith)
    rw [abs_of_nonpos this]; field_simp; ring

/-- the `+√` variant (DSLangmuir): picks `p` when it lies on the other side -/
theorem root_plus (x p q' : ℝ) (hx : x ≠ 0) (hsel : (0 < x → q' ≤ p) ∧ (x < 0 → p ≤ q')) :
    (-(-x * (p + q')) + Real.sqrt ((-x * (p + q')) ^ 2 - 4 * x * (x * p * q'))) / (2 * x) = p := by
  have hdisc : (-x * (p + q')) ^ 2 - 4 * x * (x * p * q') = (x * (p - q')) ^ 2 := by ring
  rw [hdisc, Real.sqrt_sq_eq_abs]
  rcases lt_or_gt_of_ne hx with hneg | hpos
  · have h := hsel.2 hneg
    have : 0 ≤ x * (p - q') := mul_nonneg_of_nonpos_of_nonpos hneg.le (by linarith)
    rw [abs_of_nonneg this]; field_simp; ring
  · have h := hsel.1 hpos
    have : 0 ≤ x * (p - q') := mul_nonneg hpos.le (by linarith)
    rw [abs_of_nonneg this]; field_simp; ring

/-- general form: if `y = -x (p+q')` and `c = x p q'` the code's expression is `p` -/
theorem root_minus' (x y c p q' : ℝ) (hx : x ≠ 0) (hy : y = -x * (p + q')) (hc : c = x * p * q')
    (hsel : (0 < x → p ≤ q') ∧ (x < 0 → q' ≤ p)) :
    (-y - Real.sqrt (y ^ 2 - 4 * x * c)) / (2 * x) = p := by
  subst hy hc; exact root_minus x p q' hx hsel

theorem root_plus' (x y c p q' : ℝ) (hx : x ≠ 0) (hy : y = -x * (p + q')) (hc : c = x * p * q')
    (hsel : (0 < x → q' ≤ p) ∧ (x < 0 → p ≤ q')) :
    (-y + Real.sqrt (y ^ 2 - 4 * x * c)) / (2 * x) = p := by
  subst hy hc; exact root_plus x p q' hx hsel

/-! ### The cancellation-free form of the same roots (what the inverses compute since finding S51-C10a/b was repaired)

`(-y - √D) / (2x)` with `D = y² - 4 x c` loses every digit when `y < 0` and `|4 x c| ≪ y²` (low loading: `-y` and `√D` agree to all
digits) and is `0/0` when `x = 0`.  Multiplying numerator and denominator by `√D - y` gives `2c / (√D - y)`: for `y < 0` a sum of two
non-negative numbers in the denominator.  It is the SAME root (`stable_minus_eq`), not a choice between the two; for `y ≥ 0` the
textbook form is already free of cancellation and is kept (there `√D - y` is the difference that cancels). -/

/-- for `x ≠ 0` the branch form is the textbook `-√` root, whatever the sign of `y` -/
theorem stable_minus_eq (x y c : ℝ) (hx : x ≠ 0) (hD : 0 ≤ y ^ 2 - 4 * x * c) :
    (if y < 0 then 2 * c else -y - Real.sqrt (y ^ 2 - 4 * x * c)) / (if y < 0 then Real.sqrt (y ^ 2 - 4 * x * c) - y else 2 * x)
      = (-y - Real.sqrt (y ^ 2 - 4 * x * c)) / (2 * x) := by
  by_cases hy : y < 0
  · simp only [if_pos hy]
    have hs := Real.sqrt_nonneg (y ^ 2 - 4 * x * c)
    have hss := Real.mul_self_sqrt hD
    have hden : Real.sqrt (y ^ 2 - 4 * x * c) - y ≠ 0 := by linarith
    rw [div_eq_div_iff hden (mul_ne_zero two_ne_zero hx)]
    nlinarith [hss]
  · simp only [if_neg hy]

/-- when the leading coefficient vanishes (BET with `N = C`, GAB with `C = 1`, Quadratic with `Kb = 0`) and `y < 0`, the branch form is
the root `-c / y` of the linear equation `y q + c = 0` that is left -/
theorem stable_minus_linear (x y c : ℝ) (hx : x = 0) (hy : y < 0) :
    (if y < 0 then 2 * c else -y - Real.sqrt (y ^ 2 - 4 * x * c)) / (if y < 0 then Real.sqrt (y ^ 2 - 4 * x * c) - y else 2 * x)
      = -c / y := by
  subst hx
  simp only [if_pos hy]
  have : y ^ 2 - 4 * 0 * c = (-y) ^ 2 := by ring
  rw [this, Real.sqrt_sq (by linarith)]
  have hy' : y ≠ 0 := ne_of_lt hy
  have : -y - y ≠ 0 := by intro h; apply hy'; linarith
  field_simp
  ring

/-- general form used by the model files: if `y = -x (p+q')`, `c = x p q'` the branch form is `p` under the same selection rule as
`root_minus'` -/
theorem stable_minus' (x y c p q' : ℝ) (hx : x ≠ 0) (hy : y = -x * (p + q')) (hc : c = x * p * q')
    (hsel : (0 < x → p ≤ q') ∧ (x < 0 → q' ≤ p)) :
    (if y < 0 then 2 * c else -y - Real.sqrt (y ^ 2 - 4 * x * c)) / (if y < 0 then Real.sqrt (y ^ 2 - 4 * x * c) - y else 2 * x) = p := by
  have hD : 0 ≤ y ^ 2 - 4 * x * c := by
    have : y ^ 2 - 4 * x * c = (x * (p - q')) ^ 2 := by subst hy hc; ring
    rw [this]; positivity
  rw [stable_minus_eq x y c hx hD]
  exact root_minus' x y c p q' hx hy hc hsel

/-- the `+√` root (DSLangmuir: `x q² + y q - n = 0`) in its branch form: for `y > 0` the quotient `2n / (y + √D)` -/
theorem stable_plus_eq (x y n : ℝ) (hx : x ≠ 0) (hD : 0 ≤ y ^ 2 - 4 * x * (-n)) :
    (if y > 0 then 2 * n else -y + Real.sqrt (y ^ 2 - 4 * x * (-n))) / (if y > 0 then y + Real.sqrt (y ^ 2 - 4 * x * (-n)) else 2 * x)
      = (-y + Real.sqrt (y ^ 2 - 4 * x * (-n))) / (2 * x) := by
  by_cases hy : y > 0
  · simp only [if_pos hy]
    have hs := Real.sqrt_nonneg (y ^ 2 - 4 * x * (-n))
    have hss := Real.mul_self_sqrt hD
    have hden : y + Real.sqrt (y ^ 2 - 4 * x * (-n)) ≠ 0 := by
      have : 0 < y := hy
      linarith
    rw [div_eq_div_iff hden (mul_ne_zero two_ne_zero hx)]
    nlinarith [hss]
  · simp only [if_neg hy]

theorem stable_plus' (x y n p q' : ℝ) (hx : x ≠ 0) (hy : y = -x * (p + q')) (hc : -n = x * p * q')
    (hsel : (0 < x → q' ≤ p) ∧ (x < 0 → p ≤ q')) :
    (if y > 0 then 2 * n else -y + Real.sqrt (y ^ 2 - 4 * x * (-n))) / (if y > 0 then y + Real.sqrt (y ^ 2 - 4 * x * (-n)) else 2 * x) = p := by
  have hD : 0 ≤ y ^ 2 - 4 * x * (-n) := by
    have : y ^ 2 - 4 * x * (-n) = (x * (p - q')) ^ 2 := by rw [hc]; subst hy; ring
    rw [this]; positivity
  rw [stable_plus_eq x y n hx hD]
  exact root_plus' x y (-n) p q' hx hy hc hsel

end PgVerif.Quad
