/-
The root selected by the code's quadratic-formula inverses (BET, GAB, DSLangmuir, Quadratic).
-/
import Mathlib.Analysis.SpecialFunctions.Sqrt
import Mathlib.Tactic

namespace PgVerif.Quad

/-- For `x q² + y q + c` with roots `p`, `q'` (so `y = -x (p+q')`, `c = x p q'`), the expression
`(-y - √(y² - 4 x c)) / (2 x)` is the root `p` whenever `p` lies on the side of `q'` fixed by the sign of `x`. -/
theorem root_minus (x p q' : ℝ) (hx : x ≠ 0) (hsel : (0 < x → p ≤ q') ∧ (x < 0 → q' ≤ p)) :
    (-(-x * (p + q')) - Real.sqrt ((-x * (p + q')) ^ 2 - 4 * x * (x * p * q'))) / (2 * x) = p := by
  have hdisc : (-x * (p + q')) ^ 2 - 4 * x * (x * p * q') = (x * (p - q')) ^ 2 := by ring
  rw [hdisc, Real.sqrt_sq_eq_abs]
  rcases lt_or_gt_of_ne hx with hneg | hpos
  · have h := hsel.2 hneg
    have : x * (p - q') ≤ 0 := mul_nonpos_of_nonpos_of_nonneg hneg.le (by linarith)
    rw [abs_of_nonpos this]; field_simp; ring
  · have h := hsel.1 hpos
    have : x * (p - q') ≤ 0 := mul_nonpos_of_nonneg_of_nonpos hpos.le (by linarith)
    rw [abs_of_nonpos this]; field_simp; ring

/-- the `+√` variant (DSLangmuir): picks `p` when it lies on the other side -/
theorem root_plus (x p q' : ℝ) (hx : x ≠ 0) (hsel : (0 < x → q' ≤ p) ∧ (x < 0 → p ≤ q')) :
    (-(-x * (p + q')) + Real.sqrt ((-x * (p + q')) ^ 2 - 4 * x * (x * p * q'))) / (2 * x) = p := by
  have hdisc : (-x * (p + q')) ^ 2 - 4 * x * (x * p * q') = (x * (p - q')) ^ 2 := by ring
  rw [hdisc, Real.sqrt_sq_eq_abs]
  rcases lt_or_gt_of_ne hx with hneg | hpos
  · have h := hsel.2 hneg
    have : 0 ≤ x * (p - q') := mul_nonneg_of_nonpos_of_nonpos hneg.le (by linarith)
    rw [abs_of_nonneg this]; field_simp; ring
  · have h := hsel.1 hpos
    have : 0 ≤ x * (p - q') := mul_nonneg hpos.le (by linarith)
    rw [abs_of_nonneg this]; field_simp; ring

/-- general form: if `y = -x (p+q')` and `c = x p q'` the code's expression is `p` -/
theorem root_minus' (x y c p q' : ℝ) (hx : x ≠ 0) (hy : y = -x * (p + q')) (hc : c = x * p * q')
    (hsel : (0 < x → p ≤ q') ∧ (x < 0 → q' ≤ p)) :
    (-y - Real.sqrt (y ^ 2 - 4 * x * c)) / (2 * x) = p := by
  subst hy hc; exact root_minus x p q' hx hsel

theorem root_plus' (x y c p q' : ℝ) (hx : x ≠ 0) (hy : y = -x * (p + q')) (hc : c = x * p * q')
    (hsel : (0 < x → q' ≤ p) ∧ (x < 0 → p ≤ q')) :
    (-y + Real.sqrt (y ^ 2 - 4 * x * c)) / (2 * x) = p := by
  subst hy hc; exact root_plus x p q' hx hsel

end PgVerif.Quad
