/-
Helper lemmas for the second theorem file of C01 (`Props/C01/History.lean`): disjoint unit tables,
refusals of `c_unit`, the `Material` property store, `c_material` for an arbitrary environment.
-/
import PgVerif.Lemmas.Units
import PgVerif.Model.UnitsObj

set_option linter.unusedSectionVars false
set_option linter.unusedSimpArgs false
set_option linter.unusedVariables false

namespace PgVerif.Units
open PgVerif.Model PgVerif.Gen
open PgVerif.Spec (LB MB Ads Mat gL gM PRep LRep MRep TRep physScale fac)

variable {α : Type} [Field α] [CharZero α]

/-- the four unit tables of `converter_unit.py`, by the name `Gen.unitTable` knows them under -/
def tableNames : List String := ["pressure", "molar", "mass", "volume"]

/-- no unit string of `t1` is a key of `t2` -/
def disjointFrom (t1 t2 : List (String × Nat × Nat)) : Bool := t1.all fun e => (t2.lookup e.1).isNone

theorem disjoint_lookup (t1 t2 : List (String × Nat × Nat)) (hd : disjointFrom t1 t2 = true) (s : String)
    (h : (t1.lookup s).isSome = true) : t2.lookup s = none := by
  induction t1 with
  | nil => simp [List.lookup] at h
  | cons x t ih =>
    have hd' : ((t2.lookup x.1).isNone && disjointFrom t t2) = true := by simpa [disjointFrom] using hd
    simp only [Bool.and_eq_true] at hd'
    rw [List.lookup_cons] at h
    split at h
    · rename_i heq
      have hs : s = x.1 := by simpa using heq
      subst hs
      simpa using hd'.1
    · exact ih hd'.2 h

theorem checkUnit_err (t : List (String × Nat × Nat)) (u : Option String) (e : Err)
    (h : (checkUnit t u : Except Err α) = .error e) : e = .param := by
  unfold checkUnit at h; split at h <;> (try split at h) <;> (try split at h) <;> simp_all

theorem checkUnit_none_of_lookup (t : List (String × Nat × Nat)) (s : String) (h : t.lookup s = none) :
    (checkUnit t (some s) : Except Err α) = .error .param := by
  simp only [checkUnit, facOf, h]; split <;> rfl

/-- `c_unit` refuses as soon as one of the two units is refused by `_check_unit` -/
theorem cUnit_err (t : List (String × Nat × Nat)) (v : α) (uf ut : Option String) (sg : Int)
    (h : (checkUnit t uf : Except Err α) = .error .param ∨ (checkUnit t ut : Except Err α) = .error .param) :
    cUnit t v uf ut sg = .error .param := by
  unfold cUnit
  cases h2 : (checkUnit t ut : Except Err α) with
  | error e => simp [checkUnit_err _ _ _ h2, bind, Except.bind]
  | ok x =>
    rcases h with h | h
    · simp [h, bind, Except.bind]
    · rw [h2] at h; cases h

theorem lookup_all' {κ β : Type} [BEq κ] (t : List (κ × β)) (P : β → Bool) (hall : t.all (fun e => P e.2) = true)
    (s : κ) (b : β) (h : t.lookup s = some b) : P b = true := by
  induction t with
  | nil => simp [List.lookup] at h
  | cons e t ih =>
    simp only [List.all_cons, Bool.and_eq_true] at hall
    rw [List.lookup_cons] at h
    split at h
    · cases h; exact hall.1
    · exact ih hall.2 h

/-- the constant selected by `c_material` for an environment that presents density `mat.density` and
molar mass `mat.molarMass` (whatever else it contains) -/
theorem leaf_mat_env (env : Env α) (mat : Mat α) (hp : Mat.Pos mat)
    (hd : env .matDensity = some mat.density) (hm : env .matMolarMass = some mat.molarMass) (b1 b2 : MB) :
    ∃ c : α, ∃ sg : Int, leaf materialConst env (some b1.name) (some b2.name) = .ok (c, sg)
      ∧ c ^ sg = gM mat b1 / gM mat b2 := by
  obtain ⟨hd0, hm0⟩ := hp
  unfold leaf
  simp only [materialConst_lookup]
  cases b1 <;> cases b2 <;>
    simp [specLeafM, evalConst, evalQty, hd, hm, gM, bind, Except.bind, pure, Except.pure] <;> field_simp

/-- `cMaterial_spec` for an arbitrary environment (e.g. the one a `Material` object presents) -/
theorem cMaterial_spec_env (env : Env α) (mat : Mat α) (hp : Mat.Pos mat)
    (hd : env .matDensity = some mat.density) (hm : env .matMolarMass = some mat.molarMass)
    (v : α) (r1 r2 : MRep) (g1 g2 : α)
    (h1 : r1.grams unitTable mat = some g1) (h2 : r2.grams unitTable mat = some g2) :
    cMaterial env v (some r1.b.name) (some r2.b.name) (some r1.u) (some r2.u) = .ok (v * g2 / g1) := by
  obtain ⟨hu1, f1, hf1, rfl, hn1, hg1⟩ := grams_inv hp h1
  obtain ⟨hu2, f2, hf2, rfl, hn2, hg2⟩ := grams_inv hp h2
  obtain ⟨c, sg, hl, hcs⟩ := leaf_mat_env env mat hp hd hm r1.b r2.b
  have hb1 : checkBasis materialMode (some r1.b.name) = .ok (r1.b.name, some r1.b.table) := by cases r1.b <;> rfl
  have hb2 : checkBasis materialMode (some r2.b.name) = .ok (r2.b.name, some r2.b.table) := by cases r2.b <;> rfl
  by_cases hb : r1.b = r2.b
  · have hbn : r1.b.name = r2.b.name := by rw [hb]
    rw [hb] at hf1 hg1
    by_cases hu : r1.u = r2.u
    · rw [hu] at hf1; rw [hf1] at hf2; cases hf2
      simp [cMaterial, hb1, hb2, hbn, hb, hu, truthy, bind, Except.bind, pure, Except.pure]
      field_simp
    · have := cUnit_ok (unitTable r2.b.table) v r1.u r2.u f1 f2 (-1) hu1 hu2 hf1 hf2
      simp [cMaterial, hb1, hb2, hbn, hb, hu, hu2, truthy, bind, Except.bind, pure, Except.pure, this]
      field_simp
  · have hne : r1.b.name ≠ r2.b.name := by
      intro h; apply hb; revert h; cases r1.b <;> cases r2.b <;> simp [MB.name]
    simp [cMaterial, hb1, hb2, hne, checkUnit, hu1, hu2, hf1, hf2, hl, hcs, bind, Except.bind, pure, Except.pure]
    field_simp

section store
variable [DecidableEq α]

theorem matProps_snoc (ops : List (MatOp α)) (o : MatOp α) :
    matProps (ops ++ [o]) = matStep (matProps ops) o := by
  simp [matProps, List.foldl_append]

end store

end PgVerif.Units
