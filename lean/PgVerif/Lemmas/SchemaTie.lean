/-
Definitions shared by the schema-tie theorems of C08 (`Props/C08/Schema.lean`) and C09 (`Props/C09/Schema.lean`): the generated
schema (`PgVerif.Gen.Schema`, regenerated from the current source on every run) flattened into the constraint vocabulary of
`PgVerif.Spec.Schema`.  Definitions only — every comparison is a theorem of the property files.  No Mathlib.
-/
import PgVerif.Gen.Schema
import PgVerif.Spec.Schema

namespace PgVerif.C08
open PgVerif.Spec.Schema (Constraint Relied relied notModelled)

namespace SchemaTie

/-- NOT NULL, UNIQUE / PRIMARY KEY and FOREIGN KEY constraints of one generated table -/
def constraintsOf (t : Gen.Schema.Table) : List Constraint :=
  ((t.columns.filter (·.notnull)).map fun c => Constraint.notNull t.name c.name) ++
  (t.uniques.map fun u => Constraint.unique t.name u) ++
  (t.fks.map fun f => Constraint.foreignKey t.name f.cols f.refTable f.refCols)

/-- every NOT NULL / UNIQUE / FOREIGN KEY constraint of the generated schema -/
def schemaConstraints : List Constraint := Gen.Schema.tables.flatMap constraintsOf

def reliedCs : List Constraint := relied.map (·.c)
def notModelledCs : List Constraint := notModelled.map (·.1)

def tableNames : List String := Gen.Schema.tables.map (·.name)

def columnsOf (t : Gen.Schema.Table) : List Spec.Schema.Col :=
  t.columns.map fun c => ⟨c.name, c.type, c.notnull, c.pk, c.dflt⟩

/-- the generated schema has, for `table.col`, a foreign key to `ref.refCol` without any ON DELETE / ON UPDATE action -/
def hasPlainFk (table col ref refCol : String) : Bool :=
  Gen.Schema.tables.any fun t => t.name == table &&
    t.fks.any fun f => f.cols == [col] && f.refTable == ref && f.refCols == [refCol] && f.onDelete == "NO ACTION" && f.onUpdate == "NO ACTION"

end SchemaTie

end PgVerif.C08
