/-
Shared lemmas for C08 / C09: an `exec` view of the `Sql` monad of `PgVerif.Model.Store`, the exact behaviour of one
statement (`exec_stmt`), a small relational program logic (`Rel`) closed under the control structures the store
operations use, its lifting to every `Op.body` (`rel_opBody`, `rel_prog`), and `runOp` expressed through `exec`.
-/
import PgVerif.Model.Store
import Mathlib.Tactic
set_option linter.unusedSimpArgs false
namespace PgVerif.StoreL
open PgVerif.Model.Store

def exec {β : Type} (p : Sql β) (w : Work) : Except SqlErr β × Work := (ExceptT.run p).run w

@[simp] lemma exec_pure {β} (a : β) (w : Work) : exec (pure a : Sql β) w = (.ok a, w) := rfl
@[simp] lemma exec_throw {β} (e : SqlErr) (w : Work) : exec (throw e : Sql β) w = (.error e, w) := rfl
@[simp] lemma exec_raise {β} (e : SqlErr) (w : Work) : exec (raise e : Sql β) w = (.error e, w) := rfl
lemma exec_bind {α β} (p : Sql α) (f : α → Sql β) (w : Work) :
    exec (p >>= f) w = match exec p w with
      | (.ok a, w') => exec (f a) w'
      | (.error e, w') => (.error e, w') := by
  simp only [exec, ExceptT.run_bind, StateT.run_bind]
  show (match (StateT.run (ExceptT.run p) w) with | (a, s) => _) = _
  rcases h : StateT.run (ExceptT.run p) w with ⟨r, w'⟩
  cases r <;> rfl
lemma exec_map {α β} (p : Sql α) (f : α → β) (w : Work) :
    exec (f <$> p) w = match exec p w with
      | (.ok a, w') => (.ok (f a), w')
      | (.error e, w') => (.error e, w') := by
  rw [map_eq_pure_bind, exec_bind]; rfl
@[simp] lemma exec_get (w : Work) : exec (get : Sql Work) w = (.ok w, w) := rfl
@[simp] lemma exec_set (w' w : Work) : exec (set w' : Sql Unit) w = (.ok (), w') := rfl
@[simp] lemma exec_modify (f : Work → Work) (w : Work) : exec (modify f : Sql Unit) w = (.ok (), f w) := rfl
@[simp] lemma exec_modifyMem (f : Mem → Mem) (w : Work) : exec (modifyMem f) w = (.ok (), { w with mem := f w.mem }) := rfl


/-- the fault injected at statement `k` before the statement runs -/
def injected (f : Option (Nat × FaultKind)) (k : Nat) : Option SqlErr :=
  match f with
  | some (kf, .integrity) => if kf = k then some .integrity else none
  | some (kf, .interface) => if kf = k then some .interface else none
  | some (kf, .operational) => if kf = k then some .operational else none
  | some (kf, .foreign) => if kf = k then some .foreign else none
  | some (kf, .exitBefore) => if kf = k then some .exit else none
  | _ => none

lemma exec_stmt {β} (body : Db → Except SqlErr (β × Db)) (w : Work) :
    exec (stmt body) w =
      match injected w.fault w.n with
      | some e => (.error e, { w with n := w.n + 1 })
      | none =>
        match body w.db with
        | .error e => (.error e, { w with n := w.n + 1 })
        | .ok (r, db') =>
          if w.fault = some (w.n, .exitAfter) then (.error .exit, { w with n := w.n + 1, db := db' })
          else (.ok r, { w with n := w.n + 1, db := db' }) := by
  rcases w with ⟨db, mem, n, f⟩
  rcases f with _ | ⟨kf, kind⟩
  · cases hb : body db with
    | error e => simp [stmt, injected, exec_bind, exec_map, hb]
    | ok p => obtain ⟨r, db'⟩ := p; simp [stmt, injected, exec_bind, exec_map, hb]
  · by_cases hk : kf = n <;> cases kind <;> cases hb : body db with
    | error e => simp [stmt, injected, exec_bind, exec_map, hb, hk]
    | ok p => obtain ⟨r, db'⟩ := p; simp [stmt, injected, exec_bind, exec_map, hb, hk]


/-! ### a small relational program logic -/

/-- Two runs of the same program from `R`-related states: either the first run fails with an error allowed to escape (`E e`),
or both runs return the same result in `R`-related states.  (`E := fun _ => False`: strict; unary invariants are the
relations `w = w' ∧ P w`.) -/
def Rel (E : SqlErr → Prop) (R : Work → Work → Prop) {β : Type} (p : Sql β) : Prop :=
  ∀ w w', R w w' →
    (∃ e, E e ∧ (exec p w).1 = .error e) ∨ ((exec p w).1 = (exec p w').1 ∧ R (exec p w).2 (exec p w').2)

namespace Rel
variable {E : SqlErr → Prop} {R : Work → Work → Prop}

lemma pure {β} (a : β) : Rel E R (Pure.pure a : Sql β) := fun _ _ h => Or.inr ⟨rfl, h⟩
lemma throw {β} (e : SqlErr) : Rel E R (throw e : Sql β) := fun _ _ h => Or.inr ⟨rfl, h⟩
lemma raise {β} (e : SqlErr) : Rel E R (raise e : Sql β) := fun _ _ h => Or.inr ⟨rfl, h⟩

lemma bind {α β} {p : Sql α} {f : α → Sql β} (hp : Rel E R p) (hf : ∀ a, Rel E R (f a)) : Rel E R (p >>= f) := by
  intro w w' h
  rw [exec_bind, exec_bind]
  rcases hp w w' h with ⟨e, hE, he⟩ | ⟨h1, h2⟩
  · left
    refine ⟨e, hE, ?_⟩
    rcases hx : exec p w with ⟨r, w1⟩
    rw [hx] at he
    simp only at he
    subst he
    rfl
  · rcases hx : exec p w with ⟨r, w1⟩
    rcases hy : exec p w' with ⟨r', w1'⟩
    rw [hx, hy] at h1 h2
    simp only at h1 h2
    subst h1
    cases r with
    | error e => exact Or.inr ⟨rfl, h2⟩
    | ok a => exact hf a w1 w1' h2

lemma ite {β} {c : Prop} [Decidable c] {p q : Sql β} (hp : Rel E R p) (hq : Rel E R q) :
    Rel E R (if c then p else q) := by
  split <;> assumption

lemma forIn {α β} (l : List α) (f : α → β → Sql (ForInStep β)) (hf : ∀ a b, Rel E R (f a b)) (b : β) :
    Rel E R (forIn l b f) := by
  induction l generalizing b with
  | nil => rw [List.forIn_nil]; exact pure b
  | cons a l ih =>
    rw [List.forIn_cons]
    refine bind (hf a b) ?_
    intro r
    cases r with
    | done b => exact pure b
    | yield b => exact ih b

end Rel


section ops
variable {E : SqlErr → Prop} {R : Work → Work → Prop}
  (hs : ∀ {β : Type} (body : Db → Except SqlErr (β × Db)), Rel E R (stmt body))
  (hm : ∀ f, Rel E R (modifyMem f))
include hs hm

/-- structural decomposition of a `do` block into its statements -/
macro "sql_struct" hs:ident hm:ident : tactic => `(tactic|
  repeat (first
    | with_reducible exact Rel.pure _ | with_reducible exact Rel.throw _ | with_reducible exact Rel.raise _
    | with_reducible exact $hs _ | with_reducible exact $hm _
    | with_reducible apply Rel.bind | with_reducible apply Rel.ite | with_reducible apply Rel.forIn
    | with_reducible intro _
    | (split)
    | dsimp only))

lemma rel_adsToDb (name props autoinsert overwrite) : Rel E R (adsToDb name props autoinsert overwrite) := by
  unfold adsToDb readStmt writeStmt
  sql_struct hs hm

lemma rel_matToDb (name props autoinsert overwrite) : Rel E R (matToDb name props autoinsert overwrite) := by
  unfold matToDb readStmt writeStmt
  sql_struct hs hm

lemma rel_adsDelete (name) : Rel E R (adsDelete name) := by
  unfold adsDelete readStmt writeStmt
  sql_struct hs hm

lemma rel_matDelete (name) : Rel E R (matDelete name) := by
  unfold matDelete readStmt writeStmt
  sql_struct hs hm

lemma rel_typeToDb (tb t u d o) : Rel E R (typeToDb tb t u d o) := by
  unfold typeToDb writeStmt
  sql_struct hs hm

lemma rel_typeDelete (tb t) : Rel E R (typeDelete tb t) := by
  unfold typeDelete readStmt writeStmt
  sql_struct hs hm

lemma rel_isoDelete (id) : Rel E R (isoDelete id) := by
  unfold isoDelete readStmt writeStmt
  sql_struct hs hm

lemma rel_isoPropTypeOp (w) : Rel E R (isoPropTypeOp w) := by
  unfold isoPropTypeOp writeStmt
  sql_struct hs hm

lemma rel_isoToDb (i am aa) : Rel E R (isoToDb i am aa) := by
  unfold isoToDb readStmt writeStmt
  have h1 := rel_adsToDb (E := E) (R := R) hs hm
  have h2 := rel_matToDb (E := E) (R := R) hs hm
  repeat (first
    | with_reducible exact Rel.pure _ | with_reducible exact Rel.throw _ | with_reducible exact Rel.raise _
    | with_reducible exact hs _ | with_reducible exact hm _ | with_reducible exact h1 _ _ _ _ | with_reducible exact h2 _ _ _ _
    | with_reducible apply Rel.bind | with_reducible apply Rel.ite | with_reducible apply Rel.forIn
    | with_reducible intro _
    | (split)
    | dsimp only)

lemma rel_opBody (op : Op) : Rel E R op.body := by
  cases op with
  | adsToDb n p a o => exact rel_adsToDb hs hm n p a o
  | matToDb n p a o => exact rel_matToDb hs hm n p a o
  | adsDelete n => exact rel_adsDelete hs hm n
  | matDelete n => exact rel_matDelete hs hm n
  | typeToDb tb t u d o => exact rel_typeToDb hs hm tb t u d o
  | typeDelete tb t => exact rel_typeDelete hs hm tb t
  | isoToDb i am aa => exact rel_isoToDb hs hm i am aa
  | isoDelete id => exact rel_isoDelete hs hm id
  | isoPropTypeOp w => exact rel_isoPropTypeOp hs hm w

/-- the program `runOp` runs: the PRAGMA statement, then the body -/
def prog (op : Op) : Sql Unit := do
  writeStmt fun d => .ok d
  op.body

lemma rel_prog (op : Op) : Rel E R (prog op) := by
  unfold prog writeStmt
  exact Rel.bind (hs _) fun _ => rel_opBody hs hm op

end ops

/-! ### `runOp` in terms of `exec` -/

/-- what `with_connection` does with the body's result -/
def finish (db : Db) (mem : Mem) (fault : Option (Nat × FaultKind)) (rw : Except SqlErr Unit × Work) : Result :=
  match rw.1 with
  | .ok _ =>
    if fault = some (rw.2.n, .exitBefore) then ⟨db, mem, .died, rw.2.n⟩
    else if fault = some (rw.2.n, .exitAfter) then ⟨rw.2.db, mem, .died, rw.2.n⟩
    else ⟨rw.2.db, rw.2.mem, .ok, rw.2.n⟩
  | .error .integrity => ⟨db, rw.2.mem, .parsingError, rw.2.n⟩
  | .error .interface => ⟨db, rw.2.mem, .parsingError, rw.2.n⟩
  | .error .operational => ⟨db, rw.2.mem, .otherError, rw.2.n⟩
  | .error .foreign => ⟨db, rw.2.mem, .otherError, rw.2.n⟩
  | .error .exit => ⟨db, mem, .died, rw.2.n⟩

lemma runOp_eq (db : Db) (mem : Mem) (op : Op) (fault : Option (Nat × FaultKind)) :
    runOp db mem op fault = finish db mem fault (exec (prog op) ⟨db, mem, 0, fault⟩) := by
  unfold runOp finish exec prog
  rcases h : StateT.run (ExceptT.run (do writeStmt fun d => Except.ok d; op.body)) ⟨db, mem, 0, fault⟩ with ⟨r, w⟩
  simp only [h]
  rcases r with e | a
  · cases e <;> rfl
  · rfl


/-! ### helper facts about `finish` (the commit / rollback / propagate step of `with_connection`) -/

lemma finish_error_db (db : Db) (mem : Mem) (f : Option (Nat × FaultKind)) (rw : Except SqlErr Unit × Work)
    (e : SqlErr) (h : rw.1 = .error e) : (finish db mem f rw).db = db := by
  unfold finish
  rw [h]
  cases e <;> rfl

lemma finish_congr (db : Db) (mem mem' : Mem) (f : Option (Nat × FaultKind)) (rw rw' : Except SqlErr Unit × Work)
    (h1 : rw.1 = rw'.1) (h2 : rw.2.db = rw'.2.db) (h3 : rw.2.n = rw'.2.n) :
    (finish db mem f rw).db = (finish db mem' f rw').db ∧ (finish db mem f rw).out = (finish db mem' f rw').out ∧
      (finish db mem f rw).stmts = (finish db mem' f rw').stmts := by
  unfold finish
  rw [← h1, ← h2, ← h3]
  rcases rw.1 with e | a
  · cases e <;> exact ⟨rfl, rfl, rfl⟩
  · simp only
    split_ifs <;> exact ⟨rfl, rfl, rfl⟩

lemma finish_none_ok (db : Db) (mem : Mem) (rw : Except SqlErr Unit × Work) (h : rw.1 = .ok ()) :
    finish db mem none rw = ⟨rw.2.db, rw.2.mem, .ok, rw.2.n⟩ := by
  unfold finish
  rw [h]
  simp

lemma finish_ok_db (db : Db) (mem : Mem) (f : Option (Nat × FaultKind)) (rw : Except SqlErr Unit × Work)
    (h : rw.1 = .ok ()) : (finish db mem f rw).db = db ∨ (finish db mem f rw).db = rw.2.db := by
  unfold finish
  rw [h]
  simp only
  split_ifs
  · exact Or.inl rfl
  · exact Or.inr rfl
  · exact Or.inr rfl

lemma finish_error_out (db : Db) (mem : Mem) (f : Option (Nat × FaultKind)) (rw : Except SqlErr Unit × Work)
    (e : SqlErr) (h : rw.1 = .error e) : (finish db mem f rw).out ≠ .ok := by
  unfold finish
  rw [h]
  cases e <;> simp

/-- the number of statements of the fault-free run, through `exec` -/
lemma stmtCount_eq (db : Db) (mem : Mem) (op : Op) :
    stmtCount db mem op = (exec (prog op) ⟨db, mem, 0, none⟩).2.n := by
  unfold stmtCount
  rw [runOp_eq]
  unfold finish
  rcases (exec (prog op) ⟨db, mem, 0, none⟩).1 with e | a
  · cases e <;> rfl
  · simp

/-! ### instance 1: the in-memory lists are never read -/

/-- same working copy, counter and fault plan; the in-memory lists may differ -/
def memR (w w' : Work) : Prop := w.db = w'.db ∧ w.n = w'.n ∧ w.fault = w'.fault

lemma memR_stmt {β : Type} (body : Db → Except SqlErr (β × Db)) : Rel (fun _ => False) memR (stmt body) := by
  rintro ⟨db, mem, n, f⟩ ⟨db', mem', n', f'⟩ ⟨h1, h2, h3⟩
  simp only at h1 h2 h3
  subst h1 h2 h3
  right
  rw [exec_stmt, exec_stmt]
  simp only
  cases injected f n with
  | some e => exact ⟨rfl, rfl, rfl, rfl⟩
  | none =>
    simp only
    cases body db with
    | error e => exact ⟨rfl, rfl, rfl, rfl⟩
    | ok p =>
      obtain ⟨r, d⟩ := p
      simp only
      split <;> exact ⟨rfl, rfl, rfl, rfl⟩

lemma memR_modifyMem (f : Mem → Mem) : Rel (fun _ => False) memR (modifyMem f) := by
  rintro w w' ⟨h1, h2, h3⟩
  exact Or.inr ⟨rfl, h1, h2, h3⟩

/-! ### instance 2: a faulty run against the fault-free run -/

/-- same working copy, counter and lists; the first run carries the fault plan `(k, kind)`, the second none -/
def faultR (k : Nat) (kind : FaultKind) (w w' : Work) : Prop :=
  w.db = w'.db ∧ w.n = w'.n ∧ w.mem = w'.mem ∧ w.fault = some (k, kind) ∧ w'.fault = none

lemma faultR_stmt (k : Nat) (kind : FaultKind) {β : Type} (body : Db → Except SqlErr (β × Db)) :
    Rel (fun _ => True) (faultR k kind) (stmt body) := by
  rintro ⟨db, mem, n, f⟩ ⟨db', mem', n', f'⟩ ⟨h1, h2, h3, h4, h5⟩
  simp only at h1 h2 h3 h4 h5
  subst h1 h2 h3 h4 h5
  rw [exec_stmt, exec_stmt]
  simp only
  cases hi : injected (some (k, kind)) n with
  | some e => exact Or.inl ⟨e, trivial, rfl⟩
  | none =>
    have h0 : injected none n = none := rfl
    rw [h0]
    simp only
    cases body db with
    | error e => exact Or.inr ⟨rfl, rfl, rfl, rfl, rfl, rfl⟩
    | ok p =>
      obtain ⟨r, d⟩ := p
      simp only
      split
      · exact Or.inl ⟨_, trivial, rfl⟩
      · exact Or.inr ⟨rfl, rfl, rfl, rfl, rfl, rfl⟩

lemma faultR_modifyMem (k : Nat) (kind : FaultKind) (f : Mem → Mem) : Rel (fun _ => True) (faultR k kind) (modifyMem f) := by
  rintro w w' ⟨h1, h2, h3, h4, h5⟩
  refine Or.inr ⟨rfl, h1, h2, ?_, h4, h5⟩
  simp only [exec_modifyMem, h3]

/-! ### a run whose fault is never hit coincides with the fault-free run -/

/-- `fault_not_hit`: if the body, run with the fault plan `(k, kind)`, returns normally, then its final working state
(working copy, statement counter, in-memory lists) is exactly the one of the fault-free run. -/
lemma exec_fault_not_hit (db : Db) (mem : Mem) (op : Op) (k : Nat) (kind : FaultKind)
    (h : (exec (prog op) ⟨db, mem, 0, some (k, kind)⟩).1 = .ok ()) :
    (exec (prog op) ⟨db, mem, 0, none⟩).1 = .ok () ∧
    (exec (prog op) ⟨db, mem, 0, some (k, kind)⟩).2.db = (exec (prog op) ⟨db, mem, 0, none⟩).2.db ∧
    (exec (prog op) ⟨db, mem, 0, some (k, kind)⟩).2.n = (exec (prog op) ⟨db, mem, 0, none⟩).2.n ∧
    (exec (prog op) ⟨db, mem, 0, some (k, kind)⟩).2.mem = (exec (prog op) ⟨db, mem, 0, none⟩).2.mem := by
  rcases rel_prog (fun b => faultR_stmt k kind b) (faultR_modifyMem k kind) op
      ⟨db, mem, 0, some (k, kind)⟩ ⟨db, mem, 0, none⟩ ⟨rfl, rfl, rfl, rfl, rfl⟩ with ⟨e, _, he⟩ | ⟨h1, h2, h3, h4, _⟩
  · rw [h] at he; cases he
  · exact ⟨h1 ▸ h, h2, h3, h4⟩

/-- **Atomicity**: whatever statement a fault hits and whatever its kind, the committed file content afterwards is either
the content before the call or the content the fault-free call commits. -/
lemma runOp_atomic (db : Db) (mem : Mem) (op : Op) (k : Nat) (kind : FaultKind) :
    (runOp db mem op (some (k, kind))).db = db ∨
      (runOp db mem op (some (k, kind))).db = (runOp db mem op none).db := by
  rw [runOp_eq, runOp_eq]
  rcases hr : (exec (prog op) ⟨db, mem, 0, some (k, kind)⟩).1 with e | a
  · exact Or.inl (finish_error_db _ _ _ _ e hr)
  · obtain ⟨h0, h1, _, _⟩ := exec_fault_not_hit db mem op k kind hr
    rw [finish_none_ok _ _ _ h0]
    rcases finish_ok_db db mem (some (k, kind)) _ hr with h | h
    · exact Or.inl h
    · exact Or.inr (h.trans h1)


/-! ### fault-free runs -/

lemma exec_stmt_none {β} (body : Db → Except SqlErr (β × Db)) (db : Db) (mem : Mem) (n : Nat) :
    exec (stmt body) ⟨db, mem, n, none⟩ =
      match body db with
      | .error e => (.error e, ⟨db, mem, n + 1, none⟩)
      | .ok (r, db') => (.ok r, ⟨db', mem, n + 1, none⟩) := by
  rw [exec_stmt]
  have : injected none n = none := rfl
  simp only [this]
  cases body db with
  | error e => rfl
  | ok p => obtain ⟨r, d⟩ := p; simp

@[simp] lemma exec_readStmt_none {β} (g : Db → β) (db : Db) (mem : Mem) (n : Nat) :
    exec (readStmt g) ⟨db, mem, n, none⟩ = (.ok (g db), ⟨db, mem, n + 1, none⟩) := by
  unfold readStmt; rw [exec_stmt_none]

lemma exec_writeStmt_none (f : Db → Except SqlErr Db) (db : Db) (mem : Mem) (n : Nat) :
    exec (writeStmt f) ⟨db, mem, n, none⟩ =
      match f db with
      | .error e => (.error e, ⟨db, mem, n + 1, none⟩)
      | .ok d => (.ok (), ⟨d, mem, n + 1, none⟩) := by
  unfold writeStmt; rw [exec_stmt_none]
  cases f db <;> rfl

lemma exec_writeStmt_ok {f : Db → Except SqlErr Db} {db d : Db} (h : f db = .ok d) (mem : Mem) (n : Nat) :
    exec (writeStmt f) ⟨db, mem, n, none⟩ = (.ok (), ⟨d, mem, n + 1, none⟩) := by
  rw [exec_writeStmt_none, h]

lemma exec_writeStmt_error {f : Db → Except SqlErr Db} {db : Db} {e : SqlErr} (h : f db = .error e) (mem : Mem) (n : Nat) :
    exec (writeStmt f) ⟨db, mem, n, none⟩ = (.error e, ⟨db, mem, n + 1, none⟩) := by
  rw [exec_writeStmt_none, h]

/-- outcome reported by `with_connection` for a fault-free body result -/
def outcomeOf : Except SqlErr Unit → Outcome
  | .ok _ => .ok
  | .error .integrity => .parsingError
  | .error .interface => .parsingError
  | .error .operational => .otherError
  | .error .foreign => .otherError
  | .error .exit => .died

/-- the fault-free call: the PRAGMA is statement 0, the body starts at counter 1 -/
lemma runOp_none (db : Db) (mem : Mem) (op : Op) :
    (runOp db mem op none).out = outcomeOf (exec op.body ⟨db, mem, 1, none⟩).1 ∧
    (runOp db mem op none).db =
      (match (exec op.body ⟨db, mem, 1, none⟩).1 with
        | .ok _ => (exec op.body ⟨db, mem, 1, none⟩).2.db
        | .error _ => db) := by
  rw [runOp_eq]
  unfold prog
  rw [exec_bind, exec_writeStmt_none]
  simp only
  unfold finish outcomeOf
  rcases (exec op.body ⟨db, mem, 1, none⟩).1 with e | a
  · cases e <;> exact ⟨rfl, rfl⟩
  · simp


/-! ### unary invariants of fault-free runs -/

/-- postcondition of a statement function: `P` of the new content, or an error allowed to escape -/
def okP (P : Db → Prop) (E : SqlErr → Prop) : Except SqlErr Db → Prop
  | .ok d => P d
  | .error e => E e

@[simp] lemma okP_ok {P : Db → Prop} {E : SqlErr → Prop} (d : Db) : okP P E (.ok d) = P d := rfl
@[simp] lemma okP_error {P : Db → Prop} {E : SqlErr → Prop} (e : SqlErr) : okP P E (.error e) = E e := rfl

/-- every error may escape -/
abbrev anyErr : SqlErr → Prop := fun _ => True

/-- Fault-free Hoare judgement with one invariant: from a state without fault plan whose working copy satisfies `P`, the
program either fails with an error satisfying `E`, or returns normally in a state without fault plan whose working copy
satisfies `P`. -/
def Inv (E : SqlErr → Prop) (P : Db → Prop) {β : Type} (p : Sql β) : Prop :=
  ∀ w, w.fault = none → P w.db →
    (∃ e, E e ∧ (exec p w).1 = .error e) ∨
      (∃ a, (exec p w).1 = .ok a ∧ (exec p w).2.fault = none ∧ P (exec p w).2.db)

namespace Inv
variable {E : SqlErr → Prop} {P : Db → Prop}

lemma pure {β} (a : β) : Inv E P (Pure.pure a : Sql β) := fun _ h1 h2 => Or.inr ⟨a, rfl, h1, h2⟩
lemma throw {β} (e : SqlErr) (he : E e) : Inv E P (throw e : Sql β) := fun _ _ _ => Or.inl ⟨e, he, rfl⟩
lemma raise {β} (e : SqlErr) (he : E e) : Inv E P (raise e : Sql β) := fun _ _ _ => Or.inl ⟨e, he, rfl⟩

lemma bind {α β} {p : Sql α} {f : α → Sql β} (hp : Inv E P p) (hf : ∀ a, Inv E P (f a)) : Inv E P (p >>= f) := by
  intro w h1 h2
  rw [exec_bind]
  rcases hp w h1 h2 with ⟨e, hE, he⟩ | ⟨a, ha, h3, h4⟩
  · left
    refine ⟨e, hE, ?_⟩
    rcases hx : exec p w with ⟨r, w1⟩
    rw [hx] at he
    simp only at he
    subst he
    rfl
  · rcases hx : exec p w with ⟨r, w1⟩
    rw [hx] at ha h3 h4
    simp only at ha h3 h4
    subst ha
    exact hf a w1 h3 h4

lemma ite {β} {c : Prop} [Decidable c] {p q : Sql β} (hp : Inv E P p) (hq : Inv E P q) :
    Inv E P (if c then p else q) := by
  split <;> assumption

lemma forIn {α β} (l : List α) (f : α → β → Sql (ForInStep β)) (hf : ∀ a b, Inv E P (f a b)) (b : β) :
    Inv E P (forIn l b f) := by
  induction l generalizing b with
  | nil => rw [List.forIn_nil]; exact pure b
  | cons a l ih =>
    rw [List.forIn_cons]
    refine bind (hf a b) ?_
    intro r
    cases r with
    | done b => exact pure b
    | yield b => exact ih b

lemma forIn_mem {α β} (l : List α) (f : α → β → Sql (ForInStep β)) (hf : ∀ a ∈ l, ∀ b, Inv E P (f a b)) (b : β) :
    Inv E P (ForIn.forIn l b f) := by
  induction l generalizing b with
  | nil => rw [List.forIn_nil]; exact pure b
  | cons a l ih =>
    rw [List.forIn_cons]
    refine bind (hf a List.mem_cons_self b) ?_
    intro r
    cases r with
    | done b => exact pure b
    | yield b => exact ih (fun a' ha' => hf a' (List.mem_cons_of_mem _ ha')) b

lemma stmt {β} (body : Db → Except SqlErr (β × Db))
    (h : ∀ d, P d → match body d with | .ok (_, d') => P d' | .error e => E e) : Inv E P (stmt body) := by
  rintro ⟨db, mem, n, f⟩ hf hP
  simp only at hf hP
  subst hf
  rw [exec_stmt_none]
  have := h db hP
  cases hb : body db with
  | error e => rw [hb] at this; exact Or.inl ⟨e, this, rfl⟩
  | ok p => obtain ⟨r, d⟩ := p; rw [hb] at this; exact Or.inr ⟨r, rfl, rfl, this⟩

lemma readStmt {β} (g : Db → β) : Inv E P (readStmt g) := stmt _ fun _ h => h

lemma writeStmt (f : Db → Except SqlErr Db) (h : ∀ d, P d → okP P E (f d)) : Inv E P (writeStmt f) := by
  refine stmt _ fun d hd => ?_
  have := h d hd
  cases hf : f d with
  | error e => rw [hf] at this; exact this
  | ok d' => rw [hf] at this; exact this

lemma modifyMem (f : Mem → Mem) : Inv E P (modifyMem f) := fun _ h1 h2 => Or.inr ⟨(), rfl, h1, h2⟩

end Inv

/-- structural decomposition for a unary invariant; `t` discharges the obligation of each write statement and `r` the
side condition `E e` of each `raise e` -/
macro "sql_inv" "[" t:tacticSeq "]" "[" r:tacticSeq "]" : tactic => `(tactic|
  repeat (first
    | with_reducible exact Inv.pure _
    | with_reducible exact Inv.readStmt _ | with_reducible exact Inv.modifyMem _
    | with_reducible refine Inv.raise _ (by $r) | with_reducible refine Inv.throw _ (by $r)
    | with_reducible refine Inv.writeStmt _ (by $t)
    | with_reducible apply Inv.bind | with_reducible apply Inv.ite | with_reducible apply Inv.forIn
    | with_reducible intro _
    | (split)
    | dsimp only))

end PgVerif.StoreL
