/-
Helper lemmas for C01 (unit conversions).  Property theorems live in `Props/C01.lean`.
Everything here is about the *generated* tables (`Gen.*`); the tie to the SI tables is `Tie/Units.lean`.
-/
import PgVerif.Model.Units
import PgVerif.Spec.Units
import Mathlib.Tactic

set_option linter.unusedSectionVars false
set_option linter.unusedSimpArgs false
set_option linter.unusedTactic false
set_option linter.unusedVariables false
set_option linter.unreachableTactic false

namespace PgVerif.Units
open PgVerif.Model PgVerif.Gen
open PgVerif.Spec (LB MB Ads Mat gL gM PRep LRep MRep TRep physScale fac)
open PgVerif.Spec.LB PgVerif.Spec.MB

variable {α : Type} [Field α] [CharZero α]

theorem facOf_eq_fac (t : List (String × Nat × Nat)) (s : String) : (facOf t s : Option α) = fac t s := rfl

theorem lookup_all {β} (t : List (String × β)) (P : β → Bool) (hall : t.all (fun e => P e.2) = true)
    (s : String) (b : β) (h : t.lookup s = some b) : P b = true := by
  induction t with
  | nil => simp [List.lookup] at h
  | cons e t ih =>
    simp only [List.all_cons, Bool.and_eq_true] at hall
    rw [List.lookup_cons] at h
    split at h
    · cases h; exact hall.1
    · exact ih hall.2 h

def tableOk (t : List (String × Nat × Nat)) : Bool := t.all fun e => decide (e.2.1 ≠ 0 ∧ e.2.2 ≠ 0)

theorem facOf_ne_zero (t : List (String × Nat × Nat)) (ht : tableOk t = true) (s : String) (f : α)
    (h : (facOf t s : Option α) = some f) : f ≠ 0 := by
  unfold facOf at h
  cases hl : t.lookup s with
  | none => simp [hl] at h
  | some e =>
    simp [hl] at h
    have := lookup_all t (fun e => decide (e.1 ≠ 0 ∧ e.2 ≠ 0)) ht s e hl
    simp only [decide_eq_true_eq] at this
    subst h
    exact div_ne_zero (Nat.cast_ne_zero.mpr this.1) (Nat.cast_ne_zero.mpr this.2)

theorem checkUnit_of_fac (t) (u : String) (f : α) (hu : u ≠ "") (h : (facOf t u : Option α) = some f) :
    (checkUnit t (some u) : Except Err α) = .ok f := by
  simp [checkUnit, hu, h]

theorem pa_fac : (facOf pressureUnits "Pa" : Option α) = some 1 := by
  simp [facOf, pressureUnits, List.lookup]

theorem cUnit_ok (t) (v : α) (uf ut : String) (ff ft : α) (sign : Int) (hf0 : uf ≠ "") (ht0 : ut ≠ "")
    (hf : (facOf t uf : Option α) = some ff) (ht : (facOf t ut : Option α) = some ft) :
    cUnit t v (some uf) (some ut) sign = .ok (v * (ff / ft) ^ sign) := by
  simp [cUnit, checkUnit, hf0, ht0, hf, ht, bind, Except.bind, pure, Except.pure]

theorem scale_abs {u : String} {s : α} (h : (if u = "" then none else (facOf pressureUnits u : Option α)) = some s) :
    u ≠ "" ∧ (facOf pressureUnits u : Option α) = some s := by
  by_cases hu : u = "" <;> simp_all

theorem pressure_ok : tableOk pressureUnits = true := by decide

theorem satP (ps : α) (u : String) (f : α) (hu : u ≠ "") (hf : (facOf pressureUnits u : Option α) = some f) :
    cUnit pressureUnits ps (some "Pa") (some u) 1 = .ok (ps / f) := by
  rw [cUnit_ok pressureUnits ps "Pa" u 1 f 1 (by decide) hu pa_fac hf]; simp [div_eq_mul_inv]

theorem cPressure_spec (ps v : α) (hps : ps ≠ 0) (a b : PRep) (sa sb : α)
    (ha : a.scale pressureUnits ps = some sa) (hb : b.scale pressureUnits ps = some sb) :
    cPressure (some ps) true v (some a.mode) (some b.mode) a.unit b.unit = .ok (v * sa / sb) := by
  have h100 : (100 : α) ≠ 0 := by norm_num
  cases a <;> cases b <;> simp only [Spec.PRep.scale, PRep.mode, PRep.unit] at ha hb ⊢
  all_goals (unfold cPressure; simp [checkBasis, pressureMode, List.lookup, bind, Except.bind, pure, Except.pure, truthy])
  case abs.abs u1 u2 =>
    obtain ⟨hu1, hf1⟩ := scale_abs ha
    obtain ⟨hu2, hf2⟩ := scale_abs hb
    simp [hu2, cUnit_ok pressureUnits v u1 u2 sa sb 1 hu1 hu2 hf1 hf2, mul_div_assoc]
  case abs.rel u1 _ =>
    obtain ⟨hu1, hf1⟩ := scale_abs ha
    have hn1 := facOf_ne_zero _ pressure_ok _ _ hf1
    simp only [Option.some.injEq] at hb; subst hb
    simp [checkUnit, hu1, hf1, satP ps u1 sa hu1 hf1]; field_simp
  case abs.relp u1 _ =>
    obtain ⟨hu1, hf1⟩ := scale_abs ha
    have hn1 := facOf_ne_zero _ pressure_ok _ _ hf1
    simp only [Option.some.injEq] at hb; subst hb
    simp [checkUnit, hu1, hf1, satP ps u1 sa hu1 hf1]; field_simp
  case rel.abs _ u2 =>
    obtain ⟨hu2, hf2⟩ := scale_abs hb
    have hn2 := facOf_ne_zero _ pressure_ok _ _ hf2
    simp only [Option.some.injEq] at ha; subst ha
    simp [checkUnit, hu2, hf2, satP ps u2 sb hu2 hf2]; field_simp
  case relp.abs _ u2 =>
    obtain ⟨hu2, hf2⟩ := scale_abs hb
    have hn2 := facOf_ne_zero _ pressure_ok _ _ hf2
    simp only [Option.some.injEq] at ha; subst ha
    simp [checkUnit, hu2, hf2, satP ps u2 sb hu2 hf2]; field_simp
  all_goals (simp only [Option.some.injEq] at ha hb; subst ha; subst hb; field_simp)

def envOf (a : Ads α) (m : Mat α) : Env α
  | .gasDensity => some a.rhoG | .liquidDensity => some a.rhoL | .molarMass => some a.M
  | .gasMolarDensity => some a.rhoGbar | .liquidMolarDensity => some a.rhoLbar
  | .matDensity => some m.density | .matMolarMass => some m.molarMass

theorem tables_ok : tableOk molarUnits = true ∧ tableOk massUnits = true ∧ tableOk volumeUnits = true := by decide

theorem physScale_inv {a : Ads α} {b : LB} {u : String} {s : α} (h : physScale unitTable a b u = some s) :
    u ≠ "" ∧ ∃ f : α, (facOf (unitTable b.table) u : Option α) = some f ∧ s = f * gL a b ∧ f ≠ 0 := by
  unfold physScale unitTable at h
  by_cases hu : u = ""
  · simp [hu] at h
  · simp only [hu, if_false, Option.map_eq_some_iff] at h
    obtain ⟨f, hf, rfl⟩ := h
    refine ⟨hu, f, hf, rfl, ?_⟩
    cases b <;> exact facOf_ne_zero _ (by decide) _ _ hf

/-- the constant and sign the code's if-chain selects, as a function of the two physical bases -/
def specLeaf : LB → LB → ConstExpr × Int
  | .mass, .volGas => (.q .gasDensity, -1)
  | .mass, .volLiq => (.q .liquidDensity, -1)
  | .mass, .molar => (.q .molarMass, -1)
  | .volGas, .mass => (.q .gasDensity, 1)
  | .volGas, .molar => (.q .gasMolarDensity, 1)
  | .volGas, .volLiq => (.ratio .gasMolarDensity .liquidMolarDensity, 1)
  | .volLiq, .mass => (.q .liquidDensity, 1)
  | .volLiq, .molar => (.q .liquidMolarDensity, 1)
  | .volLiq, .volGas => (.ratio .gasMolarDensity .liquidMolarDensity, -1)
  | .molar, .mass => (.q .molarMass, 1)
  | .molar, .volGas => (.q .gasMolarDensity, -1)
  | .molar, .volLiq => (.q .liquidMolarDensity, -1)
  | _, _ => (.one, 1)

theorem loadingConst_lookup (b1 b2 : LB) :
    loadingConst.lookup (b1.name, b2.name) = if b1 = b2 then none else some (specLeaf b1 b2) := by
  cases b1 <;> cases b2 <;> rfl

/-- value of the selected constant raised to the selected sign -/
def leafVal (a : Ads α) (b1 b2 : LB) : α := gL a b1 / gL a b2

theorem leaf_phys (a : Ads α) (mat : Mat α) (hc : a.Consistent) (hp : a.Pos) (b1 b2 : LB) :
    ∃ c : α, ∃ sg : Int, leaf loadingConst (envOf a mat) (some b1.name) (some b2.name) = .ok (c, sg)
      ∧ c ^ sg = gL a b1 / gL a b2 := by
  obtain ⟨hM, hL, hLb, hG, hGb⟩ := hp
  obtain ⟨cL, cG⟩ := hc
  unfold leaf
  simp only [loadingConst_lookup]
  cases b1 <;> cases b2 <;>
    simp [specLeaf, evalConst, evalQty, envOf, gL, bind, Except.bind, pure, Except.pure, cL, cG] <;> field_simp

theorem rawFac_phys (b : LB) (u : String) (f : α) (hf : (facOf (unitTable b.table) u : Option α) = some f) :
    (rawFac loadingMode (some b.name) (some u) : Except Err α) = .ok f := by
  cases b <;> simp [rawFac, loadingMode, List.lookup, LB.name, LB.table] at hf ⊢ <;> simp [hf]

theorem cLoading_phys (a : Ads α) (mat : Mat α) (hc : a.Consistent) (hp : a.Pos) (v : α)
    (b1 b2 : LB) (u1 u2 : String) (bm um : Option String) (s1 s2 : α)
    (h1 : physScale unitTable a b1 u1 = some s1) (h2 : physScale unitTable a b2 u2 = some s2) :
    cLoading (envOf a mat) v (some b1.name) (some b2.name) (some u1) (some u2) bm um = .ok (v * s1 / s2) := by
  obtain ⟨hu1, f1, hf1, rfl, hn1⟩ := physScale_inv h1
  obtain ⟨hu2, f2, hf2, rfl, hn2⟩ := physScale_inv h2
  obtain ⟨c, sg, hl, hcs⟩ := leaf_phys a mat hc hp b1 b2
  have hr1 := rawFac_phys b1 u1 f1 hf1
  have hr2 := rawFac_phys b2 u2 f2 hf2
  have hg1 : gL a b1 ≠ 0 := by obtain ⟨hM, hL, hLb, hG, hGb⟩ := hp; cases b1 <;> simp [gL, *]
  have hg2 : gL a b2 ≠ 0 := by obtain ⟨hM, hL, hLb, hG, hGb⟩ := hp; cases b2 <;> simp [gL, *]
  by_cases hb : b1 = b2
  · subst hb
    have : f1 * gL a b1 / (f2 * gL a b1) = f1 / f2 := by field_simp
    cases b1 <;>
      simp [cLoading, checkBasis, loadingMode, List.lookup, bind, Except.bind, pure, Except.pure, truthy, LB.name, LB.table, hu2] at hf1 hf2 ⊢
    all_goals (by_cases hu : u1 = u2)
    all_goals (first | (subst hu; simp_all; done) | skip)
    all_goals (simp [hu, cUnit_ok _ v u1 u2 f1 f2 1 hu1 hu2 hf1 hf2]; field_simp)
  · have hne : b1.name ≠ b2.name := by cases b1 <;> cases b2 <;> simp_all [LB.name]
    have hb1 : checkBasis loadingMode (some b1.name) = .ok (b1.name, some b1.table) := by cases b1 <;> rfl
    have hb2 : checkBasis loadingMode (some b2.name) = .ok (b2.name, some b2.table) := by cases b2 <;> rfl
    have hF1 : isFrac b1.name = false := by cases b1 <;> rfl
    have hF2 : isFrac b2.name = false := by cases b2 <;> rfl
    have hP1 : b1.name ≠ "percent" := by cases b1 <;> decide
    have hP2 : b2.name ≠ "percent" := by cases b2 <;> decide
    simp [cLoading, hb1, hb2, hne, hF1, hF2, hP1, hP2, checkUnit, hu1, hu2, hf1, hf2, hl, hr1, hr2, hcs, bind, Except.bind, pure, Except.pure]
    field_simp

theorem bm_subst (b : MB) :
    (if b.name = "volume" then some "volume_liquid" else some b.name) = some b.toLB.name := by
  cases b <;> rfl

theorem frac_basis : checkBasis loadingMode (some "fraction") = .ok ("fraction", none) := by rfl
theorem pct_basis : checkBasis loadingMode (some "percent") = .ok ("percent", none) := by rfl

/-- **C01, loading**: for every pair of loading representations (physical basis with a unit,
fraction, percent; the last two relative to the material representation `m`) the code multiplies by
`scale(from)/scale(to)`, the ratio of the SI contents of the two representations. -/
theorem cLoading_spec (a : Ads α) (mat : Mat α) (hc : a.Consistent) (hp : a.Pos) (v : α) (m : MRep)
    (r1 r2 : LRep) (s1 s2 : α) (h1 : r1.scale unitTable a m = some s1) (h2 : r2.scale unitTable a m = some s2) :
    cLoading (envOf a mat) v (some r1.basis) (some r2.basis) r1.unit r2.unit (some m.b.name) (some m.u)
      = .ok (v * s1 / s2) := by
  have h100 : (100 : α) ≠ 0 := by norm_num
  cases r1 <;> cases r2 <;> simp only [LRep.scale, LRep.basis, LRep.unit] at h1 h2 ⊢
  case phys.phys b1 u1 b2 u2 => exact cLoading_phys a mat hc hp v b1 b2 u1 u2 _ _ s1 s2 h1 h2
  case phys.frac b1 u1 =>
    skip
    obtain ⟨hu1, f1, hf1, rfl, hn1⟩ := physScale_inv h1
    obtain ⟨hu2, f2, hf2, rfl, hn2⟩ := physScale_inv h2
    obtain ⟨c, sg, hl, hcs⟩ := leaf_phys a mat hc hp b1 m.b.toLB
    have hr1 := rawFac_phys b1 u1 f1 hf1
    have hr2 := rawFac_phys m.b.toLB m.u f2 hf2
    have hg1 : gL a b1 ≠ 0 := by obtain ⟨hM, hL, hLb, hG, hGb⟩ := hp; cases b1 <;> simp [gL, *]
    have hg2 : gL a m.b.toLB ≠ 0 := by obtain ⟨hM, hL, hLb, hG, hGb⟩ := hp; cases m.b <;> simp [gL, MB.toLB, *]
    have hb1 : checkBasis loadingMode (some b1.name) = .ok (b1.name, some b1.table) := by cases b1 <;> rfl
    have hF1 : isFrac b1.name = false := by cases b1 <;> rfl
    have hP1 : b1.name ≠ "percent" := by cases b1 <;> decide
    have hQ1 : b1.name ≠ "fraction" := by cases b1 <;> decide
    simp [cLoading, hb1, frac_basis, hF1, hP1, hQ1, isFrac, bm_subst, checkUnit, hu1, hf1, hl, hr1, hr2, hcs, bind, Except.bind, pure, Except.pure]
    field_simp
  case phys.pct b1 u1 =>
    simp only [Option.map_eq_some_iff] at h2; obtain ⟨s2', h2, rfl⟩ := h2
    obtain ⟨hu1, f1, hf1, rfl, hn1⟩ := physScale_inv h1
    obtain ⟨hu2, f2, hf2, rfl, hn2⟩ := physScale_inv h2
    obtain ⟨c, sg, hl, hcs⟩ := leaf_phys a mat hc hp b1 m.b.toLB
    have hr1 := rawFac_phys b1 u1 f1 hf1
    have hr2 := rawFac_phys m.b.toLB m.u f2 hf2
    have hg1 : gL a b1 ≠ 0 := by obtain ⟨hM, hL, hLb, hG, hGb⟩ := hp; cases b1 <;> simp [gL, *]
    have hg2 : gL a m.b.toLB ≠ 0 := by obtain ⟨hM, hL, hLb, hG, hGb⟩ := hp; cases m.b <;> simp [gL, MB.toLB, *]
    have hb1 : checkBasis loadingMode (some b1.name) = .ok (b1.name, some b1.table) := by cases b1 <;> rfl
    have hF1 : isFrac b1.name = false := by cases b1 <;> rfl
    have hP1 : b1.name ≠ "percent" := by cases b1 <;> decide
    have hQ1 : b1.name ≠ "fraction" := by cases b1 <;> decide
    simp [cLoading, hb1, pct_basis, hF1, hP1, hQ1, isFrac, bm_subst, checkUnit, hu1, hf1, hl, hr1, hr2, hcs, bind, Except.bind, pure, Except.pure]
    field_simp
  case frac.phys b2 u2 =>
    skip
    obtain ⟨hu1, f1, hf1, rfl, hn1⟩ := physScale_inv h1
    obtain ⟨hu2, f2, hf2, rfl, hn2⟩ := physScale_inv h2
    obtain ⟨c, sg, hl, hcs⟩ := leaf_phys a mat hc hp m.b.toLB b2
    have hr1 := rawFac_phys m.b.toLB m.u f1 hf1
    have hr2 := rawFac_phys b2 u2 f2 hf2
    have hg1 : gL a m.b.toLB ≠ 0 := by obtain ⟨hM, hL, hLb, hG, hGb⟩ := hp; cases m.b <;> simp [gL, MB.toLB, *]
    have hg2 : gL a b2 ≠ 0 := by obtain ⟨hM, hL, hLb, hG, hGb⟩ := hp; cases b2 <;> simp [gL, *]
    have hb2 : checkBasis loadingMode (some b2.name) = .ok (b2.name, some b2.table) := by cases b2 <;> rfl
    have hF2 : isFrac b2.name = false := by cases b2 <;> rfl
    have hP2 : b2.name ≠ "percent" := by cases b2 <;> decide
    have hQ2 : b2.name ≠ "fraction" := by cases b2 <;> decide
    have hP2' : "percent" ≠ b2.name := fun h => hP2 h.symm
    have hQ2' : "fraction" ≠ b2.name := fun h => hQ2 h.symm
    simp [cLoading, hb2, frac_basis, hF2, hP2, hQ2, hP2', hQ2', isFrac, bm_subst, checkUnit, hu2, hf2, hl, hr1, hr2, hcs, bind, Except.bind, pure, Except.pure]
    field_simp
  case pct.phys b2 u2 =>
    simp only [Option.map_eq_some_iff] at h1; obtain ⟨s1', h1, rfl⟩ := h1
    obtain ⟨hu1, f1, hf1, rfl, hn1⟩ := physScale_inv h1
    obtain ⟨hu2, f2, hf2, rfl, hn2⟩ := physScale_inv h2
    obtain ⟨c, sg, hl, hcs⟩ := leaf_phys a mat hc hp m.b.toLB b2
    have hr1 := rawFac_phys m.b.toLB m.u f1 hf1
    have hr2 := rawFac_phys b2 u2 f2 hf2
    have hg1 : gL a m.b.toLB ≠ 0 := by obtain ⟨hM, hL, hLb, hG, hGb⟩ := hp; cases m.b <;> simp [gL, MB.toLB, *]
    have hg2 : gL a b2 ≠ 0 := by obtain ⟨hM, hL, hLb, hG, hGb⟩ := hp; cases b2 <;> simp [gL, *]
    have hb2 : checkBasis loadingMode (some b2.name) = .ok (b2.name, some b2.table) := by cases b2 <;> rfl
    have hF2 : isFrac b2.name = false := by cases b2 <;> rfl
    have hP2 : b2.name ≠ "percent" := by cases b2 <;> decide
    have hQ2 : b2.name ≠ "fraction" := by cases b2 <;> decide
    have hP2' : "percent" ≠ b2.name := fun h => hP2 h.symm
    have hQ2' : "fraction" ≠ b2.name := fun h => hQ2 h.symm
    simp [cLoading, hb2, pct_basis, hF2, hP2, hQ2, hP2', hQ2', isFrac, bm_subst, checkUnit, hu2, hf2, hl, hr1, hr2, hcs, bind, Except.bind, pure, Except.pure]
    field_simp
  all_goals (try (simp only [Option.map_eq_some_iff] at h1; obtain ⟨s1', h1, rfl⟩ := h1))
  all_goals (try (simp only [Option.map_eq_some_iff] at h2; obtain ⟨s2', h2, rfl⟩ := h2))
  all_goals (
    obtain ⟨hu1, f1, hf1, rfl, hn1⟩ := physScale_inv h1
    obtain ⟨hu2, f2, hf2, e2, hn2⟩ := physScale_inv h2
    rw [hf1] at hf2; cases hf2; subst e2
    have hg1 : gL a m.b.toLB ≠ 0 := by obtain ⟨hM, hL, hLb, hG, hGb⟩ := hp; cases m.b <;> simp [gL, MB.toLB, *]
    simp [cLoading, frac_basis, pct_basis, isFrac, truthy, bind, Except.bind, pure, Except.pure]
    try field_simp)

def Mat.Pos (m : Mat α) : Prop := m.density ≠ 0 ∧ m.molarMass ≠ 0

def specLeafM : MB → MB → ConstExpr × Int
  | .mass, .volume => (.q .matDensity, -1)
  | .mass, .molar => (.q .matMolarMass, -1)
  | .volume, .mass => (.q .matDensity, 1)
  | .volume, .molar => (.ratio .matDensity .matMolarMass, 1)
  | .molar, .mass => (.q .matMolarMass, 1)
  | .molar, .volume => (.ratio .matDensity .matMolarMass, -1)
  | _, _ => (.one, 1)

theorem materialConst_lookup (b1 b2 : MB) :
    materialConst.lookup (b1.name, b2.name) = if b1 = b2 then none else some (specLeafM b1 b2) := by
  cases b1 <;> cases b2 <;> rfl

theorem leaf_mat (a : Ads α) (mat : Mat α) (hp : Mat.Pos mat) (b1 b2 : MB) :
    ∃ c : α, ∃ sg : Int, leaf materialConst (envOf a mat) (some b1.name) (some b2.name) = .ok (c, sg)
      ∧ c ^ sg = gM mat b1 / gM mat b2 := by
  obtain ⟨hd, hm⟩ := hp
  unfold leaf
  simp only [materialConst_lookup]
  cases b1 <;> cases b2 <;>
    simp [specLeafM, evalConst, evalQty, envOf, gM, bind, Except.bind, pure, Except.pure] <;> field_simp

theorem grams_inv {mat : Mat α} {r : MRep} {g : α} (hp : Mat.Pos mat) (h : r.grams unitTable mat = some g) :
    r.u ≠ "" ∧ ∃ f : α, (facOf (unitTable r.b.table) r.u : Option α) = some f ∧ g = f * gM mat r.b ∧ f ≠ 0 ∧ gM mat r.b ≠ 0 := by
  unfold MRep.grams at h
  by_cases hu : r.u = ""
  · simp [hu] at h
  · simp only [hu, if_false, Option.map_eq_some_iff] at h
    obtain ⟨f, hf, rfl⟩ := h
    refine ⟨hu, f, hf, rfl, ?_, ?_⟩
    · cases hb : r.b <;> rw [hb] at hf <;> exact facOf_ne_zero _ (by decide) _ _ hf
    · obtain ⟨hd, hm⟩ := hp; cases r.b <;> simp [gM, *]

theorem cMaterial_spec (a : Ads α) (mat : Mat α) (hp : Mat.Pos mat) (v : α) (r1 r2 : MRep) (g1 g2 : α)
    (h1 : r1.grams unitTable mat = some g1) (h2 : r2.grams unitTable mat = some g2) :
    cMaterial (envOf a mat) v (some r1.b.name) (some r2.b.name) (some r1.u) (some r2.u) = .ok (v * g2 / g1) := by
  obtain ⟨hu1, f1, hf1, rfl, hn1, hg1⟩ := grams_inv hp h1
  obtain ⟨hu2, f2, hf2, rfl, hn2, hg2⟩ := grams_inv hp h2
  obtain ⟨c, sg, hl, hcs⟩ := leaf_mat a mat hp r1.b r2.b
  have hb1 : checkBasis materialMode (some r1.b.name) = .ok (r1.b.name, some r1.b.table) := by cases r1.b <;> rfl
  have hb2 : checkBasis materialMode (some r2.b.name) = .ok (r2.b.name, some r2.b.table) := by cases r2.b <;> rfl
  by_cases hb : r1.b = r2.b
  · have hbn : r1.b.name = r2.b.name := by rw [hb]
    rw [hb] at hf1 hg1
    by_cases hu : r1.u = r2.u
    · rw [hu] at hf1; rw [hf1] at hf2; cases hf2
      simp [cMaterial, hb1, hb2, hbn, hb, hu, truthy, bind, Except.bind, pure, Except.pure]
      field_simp
    · have := cUnit_ok (unitTable r2.b.table) v r1.u r2.u f1 f2 (-1) hu1 hu2 hf1 hf2
      simp [cMaterial, hb1, hb2, hbn, hb, hu, hu2, truthy, bind, Except.bind, pure, Except.pure, this]
      field_simp
  · have hne : r1.b.name ≠ r2.b.name := by
      intro h; apply hb; revert h; cases r1.b <;> cases r2.b <;> simp [MB.name]
    simp [cMaterial, hb1, hb2, hne, checkUnit, hu1, hu2, hf1, hf2, hl, hcs, bind, Except.bind, pure, Except.pure]
    field_simp

/-- a Celsius spelling: non-empty and contains the letter c/C; `K` is Kelvin -/
def TRep.Valid : TRep → Prop
  | .K => True
  | .C s => s ≠ "" ∧ containsC s = true

theorem normTemp_label (t : TRep) (h : TRep.Valid t) :
    normTemp (some t.label) = some (match t with | .K => "K" | .C _ => "°C") := by
  cases t with
  | K => rfl
  | C s => simp [TRep.Valid] at h; simp [normTemp, TRep.label, h.1, h.2]

theorem cTemperature_spec (v : α) (a b : TRep) (ha : TRep.Valid a) (hb : TRep.Valid b) :
    cTemperature v (some a.label) (some b.label) = .ok (b.ofK (a.toK v)) := by
  unfold cTemperature
  rw [normTemp_label a ha, normTemp_label b hb]
  cases a <;> cases b <;>
    simp [checkTemp, tempOffset, temperatureUnits, List.lookup, TRep.ofK, TRep.toK, bind, Except.bind, pure, Except.pure]
  all_goals ring
end PgVerif.Units
