/-
C11 for the models with a closed-form spreading pressure in `Gen.R` (Henry, Langmuir, DSLangmuir, TSLangmuir,
BET, GAB, Quadratic, Freundlich, TemkinApprox): the reduced spreading pressure Π is the integral of n(p')/p'.
Statements are about the *generated* functions; proofs go through the tie lemmas to the published equations.
Per model:
  `_hasDeriv`      p Π'(p) = n(p) for 0 < p in the validity range (the guard 0 < p excludes the totalised `n/0`)
  `_zero`          Π(0) = 0                     (FALSE for TemkinApprox: finding S13, see that section)
  `_tendsto_zero`  Π(p) → 0 as p → 0⁺           (FALSE for TemkinApprox)
  `_eq_integral`   Π(b) − Π(a) = ∫ₐᵇ n(x)/x dx for 0 < a ≤ b in the range (integral form + additivity)
  `_strictMonoOn`  Π strictly increasing on the range, `p = 0` included (TemkinApprox: only for θ < 4, on p > 0)
Only the hypotheses actually needed are listed (all are implied by "parameters strictly inside the declared
bounds"); validity ranges: BET `N p < 1`, GAB `K p < 1`, Quadratic `Ka, Kb > 0`, Freundlich `m > 0`.
-/
import Mathlib.Analysis.SpecialFunctions.Integrals.Basic
import Mathlib.Analysis.SpecialFunctions.Log.Deriv
import Mathlib.Analysis.SpecialFunctions.Pow.Deriv
import Mathlib.Tactic
import PgVerif.Tie.Models

namespace PgVerif.C11
open PgVerif.Gen.R PgVerif.Spec.M Filter Topology

/-! ### generic helpers -/

/-- derivative ⇒ integral identity (integrand continuous on the segment) -/
lemma sub_eq_integral_of_hasDerivAt {F f : ℝ → ℝ} {a b : ℝ} (hab : a ≤ b)
    (hd : ∀ x ∈ Set.Icc a b, HasDerivAt F (f x) x) (hc : ContinuousOn f (Set.Icc a b)) :
    F b - F a = ∫ x in a..b, f x := by
  have hint : IntervalIntegrable f MeasureTheory.volume a b := by
    apply ContinuousOn.intervalIntegrable
    rwa [Set.uIcc_of_le hab]
  rw [intervalIntegral.integral_eq_sub_of_hasDerivAt _ hint]
  intro x hx
  rw [Set.uIcc_of_le hab] at hx
  exact hd x hx

/-- positive derivative on a segment ⇒ strictly larger value at the right end -/
lemma lt_of_hasDerivAt_pos {F f : ℝ → ℝ} {a b : ℝ} (hab : a < b)
    (hd : ∀ x ∈ Set.Icc a b, HasDerivAt F (f x) x) (hpos : ∀ x ∈ Set.Icc a b, 0 < f x) :
    F a < F b := by
  have hmono : StrictMonoOn F (Set.Icc a b) := by
    apply strictMonoOn_of_deriv_pos (convex_Icc a b)
    · exact fun x hx => (hd x hx).continuousAt.continuousWithinAt
    · intro x hx
      rw [interior_Icc] at hx
      have hx' := Set.Ioo_subset_Icc_self hx
      rw [(hd x hx').deriv]
      exact hpos x hx'
  exact hmono (Set.left_mem_Icc.mpr hab.le) (Set.right_mem_Icc.mpr hab.le) hab

/-- continuity at 0 and value 0 there ⇒ limit 0 from the right -/
lemma tendsto_zero_of_continuousAt {F : ℝ → ℝ} (hc : ContinuousAt F 0) (h0 : F 0 = 0) :
    Tendsto F (𝓝[>] 0) (𝓝 0) := by
  have := hc.tendsto.mono_left (nhdsWithin_le_nhds (s := Set.Ioi (0 : ℝ)))
  rwa [h0] at this

/-! ### Spec-level facts (private): derivative, continuity of the integrand, value and continuity at 0 -/

private lemma henrySpread_hasDeriv (K p : ℝ) (hp : 0 < p) :
    HasDerivAt (henrySpread K) (henry K p / p) p := by
  unfold henrySpread henry
  have h1 : HasDerivAt (fun x => K * x) K p := by
    simpa using (hasDerivAt_id p).const_mul K
  refine h1.congr_deriv ?_
  field_simp

private lemma henry_div_cont (K a b : ℝ) (ha : 0 < a) :
    ContinuousOn (fun x => henry K x / x) (Set.Icc a b) := by
  unfold henry
  intro x hx
  have hx1 : x ≠ 0 := (lt_of_lt_of_le ha hx.1).ne'
  apply ContinuousAt.continuousWithinAt
  fun_prop (disch := assumption)

private lemma langmuirSpread_hasDeriv (K nm p : ℝ) (hK : 0 < K) (hp : 0 < p) :
    HasDerivAt (langmuirSpread K nm) (langmuir K nm p / p) p := by
  unfold langmuirSpread langmuir
  have h : 0 < 1 + K * p := by positivity
  have h1 : HasDerivAt (fun x => 1 + K * x) K p := by
    simpa using ((hasDerivAt_id p).const_mul K).const_add 1
  refine ((h1.log h.ne').const_mul nm).congr_deriv ?_
  field_simp

private lemma langmuir_div_cont (K nm a b : ℝ) (hK : 0 < K) (ha : 0 < a) :
    ContinuousOn (fun x => langmuir K nm x / x) (Set.Icc a b) := by
  unfold langmuir
  intro x hx
  have hx0 : 0 < x := lt_of_lt_of_le ha hx.1
  have h : 1 + K * x ≠ 0 := by positivity
  have hx1 : x ≠ 0 := hx0.ne'
  apply ContinuousAt.continuousWithinAt
  fun_prop (disch := assumption)

private lemma langmuirSpread_zero (K nm : ℝ) : langmuirSpread K nm 0 = 0 := by
  simp [langmuirSpread]

private lemma langmuirSpread_contAt (K nm : ℝ) : ContinuousAt (langmuirSpread K nm) 0 := by
  unfold langmuirSpread
  have h : 1 + K * (0 : ℝ) ≠ 0 := by simp
  fun_prop (disch := assumption)

private lemma langmuirSpread_lt (K nm a b : ℝ) (hK : 0 < K) (hnm : 0 < nm) (ha : 0 ≤ a) (hab : a < b) :
    langmuirSpread K nm a < langmuirSpread K nm b := by
  unfold langmuirSpread
  have h1 : 0 < 1 + K * a := by positivity
  have h2 : 1 + K * a < 1 + K * b := by nlinarith
  exact mul_lt_mul_of_pos_left (Real.log_lt_log h1 h2) hnm

private lemma dslangmuirSpread_hasDeriv (nm1 K1 nm2 K2 p : ℝ) (hK1 : 0 < K1) (hK2 : 0 < K2) (hp : 0 < p) :
    HasDerivAt (fun x => dslangmuirSpread nm1 K1 nm2 K2 x) (dslangmuir nm1 K1 nm2 K2 p / p) p := by
  unfold dslangmuirSpread dslangmuir
  refine ((langmuirSpread_hasDeriv K1 nm1 p hK1 hp).add (langmuirSpread_hasDeriv K2 nm2 p hK2 hp)).congr_deriv ?_
  ring

private lemma dslangmuir_div_cont (nm1 K1 nm2 K2 a b : ℝ) (hK1 : 0 < K1) (hK2 : 0 < K2) (ha : 0 < a) :
    ContinuousOn (fun x => dslangmuir nm1 K1 nm2 K2 x / x) (Set.Icc a b) := by
  unfold dslangmuir langmuir
  intro x hx
  have hx0 : 0 < x := lt_of_lt_of_le ha hx.1
  have h1 : 1 + K1 * x ≠ 0 := by positivity
  have h2 : 1 + K2 * x ≠ 0 := by positivity
  have hx1 : x ≠ 0 := hx0.ne'
  apply ContinuousAt.continuousWithinAt
  fun_prop (disch := assumption)

private lemma tslangmuirSpread_hasDeriv (nm1 nm2 nm3 K1 K2 K3 p : ℝ) (hK1 : 0 < K1) (hK2 : 0 < K2) (hK3 : 0 < K3)
    (hp : 0 < p) :
    HasDerivAt (fun x => tslangmuirSpread nm1 nm2 nm3 K1 K2 K3 x) (tslangmuir nm1 nm2 nm3 K1 K2 K3 p / p) p := by
  unfold tslangmuirSpread tslangmuir
  refine (((langmuirSpread_hasDeriv K1 nm1 p hK1 hp).add (langmuirSpread_hasDeriv K2 nm2 p hK2 hp)).add
    (langmuirSpread_hasDeriv K3 nm3 p hK3 hp)).congr_deriv ?_
  ring

private lemma tslangmuir_div_cont (nm1 nm2 nm3 K1 K2 K3 a b : ℝ) (hK1 : 0 < K1) (hK2 : 0 < K2) (hK3 : 0 < K3)
    (ha : 0 < a) :
    ContinuousOn (fun x => tslangmuir nm1 nm2 nm3 K1 K2 K3 x / x) (Set.Icc a b) := by
  unfold tslangmuir langmuir
  intro x hx
  have hx0 : 0 < x := lt_of_lt_of_le ha hx.1
  have h1 : 1 + K1 * x ≠ 0 := by positivity
  have h2 : 1 + K2 * x ≠ 0 := by positivity
  have h3 : 1 + K3 * x ≠ 0 := by positivity
  have hx1 : x ≠ 0 := hx0.ne'
  apply ContinuousAt.continuousWithinAt
  fun_prop (disch := assumption)

/-- below the pole at `b`, hence below the pole on `(0, b]` (no sign condition on `N`) -/
private lemma pole_mono (N x b : ℝ) (hx0 : 0 < x) (hxb : x ≤ b) (hb : N * b < 1) : N * x < 1 := by
  rcases le_or_gt 0 N with h | h
  · nlinarith [mul_le_mul_of_nonneg_left hxb h]
  · nlinarith [mul_pos (neg_pos.2 h) hx0]

private lemma betSpread_hasDeriv (nm C N p : ℝ) (hC : 0 < C) (hp : 0 < p) (hpole : N * p < 1) :
    HasDerivAt (fun x => betSpread nm C N x) (bet nm C N p / p) p := by
  unfold betSpread bet
  have hd : 0 < 1 - N * p := by linarith
  have hn : 0 < 1 - N * p + C * p := by positivity
  have h2 : HasDerivAt (fun x => 1 - N * x) (-N) p := by
    simpa using ((hasDerivAt_id p).const_mul N).const_sub 1
  have h1 : HasDerivAt (fun x => 1 - N * x + C * x) (-N + C) p := by
    have := h2.add ((hasDerivAt_id p).const_mul C)
    simp only [id, mul_one] at this
    exact this
  refine (((h1.fun_div h2 hd.ne').log (div_pos hn hd).ne').const_mul nm).congr_deriv ?_
  field_simp
  ring

private lemma bet_div_cont (nm C N a b : ℝ) (hC : 0 < C) (ha : 0 < a) (hb : N * b < 1) :
    ContinuousOn (fun x => bet nm C N x / x) (Set.Icc a b) := by
  unfold bet
  intro x hx
  have hx0 : 0 < x := lt_of_lt_of_le ha hx.1
  have hpole := pole_mono N x b hx0 hx.2 hb
  have hd : 0 < 1 - N * x := by linarith
  have hn : 0 < 1 - N * x + C * x := by positivity
  have h : (1 - N * x) * (1 - N * x + C * x) ≠ 0 := by positivity
  have hx1 : x ≠ 0 := hx0.ne'
  apply ContinuousAt.continuousWithinAt
  fun_prop (disch := assumption)

private lemma betSpread_zero (nm C N : ℝ) : betSpread nm C N 0 = 0 := by
  simp [betSpread]

private lemma betSpread_contAt (nm C N : ℝ) : ContinuousAt (fun x => betSpread nm C N x) 0 := by
  unfold betSpread
  have h1 : 1 - N * (0 : ℝ) ≠ 0 := by simp
  have h2 : (1 - N * (0 : ℝ) + C * 0) / (1 - N * 0) ≠ 0 := by simp
  fun_prop (disch := assumption)

private lemma betSpread_lt (nm C N a b : ℝ) (hnm : 0 < nm) (hC : 0 < C) (ha : 0 ≤ a) (hab : a < b)
    (hpa : N * a < 1) (hpb : N * b < 1) : betSpread nm C N a < betSpread nm C N b := by
  unfold betSpread
  have a1 : 0 < 1 - N * a := by linarith
  have b1 : 0 < 1 - N * b := by linarith
  have a2 : 0 < 1 - N * a + C * a := by positivity
  have hlt : (1 - N * a + C * a) / (1 - N * a) < (1 - N * b + C * b) / (1 - N * b) := by
    rw [div_lt_div_iff₀ a1 b1]
    nlinarith [mul_pos hC (sub_pos.2 hab)]
  exact mul_lt_mul_of_pos_left (Real.log_lt_log (div_pos a2 a1) hlt) hnm

private lemma gabSpread_hasDeriv (nm C K p : ℝ) (hC : 0 < C) (hK : 0 < K) (hp : 0 < p) (hpole : K * p < 1) :
    HasDerivAt (fun x => gabSpread nm C K x) (gab nm C K p / p) p := by
  unfold gabSpread gab
  have hd : 0 < 1 - K * p := by linarith
  have hn : 0 < 1 - K * p + C * (K * p) := by positivity
  have h2 : HasDerivAt (fun x => 1 - K * x) (-K) p := by
    simpa using ((hasDerivAt_id p).const_mul K).const_sub 1
  have h1 : HasDerivAt (fun x => 1 - K * x + C * (K * x)) (-K + C * K) p := by
    have := h2.add (((hasDerivAt_id p).const_mul K).const_mul C)
    simp only [id, mul_one] at this
    exact this
  refine (((h1.fun_div h2 hd.ne').log (div_pos hn hd).ne').const_mul nm).congr_deriv ?_
  field_simp
  ring

private lemma gab_div_cont (nm C K a b : ℝ) (hC : 0 < C) (hK : 0 < K) (ha : 0 < a) (hb : K * b < 1) :
    ContinuousOn (fun x => gab nm C K x / x) (Set.Icc a b) := by
  unfold gab
  intro x hx
  have hx0 : 0 < x := lt_of_lt_of_le ha hx.1
  have hpole := pole_mono K x b hx0 hx.2 hb
  have hd : 0 < 1 - K * x := by linarith
  have hn : 0 < 1 - K * x + C * (K * x) := by positivity
  have h : (1 - K * x) * (1 - K * x + C * (K * x)) ≠ 0 := by positivity
  have hx1 : x ≠ 0 := hx0.ne'
  apply ContinuousAt.continuousWithinAt
  fun_prop (disch := assumption)

private lemma gabSpread_zero (nm C K : ℝ) : gabSpread nm C K 0 = 0 := by
  simp [gabSpread]

private lemma gabSpread_contAt (nm C K : ℝ) : ContinuousAt (fun x => gabSpread nm C K x) 0 := by
  unfold gabSpread
  have h1 : 1 - K * (0 : ℝ) ≠ 0 := by simp
  have h2 : (1 - K * (0 : ℝ) + C * (K * 0)) / (1 - K * 0) ≠ 0 := by simp
  fun_prop (disch := assumption)

private lemma gabSpread_lt (nm C K a b : ℝ) (hnm : 0 < nm) (hC : 0 < C) (hK : 0 < K) (ha : 0 ≤ a) (hab : a < b)
    (hpa : K * a < 1) (hpb : K * b < 1) : gabSpread nm C K a < gabSpread nm C K b := by
  unfold gabSpread
  have a1 : 0 < 1 - K * a := by linarith
  have b1 : 0 < 1 - K * b := by linarith
  have a2 : 0 < 1 - K * a + C * (K * a) := by positivity
  have hlt : (1 - K * a + C * (K * a)) / (1 - K * a) < (1 - K * b + C * (K * b)) / (1 - K * b) := by
    rw [div_lt_div_iff₀ a1 b1]
    nlinarith [mul_pos (mul_pos hC hK) (sub_pos.2 hab)]
  exact mul_lt_mul_of_pos_left (Real.log_lt_log (div_pos a2 a1) hlt) hnm

private lemma quadraticSpread_hasDeriv (nm Ka Kb p : ℝ) (hKa : 0 < Ka) (hKb : 0 < Kb) (hp : 0 < p) :
    HasDerivAt (fun x => quadraticSpread nm Ka Kb x) (quadratic nm Ka Kb p / p) p := by
  unfold quadraticSpread quadratic
  have h : 0 < 1 + Ka * p + Kb * p ^ 2 := by positivity
  have h1 : HasDerivAt (fun x => 1 + Ka * x + Kb * x ^ 2) (Ka + 2 * Kb * p) p := by
    have := (((hasDerivAt_id p).const_mul Ka).const_add 1).add ((hasDerivAt_pow 2 p).const_mul Kb)
    simp only [id, mul_one] at this
    refine this.congr_deriv ?_
    simp; ring
  refine ((h1.log h.ne').const_mul nm).congr_deriv ?_
  field_simp

private lemma quadratic_div_cont (nm Ka Kb a b : ℝ) (hKa : 0 < Ka) (hKb : 0 < Kb) (ha : 0 < a) :
    ContinuousOn (fun x => quadratic nm Ka Kb x / x) (Set.Icc a b) := by
  unfold quadratic
  intro x hx
  have hx0 : 0 < x := lt_of_lt_of_le ha hx.1
  have h : 1 + Ka * x + Kb * x ^ 2 ≠ 0 := by positivity
  have hx1 : x ≠ 0 := hx0.ne'
  apply ContinuousAt.continuousWithinAt
  fun_prop (disch := assumption)

private lemma quadraticSpread_zero (nm Ka Kb : ℝ) : quadraticSpread nm Ka Kb 0 = 0 := by
  simp [quadraticSpread]

private lemma quadraticSpread_contAt (nm Ka Kb : ℝ) : ContinuousAt (fun x => quadraticSpread nm Ka Kb x) 0 := by
  unfold quadraticSpread
  have h1 : 1 + Ka * (0 : ℝ) + Kb * 0 ^ 2 ≠ 0 := by simp
  fun_prop (disch := assumption)

private lemma quadraticSpread_lt (nm Ka Kb a b : ℝ) (hnm : 0 < nm) (hKa : 0 < Ka) (hKb : 0 < Kb) (ha : 0 ≤ a)
    (hab : a < b) : quadraticSpread nm Ka Kb a < quadraticSpread nm Ka Kb b := by
  unfold quadraticSpread
  have h1 : 0 < 1 + Ka * a + Kb * a ^ 2 := by positivity
  have hba : 0 < b - a := sub_pos.2 hab
  have hb : 0 ≤ b := le_trans ha hab.le
  have h2 : 0 ≤ Kb * (b - a) * (b + a) := by positivity
  have h3 : 0 < Ka * (b - a) := by positivity
  have hlt : 1 + Ka * a + Kb * a ^ 2 < 1 + Ka * b + Kb * b ^ 2 := by nlinarith
  exact mul_lt_mul_of_pos_left (Real.log_lt_log h1 hlt) hnm

private lemma freundlichSpread_hasDeriv (K m p : ℝ) (hm : 0 < m) (hp : 0 < p) :
    HasDerivAt (fun x => freundlichSpread K m x) (freundlich K m p / p) p := by
  unfold freundlichSpread freundlich
  have h := (Real.hasDerivAt_rpow_const (x := p) (p := 1 / m) (Or.inl hp.ne')).const_mul (m * K)
  refine h.congr_deriv ?_
  rw [Real.rpow_sub_one hp.ne']; field_simp

private lemma freundlich_div_cont (K m a b : ℝ) (ha : 0 < a) :
    ContinuousOn (fun x => freundlich K m x / x) (Set.Icc a b) := by
  unfold freundlich
  intro x hx
  have hx1 : x ≠ 0 := (lt_of_lt_of_le ha hx.1).ne'
  have hx2 : x ≠ 0 ∨ 0 ≤ 1 / m := Or.inl hx1
  apply ContinuousAt.continuousWithinAt
  fun_prop (disch := assumption)

private lemma freundlichSpread_zero (K m : ℝ) (hm : 0 < m) : freundlichSpread K m 0 = 0 := by
  unfold freundlichSpread
  rw [Real.zero_rpow (one_div_ne_zero hm.ne'), mul_zero]

private lemma freundlichSpread_contAt (K m : ℝ) (hm : 0 < m) : ContinuousAt (fun x => freundlichSpread K m x) 0 := by
  unfold freundlichSpread
  have h : (0 : ℝ) ≠ 0 ∨ 0 ≤ 1 / m := Or.inr (by positivity)
  exact continuousAt_const.mul (Real.continuousAt_rpow_const 0 (1 / m) h)

private lemma freundlichSpread_lt (K m a b : ℝ) (hK : 0 < K) (hm : 0 < m) (ha : 0 ≤ a) (hab : a < b) :
    freundlichSpread K m a < freundlichSpread K m b := by
  unfold freundlichSpread
  have hpos : 0 < m * K := by positivity
  exact mul_lt_mul_of_pos_left (Real.rpow_lt_rpow ha hab (by positivity)) hpos

private lemma temkinSpreadLib_hasDeriv (nm K tht p : ℝ) (hK : 0 < K) (hp : 0 < p) :
    HasDerivAt (fun x => temkinSpreadLib nm K tht x) (temkin nm K tht p / p) p := by
  unfold temkinSpreadLib temkin
  have h : 0 < 1 + K * p := by positivity
  have h1 : HasDerivAt (fun x => 1 + K * x) K p := by
    simpa using ((hasDerivAt_id p).const_mul K).const_add 1
  have hnum : HasDerivAt (fun x => tht * (2 * (K * x) + 1)) (tht * (2 * K)) p := by
    simpa using ((((hasDerivAt_id p).const_mul K).const_mul 2).add_const 1).const_mul tht
  have hden : HasDerivAt (fun x => 2 * (1 + K * x) ^ 2) (2 * (2 * (1 + K * p) * K)) p := by
    have := (h1.fun_pow 2).const_mul 2
    refine this.congr_deriv ?_
    simp
  have hden0 : 2 * (1 + K * p) ^ 2 ≠ 0 := by positivity
  refine (((h1.log h.ne').add (hnum.fun_div hden hden0)).const_mul nm).congr_deriv ?_
  field_simp
  ring

private lemma temkin_div_cont (nm K tht a b : ℝ) (hK : 0 < K) (ha : 0 < a) :
    ContinuousOn (fun x => temkin nm K tht x / x) (Set.Icc a b) := by
  unfold temkin
  intro x hx
  have hx0 : 0 < x := lt_of_lt_of_le ha hx.1
  have h : 1 + K * x ≠ 0 := by positivity
  have hx1 : x ≠ 0 := hx0.ne'
  apply ContinuousAt.continuousWithinAt
  fun_prop (disch := assumption)

private lemma temkinSpreadLib_zero (nm K tht : ℝ) : temkinSpreadLib nm K tht 0 = nm * tht / 2 := by
  simp [temkinSpreadLib]; ring

private lemma temkinSpreadLib_contAt (nm K tht : ℝ) : ContinuousAt (fun x => temkinSpreadLib nm K tht x) 0 := by
  unfold temkinSpreadLib
  have h1 : 1 + K * (0 : ℝ) ≠ 0 := by simp
  have h2 : 2 * (1 + K * (0 : ℝ)) ^ 2 ≠ 0 := by simp
  fun_prop (disch := assumption)

/-- `n(p)/p = n_m K ((1 - Kp)² + (4 - θ) Kp) / (1 + Kp)³`: positive for every `p > 0` when `θ < 4` -/
private lemma temkin_div_pos (nm K tht p : ℝ) (hnm : 0 < nm) (hK : 0 < K) (htht : tht < 4) (hp : 0 < p) :
    0 < temkin nm K tht p / p := by
  have h : 0 < 1 + K * p := by positivity
  have e : temkin nm K tht p / p = nm * K * ((1 - K * p) ^ 2 + (4 - tht) * (K * p)) / (1 + K * p) ^ 3 := by
    unfold temkin; field_simp; ring
  rw [e]
  have h4 : 0 < 4 - tht := by linarith
  have : 0 < (1 - K * p) ^ 2 + (4 - tht) * (K * p) := by
    have : 0 < (4 - tht) * (K * p) := by positivity
    nlinarith [sq_nonneg (1 - K * p)]
  positivity

/-! ### Henry -/

theorem henry_spread_hasDeriv (K p : ℝ) (hp : 0 < p) :
    HasDerivAt (fun x => Henry_spreading_pressure K x) (Henry_loading K p / p) p := by
  simp only [PgVerif.Tie.henry_spread, PgVerif.Tie.henry_loading]
  exact henrySpread_hasDeriv K p hp

theorem henry_spread_zero (K : ℝ) : Henry_spreading_pressure K 0 = 0 := by
  rw [PgVerif.Tie.henry_spread]; simp [henrySpread]

theorem henry_spread_tendsto_zero (K : ℝ) :
    Tendsto (fun p => Henry_spreading_pressure K p) (𝓝[>] 0) (𝓝 0) := by
  simp only [PgVerif.Tie.henry_spread]
  apply tendsto_zero_of_continuousAt (F := fun p => henrySpread K p)
  · unfold henrySpread; fun_prop
  · simp [henrySpread]

theorem henry_spread_eq_integral (K a b : ℝ) (ha : 0 < a) (hab : a ≤ b) :
    Henry_spreading_pressure K b - Henry_spreading_pressure K a = ∫ x in a..b, Henry_loading K x / x := by
  simp only [PgVerif.Tie.henry_spread, PgVerif.Tie.henry_loading]
  exact sub_eq_integral_of_hasDerivAt (F := henrySpread K) (f := fun x => henry K x / x) hab
    (fun x hx => henrySpread_hasDeriv K x (lt_of_lt_of_le ha hx.1)) (henry_div_cont K a b ha)

theorem henry_spread_strictMonoOn (K : ℝ) (hK : 0 < K) :
    StrictMonoOn (Henry_spreading_pressure K) (Set.Ici 0) := by
  intro a _ b _ hab
  rw [PgVerif.Tie.henry_spread, PgVerif.Tie.henry_spread]; unfold henrySpread
  nlinarith

/-! ### Langmuir -/

theorem langmuir_spread_hasDeriv (K nm p : ℝ) (hK : 0 < K) (hp : 0 < p) :
    HasDerivAt (fun x => Langmuir_spreading_pressure K nm x) (Langmuir_loading K nm p / p) p := by
  simp only [PgVerif.Tie.langmuir_spread, PgVerif.Tie.langmuir_loading]
  exact langmuirSpread_hasDeriv K nm p hK hp

theorem langmuir_spread_zero (K nm : ℝ) : Langmuir_spreading_pressure K nm 0 = 0 := by
  rw [PgVerif.Tie.langmuir_spread]; exact langmuirSpread_zero K nm

theorem langmuir_spread_tendsto_zero (K nm : ℝ) :
    Tendsto (fun p => Langmuir_spreading_pressure K nm p) (𝓝[>] 0) (𝓝 0) := by
  simp only [PgVerif.Tie.langmuir_spread]
  exact tendsto_zero_of_continuousAt (langmuirSpread_contAt K nm) (langmuirSpread_zero K nm)

theorem langmuir_spread_eq_integral (K nm a b : ℝ) (hK : 0 < K) (ha : 0 < a) (hab : a ≤ b) :
    Langmuir_spreading_pressure K nm b - Langmuir_spreading_pressure K nm a
      = ∫ x in a..b, Langmuir_loading K nm x / x := by
  simp only [PgVerif.Tie.langmuir_spread, PgVerif.Tie.langmuir_loading]
  exact sub_eq_integral_of_hasDerivAt (F := langmuirSpread K nm) (f := fun x => langmuir K nm x / x) hab
    (fun x hx => langmuirSpread_hasDeriv K nm x hK (lt_of_lt_of_le ha hx.1)) (langmuir_div_cont K nm a b hK ha)

theorem langmuir_spread_strictMonoOn (K nm : ℝ) (hK : 0 < K) (hnm : 0 < nm) :
    StrictMonoOn (Langmuir_spreading_pressure K nm) (Set.Ici 0) := by
  intro a ha b _ hab
  rw [PgVerif.Tie.langmuir_spread, PgVerif.Tie.langmuir_spread]
  exact langmuirSpread_lt K nm a b hK hnm ha hab

/-! ### DSLangmuir -/

theorem dslangmuir_spread_hasDeriv (nm1 K1 nm2 K2 p : ℝ) (hK1 : 0 < K1) (hK2 : 0 < K2) (hp : 0 < p) :
    HasDerivAt (fun x => DSLangmuir_spreading_pressure nm1 K1 nm2 K2 x) (DSLangmuir_loading nm1 K1 nm2 K2 p / p) p := by
  simp only [PgVerif.Tie.dslangmuir_spread, PgVerif.Tie.dslangmuir_loading]
  exact dslangmuirSpread_hasDeriv nm1 K1 nm2 K2 p hK1 hK2 hp

theorem dslangmuir_spread_zero (nm1 K1 nm2 K2 : ℝ) : DSLangmuir_spreading_pressure nm1 K1 nm2 K2 0 = 0 := by
  rw [PgVerif.Tie.dslangmuir_spread]; unfold dslangmuirSpread
  rw [langmuirSpread_zero, langmuirSpread_zero, add_zero]

theorem dslangmuir_spread_tendsto_zero (nm1 K1 nm2 K2 : ℝ) :
    Tendsto (fun p => DSLangmuir_spreading_pressure nm1 K1 nm2 K2 p) (𝓝[>] 0) (𝓝 0) := by
  simp only [PgVerif.Tie.dslangmuir_spread]
  unfold dslangmuirSpread
  have := (tendsto_zero_of_continuousAt (langmuirSpread_contAt K1 nm1) (langmuirSpread_zero K1 nm1)).add
    (tendsto_zero_of_continuousAt (langmuirSpread_contAt K2 nm2) (langmuirSpread_zero K2 nm2))
  simpa using this

theorem dslangmuir_spread_eq_integral (nm1 K1 nm2 K2 a b : ℝ) (hK1 : 0 < K1) (hK2 : 0 < K2) (ha : 0 < a)
    (hab : a ≤ b) :
    DSLangmuir_spreading_pressure nm1 K1 nm2 K2 b - DSLangmuir_spreading_pressure nm1 K1 nm2 K2 a
      = ∫ x in a..b, DSLangmuir_loading nm1 K1 nm2 K2 x / x := by
  simp only [PgVerif.Tie.dslangmuir_spread, PgVerif.Tie.dslangmuir_loading]
  exact sub_eq_integral_of_hasDerivAt (F := fun x => dslangmuirSpread nm1 K1 nm2 K2 x)
    (f := fun x => dslangmuir nm1 K1 nm2 K2 x / x) hab
    (fun x hx => dslangmuirSpread_hasDeriv nm1 K1 nm2 K2 x hK1 hK2 (lt_of_lt_of_le ha hx.1))
    (dslangmuir_div_cont nm1 K1 nm2 K2 a b hK1 hK2 ha)

theorem dslangmuir_spread_strictMonoOn (nm1 K1 nm2 K2 : ℝ) (hnm1 : 0 < nm1) (hK1 : 0 < K1) (hnm2 : 0 < nm2)
    (hK2 : 0 < K2) :
    StrictMonoOn (DSLangmuir_spreading_pressure nm1 K1 nm2 K2) (Set.Ici 0) := by
  intro a ha b _ hab
  rw [PgVerif.Tie.dslangmuir_spread, PgVerif.Tie.dslangmuir_spread]; unfold dslangmuirSpread
  exact add_lt_add (langmuirSpread_lt K1 nm1 a b hK1 hnm1 ha hab) (langmuirSpread_lt K2 nm2 a b hK2 hnm2 ha hab)

/-! ### TSLangmuir -/

theorem tslangmuir_spread_hasDeriv (nm1 nm2 nm3 K1 K2 K3 p : ℝ) (hK1 : 0 < K1) (hK2 : 0 < K2) (hK3 : 0 < K3)
    (hp : 0 < p) :
    HasDerivAt (fun x => TSLangmuir_spreading_pressure nm1 nm2 nm3 K1 K2 K3 x)
      (TSLangmuir_loading nm1 nm2 nm3 K1 K2 K3 p / p) p := by
  simp only [PgVerif.Tie.tslangmuir_spread, PgVerif.Tie.tslangmuir_loading]
  exact tslangmuirSpread_hasDeriv nm1 nm2 nm3 K1 K2 K3 p hK1 hK2 hK3 hp

theorem tslangmuir_spread_zero (nm1 nm2 nm3 K1 K2 K3 : ℝ) :
    TSLangmuir_spreading_pressure nm1 nm2 nm3 K1 K2 K3 0 = 0 := by
  rw [PgVerif.Tie.tslangmuir_spread]; unfold tslangmuirSpread
  rw [langmuirSpread_zero, langmuirSpread_zero, langmuirSpread_zero, add_zero, add_zero]

theorem tslangmuir_spread_tendsto_zero (nm1 nm2 nm3 K1 K2 K3 : ℝ) :
    Tendsto (fun p => TSLangmuir_spreading_pressure nm1 nm2 nm3 K1 K2 K3 p) (𝓝[>] 0) (𝓝 0) := by
  simp only [PgVerif.Tie.tslangmuir_spread]
  unfold tslangmuirSpread
  have := ((tendsto_zero_of_continuousAt (langmuirSpread_contAt K1 nm1) (langmuirSpread_zero K1 nm1)).add
    (tendsto_zero_of_continuousAt (langmuirSpread_contAt K2 nm2) (langmuirSpread_zero K2 nm2))).add
    (tendsto_zero_of_continuousAt (langmuirSpread_contAt K3 nm3) (langmuirSpread_zero K3 nm3))
  simpa using this

theorem tslangmuir_spread_eq_integral (nm1 nm2 nm3 K1 K2 K3 a b : ℝ) (hK1 : 0 < K1) (hK2 : 0 < K2) (hK3 : 0 < K3)
    (ha : 0 < a) (hab : a ≤ b) :
    TSLangmuir_spreading_pressure nm1 nm2 nm3 K1 K2 K3 b - TSLangmuir_spreading_pressure nm1 nm2 nm3 K1 K2 K3 a
      = ∫ x in a..b, TSLangmuir_loading nm1 nm2 nm3 K1 K2 K3 x / x := by
  simp only [PgVerif.Tie.tslangmuir_spread, PgVerif.Tie.tslangmuir_loading]
  exact sub_eq_integral_of_hasDerivAt (F := fun x => tslangmuirSpread nm1 nm2 nm3 K1 K2 K3 x)
    (f := fun x => tslangmuir nm1 nm2 nm3 K1 K2 K3 x / x) hab
    (fun x hx => tslangmuirSpread_hasDeriv nm1 nm2 nm3 K1 K2 K3 x hK1 hK2 hK3 (lt_of_lt_of_le ha hx.1))
    (tslangmuir_div_cont nm1 nm2 nm3 K1 K2 K3 a b hK1 hK2 hK3 ha)

theorem tslangmuir_spread_strictMonoOn (nm1 nm2 nm3 K1 K2 K3 : ℝ) (hnm1 : 0 < nm1) (hnm2 : 0 < nm2) (hnm3 : 0 < nm3)
    (hK1 : 0 < K1) (hK2 : 0 < K2) (hK3 : 0 < K3) :
    StrictMonoOn (TSLangmuir_spreading_pressure nm1 nm2 nm3 K1 K2 K3) (Set.Ici 0) := by
  intro a ha b _ hab
  rw [PgVerif.Tie.tslangmuir_spread, PgVerif.Tie.tslangmuir_spread]; unfold tslangmuirSpread
  exact add_lt_add (add_lt_add (langmuirSpread_lt K1 nm1 a b hK1 hnm1 ha hab)
    (langmuirSpread_lt K2 nm2 a b hK2 hnm2 ha hab)) (langmuirSpread_lt K3 nm3 a b hK3 hnm3 ha hab)

/-! ### BET (below the pole, `N p < 1`) -/

theorem bet_spread_hasDeriv (nm C N p : ℝ) (hC : 0 < C) (hp : 0 < p) (hpole : N * p < 1) :
    HasDerivAt (fun x => BET_spreading_pressure nm C N x) (BET_loading nm C N p / p) p := by
  simp only [PgVerif.Tie.bet_spread, PgVerif.Tie.bet_loading]
  exact betSpread_hasDeriv nm C N p hC hp hpole

theorem bet_spread_zero (nm C N : ℝ) : BET_spreading_pressure nm C N 0 = 0 := by
  rw [PgVerif.Tie.bet_spread]; exact betSpread_zero nm C N

theorem bet_spread_tendsto_zero (nm C N : ℝ) :
    Tendsto (fun p => BET_spreading_pressure nm C N p) (𝓝[>] 0) (𝓝 0) := by
  simp only [PgVerif.Tie.bet_spread]
  exact tendsto_zero_of_continuousAt (betSpread_contAt nm C N) (betSpread_zero nm C N)

theorem bet_spread_eq_integral (nm C N a b : ℝ) (hC : 0 < C) (ha : 0 < a) (hab : a ≤ b) (hpole : N * b < 1) :
    BET_spreading_pressure nm C N b - BET_spreading_pressure nm C N a = ∫ x in a..b, BET_loading nm C N x / x := by
  simp only [PgVerif.Tie.bet_spread, PgVerif.Tie.bet_loading]
  exact sub_eq_integral_of_hasDerivAt (F := fun x => betSpread nm C N x) (f := fun x => bet nm C N x / x) hab
    (fun x hx => betSpread_hasDeriv nm C N x hC (lt_of_lt_of_le ha hx.1)
      (pole_mono N x b (lt_of_lt_of_le ha hx.1) hx.2 hpole))
    (bet_div_cont nm C N a b hC ha hpole)

theorem bet_spread_strictMonoOn (nm C N : ℝ) (hnm : 0 < nm) (hC : 0 < C) :
    StrictMonoOn (BET_spreading_pressure nm C N) {p | 0 ≤ p ∧ N * p < 1} := by
  intro a ha b hb hab
  rw [PgVerif.Tie.bet_spread, PgVerif.Tie.bet_spread]
  exact betSpread_lt nm C N a b hnm hC ha.1 hab ha.2 hb.2

/-! ### GAB (below the pole, `K p < 1`) -/

theorem gab_spread_hasDeriv (nm C K p : ℝ) (hC : 0 < C) (hK : 0 < K) (hp : 0 < p) (hpole : K * p < 1) :
    HasDerivAt (fun x => GAB_spreading_pressure nm C K x) (GAB_loading nm C K p / p) p := by
  simp only [PgVerif.Tie.gab_spread, PgVerif.Tie.gab_loading]
  exact gabSpread_hasDeriv nm C K p hC hK hp hpole

theorem gab_spread_zero (nm C K : ℝ) : GAB_spreading_pressure nm C K 0 = 0 := by
  rw [PgVerif.Tie.gab_spread]; exact gabSpread_zero nm C K

theorem gab_spread_tendsto_zero (nm C K : ℝ) :
    Tendsto (fun p => GAB_spreading_pressure nm C K p) (𝓝[>] 0) (𝓝 0) := by
  simp only [PgVerif.Tie.gab_spread]
  exact tendsto_zero_of_continuousAt (gabSpread_contAt nm C K) (gabSpread_zero nm C K)

theorem gab_spread_eq_integral (nm C K a b : ℝ) (hC : 0 < C) (hK : 0 < K) (ha : 0 < a) (hab : a ≤ b)
    (hpole : K * b < 1) :
    GAB_spreading_pressure nm C K b - GAB_spreading_pressure nm C K a = ∫ x in a..b, GAB_loading nm C K x / x := by
  simp only [PgVerif.Tie.gab_spread, PgVerif.Tie.gab_loading]
  exact sub_eq_integral_of_hasDerivAt (F := fun x => gabSpread nm C K x) (f := fun x => gab nm C K x / x) hab
    (fun x hx => gabSpread_hasDeriv nm C K x hC hK (lt_of_lt_of_le ha hx.1)
      (pole_mono K x b (lt_of_lt_of_le ha hx.1) hx.2 hpole))
    (gab_div_cont nm C K a b hC hK ha hpole)

theorem gab_spread_strictMonoOn (nm C K : ℝ) (hnm : 0 < nm) (hC : 0 < C) (hK : 0 < K) :
    StrictMonoOn (GAB_spreading_pressure nm C K) {p | 0 ≤ p ∧ K * p < 1} := by
  intro a ha b hb hab
  rw [PgVerif.Tie.gab_spread, PgVerif.Tie.gab_spread]
  exact gabSpread_lt nm C K a b hnm hC hK ha.1 hab ha.2 hb.2

/-! ### Quadratic (`Ka, Kb > 0`) -/

theorem quadratic_spread_hasDeriv (nm Ka Kb p : ℝ) (hKa : 0 < Ka) (hKb : 0 < Kb) (hp : 0 < p) :
    HasDerivAt (fun x => Quadratic_spreading_pressure nm Ka Kb x) (Quadratic_loading nm Ka Kb p / p) p := by
  simp only [PgVerif.Tie.quadratic_spread, PgVerif.Tie.quadratic_loading]
  exact quadraticSpread_hasDeriv nm Ka Kb p hKa hKb hp

theorem quadratic_spread_zero (nm Ka Kb : ℝ) : Quadratic_spreading_pressure nm Ka Kb 0 = 0 := by
  rw [PgVerif.Tie.quadratic_spread]; exact quadraticSpread_zero nm Ka Kb

theorem quadratic_spread_tendsto_zero (nm Ka Kb : ℝ) :
    Tendsto (fun p => Quadratic_spreading_pressure nm Ka Kb p) (𝓝[>] 0) (𝓝 0) := by
  simp only [PgVerif.Tie.quadratic_spread]
  exact tendsto_zero_of_continuousAt (quadraticSpread_contAt nm Ka Kb) (quadraticSpread_zero nm Ka Kb)

theorem quadratic_spread_eq_integral (nm Ka Kb a b : ℝ) (hKa : 0 < Ka) (hKb : 0 < Kb) (ha : 0 < a) (hab : a ≤ b) :
    Quadratic_spreading_pressure nm Ka Kb b - Quadratic_spreading_pressure nm Ka Kb a
      = ∫ x in a..b, Quadratic_loading nm Ka Kb x / x := by
  simp only [PgVerif.Tie.quadratic_spread, PgVerif.Tie.quadratic_loading]
  exact sub_eq_integral_of_hasDerivAt (F := fun x => quadraticSpread nm Ka Kb x)
    (f := fun x => quadratic nm Ka Kb x / x) hab
    (fun x hx => quadraticSpread_hasDeriv nm Ka Kb x hKa hKb (lt_of_lt_of_le ha hx.1))
    (quadratic_div_cont nm Ka Kb a b hKa hKb ha)

theorem quadratic_spread_strictMonoOn (nm Ka Kb : ℝ) (hnm : 0 < nm) (hKa : 0 < Ka) (hKb : 0 < Kb) :
    StrictMonoOn (Quadratic_spreading_pressure nm Ka Kb) (Set.Ici 0) := by
  intro a ha b _ hab
  rw [PgVerif.Tie.quadratic_spread, PgVerif.Tie.quadratic_spread]
  exact quadraticSpread_lt nm Ka Kb a b hnm hKa hKb ha hab

/-! ### Freundlich (`m > 0`; at `m = 0` the exponent `1/m` is a division by zero) -/

theorem freundlich_spread_hasDeriv (K m p : ℝ) (hm : 0 < m) (hp : 0 < p) :
    HasDerivAt (fun x => Freundlich_spreading_pressure K m x) (Freundlich_loading K m p / p) p := by
  simp only [PgVerif.Tie.freundlich_spread, PgVerif.Tie.freundlich_loading]
  exact freundlichSpread_hasDeriv K m p hm hp

theorem freundlich_spread_zero (K m : ℝ) (hm : 0 < m) : Freundlich_spreading_pressure K m 0 = 0 := by
  rw [PgVerif.Tie.freundlich_spread]; exact freundlichSpread_zero K m hm

theorem freundlich_spread_tendsto_zero (K m : ℝ) (hm : 0 < m) :
    Tendsto (fun p => Freundlich_spreading_pressure K m p) (𝓝[>] 0) (𝓝 0) := by
  simp only [PgVerif.Tie.freundlich_spread]
  exact tendsto_zero_of_continuousAt (freundlichSpread_contAt K m hm) (freundlichSpread_zero K m hm)

theorem freundlich_spread_eq_integral (K m a b : ℝ) (hm : 0 < m) (ha : 0 < a) (hab : a ≤ b) :
    Freundlich_spreading_pressure K m b - Freundlich_spreading_pressure K m a
      = ∫ x in a..b, Freundlich_loading K m x / x := by
  simp only [PgVerif.Tie.freundlich_spread, PgVerif.Tie.freundlich_loading]
  exact sub_eq_integral_of_hasDerivAt (F := fun x => freundlichSpread K m x)
    (f := fun x => freundlich K m x / x) hab
    (fun x hx => freundlichSpread_hasDeriv K m x hm (lt_of_lt_of_le ha hx.1))
    (freundlich_div_cont K m a b ha)

theorem freundlich_spread_strictMonoOn (K m : ℝ) (hK : 0 < K) (hm : 0 < m) :
    StrictMonoOn (Freundlich_spreading_pressure K m) (Set.Ici 0) := by
  intro a ha b _ hab
  rw [PgVerif.Tie.freundlich_spread, PgVerif.Tie.freundlich_spread]
  exact freundlichSpread_lt K m a b hK hm ha hab

/-! ### TemkinApprox

Finding S13: the closed form of the library is an antiderivative of `n(p)/p` (so `p Π' = n` and differences
`Π b − Π a` are right) but it does not vanish at `p = 0`: it lacks the constant `− n_m θ / 2`.  Clauses (2) and (3)
are therefore FALSE for the code (`temkin_spread_zero_false`, `temkin_spread_tendsto_zero_false`) and true for
the function minus `n_m θ / 2` (= `Spec.M.temkinSpread`, `temkin_spread_corrected_eq_spec`). -/

theorem temkin_spread_hasDeriv (nm K tht p : ℝ) (hK : 0 < K) (hp : 0 < p) :
    HasDerivAt (fun x => TemkinApprox_spreading_pressure nm K tht x) (TemkinApprox_loading nm K tht p / p) p := by
  simp only [PgVerif.Tie.temkin_spread, PgVerif.Tie.temkin_loading]
  exact temkinSpreadLib_hasDeriv nm K tht p hK hp

/-- S13: value of the library's spreading pressure at zero pressure -/
theorem S13_witness (nm K tht : ℝ) : TemkinApprox_spreading_pressure nm K tht 0 = nm * tht / 2 := by
  rw [PgVerif.Tie.temkin_spread]; exact temkinSpreadLib_zero nm K tht

/-- clause (2) is false for the code -/
theorem temkin_spread_zero_false (nm K tht : ℝ) (hnm : nm ≠ 0) (htht : tht ≠ 0) :
    TemkinApprox_spreading_pressure nm K tht 0 ≠ 0 := by
  rw [S13_witness]
  exact div_ne_zero (mul_ne_zero hnm htht) two_ne_zero

/-- the limit at zero pressure of the library's closed form is `n_m θ / 2` -/
theorem temkin_spread_tendsto (nm K tht : ℝ) :
    Tendsto (fun p => TemkinApprox_spreading_pressure nm K tht p) (𝓝[>] 0) (𝓝 (nm * tht / 2)) := by
  simp only [PgVerif.Tie.temkin_spread]
  have := (temkinSpreadLib_contAt nm K tht).tendsto.mono_left (nhdsWithin_le_nhds (s := Set.Ioi (0 : ℝ)))
  rwa [temkinSpreadLib_zero] at this

/-- clause (3) is false for the code -/
theorem temkin_spread_tendsto_zero_false (nm K tht : ℝ) (hnm : nm ≠ 0) (htht : tht ≠ 0) :
    ¬ Tendsto (fun p => TemkinApprox_spreading_pressure nm K tht p) (𝓝[>] 0) (𝓝 0) := by
  intro h
  have := tendsto_nhds_unique h (temkin_spread_tendsto nm K tht)
  exact div_ne_zero (mul_ne_zero hnm htht) two_ne_zero this.symm

/-- the corrected function is the specification's `temkinSpread` -/
theorem temkin_spread_corrected_eq_spec (nm K tht p : ℝ) :
    TemkinApprox_spreading_pressure nm K tht p - nm * tht / 2 = temkinSpread nm K tht p := by
  rw [PgVerif.Tie.temkin_spread]; rfl

theorem temkin_spread_corrected_hasDeriv (nm K tht p : ℝ) (hK : 0 < K) (hp : 0 < p) :
    HasDerivAt (fun x => TemkinApprox_spreading_pressure nm K tht x - nm * tht / 2)
      (TemkinApprox_loading nm K tht p / p) p :=
  (temkin_spread_hasDeriv nm K tht p hK hp).sub_const _

theorem temkin_spread_corrected_zero (nm K tht : ℝ) :
    TemkinApprox_spreading_pressure nm K tht 0 - nm * tht / 2 = 0 := by
  rw [S13_witness, sub_self]

theorem temkin_spread_corrected_tendsto (nm K tht : ℝ) :
    Tendsto (fun p => TemkinApprox_spreading_pressure nm K tht p - nm * tht / 2) (𝓝[>] 0) (𝓝 0) := by
  have := (temkin_spread_tendsto nm K tht).sub_const (nm * tht / 2)
  rwa [sub_self] at this

/-- differences `Π b − Π a` of the library's closed form are right (the missing constant cancels) -/
theorem temkin_spread_eq_integral (nm K tht a b : ℝ) (hK : 0 < K) (ha : 0 < a) (hab : a ≤ b) :
    TemkinApprox_spreading_pressure nm K tht b - TemkinApprox_spreading_pressure nm K tht a
      = ∫ x in a..b, TemkinApprox_loading nm K tht x / x := by
  simp only [PgVerif.Tie.temkin_spread, PgVerif.Tie.temkin_loading]
  exact sub_eq_integral_of_hasDerivAt (F := fun x => temkinSpreadLib nm K tht x)
    (f := fun x => temkin nm K tht x / x) hab
    (fun x hx => temkinSpreadLib_hasDeriv nm K tht x hK (lt_of_lt_of_le ha hx.1))
    (temkin_div_cont nm K tht a b hK ha)

theorem temkin_spread_corrected_eq_integral (nm K tht a b : ℝ) (hK : 0 < K) (ha : 0 < a) (hab : a ≤ b) :
    (TemkinApprox_spreading_pressure nm K tht b - nm * tht / 2)
        - (TemkinApprox_spreading_pressure nm K tht a - nm * tht / 2)
      = ∫ x in a..b, TemkinApprox_loading nm K tht x / x := by
  rw [← temkin_spread_eq_integral nm K tht a b hK ha hab]; ring

/-- PARTIAL: strict monotonicity only for `θ < 4`.  The declared bound of `θ` is `(0, ∞)`; the missing range
`θ ≥ 4` cannot be added: `n(p)/p = n_m K ((1 − Kp)² + (4 − θ) Kp)/(1 + Kp)³` is negative around `Kp = 1`
when `θ > 4`, see the witness `temkin_spread_strictMonoOn_false` below (at `θ = 4` it still holds, the derivative
vanishing at the single point `Kp = 1`; not proved here). -/
theorem temkin_spread_strictMonoOn_partial (nm K tht : ℝ) (hnm : 0 < nm) (hK : 0 < K) (htht : tht < 4) :
    StrictMonoOn (TemkinApprox_spreading_pressure nm K tht) (Set.Ioi 0) := by
  intro a ha b _ hab
  simp only [Set.mem_Ioi] at ha
  rw [PgVerif.Tie.temkin_spread, PgVerif.Tie.temkin_spread]
  exact lt_of_hasDerivAt_pos (F := fun x => temkinSpreadLib nm K tht x) (f := fun x => temkin nm K tht x / x) hab
    (fun x hx => temkinSpreadLib_hasDeriv nm K tht x hK (lt_of_lt_of_le ha hx.1))
    (fun x hx => temkin_div_pos nm K tht x hnm hK htht (lt_of_lt_of_le ha hx.1))

/-- clause (5) is false for the code inside the declared bounds: with `n_m = K = 1`, `θ = 8`,
`Π(2) = ln 3 + 20/9 < ln 2 + 3 = Π(1)` -/
theorem temkin_spread_strictMonoOn_false :
    ¬ StrictMonoOn (TemkinApprox_spreading_pressure 1 1 8) (Set.Ioi 0) := by
  intro h
  have h12 := h (show (1 : ℝ) ∈ Set.Ioi 0 by simp) (show (2 : ℝ) ∈ Set.Ioi 0 by simp) (by norm_num)
  rw [PgVerif.Tie.temkin_spread, PgVerif.Tie.temkin_spread] at h12
  unfold temkinSpreadLib at h12
  have e1 : (1 : ℝ) + 1 * 1 = 2 := by norm_num
  have e2 : (1 : ℝ) + 1 * 2 = 3 := by norm_num
  rw [e1, e2] at h12
  have hlog : Real.log 3 - Real.log 2 ≤ 1 / 2 := by
    rw [← Real.log_div (by norm_num) (by norm_num)]
    have := Real.log_le_sub_one_of_pos (show (0 : ℝ) < 3 / 2 by norm_num)
    linarith
  norm_num at h12
  linarith

end PgVerif.C11
