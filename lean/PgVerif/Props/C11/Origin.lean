/-
C11 (addendum) — the origin guard of `PointIsotherm.spreading_pressure_at` (repository fix S35): a first data point at `(0, 0)` is dropped
before the Henry continuation.  The chord from the origin to the first positive point IS the Henry line through that point, so the
integrand n(p)/p — and with it the spreading pressure — is unchanged by the guard.
-/
import PgVerif.Model.SpreadPoint
import Mathlib.Tactic

namespace PgVerif.C11

open PgVerif.Model

variable {α : Type} [Field α] [LinearOrder α]

/-- the linear interpolant between the origin and `(p1, l1)` is the Henry law with slope `l1/p1` -/
theorem origin_chord_is_henry (p1 l1 x : α) : (0 : α) + (l1 - 0) / (p1 - 0) * (x - 0) = l1 / p1 * x := by
  simp

/-- data that do not start at the origin are left alone -/
theorem dropOrigin_noop (p0 p1 l0 l1 : α) (ps ls : List α) (h : ¬ (p0 = 0 ∧ l0 = 0)) :
    dropOrigin (p0 :: p1 :: ps) (l0 :: l1 :: ls) = (p0 :: p1 :: ps, l0 :: l1 :: ls) := by
  simp [dropOrigin, h]

/-- a leading origin is removed, everything else is kept in order -/
theorem dropOrigin_origin (p1 l1 : α) (ps ls : List α) :
    dropOrigin ((0 : α) :: p1 :: ps) ((0 : α) :: l1 :: ls) = (p1 :: ps, l1 :: ls) := by
  simp [dropOrigin]

/-- a single point is never dropped (the guard needs a second point to continue from) -/
theorem dropOrigin_single (p0 l0 : α) : dropOrigin [p0] [l0] = ([p0], [l0]) := rfl

/-- the guard is idempotent on strictly increasing pressures -/
theorem dropOrigin_idem (p1 l1 : α) (ps ls : List α) (hp : p1 ≠ 0) :
    dropOrigin (dropOrigin ((0 : α) :: p1 :: ps) ((0 : α) :: l1 :: ls)).1 (dropOrigin ((0 : α) :: p1 :: ps) ((0 : α) :: l1 :: ls)).2
      = (p1 :: ps, l1 :: ls) := by
  rw [dropOrigin_origin]
  cases ps with
  | nil => cases ls <;> rfl
  | cons p2 ps =>
    cases ls with
    | nil => rfl
    | cons l2 ls => simp [dropOrigin, hp]

/-- with the guard, the fold on data starting at the origin is the fold on the remaining data -/
theorem spreadPointData_origin (p1 l1 : α) (ps ls logs : List α) (p lq lg : α) :
    spreadPointData ((0 : α) :: p1 :: ps) ((0 : α) :: l1 :: ls) logs p lq lg = spreadPoint (p1 :: ps) (l1 :: ls) logs p lq lg := by
  simp [spreadPointData, dropOrigin]

end PgVerif.C11
