/-
C11 on the DESORPTION branch of a point isotherm.  A hysteretic isotherm stores its desorption rows after the adsorption
rows, in order of DECREASING pressure.  `PointIsotherm.spreading_pressure_at(branch='des')` brings the rows of the branch
into increasing order (`PgVerif.Model.Iast.orient`: reversed when the first pressure exceeds the last) and then runs the
same fold as on the adsorption branch (`PgVerif.Model.spreadPoint`).  The harness feeds the exact-rational fold
(`Drv/SpreadPoint.lean`) with the REVERSED stored desorption rows; this file makes that legitimate:

  A. (any linear order) the reverse of a strictly decreasing list is strictly increasing; `orient` reverses strictly
     decreasing rows (`orient_of_decreasing`), leaves strictly increasing rows alone (`orient_of_increasing`); in both
     cases the oriented rows are THE rows of the branch sorted by increasing pressure (`orient_eq_sorted_rows`,
     `orient_fst_eq_mergeSort`), and the hypotheses of the fold theorems (`strictly increasing, positive`) are met
     (`orient_admissible`).
  B. (ℝ) the spreading pressure of a branch, `spreadStored` = the fold on the oriented rows, is `∫₀ᵖ q(x)/x dx` of the
     Henry-continued piecewise-linear interpolant through the rows of that branch (`spreadStored_eq_integral`), for
     desorption rows it is the fold on the reversed stored rows (`spreadStored_des`, `spreadPoint_des_eq_integral`); zero
     at zero, additive, non-decreasing (`spreadStored_zero`, `spreadStored_additive`, `spreadStored_mono`).
  C. non-vacuity; `unoriented_fold_differs`: the fold run over desorption rows in STORED order (the defect repaired by
     repository commit 208858a) gives another number.
-/
import PgVerif.Props.C11.Point
import PgVerif.Model.IastPoint
import Mathlib.Data.List.Sort

namespace PgVerif.C11
open PgVerif.Model PgVerif.Model.Iast

/-! ## A. orientation of the rows of a branch (any linear order) -/

section A
variable {α : Type} [LinearOrder α]

/-- rows of a branch in a strictly monotone order of pressure: increasing (adsorption) or decreasing (desorption) -/
def StoredMonotone (ps : List α) : Prop := ps.Pairwise (· < ·) ∨ (2 ≤ ps.length ∧ ps.Pairwise (· > ·))

/-- the reverse of a strictly decreasing list is strictly increasing -/
theorem reverse_increasing_of_decreasing (ps : List α) (h : ps.Pairwise (· > ·)) : ps.reverse.Pairwise (· < ·) :=
  List.pairwise_reverse.mpr h

/-- strictly increasing rows (adsorption, or a branch of one point) are left as stored -/
theorem orient_of_increasing (ps ls : List α) (h : ps.Pairwise (· < ·)) : orient ps ls = (ps, ls) := by
  unfold orient
  rcases ps with _ | ⟨a, t⟩
  · rfl
  · have hne : a :: t ≠ [] := by simp
    rw [List.head?_cons, List.getLast?_eq_some_getLast hne]
    have hle : a ≤ (a :: t).getLast hne := by
      rcases List.mem_cons.mp (List.getLast_mem hne) with e | m
      · exact e.ge
      · exact (List.rel_of_pairwise_cons h m).le
    simp only [not_lt.mpr hle, if_false]

/-- strictly decreasing rows (desorption as stored, at least two points) are reversed, both columns together -/
theorem orient_of_decreasing (ps ls : List α) (hlen : 2 ≤ ps.length) (h : ps.Pairwise (· > ·)) :
    orient ps ls = (ps.reverse, ls.reverse) := by
  unfold orient
  rcases ps with _ | ⟨a, _ | ⟨b, t⟩⟩
  · simp at hlen
  · simp at hlen
  · have hne : a :: b :: t ≠ [] := by simp
    rw [List.head?_cons, List.getLast?_eq_some_getLast hne]
    have hlt : (a :: b :: t).getLast hne < a := by
      rw [List.getLast_cons (by simp : b :: t ≠ [])]
      exact List.rel_of_pairwise_cons h (List.getLast_mem _)
    simp only [hlt, if_true]

/-- whichever way the rows are stored, the oriented pressures are strictly increasing -/
theorem orient_increasing (ps ls : List α) (h : StoredMonotone ps) : (orient ps ls).1.Pairwise (· < ·) := by
  rcases h with h | ⟨hlen, h⟩
  · rw [orient_of_increasing ps ls h]; exact h
  · rw [orient_of_decreasing ps ls hlen h]; exact reverse_increasing_of_decreasing ps h

/-- orientation keeps the rows: the same pressures, the same loadings (as lists up to order), the same lengths -/
theorem orient_perm (ps ls : List α) : ((orient ps ls).1.Perm ps) ∧ ((orient ps ls).2.Perm ls) := by
  unfold orient
  split
  · split_ifs
    · exact ⟨List.reverse_perm _, List.reverse_perm _⟩
    · exact ⟨List.Perm.refl _, List.Perm.refl _⟩
  · exact ⟨List.Perm.refl _, List.Perm.refl _⟩

theorem orient_length (ps ls : List α) :
    (orient ps ls).1.length = ps.length ∧ (orient ps ls).2.length = ls.length :=
  ⟨(orient_perm ps ls).1.length_eq, (orient_perm ps ls).2.length_eq⟩

/-- the rows stay paired: row `i` of the oriented data is a stored row -/
theorem orient_zip (ps ls : List α) (hlen : ps.length = ls.length) :
    ((orient ps ls).1.zip (orient ps ls).2).Perm (ps.zip ls) := by
  unfold orient
  split
  · split_ifs
    · simp only [List.zip]
      rw [← List.reverse_zipWith hlen]
      exact List.reverse_perm _
    · exact List.Perm.refl _
  · exact List.Perm.refl _

/-- **the oriented pressures are the pressures of the branch sorted increasingly** -/
theorem orient_fst_eq_mergeSort (ps ls : List α) (h : StoredMonotone ps) :
    (orient ps ls).1 = ps.mergeSort (fun a b => decide (a ≤ b)) := by
  have hs : (orient ps ls).1.Pairwise (· ≤ ·) := (orient_increasing ps ls h).imp le_of_lt
  have hm : (ps.mergeSort (fun a b => decide (a ≤ b))).Pairwise (· ≤ ·) := List.pairwise_mergeSort' (· ≤ ·) ps
  exact List.Perm.eq_of_pairwise' hs hm ((orient_perm ps ls).1.trans (List.mergeSort_perm ps _).symm)

/-- **the oriented rows are the rows of the branch sorted by increasing pressure** (rows = (pressure, loading) pairs) -/
theorem orient_eq_sorted_rows (ps ls : List α) (hlen : ps.length = ls.length) (h : StoredMonotone ps) :
    (orient ps ls).1.zip (orient ps ls).2 = (ps.zip ls).mergeSort (fun a b => decide (a.1 ≤ b.1)) := by
  set o := (orient ps ls).1.zip (orient ps ls).2 with ho
  set m := (ps.zip ls).mergeSort (fun a b => decide (a.1 ≤ b.1)) with hm
  have hperm : o.Perm m := (orient_zip ps ls hlen).trans (List.mergeSort_perm _ _).symm
  -- strictly increasing first components of the oriented rows
  have hlen' : (orient ps ls).1.length = (orient ps ls).2.length := by
    rw [(orient_length ps ls).1, (orient_length ps ls).2, hlen]
  have hstrict : o.Pairwise (fun a b => a.1 < b.1) := by
    have h1 : (o.map Prod.fst).Pairwise (· < ·) := by
      rw [ho, List.map_fst_zip (by omega)]
      exact orient_increasing ps ls h
    exact List.pairwise_map.mp h1
  have hso : o.Pairwise (fun a b => decide (a.1 ≤ b.1) = true) := hstrict.imp (fun hab => by simpa using hab.le)
  have hsm : m.Pairwise (fun a b => decide (a.1 ≤ b.1) = true) := by
    apply List.pairwise_mergeSort
    · intro a b c hab hbc
      simp only [decide_eq_true_eq] at hab hbc ⊢
      exact hab.trans hbc
    · intro a b
      simp only [Bool.or_eq_true, decide_eq_true_eq]
      exact le_total _ _
  -- rows with the same pressure are the same row (pressures are pairwise different)
  have hinj : ∀ a ∈ o, ∀ b ∈ o, a.1 = b.1 → a = b := by
    have hsym : Std.Symm (fun a b : α × α => a.1 = b.1 → a = b) := ⟨fun a b hab e => (hab e.symm).symm⟩
    have := @List.Pairwise.forall_of_forall _ (fun a b : α × α => a.1 = b.1 → a = b) o hsym (fun _ _ _ => rfl)
      (hstrict.imp (fun hab e => absurd e hab.ne))
    intro a ha b hb
    exact this ha hb
  refine List.Perm.eq_of_pairwise ?_ hso hsm hperm
  intro a b ha hb hab hba
  simp only [decide_eq_true_eq] at hab hba
  exact hinj a ha b (hperm.symm.subset hb) (le_antisymm hab hba)

end A

/-! ## B. the spreading pressure of a branch (ℝ) -/

noncomputable section

/-- positive pressures stored in a strictly monotone order: the oriented rows meet the hypotheses of the fold theorems of
`Props/C11/Point.lean` (non-empty, positive first pressure, strictly increasing, as many loadings as pressures) -/
theorem orient_admissible (ps ls : List ℝ) (hne : ps ≠ []) (hpos : ∀ x ∈ ps, 0 < x) (hlen : ps.length = ls.length)
    (hm : StoredMonotone ps) :
    ∃ hne' : (orient ps ls).1 ≠ [], 0 < (orient ps ls).1.head hne' ∧
      (orient ps ls).1.length = (orient ps ls).2.length ∧ (orient ps ls).1.Pairwise (· < ·) := by
  have hl := orient_length ps ls
  have hne' : (orient ps ls).1 ≠ [] := by
    intro h0
    have : ps.length = 0 := by rw [← hl.1, h0]; rfl
    exact hne (List.eq_nil_of_length_eq_zero this)
  refine ⟨hne', ?_, by rw [hl.1, hl.2, hlen], orient_increasing ps ls hm⟩
  exact hpos _ ((orient_perm ps ls).1.subset (List.head_mem hne'))

/-- `spreading_pressure_at(p, branch)` as a function of the rows of the branch AS STORED: orientation, then the fold
(`spreadFun` of `Props/C11/Point.lean`) -/
def spreadStored (ps ls : List ℝ) (p : ℝ) : ℝ := spreadFun (orient ps ls).1 (orient ps ls).2 p

/-- the highest pressure of the branch, whichever way it is stored -/
def storedMax (ps ls : List ℝ) (hne : (orient ps ls).1 ≠ []) : ℝ := (orient ps ls).1.getLast hne

/-- desorption rows (strictly decreasing as stored): the spreading pressure is the fold on the REVERSED rows -/
theorem spreadStored_des (ps ls : List ℝ) (p : ℝ) (hlen2 : 2 ≤ ps.length) (hd : ps.Pairwise (· > ·)) :
    spreadStored ps ls p = spreadFun ps.reverse ls.reverse p := by
  unfold spreadStored
  rw [orient_of_decreasing ps ls hlen2 hd]

/-- adsorption rows (strictly increasing as stored): the fold on the rows as they are -/
theorem spreadStored_ads (ps ls : List ℝ) (p : ℝ) (hi : ps.Pairwise (· < ·)) :
    spreadStored ps ls p = spreadFun ps ls p := by
  unfold spreadStored
  rw [orient_of_increasing ps ls hi]

/-- **C11 on the desorption branch.**  Stored rows `ps`, `ls` with strictly decreasing positive pressures, `0 ≤ p`, `lq` the
linear interpolation of the branch at `p`: the exact fold run on the reversed rows is `∫₀ᵖ q(x)/x dx`, `q` the
Henry-continued piecewise-linear interpolant through the points of the desorption branch. -/
theorem spreadPoint_des_eq_integral (ps ls : List ℝ) (p lq : ℝ) (hne : ps ≠ []) (hpos : ∀ x ∈ ps, 0 < x)
    (hlen : ps.length = ls.length) (hd : ps.Pairwise (· > ·)) (hp0 : 0 ≤ p)
    (hlq : ps.getLast hne < p → interpLin ps.reverse ls.reverse p = some lq) :
    spreadPoint ps.reverse ls.reverse (realLogs ps.reverse) p lq (lastLog ps.reverse p) =
      some (∫ x in (0:ℝ)..p, qInterp ps.reverse ls.reverse x / x) := by
  have hne' : ps.reverse ≠ [] := by simpa using hne
  have hhead : ps.reverse.head hne' = ps.getLast hne := by simp
  refine spreadPoint_eq_integral ps.reverse ls.reverse p lq hne' ?_ (by simp [hlen])
    (reverse_increasing_of_decreasing ps hd) hp0 ?_
  · rw [hhead]; exact hpos _ (List.getLast_mem hne)
  · rw [hhead]; exact hlq

/-- the spreading pressure of a branch is the integral of the interpolant through the rows of that branch sorted by
increasing pressure, on the whole measured range of the branch -/
theorem spreadStored_eq_integral (ps ls : List ℝ) (p : ℝ) (hne : ps ≠ []) (hpos : ∀ x ∈ ps, 0 < x)
    (hlen : ps.length = ls.length) (hm : StoredMonotone ps) (hp0 : 0 ≤ p)
    (hpl : p ≤ storedMax ps ls (orient_admissible ps ls hne hpos hlen hm).1) :
    spreadStored ps ls p = ∫ x in (0:ℝ)..p, qInterp (orient ps ls).1 (orient ps ls).2 x / x := by
  obtain ⟨hne', hp, hl, hs⟩ := orient_admissible ps ls hne hpos hlen hm
  exact spreadFun_eq_integral _ _ p hne' hp hl hs hp0 hpl

/-- zero at zero pressure -/
theorem spreadStored_zero (ps ls : List ℝ) (hne : ps ≠ []) (hpos : ∀ x ∈ ps, 0 < x) (hlen : ps.length = ls.length)
    (hm : StoredMonotone ps) : spreadStored ps ls 0 = 0 := by
  obtain ⟨hne', hp, hl, hs⟩ := orient_admissible ps ls hne hpos hlen hm
  unfold spreadStored spreadFun
  rw [spreadPoint_zero _ _ _ _ _ hne' hp hl hs]
  rfl

/-- additive over pressure intervals inside the measured range of the branch -/
theorem spreadStored_additive (ps ls : List ℝ) (a b : ℝ) (hne : ps ≠ []) (hpos : ∀ x ∈ ps, 0 < x)
    (hlen : ps.length = ls.length) (hm : StoredMonotone ps) (ha0 : 0 ≤ a) (hab : a ≤ b)
    (hbl : b ≤ storedMax ps ls (orient_admissible ps ls hne hpos hlen hm).1) :
    spreadStored ps ls b - spreadStored ps ls a = ∫ x in a..b, qInterp (orient ps ls).1 (orient ps ls).2 x / x := by
  obtain ⟨hne', hp, hl, hs⟩ := orient_admissible ps ls hne hpos hlen hm
  exact spreadPoint_additive _ _ a b hne' hp hl hs ha0 hab hbl

/-- non-negative loadings: non-decreasing in the pressure -/
theorem spreadStored_mono (ps ls : List ℝ) (a b : ℝ) (hne : ps ≠ []) (hpos : ∀ x ∈ ps, 0 < x)
    (hlen : ps.length = ls.length) (hm : StoredMonotone ps) (hl0 : ∀ l ∈ ls, 0 ≤ l) (ha0 : 0 ≤ a) (hab : a ≤ b)
    (hbl : b ≤ storedMax ps ls (orient_admissible ps ls hne hpos hlen hm).1) :
    spreadStored ps ls a ≤ spreadStored ps ls b := by
  obtain ⟨hne', hp, hl, hs⟩ := orient_admissible ps ls hne hpos hlen hm
  exact spreadPoint_mono _ _ a b hne' hp hl hs
    (fun l hl' => hl0 l ((orient_perm ps ls).2.subset hl')) ha0 hab hbl

end

/-! ## C. non-vacuity -/

/-- desorption rows `(4, 2), (2, 3/2), (1, 1)` as stored: strictly decreasing, reversed by `orient` -/
example : StoredMonotone [(4 : ℚ), 2, 1] ∧ orient [(4 : ℚ), 2, 1] [2, 3 / 2, 1] = ([1, 2, 4], [1, 3 / 2, 2]) := by
  refine ⟨Or.inr ⟨by decide, by decide⟩, by decide +kernel⟩

/-- adsorption rows stay -/
example : StoredMonotone [(1 : ℚ), 2, 4] ∧ orient [(1 : ℚ), 2, 4] [1, 3 / 2, 2] = ([1, 2, 4], [1, 3 / 2, 2]) := by
  refine ⟨Or.inl (by decide), by decide +kernel⟩

/-- the hypotheses of `spreadPoint_des_eq_integral` are satisfiable -/
example : ([4, 2, 1] : List ℝ) ≠ [] ∧ (∀ x ∈ ([4, 2, 1] : List ℝ), 0 < x) ∧
    ([4, 2, 1] : List ℝ).Pairwise (· > ·) := by
  refine ⟨by simp, ?_, ?_⟩
  · intro x hx; simp at hx; rcases hx with rfl | rfl | rfl <;> norm_num
  · simp only [List.pairwise_cons, List.mem_cons, List.not_mem_nil, or_false, forall_eq_or_imp, forall_eq,
      IsEmpty.forall_iff, implies_true, List.Pairwise.nil, and_true]
    norm_num

/-- the fold on the reversed desorption rows at `p = 3` (logarithm inputs `7/10`, `2/5`): `5/2` … -/
example : spreadPoint [(1 : ℚ), 2, 4] [1, 3 / 2, 2] [7 / 10, 7 / 10] 3 (7 / 4) (2 / 5) = some (5 / 2) := by
  decide +kernel

/-- … the same fold over the rows in STORED order (decreasing pressures; logarithms of the stored neighbours `-7/10`) — what
`spreading_pressure_at(branch='des')` did before repository commit 208858a — is another number -/
theorem unoriented_fold_differs :
    spreadPoint [(4 : ℚ), 2, 1] [2, 3 / 2, 1] [-7 / 10, -7 / 10] 3 (7 / 4) (2 / 5) ≠
      spreadPoint [(1 : ℚ), 2, 4] [1, 3 / 2, 2] [7 / 10, 7 / 10] 3 (7 / 4) (2 / 5) := by
  decide +kernel

end PgVerif.C11
