/-
C11 (point isotherms, unit arguments and knots).

"Pressures given in other units or modes are converted first": `PointIsotherm.spreading_pressure_at` converts the DATA to the unit /
mode of the query (all pressures are multiplied by one positive factor `c`) and runs the same fold on them.  The fold is invariant under
that scaling — the count of points below the query, every segment and the Henry part are unchanged — so the result does not depend on
the unit in which the query is expressed, whatever the magnitudes of the numbers are (`spreadPoint_scale`, generic ordered field; with
real logarithms `realLogs_scale`, `lastLog_scale`, `spreadFun_scale`).  A count that compares pressures up to an ABSOLUTE tolerance is
not invariant (`countTol_not_scale_invariant`).

Knots: whether a data point that coincides with the query is counted as "below" or is the end of the last, partial segment gives the same
value (`spreadBody_succ`, `spreadPoint_at_knot`): the spreading pressure is continuous across the knots, and a miscount is harmless only
AT a knot (`miscount_witness`: one knot strictly below the query left out changes the value).

The loading at the query is an input of the fold (the code reads it through `loading_at`, the data points through `loading`):
`foreign_lq_witness` — with the number another conversion produces the fold is not the integral of the interpolant (finding S49-C11c).
`unsigned_wrap_witness` — the fold needs field arithmetic: with one loading difference wrapped as in `UInt8` the value changes (finding S62-C11a).
-/
import Mathlib.Analysis.SpecialFunctions.Log.Basic
import Mathlib.Algebra.Order.Field.Rat
import Mathlib.Tactic
import PgVerif.Model.SpreadPoint
import PgVerif.Props.C11.Point

namespace PgVerif.C11
open PgVerif.Model

section Field

variable {α : Type} [Field α] [LinearOrder α] [IsStrictOrderedRing α]

/-- the data expressed in another pressure unit: every pressure times the conversion factor -/
def scaleP (c : α) (ps : List α) : List α := ps.map (c * ·)

omit [LinearOrder α] [IsStrictOrderedRing α] in
lemma scaleP_getD (c : α) (ps : List α) (i : ℕ) : (scaleP c ps).getD i 0 = c * ps.getD i 0 := by
  unfold scaleP
  rw [List.getD_eq_getElem?_getD, List.getD_eq_getElem?_getD, List.getElem?_map]
  cases ps[i]? <;> simp

/-- the number of data points below the query does not depend on the unit -/
theorem nBelow_scale {c : α} (hc : 0 < c) (ps : List α) (p : α) : nBelow (scaleP c ps) (c * p) = nBelow ps p := by
  unfold nBelow scaleP
  induction ps with
  | nil => rfl
  | cons a t ih =>
    have h : c * a < c * p ↔ a < p := mul_lt_mul_iff_right₀ hc
    by_cases hap : a < p
    · simp [hap, h.mpr hap, ih]
    · simp [hap, mt h.mp hap, ih]

/-- one segment: `slope·Δp + intercept·ln ratio` is the same in every unit (the logarithm of the ratio is an input) -/
theorem seg_scale {c : α} (hc : c ≠ 0) (p0 l0 p1 l1 lg : α) : seg (c * p0) l0 (c * p1) l1 lg = seg p0 l0 p1 l1 lg := by
  unfold seg
  by_cases h : p1 - p0 = 0
  · have h' : c * p1 - c * p0 = 0 := by rw [← mul_sub, h, mul_zero]
    simp [h, h']
  · have h' : c * p1 - c * p0 ≠ 0 := by rw [← mul_sub]; exact mul_ne_zero hc h
    field_simp

/-- the loop over the full segments -/
theorem spreadBody_scale {c : α} (hc : c ≠ 0) (ps ls logs : List α) (k : ℕ) (l0 : α) :
    spreadBody (scaleP c ps) ls logs k l0 = spreadBody ps ls logs k l0 := by
  unfold spreadBody
  congr 1
  funext area i
  rw [scaleP_getD, scaleP_getD, seg_scale hc]

/-- **C11, unit arguments.**  The fold of `spreading_pressure_at` on the data converted by a positive factor `c`, queried at the converted
pressure `c·p`, returns what it returns on the original data at `p`. -/
theorem spreadPoint_scale {c : α} (hc : 0 < c) (ps ls logs : List α) (p lq lg : α) :
    spreadPoint (scaleP c ps) ls logs (c * p) lq lg = spreadPoint ps ls logs p lq lg := by
  cases ps with
  | nil => simp [scaleP, spreadPoint]
  | cons p0 pt =>
    cases ls with
    | nil => simp [scaleP, spreadPoint]
    | cons l0 lt =>
      have hn := nBelow_scale hc (p0 :: pt) p
      have hb := spreadBody_scale hc.ne' (p0 :: pt) (l0 :: lt) logs (nBelow (p0 :: pt) p) l0
      have hg := scaleP_getD c (p0 :: pt) (nBelow (p0 :: pt) p - 1)
      have hs := seg_scale hc.ne' ((p0 :: pt).getD (nBelow (p0 :: pt) p - 1) 0) ((l0 :: lt).getD (nBelow (p0 :: pt) p - 1) 0) p lq lg
      simp only [scaleP, List.map_cons] at hn hb hg
      simp only [scaleP, List.map_cons, spreadPoint, hn, hb, hg, hs]
      have hh : l0 / (c * p0) * (c * p) = l0 / p0 * p := by
        by_cases h0 : p0 = 0
        · simp [h0]
        · field_simp
      rw [hh]

/-- the origin guard commutes with the conversion: `(0, 0)` stays `(0, 0)` -/
theorem spreadPointData_scale {c : α} (hc : 0 < c) (ps ls logs : List α) (p lq lg : α) :
    spreadPointData (scaleP c ps) ls logs (c * p) lq lg = spreadPointData ps ls logs p lq lg := by
  unfold spreadPointData
  have key : dropOrigin (scaleP c ps) ls = (scaleP c (dropOrigin ps ls).1, (dropOrigin ps ls).2) := by
    unfold scaleP
    match ps, ls with
    | [], _ => simp [dropOrigin]
    | [_], _ => simp [dropOrigin]
    | _ :: _ :: _, [] => simp [dropOrigin]
    | _ :: _ :: _, [_] => simp [dropOrigin]
    | p0 :: p1 :: pt, l0 :: l1 :: lt =>
      simp only [dropOrigin, List.map_cons, mul_eq_zero, hc.ne', false_or]
      split <;> simp
  rw [key]
  exact spreadPoint_scale hc _ _ _ _ _ _

/-- the code's interpolation (`loading_at` converts the query back: the same point of the same segment) -/
theorem interpLin_scale {c : α} (hc : 0 < c) (ps ls : List α) (x : α) :
    interpLin (scaleP c ps) ls (c * x) = interpLin ps ls x := by
  unfold scaleP
  induction ps generalizing ls with
  | nil => simp [interpLin]
  | cons p0 pt ih =>
    cases pt with
    | nil =>
      cases ls with
      | nil => simp [interpLin]
      | cons l0 lt =>
        cases lt with
        | nil => simp [interpLin, hc.ne']
        | cons _ _ => simp [interpLin]
    | cons p1 pt =>
      cases ls with
      | nil => simp [interpLin]
      | cons l0 lt =>
        cases lt with
        | nil => simp [interpLin]
        | cons l1 lt =>
          have ih' := ih (l1 :: lt)
          simp only [List.map_cons] at ih' ⊢
          simp only [interpLin, mul_lt_mul_iff_right₀ hc, mul_le_mul_iff_right₀ hc, ih']
          by_cases h : p1 - p0 = 0
          · have h' : c * p1 - c * p0 = 0 := by rw [← mul_sub, h, mul_zero]
            simp [h, h']
          · have h' : c * p1 - c * p0 ≠ 0 := by rw [← mul_sub]; exact mul_ne_zero hc.ne' h
            have e : (l1 - l0) / (c * p1 - c * p0) * (c * x - c * p0) = (l1 - l0) / (p1 - p0) * (x - p0) := by
              field_simp
            rw [e]

/-! ### knots -/

omit [LinearOrder α] [IsStrictOrderedRing α] in
/-- one more full segment in the loop -/
theorem spreadBody_succ (ps ls logs : List α) (k : ℕ) (hk : 1 ≤ k) (l0 : α) :
    spreadBody ps ls logs (k + 1) l0
      = spreadBody ps ls logs k l0 + seg (ps.getD (k - 1) 0) (ls.getD (k - 1) 0) (ps.getD k 0) (ls.getD k 0) (logs.getD (k - 1) 0) := by
  unfold spreadBody
  obtain ⟨j, rfl⟩ : ∃ j, k = j + 1 := ⟨k - 1, by omega⟩
  simp only [Nat.add_sub_cancel, List.range_succ, List.foldl_append, List.foldl_cons, List.foldl_nil]

omit [IsStrictOrderedRing α] in
/-- **continuity across a knot.**  At a query that coincides with the data point number `k` (`k` points are strictly below it), the code's
value — full segments up to point `k-1`, then the "partial" segment from point `k-1` to the query, with `loading_at(p) = ls[k]` and
`ln(p/ps[k-1]) = logs[k-1]` — is the value of the loop run over one more full segment: counting the coinciding point as below or not makes
no difference. -/
theorem spreadPoint_at_knot (p0 l0 : α) (pt lt logs : List α) (p : α) (hk : 1 ≤ nBelow (p0 :: pt) p)
    (hp : p = (p0 :: pt).getD (nBelow (p0 :: pt) p) 0) :
    spreadPoint (p0 :: pt) (l0 :: lt) logs p ((l0 :: lt).getD (nBelow (p0 :: pt) p) 0) (logs.getD (nBelow (p0 :: pt) p - 1) 0)
      = some (spreadBody (p0 :: pt) (l0 :: lt) logs (nBelow (p0 :: pt) p + 1) l0) := by
  have h0 : nBelow (p0 :: pt) p ≠ 0 := by omega
  rw [spreadBody_succ _ _ _ _ hk]
  simp only [spreadPoint, h0, if_false]
  rw [← hp]

end Field

/-- non-vacuity of the hypotheses of `spreadPoint_at_knot`: data pressures 1, 2, 4 queried at the knot 2 -/
example : 1 ≤ nBelow (α := ℚ) [1, 2, 4] 2 ∧ (2 : ℚ) = ([1, 2, 4] : List ℚ).getD (nBelow (α := ℚ) [1, 2, 4] 2) 0 := by
  norm_num [nBelow, List.filter]

/-! ### witnesses at ℚ -/

/-- a knot strictly below the query that is left out of the count changes the value: data `(1,1), (2,3), (4,4)`, query `3`
(`loading_at 3 = 7/2`), logarithms replaced by the rationals `7/10 ≈ ln 2`, `2/5 ≈ ln(3/2)`, `11/10 ≈ ln 3`: with both knots below the
query the fold gives `1 + seg(1,1,2,3) + seg(2,3,3,7/2) = 18/5`; with the knot `2` skipped (`n_points = 1`) the last segment is the chord from
`(1,1)` straight to the query, `129/40`. -/
theorem miscount_witness :
    spreadPoint (α := ℚ) [1, 2, 4] [1, 3, 4] [7/10, 7/10] 3 (7/2) (2/5) = some (18/5) ∧
    (1 : ℚ) + seg (1 : ℚ) 1 3 (7/2) (11/10) = 129/40 ∧
    (18/5 : ℚ) ≠ 1 + seg (1 : ℚ) 1 3 (7/2) (11/10) := by
  refine ⟨?_, by norm_num [seg], by norm_num [seg]⟩
  norm_num [spreadPoint, nBelow, spreadBody, seg, List.range_succ, List.filter]

/-- finding S49-C11c: the loading at the query, `lq`, is an INPUT of the fold — the code reads it through `loading_at` while the data points come
from `loading` — and `spreadPoint_eq_integral` needs it to be the interpolant of THE SAME data at the query (`interpLin ps ls p = some lq`).
With the number another conversion produces (here 100 times smaller: a percentage read as a fraction) the fold is not the integral of the
interpolant: same data and logarithms as in `miscount_witness`, query `3`: `18/5` with `lq = 7/2`, `2907/1000` with `lq = 7/200`. -/
theorem foreign_lq_witness :
    spreadPoint (α := ℚ) [1, 2, 4] [1, 3, 4] [7/10, 7/10] 3 (7/2) (2/5) = some (18/5) ∧
    spreadPoint (α := ℚ) [1, 2, 4] [1, 3, 4] [7/10, 7/10] 3 (7/200) (2/5) = some (2907/1000) ∧
    (18/5 : ℚ) ≠ 2907/1000 := by
  refine ⟨?_, ?_, by norm_num⟩ <;>
  norm_num [spreadPoint, nBelow, spreadBody, seg, List.range_succ, List.filter]

/-- finding S62-C11a: the fold is a statement about FIELD arithmetic (`spreadPoint_eq_integral` is proved over ℝ, the driver runs at ℚ); the code computes
`loadings[i + 1] - loadings[i]` in the storage type of the loading column, and numpy's unsigned integers are not a field: `4 - 5 = 255` in `UInt8`.
Witness of the finding — pressures `1, 2, 3, 5`, loadings `3, 5, 4, 8`, query `4` (`loading_at 4 = 6`), logarithms replaced by the rationals
`7/10 ≈ ln 2`, `2/5 ≈ ln(3/2)`, `3/10 ≈ ln(4/3)`: the fold is `89/10` (≈ 8.956 with real logarithms); with the difference of the completed segment
`(2,5) → (3,4)` wrapped to `255` (the chord to `(3, 5 + 255)`) it is `601/10` (≈ 57.36, what the code returns for `uint8` columns). -/
theorem unsigned_wrap_witness :
    ((4 : UInt8) - 5).toNat = 255 ∧
    spreadPoint (α := ℚ) [1, 2, 3, 5] [3, 5, 4, 8] [7/10, 2/5, 1/2] 4 6 (3/10) = some (89/10) ∧
    (3 : ℚ) + seg (1 : ℚ) 3 2 5 (7/10) + seg (2 : ℚ) 5 3 (5 + 255) (2/5) + seg (3 : ℚ) 4 4 6 (3/10) = 601/10 ∧
    (89/10 : ℚ) ≠ 601/10 := by
  refine ⟨by decide, ?_, by norm_num [seg], by norm_num⟩
  norm_num [spreadPoint, nBelow, spreadBody, seg, List.range_succ, List.filter]

/-- a count "up to an absolute tolerance" (`p_k < p - tol` instead of `p_k < p`) -/
def countTol {α : Type} [Field α] [LinearOrder α] (tol : α) (ps : List α) (p : α) : Nat := (ps.filter (· < p - tol)).length

/-- with `tol = 0` it is the code's count -/
theorem countTol_zero {α : Type} [Field α] [LinearOrder α] (ps : List α) (p : α) : countTol 0 ps p = nBelow ps p := by
  simp [countTol, nBelow]

/-- … and for `tol > 0` it is not invariant under a change of unit: the same data and query, in a unit 1000 times larger -/
theorem countTol_not_scale_invariant :
    countTol (α := ℚ) (1/100) [1, 2] (201/100) = 1 ∧ countTol (α := ℚ) (1/100) (scaleP 1000 [1, 2]) (1000 * (201/100)) = 2 ∧
    nBelow (α := ℚ) [1, 2] (201/100) = 2 := by
  refine ⟨?_, ?_, ?_⟩ <;> norm_num [countTol, nBelow, scaleP, List.filter]

/-! ### real logarithms -/

noncomputable section

lemma realLogs_scale {c : ℝ} (hc : c ≠ 0) (ps : List ℝ) : realLogs (scaleP c ps) = realLogs ps := by
  unfold realLogs scaleP
  rw [← List.map_tail, List.zipWith_map]
  congr 1
  funext a b
  rw [mul_div_mul_left _ _ hc]

lemma lastLog_scale {c : ℝ} (hc : 0 < c) (ps : List ℝ) (p : ℝ) : lastLog (scaleP c ps) (c * p) = lastLog ps p := by
  unfold lastLog
  rw [nBelow_scale hc, scaleP_getD, mul_div_mul_left _ _ hc.ne']

/-- **C11, unit arguments, the code as a function of `p` alone** (real logarithms, the code's own interpolation): the spreading pressure
of the converted data at the converted query is the spreading pressure of the data at the query. -/
theorem spreadFun_scale {c : ℝ} (hc : 0 < c) (ps ls : List ℝ) (p : ℝ) :
    spreadFun (scaleP c ps) ls (c * p) = spreadFun ps ls p := by
  unfold spreadFun
  rw [realLogs_scale hc.ne', lastLog_scale hc, interpLin_scale hc, spreadPoint_scale hc]

/-- non-vacuity: 1 bar = 100 kPa -/
example : spreadFun (scaleP 100 [1, 2]) [1, 3] (100 * (3/2)) = spreadFun [1, 2] [1, 3] (3/2) :=
  spreadFun_scale (by norm_num) _ _ _

end

end PgVerif.C11
