/-
C11 — DR / DA: the spreading pressure as an integral over the scaled logarithm `s = (RT/e)·ln p` (finding S49-C11a).

`DR.spreading_pressure` / `DA.spreading_pressure` used `scipy.integrate.quad(loading(x)/x, 0, p)`: for `RT ≪ e` the integrand behaves like
`x^(a-1)`, `a = RT/e`, at the origin and the quadrature returned wrong numbers (with a warning).  The repaired methods compute

    n_m / c · quad(λ s, exp(-(-s)^m), -∞, c·ln p),      c = RT/e = -minus_rt / e          (DR: m = 2)

This file proves that this is the same quantity — the integral of `loading(x)/x` anchored at the origin:

* `da_loading_comp_exp`, `dr_loading_comp_exp` — `n(eᵘ) = n_m · exp(-(-(c·u))^m)`: the integrand of the repaired code is the class's own
  loading in the new variable (generated `DA_loading`, `DR_loading`).
* `da_spread_logscale`, `dr_spread_logscale` — for `0 < a ≤ b`: `∫ₐᵇ n(x)/x dx = n_m/c · ∫_{c ln a}^{c ln b} exp(-(-s)^m) ds`
  (change of variables `x = eᵘ` of `Origin0.integral_div_eq_integral_comp_exp`, then `s = c·u`).
* `daKernel_le`, `daKernel_integrableOn` — for `m ≥ 1` the new integrand is bounded by `e·eˢ` on `s ≤ 0`, hence integrable down to `-∞`:
  the improper integral the code asks `quad` for exists (the old integrand `n(x)/x` is unbounded at 0 for `a < 1`).
* `da_spread_from_origin`, `dr_spread_from_origin` — for `0 < p ≤ 1`: `∫ₐᵖ n(x)/x dx → n_m/c · ∫_{-∞}^{c ln p} exp(-(-s)^m) ds` as `a → 0⁺`:
  the value of the repaired code IS the integral from the origin (the limit that `anchored_primitive_unique` shows to be the only anchored
  primitive).
* `da_spread_from_origin_nonneg`, `…_mono` — it is non-negative and non-decreasing in `p`.
-/
import Mathlib.Analysis.SpecialFunctions.Integrals.Basic
import Mathlib.Analysis.SpecialFunctions.ImproperIntegrals
import Mathlib.Analysis.SpecialFunctions.Pow.Continuity
import Mathlib.MeasureTheory.Integral.IntegralEqImproper
import Mathlib.Tactic
import PgVerif.Tie.Models
import PgVerif.Props.C11.Origin0

namespace PgVerif.C11
open PgVerif.Gen.R Filter Topology MeasureTheory

/-- the integrand of the repaired code, `numpy.exp(-(-s)**m)` -/
noncomputable def daKernel (m s : ℝ) : ℝ := Real.exp (-((-s) ^ m))

/-- the DA loading at `p = eᵘ` in the variable `s = c·u`, `c = RT/e = -minus_rt/e` -/
theorem da_loading_comp_exp (nm e m mrt u : ℝ) :
    DA_loading nm e m mrt (Real.exp u) = nm * daKernel m (-mrt / e * u) := by
  unfold DA_loading daKernel
  simp only [Real.rpow_eq_pow, Real.log_exp]
  have h : mrt * u / e = -(-mrt / e * u) := by ring
  rw [h]

/-- the DR loading is the case `m = 2` -/
theorem dr_loading_comp_exp (nm e mrt u : ℝ) :
    DR_loading nm e mrt (Real.exp u) = nm * daKernel 2 (-mrt / e * u) := by
  unfold DR_loading daKernel
  simp only [Real.log_exp]
  have h : mrt * u / e = -(-mrt / e * u) := by ring
  rw [h, Real.rpow_two]

lemma daKernel_continuous {m : ℝ} (hm : 0 ≤ m) : Continuous (daKernel m) := by
  unfold daKernel
  exact Real.continuous_exp.comp ((Real.continuous_rpow_const hm).comp continuous_neg).neg

lemma daKernel_pos (m s : ℝ) : 0 < daKernel m s := Real.exp_pos _

/-- the scaled-logarithm form of an increment of the spreading pressure of any loading of the form `n(eᵘ) = n_m·k(c·u)` -/
lemma spread_logscale_of_comp_exp {n k : ℝ → ℝ} {nm c a b : ℝ} (hk : Continuous k) (hn : ∀ u, n (Real.exp u) = nm * k (c * u))
    (hc : c ≠ 0) (ha : 0 < a) (hab : a ≤ b) :
    ∫ x in a..b, n x / x = nm / c * ∫ s in c * Real.log a..c * Real.log b, k s := by
  have hcont : ContinuousOn n (Set.Icc a b) := by
    have heq : Set.EqOn n (fun x => nm * k (c * Real.log x)) (Set.Icc a b) := by
      intro x hx
      have hx0 : 0 < x := ha.trans_le hx.1
      have := hn (Real.log x)
      rwa [Real.exp_log hx0] at this
    apply ContinuousOn.congr _ heq
    apply ContinuousOn.mul continuousOn_const
    apply hk.comp_continuousOn
    apply ContinuousOn.mul continuousOn_const
    apply Real.continuousOn_log.mono
    intro x hx
    exact (ha.trans_le hx.1).ne'
  rw [integral_div_eq_integral_comp_exp n a b ha hab hcont]
  simp_rw [hn]
  rw [intervalIntegral.integral_const_mul, intervalIntegral.integral_comp_mul_left (fun s => k s) hc, smul_eq_mul]
  field_simp

/-- DA: `∫ₐᵇ n(x)/x dx = n_m/c · ∫_{c ln a}^{c ln b} exp(-(-s)^m) ds`, `c = RT/e` -/
theorem da_spread_logscale (nm e m mrt a b : ℝ) (hm : 0 ≤ m) (hc : -mrt / e ≠ 0) (ha : 0 < a) (hab : a ≤ b) :
    ∫ x in a..b, DA_loading nm e m mrt x / x
      = nm / (-mrt / e) * ∫ s in -mrt / e * Real.log a..-mrt / e * Real.log b, daKernel m s :=
  spread_logscale_of_comp_exp (daKernel_continuous hm) (da_loading_comp_exp nm e m mrt) hc ha hab

/-- DR: the same with `m = 2` -/
theorem dr_spread_logscale (nm e mrt a b : ℝ) (hc : -mrt / e ≠ 0) (ha : 0 < a) (hab : a ≤ b) :
    ∫ x in a..b, DR_loading nm e mrt x / x
      = nm / (-mrt / e) * ∫ s in -mrt / e * Real.log a..-mrt / e * Real.log b, daKernel 2 s :=
  spread_logscale_of_comp_exp (daKernel_continuous (by norm_num)) (dr_loading_comp_exp nm e mrt) hc ha hab

/-- non-vacuity: `RT = 1000`, `e = 4000` (`c = 1/4`), `m = 3`, between `p = 1/2` and `p = 1` -/
example : ∫ x in (1/2:ℝ)..1, DA_loading 10 4000 3 (-1000) x / x
    = 10 / (-(-1000) / 4000) * ∫ s in -(-1000) / 4000 * Real.log (1/2)..-(-1000) / 4000 * Real.log 1, daKernel 3 s :=
  da_spread_logscale 10 4000 3 (-1000) (1/2) 1 (by norm_num) (by norm_num) (by norm_num) (by norm_num)

/-! ### the improper integral exists and is the integral from the origin -/

/-- for `m ≥ 1` and `s ≤ 0` the integrand is at most `e¹⁺ˢ` (`t^m ≥ t - 1` for `t ≥ 0`) -/
theorem daKernel_le {m s : ℝ} (hm : 1 ≤ m) (hs : s ≤ 0) : daKernel m s ≤ Real.exp (1 + s) := by
  unfold daKernel
  apply Real.exp_le_exp.mpr
  have ht : 0 ≤ -s := by linarith
  have key : -s - 1 ≤ (-s) ^ m := by
    by_cases h1 : 1 ≤ -s
    · have := Real.rpow_le_rpow_of_exponent_le h1 hm
      rw [Real.rpow_one] at this
      linarith
    · have := Real.rpow_nonneg ht m
      linarith
  linarith

/-- … hence integrable on every `(-∞, b]`, `b ≤ 0` -/
theorem daKernel_integrableOn {m b : ℝ} (hm : 1 ≤ m) (hb : b ≤ 0) : IntegrableOn (daKernel m) (Set.Iic b) := by
  have hbound : IntegrableOn (fun s => Real.exp 1 * Real.exp s) (Set.Iic b) := (integrableOn_exp_Iic b).const_mul _
  refine Integrable.mono' hbound ((daKernel_continuous (by linarith)).aestronglyMeasurable.restrict) ?_
  refine (ae_restrict_iff' measurableSet_Iic).mpr (Eventually.of_forall fun s hs => ?_)
  rw [Real.norm_of_nonneg (daKernel_pos m s).le, ← Real.exp_add]
  exact daKernel_le hm (le_trans hs hb)

/-- the increments from `a → 0⁺` converge to the improper integral over the scaled logarithm -/
lemma spread_from_origin_of_logscale {n k : ℝ → ℝ} {nm c p : ℝ} (hc : 0 < c) (hp : 0 < p)
    (hint : IntegrableOn k (Set.Iic (c * Real.log p)))
    (hinc : ∀ a, 0 < a → a ≤ p → ∫ x in a..p, n x / x = nm / c * ∫ s in c * Real.log a..c * Real.log p, k s) :
    Tendsto (fun a => ∫ x in a..p, n x / x) (𝓝[>] 0) (𝓝 (nm / c * ∫ s in Set.Iic (c * Real.log p), k s)) := by
  have hlim : Tendsto (fun a => c * Real.log a) (𝓝[>] 0) atBot :=
    Real.tendsto_log_nhdsGT_zero.const_mul_atBot hc
  have h1 := (intervalIntegral_tendsto_integral_Iic (c * Real.log p) hint hlim).const_mul (nm / c)
  refine h1.congr' ?_
  filter_upwards [Ioc_mem_nhdsGT hp] with a ha
  exact (hinc a ha.1 ha.2).symm

/-- DA (`m ≥ 1`, `c = RT/e > 0`, relative pressure `0 < p ≤ 1`): the quantity the repaired code computes is the integral of `n(x)/x`
from the origin -/
theorem da_spread_from_origin (nm e m mrt p : ℝ) (hm : 1 ≤ m) (hc : 0 < -mrt / e) (hp : 0 < p) (hp1 : p ≤ 1) :
    Tendsto (fun a => ∫ x in a..p, DA_loading nm e m mrt x / x) (𝓝[>] 0)
      (𝓝 (nm / (-mrt / e) * ∫ s in Set.Iic (-mrt / e * Real.log p), daKernel m s)) := by
  apply spread_from_origin_of_logscale hc hp
  · apply daKernel_integrableOn hm
    exact mul_nonpos_of_nonneg_of_nonpos hc.le (Real.log_nonpos hp.le hp1)
  · intro a ha hap
    exact da_spread_logscale nm e m mrt a p (by linarith) hc.ne' ha hap

/-- DR: the same with `m = 2` -/
theorem dr_spread_from_origin (nm e mrt p : ℝ) (hc : 0 < -mrt / e) (hp : 0 < p) (hp1 : p ≤ 1) :
    Tendsto (fun a => ∫ x in a..p, DR_loading nm e mrt x / x) (𝓝[>] 0)
      (𝓝 (nm / (-mrt / e) * ∫ s in Set.Iic (-mrt / e * Real.log p), daKernel 2 s)) := by
  apply spread_from_origin_of_logscale hc hp
  · apply daKernel_integrableOn (by norm_num)
    exact mul_nonpos_of_nonneg_of_nonpos hc.le (Real.log_nonpos hp.le hp1)
  · intro a ha hap
    exact dr_spread_logscale nm e mrt a p hc.ne' ha hap

/-- non-vacuity of the hypotheses: N2 at 77.355 K in round numbers, `RT = 643`, `e = 22000` (`c ≈ 0.029`: the region of finding S49-C11a), `m = 3`, `p = 1/2` -/
example : Tendsto (fun a => ∫ x in a..(1/2:ℝ), DA_loading 10 22000 3 (-643) x / x) (𝓝[>] 0)
    (𝓝 (10 / (-(-643) / 22000) * ∫ s in Set.Iic (-(-643) / 22000 * Real.log (1/2)), daKernel 3 s)) :=
  da_spread_from_origin 10 22000 3 (-643) (1/2) (by norm_num) (by norm_num) (by norm_num) (by norm_num)

/-- the value is non-negative (`n_m ≥ 0`) -/
theorem da_spread_from_origin_nonneg (nm c m b : ℝ) (hnm : 0 ≤ nm) (hc : 0 < c) :
    0 ≤ nm / c * ∫ s in Set.Iic b, daKernel m s :=
  mul_nonneg (div_nonneg hnm hc.le) (setIntegral_nonneg measurableSet_Iic fun s _ => (daKernel_pos m s).le)

/-- … and non-decreasing in the pressure: a larger upper limit `c·ln p` adds the integral of a positive function -/
theorem da_spread_from_origin_mono (nm c m b₁ b₂ : ℝ) (hnm : 0 ≤ nm) (hc : 0 < c) (hm : 1 ≤ m) (hb : b₁ ≤ b₂) (hb2 : b₂ ≤ 0) :
    nm / c * ∫ s in Set.Iic b₁, daKernel m s ≤ nm / c * ∫ s in Set.Iic b₂, daKernel m s := by
  apply mul_le_mul_of_nonneg_left _ (div_nonneg hnm hc.le)
  apply setIntegral_mono_set (daKernel_integrableOn hm hb2)
  · exact Eventually.of_forall fun s => (daKernel_pos m s).le
  · exact (Set.Iic_subset_Iic.mpr hb).eventuallyLE

end PgVerif.C11
