/-
C11 for point isotherms: the value computed by `PointIsotherm.spreading_pressure_at` (model
`PgVerif.Model.spreadPoint`, instantiated at ℝ with real logarithms `realLogs`, `lastLog`) is the integral from 0
to p of q(x)/x, where q = `qInterp` is the piecewise-linear interpolant of the data continued to the origin by
Henry's law.  Setting everywhere: `ps ≠ []`, `0 < ps.head`, `ps.length = ls.length`, strictly increasing pressures
`ps.Pairwise (· < ·)`; `lq` is the code's own linear interpolation `interpLin ps ls p = some lq` (needed only when
`p` is above the first knot; it implies `p ≤ ps.getLast`, see `interpLin_spec`).
  Stage 1  `seg_eq_integral`, `henry_segment`, `henry_segment_full`, `nBelow_of_sorted`, `spreadPoint_below_first`,
           `spreadPoint_eq_sum`
  Stage 2  `spreadPoint_eq_integral`   (arbitrary list length)
  Stage 3  `spreadFun` (the code as a function of p alone), `spreadPoint_eq_spreadFun`, `spreadFun_eq_integral`,
           `spreadPoint_zero`, `spreadPoint_tendsto_zero`, `spreadPoint_additive`, `spreadPoint_mono`,
           `spreadPoint_hasDerivAt`, `spreadPoint_deriv` (p not a knot, 0 < p < ps.getLast)
`q x / x` at `x = 0` is the totalised `0/0 = 0`; a single point does not affect the integrals, and every statement
that divides by a pressure carries the guard `0 < ps.head` (all knots positive).
-/
import Mathlib.Analysis.SpecialFunctions.Integrals.Basic
import Mathlib.Analysis.SpecialFunctions.Log.Deriv
import Mathlib.Tactic
import PgVerif.Model.SpreadPoint

namespace PgVerif.C11
open PgVerif.Model MeasureTheory

noncomputable section

/-! ### definitions -/

/-- the chord through `(a, la)` and `(b, lb)` -/
def chord (a la b lb x : ℝ) : ℝ := la + (lb - la) / (b - a) * (x - a)

/-- the logarithm inputs of `spreadPoint`, real logs: `logs[i] = ln(ps[i+1]/ps[i])` -/
def realLogs (ps : List ℝ) : List ℝ := List.zipWith (fun a b => Real.log (b / a)) ps ps.tail

/-- `lgLast = ln(p / ps[k-1])`, `k = nBelow ps p` -/
def lastLog (ps : List ℝ) (p : ℝ) : ℝ := Real.log (p / ps.getD (nBelow ps p - 1) 0)

/-- Henry-continued piecewise-linear interpolant: `ls[0]/ps[0]*x` up to the first knot, after that the chord
through the two knots around `x` (`j = #{knots < x} - 1`, so `ps[j] < x ≤ ps[j+1]` for sorted knots). -/
def qInterp (ps ls : List ℝ) (x : ℝ) : ℝ :=
  if x ≤ ps.getD 0 0 then ls.getD 0 0 / ps.getD 0 0 * x
  else chord (ps.getD (nBelow ps x - 1) 0) (ls.getD (nBelow ps x - 1) 0)
      (ps.getD (nBelow ps x - 1 + 1) 0) (ls.getD (nBelow ps x - 1 + 1) 0) x

/-! ### analytic helpers -/

lemma seg_integral (s c a b : ℝ) (ha : 0 < a) (hab : a ≤ b) :
    ∫ x in a..b, (s * x + c) / x = s * (b - a) + c * Real.log (b / a) := by
  have hderiv : ∀ x ∈ Set.uIcc a b, HasDerivAt (fun x => s * x + c * Real.log x) ((s * x + c) / x) x := by
    intro x hx
    rw [Set.uIcc_of_le hab] at hx
    have hx0 : 0 < x := lt_of_lt_of_le ha hx.1
    have h1 : HasDerivAt (fun x => s * x) s x := by simpa using (hasDerivAt_id x).const_mul s
    have h2 : HasDerivAt (fun x => c * Real.log x) (c * x⁻¹) x := (Real.hasDerivAt_log hx0.ne').const_mul c
    have h3 := h1.add h2
    have e : (s * x + c) / x = s + c * x⁻¹ := by field_simp
    rw [e]; exact h3
  have hint : IntervalIntegrable (fun x => (s * x + c) / x) volume a b := by
    apply ContinuousOn.intervalIntegrable
    rw [Set.uIcc_of_le hab]
    apply ContinuousOn.div (by fun_prop) continuousOn_id
    intro x hx; exact (lt_of_lt_of_le ha hx.1).ne'
  rw [intervalIntegral.integral_eq_sub_of_hasDerivAt hderiv hint]
  rw [Real.log_div (lt_of_lt_of_le ha hab).ne' ha.ne']
  ring

lemma chord_div_intervalIntegrable (a la b lb s t : ℝ) (hs : 0 < s) (hst : s ≤ t) :
    IntervalIntegrable (fun x => chord a la b lb x / x) volume s t := by
  apply ContinuousOn.intervalIntegrable
  rw [Set.uIcc_of_le hst]
  unfold chord
  apply ContinuousOn.div (by fun_prop) continuousOn_id
  intro x hx; exact (lt_of_lt_of_le hs hx.1).ne'

/-- a function that agrees with an integrable one on `(a, b]` -/
lemma piece_congr {f g : ℝ → ℝ} {a b : ℝ} (hab : a ≤ b) (heq : ∀ x, a < x → x ≤ b → f x = g x)
    (hg : IntervalIntegrable g volume a b) :
    IntervalIntegrable f volume a b ∧ ∫ x in a..b, f x = ∫ x in a..b, g x := by
  have hE : Set.EqOn g f (Set.uIoc a b) := by
    intro x hx
    rw [Set.uIoc_of_le hab] at hx
    exact (heq x hx.1 hx.2).symm
  refine ⟨hg.congr hE, ?_⟩
  apply intervalIntegral.integral_congr_ae
  refine Filter.Eventually.of_forall ?_
  intro x hx
  exact (hE hx).symm


/-! ### list helpers -/

lemma gd_eq {ps : List ℝ} {i : ℕ} (hi : i < ps.length) : ps.getD i 0 = ps[i] := by
  simp [List.getD_eq_getElem?_getD, hi]

lemma gd_mem {ps : List ℝ} {i : ℕ} (hi : i < ps.length) : ps.getD i 0 ∈ ps := by
  rw [gd_eq hi]; exact List.getElem_mem hi

lemma gd_lt {ps : List ℝ} (hs : ps.Pairwise (· < ·)) {i j : ℕ} (hij : i < j) (hj : j < ps.length) :
    ps.getD i 0 < ps.getD j 0 := by
  rw [gd_eq hj, gd_eq (hij.trans hj)]
  exact List.pairwise_iff_getElem.mp hs i j (hij.trans hj) hj hij

lemma gd_le {ps : List ℝ} (hs : ps.Pairwise (· < ·)) {i j : ℕ} (hij : i ≤ j) (hj : j < ps.length) :
    ps.getD i 0 ≤ ps.getD j 0 := by
  rcases hij.lt_or_eq with h | h
  · exact (gd_lt hs h hj).le
  · rw [h]

lemma gd_pos {ps : List ℝ} (hs : ps.Pairwise (· < ·)) (h0 : 0 < ps.getD 0 0) {i : ℕ} (hi : i < ps.length) :
    0 < ps.getD i 0 :=
  lt_of_lt_of_le h0 (gd_le hs (Nat.zero_le i) hi)

lemma nBelow_le_length (ps : List ℝ) (p : ℝ) : nBelow ps p ≤ ps.length :=
  List.length_filter_le _ _

lemma nBelow_cons_lt {a p : ℝ} (t : List ℝ) (h : a < p) : nBelow (a :: t) p = nBelow t p + 1 := by
  simp [nBelow, h]

lemma nBelow_cons_not_lt {a p : ℝ} (t : List ℝ) (h : ¬ a < p) : nBelow (a :: t) p = nBelow t p := by
  simp [nBelow, h]

lemma nBelow_eq_zero {ps : List ℝ} {p : ℝ} (h : ∀ x ∈ ps, p ≤ x) : nBelow ps p = 0 := by
  simp only [nBelow, List.length_eq_zero_iff, List.filter_eq_nil_iff, decide_eq_true_eq, not_lt]
  exact h

lemma nBelow_eq_zero_of_le_head {a p : ℝ} {t : List ℝ} (hs : (a :: t).Pairwise (· < ·)) (h : p ≤ a) :
    nBelow (a :: t) p = 0 := by
  apply nBelow_eq_zero
  intro x hx
  rcases List.mem_cons.mp hx with rfl | hx
  · exact h
  · exact h.trans ((List.pairwise_cons.mp hs).1 x hx).le

lemma foldl_range_add (f : ℕ → ℝ) (l0 : ℝ) (n : ℕ) :
    (List.range n).foldl (fun area i => area + f i) l0 = l0 + ∑ i ∈ Finset.range n, f i := by
  induction n with
  | zero => simp
  | succ n ih => rw [List.range_succ, List.foldl_append, ih, Finset.sum_range_succ]; simp [add_assoc]

lemma realLogs_getD (ps : List ℝ) {i : ℕ} (hi : i + 1 < ps.length) :
    (realLogs ps).getD i 0 = Real.log (ps.getD (i + 1) 0 / ps.getD i 0) := by
  have hlen : i < (realLogs ps).length := by
    simp only [realLogs, List.length_zipWith, List.length_tail]; omega
  rw [gd_eq hlen, gd_eq hi, gd_eq (Nat.lt_of_succ_lt hi)]
  simp [realLogs]

/-- for strictly increasing knots, `nBelow` is the length of the prefix of knots below `p`:
if `ps[j] < p` and (`p ≤ ps[j+1]` or `j` is the last index) then `nBelow ps p = j + 1` -/
theorem nBelow_of_sorted {ps : List ℝ} (hs : ps.Pairwise (· < ·)) {p : ℝ} {j : ℕ} (hj : j < ps.length)
    (hlo : ps.getD j 0 < p) (hhi : j + 1 < ps.length → p ≤ ps.getD (j + 1) 0) :
    nBelow ps p = j + 1 := by
  induction ps generalizing j with
  | nil => simp at hj
  | cons a t ih =>
    have hst := (List.pairwise_cons.mp hs).2
    cases j with
    | zero =>
      have ha : a < p := by simpa using hlo
      rw [nBelow_cons_lt t ha]
      cases t with
      | nil => simp [nBelow]
      | cons b t' =>
        have hb : p ≤ b := by simpa using hhi (by simp)
        rw [nBelow_eq_zero_of_le_head hst hb]
    | succ j' =>
      have hj' : j' < t.length := by simpa using hj
      have hlo' : t.getD j' 0 < p := by simpa using hlo
      have ha : a < p := lt_trans ((List.pairwise_cons.mp hs).1 _ (gd_mem hj')) hlo'
      rw [nBelow_cons_lt t ha, ih hst hj' hlo']
      intro h
      simpa using hhi (by simpa using h)

/-- sorted knots with index below the count are below `p` -/
lemma gd_lt_of_lt_nBelow {ps : List ℝ} (hs : ps.Pairwise (· < ·)) {p : ℝ} {i : ℕ} (hi : i < nBelow ps p) :
    ps.getD i 0 < p := by
  induction ps generalizing i with
  | nil => simp [nBelow] at hi
  | cons a t ih =>
    by_cases ha : a < p
    · cases i with
      | zero => simpa using ha
      | succ i' =>
        rw [nBelow_cons_lt t ha] at hi
        simpa using ih (List.pairwise_cons.mp hs).2 (Nat.lt_of_succ_lt_succ hi)
    · rw [nBelow_eq_zero_of_le_head hs (not_lt.mp ha)] at hi
      omega

/-- sorted knots with index at or above the count are at or above `p` -/
lemma le_gd_of_nBelow_le {ps : List ℝ} (hs : ps.Pairwise (· < ·)) {p : ℝ} {i : ℕ} (hk : nBelow ps p ≤ i)
    (hi : i < ps.length) : p ≤ ps.getD i 0 := by
  induction ps generalizing i with
  | nil => simp at hi
  | cons a t ih =>
    by_cases ha : a < p
    · rw [nBelow_cons_lt t ha] at hk
      cases i with
      | zero => omega
      | succ i' =>
        have := ih (List.pairwise_cons.mp hs).2 (Nat.le_of_succ_le_succ hk) (by simpa using hi)
        simpa using this
    · exact (not_lt.mp ha).trans (by simpa using gd_le hs (Nat.zero_le i) hi)

/-! ### the interpolant `qInterp` on its pieces -/

lemma head_eq_gd {ps : List ℝ} (hne : ps ≠ []) : ps.head hne = ps.getD 0 0 := by
  cases ps with
  | nil => exact absurd rfl hne
  | cons a t => simp

lemma qInterp_below (ps ls : List ℝ) {x : ℝ} (hx : x ≤ ps.getD 0 0) :
    qInterp ps ls x = ls.getD 0 0 / ps.getD 0 0 * x := if_pos hx

lemma qInterp_segment_Ioc {ps : List ℝ} (ls : List ℝ) (hs : ps.Pairwise (· < ·)) {i : ℕ} (hi : i + 1 < ps.length)
    {x : ℝ} (hlo : ps.getD i 0 < x) (hhi : x ≤ ps.getD (i + 1) 0) :
    qInterp ps ls x = chord (ps.getD i 0) (ls.getD i 0) (ps.getD (i + 1) 0) (ls.getD (i + 1) 0) x := by
  have h0 : ¬ x ≤ ps.getD 0 0 :=
    not_le.mpr (lt_of_le_of_lt (gd_le hs (Nat.zero_le i) (Nat.lt_of_succ_lt hi)) hlo)
  have hk : nBelow ps x = i + 1 := nBelow_of_sorted hs (Nat.lt_of_succ_lt hi) hlo (fun _ => hhi)
  unfold qInterp
  rw [if_neg h0, hk, Nat.add_sub_cancel]

lemma chord_left (a la b lb : ℝ) : chord a la b lb a = la := by simp [chord]

lemma chord_right {a b : ℝ} (la lb : ℝ) (hab : a ≠ b) : chord a la b lb b = lb := by
  have : b - a ≠ 0 := sub_ne_zero.mpr hab.symm
  unfold chord; field_simp; ring

/-- `q` is the chord through the neighbouring knots on every closed segment `[ps[i], ps[i+1]]`
(so `q ps[i] = ls[i]` at every knot) -/
lemma qInterp_segment_Icc {ps : List ℝ} (ls : List ℝ) (hs : ps.Pairwise (· < ·)) (h0 : 0 < ps.getD 0 0) {i : ℕ}
    (hi : i + 1 < ps.length) {x : ℝ} (hlo : ps.getD i 0 ≤ x) (hhi : x ≤ ps.getD (i + 1) 0) :
    qInterp ps ls x = chord (ps.getD i 0) (ls.getD i 0) (ps.getD (i + 1) 0) (ls.getD (i + 1) 0) x := by
  rcases hlo.lt_or_eq with h | h
  · exact qInterp_segment_Ioc ls hs hi h hhi
  · rw [← h, chord_left]
    cases i with
    | zero => rw [qInterp_below ps ls le_rfl]; field_simp
    | succ i' =>
      have hlt := gd_lt hs (Nat.lt_succ_self i') (Nat.lt_of_succ_lt hi)
      rw [qInterp_segment_Ioc ls hs (Nat.lt_of_succ_lt hi) hlt le_rfl, chord_right _ _ hlt.ne]

/-- integral of `q/x` from a knot `ps[i]` to a point `t` of the segment `(ps[i], ps[i+1]]` -/
lemma qInterp_piece {ps : List ℝ} (ls : List ℝ) (hs : ps.Pairwise (· < ·)) (h0 : 0 < ps.getD 0 0) {i : ℕ}
    (hi : i + 1 < ps.length) {t : ℝ} (hlo : ps.getD i 0 ≤ t) (hhi : t ≤ ps.getD (i + 1) 0) :
    IntervalIntegrable (fun x => qInterp ps ls x / x) volume (ps.getD i 0) t ∧
    ∫ x in ps.getD i 0..t, qInterp ps ls x / x =
      ∫ x in ps.getD i 0..t, chord (ps.getD i 0) (ls.getD i 0) (ps.getD (i + 1) 0) (ls.getD (i + 1) 0) x / x := by
  apply piece_congr hlo
  · intro x hx1 hx2
    rw [qInterp_segment_Ioc ls hs hi hx1 (hx2.trans hhi)]
  · exact chord_div_intervalIntegrable _ _ _ _ _ _ (gd_pos hs h0 (Nat.lt_of_succ_lt hi)) hlo

/-- integral of `q/x` over the Henry part -/
lemma qInterp_henry_piece (ps ls : List ℝ) {t : ℝ} (ht0 : 0 ≤ t) (ht : t ≤ ps.getD 0 0) :
    IntervalIntegrable (fun x => qInterp ps ls x / x) volume 0 t ∧
    ∫ x in (0:ℝ)..t, qInterp ps ls x / x = ls.getD 0 0 / ps.getD 0 0 * t := by
  have h := piece_congr (f := fun x => qInterp ps ls x / x) (g := fun _ => ls.getD 0 0 / ps.getD 0 0) ht0
    (by
      intro x hx hxt
      have := hx.ne'
      simp only [qInterp_below ps ls (hxt.trans ht)]
      field_simp) intervalIntegrable_const
  refine ⟨h.1, ?_⟩
  rw [h.2, intervalIntegral.integral_const]
  simp [mul_comm]

/-! ### Stage 1 -/

/-- one segment of the code's sum is the integral of chord/x over that segment -/
theorem seg_eq_integral (a la b lb : ℝ) (ha : 0 < a) (hab : a < b) :
    seg a la b lb (Real.log (b / a)) = ∫ x in a..b, chord a la b lb x / x := by
  have e : ∀ x, chord a la b lb x / x = ((lb - la) / (b - a) * x + (la - (lb - la) / (b - a) * a)) / x := by
    intro x; unfold chord; ring
  simp only [e]
  rw [seg_integral _ _ a b ha hab.le]
  unfold seg
  ring

/-- the Henry part: `∫₀ᵖ (l0/p0·x)/x dx = l0/p0·p` (the integrand is `l0/p0` except at `x = 0`) -/
theorem henry_segment (l0 p0 p : ℝ) (_hp0 : 0 < p0) (hp : 0 ≤ p) :
    l0 / p0 * p = ∫ x in (0:ℝ)..p, (l0 / p0 * x) / x := by
  have h := piece_congr (f := fun x => (l0 / p0 * x) / x) (g := fun _ => l0 / p0) hp
    (by intro x hx _; have := hx.ne'; field_simp) intervalIntegrable_const
  rw [h.2, intervalIntegral.integral_const]
  simp [mul_comm]

/-- first Henry segment in full: `∫₀^{p0} (l0/p0·x)/x dx = l0` -/
theorem henry_segment_full (l0 p0 : ℝ) (hp0 : 0 < p0) :
    l0 = ∫ x in (0:ℝ)..p0, (l0 / p0 * x) / x := by
  rw [← henry_segment l0 p0 p0 hp0 hp0.le]
  field_simp

/-- below the first knot the code returns the Henry value, which is the integral of `q/x` -/
theorem spreadPoint_below_first (ps ls logs : List ℝ) (p lq lgLast : ℝ) (hne : ps ≠ [])
    (_hpos : 0 < ps.head hne) (hlen : ps.length = ls.length) (hs : ps.Pairwise (· < ·)) (hp0 : 0 ≤ p) (hp : p ≤ ps.head hne) :
    spreadPoint ps ls logs p lq lgLast = some (∫ x in (0:ℝ)..p, qInterp ps ls x / x) ∧
    spreadPoint ps ls logs p lq lgLast = some (ls.getD 0 0 / ps.head hne * p) := by
  rw [head_eq_gd hne] at hp ⊢
  rw [(qInterp_henry_piece ps ls hp0 hp).2]
  refine ⟨?_, ?_⟩ <;>
  · cases ps with
    | nil => exact absurd rfl hne
    | cons a t =>
      cases ls with
      | nil => simp at hlen
      | cons l0 lt =>
        have hk : nBelow (a :: t) p = 0 := nBelow_eq_zero_of_le_head hs (by simpa using hp)
        simp [spreadPoint, hk]

/-- above the first knot the code's value is `ls[0]` plus the integrals of chord/x over the full segments below
`p` plus the integral over the last partial segment, whose chord goes to `(p, lq)` -/
theorem spreadPoint_eq_sum (ps ls : List ℝ) (p lq : ℝ) (hne : ps ≠ []) (hpos : 0 < ps.head hne)
    (hlen : ps.length = ls.length) (hs : ps.Pairwise (· < ·)) (hp : ps.head hne < p) :
    spreadPoint ps ls (realLogs ps) p lq (lastLog ps p) =
      some (ls.getD 0 0
        + (∑ i ∈ Finset.range (nBelow ps p - 1), ∫ x in ps.getD i 0..ps.getD (i + 1) 0,
            chord (ps.getD i 0) (ls.getD i 0) (ps.getD (i + 1) 0) (ls.getD (i + 1) 0) x / x)
        + ∫ x in ps.getD (nBelow ps p - 1) 0..p,
            chord (ps.getD (nBelow ps p - 1) 0) (ls.getD (nBelow ps p - 1) 0) p lq x / x) := by
  rw [head_eq_gd hne] at hp hpos
  have hkpos : nBelow ps p ≠ 0 := by
    cases ps with
    | nil => exact absurd rfl hne
    | cons a t => rw [nBelow_cons_lt t (by simpa using hp)]; omega
  have hkle := nBelow_le_length ps p
  have hlast : ps.getD (nBelow ps p - 1) 0 < p := gd_lt_of_lt_nBelow hs (by omega)
  have hlastpos : 0 < ps.getD (nBelow ps p - 1) 0 := gd_pos hs hpos (by omega)
  have hsum : ∀ i ∈ Finset.range (nBelow ps p - 1),
      seg (ps.getD i 0) (ls.getD i 0) (ps.getD (i + 1) 0) (ls.getD (i + 1) 0) ((realLogs ps).getD i 0) =
      ∫ x in ps.getD i 0..ps.getD (i + 1) 0,
        chord (ps.getD i 0) (ls.getD i 0) (ps.getD (i + 1) 0) (ls.getD (i + 1) 0) x / x := by
    intro i hi
    have hi' : i + 1 < ps.length := by have := Finset.mem_range.mp hi; omega
    rw [realLogs_getD ps hi']
    exact seg_eq_integral _ _ _ _ (gd_pos hs hpos (Nat.lt_of_succ_lt hi')) (gd_lt hs (Nat.lt_succ_self i) hi')
  rw [← Finset.sum_congr rfl hsum, ← seg_eq_integral _ _ _ _ hlastpos hlast]
  cases ps with
  | nil => exact absurd rfl hne
  | cons a t =>
    cases ls with
    | nil => simp at hlen
    | cons l0 lt =>
      simp only [spreadPoint, if_neg hkpos, spreadBody, foldl_range_add, lastLog, List.getD_cons_zero]

/-! ### Stage 2 -/

lemma nBelow_ne_zero {ps : List ℝ} (h0 : 0 < ps.getD 0 0) {p : ℝ} (hp : ps.getD 0 0 < p) : nBelow ps p ≠ 0 := by
  cases ps with
  | nil => simp at h0
  | cons a t => rw [nBelow_cons_lt t (by simpa using hp)]; omega

/-- the integral of `q/x` from 0 to `p` (`p` above the first knot and not above the last) split into the Henry part,
the full segments and the last partial segment -/
lemma qInterp_integral_aux {ps : List ℝ} (ls : List ℝ) (hs : ps.Pairwise (· < ·)) (h0 : 0 < ps.getD 0 0) {p : ℝ}
    (hp : ps.getD 0 0 < p) (hk : nBelow ps p < ps.length) :
    IntervalIntegrable (fun x => qInterp ps ls x / x) volume 0 p ∧
    ∫ x in (0:ℝ)..p, qInterp ps ls x / x =
      ls.getD 0 0
        + (∑ i ∈ Finset.range (nBelow ps p - 1), ∫ x in ps.getD i 0..ps.getD (i + 1) 0,
            chord (ps.getD i 0) (ls.getD i 0) (ps.getD (i + 1) 0) (ls.getD (i + 1) 0) x / x)
        + ∫ x in ps.getD (nBelow ps p - 1) 0..p,
            chord (ps.getD (nBelow ps p - 1) 0) (ls.getD (nBelow ps p - 1) 0)
              (ps.getD (nBelow ps p - 1 + 1) 0) (ls.getD (nBelow ps p - 1 + 1) 0) x / x := by
  obtain ⟨j, hj⟩ : ∃ j, nBelow ps p = j + 1 := Nat.exists_eq_succ_of_ne_zero (nBelow_ne_zero h0 hp)
  have hlast : ps.getD j 0 < p := gd_lt_of_lt_nBelow hs (by omega)
  have hple : p ≤ ps.getD (j + 1) 0 := le_gd_of_nBelow_le hs (by omega) (by omega)
  rw [hj, Nat.add_sub_cancel]
  have H := qInterp_henry_piece ps ls h0.le le_rfl
  have P : ∀ i < j, IntervalIntegrable (fun x => qInterp ps ls x / x) volume (ps.getD i 0) (ps.getD (i + 1) 0) ∧
      ∫ x in ps.getD i 0..ps.getD (i + 1) 0, qInterp ps ls x / x =
      ∫ x in ps.getD i 0..ps.getD (i + 1) 0,
        chord (ps.getD i 0) (ls.getD i 0) (ps.getD (i + 1) 0) (ls.getD (i + 1) 0) x / x :=
    fun i hi => qInterp_piece ls hs h0 (by omega) (gd_le hs (Nat.le_succ i) (by omega)) le_rfl
  have M := intervalIntegral.sum_integral_adjacent_intervals (μ := volume) (a := fun i => ps.getD i 0)
    (f := fun x => qInterp ps ls x / x) (n := j) (fun i hi => (P i hi).1)
  have Mi := IntervalIntegrable.trans_iterate (μ := volume) (a := fun i => ps.getD i 0)
    (f := fun x => qInterp ps ls x / x) (n := j) (fun i hi => (P i hi).1)
  have L := qInterp_piece ls hs h0 (i := j) (by omega) hlast.le hple
  refine ⟨H.1.trans (Mi.trans L.1), ?_⟩
  rw [← intervalIntegral.integral_add_adjacent_intervals H.1 (Mi.trans L.1),
    ← intervalIntegral.integral_add_adjacent_intervals Mi L.1, H.2, ← M, L.2,
    Finset.sum_congr rfl (fun i hi => (P i (Finset.mem_range.mp hi)).2)]
  have : ls.getD 0 0 / ps.getD 0 0 * ps.getD 0 0 = ls.getD 0 0 := by field_simp
  rw [this]
  ring

/-- dropping a leading knot that is below `x` (with the next knot also below `x`) does not change `q x` -/
lemma qInterp_cons_of_lt {a la b lb x : ℝ} (t lt : List ℝ) (ha : a < x) (hb : b < x) :
    qInterp (a :: b :: t) (la :: lb :: lt) x = qInterp (b :: t) (lb :: lt) x := by
  obtain ⟨m, hm⟩ : ∃ m, nBelow (b :: t) x = m + 1 :=
    Nat.exists_eq_succ_of_ne_zero (by rw [nBelow_cons_lt t hb]; omega)
  unfold qInterp
  rw [if_neg (by simpa using ha), if_neg (by simpa using hb), nBelow_cons_lt _ ha, hm]
  simp only [Nat.add_sub_cancel, List.getD_cons_succ]

/-- the code's linear interpolation (`interp1d`) agrees with `q` above the first knot, and it only succeeds
inside the data range -/
lemma interpLin_spec {ps ls : List ℝ} (hs : ps.Pairwise (· < ·)) {p lq : ℝ} (h : interpLin ps ls p = some lq)
    (hp : ps.getD 0 0 < p) : nBelow ps p < ps.length ∧ lq = qInterp ps ls p := by
  induction ps generalizing ls with
  | nil => simp [interpLin] at h
  | cons a t ih =>
    have ha : a < p := by simpa using hp
    cases t with
    | nil =>
      cases ls with
      | nil => simp [interpLin] at h
      | cons la lt =>
        cases lt with
        | nil => simp [interpLin, ha.ne'] at h
        | cons lb lt' => simp [interpLin] at h
    | cons b t' =>
      cases ls with
      | nil => simp [interpLin] at h
      | cons la lt =>
        cases lt with
        | nil => simp [interpLin] at h
        | cons lb lt' =>
          have hst := (List.pairwise_cons.mp hs).2
          rw [interpLin, if_neg (not_lt.mpr ha.le)] at h
          by_cases hb : p ≤ b
          · rw [if_pos hb] at h
            have hk : nBelow (a :: b :: t') p = 1 := by
              rw [nBelow_cons_lt _ ha, nBelow_eq_zero_of_le_head hst hb]
            refine ⟨by rw [hk]; simp, ?_⟩
            unfold qInterp
            rw [if_neg (by simpa using ha), hk]
            simp only [Nat.sub_self, List.getD_cons_zero, List.getD_cons_succ, chord]
            exact (Option.some.inj h).symm
          · rw [if_neg hb] at h
            have hb' : b < p := not_le.mp hb
            have := ih hst h (by simpa using hb')
            rw [nBelow_cons_lt _ ha, qInterp_cons_of_lt t' lt' ha hb']
            exact ⟨by simpa using this.1, this.2⟩

/-- **C11, point isotherms.**  For strictly increasing positive pressures, `0 ≤ p`, and `lq` the code's linear
interpolation at `p` when `p` is above the first knot, the value computed by `spreading_pressure_at` is
`∫₀ᵖ q(x)/x dx`, `q` the Henry-continued piecewise-linear interpolant.  (`p ≤ ps.getLast` is not listed: it is
implied by `interpLin ps ls p = some lq`, see `interpLin_spec`.) -/
theorem spreadPoint_eq_integral (ps ls : List ℝ) (p lq : ℝ) (hne : ps ≠ []) (hpos : 0 < ps.head hne)
    (hlen : ps.length = ls.length) (hs : ps.Pairwise (· < ·)) (hp0 : 0 ≤ p)
    (hlq : ps.head hne < p → interpLin ps ls p = some lq) :
    spreadPoint ps ls (realLogs ps) p lq (lastLog ps p) = some (∫ x in (0:ℝ)..p, qInterp ps ls x / x) := by
  by_cases hp : p ≤ ps.head hne
  · exact (spreadPoint_below_first ps ls _ p lq _ hne hpos hlen hs hp0 hp).1
  · have hp' : ps.head hne < p := not_le.mp hp
    have hI := interpLin_spec hs (hlq hp') (by rw [← head_eq_gd hne]; exact hp')
    rw [spreadPoint_eq_sum ps ls p lq hne hpos hlen hs hp']
    rw [head_eq_gd hne] at hp' hpos
    rw [(qInterp_integral_aux ls hs hpos hp' hI.1).2]
    obtain ⟨j, hj⟩ : ∃ j, nBelow ps p = j + 1 := Nat.exists_eq_succ_of_ne_zero (nBelow_ne_zero hpos hp')
    have hlast : ps.getD j 0 < p := gd_lt_of_lt_nBelow hs (by omega)
    have hple : p ≤ ps.getD (j + 1) 0 := le_gd_of_nBelow_le hs (by omega) (by omega)
    have hq : lq = chord (ps.getD j 0) (ls.getD j 0) (ps.getD (j + 1) 0) (ls.getD (j + 1) 0) p := by
      rw [hI.2, qInterp_segment_Ioc ls hs (by omega) hlast hple]
    simp only [hj, Nat.add_sub_cancel]
    congr 2
    apply intervalIntegral.integral_congr
    intro x _
    have hne' : p - ps.getD j 0 ≠ 0 := sub_ne_zero.mpr hlast.ne'
    simp only [hq, chord]
    field_simp
    ring

/-! ### Stage 3: corollaries -/

/-- the code's function of `p` alone: `loading_at(p)` is the code's linear interpolation (`interpLin`; its
failure value is irrelevant: below the first knot `lq` is unused, above the last knot the Python raises) -/
def spreadFun (ps ls : List ℝ) (p : ℝ) : ℝ :=
  (spreadPoint ps ls (realLogs ps) p ((interpLin ps ls p).getD 0) (lastLog ps p)).getD 0

lemma getLast_eq_gd {ps : List ℝ} (hne : ps ≠ []) : ps.getLast hne = ps.getD (ps.length - 1) 0 := by
  rw [List.getLast_eq_getElem, gd_eq]

lemma nBelow_lt_length_of_le_last {ps : List ℝ} (hs : ps.Pairwise (· < ·)) (hne : ps ≠ []) {p : ℝ}
    (hp : p ≤ ps.getLast hne) : nBelow ps p < ps.length := by
  by_contra hcon
  have hle := nBelow_le_length ps p
  have hpos : 0 < ps.length := List.length_pos_iff.mpr hne
  have : ps.getD (ps.length - 1) 0 < p := gd_lt_of_lt_nBelow hs (by omega)
  rw [getLast_eq_gd hne] at hp
  exact absurd hp (not_le.mpr this)

/-- inside the data range the code's interpolation succeeds, with value `q p` -/
lemma interpLin_eq_some {ps ls : List ℝ} (hlen : ps.length = ls.length) (hs : ps.Pairwise (· < ·)) {p : ℝ}
    (hp : ps.getD 0 0 < p) (hk : nBelow ps p < ps.length) : interpLin ps ls p = some (qInterp ps ls p) := by
  induction ps generalizing ls with
  | nil => simp at hk
  | cons a t ih =>
    have ha : a < p := by simpa using hp
    cases t with
    | nil => rw [nBelow_cons_lt _ ha] at hk; simp at hk
    | cons b t' =>
      cases ls with
      | nil => simp at hlen
      | cons la lt =>
        cases lt with
        | nil => simp at hlen
        | cons lb lt' =>
          have hst := (List.pairwise_cons.mp hs).2
          rw [interpLin, if_neg (not_lt.mpr ha.le)]
          by_cases hb : p ≤ b
          · rw [if_pos hb]
            have hk1 : nBelow (a :: b :: t') p = 1 := by
              rw [nBelow_cons_lt _ ha, nBelow_eq_zero_of_le_head hst hb]
            unfold qInterp
            rw [if_neg (by simpa using ha), hk1]
            simp only [Nat.sub_self, List.getD_cons_zero, List.getD_cons_succ, chord]
          · rw [if_neg hb]
            have hb' : b < p := not_le.mp hb
            rw [qInterp_cons_of_lt t' lt' ha hb']
            apply ih (by simpa using hlen) hst (by simpa using hb')
            rw [nBelow_cons_lt _ ha] at hk
            simpa using hk

/-- link between `spreadFun` and the model: whatever successful interpolation value is passed -/
theorem spreadPoint_eq_spreadFun (ps ls : List ℝ) (p lq : ℝ) (hne : ps ≠ []) (hpos : 0 < ps.head hne)
    (hlen : ps.length = ls.length) (hs : ps.Pairwise (· < ·)) (hp0 : 0 ≤ p)
    (hlq : ps.head hne < p → interpLin ps ls p = some lq) :
    spreadPoint ps ls (realLogs ps) p lq (lastLog ps p) = some (spreadFun ps ls p) := by
  unfold spreadFun
  rw [spreadPoint_eq_integral ps ls p lq hne hpos hlen hs hp0 hlq,
    spreadPoint_eq_integral ps ls p _ hne hpos hlen hs hp0 (fun h => by rw [hlq h]; rfl)]
  rfl

/-- `spreadFun` is the integral on the whole data range `[0, ps.getLast]` -/
theorem spreadFun_eq_integral (ps ls : List ℝ) (p : ℝ) (hne : ps ≠ []) (hpos : 0 < ps.head hne)
    (hlen : ps.length = ls.length) (hs : ps.Pairwise (· < ·)) (hp0 : 0 ≤ p) (hpl : p ≤ ps.getLast hne) :
    spreadFun ps ls p = ∫ x in (0:ℝ)..p, qInterp ps ls x / x := by
  unfold spreadFun
  rw [spreadPoint_eq_integral ps ls p _ hne hpos hlen hs hp0 (fun h => by
    rw [interpLin_eq_some hlen hs (by rw [← head_eq_gd hne]; exact h) (nBelow_lt_length_of_le_last hs hne hpl)]
    rfl)]
  rfl

lemma qInterp_intervalIntegrable (ps ls : List ℝ) (p : ℝ) (hne : ps ≠ []) (hpos : 0 < ps.head hne)
    (hs : ps.Pairwise (· < ·)) (hp0 : 0 ≤ p) (hpl : p ≤ ps.getLast hne) :
    IntervalIntegrable (fun x => qInterp ps ls x / x) volume 0 p := by
  rw [head_eq_gd hne] at hpos
  by_cases hp : p ≤ ps.getD 0 0
  · exact (qInterp_henry_piece ps ls hp0 hp).1
  · exact (qInterp_integral_aux ls hs hpos (not_le.mp hp) (nBelow_lt_length_of_le_last hs hne hpl)).1

/-- the value at zero pressure is zero (whatever `logs`, `lq`, `lgLast` are passed) -/
theorem spreadPoint_zero (ps ls logs : List ℝ) (lq lgLast : ℝ) (hne : ps ≠ []) (hpos : 0 < ps.head hne)
    (hlen : ps.length = ls.length) (hs : ps.Pairwise (· < ·)) :
    spreadPoint ps ls logs 0 lq lgLast = some 0 := by
  rw [(spreadPoint_below_first ps ls logs 0 lq lgLast hne hpos hlen hs le_rfl hpos.le).2, mul_zero]

/-- additivity over pressure intervals: `Π(b) − Π(a) = ∫ₐᵇ q(x)/x dx` for `0 ≤ a ≤ b ≤ ps.getLast` -/
theorem spreadPoint_additive (ps ls : List ℝ) (a b : ℝ) (hne : ps ≠ []) (hpos : 0 < ps.head hne)
    (hlen : ps.length = ls.length) (hs : ps.Pairwise (· < ·)) (ha0 : 0 ≤ a) (hab : a ≤ b)
    (hbl : b ≤ ps.getLast hne) :
    spreadFun ps ls b - spreadFun ps ls a = ∫ x in a..b, qInterp ps ls x / x := by
  rw [spreadFun_eq_integral ps ls b hne hpos hlen hs (ha0.trans hab) hbl,
    spreadFun_eq_integral ps ls a hne hpos hlen hs ha0 (hab.trans hbl)]
  exact intervalIntegral.integral_interval_sub_left
    (qInterp_intervalIntegrable ps ls b hne hpos hs (ha0.trans hab) hbl)
    (qInterp_intervalIntegrable ps ls a hne hpos hs ha0 (hab.trans hbl))

lemma gd_nonneg {ls : List ℝ} (h : ∀ l ∈ ls, 0 ≤ l) (i : ℕ) : 0 ≤ ls.getD i 0 := by
  by_cases hi : i < ls.length
  · exact h _ (gd_mem hi)
  · simp [List.getD_eq_getElem?_getD, not_lt.mp hi]

/-- non-negative loadings give a non-negative interpolant on `[0, ps.getLast]` -/
lemma qInterp_nonneg (ps ls : List ℝ) (hne : ps ≠ []) (hpos : 0 < ps.head hne) (hs : ps.Pairwise (· < ·))
    (hl : ∀ l ∈ ls, 0 ≤ l) {x : ℝ} (hx0 : 0 ≤ x) (hxl : x ≤ ps.getLast hne) : 0 ≤ qInterp ps ls x := by
  rw [head_eq_gd hne] at hpos
  by_cases hx : x ≤ ps.getD 0 0
  · rw [qInterp_below ps ls hx]
    exact mul_nonneg (div_nonneg (gd_nonneg hl 0) hpos.le) hx0
  · have hx' := not_le.mp hx
    have hk := nBelow_lt_length_of_le_last hs hne hxl
    obtain ⟨j, hj⟩ : ∃ j, nBelow ps x = j + 1 := Nat.exists_eq_succ_of_ne_zero (nBelow_ne_zero hpos hx')
    have hlo : ps.getD j 0 < x := gd_lt_of_lt_nBelow hs (by omega)
    have hhi : x ≤ ps.getD (j + 1) 0 := le_gd_of_nBelow_le hs (by omega) (by omega)
    rw [qInterp_segment_Ioc ls hs (by omega) hlo hhi]
    have hba : 0 < ps.getD (j + 1) 0 - ps.getD j 0 := sub_pos.mpr (lt_of_lt_of_le hlo hhi)
    have e : chord (ps.getD j 0) (ls.getD j 0) (ps.getD (j + 1) 0) (ls.getD (j + 1) 0) x =
        (ls.getD j 0 * (ps.getD (j + 1) 0 - x) + ls.getD (j + 1) 0 * (x - ps.getD j 0)) /
          (ps.getD (j + 1) 0 - ps.getD j 0) := by
      unfold chord; field_simp; ring
    rw [e]
    exact div_nonneg (add_nonneg (mul_nonneg (gd_nonneg hl j) (sub_nonneg.mpr hhi))
      (mul_nonneg (gd_nonneg hl (j + 1)) (sub_nonneg.mpr hlo.le))) hba.le

/-- non-negative loadings ⇒ the spreading pressure is non-decreasing on `[0, ps.getLast]` -/
theorem spreadPoint_mono (ps ls : List ℝ) (a b : ℝ) (hne : ps ≠ []) (hpos : 0 < ps.head hne)
    (hlen : ps.length = ls.length) (hs : ps.Pairwise (· < ·)) (hl : ∀ l ∈ ls, 0 ≤ l) (ha0 : 0 ≤ a) (hab : a ≤ b)
    (hbl : b ≤ ps.getLast hne) :
    spreadFun ps ls a ≤ spreadFun ps ls b := by
  rw [← sub_nonneg, spreadPoint_additive ps ls a b hne hpos hlen hs ha0 hab hbl]
  apply intervalIntegral.integral_nonneg hab
  intro x hx
  exact div_nonneg (qInterp_nonneg ps ls hne hpos hs hl (ha0.trans hx.1) (hx.2.trans hbl)) (ha0.trans hx.1)

/-- FTC on a piece: if `Q` agrees on the open interval `(lo, hi) ∋ p` with a function continuous there -/
lemma hasDerivAt_integral_of_piece {Q G : ℝ → ℝ} {lo hi p : ℝ} (hp : p ∈ Set.Ioo lo hi)
    (heq : ∀ x ∈ Set.Ioo lo hi, Q x = G x) (hG : ContinuousOn G (Set.Ioo lo hi))
    (hint : IntervalIntegrable Q volume 0 p) :
    HasDerivAt (fun u => ∫ x in (0:ℝ)..u, Q x) (Q p) p := by
  have hQ : ContinuousOn Q (Set.Ioo lo hi) := hG.congr heq
  exact intervalIntegral.integral_hasDerivAt_right hint
    (hQ.stronglyMeasurableAtFilter isOpen_Ioo p hp) (hQ.continuousAt (isOpen_Ioo.mem_nhds hp))

/-- `p · Π'(p) = q(p)` at every `p` strictly inside the data range that is not a knot (`HasDerivAt` form) -/
theorem spreadPoint_hasDerivAt (ps ls : List ℝ) (p : ℝ) (hne : ps ≠ []) (hpos : 0 < ps.head hne)
    (hlen : ps.length = ls.length) (hs : ps.Pairwise (· < ·)) (hp0 : 0 < p) (hpl : p < ps.getLast hne)
    (hnk : p ∉ ps) :
    HasDerivAt (spreadFun ps ls) (qInterp ps ls p / p) p := by
  have hint := qInterp_intervalIntegrable ps ls p hne hpos hs hp0.le hpl.le
  have h0 : 0 < ps.getD 0 0 := by rw [← head_eq_gd hne]; exact hpos
  -- an open interval around `p`, inside `(0, ps.getLast)`, on which `q/x` is continuous
  obtain ⟨lo, hi, hmem, hlo0, hhil, G, heq, hG⟩ : ∃ lo hi : ℝ, p ∈ Set.Ioo lo hi ∧ 0 ≤ lo ∧ hi ≤ ps.getLast hne ∧
      ∃ G : ℝ → ℝ, (∀ x ∈ Set.Ioo lo hi, qInterp ps ls x / x = G x) ∧ ContinuousOn G (Set.Ioo lo hi) := by
    have hlastle : ps.getD 0 0 ≤ ps.getLast hne := by
      rw [getLast_eq_gd hne]
      exact gd_le hs (Nat.zero_le _) (by have := List.length_pos_iff.mpr hne; omega)
    by_cases hp : p ≤ ps.getD 0 0
    · have hp' : p < ps.getD 0 0 := lt_of_le_of_ne hp (fun h => hnk (by
        rw [h]; exact gd_mem (List.length_pos_iff.mpr hne)))
      refine ⟨0, ps.getD 0 0, ⟨hp0, hp'⟩, le_rfl, hlastle, fun _ => ls.getD 0 0 / ps.getD 0 0, ?_, continuousOn_const⟩
      intro x hx
      have := hx.1.ne'
      rw [qInterp_below ps ls hx.2.le]
      field_simp
    · have hp' := not_le.mp hp
      have hk := nBelow_lt_length_of_le_last hs hne hpl.le
      obtain ⟨j, hj⟩ : ∃ j, nBelow ps p = j + 1 := Nat.exists_eq_succ_of_ne_zero (nBelow_ne_zero h0 hp')
      have hlo : ps.getD j 0 < p := gd_lt_of_lt_nBelow hs (by omega)
      have hhi : p ≤ ps.getD (j + 1) 0 := le_gd_of_nBelow_le hs (by omega) (by omega)
      have hhi' : p < ps.getD (j + 1) 0 := lt_of_le_of_ne hhi (fun h => hnk (by
        rw [h]; exact gd_mem (by omega)))
      have hjpos : 0 < ps.getD j 0 := gd_pos hs h0 (by omega)
      refine ⟨ps.getD j 0, ps.getD (j + 1) 0, ⟨hlo, hhi'⟩, hjpos.le, ?_,
        fun x => chord (ps.getD j 0) (ls.getD j 0) (ps.getD (j + 1) 0) (ls.getD (j + 1) 0) x / x, ?_, ?_⟩
      · rw [getLast_eq_gd hne]
        exact gd_le hs (by omega) (by omega)
      · intro x hx
        simp only [qInterp_segment_Ioc ls hs (by omega : j + 1 < ps.length) hx.1 hx.2.le]
      · unfold chord
        apply ContinuousOn.div (by fun_prop) continuousOn_id
        intro x hx
        exact (hjpos.trans hx.1).ne'
  have hF := hasDerivAt_integral_of_piece hmem heq hG hint
  apply hF.congr_of_eventuallyEq
  filter_upwards [isOpen_Ioo.mem_nhds hmem] with x hx
  exact spreadFun_eq_integral ps ls x hne hpos hlen hs (hlo0.trans hx.1.le) (hx.2.le.trans hhil)

/-- `p · Π'(p) = q(p)` at every `p` strictly inside the data range that is not a knot -/
theorem spreadPoint_deriv (ps ls : List ℝ) (p : ℝ) (hne : ps ≠ []) (hpos : 0 < ps.head hne)
    (hlen : ps.length = ls.length) (hs : ps.Pairwise (· < ·)) (hp0 : 0 < p) (hpl : p < ps.getLast hne)
    (hnk : p ∉ ps) :
    p * deriv (spreadFun ps ls) p = qInterp ps ls p := by
  rw [(spreadPoint_hasDerivAt ps ls p hne hpos hlen hs hp0 hpl hnk).deriv]
  field_simp

/-- the spreading pressure tends to zero in the limit of zero pressure -/
theorem spreadPoint_tendsto_zero (ps ls : List ℝ) (hne : ps ≠ []) (hpos : 0 < ps.head hne)
    (hlen : ps.length = ls.length) (hs : ps.Pairwise (· < ·)) :
    Filter.Tendsto (spreadFun ps ls) (nhdsWithin 0 (Set.Ioi 0)) (nhds 0) := by
  have hc : ContinuousAt (fun p : ℝ => ls.getD 0 0 / ps.head hne * p) 0 := by fun_prop
  have ht := hc.tendsto.mono_left (nhdsWithin_le_nhds (s := Set.Ioi (0 : ℝ)))
  rw [mul_zero] at ht
  apply ht.congr'
  filter_upwards [Ioc_mem_nhdsGT hpos] with p hp
  have h := (spreadPoint_below_first ps ls (realLogs ps) p ((interpLin ps ls p).getD 0) (lastLog ps p) hne hpos hlen hs
    hp.1.le hp.2).2
  unfold spreadFun
  rw [h]
  rfl

end

end PgVerif.C11
