/-
C11 — the spreading pressure is anchored AT THE ORIGIN ("the integral from 0 to p … therefore zero in the limit of zero pressure").

For Toth, Jensen–Seaton, DR and DA the library computes `scipy.integrate.quad(loading(x)/x, 0, p)`; the model of that call is the integral
itself, so what has to be checked on the real code is that the value IS the origin-anchored integral.  This file says what that means and
what the harness compares with:

* `integral_div_eq_integral_comp_exp` — `∫ₐᵇ n(x)/x dx = ∫_{ln a}^{ln b} n(eᵘ) du`: the reference quadrature of the harness (Gauss–Legendre in
  `u = ln x`, panels running down from `ln p`) integrates the same function; no singular weight is left.
* `anchored_primitive_unique` — among all functions with the right increments `F b − F a = ∫ₐᵇ n/x` (equivalently the right derivative
  `p·F' = n`) exactly one tends to 0 at zero pressure: "additive + derivative" does not fix the constant, the zero limit does.
* `primitive_anchored_at_eps_neg`, `primitive_anchored_at_eps_offset`, `primitive_anchored_at_eps_not_tendsto_zero` — a primitive anchored at
  some `ε > 0` instead (the integral started "just above the origin") has the right increments, but is negative below `ε`, misses the
  constant `∫₀^ε n/x` everywhere, and does not tend to 0: the three observations (sign at very small `p`, comparison with the
  origin-anchored integral, limit) by which the harness finds it.
* `da_m1_loading`, `da_m1_spread_hasDeriv`, `da_m1_spread_eq_integral`, `da_m1_spread_tendsto_zero`, `da_m1_spread_pos` — at the lower bound
  `m = 1` of its exponent the Dubinin–Astakhov loading is the power law `n_m·p^a`, `a = RT/e`, and its origin-anchored spreading pressure is
  `n_m·p^a / a` in closed form: an exact corner of the parameter box against which both the library and the reference quadrature are run.
-/
import Mathlib.Analysis.SpecialFunctions.Integrals.Basic
import Mathlib.Analysis.SpecialFunctions.Log.Deriv
import Mathlib.Analysis.SpecialFunctions.Pow.Deriv
import Mathlib.MeasureTheory.Integral.IntervalIntegral.IntegrationByParts
import Mathlib.Tactic
import PgVerif.Tie.Models
import PgVerif.Props.C11.Analytic

namespace PgVerif.C11
open PgVerif.Gen.R Filter Topology MeasureTheory

/-! ### the reference integral of the harness -/

/-- change of variables `x = eᵘ`: the integral of `n(x)/x` is the integral of `n(eᵘ)` over the logarithms -/
theorem integral_div_eq_integral_comp_exp (n : ℝ → ℝ) (a b : ℝ) (ha : 0 < a) (hab : a ≤ b) (hn : ContinuousOn n (Set.Icc a b)) :
    ∫ x in a..b, n x / x = ∫ u in Real.log a..Real.log b, n (Real.exp u) := by
  have hb : 0 < b := ha.trans_le hab
  have hlog : Real.log a ≤ Real.log b := Real.log_le_log ha hab
  have himg : Real.exp '' Set.uIcc (Real.log a) (Real.log b) ⊆ Set.Icc a b := by
    rw [Set.uIcc_of_le hlog]
    rintro _ ⟨u, ⟨hu1, hu2⟩, rfl⟩
    constructor
    · calc a = Real.exp (Real.log a) := (Real.exp_log ha).symm
        _ ≤ Real.exp u := Real.exp_le_exp.mpr hu1
    · calc Real.exp u ≤ Real.exp (Real.log b) := Real.exp_le_exp.mpr hu2
        _ = b := Real.exp_log hb
  have hg : ContinuousOn (fun x => n x / x) (Real.exp '' Set.uIcc (Real.log a) (Real.log b)) := by
    apply ContinuousOn.mono _ himg
    apply hn.div continuousOn_id
    intro x hx
    exact (ha.trans_le hx.1).ne'
  have key := intervalIntegral.integral_comp_mul_deriv' (a := Real.log a) (b := Real.log b) (f := Real.exp) (f' := Real.exp)
    (g := fun x => n x / x) (fun x _ => Real.hasDerivAt_exp x) Real.continuous_exp.continuousOn hg
  rw [Real.exp_log ha, Real.exp_log hb] at key
  rw [← key]
  apply intervalIntegral.integral_congr
  intro u _
  simp only [Function.comp]
  rw [div_mul_cancel₀ _ (Real.exp_pos u).ne']

/-- non-vacuity: the Langmuir-type loading `x/(1+x)` on `[1, 2]` -/
example : ∫ x in (1:ℝ)..2, (x / (1 + x)) / x = ∫ u in Real.log 1..Real.log 2, Real.exp u / (1 + Real.exp u) := by
  apply integral_div_eq_integral_comp_exp (fun x => x / (1 + x)) 1 2 one_pos one_le_two
  apply ContinuousOn.div continuousOn_id (continuousOn_const.add continuousOn_id)
  intro x hx
  have : (0:ℝ) < 1 + x := by linarith [hx.1]
  exact this.ne'

/-! ### the anchor -/

/-- two functions with the same increments on `(0, P]` that both tend to 0 at zero pressure agree on `(0, P]`: the zero limit is what
fixes the constant of integration -/
theorem anchored_primitive_unique {F G : ℝ → ℝ} {P : ℝ}
    (hinc : ∀ a b, 0 < a → a ≤ b → b ≤ P → F b - F a = G b - G a)
    (hF : Tendsto F (𝓝[>] 0) (𝓝 0)) (hG : Tendsto G (𝓝[>] 0) (𝓝 0)) {p : ℝ} (hp : 0 < p) (hpP : p ≤ P) :
    F p = G p := by
  -- F - G is constant on (0, p], and tends to 0
  have hconst : ∀ᶠ a in 𝓝[>] (0:ℝ), F a - G a = F p - G p := by
    have hmem : Set.Ioc (0:ℝ) p ∈ 𝓝[>] (0:ℝ) := Ioc_mem_nhdsGT hp
    filter_upwards [hmem] with a ha
    have := hinc a p ha.1 ha.2 hpP
    linarith
  have hlim : Tendsto (fun a => F a - G a) (𝓝[>] 0) (𝓝 (0 - 0)) := hF.sub hG
  have hlim' : Tendsto (fun _ : ℝ => F p - G p) (𝓝[>] (0:ℝ)) (𝓝 (0 - 0)) := hlim.congr' hconst
  have : F p - G p = 0 - 0 := tendsto_nhds_unique tendsto_const_nhds hlim'
  linarith

/-- a primitive anchored at `ε` instead of the origin differs from any other primitive by a constant: increments and derivative are right -/
theorem primitive_anchored_at_eps_offset {f : ℝ → ℝ} {a ε p : ℝ} (h1 : IntervalIntegrable f volume a p)
    (h2 : IntervalIntegrable f volume a ε) :
    ∫ x in ε..p, f x = (∫ x in a..p, f x) - ∫ x in a..ε, f x :=
  (intervalIntegral.integral_interval_sub_left h1 h2).symm

/-- … but it is negative below its anchor (integrand positive: loading and pressure are) -/
theorem primitive_anchored_at_eps_neg {f : ℝ → ℝ} {ε p : ℝ} (hpε : p < ε) (hint : IntervalIntegrable f volume p ε)
    (hpos : ∀ x ∈ Set.Ioo p ε, 0 < f x) :
    ∫ x in ε..p, f x < 0 := by
  rw [intervalIntegral.integral_symm]
  have := intervalIntegral.intervalIntegral_pos_of_pos_on hint hpos hpε
  linarith

/-- … and it does not tend to 0 at zero pressure when the origin-anchored one does: its limit is minus the missing part -/
theorem primitive_anchored_at_eps_not_tendsto_zero {F : ℝ → ℝ} {c : ℝ} (hc : c ≠ 0) (hF : Tendsto F (𝓝[>] 0) (𝓝 0)) :
    ¬ Tendsto (fun p => F p - c) (𝓝[>] 0) (𝓝 0) := by
  intro h
  have h2 : Tendsto (fun p => F p - c) (𝓝[>] 0) (𝓝 (0 - c)) := hF.sub tendsto_const_nhds
  have : (0:ℝ) = 0 - c := tendsto_nhds_unique h h2
  apply hc
  linarith

/-- non-vacuity of `primitive_anchored_at_eps_neg`: the Henry loading `n = x` (integrand 1) anchored at 1, evaluated at 1/2 -/
example : ∫ _x in (1:ℝ)..(1/2), (1:ℝ) < 0 :=
  primitive_anchored_at_eps_neg (by norm_num) intervalIntegrable_const (fun _ _ => one_pos)

/-! ### DA at the lower bound of its exponent -/

/-- at `m = 1` the Dubinin–Astakhov loading is a power law in the relative pressure (`minus_rt = −RT`, exponent `a = RT/e`) -/
theorem da_m1_loading (nm e mrt p : ℝ) (hp : 0 < p) :
    DA_loading nm e 1 mrt p = nm * p ^ (-mrt / e) := by
  unfold DA_loading
  simp only [Real.rpow_eq_pow, Real.rpow_one]
  rw [Real.rpow_def_of_pos hp]
  congr 2
  ring

/-- the closed form of its origin-anchored spreading pressure -/
noncomputable def daM1Spread (nm a p : ℝ) : ℝ := nm * p ^ a / a

theorem da_m1_spread_hasDeriv (nm e mrt p : ℝ) (hp : 0 < p) (ha : -mrt / e ≠ 0) :
    HasDerivAt (daM1Spread nm (-mrt / e)) (DA_loading nm e 1 mrt p / p) p := by
  rw [da_m1_loading nm e mrt p hp]
  unfold daM1Spread
  have h := ((Real.hasDerivAt_rpow_const (p := -mrt / e) (Or.inl hp.ne')).const_mul nm).div_const (-mrt / e)
  have e1 : ∀ A : ℝ, A ≠ 0 → nm * p ^ A / p = nm * (A * p ^ (A - 1)) / A := by
    intro A hA
    rw [Real.rpow_sub_one hp.ne']
    field_simp
  rw [e1 _ ha]
  exact h

/-- `Π(b) − Π(a) = ∫ₐᵇ n(x)/x dx` for `0 < a ≤ b` -/
theorem da_m1_spread_eq_integral (nm e mrt a b : ℝ) (ha : 0 < a) (hab : a ≤ b) (hexp : -mrt / e ≠ 0) :
    daM1Spread nm (-mrt / e) b - daM1Spread nm (-mrt / e) a = ∫ x in a..b, DA_loading nm e 1 mrt x / x := by
  apply sub_eq_integral_of_hasDerivAt hab
  · intro x hx
    exact da_m1_spread_hasDeriv nm e mrt x (ha.trans_le hx.1) hexp
  · have heq : Set.EqOn (fun x => DA_loading nm e 1 mrt x / x) (fun x => nm * x ^ (-mrt / e) / x) (Set.Icc a b) := by
      intro x hx
      simp only [da_m1_loading nm e mrt x (ha.trans_le hx.1)]
    apply ContinuousOn.congr _ heq
    apply ContinuousOn.div
    · apply continuousOn_const.mul
      intro x hx
      exact (Real.continuousAt_rpow_const x _ (Or.inl (ha.trans_le hx.1).ne')).continuousWithinAt
    · exact continuousOn_id
    · intro x hx
      exact (ha.trans_le hx.1).ne'

/-- zero in the limit of zero pressure (`a = RT/e > 0`) -/
theorem da_m1_spread_tendsto_zero (nm a : ℝ) (ha : 0 < a) :
    Tendsto (daM1Spread nm a) (𝓝[>] 0) (𝓝 0) := by
  apply tendsto_zero_of_continuousAt
  · unfold daM1Spread
    apply ContinuousAt.div_const
    exact continuousAt_const.mul (Real.continuousAt_rpow_const 0 a (Or.inr ha.le))
  · unfold daM1Spread
    rw [Real.zero_rpow ha.ne']
    simp

/-- positive at every positive pressure -/
theorem da_m1_spread_pos (nm a p : ℝ) (hnm : 0 < nm) (ha : 0 < a) (hp : 0 < p) : 0 < daM1Spread nm a p := by
  unfold daM1Spread
  positivity

/-- non-vacuity: `e = 4000 J/mol`, `RT = 1000 J/mol` (the exponent `a = 1/4`), `n_m = 10` -/
example : daM1Spread 10 (-(-1000) / 4000) 1 - daM1Spread 10 (-(-1000) / 4000) (1/2)
    = ∫ x in (1/2:ℝ)..1, DA_loading 10 4000 1 (-1000) x / x :=
  da_m1_spread_eq_integral 10 4000 (-1000) (1/2) 1 (by norm_num) (by norm_num) (by norm_num)

end PgVerif.C11
