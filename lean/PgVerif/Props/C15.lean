/-
C15 — characterisation results do not depend on the units the isotherm is stored in.  (stub; theorems are being added)
-/
import PgVerif.Gen.CharR
import PgVerif.Model.Linear

namespace PgVerif.Props.C15
open PgVerif.Gen.CharR

/-- multiplying all loadings by `k` divides the BET transform by `k` (the BET plot is homogeneous of degree -1) -/
theorem bet_transform_homogeneous (p n k : ℝ) (hk : k ≠ 0) : bet_transform p (k * n) = bet_transform p n / k := by
  unfold bet_transform roq_transform
  field_simp

end PgVerif.Props.C15
