/-
C15 — characterisation results do not depend on the units the isotherm is stored in.

Statements are about the hand-written, correspondence-checked models `Model/IsoState.lean` (permanent conversions),
`Model/Access.lean` (accessors), `Model/Linear.lean`, `Model/Meso.lean`, `Model/Micro.lean` and the GENERATED formulas
`Gen/CharR.lean`, `Gen/ModelsR.lean`.  Helpers are `lemma`, properties are `theorem`.

A. representation invariance of what the routines read (builds on C01, C02 `run_any_history`, C03 `accessPressure_SI`):
     `access_after_history_pressure`, `access_after_history_loading_general`, `access_after_history_loading`,
     `access_after_history_loading_target`, `access_after_history_temperature`, `access_after_history`,
     `routine_invariant`, `routine_invariant_two`; witnesses that the two explicit restrictions are necessary:
     `material_conversion_witness`, `fraction_target_witness`.
     The interpolating accessors `loading_at` / `pressure_at` (reference isotherm of alpha-s, isosteric enthalpy) are in
     `Props/C15/Interp.lean`: `interpLin_scale`, `loading_at_after_history`, `pressure_at_after_history`,
     `isosteric_reads_invariant` (mixed sets), `alphas_reads_invariant`.
     NOT modelled here: export / re-import (C05 / C06 / C07).
B. homogeneity in the loading `n ↦ k n`:
     3  `ols_scale_y`, `ols_shift`, `ols_scale_x`
     4  `roq_transform_homogeneous`, `bet_transform_homogeneous`, `bet_ols_scale`, `bet_results_scale`,
        `bet_area_homogeneous`, `bet_end_to_end_scale`, `rouquerolMax_scale`, `betWindow_scale`,
        `langmuir_transform_homogeneous`, `langmuir_ols_scale`, `langmuir_results_scale`, `langmuir_end_to_end_scale`,
        `simple_bet_homogeneous`, `simple_lang_homogeneous`, `model_isotherm_transform_scale`
     5  `tplot_results_scale`, `tplot_end_to_end_scale`, `alphas_curve_scale`, `alphas_area_scale`,
        `alphas_end_to_end_scale`
     6  `log_v_adj_scale`, `da_ols_scale`, `da_results_scale`, `da_end_to_end_scale`
     7  `dhLoop_scale`, `bjhLoop_scale`, `dollimoreLoop_scale`, `pygapsDH_scale`, `radiusMethod_scale`, `bjh_scale`,
        `dollimoreHeal_scale`, `cumulative_scale`, `method_scale`
     8  `micro_tail_scale`, `hk_volume_adsorbed_scale`, `micro_tail_loading_scale`, `coverage_scale`
     9  `enthalpy_ols_pressure_unit`, `isosteric_enthalpy_pressure_unit`
C. results in the isotherm's own units: `henry_constant_units`, `henry_constant_units_lsq`, `henry_constant_units_lsq_conv`
   (hypothesis: the fit returns the MINIMISER).  `Props/C15/Optimiser.lean` shows that this hypothesis is needed and is what the code
   lacks in the recorded findings S45-C15a / S46-C15b (iterative optimisers stopped by ABSOLUTE tolerances): `henryGrad_units`,
   `henry_relative_stop_units`, `henry_abs_stop_small_units`, `henry_abs_stop_witness`, `fitSSE_scale`, `kernel_fit_homogeneous_lsq`,
   `kernel_abs_ftol_small_scale`, `kernel_abs_ftol_witness`.
D. non-vacuity examples.
-/
import PgVerif.Gen.CharR
import PgVerif.Gen.ModelsR
import PgVerif.Model.Linear
import PgVerif.Model.Meso
import PgVerif.Model.Micro
import PgVerif.Props.C14
import PgVerif.Props.C02
import PgVerif.Props.C03
import Mathlib.Tactic

namespace PgVerif.Props.C15
open PgVerif.Gen.CharR PgVerif.Model.Linear
open PgVerif.Props.C14 (sum_nil sum_cons sum_map_mul_left mean_map_scale ols_scale length_cast_ne_zero)

/-! ## B3. least squares: homogeneity and translation -/
section OlsAlgebra
variable {α : Type} [Field α]

lemma sum_zipWith_mul_left (k : α) (F : α → α → α) (xs ys : List α) :
    sum (List.zipWith (fun x y => k * F x y) xs ys) = k * sum (List.zipWith F xs ys) := by
  induction xs generalizing ys with
  | nil => simp
  | cons x xs ih =>
    cases ys with
    | nil => simp
    | cons y ys => simp only [List.zipWith_cons_cons, sum_cons, ih]; ring

lemma sum_map_add_const (c : α) (ys : List α) :
    sum (ys.map fun y => y + c) = sum ys + c * (ys.length : α) := by
  induction ys with
  | nil => simp
  | cons y ys ih => simp only [List.map_cons, sum_cons, ih, List.length_cons]; push_cast; ring

/-- covariance with scaled abscissae -/
lemma sxy_scale_left (k : α) (xs ys : List α) :
    sxy (xs.map fun x => k * x) ys = k * sxy xs ys := by
  unfold sxy
  rw [mean_map_scale, List.zipWith_map_left, ← sum_zipWith_mul_left]
  congr 2
  funext x y
  ring

lemma sxy_scale_right (k : α) (xs ys : List α) :
    sxy xs (ys.map fun y => k * y) = k * sxy xs ys := by
  unfold sxy
  rw [mean_map_scale, List.zipWith_map_right, ← sum_zipWith_mul_left]
  congr 2
  funext x y
  ring

variable [CharZero α]

lemma mean_map_add_const (c : α) (ys : List α) (h : ys ≠ []) :
    mean (ys.map fun y => y + c) = mean ys + c := by
  have hl := length_cast_ne_zero h
  unfold mean
  rw [sum_map_add_const, List.length_map]
  field_simp

lemma sxy_shift_right (c : α) (xs ys : List α) (h : ys ≠ []) :
    sxy xs (ys.map fun y => y + c) = sxy xs ys := by
  unfold sxy
  rw [mean_map_add_const c ys h, List.zipWith_map_right]
  congr 2
  funext x y
  ring

/-- **B3a.** Scaling the ordinates (loadings) by `k` scales slope and intercept by `k` (C14 `ols_scale`, restated). -/
theorem ols_scale_y (k : α) (xs ys : List α) :
    ols xs (ys.map fun y => k * y) = (k * (ols xs ys).1, k * (ols xs ys).2) :=
  ols_scale k xs ys

/-- **B3b.** Adding a constant `c` to all ordinates leaves the slope and adds `c` to the intercept.
Guard: `ys ≠ []` (for the empty list the totalised mean is `0` and nothing is added); no condition on the abscissae. -/
theorem ols_shift (c : α) (xs ys : List α) (h : ys ≠ []) :
    ols xs (ys.map fun y => y + c) = ((ols xs ys).1, (ols xs ys).2 + c) := by
  unfold ols
  simp only [sxy_shift_right c xs ys h, mean_map_add_const c ys h, Prod.mk.injEq, true_and]
  ring

omit [CharZero α] in
/-- **B3c.** Scaling the abscissae by `k ≠ 0` divides the slope by `k` and leaves the intercept unchanged. -/
theorem ols_scale_x (k : α) (hk : k ≠ 0) (xs ys : List α) :
    ols (xs.map fun x => k * x) ys = ((ols xs ys).1 / k, (ols xs ys).2) := by
  have h1 : sxy (xs.map fun x => k * x) ys = k * sxy xs ys := sxy_scale_left k xs ys
  have h2 : sxy (xs.map fun x => k * x) (xs.map fun x => k * x) = k * (k * sxy xs xs) := by
    rw [sxy_scale_left, sxy_scale_right]
  unfold ols
  simp only [h1, h2, mean_map_scale, Prod.mk.injEq]
  by_cases hx : sxy xs xs = 0
  · simp [hx]
  · constructor <;> field_simp

end OlsAlgebra

/-! ## B4. BET and Langmuir: homogeneity in the loading -/
section BET

/-- the Rouquerol transform `n (1 - p)` is homogeneous of degree 1 in the loading -/
theorem roq_transform_homogeneous (p n k : ℝ) : roq_transform p (k * n) = k * roq_transform p n := by
  unfold roq_transform; ring

/-- **B4a.** multiplying all loadings by `k ≠ 0` divides the BET transform by `k`
(guard `k ≠ 0`: at `k = 0` both sides are `0` only by the convention `x / 0 = 0`). -/
theorem bet_transform_homogeneous (p n k : ℝ) (hk : k ≠ 0) : bet_transform p (k * n) = bet_transform p n / k := by
  unfold bet_transform roq_transform
  field_simp

/-- the vectorised BET transform of scaled loadings -/
lemma zipWith_bet_scale (k : ℝ) (hk : k ≠ 0) (ps ns : List ℝ) :
    List.zipWith bet_transform ps (ns.map fun n => k * n)
      = (List.zipWith bet_transform ps ns).map fun y => k⁻¹ * y := by
  rw [List.zipWith_map_right, List.map_zipWith]
  congr 2
  funext p n
  rw [bet_transform_homogeneous p n k hk]; ring

/-- **B4b.** the BET regression line of the scaled isotherm: slope and intercept are divided by `k`. -/
theorem bet_ols_scale (k : ℝ) (hk : k ≠ 0) (xs ps ns : List ℝ) :
    ols xs (List.zipWith bet_transform ps (ns.map fun n => k * n))
      = ((ols xs (List.zipWith bet_transform ps ns)).1 / k, (ols xs (List.zipWith bet_transform ps ns)).2 / k) := by
  rw [zipWith_bet_scale k hk, ols_scale]
  simp only [Prod.mk.injEq]
  constructor <;> ring

/-- **B4c.** BET results from slope/`k`, intercept/`k` (`k ≠ 0`; `intercept ≠ 0` excludes the degenerate line through
the origin where `c` is undefined): the `C` constant and the monolayer pressure are unchanged, the monolayer loading
and the area are multiplied by `k`.  (generated argument orders: `bet_c_const slope intercept`,
`bet_n_monolayer intercept c_const`, `bet_area cross_section n_monolayer`.) -/
theorem bet_results_scale (s i cs k : ℝ) (hk : k ≠ 0) (_hi : i ≠ 0) :
    bet_c_const (s / k) (i / k) = bet_c_const s i ∧
    bet_n_monolayer (i / k) (bet_c_const (s / k) (i / k)) = k * bet_n_monolayer i (bet_c_const s i) ∧
    bet_p_monolayer (bet_c_const (s / k) (i / k)) = bet_p_monolayer (bet_c_const s i) ∧
    bet_area cs (bet_n_monolayer (i / k) (bet_c_const (s / k) (i / k)))
      = k * bet_area cs (bet_n_monolayer i (bet_c_const s i)) := by
  have hc : bet_c_const (s / k) (i / k) = bet_c_const s i := by
    unfold bet_c_const
    rw [div_div_div_cancel_right₀ hk]
  have hn : bet_n_monolayer (i / k) (bet_c_const s i) = k * bet_n_monolayer i (bet_c_const s i) := by
    unfold bet_n_monolayer
    field_simp
  refine ⟨hc, ?_, ?_, ?_⟩
  · rw [hc, hn]
  · rw [hc]
  · rw [hc, hn]; unfold bet_area; ring

/-- the BET area is linear in the monolayer loading -/
theorem bet_area_homogeneous (cs nm k : ℝ) : bet_area cs (k * nm) = k * bet_area cs nm := by
  unfold bet_area; ring

/-- **B4d.** BET end to end: fitting the same window of the scaled isotherm gives the same `C` and `p_monolayer` and
`k` times the monolayer loading and area. Guard: the unscaled intercept is not `0`. -/
theorem bet_end_to_end_scale (k cs : ℝ) (hk : k ≠ 0) (xs ps ns : List ℝ)
    (hi : (ols xs (List.zipWith bet_transform ps ns)).2 ≠ 0) :
    let r := ols xs (List.zipWith bet_transform ps ns)
    let r' := ols xs (List.zipWith bet_transform ps (ns.map fun n => k * n))
    bet_c_const r'.1 r'.2 = bet_c_const r.1 r.2 ∧
    bet_n_monolayer r'.2 (bet_c_const r'.1 r'.2) = k * bet_n_monolayer r.2 (bet_c_const r.1 r.2) ∧
    bet_p_monolayer (bet_c_const r'.1 r'.2) = bet_p_monolayer (bet_c_const r.1 r.2) ∧
    bet_area cs (bet_n_monolayer r'.2 (bet_c_const r'.1 r'.2))
      = k * bet_area cs (bet_n_monolayer r.2 (bet_c_const r.1 r.2)) := by
  intro r r'
  have hr : r' = (r.1 / k, r.2 / k) := bet_ols_scale k hk xs ps ns
  rw [hr]
  exact bet_results_scale r.1 r.2 cs k hk hi

/-- **B4e.** Langmuir transform `p / n`: homogeneous of degree −1 in the loading (`k ≠ 0`). -/
theorem langmuir_transform_homogeneous (p n k : ℝ) (hk : k ≠ 0) :
    langmuir_transform p (k * n) = langmuir_transform p n / k := by
  unfold langmuir_transform
  field_simp

lemma zipWith_lang_scale (k : ℝ) (hk : k ≠ 0) (ps ns : List ℝ) :
    List.zipWith langmuir_transform ps (ns.map fun n => k * n)
      = (List.zipWith langmuir_transform ps ns).map fun y => k⁻¹ * y := by
  rw [List.zipWith_map_right, List.map_zipWith]
  congr 2
  funext p n
  rw [langmuir_transform_homogeneous p n k hk]; ring

theorem langmuir_ols_scale (k : ℝ) (hk : k ≠ 0) (xs ps ns : List ℝ) :
    ols xs (List.zipWith langmuir_transform ps (ns.map fun n => k * n))
      = ((ols xs (List.zipWith langmuir_transform ps ns)).1 / k,
         (ols xs (List.zipWith langmuir_transform ps ns)).2 / k) := by
  rw [zipWith_lang_scale k hk, ols_scale]
  simp only [Prod.mk.injEq]
  constructor <;> ring

/-- **B4f.** Langmuir results from slope/`k`, intercept/`k` (`k ≠ 0`, `slope ≠ 0`): monolayer loading and area are
multiplied by `k`, the Langmuir constant is unchanged.
(generated argument orders: `lang_const intercept n_monolayer`, `lang_area cross_section n_monolayer`.) -/
theorem langmuir_results_scale (s i cs k : ℝ) (hk : k ≠ 0) (_hs : s ≠ 0) :
    lang_n_monolayer (s / k) = k * lang_n_monolayer s ∧
    lang_const (i / k) (lang_n_monolayer (s / k)) = lang_const i (lang_n_monolayer s) ∧
    lang_area cs (lang_n_monolayer (s / k)) = k * lang_area cs (lang_n_monolayer s) := by
  have hn : lang_n_monolayer (s / k) = k * lang_n_monolayer s := by
    unfold lang_n_monolayer; field_simp
  refine ⟨hn, ?_, ?_⟩
  · rw [hn]; unfold lang_const
    have : i / k * (k * lang_n_monolayer s) = i * lang_n_monolayer s := by field_simp
    rw [this]
  · rw [hn]; unfold lang_area; ring

theorem langmuir_end_to_end_scale (k cs : ℝ) (hk : k ≠ 0) (xs ps ns : List ℝ)
    (hs : (ols xs (List.zipWith langmuir_transform ps ns)).1 ≠ 0) :
    let r := ols xs (List.zipWith langmuir_transform ps ns)
    let r' := ols xs (List.zipWith langmuir_transform ps (ns.map fun n => k * n))
    lang_n_monolayer r'.1 = k * lang_n_monolayer r.1 ∧
    lang_const r'.2 (lang_n_monolayer r'.1) = lang_const r.2 (lang_n_monolayer r.1) ∧
    lang_area cs (lang_n_monolayer r'.1) = k * lang_area cs (lang_n_monolayer r.1) := by
  intro r r'
  have hr : r' = (r.1 / k, r.2 / k) := langmuir_ols_scale k hk xs ps ns
  rw [hr]
  exact langmuir_results_scale r.1 r.2 cs k hk hs

/-- **B4i.** the BET model isotherm `simple_bet` (the isotherm whose analysis returns `n_m`, `C`: C14 `bet_recovers`) is
homogeneous of degree 1 in the monolayer capacity.  No guard: an identity of the generated formula (totalised division
included). -/
theorem simple_bet_homogeneous (p nm c k : ℝ) : simple_bet p (k * nm) c = k * simple_bet p nm c := by
  unfold simple_bet; ring

/-- **B4j.** the Langmuir model isotherm `simple_lang` is homogeneous of degree 1 in the capacity. -/
theorem simple_lang_homogeneous (p nm K k : ℝ) : simple_lang p (k * nm) K = k * simple_lang p nm K := by
  unfold simple_lang; ring

/-- **B4k.** hence the BET / Langmuir transforms of the model isotherm with capacity `k n_m` are those of the model
isotherm with capacity `n_m` divided by `k` (`k ≠ 0`), and `bet_end_to_end_scale` / `langmuir_end_to_end_scale` apply to
model isotherms: `n_m`, area × `k`; `C`, `K` unchanged. -/
theorem model_isotherm_transform_scale (p nm c k : ℝ) (hk : k ≠ 0) :
    bet_transform p (simple_bet p (k * nm) c) = bet_transform p (simple_bet p nm c) / k ∧
    langmuir_transform p (simple_lang p (k * nm) c) = langmuir_transform p (simple_lang p nm c) / k := by
  rw [simple_bet_homogeneous, simple_lang_homogeneous]
  exact ⟨bet_transform_homogeneous p _ k hk, langmuir_transform_homogeneous p _ k hk⟩

example : simple_bet (1 / 4) (3 * 2) 100 = 3 * simple_bet (1 / 4) 2 100 := simple_bet_homogeneous _ _ _ _

/-! ### the automatic BET window does not depend on the loading scale -/
section RouquerolWindow
variable {β : Type} [Field β] [LinearOrder β] [IsStrictOrderedRing β]

lemma rouquerolMaxAux_scale (k : β) (hk : 0 < k) (l : List β) (i : ℕ) :
    rouquerolMaxAux (l.map fun v => k * v) i = rouquerolMaxAux l i := by
  induction l generalizing i with
  | nil => rfl
  | cons a t ih =>
    cases t with
    | nil => rfl
    | cons b r =>
      have ih' := ih (i + 1)
      simp only [List.map_cons] at ih' ⊢
      simp only [rouquerolMaxAux, ih']
      have : k * a > k * b ↔ a > b := by
        constructor
        · intro h; exact lt_of_mul_lt_mul_left h hk.le
        · intro h; exact mul_lt_mul_of_pos_left h hk
      simp only [this]

/-- **B4g.** the Rouquerol maximum (end of the automatically selected BET range) is the same for the scaled isotherm
(`k > 0`; the Rouquerol transform itself is multiplied by `k`, `roq_transform_homogeneous`) -/
theorem rouquerolMax_scale (k : β) (hk : 0 < k) (roq : List β) :
    rouquerolMax (roq.map fun v => k * v) = rouquerolMax roq := by
  unfold rouquerolMax
  rw [rouquerolMaxAux_scale k hk, List.length_map]

/-- **B4h.** hence the whole BET window selection (automatic or by limits, including a refusal) is unchanged -/
theorem betWindow_scale (k : β) (hk : 0 < k) (ps roq : List β) (tenth : β) (limits : Option (Option β × Option β)) :
    betWindow ps (roq.map fun v => k * v) tenth limits = betWindow ps roq tenth limits := by
  unfold betWindow
  cases limits with
  | none => simp only [rouquerolMax_scale k hk]
  | some l => rfl

end RouquerolWindow

end BET

/-! ## B6. Dubinin–Radushkevich / Dubinin–Astakhov -/
section DA

/-- **B6a.** `log (k n M/ρ) = log k + log (n M/ρ)`; guards `0 < k` and `n M/ρ ≠ 0` (at `0` the totalised `log 0 = 0`
would break additivity). -/
theorem log_v_adj_scale (k n M ρ : ℝ) (hk : 0 < k) (hv : n * M / ρ ≠ 0) :
    log_v_adj (k * n) M ρ = Real.log k + log_v_adj n M ρ := by
  unfold log_v_adj
  rw [← Real.log_mul hk.ne' hv]
  congr 1; ring

lemma map_log_v_adj_scale (k M ρ : ℝ) (hk : 0 < k) (ns : List ℝ) (hv : ∀ n ∈ ns, n * M / ρ ≠ 0) :
    (ns.map fun n => k * n).map (fun n => log_v_adj n M ρ)
      = (ns.map fun n => log_v_adj n M ρ).map fun y => y + Real.log k := by
  rw [List.map_map, List.map_map]
  apply List.map_congr_left
  intro n hn
  simp only [Function.comp]
  rw [log_v_adj_scale k n M ρ hk (hv n hn)]; ring

/-- **B6b.** the DA regression of the scaled isotherm: same slope, intercept `+ log k`
(guards: `0 < k`, at least one point, every adsorbed volume `n M/ρ` non-zero). -/
theorem da_ols_scale (k M ρ : ℝ) (hk : 0 < k) (xs ns : List ℝ) (hne : ns ≠ [])
    (hv : ∀ n ∈ ns, n * M / ρ ≠ 0) :
    ols xs ((ns.map fun n => k * n).map fun n => log_v_adj n M ρ)
      = ((ols xs (ns.map fun n => log_v_adj n M ρ)).1,
         (ols xs (ns.map fun n => log_v_adj n M ρ)).2 + Real.log k) := by
  rw [map_log_v_adj_scale k M ρ hk ns hv]
  exact ols_shift _ _ _ (by simpa using hne)

/-- **B6c.** micropore volume is multiplied by `k` when the intercept is shifted by `log k` (`0 < k`);
the characteristic potential `da_potential T e slope` depends on the slope only, which `da_ols_scale` leaves unchanged. -/
theorem da_results_scale (k i : ℝ) (hk : 0 < k) :
    da_microp_volume (i + Real.log k) = k * da_microp_volume i := by
  unfold da_microp_volume
  rw [Real.exp_add, Real.exp_log hk]; ring

/-- **B6d.** DA end to end. -/
theorem da_end_to_end_scale (k M ρ T e : ℝ) (hk : 0 < k) (xs ns : List ℝ) (hne : ns ≠ [])
    (hv : ∀ n ∈ ns, n * M / ρ ≠ 0) :
    let r := ols xs (ns.map fun n => log_v_adj n M ρ)
    let r' := ols xs ((ns.map fun n => k * n).map fun n => log_v_adj n M ρ)
    da_microp_volume r'.2 = k * da_microp_volume r.2 ∧ da_potential T e r'.1 = da_potential T e r.1 := by
  intro r r'
  have hr : r' = (r.1, r.2 + Real.log k) := da_ols_scale k M ρ hk xs ns hne hv
  rw [hr]
  exact ⟨da_results_scale k r.2 hk, rfl⟩

end DA

/-! ## B5. t-plot and alpha-s -/
section TPlot

/-- **B5a.** t-plot / alpha-s parameter formulas are linear in slope resp. intercept. -/
theorem tplot_results_scale (M ρ s i k : ℝ) :
    tplot_area M ρ (k * s) = k * tplot_area M ρ s ∧
    tplot_adsorbed_volume M ρ (k * i) = k * tplot_adsorbed_volume M ρ i ∧
    alphas_adsorbed_volume M ρ (k * i) = k * alphas_adsorbed_volume M ρ i := by
  unfold tplot_area tplot_adsorbed_volume alphas_adsorbed_volume
  refine ⟨by ring, by ring, by ring⟩

/-- **B5b.** t-plot end to end: the thickness curve `ts` depends on the pressure only; scaling the loading by `k`
scales area and adsorbed volume by `k`. -/
theorem tplot_end_to_end_scale (M ρ k : ℝ) (ts ns : List ℝ) :
    let r := ols ts ns
    let r' := ols ts (ns.map fun n => k * n)
    tplot_area M ρ r'.1 = k * tplot_area M ρ r.1 ∧
    tplot_adsorbed_volume M ρ r'.2 = k * tplot_adsorbed_volume M ρ r.2 := by
  intro r r'
  have hr : r' = (k * r.1, k * r.2) := ols_scale k ts ns
  rw [hr]
  exact ⟨(tplot_results_scale M ρ r.1 r.2 k).1, (tplot_results_scale M ρ r.1 r.2 k).2.1⟩

/-- **B5c.** the alpha-s curve is unchanged when reference loading and reducing loading are both scaled by `k ≠ 0`. -/
theorem alphas_curve_scale (ref apt k : ℝ) (hk : k ≠ 0) :
    alphas_curve (k * ref) (k * apt) = alphas_curve ref apt := by
  unfold alphas_curve
  rw [mul_div_mul_left _ _ hk]

lemma map_alphas_curve_scale (refs : List ℝ) (apt k : ℝ) (hk : k ≠ 0) :
    (refs.map fun x => k * x).map (fun x => alphas_curve x (k * apt)) = refs.map fun x => alphas_curve x apt := by
  rw [List.map_map]
  apply List.map_congr_left
  intro x _
  exact alphas_curve_scale x apt k hk

/-- **B5d.** `alphas_area` is linear in the reference area and in the slope, and of degree −1 in the reducing loading
(generated argument order `alphas_area alpha_s_point reference_area slope`). -/
theorem alphas_area_scale (apt Aref s k : ℝ) (hk : k ≠ 0) :
    alphas_area apt (k * Aref) s = k * alphas_area apt Aref s ∧
    alphas_area apt Aref (k * s) = k * alphas_area apt Aref s ∧
    alphas_area (k * apt) Aref (k * s) = alphas_area apt Aref s := by
  unfold alphas_area
  refine ⟨by ring, by ring, ?_⟩
  by_cases ha : apt = 0
  · simp [ha]
  · field_simp

/-- **B5e.** alpha-s end to end.  Sample loading multiplied by `k`; reference loading and reducing loading
(`n_ref(0.4)`) both multiplied by `j ≠ 0`: the alpha-s curve is unchanged, slope and intercept are multiplied by `k`,
hence the adsorbed volume by `k` and the area `A_ref / n_ref(0.4) · slope` by `k / j` (in particular unchanged when
sample and reference are rescaled by the same constant, and multiplied by `k` when only the sample is). -/
theorem alphas_end_to_end_scale (M ρ Aref apt k j : ℝ) (hj : j ≠ 0) (refs ns : List ℝ) :
    let curve := refs.map fun x => alphas_curve x apt
    let curve' := (refs.map fun x => j * x).map fun x => alphas_curve x (j * apt)
    let r := ols curve ns
    let r' := ols curve' (ns.map fun n => k * n)
    curve' = curve ∧
    alphas_area (j * apt) Aref r'.1 = k / j * alphas_area apt Aref r.1 ∧
    alphas_adsorbed_volume M ρ r'.2 = k * alphas_adsorbed_volume M ρ r.2 := by
  intro curve curve' r r'
  have hc : curve' = curve := map_alphas_curve_scale refs apt j hj
  have hr : r' = (k * r.1, k * r.2) := by
    change ols curve' _ = _
    rw [hc]; exact ols_scale k curve ns
  refine ⟨hc, ?_, ?_⟩
  · rw [hr]; unfold alphas_area
    by_cases ha : apt = 0
    · simp [ha]
    · field_simp
  · rw [hr]; exact (tplot_results_scale M ρ r.1 r.2 k).2.2

end TPlot

/-! ## B9. isosteric enthalpy: pressure-unit invariance -/
section Enthalpy

lemma map_log_scale (a : ℝ) (ha : 0 < a) (ps : List ℝ) (hp : ∀ p ∈ ps, 0 < p) :
    (ps.map fun p => Real.log (a * p)) = (ps.map fun p => Real.log p).map fun y => y + Real.log a := by
  rw [List.map_map]
  apply List.map_congr_left
  intro p hpm
  simp only [Function.comp]
  rw [Real.log_mul ha.ne' (hp p hpm).ne']; ring

/-- **B9a.** the regression of `ln p` against `1/T` after all pressures are multiplied by a unit factor `a > 0`
(pressures positive, at least one point): same slope, intercept `+ ln a`. -/
theorem enthalpy_ols_pressure_unit (a : ℝ) (ha : 0 < a) (xs ps : List ℝ) (hne : ps ≠ []) (hp : ∀ p ∈ ps, 0 < p) :
    ols xs (ps.map fun p => Real.log (a * p))
      = ((ols xs (ps.map fun p => Real.log p)).1, (ols xs (ps.map fun p => Real.log p)).2 + Real.log a) := by
  rw [map_log_scale a ha ps hp]
  exact ols_shift _ _ _ (by simpa using hne)

/-- **B9b.** the isosteric enthalpy (a function of the slope only) does not depend on the pressure unit. -/
theorem isosteric_enthalpy_pressure_unit (a : ℝ) (ha : 0 < a) (Ts ps : List ℝ) (hne : ps ≠ [])
    (hp : ∀ p ∈ ps, 0 < p) :
    isosteric_enthalpy (ols (Ts.map isosteric_inv_t) (ps.map fun p => Real.log (a * p))).1
      = isosteric_enthalpy (ols (Ts.map isosteric_inv_t) (ps.map fun p => Real.log p)).1 := by
  rw [enthalpy_ols_pressure_unit a ha _ ps hne hp]

end Enthalpy

/-! ## C10. results in the isotherm's own units: the initial Henry constant -/
section Henry
open PgVerif.Gen.R

/-- **C10a.** the Henry line in units `(a·p, b·n)` has constant `b K / a` (`a ≠ 0`). -/
theorem henry_constant_units (K a b p : ℝ) (ha : a ≠ 0) :
    Henry_loading (b * K / a) (a * p) = b * Henry_loading K p := by
  unfold Henry_loading
  field_simp

/-- sum of squared residuals of the Henry model on the data `(ps, ns)` -/
noncomputable def henrySSE (K : ℝ) (ps ns : List ℝ) : ℝ :=
  sum (List.zipWith (fun p n => (Henry_loading K p - n) ^ 2) ps ns)

lemma henrySSE_units (K' a b : ℝ) (hb : b ≠ 0) (ps ns : List ℝ) :
    henrySSE K' (ps.map fun p => a * p) (ns.map fun n => b * n) = b ^ 2 * henrySSE (K' * a / b) ps ns := by
  unfold henrySSE
  rw [List.zipWith_map, ← sum_zipWith_mul_left]
  congr 2
  funext p n
  unfold Henry_loading
  field_simp

/-- **C10b.** least squares: if `K` minimises `Σ (K p_i − n_i)²` then `b K / a` minimises `Σ (K' a p_i − b n_i)²`
(`a ≠ 0`, `b ≠ 0`): the fitted Henry constant changes by exactly the unit factors `b / a`. -/
theorem henry_constant_units_lsq (K a b : ℝ) (ha : a ≠ 0) (hb : b ≠ 0) (ps ns : List ℝ)
    (hmin : ∀ K', henrySSE K ps ns ≤ henrySSE K' ps ns) :
    ∀ K', henrySSE (b * K / a) (ps.map fun p => a * p) (ns.map fun n => b * n)
        ≤ henrySSE K' (ps.map fun p => a * p) (ns.map fun n => b * n) := by
  intro K'
  rw [henrySSE_units _ a b hb, henrySSE_units _ a b hb]
  have e : b * K / a * a / b = K := by field_simp
  rw [e]
  exact mul_le_mul_of_nonneg_left (hmin _) (sq_nonneg b)

/-- and conversely (the correspondence of minimisers is a bijection) -/
theorem henry_constant_units_lsq_conv (K a b : ℝ) (ha : a ≠ 0) (hb : b ≠ 0) (ps ns : List ℝ)
    (hmin : ∀ K', henrySSE (b * K / a) (ps.map fun p => a * p) (ns.map fun n => b * n)
        ≤ henrySSE K' (ps.map fun p => a * p) (ns.map fun n => b * n)) :
    ∀ K', henrySSE K ps ns ≤ henrySSE K' ps ns := by
  intro K'
  have h := hmin (b * K' / a)
  rw [henrySSE_units _ a b hb, henrySSE_units _ a b hb] at h
  have e : ∀ x : ℝ, b * x / a * a / b = x := fun x => by field_simp
  rw [e, e] at h
  exact le_of_mul_le_mul_left h (by positivity)

end Henry

/-! ## B7. mesopore recurrences (pyGAPS-DH, BJH, Dollimore–Heal): linear in the adsorbed volumes -/
section Meso
open PgVerif.Model.Meso
variable {α : Type} [Field α]

/-- scaling of an output pair `(pore_volume, pore_area)` -/
def scalePair (k : α) (x : α × α) : α × α := (k * x.1, k * x.2)
/-- scaling of the area entry of a `(radius, area)` record -/
def scaleSnd (k : α) (x : α × α) : α × α := (x.1, k * x.2)
def scaleDh (k : α) (r : DhRow α) : DhRow α := { r with dV := k * r.dV }
def scaleR (k : α) (r : RRow α) : RRow α := { r with dV := k * r.dV }

lemma diffNeg_scale (k : α) : ∀ l : List α, diffNeg (l.map fun v => k * v) = (diffNeg l).map fun v => k * v
  | [] => rfl
  | [_] => rfl
  | a :: b :: r => by
    have ih := diffNeg_scale k (b :: r)
    simp only [List.map_cons] at ih ⊢
    simp only [diffNeg, List.map_cons, ih]
    congr 1; ring

lemma zip5_scale (k : α) : ∀ (a b c d e : List α),
    zip5 (a.map fun v => k * v) b c d e = (zip5 a b c d e).map (scaleDh k)
  | [], _, _, _, _ => by simp [zip5]
  | _ :: _, [], _, _, _ => by simp [zip5]
  | _ :: _, _ :: _, [], _, _ => by simp [zip5]
  | _ :: _, _ :: _, _ :: _, [], _ => by simp [zip5]
  | _ :: _, _ :: _, _ :: _, _ :: _, [] => by simp [zip5]
  | a :: as, b :: bs, c :: cs, d :: ds, e :: es => by
    simp only [List.map_cons, zip5, zip5_scale k as bs cs ds es, scaleDh]

lemma zipR_scale (k : α) : ∀ (a b c d e : List α),
    zipR (a.map fun v => k * v) b c d e = (zipR a b c d e).map (scaleR k)
  | [], _, _, _, _ => by simp [zipR]
  | _ :: _, [], _, _, _ => by simp [zipR]
  | _ :: _, _ :: _, [], _, _ => by simp [zipR]
  | _ :: _, _ :: _, _ :: _, [], _ => by simp [zipR]
  | _ :: _, _ :: _, _ :: _, _ :: _, [] => by simp [zipR]
  | a :: as, b :: bs, c :: cs, d :: ds, e :: es => by
    simp only [List.map_cons, zipR, zipR_scale k as bs cs ds es, scaleR]

/-- **B7a.** the pyGAPS-DH loop is linear: volume increments and the running area correction scaled by `k` ⇒ every
pore volume and pore area scaled by `k` (generalised accumulator). -/
theorem dhLoop_scale (c : ℕ) (k : α) (rows : List (DhRow α)) (acc acc' : α) (hacc : acc' = k * acc) :
    dhLoop c (rows.map (scaleDh k)) acc' = (dhLoop c rows acc).map (scalePair k) := by
  induction rows generalizing acc acc' with
  | nil => rfl
  | cons r rest ih =>
    subst hacc
    simp only [List.map_cons, dhLoop, scaleDh, scalePair]
    congr 1
    · simp only [Prod.mk.injEq]; constructor <;> ring
    · apply ih; ring

/-- the `sum_area_factor` of the BJH loop is linear in the recorded pore areas -/
lemma bjh_foldl_scale (k t : α) (done : List (α × α)) (s s' : α) (hs : s' = k * s) :
    (done.map (scaleSnd k)).foldl (fun s (xa : α × α) => s + (xa.1 - t) / xa.1 * xa.2) s'
      = k * done.foldl (fun s (xa : α × α) => s + (xa.1 - t) / xa.1 * xa.2) s := by
  induction done generalizing s s' with
  | nil => simpa using hs
  | cons x rest ih =>
    simp only [List.map_cons, List.foldl_cons]
    apply ih
    subst hs
    simp only [scaleSnd]; ring

/-- **B7b.** the BJH loop is linear (generalised list of already processed intervals). -/
theorem bjhLoop_scale (k : α) (rows : List (RRow α)) (done : List (α × α)) :
    bjhLoop (rows.map (scaleR k)) (done.map (scaleSnd k)) = (bjhLoop rows done).map (scalePair k) := by
  induction rows generalizing done with
  | nil => rfl
  | cons r rest ih =>
    simp only [List.map_cons, bjhLoop, scaleR, scalePair]
    rw [bjh_foldl_scale k r.avgT done 0 0 (by ring)]
    congr 1
    · simp only [Prod.mk.injEq]; constructor <;> ring
    · have := ih (done ++ [(r.avgR, 2 * ((r.dV - r.dT * (List.foldl
          (fun s (xa : α × α) => s + (xa.1 - r.avgT) / xa.1 * xa.2) 0 done) * (1 / 1000)) * r.ratio) / r.avgR * 1000)])
      rw [← this, List.map_append]
      congr 2
      simp only [List.map_cons, List.map_nil, scaleSnd, List.cons.injEq, Prod.mk.injEq, and_true, true_and]
      ring

/-- **B7c.** the Dollimore–Heal loop is linear (both generalised accumulators). -/
theorem dollimoreLoop_scale (k : α) (rows : List (RRow α)) (a b a' b' : α) (ha : a' = k * a) (hb : b' = k * b) :
    dollimoreLoop (rows.map (scaleR k)) a' b' = (dollimoreLoop rows a b).map (scalePair k) := by
  induction rows generalizing a b a' b' with
  | nil => rfl
  | cons r rest ih =>
    subst ha hb
    simp only [List.map_cons, dollimoreLoop, scaleR, scalePair]
    congr 1
    · simp only [Prod.mk.injEq]; constructor <;> ring
    · apply ih <;> ring

lemma map_fst_scalePair (k : α) (out : List (α × α)) :
    (out.map (scalePair k)).map (·.1) = (out.map (·.1)).map fun v => k * v := by
  simp [List.map_map, Function.comp_def, scalePair]

lemma map_snd_scalePair (k : α) (out : List (α × α)) :
    (out.map (scalePair k)).map (·.2) = (out.map (·.2)).map fun v => k * v := by
  simp [List.map_map, Function.comp_def, scalePair]

lemma zipWith_div_scale (k : α) (vs ds : List α) :
    List.zipWith (· / ·) (vs.map fun v => k * v) ds = (List.zipWith (· / ·) vs ds).map fun v => k * v := by
  rw [List.zipWith_map_left, List.map_zipWith]
  congr 2
  funext v d
  ring

lemma zipWith_div2_scale (k : α) (vs ds : List α) :
    List.zipWith (fun v d => v / d / 2) (vs.map fun v => k * v) ds
      = (List.zipWith (fun v d => v / d / 2) vs ds).map fun v => k * v := by
  rw [List.zipWith_map_left, List.map_zipWith]
  congr 2
  funext v d
  ring

/-- **B7d.** `psd_pygapsdh`: adsorbed volumes multiplied by `k` ⇒ same pore widths; pore volumes, pore areas and the
distribution `dV/dw` multiplied by `k`. (No guard: the statement is an identity of the recurrences.) -/
theorem pygapsDH_scale (c : ℕ) (k : α) (vol thick kelvin : List α) :
    (pygapsDH c (vol.map fun v => k * v) thick kelvin).widths = (pygapsDH c vol thick kelvin).widths ∧
    (pygapsDH c (vol.map fun v => k * v) thick kelvin).volumes
      = (pygapsDH c vol thick kelvin).volumes.map (fun v => k * v) ∧
    (pygapsDH c (vol.map fun v => k * v) thick kelvin).areas
      = (pygapsDH c vol thick kelvin).areas.map (fun v => k * v) ∧
    (pygapsDH c (vol.map fun v => k * v) thick kelvin).distribution
      = (pygapsDH c vol thick kelvin).distribution.map (fun v => k * v) := by
  simp only [pygapsDH, ← List.map_reverse, diffNeg_scale, zip5_scale]
  rw [dhLoop_scale c k _ 0 0 (by ring)]
  simp only [map_fst_scalePair, map_snd_scalePair, zipWith_div_scale, List.map_reverse, true_and]

/-- **B7e.** the shared body of `psd_bjh` / `psd_dollimore_heal` for any linear loop. -/
theorem radiusMethod_scale (k : α) (loop : List (RRow α) → List (α × α))
    (hloop : ∀ rows, loop (rows.map (scaleR k)) = (loop rows).map (scalePair k)) (vol thick kelvin : List α) :
    (radiusMethod loop (vol.map fun v => k * v) thick kelvin).widths = (radiusMethod loop vol thick kelvin).widths ∧
    (radiusMethod loop (vol.map fun v => k * v) thick kelvin).volumes
      = (radiusMethod loop vol thick kelvin).volumes.map (fun v => k * v) ∧
    (radiusMethod loop (vol.map fun v => k * v) thick kelvin).areas
      = (radiusMethod loop vol thick kelvin).areas.map (fun v => k * v) ∧
    (radiusMethod loop (vol.map fun v => k * v) thick kelvin).distribution
      = (radiusMethod loop vol thick kelvin).distribution.map (fun v => k * v) := by
  simp only [radiusMethod, ← List.map_reverse, diffNeg_scale, zipR_scale, hloop]
  simp only [map_fst_scalePair, map_snd_scalePair, zipWith_div2_scale, List.map_reverse, true_and]

/-- **B7f.** `psd_bjh`. -/
theorem bjh_scale (k : α) (vol thick kelvin : List α) :
    (bjh (vol.map fun v => k * v) thick kelvin).widths = (bjh vol thick kelvin).widths ∧
    (bjh (vol.map fun v => k * v) thick kelvin).volumes = (bjh vol thick kelvin).volumes.map (fun v => k * v) ∧
    (bjh (vol.map fun v => k * v) thick kelvin).areas = (bjh vol thick kelvin).areas.map (fun v => k * v) ∧
    (bjh (vol.map fun v => k * v) thick kelvin).distribution
      = (bjh vol thick kelvin).distribution.map (fun v => k * v) :=
  radiusMethod_scale k _ (fun rows => by simpa using bjhLoop_scale k rows []) vol thick kelvin

/-- **B7g.** `psd_dollimore_heal`. -/
theorem dollimoreHeal_scale (k : α) (vol thick kelvin : List α) :
    (dollimoreHeal (vol.map fun v => k * v) thick kelvin).widths = (dollimoreHeal vol thick kelvin).widths ∧
    (dollimoreHeal (vol.map fun v => k * v) thick kelvin).volumes
      = (dollimoreHeal vol thick kelvin).volumes.map (fun v => k * v) ∧
    (dollimoreHeal (vol.map fun v => k * v) thick kelvin).areas
      = (dollimoreHeal vol thick kelvin).areas.map (fun v => k * v) ∧
    (dollimoreHeal (vol.map fun v => k * v) thick kelvin).distribution
      = (dollimoreHeal vol thick kelvin).distribution.map (fun v => k * v) :=
  radiusMethod_scale k _ (fun rows => dollimoreLoop_scale k rows 0 0 0 0 (by ring) (by ring)) vol thick kelvin

lemma cumsum_scale (k : α) (l : List α) (acc acc' : α) (h : acc' = k * acc) :
    cumsum (l.map fun v => k * v) acc' = (cumsum l acc).map fun v => k * v := by
  induction l generalizing acc acc' with
  | nil => rfl
  | cons x xs ih =>
    subst h
    simp only [List.map_cons, cumsum]
    rw [ih (acc + x) (k * acc + k * x) (by ring)]
    congr 1; ring

lemma getLastD_scale (k : α) (l : List α) : (l.map fun v => k * v).getLastD 0 = k * l.getLastD 0 := by
  rw [List.getLastD_eq_getLast?, List.getLastD_eq_getLast?, List.getLast?_map]
  cases l.getLast? <;> simp

/-- **B7h.** the cumulative pore volume curve of `psd_mesoporous` is multiplied by `k` when pore volumes and adsorbed
volumes are. -/
theorem cumulative_scale (k : α) (vols vol : List α) :
    cumulative (vols.map fun v => k * v) (vol.map fun v => k * v) = (cumulative vols vol).map fun v => k * v := by
  simp only [cumulative]
  rw [cumsum_scale k vols 0 0 (by ring), getLastD_scale, getLastD_scale, List.map_map, List.map_map]
  apply List.map_congr_left
  intro x _
  simp only [Function.comp]; ring

/-- **B7i.** the whole dispatch `method` of `psd_mesoporous`: a refusal stays a refusal, a result is scaled. -/
theorem method_scale (k : α) (name geometry : String) (vol thick kelvin : List α) :
    (method name geometry (vol.map fun v => k * v) thick kelvin).map
        (fun r => (r.widths, r.volumes, r.areas, r.distribution))
      = (method name geometry vol thick kelvin).map
        (fun r => (r.widths, r.volumes.map (fun v => k * v), r.areas.map (fun v => k * v),
                   r.distribution.map (fun v => k * v))) := by
  unfold method
  split_ifs
  · cases cLength geometry with
    | none => rfl
    | some c =>
      obtain ⟨h1, h2, h3, h4⟩ := pygapsDH_scale c k vol thick kelvin
      simp only [Option.map_some, h1, h2, h3, h4]
  · obtain ⟨h1, h2, h3, h4⟩ := bjh_scale k vol thick kelvin
    simp only [Option.map_some, h1, h2, h3, h4]
  · rfl
  · obtain ⟨h1, h2, h3, h4⟩ := dollimoreHeal_scale k vol thick kelvin
    simp only [Option.map_some, h1, h2, h3, h4]
  · rfl
  · rfl

end Meso

/-! ## B8. micropore bookkeeping (Horvath–Kawazoe tail) -/
section Micro
open PgVerif.Model.Micro
variable {α : Type} [Field α]

lemma diff_scale (k : α) : ∀ l : List α, PgVerif.Model.Micro.diff (l.map fun v => k * v) = (PgVerif.Model.Micro.diff l).map fun v => k * v
  | [] => rfl
  | [_] => rfl
  | a :: b :: r => by
    have ih := diff_scale k (b :: r)
    simp only [List.map_cons] at ih ⊢
    simp only [PgVerif.Model.Micro.diff, List.map_cons, ih]
    congr 1; ring

/-- **B8a.** the tail of the two HK functions: adsorbed volumes multiplied by `k` ⇒ same (average) pore widths,
distribution `dV/dw` and cumulative volume multiplied by `k`. -/
theorem micro_tail_scale (k : α) (widths vol : List α) :
    (tail widths (vol.map fun v => k * v)).widths = (tail widths vol).widths ∧
    (tail widths (vol.map fun v => k * v)).distribution = (tail widths vol).distribution.map (fun v => k * v) ∧
    (tail widths (vol.map fun v => k * v)).cumulative = (tail widths vol).cumulative.map (fun v => k * v) := by
  simp only [tail, ← List.map_take, ← List.map_drop, diff_scale, zipWith_div_scale, true_and]

/-- **B8b.** the adsorbed liquid volume is linear in the loading. -/
theorem hk_volume_adsorbed_scale (k n M ρ : ℝ) :
    hk_volume_adsorbed (k * n) M ρ = k * hk_volume_adsorbed n M ρ := by
  unfold hk_volume_adsorbed; ring

/-- **B8c.** end to end for the HK tail: loadings multiplied by `k`. -/
theorem micro_tail_loading_scale (k M ρ : ℝ) (widths ns : List ℝ) :
    let r := tail widths (ns.map fun n => hk_volume_adsorbed n M ρ)
    let r' := tail widths ((ns.map fun n => k * n).map fun n => hk_volume_adsorbed n M ρ)
    r'.widths = r.widths ∧ r'.distribution = r.distribution.map (fun v => k * v) ∧
    r'.cumulative = r.cumulative.map (fun v => k * v) := by
  intro r r'
  have e : (ns.map fun n => k * n).map (fun n => hk_volume_adsorbed n M ρ)
      = (ns.map fun n => hk_volume_adsorbed n M ρ).map fun v => k * v := by
    rw [List.map_map, List.map_map]
    apply List.map_congr_left
    intro n _
    exact hk_volume_adsorbed_scale k n M ρ
  change (tail widths _).widths = _ ∧ (tail widths _).distribution = _ ∧ (tail widths _).cumulative = _
  rw [e]
  exact micro_tail_scale k widths _

/-- **B8d.** the coverage used by the Cheng–Yang correction, `n / (1.01 max n)`, is invariant under `n ↦ k n`, `k > 0`
(an intensive quantity). -/
theorem coverage_scale {β : Type} [Field β] [LinearOrder β] [IsStrictOrderedRing β] (k c101 : β) (hk : 0 < k)
    (loading : List β) :
    coverage c101 (loading.map fun n => k * n) = coverage c101 loading := by
  have hfold : ∀ (l : List β) (m : β), (l.map fun n => k * n).foldl max (k * m) = k * l.foldl max m := by
    intro l
    induction l with
    | nil => intro m; rfl
    | cons x xs ih =>
      intro m
      simp only [List.map_cons, List.foldl_cons]
      rw [← mul_max_of_nonneg _ _ hk.le, ih]
  unfold coverage
  have hhead : (loading.map fun n => k * n).headD 0 = k * loading.headD 0 := by
    cases loading <;> simp
  simp only [hhead, hfold, List.map_map]
  apply List.map_congr_left
  intro n _
  simp only [Function.comp]
  rw [mul_assoc, mul_div_mul_left _ _ hk.ne']

end Micro

/-! ## A. representation invariance of what the routines read -/
section Representation
open PgVerif.Model PgVerif.Units
open PgVerif.Spec (LB MB Ads Mat PRep LRep MRep TRep physScale)
open PgVerif.C02 (Rep labelsOf pLabel canonP canonL kelvin spOf slOf gmOf Conserved)

variable {α : Type} [Field α] [CharZero α]

lemma truthy_some {x : String} (h : x ≠ "") : truthy (some x) = true := by simp [truthy, h]

lemma orDefault_some {x : String} (h : x ≠ "") (cur : Option String) : orDefault (some x) cur = some x :=
  C03.orDefault_of_truthy (truthy_some h)

/-- the pressure accessor on a typed state, for a fully specified supported target `b` (mode given; unit given when
the target is absolute): `v · (Pa per stored unit) / (Pa per target unit)` -/
lemma accessPressure_typed (ps : α) (hps : ps ≠ 0) (env : Env α) (r : Rep) (sp : α)
    (hsp : r.p.scale Gen.pressureUnits ps = some sp) (b : PRep) (sb : α)
    (hb : b.scale Gen.pressureUnits ps = some sb) (v : α) :
    accessPressure ⟨some ps, env, true⟩ (labelsOf r) v (some b.mode) b.unit = .ok (v * sp / sb) := by
  have hm := C02.PRep.mode_ne_empty b
  rw [C01.tables_eq_spec.1] at hsp hb
  refine C03.accessPressure_SI ⟨some ps, env, true⟩ (labelsOf r) ps hps rfl rfl (C02.canonPRep r.p) b sp sb
    ?_ hb (C02.canonPRep_mode r.p).symm (C02.canonPRep_unit r.p).symm (some b.mode) b.unit
    (Or.inl (truthy_some hm)) (C02.orCurrent_some hm) rfl v
  rw [← C01.tables_eq_spec.1, C02.canonPRep_scale, C01.tables_eq_spec.1]; exact hsp

/-- the loading accessor in the shape the characterisation routines use (`loading_basis`, `loading_unit` given, no
material argument), stored representation ANY supported one (also fraction / percent), physical target `(b, u)`:
`v · (mol per stored unit) / (mol per target unit)` — per *stored* unit of material. -/
lemma accessLoading_routine_typed (a : Ads α) (mat : Mat α) (hc : a.Consistent) (hp : a.Pos) (psat : Option α)
    (tOk : Bool) (r : Rep) (sl : α) (hsl : r.l.scale Gen.unitTable a r.m = some sl) (b : LB) (u : String) (s2 : α)
    (h2 : physScale Gen.unitTable a b u = some s2) (v : α) :
    accessLoadingTarget ⟨psat, envOf a mat, tOk⟩ (labelsOf r) v (some b.name) (some u) none none
      = .ok (v * sl / s2) := by
  have hb : b.name ≠ "" := C02.LRep.basis_ne_empty (.phys b u)
  have hspec := cLoading_spec a mat hc hp v r.m r.l (.phys b u) sl s2 hsl h2
  have tn : truthy none = false := rfl
  have on : ∀ cur : Option String, orDefault none cur = cur := fun cur => C03.orDefault_of_falsy tn
  unfold accessLoadingTarget
  simp only [tn, Bool.or_self, Bool.false_eq_true, if_false, truthy_some hb, Bool.true_or, if_true,
    orDefault_some hb, on, bind, Except.bind, pure, Except.pure]
  exact hspec

/-- the loading accessor with a fully specified target (loading `l`, material `m`) on a typed state whose stored
loading is physical (not fraction / percent): `v · g(m)/g(stored) · (mol per stored unit) / (mol per target unit)` -/
lemma accessLoading_full_typed (a : Ads α) (mat : Mat α) (hc : a.Consistent) (hp : a.Pos) (hmp : Mat.Pos mat)
    (psat : Option α) (tOk : Bool) (r : Rep) (hnf : ¬ isFrac r.l.basis = true) (sl g1 : α)
    (hsl : r.l.scale Gen.unitTable a r.m = some sl) (hg1 : r.m.grams Gen.unitTable mat = some g1)
    (l : LRep) (m : MRep) (s2 g2 : α) (h2 : l.scale Gen.unitTable a m = some s2)
    (hg2 : m.grams Gen.unitTable mat = some g2) (v : α) :
    accessLoadingTarget ⟨psat, envOf a mat, tOk⟩ (labelsOf r) v (some l.basis) l.unit (some m.b.name) (some m.u)
      = .ok (v * g2 / g1 * sl / s2) := by
  have hb : l.basis ≠ "" := C02.LRep.basis_ne_empty l
  have hmb : m.b.name ≠ "" := C02.MB.name_ne_empty m.b
  have hmu : m.u ≠ "" := (grams_inv hmp hg2).1
  have hM := cMaterial_spec a mat hmp v r.m m g1 g2 hg1 hg2
  have hsl' : r.l.scale Gen.unitTable a m = some sl := by rw [C02.physScale_indep a r.l hnf m r.m]; exact hsl
  have hL := cLoading_spec a mat hc hp (v * g2 / g1) m r.l l sl s2 hsl' h2
  unfold accessLoadingTarget
  simp only [truthy_some hb, truthy_some hmb, Bool.true_or, if_true, orDefault_some hb, orDefault_some hmb,
    orDefault_some hmu, bind, Except.bind]
  have hM' : cMaterial (envOf a mat) v (some (labelsOf r).mbasis) (some m.b.name) (labelsOf r).munit (some m.u)
      = .ok (v * g2 / g1) := hM
  rw [hM']
  exact hL

omit [Field α] [CharZero α] in
/-- transport of a row-wise conservation statement through an accessor that factors through the canonical content -/
lemma map_access_eq {β : Type} (canon canon' : α → α) (acc acc' : α → β) (F : α → β) (l l' : List α)
    (h : l'.map canon' = l.map canon) (hacc : ∀ v, acc v = F (canon v)) (hacc' : ∀ v, acc' v = F (canon' v)) :
    l'.map acc' = l.map acc := by
  have h1 : acc' = F ∘ canon' := funext hacc'
  have h2 : acc = F ∘ canon := funext hacc
  rw [h1, h2, ← List.map_map, ← List.map_map, h]

/-- the context of C02's history theorems: saturation pressure `ps` (Pa), adsorbate and material constants, known
temperature -/
abbrev ctxOf (ps : α) (a : Ads α) (mat : Mat α) : Ctx α := ⟨some ps, envOf a mat, true⟩

/-- what `isotherm.pressure(pressure_mode=…, pressure_unit=…)` returns, row by row -/
def pressureColumn (c : Ctx α) (s : Iso α) (pm pu : Option String) : List (Except Err α) :=
  s.ps.map fun v => accessPressure c s.lab v pm pu

/-- what `isotherm.loading(loading_basis=…, loading_unit=…, material_basis=…, material_unit=…)` returns, row by row -/
def loadingColumn (c : Ctx α) (s : Iso α) (lb lu mb mu : Option String) : List (Except Err α) :=
  s.ls.map fun v => accessLoadingTarget c s.lab v lb lu mb mu

/-- **A1 (pressure).** Hypotheses of C02 `run_any_history` (labels of the original isotherm name a supported
representation `r0`; consistent non-zero adsorbate / material constants; `ps ≠ 0`).  For ANY history `ops` of
conversion calls (any arguments, refused or not, single or combined) and any supported, fully specified pressure
target `b` (mode given; for an absolute target the unit given — an omitted mode or unit would default to the *stored*
one and the request would then mean something else after a conversion): the pressure accessor of the converted
isotherm returns row by row exactly what the accessor of the original returns, and every row is a number
(`.ok (v · Pa-per-original-unit / Pa-per-target-unit)`), not a refusal. -/
theorem access_after_history_pressure (ps : α) (hps : ps ≠ 0) (a : Ads α) (mat : Mat α) (hc : a.Consistent)
    (hp : a.Pos) (hmp : Mat.Pos mat) (s0 : Iso α) (r0 : Rep) (hs : s0.lab = labelsOf r0)
    (hr : C02.Rep.Valid ps a mat r0) (ops : List Op) (b : PRep) (sb : α)
    (hb : b.scale Gen.pressureUnits ps = some sb) :
    pressureColumn (ctxOf ps a mat) (run (ctxOf ps a mat) s0 ops) (some b.mode) b.unit
      = pressureColumn (ctxOf ps a mat) s0 (some b.mode) b.unit ∧
    pressureColumn (ctxOf ps a mat) s0 (some b.mode) b.unit = s0.ps.map (fun v => .ok (v * spOf ps r0.p / sb)) := by
  obtain ⟨rf, hv, _, hcn, _⟩ := C02.run_any_history ps hps a mat hc hp hmp s0 r0 hs hr ops
  obtain ⟨⟨hsp0, _⟩, _, _⟩ := hr.scales hps hp hmp
  obtain ⟨⟨hspf, _⟩, _, _⟩ := hv.scales hps hp hmp
  have h0 : ∀ v, accessPressure (ctxOf ps a mat) s0.lab v (some b.mode) b.unit
      = (fun x => Except.ok (x / sb)) (canonP ps r0 v) := fun v => by
    rw [hs, accessPressure_typed ps hps _ r0 _ hsp0 b sb hb v]; rfl
  have hf : ∀ v, accessPressure (ctxOf ps a mat) (run (ctxOf ps a mat) s0 ops).lab v (some b.mode) b.unit
      = (fun x => Except.ok (x / sb)) (canonP ps rf v) := fun v => by
    rw [hcn.lab, accessPressure_typed ps hps _ rf _ hspf b sb hb v]; rfl
  refine ⟨map_access_eq _ _ _ _ (fun x => Except.ok (x / sb)) _ _ hcn.ps h0 hf, ?_⟩
  unfold pressureColumn
  apply List.map_congr_left
  intro v _
  rw [h0]; rfl

/-- **A1 (loading, the call shape of the characterisation routines, general form).**
`loading(loading_basis=b, loading_unit=u)` with a physical target and NO material argument — what
`get_iso_loading_and_pressure_ordered` issues (molar/mmol, volume_liquid/cm3).  The stored loading may be in any
supported representation, fraction and percent included.  After ANY history the accessor returns the original
accessor's rows times `g(final material unit)/g(original material unit)` (gram of material per unit): the result is
per *stored* unit of material, so it changes by exactly that unit factor and by nothing else. -/
theorem access_after_history_loading_general (ps : α) (hps : ps ≠ 0) (a : Ads α) (mat : Mat α) (hc : a.Consistent)
    (hp : a.Pos) (hmp : Mat.Pos mat) (s0 : Iso α) (r0 : Rep) (hs : s0.lab = labelsOf r0)
    (hr : C02.Rep.Valid ps a mat r0) (ops : List Op) (b : LB) (u : String) (s2 : α)
    (h2 : physScale Gen.unitTable a b u = some s2) :
    ∃ rf : Rep, C02.Rep.Valid ps a mat rf ∧ (run (ctxOf ps a mat) s0 ops).lab = labelsOf rf ∧
      loadingColumn (ctxOf ps a mat) (run (ctxOf ps a mat) s0 ops) (some b.name) (some u) none none
        = s0.ls.map (fun v => .ok (v * slOf a r0.l r0.m / s2 * (gmOf mat rf.m / gmOf mat r0.m))) ∧
      loadingColumn (ctxOf ps a mat) s0 (some b.name) (some u) none none
        = s0.ls.map (fun v => .ok (v * slOf a r0.l r0.m / s2)) := by
  obtain ⟨rf, hv, _, hcn, _⟩ := C02.run_any_history ps hps a mat hc hp hmp s0 r0 hs hr ops
  obtain ⟨_, ⟨hsl0, _⟩, ⟨_, hg0⟩⟩ := hr.scales hps hp hmp
  obtain ⟨_, ⟨hslf, _⟩, ⟨_, hgf⟩⟩ := hv.scales hps hp hmp
  have hs2 : s2 ≠ 0 := C02.lscale_ne_zero_gen a hp r0.m (.phys b u) s2 h2
  refine ⟨rf, hv, hcn.lab, ?_, ?_⟩
  · refine map_access_eq (canonL a mat r0) (canonL a mat rf) _ _
      (fun x => Except.ok (x * gmOf mat rf.m / s2)) _ _ hcn.ls (fun v => ?_) (fun v => ?_)
    · simp only [canonL]; congr 1; field_simp
    · rw [hcn.lab, accessLoading_routine_typed a mat hc hp _ _ rf _ hslf b u s2 h2 v]
      simp only [canonL]; congr 1; field_simp
  · unfold loadingColumn
    apply List.map_congr_left
    intro v _
    rw [hs, accessLoading_routine_typed a mat hc hp _ _ r0 _ hsl0 b u s2 h2 v]

/-- **A1 (loading, the call shape of the characterisation routines).**  If the history leaves the *material* labels
as they were (it may change pressure mode / unit, loading basis / unit — also to fraction or percent and back —,
temperature unit, and may contain refused calls), the loading accessor of the converted isotherm returns row by row
exactly what the accessor of the original returns, and every row is a number. -/
theorem access_after_history_loading (ps : α) (hps : ps ≠ 0) (a : Ads α) (mat : Mat α) (hc : a.Consistent)
    (hp : a.Pos) (hmp : Mat.Pos mat) (s0 : Iso α) (r0 : Rep) (hs : s0.lab = labelsOf r0)
    (hr : C02.Rep.Valid ps a mat r0) (ops : List Op)
    (hmb : (run (ctxOf ps a mat) s0 ops).lab.mbasis = s0.lab.mbasis)
    (hmu : (run (ctxOf ps a mat) s0 ops).lab.munit = s0.lab.munit)
    (b : LB) (u : String) (s2 : α) (h2 : physScale Gen.unitTable a b u = some s2) :
    loadingColumn (ctxOf ps a mat) (run (ctxOf ps a mat) s0 ops) (some b.name) (some u) none none
      = loadingColumn (ctxOf ps a mat) s0 (some b.name) (some u) none none ∧
    loadingColumn (ctxOf ps a mat) s0 (some b.name) (some u) none none
      = s0.ls.map (fun v => .ok (v * slOf a r0.l r0.m / s2)) := by
  obtain ⟨rf, hv, hlab, h1, h0⟩ :=
    access_after_history_loading_general ps hps a mat hc hp hmp s0 r0 hs hr ops b u s2 h2
  obtain ⟨_, _, ⟨_, hg0⟩⟩ := hr.scales hps hp hmp
  have hm : rf.m = r0.m := by
    rw [hlab, hs] at hmb hmu
    have e1 : rf.m.b = r0.m.b := C02.MB.name_inj hmb
    have e2 : rf.m.u = r0.m.u := Option.some.inj hmu
    cases hrm : rf.m; cases hr0 : r0.m
    rw [hrm, hr0] at e1 e2
    simp only at e1 e2
    rw [e1, e2]
  refine ⟨?_, h0⟩
  rw [h1, h0, hm, div_self hg0]
  simp only [mul_one]

/-- **A1 (loading, fully specified target).**  Target loading representation `l` (physical, fraction or percent) AND
target material representation `m` both given.  Restriction (explicit): the stored loading of the original and of
the converted isotherm is physical, not fraction / percent — for a stored fraction the accessor with a material
change is wrong (finding S5a, `C03.S5_witness`), which is why the property excludes fractional representations.
Then the accessor of the converted isotherm returns exactly the rows of the accessor of the original (all numbers),
whatever the history did to pressure, loading, material and temperature representation. -/
theorem access_after_history_loading_target (ps : α) (hps : ps ≠ 0) (a : Ads α) (mat : Mat α) (hc : a.Consistent)
    (hp : a.Pos) (hmp : Mat.Pos mat) (s0 : Iso α) (r0 : Rep) (hs : s0.lab = labelsOf r0)
    (hr : C02.Rep.Valid ps a mat r0) (ops : List Op)
    (hf0 : isFrac s0.lab.lbasis = false) (hf' : isFrac (run (ctxOf ps a mat) s0 ops).lab.lbasis = false)
    (l : LRep) (m : MRep) (s2 g2 : α) (h2 : l.scale Gen.unitTable a m = some s2)
    (hg2 : m.grams Gen.unitTable mat = some g2) :
    loadingColumn (ctxOf ps a mat) (run (ctxOf ps a mat) s0 ops) (some l.basis) l.unit (some m.b.name) (some m.u)
      = loadingColumn (ctxOf ps a mat) s0 (some l.basis) l.unit (some m.b.name) (some m.u) ∧
    loadingColumn (ctxOf ps a mat) s0 (some l.basis) l.unit (some m.b.name) (some m.u)
      = s0.ls.map (fun v => .ok (v * slOf a r0.l r0.m / gmOf mat r0.m * g2 / s2)) := by
  obtain ⟨rf, hv, _, hcn, _⟩ := C02.run_any_history ps hps a mat hc hp hmp s0 r0 hs hr ops
  obtain ⟨_, ⟨hsl0, _⟩, ⟨hg0, _⟩⟩ := hr.scales hps hp hmp
  obtain ⟨_, ⟨hslf, _⟩, ⟨hgf, _⟩⟩ := hv.scales hps hp hmp
  have hn0 : ¬ isFrac r0.l.basis = true := by
    have : isFrac (labelsOf r0).lbasis = false := by rw [← hs]; exact hf0
    simpa [labelsOf] using this
  have hnf : ¬ isFrac rf.l.basis = true := by
    have : isFrac (labelsOf rf).lbasis = false := by rw [← hcn.lab]; exact hf'
    simpa [labelsOf] using this
  have h0 : ∀ v, accessLoadingTarget (ctxOf ps a mat) s0.lab v (some l.basis) l.unit (some m.b.name) (some m.u)
      = (fun x => Except.ok (x * g2 / s2)) (canonL a mat r0 v) := fun v => by
    rw [hs, accessLoading_full_typed a mat hc hp hmp _ _ r0 hn0 _ _ hsl0 hg0 l m s2 g2 h2 hg2 v]
    simp only [canonL]; congr 1; ring
  have hf : ∀ v, accessLoadingTarget (ctxOf ps a mat) (run (ctxOf ps a mat) s0 ops).lab v (some l.basis) l.unit
      (some m.b.name) (some m.u) = (fun x => Except.ok (x * g2 / s2)) (canonL a mat rf v) := fun v => by
    rw [hcn.lab, accessLoading_full_typed a mat hc hp hmp _ _ rf hnf _ _ hslf hgf l m s2 g2 h2 hg2 v]
    simp only [canonL]; congr 1; ring
  refine ⟨map_access_eq _ _ _ _ (fun x => Except.ok (x * g2 / s2)) _ _ hcn.ls h0 hf, ?_⟩
  unfold loadingColumn
  apply List.map_congr_left
  intro v _
  rw [h0]; rfl

/-- **A1 (temperature).** After any history the stored temperature, read in the stored scale, is the same Kelvin
value as before (the routines read `isotherm.temperature`, the Kelvin value). -/
theorem access_after_history_temperature (ps : α) (hps : ps ≠ 0) (a : Ads α) (mat : Mat α) (hc : a.Consistent)
    (hp : a.Pos) (hmp : Mat.Pos mat) (s0 : Iso α) (r0 : Rep) (hs : s0.lab = labelsOf r0)
    (hr : C02.Rep.Valid ps a mat r0) (ops : List Op) :
    ∃ rf : Rep, C02.Rep.Valid ps a mat rf ∧ (run (ctxOf ps a mat) s0 ops).lab = labelsOf rf ∧
      rf.t.toK (run (ctxOf ps a mat) s0 ops).temp = r0.t.toK s0.temp := by
  obtain ⟨rf, hv, _, hcn, _⟩ := C02.run_any_history ps hps a mat hc hp hmp s0 r0 hs hr ops
  exact ⟨rf, hv, hcn.lab, hcn.temp⟩

/-- **A1.** `access_after_history`: what a characterisation routine reads from the converted isotherm — the pressure
column in a fully specified target (e.g. relative pressure) and the loading column in the routines' call shape
(physical target basis and unit, no material argument) — is exactly what it reads from the original isotherm,
for ANY history of conversion calls that leaves the material labels as they were.  All restrictions are those of
`access_after_history_pressure` and `access_after_history_loading`. -/
theorem access_after_history (ps : α) (hps : ps ≠ 0) (a : Ads α) (mat : Mat α) (hc : a.Consistent)
    (hp : a.Pos) (hmp : Mat.Pos mat) (s0 : Iso α) (r0 : Rep) (hs : s0.lab = labelsOf r0)
    (hr : C02.Rep.Valid ps a mat r0) (ops : List Op)
    (hmb : (run (ctxOf ps a mat) s0 ops).lab.mbasis = s0.lab.mbasis)
    (hmu : (run (ctxOf ps a mat) s0 ops).lab.munit = s0.lab.munit)
    (pt : PRep) (sb : α) (hb : pt.scale Gen.pressureUnits ps = some sb)
    (b : LB) (u : String) (s2 : α) (h2 : physScale Gen.unitTable a b u = some s2) :
    pressureColumn (ctxOf ps a mat) (run (ctxOf ps a mat) s0 ops) (some pt.mode) pt.unit
      = pressureColumn (ctxOf ps a mat) s0 (some pt.mode) pt.unit ∧
    loadingColumn (ctxOf ps a mat) (run (ctxOf ps a mat) s0 ops) (some b.name) (some u) none none
      = loadingColumn (ctxOf ps a mat) s0 (some b.name) (some u) none none :=
  ⟨(access_after_history_pressure ps hps a mat hc hp hmp s0 r0 hs hr ops pt sb hb).1,
   (access_after_history_loading ps hps a mat hc hp hmp s0 r0 hs hr ops hmb hmu b u s2 h2).1⟩

/-- **A2.** `routine_invariant`: any characterisation routine — a function `f` of the accessed pressure and loading
columns (after `get_iso_loading_and_pressure_ordered`) — returns on the converted isotherm what it returns on the
original. -/
theorem routine_invariant {β : Type} (f : List (Except Err α) → List (Except Err α) → β)
    (ps : α) (hps : ps ≠ 0) (a : Ads α) (mat : Mat α) (hc : a.Consistent)
    (hp : a.Pos) (hmp : Mat.Pos mat) (s0 : Iso α) (r0 : Rep) (hs : s0.lab = labelsOf r0)
    (hr : C02.Rep.Valid ps a mat r0) (ops : List Op)
    (hmb : (run (ctxOf ps a mat) s0 ops).lab.mbasis = s0.lab.mbasis)
    (hmu : (run (ctxOf ps a mat) s0 ops).lab.munit = s0.lab.munit)
    (pt : PRep) (sb : α) (hb : pt.scale Gen.pressureUnits ps = some sb)
    (b : LB) (u : String) (s2 : α) (h2 : physScale Gen.unitTable a b u = some s2) :
    f (pressureColumn (ctxOf ps a mat) (run (ctxOf ps a mat) s0 ops) (some pt.mode) pt.unit)
      (loadingColumn (ctxOf ps a mat) (run (ctxOf ps a mat) s0 ops) (some b.name) (some u) none none)
    = f (pressureColumn (ctxOf ps a mat) s0 (some pt.mode) pt.unit)
      (loadingColumn (ctxOf ps a mat) s0 (some b.name) (some u) none none) := by
  obtain ⟨h1, h2'⟩ := access_after_history ps hps a mat hc hp hmp s0 r0 hs hr ops hmb hmu pt sb hb b u s2 h2
  rw [h1, h2']

/-- **A2 (two isotherms).** A routine comparing a sample with a reference isotherm (alpha-s): both may have been
converted by independent histories (each with its own adsorbate / material constants and saturation pressure). -/
theorem routine_invariant_two {β : Type}
    (f : List (Except Err α) → List (Except Err α) → List (Except Err α) → List (Except Err α) → β)
    (ps : α) (hps : ps ≠ 0) (a : Ads α) (mat : Mat α) (hc : a.Consistent)
    (hp : a.Pos) (hmp : Mat.Pos mat) (s0 : Iso α) (r0 : Rep) (hs : s0.lab = labelsOf r0)
    (hr : C02.Rep.Valid ps a mat r0) (ops : List Op)
    (hmb : (run (ctxOf ps a mat) s0 ops).lab.mbasis = s0.lab.mbasis)
    (hmu : (run (ctxOf ps a mat) s0 ops).lab.munit = s0.lab.munit)
    (ps' : α) (hps' : ps' ≠ 0) (a' : Ads α) (mat' : Mat α) (hc' : a'.Consistent)
    (hp' : a'.Pos) (hmp' : Mat.Pos mat') (t0 : Iso α) (q0 : Rep) (ht : t0.lab = labelsOf q0)
    (hq : C02.Rep.Valid ps' a' mat' q0) (ops' : List Op)
    (hmb' : (run (ctxOf ps' a' mat') t0 ops').lab.mbasis = t0.lab.mbasis)
    (hmu' : (run (ctxOf ps' a' mat') t0 ops').lab.munit = t0.lab.munit)
    (pt : PRep) (sb sb' : α) (hb : pt.scale Gen.pressureUnits ps = some sb)
    (hb' : pt.scale Gen.pressureUnits ps' = some sb')
    (b : LB) (u : String) (s2 s2' : α) (h2 : physScale Gen.unitTable a b u = some s2)
    (h2' : physScale Gen.unitTable a' b u = some s2') :
    f (pressureColumn (ctxOf ps a mat) (run (ctxOf ps a mat) s0 ops) (some pt.mode) pt.unit)
      (loadingColumn (ctxOf ps a mat) (run (ctxOf ps a mat) s0 ops) (some b.name) (some u) none none)
      (pressureColumn (ctxOf ps' a' mat') (run (ctxOf ps' a' mat') t0 ops') (some pt.mode) pt.unit)
      (loadingColumn (ctxOf ps' a' mat') (run (ctxOf ps' a' mat') t0 ops') (some b.name) (some u) none none)
    = f (pressureColumn (ctxOf ps a mat) s0 (some pt.mode) pt.unit)
      (loadingColumn (ctxOf ps a mat) s0 (some b.name) (some u) none none)
      (pressureColumn (ctxOf ps' a' mat') t0 (some pt.mode) pt.unit)
      (loadingColumn (ctxOf ps' a' mat') t0 (some b.name) (some u) none none) := by
  obtain ⟨e1, e2⟩ := access_after_history ps hps a mat hc hp hmp s0 r0 hs hr ops hmb hmu pt sb hb b u s2 h2
  obtain ⟨e3, e4⟩ :=
    access_after_history ps' hps' a' mat' hc' hp' hmp' t0 q0 ht hq ops' hmb' hmu' pt sb' hb' b u s2' h2'
  rw [e1, e2, e3, e4]

end Representation

/-! ## Witnesses: the two explicit restrictions of part A cannot be dropped (N2-like rationals of C02/C03) -/
section Witness
open PgVerif.Model

/-- **the material hypothesis of `access_after_history_loading` is necessary**: after `convert_material('volume','cm3')`
the routines' call `loading(loading_basis='molar', loading_unit='mmol')` returns mmol per cm3 of material (4 = 2·ρ)
instead of mmol per g (2): the result is reported per stored unit of material
(`access_after_history_loading_general`: it changes by exactly `g(cm3)/g(g) = ρ_material = 2`). -/
theorem material_conversion_witness :
    loadingColumn C03.ctxW (run C03.ctxW C03.isoMolar [.material (some "volume") (some "cm3")])
        (some "molar") (some "mmol") none none = [.ok 4] ∧
    loadingColumn C03.ctxW C03.isoMolar (some "molar") (some "mmol") none none = [.ok 2] := by
  decide +kernel

/-- **the non-fraction restriction of `access_after_history_loading_target` is necessary** (finding S5a seen from C15):
after `convert_loading('fraction')` the accessor with a material target returns 16/5 instead of 4. -/
theorem fraction_target_witness :
    isFrac (run C03.ctxW C03.isoMolar [.loading (some "fraction") none]).lab.lbasis = true ∧
    loadingColumn C03.ctxW (run C03.ctxW C03.isoMolar [.loading (some "fraction") none])
        (some "molar") (some "mmol") (some "volume") (some "cm3") = [.ok (16 / 5)] ∧
    loadingColumn C03.ctxW C03.isoMolar (some "molar") (some "mmol") (some "volume") (some "cm3") = [.ok 4] := by
  decide +kernel

/-- … while in the routines' call shape (no material argument) the same history changes nothing, as
`access_after_history_loading` says. -/
example :
    loadingColumn C03.ctxW (run C03.ctxW C03.isoMolar [.loading (some "fraction") none])
        (some "molar") (some "mmol") none none
      = loadingColumn C03.ctxW C03.isoMolar (some "molar") (some "mmol") none none := by
  decide +kernel

/-- **the saturation pressure enters every mode conversion in the isotherm's OWN pressure unit, whatever the source of the
number** (backend or a literal of a user-defined adsorbate: the model's context holds one value in Pa, here 90000).
What a routine reads with `pressure_mode='relative'` from 45 kPa, from 45000 Pa and from 0.45 bar is the same 1/2; the
quotient by the UNCONVERTED constant (45 / 90000, what an accessor returns that hands the stored Pa value back without
the unit conversion) is another number — so the model, and by the correspondence check the code, distinguishes the two
(round 7, seeded change C15-m1: the stored-literal fall-back of `Adsorbate.saturation_pressure`). -/
theorem saturation_pressure_unit_witness :
    accessPressure (⟨some 90000, C03.ctxW.env, true⟩ : Ctx ℚ) ⟨"absolute", some "kPa", "molar", some "mmol", "mass", some "g", some "K"⟩
        45 (some "relative") none = .ok (1 / 2) ∧
    accessPressure (⟨some 90000, C03.ctxW.env, true⟩ : Ctx ℚ) ⟨"absolute", some "Pa", "molar", some "mmol", "mass", some "g", some "K"⟩
        45000 (some "relative") none = .ok (1 / 2) ∧
    accessPressure (⟨some 90000, C03.ctxW.env, true⟩ : Ctx ℚ) ⟨"absolute", some "bar", "molar", some "mmol", "mass", some "g", some "K"⟩
        (9 / 20) (some "relative") none = .ok (1 / 2) ∧
    inputPressure (⟨some 90000, C03.ctxW.env, true⟩ : Ctx ℚ) ⟨"absolute", some "kPa", "molar", some "mmol", "mass", some "g", some "K"⟩
        (1 / 2) (some "relative") none = .ok 45 ∧
    ((45 : ℚ) / 90000 ≠ 1 / 2) := by
  decide +kernel

end Witness

/-! ## D. non-vacuity -/
section NonVacuity
open PgVerif.Model PgVerif.Units
open PgVerif.Spec (LB MB Ads Mat PRep LRep MRep TRep physScale)

/-- the hypotheses of `access_after_history` are met by the example of C02 (1 bar, 2 bar; 3, 4 mmol/g; N2-like
constants) with the history bar → relative% → (loading to fraction) → kPa, with a refused call in between;
target: relative pressure, molar/mmol -/
example :
    let ops : List Op := [.pressure (some "relative%") none, .loading (some "fraction") none,
      .pressure none (some "psi"), .pressure (some "absolute") (some "kPa"), .temperature (some "°C")]
    pressureColumn (ctxOf (101325 : ℚ) C02.exAds C02.exMat) (run (ctxOf 101325 C02.exAds C02.exMat) C02.exIso ops)
        (some (PRep.rel none).mode) (PRep.rel none).unit
      = pressureColumn (ctxOf 101325 C02.exAds C02.exMat) C02.exIso (some (PRep.rel none).mode) (PRep.rel none).unit ∧
    loadingColumn (ctxOf (101325 : ℚ) C02.exAds C02.exMat) (run (ctxOf 101325 C02.exAds C02.exMat) C02.exIso ops)
        (some LB.molar.name) (some "mmol") none none
      = loadingColumn (ctxOf 101325 C02.exAds C02.exMat) C02.exIso (some LB.molar.name) (some "mmol") none none := by
  intro ops
  have hA : C02.exAds.Consistent ∧ C02.exAds.Pos ∧ Mat.Pos C02.exMat ∧ (101325 : ℚ) ≠ 0 := by
    refine ⟨⟨?_, ?_⟩, ⟨?_, ?_, ?_, ?_, ?_⟩, ⟨?_, ?_⟩, ?_⟩ <;> norm_num [C02.exAds, C02.exMat]
  have hV : C02.Rep.Valid (101325 : ℚ) C02.exAds C02.exMat C02.exRep :=
    ⟨by decide +kernel, by decide +kernel, by decide +kernel, Or.inl rfl⟩
  exact access_after_history (101325 : ℚ) hA.2.2.2 C02.exAds C02.exMat hA.1 hA.2.1 hA.2.2.1 C02.exIso C02.exRep rfl hV
    ops (by decide +kernel) (by decide +kernel) (.rel none) 101325 (by decide +kernel) .molar "mmol" (1 / 1000)
    (by decide +kernel)

/-- and the numbers: relative pressures 100000/101325, 200000/101325; loadings 3, 4 mmol/g, read from the converted
isotherm (stored in kPa / fraction / °C) -/
example :
    let ops : List Op := [.pressure (some "relative%") none, .loading (some "fraction") none,
      .pressure none (some "psi"), .pressure (some "absolute") (some "kPa"), .temperature (some "°C")]
    (run C02.exCtx C02.exIso ops).lab = ⟨"absolute", some "kPa", "fraction", none, "mass", some "g", some "°C"⟩ ∧
    pressureColumn C02.exCtx (run C02.exCtx C02.exIso ops) (some "relative") none
      = [.ok (100000 / 101325), .ok (200000 / 101325)] ∧
    loadingColumn C02.exCtx (run C02.exCtx C02.exIso ops) (some "molar") (some "mmol") none none = [.ok 3, .ok 4] := by
  decide +kernel

/-- guards of `bet_end_to_end_scale`: a BET line with non-zero intercept (data on `y = p + 1`) -/
example :
    (ols ([1/10, 2/10, 3/10] : List ℝ)
      (List.zipWith bet_transform [1/10, 2/10, 3/10] [10/99, 5/24, 30/91])) = (1, 1) ∧
    (ols ([1/10, 2/10, 3/10] : List ℝ)
      (List.zipWith bet_transform [1/10, 2/10, 3/10] [10/99, 5/24, 30/91])).2 ≠ 0 := by
  have h : List.zipWith bet_transform ([1/10, 2/10, 3/10] : List ℝ) [10/99, 5/24, 30/91]
      = ([1/10, 2/10, 3/10] : List ℝ).map (fun x => 1 * x + 1) := by
    norm_num [bet_transform, roq_transform]
  have hr := C14.ols_exact_of_sorted (1 : ℝ) 1 [1/10, 2/10, 3/10] _ h (by norm_num) (by norm_num)
  rw [hr]; norm_num

/-- guards of `da_end_to_end_scale` and `enthalpy_ols_pressure_unit` -/
example : ([1, 2] : List ℝ) ≠ [] ∧ (∀ n ∈ ([1, 2] : List ℝ), n * 28 / (4 / 5) ≠ 0) ∧
    (∀ p ∈ ([1, 2] : List ℝ), 0 < p) := by
  refine ⟨by simp, ?_, ?_⟩ <;> intro x hx <;> simp at hx <;> rcases hx with rfl | rfl <;> norm_num

/-- hypothesis of `henry_constant_units_lsq`: `K = 2` minimises the squared residuals of the data `n = 2 p` -/
example : ∀ K', henrySSE 2 [1, 2] [2, 4] ≤ henrySSE K' [1, 2] [2, 4] := by
  intro K'
  have h0 : henrySSE 2 [1, 2] [2, 4] = 0 := by norm_num [henrySSE, Gen.R.Henry_loading, sum]
  rw [h0]
  simp only [henrySSE, List.zipWith_cons_cons, List.zipWith_nil_right, sum_cons, sum_nil]
  positivity

/-- the mesopore and micropore statements on concrete rationals (three intervals, `k = 2`): non-empty results -/
example :
    (Model.Meso.pygapsDH 2 (([3, 5, 8, 9] : List ℚ).map fun v => 2 * v) [1/2, 1, 3/2, 2] [1, 2, 4, 7]).volumes
      = (Model.Meso.pygapsDH 2 ([3, 5, 8, 9] : List ℚ) [1/2, 1, 3/2, 2] [1, 2, 4, 7]).volumes.map (fun v => 2 * v) ∧
    (Model.Meso.pygapsDH 2 ([3, 5, 8, 9] : List ℚ) [1/2, 1, 3/2, 2] [1, 2, 4, 7]).volumes.length = 3 ∧
    (Model.Meso.bjh ([3, 5, 8, 9] : List ℚ) [1/2, 1, 3/2, 2] [1, 2, 4, 7]).areas.length = 3 ∧
    (Model.Meso.dollimoreHeal ([3, 5, 8, 9] : List ℚ) [1/2, 1, 3/2, 2] [1, 2, 4, 7]).distribution.length = 3 ∧
    (Model.Micro.tail ([1, 2, 4] : List ℚ) [3, 5, 8, 9]).distribution = [2, 3 / 2] := by
  decide +kernel

end NonVacuity

end PgVerif.Props.C15
