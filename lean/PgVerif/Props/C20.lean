/-
C20 — shipped adsorbates resolve uniquely; fallback logic never returns a silent wrong number.

`Gen.Registry` is regenerated on every run from data/adsorbates.json and data/default.db; the finite facts
are decided completely inside the kernel (`decide +kernel`), the lookup law is proved for every registry.
-/
import PgVerif.Model.Registry
import PgVerif.Lemmas.SortCheck
import Mathlib.Data.List.Nodup
import Mathlib.Data.List.Basic
import Mathlib.Tactic

namespace PgVerif.C20
open PgVerif.Model.Registry PgVerif.Gen.Registry

/-! ## every name or alias designates exactly one adsorbate -/

/-- no alias key occurs twice in the packaged database (neither within one adsorbate nor across two) -/
theorem db_alias_unique : (allKeys dbKeys).Nodup :=
  PgVerif.SortCheck.nodup_of_check 12 _ (by decide +kernel)

/-- nor in the JSON source list -/
theorem json_alias_unique : (allKeys jsonKeys).Nodup :=
  PgVerif.SortCheck.nodup_of_check 12 _ (by decide +kernel)

/-- the JSON source list and the packaged database hold the same adsorbates with the same aliases, in the same order -/
theorem json_and_db_agree : jsonKeys = dbKeys := by decide +kernel

/-- every adsorbate is findable by its own name: its alias list is non-empty -/
theorem every_entry_has_alias : dbKeys.all (fun e => !e.2.isEmpty) = true := by decide +kernel

/-! ## lookup law, for every registry -/

/-- if no alias occurs twice, looking up any alias of an entry returns that entry -/
theorem find_of_unique {β : Type} (reg : List (β × List Nat)) (hu : (allKeys reg).Nodup)
    (e : β × List Nat) (he : e ∈ reg) (k : Nat) (hk : k ∈ e.2) : find reg k = some e.1 := by
  unfold find
  induction reg with
  | nil => simp at he
  | cons a rest ih =>
    simp only [allKeys, List.flatMap_cons] at hu
    rw [List.nodup_append] at hu
    obtain ⟨_, hrest, hdisj⟩ := hu
    rw [List.find?_cons]
    by_cases ha : a.2.contains k = true
    · simp only [ha]
      rcases List.mem_cons.mp he with rfl | he'
      · rfl
      · exfalso
        have hk1 : k ∈ a.2 := by simpa using ha
        have hk2 : k ∈ List.flatMap (·.2) rest := List.mem_flatMap.mpr ⟨e, he', hk⟩
        exact hdisj k hk1 k hk2 rfl
    · simp only [ha]
      rcases List.mem_cons.mp he with rfl | he'
      · exact absurd (by simpa using hk) ha
      · exact ih hrest he'

/-- a key that is no alias of any entry is not found (`Adsorbate.find` raises ParameterError) -/
theorem find_none_of_absent {β : Type} (reg : List (β × List Nat)) (k : Nat) (hk : k ∉ allKeys reg) :
    find reg k = none := by
  unfold find
  rw [Option.map_eq_none_iff, List.find?_eq_none]
  intro e he hc
  apply hk
  exact List.mem_flatMap.mpr ⟨e, he, by simpa using hc⟩

/-- **every shipped alias resolves to its owner** (database order = `ADSORBATE_LIST`) -/
theorem find_resolves_every_alias (e : String × List Nat) (he : e ∈ dbKeys) (k : Nat) (hk : k ∈ e.2) :
    find dbKeys k = some e.1 :=
  find_of_unique dbKeys db_alias_unique e he k hk

/-- and every adsorbate is found by (the key of) its own lower-cased name, which the constructor always adds -/
theorem find_own_name :
    (List.zip dbKeys dbNameKeys).all (fun ek => find dbKeys ek.2 == some ek.1.1) = true ∧
    dbNameKeys.length = dbKeys.length := by
  decide +kernel

/-- the lookup depends on the lower-cased string only: any letter case gives the same answer -/
theorem find_case_insensitive (s₁ s₂ : String) (h : s₁.toLower = s₂.toLower) :
    find dbKeys (encode s₁.toLower) = find dbKeys (encode s₂.toLower) := by rw [h]

/-! ## fallback logic of the thermodynamic accessors -/

variable {α : Type}

/-- never a silent wrong number: the result is the backend value, else the user value, else a calculation error -/
theorem fallback_never_silent (calculate : Bool) (backend user : Option α) :
    (∃ v, backend = some v ∧ calculate = true ∧ propValue calculate backend user = .ok v) ∨
    (∃ u, user = some u ∧ (calculate = false ∨ backend = none) ∧ propValue calculate backend user = .ok u) ∨
    (user = none ∧ (calculate = false ∨ backend = none) ∧ propValue calculate backend user = .error .calc) := by
  cases calculate <;> cases backend <;> cases user <;> simp [propValue]

theorem backend_wins (v : α) (user : Option α) : propValue true (some v) user = .ok v := rfl

theorem user_value_when_backend_fails (u : α) : propValue true none (some u) = .ok u := rfl

theorem error_when_nothing (c : Bool) : propValue c (none : Option α) none = .error .calc := by
  cases c <;> rfl

/-! ## non-vacuity -/

example : find dbKeys 93746 = some "nitrogen" := by decide +kernel   -- 93746 = key of "n2"
example : find dbKeys 1 = none := by decide +kernel
example : encode "n2" = 93746 := by decide +kernel

end PgVerif.C20
