/-
C12 — model fitting is self-consistent.  (stub; theorems are being added)
-/
import PgVerif.Model.Fit
import Mathlib.Algebra.Order.Field.Rat
import Mathlib.Tactic

namespace PgVerif.Props.C12
open PgVerif.Model.Fit

/-- a guess inside its bounds is left alone by `initial_guess_bounds` -/
theorem clamp_of_inBounds (lo hi : Option ℚ) (v : ℚ) (h : inBounds lo hi v) : clamp lo hi v = v := by
  obtain ⟨h1, h2⟩ := h
  unfold clamp
  cases lo <;> cases hi <;> simp_all [not_lt.mpr]

end PgVerif.Props.C12
