/-
C12 — model fitting is self-consistent.

Everything around the numerical optimiser that is logic or algebra (the optimiser itself, scipy `least_squares`,
is checked per fit by the harness):

* A. the reported error (`base_model.py` l.267, `virial.py`): non-negative, zero iff the fitted model passes through
     every point, unit-free; data generated exactly from the model is a global minimiser with error 0;
* B. `attempts[errors.index(min(errors))]` (`modelisotherm.py` `guess`): the first attempt with the smallest error;
* C. `initial_guess_bounds`: clamped guesses respect the bounds in force;
* D. branch selection;
* E. unit covariance of the generated model equations and of the least-squares problem;
* F. non-vacuity examples.
* G./H. (Props/C12/Guess.lean) the whole loop of `ModelIsotherm.guess` with candidates that are refused (`guessIdx`), and an error
     derived from the optimiser's cost vs. the reported error.

Statements of A are over an arbitrary ordered field, B/C over an arbitrary linear order, E over ℝ about the
GENERATED functions `PgVerif.Gen.R.*`.
-/
import PgVerif.Model.Fit
import PgVerif.Gen.ModelsR
import Mathlib.Algebra.Order.Field.Rat
import Mathlib.Tactic

namespace PgVerif.Props.C12
open PgVerif.Model.Fit

/-! ## helper facts -/

section helpersField
variable {α : Type} [Field α]

lemma sumSq_nil : sumSq ([] : List α) = 0 := by simp [sumSq]

lemma sumSq_cons (r : α) (rs : List α) : sumSq (r :: rs) = r * r + sumSq rs := by simp [sumSq]

lemma sumSq_map_mul (k : α) (rs : List α) : sumSq (rs.map (k * ·)) = k * k * sumSq rs := by
  induction rs with
  | nil => simp [sumSq]
  | cons r rs ih => rw [List.map_cons, sumSq_cons, sumSq_cons, ih]; ring

end helpersField

section helpers
variable {α : Type} [Field α] [LinearOrder α] [IsStrictOrderedRing α]

lemma sumSq_nonneg (rs : List α) : 0 ≤ sumSq rs := by
  induction rs with
  | nil => simp [sumSq]
  | cons r rs ih => rw [sumSq_cons]; exact add_nonneg (mul_self_nonneg r) ih

lemma sumSq_eq_zero_iff (rs : List α) : sumSq rs = 0 ↔ ∀ r ∈ rs, r = 0 := by
  induction rs with
  | nil => simp [sumSq]
  | cons r rs ih =>
    rw [sumSq_cons, add_eq_zero_iff_of_nonneg (mul_self_nonneg r) (sumSq_nonneg rs), ih, mul_self_eq_zero]
    simp

lemma length_pos_cast {rs : List α} (h : rs ≠ []) : (0 : α) < (rs.length : α) := by
  have : 0 < rs.length := List.length_pos_iff.mpr h
  exact_mod_cast this

end helpers

section bestHelpers
variable {α : Type} [LinearOrder α]

/-- invariant of the scan: either the incumbent survives (and is ≤ everything scanned), or the result is the first
strict improvement that is minimal in the scanned part -/
lemma bestIdxAux_spec (es : List α) : ∀ (i bi : Nat) (be : α),
    (bestIdxAux es i bi be = bi ∧ ∀ k (hk : k < es.length), be ≤ es[k]) ∨
    (∃ k, ∃ hk : k < es.length, bestIdxAux es i bi be = i + k ∧ es[k] < be ∧
        (∀ j (hj : j < es.length), es[k] ≤ es[j]) ∧ ∀ j (hj : j < k), es[k] < es[j]'(hj.trans hk)) := by
  induction es with
  | nil => intro i bi be; left; simp [bestIdxAux]
  | cons e es ih =>
    intro i bi be
    by_cases h : e < be
    · have hr : bestIdxAux (e :: es) i bi be = bestIdxAux es (i + 1) i e := by simp [bestIdxAux, h]
      rw [hr]
      rcases ih (i + 1) i e with ⟨h1, h2⟩ | ⟨k, hk, h1, h2, h3, h4⟩
      · right
        refine ⟨0, by simp, by simpa using h1, by simpa using h, ?_, ?_⟩
        · intro j hj
          cases j with
          | zero => simp
          | succ j => simpa using h2 j (by simpa using hj)
        · intro j hj; omega
      · right
        refine ⟨k + 1, by simpa using hk, by rw [h1]; ring, by simpa using h2.trans h, ?_, ?_⟩
        · intro j hj
          cases j with
          | zero => simpa using h2.le
          | succ j => simpa using h3 j (by simpa using hj)
        · intro j hj
          cases j with
          | zero => simpa using h2
          | succ j => simpa using h4 j (by omega)
    · have hr : bestIdxAux (e :: es) i bi be = bestIdxAux es (i + 1) bi be := by simp [bestIdxAux, h]
      rw [hr]
      have h' : be ≤ e := not_lt.mp h
      rcases ih (i + 1) bi be with ⟨h1, h2⟩ | ⟨k, hk, h1, h2, h3, h4⟩
      · left
        refine ⟨h1, ?_⟩
        intro j hj
        cases j with
        | zero => simpa using h'
        | succ j => simpa using h2 j (by simpa using hj)
      · right
        refine ⟨k + 1, by simpa using hk, by rw [h1]; ring, by simpa using h2, ?_, ?_⟩
        · intro j hj
          cases j with
          | zero => simpa using (h2.trans_le h').le
          | succ j => simpa using h3 j (by simpa using hj)
        · intro j hj
          cases j with
          | zero => simpa using h2.trans_le h'
          | succ j => simpa using h4 j (by omega)

end bestHelpers

/-! ## B. best of a list -/

section best
variable {α : Type} [LinearOrder α]

/-- `errors.index(min(errors))` of an empty list of attempts: nothing is returned -/
theorem bestIdx_nil : bestIdx ([] : List α) = none := rfl

/-- the attempt returned has the smallest reported error, and it is the FIRST attempt with that error
(Python `errors.index(min(errors))`) -/
theorem bestIdx_spec (es : List α) (hne : es ≠ []) :
    ∃ i, bestIdx es = some i ∧ ∃ hi : i < es.length,
      (∀ j (hj : j < es.length), es[i] ≤ es[j]) ∧ ∀ j (hj : j < i), es[i] < es[j]'(hj.trans hi) := by
  cases es with
  | nil => exact absurd rfl hne
  | cons e es =>
    refine ⟨bestIdxAux es 1 0 e, rfl, ?_⟩
    rcases bestIdxAux_spec es 1 0 e with ⟨h1, h2⟩ | ⟨k, hk, h1, h2, h3, h4⟩
    · simp only [h1]
      refine ⟨by simp, ?_, ?_⟩
      · intro j hj
        cases j with
        | zero => simp
        | succ j => simpa using h2 j (by simpa using hj)
      · intro j hj; omega
    · have hk1 : 1 + k = k + 1 := by ring
      simp only [h1, hk1]
      refine ⟨by simpa using hk, ?_, ?_⟩
      · intro j hj
        cases j with
        | zero => simpa using h2.le
        | succ j => simpa using h3 j (by simpa using hj)
      · intro j hj
        cases j with
        | zero => simpa using h2
        | succ j => simpa using h4 j (by omega)

/-- an index that is minimal and first-minimal is unique: the model returned is determined by the list of errors -/
theorem bestIdx_unique (es : List α) (i i' : Nat) (hi : i < es.length) (hi' : i' < es.length)
    (hmin : ∀ j (hj : j < es.length), es[i] ≤ es[j]) (hfirst : ∀ j (hj : j < i), es[i] < es[j]'(hj.trans hi))
    (hmin' : ∀ j (hj : j < es.length), es[i'] ≤ es[j]) (hfirst' : ∀ j (hj : j < i'), es[i'] < es[j]'(hj.trans hi')) :
    i = i' := by
  rcases lt_trichotomy i i' with h | h | h
  · exact absurd (hfirst' i h) (not_lt.mpr (hmin i' hi'))
  · exact h
  · exact absurd (hfirst i' h) (not_lt.mpr (hmin' i hi))

/-- complete characterisation of the returned index -/
theorem bestIdx_eq_some_iff (es : List α) (i : Nat) :
    bestIdx es = some i ↔ ∃ hi : i < es.length,
      (∀ j (hj : j < es.length), es[i] ≤ es[j]) ∧ ∀ j (hj : j < i), es[i] < es[j]'(hj.trans hi) := by
  constructor
  · intro h
    have hne : es ≠ [] := by rintro rfl; simp [bestIdx] at h
    obtain ⟨i0, h0, hi0, h1, h2⟩ := bestIdx_spec es hne
    rw [h0] at h
    obtain rfl : i0 = i := Option.some.inj h
    exact ⟨hi0, h1, h2⟩
  · rintro ⟨hi, h1, h2⟩
    have hne : es ≠ [] := by rintro rfl; simp at hi
    obtain ⟨i0, h0, hi0, h1', h2'⟩ := bestIdx_spec es hne
    rw [h0, bestIdx_unique es i0 i hi0 hi h1' h2' h1 h2]

/-- something is returned iff at least one attempt converged -/
theorem bestIdx_isSome_iff (es : List α) : (bestIdx es).isSome ↔ es ≠ [] := by
  cases es <;> simp [bestIdx]

end best

/-! ## A. the reported error -/

section error
variable {α : Type} [Field α] [LinearOrder α] [IsStrictOrderedRing α]

/-- the mean of squared residuals is never negative (also for the empty list, where it is `0/0 = 0`) -/
theorem mse_nonneg (rs : List α) : 0 ≤ mse rs :=
  div_nonneg (sumSq_nonneg rs) (Nat.cast_nonneg _)

/-- the (square of the) reported error is never negative, whatever the range -/
theorem rmseSq_nonneg (rs : List α) (range : α) : 0 ≤ rmseSq rs range :=
  div_nonneg (mse_nonneg rs) (mul_self_nonneg range)

theorem rmseSqVirial_nonneg (rs : List α) : 0 ≤ rmseSqVirial rs := mse_nonneg rs

/-- for at least one data point: mean squared residual zero iff every residual is zero.
The guard `rs ≠ []` excludes the `0/0` point. -/
theorem mse_eq_zero_iff (rs : List α) (hne : rs ≠ []) : mse rs = 0 ↔ ∀ r ∈ rs, r = 0 := by
  unfold mse
  rw [div_eq_zero_iff, sumSq_eq_zero_iff]
  constructor
  · rintro (h | h)
    · exact h
    · exact absurd h (length_pos_cast hne).ne'
  · exact fun h => Or.inl h

/-- a reported error of zero means the fitted model passes through every data point (and conversely).
Guards: at least one point, and a non-degenerate model range (otherwise the Python value is `x/0`). -/
theorem rmseSq_eq_zero_iff (rs : List α) (range : α) (hne : rs ≠ []) (hr : range ≠ 0) :
    rmseSq rs range = 0 ↔ ∀ r ∈ rs, r = 0 := by
  unfold rmseSq
  rw [div_eq_zero_iff, mse_eq_zero_iff rs hne]
  constructor
  · rintro (h | h)
    · exact h
    · exact absurd h (mul_ne_zero hr hr)
  · exact fun h => Or.inl h

/-- the same for the Virial fit (no normalisation by a range) -/
theorem rmseSqVirial_eq_zero_iff (rs : List α) (hne : rs ≠ []) :
    rmseSqVirial rs = 0 ↔ ∀ r ∈ rs, r = 0 := mse_eq_zero_iff rs hne

/-- a change of loading unit (all residuals and the model range multiplied by the same `k ≠ 0`) leaves the reported
error unchanged: the documented normalisation makes it unit-free.  (No guard on `range` or `rs` is needed: in the
degenerate cases both sides are the same `x/0`.) -/
theorem rmseSq_scale (rs : List α) (range k : α) (hk : k ≠ 0) :
    rmseSq (rs.map (k * ·)) (k * range) = rmseSq rs range := by
  unfold rmseSq mse
  rw [sumSq_map_mul, List.length_map]
  have e1 : k * k * sumSq rs / (rs.length : α) = k * k * (sumSq rs / (rs.length : α)) := by ring
  have e2 : k * range * (k * range) = k * k * (range * range) := by ring
  rw [e1, e2, mul_div_mul_left _ _ (mul_ne_zero hk hk)]

/-- the Virial error is NOT normalised: a change of unit by `k` multiplies its square by `k²` -/
theorem rmseSqVirial_scale (rs : List α) (k : α) :
    rmseSqVirial (rs.map (k * ·)) = k * k * rmseSqVirial rs := by
  unfold rmseSqVirial mse
  rw [sumSq_map_mul, List.length_map]; ring

/-- on data generated exactly from the model (all residuals vanish at `θ₀`) the generating parameters minimise the
least-squares objective, with objective value 0; conversely any parameter vector with objective 0 reproduces every
data point. `Θ` is any type of parameter vectors, `res` any residual function. -/
theorem exact_data_generator_is_global_minimiser {Θ : Type} (res : Θ → List α) (θ₀ : Θ)
    (h0 : ∀ r ∈ res θ₀, r = 0) :
    (∀ θ, sumSq (res θ₀) ≤ sumSq (res θ)) ∧ sumSq (res θ₀) = 0 ∧
      (∀ θ, sumSq (res θ) = 0 → ∀ r ∈ res θ, r = 0) ∧
      (∀ θ, sumSq (res θ) ≤ sumSq (res θ₀) → ∀ r ∈ res θ, r = 0) := by
  have hz : sumSq (res θ₀) = 0 := (sumSq_eq_zero_iff _).mpr h0
  refine ⟨fun θ => hz ▸ sumSq_nonneg _, hz, fun θ h => (sumSq_eq_zero_iff _).mp h, fun θ h => ?_⟩
  exact (sumSq_eq_zero_iff _).mp (le_antisymm (hz ▸ h) (sumSq_nonneg _))

/-- the reported error of the exact generator is 0 -/
theorem exact_data_rmseSq_zero (rs : List α) (range : α) (h0 : ∀ r ∈ rs, r = 0) : rmseSq rs range = 0 := by
  unfold rmseSq mse; rw [(sumSq_eq_zero_iff rs).mpr h0]; simp

end error

/-! ## C. bounds -/

section bounds
variable {α : Type} [LinearOrder α]

/-- a clamped value respects the bounds in force, provided the bounds are consistent (`lo ≤ hi` when both are finite) -/
theorem clamp_inBounds (lo hi : Option α) (v : α) (hlh : ∀ l h, lo = some l → hi = some h → l ≤ h) :
    inBounds lo hi (clamp lo hi v) := by
  unfold inBounds clamp
  cases lo with
  | none =>
    cases hi with
    | none => simp
    | some h =>
      simp only [reduceCtorEq, false_imp_iff, implies_true, Option.some.injEq, forall_eq', true_and]
      split_ifs with h1
      · exact le_refl _
      · exact not_lt.mp h1
  | some l =>
    cases hi with
    | none =>
      simp only [Option.some.injEq, forall_eq', reduceCtorEq, false_imp_iff, implies_true, and_true]
      split_ifs with h1
      · exact le_refl _
      · exact not_lt.mp h1
    | some h =>
      have hl : l ≤ h := hlh l h rfl rfl
      simp only [Option.some.injEq, forall_eq']
      split_ifs with h1 h2
      · exact ⟨hl, le_refl _⟩
      · exact ⟨le_refl _, hl⟩
      · exact ⟨not_lt.mp h2, not_lt.mp h1⟩

/-- a guess inside its bounds is left alone by `initial_guess_bounds` -/
theorem clamp_of_inBounds (lo hi : Option α) (v : α) (h : inBounds lo hi v) : clamp lo hi v = v := by
  obtain ⟨h1, h2⟩ := h
  unfold clamp
  cases lo <;> cases hi <;> simp_all [not_lt.mpr]

/-- clamping twice is clamping once (consistent bounds) -/
theorem clamp_idempotent (lo hi : Option α) (v : α) (hlh : ∀ l h, lo = some l → hi = some h → l ≤ h) :
    clamp lo hi (clamp lo hi v) = clamp lo hi v :=
  clamp_of_inBounds lo hi _ (clamp_inBounds lo hi v hlh)

/-- `clamp` fixes exactly the values inside the bounds (consistent bounds) -/
theorem clamp_eq_self_iff (lo hi : Option α) (v : α) (hlh : ∀ l h, lo = some l → hi = some h → l ≤ h) :
    clamp lo hi v = v ↔ inBounds lo hi v :=
  ⟨fun h => h ▸ clamp_inBounds lo hi v hlh, clamp_of_inBounds lo hi v⟩

theorem clampGuess_length (bounds : List (Option α × Option α)) (guess : List α) :
    (clampGuess bounds guess).length = min bounds.length guess.length := by
  unfold clampGuess; exact List.length_zipWith

/-- one bound pair per parameter: as many clamped guesses as guesses -/
theorem clampGuess_length_eq (bounds : List (Option α × Option α)) (guess : List α)
    (hlen : bounds.length = guess.length) : (clampGuess bounds guess).length = guess.length := by
  rw [clampGuess_length, hlen, min_self]

/-- every clamped guess respects its own bounds -/
theorem clampGuess_inBounds (bounds : List (Option α × Option α)) (guess : List α)
    (hlh : ∀ bd ∈ bounds, ∀ l h, bd.1 = some l → bd.2 = some h → l ≤ h)
    (i : Nat) (hi : i < (clampGuess bounds guess).length) :
    inBounds (bounds[i]'(by rw [clampGuess_length] at hi; omega)).1
             (bounds[i]'(by rw [clampGuess_length] at hi; omega)).2 ((clampGuess bounds guess)[i]) := by
  have hb : i < bounds.length := by rw [clampGuess_length] at hi; omega
  have e : (clampGuess bounds guess)[i] = clamp (bounds[i]).1 (bounds[i]).2
      (guess[i]'(by rw [clampGuess_length] at hi; omega)) := by
    exact List.getElem_zipWith
  rw [e]
  exact clamp_inBounds _ _ _ (hlh _ (List.getElem_mem hb))

/-- guesses already inside their bounds are returned unchanged -/
theorem clampGuess_of_inBounds (bounds : List (Option α × Option α)) (guess : List α)
    (hlen : bounds.length = guess.length)
    (hin : ∀ i (hb : i < bounds.length) (hg : i < guess.length), inBounds (bounds[i]).1 (bounds[i]).2 guess[i]) :
    clampGuess bounds guess = guess := by
  apply List.ext_getElem (clampGuess_length_eq bounds guess hlen)
  intro i h1 h2
  have hb : i < bounds.length := by omega
  have e : (clampGuess bounds guess)[i] = clamp (bounds[i]).1 (bounds[i]).2 guess[i] := by
    exact List.getElem_zipWith
  rw [e]
  exact clamp_of_inBounds _ _ _ (hin i hb h2)

end bounds

/-! ## D. branch selection -/

section branch
variable {β : Type}

/-- exactly the rows of the requested branch are used -/
theorem selectBranch_spec (rows : List (β × Nat)) (b : Nat) (x : β) :
    x ∈ selectBranch rows b ↔ (x, b) ∈ rows := by
  unfold selectBranch
  simp only [List.mem_map, List.mem_filter, decide_eq_true_eq]
  constructor
  · rintro ⟨⟨y, c⟩, ⟨hm, hc⟩, rfl⟩
    simp only at hc
    subst hc; exact hm
  · intro h; exact ⟨(x, b), ⟨h, rfl⟩, rfl⟩

/-- the order of the rows is kept -/
theorem selectBranch_sublist (rows : List (β × Nat)) (b : Nat) :
    List.Sublist (selectBranch rows b) (rows.map (·.1)) := by
  unfold selectBranch
  exact List.filter_sublist.map _

/-- adsorption rows and desorption rows partition the data -/
theorem selectBranch_partition (rows : List (β × Nat)) (h01 : ∀ r ∈ rows, r.2 = 0 ∨ r.2 = 1) :
    (selectBranch rows 0).length + (selectBranch rows 1).length = rows.length := by
  unfold selectBranch
  induction rows with
  | nil => simp
  | cons r rows ih =>
    have ih' := ih (fun r' hr' => h01 r' (List.mem_cons_of_mem _ hr'))
    simp only [List.length_map] at ih' ⊢
    rcases h01 r (List.mem_cons_self) with h | h
    · simp [h]; omega
    · simp [h]; omega

/-- rows of another branch never influence the result: deleting them changes nothing -/
theorem selectBranch_ignores_other (rows : List (β × Nat)) (b : Nat) :
    selectBranch (rows.filter (fun r => r.2 = b)) b = selectBranch rows b := by
  unfold selectBranch; rw [List.filter_filter]; simp

/-- a data set without rows of the requested branch gives nothing -/
theorem selectBranch_other_nil (rows : List (β × Nat)) (b : Nat) (h : ∀ r ∈ rows, r.2 ≠ b) :
    selectBranch rows b = [] := by
  unfold selectBranch
  simp only [List.map_eq_nil_iff, List.filter_eq_nil_iff, decide_eq_true_eq]
  exact h

/-- inserting rows of another branch anywhere does not change the selection -/
theorem selectBranch_append (r1 r2 : List (β × Nat)) (b : Nat) :
    selectBranch (r1 ++ r2) b = selectBranch r1 b ++ selectBranch r2 b := by
  unfold selectBranch; simp

end branch

/-! ## E. unit covariance

Pressure unit factor `a` (`p' = a·p`), loading unit factor `b` (`n' = b·n`).  Each theorem says: the generated model
equation evaluated with the transformed parameters at the transformed pressure is `b` times the original loading.
Only `a ≠ 0` / `b ≠ 0` is needed for the rational models (no division-by-zero convention is used: the guards make the
cancellations genuine); Freundlich needs `0 < a`, `0 ≤ p` for `rpow`. -/

section units
open PgVerif.Gen.R

theorem henry_units (K a b p : ℝ) (ha : a ≠ 0) :
    Henry_loading (b * K / a) (a * p) = b * Henry_loading K p := by
  unfold Henry_loading; field_simp

theorem langmuir_units (K n_m a b p : ℝ) (ha : a ≠ 0) :
    Langmuir_loading (K / a) (b * n_m) (a * p) = b * Langmuir_loading K n_m p := by
  unfold Langmuir_loading
  have e : K / a * (a * p) = K * p := by field_simp
  simp only [e]; ring

theorem dslangmuir_units (n_m1 K1 n_m2 K2 a b p : ℝ) (ha : a ≠ 0) :
    DSLangmuir_loading (b * n_m1) (K1 / a) (b * n_m2) (K2 / a) (a * p)
      = b * DSLangmuir_loading n_m1 K1 n_m2 K2 p := by
  unfold DSLangmuir_loading
  have e1 : K1 / a * (a * p) = K1 * p := by field_simp
  have e2 : K2 / a * (a * p) = K2 * p := by field_simp
  simp only [e1, e2]; ring

theorem tslangmuir_units (n_m1 n_m2 n_m3 K1 K2 K3 a b p : ℝ) (ha : a ≠ 0) :
    TSLangmuir_loading (b * n_m1) (b * n_m2) (b * n_m3) (K1 / a) (K2 / a) (K3 / a) (a * p)
      = b * TSLangmuir_loading n_m1 n_m2 n_m3 K1 K2 K3 p := by
  unfold TSLangmuir_loading
  have e1 : K1 / a * (a * p) = K1 * p := by field_simp
  have e2 : K2 / a * (a * p) = K2 * p := by field_simp
  have e3 : K3 / a * (a * p) = K3 * p := by field_simp
  simp only [e1, e2, e3]; ring

/-- Toth: `K·p` is invariant, so the `rpow` terms are literally unchanged (no sign guard needed) -/
theorem toth_units (n_m K t a b p : ℝ) (ha : a ≠ 0) :
    Toth_loading (b * n_m) (K / a) t (a * p) = b * Toth_loading n_m K t p := by
  unfold Toth_loading
  have e : K / a * (a * p) = K * p := by field_simp
  simp only [e]; ring

/-- Freundlich `n = K p^(1/m)`: `K' = b K / a^(1/m)`; `0 < a`, `0 ≤ p` are what `(a p)^(1/m) = a^(1/m) p^(1/m)` needs -/
theorem freundlich_units (K m a b p : ℝ) (ha : 0 < a) (hp : 0 ≤ p) :
    Freundlich_loading (b * K / a ^ (1 / m)) m (a * p) = b * Freundlich_loading K m p := by
  unfold Freundlich_loading
  simp only [Real.rpow_eq_pow]
  rw [Real.mul_rpow ha.le hp]
  have h : a ^ (1 / m) ≠ 0 := (Real.rpow_pos_of_pos ha _).ne'
  field_simp

theorem temkin_units (n_m K tht a b p : ℝ) (ha : a ≠ 0) :
    TemkinApprox_loading (b * n_m) (K / a) tht (a * p) = b * TemkinApprox_loading n_m K tht p := by
  unfold TemkinApprox_loading
  have e : K / a * (a * p) = K * p := by field_simp
  simp only [e]; ring

/-- Jensen–Seaton `n = K p / (1 + (K p / (A (1 + B p)))^c)^(1/c)`: `K' = b K / a`, `A' = b A`, `B' = B / a` -/
theorem jensen_seaton_units (K A B c a b p : ℝ) (ha : a ≠ 0) (hb : b ≠ 0) :
    JensenSeaton_loading (b * K / a) (b * A) (B / a) c (a * p) = b * JensenSeaton_loading K A B c p := by
  unfold JensenSeaton_loading
  have e1 : b * K / a * (a * p) = b * (K * p) := by field_simp
  have e2 : B / a * (a * p) = B * p := by field_simp
  have e3 : b * (K * p) / (b * A * (1 + B * p)) = K * p / (A * (1 + B * p)) := by
    rw [mul_assoc b A, mul_div_mul_left _ _ hb]
  simp only [e1, e2, e3]; ring

/-- BET: both `C` and `N` multiply the pressure -/
theorem bet_units (n_m C N a b p : ℝ) (ha : a ≠ 0) :
    BET_loading (b * n_m) (C / a) (N / a) (a * p) = b * BET_loading n_m C N p := by
  unfold BET_loading
  have e1 : N / a * (a * p) = N * p := by field_simp
  have e2 : C / a * (a * p) = C * p := by field_simp
  have e3 : b * n_m * (C / a) * (a * p) = b * (n_m * C * p) := by field_simp
  simp only [e1, e2, e3]; ring

/-- GAB: only `K` multiplies the pressure, `C` is dimensionless -/
theorem gab_units (n_m C K a b p : ℝ) (ha : a ≠ 0) :
    GAB_loading (b * n_m) C (K / a) (a * p) = b * GAB_loading n_m C K p := by
  unfold GAB_loading
  have e : K / a * (a * p) = K * p := by field_simp
  simp only [e]; ring

theorem quadratic_units (n_m Ka Kb a b p : ℝ) (ha : a ≠ 0) :
    Quadratic_loading (b * n_m) (Ka / a) (Kb / a ^ 2) (a * p) = b * Quadratic_loading n_m Ka Kb p := by
  unfold Quadratic_loading
  have e1 : Ka / a * (a * p) = Ka * p := by field_simp
  have e2 : Kb / a ^ 2 * (a * p) ^ 2 = Kb * p ^ 2 := by field_simp
  have e3 : 2 * (Kb / a ^ 2) * (a * p) = 2 * Kb * p / a := by field_simp
  have e4 : b * n_m * (Ka / a + 2 * Kb * p / a) * (a * p) = b * (n_m * (Ka + 2 * Kb * p) * p) := by field_simp
  simp only [e1, e2, e3, e4]; ring

/-- DR / DA work on relative pressure (dimensionless): only the loading unit acts -/
theorem dr_units (n_m e A b p : ℝ) : DR_loading (b * n_m) e A p = b * DR_loading n_m e A p := by
  unfold DR_loading; ring

theorem da_units (n_m e m A b p : ℝ) : DA_loading (b * n_m) e m A p = b * DA_loading n_m e m A p := by
  unfold DA_loading; ring

/-! the pressure-calculating direction (`calculates == "pressure"`: residuals are pressures, factor `a`).
`a ≠ 0`, `b ≠ 0` make the cancellations genuine; the remaining denominators (`K`, `n_m - n`, …) are the same on both
sides of each equation. -/

theorem henry_pressure_units (K a b n : ℝ) (ha : a ≠ 0) (hK : K ≠ 0) (hb : b ≠ 0) :
    Henry_pressure (b * K / a) (b * n) = a * Henry_pressure K n := by
  unfold Henry_pressure; field_simp

theorem langmuir_pressure_units (K n_m a b n : ℝ) (ha : a ≠ 0) (hb : b ≠ 0) :
    Langmuir_pressure (K / a) (b * n_m) (b * n) = a * Langmuir_pressure K n_m n := by
  unfold Langmuir_pressure
  have e : b * n_m - b * n = b * (n_m - n) := by ring
  rw [e]; field_simp

theorem toth_pressure_units (n_m K t a b n : ℝ) (ha : a ≠ 0) (hb : b ≠ 0) :
    Toth_pressure (b * n_m) (K / a) t (b * n) = a * Toth_pressure n_m K t n := by
  unfold Toth_pressure
  have e1 : b * n / (b * n_m) = n / n_m := mul_div_mul_left _ _ hb
  have e2 : b * n / (b * n_m * (K / a)) = a * (n / (n_m * K)) := by field_simp
  simp only [e1, e2]; ring

/-- Freundlich inverse `p = (n / K)^m`: needs `0 ≤ n / K` and `m ≠ 0` for `(a^(1/m) x)^m = a x^m` -/
theorem freundlich_pressure_units (K m a b n : ℝ) (ha : 0 < a) (hb : b ≠ 0) (hm : m ≠ 0) (hnK : 0 ≤ n / K) :
    Freundlich_pressure (b * K / a ^ (1 / m)) m (b * n) = a * Freundlich_pressure K m n := by
  unfold Freundlich_pressure
  simp only [Real.rpow_eq_pow]
  have h : a ^ (1 / m) ≠ 0 := (Real.rpow_pos_of_pos ha _).ne'
  have e : b * n / (b * K / a ^ (1 / m)) = a ^ (1 / m) * (n / K) := by field_simp
  rw [e, Real.mul_rpow (Real.rpow_pos_of_pos ha _).le hnK, ← Real.rpow_mul ha.le, one_div_mul_cancel hm,
    Real.rpow_one]

/-- FHVST (pressure model): coverage `n / n_m` is invariant, the prefactor `n_m / K` carries the units -/
theorem fhvst_units (n_m K a1v a b n : ℝ) (ha : a ≠ 0) (hb : b ≠ 0) :
    FHVST_pressure (b * n_m) (b * K / a) a1v (b * n) = a * FHVST_pressure n_m K a1v n := by
  unfold FHVST_pressure
  have e1 : b * n / (b * n_m) = n / n_m := mul_div_mul_left _ _ hb
  have e2 : b * n_m / (b * K / a) = a * (n_m / K) := by field_simp
  simp only [e1, e2]; ring

theorem wvst_units (n_m K L1v Lv1 a b n : ℝ) (ha : a ≠ 0) (hb : b ≠ 0) :
    WVST_pressure (b * n_m) (b * K / a) L1v Lv1 (b * n) = a * WVST_pressure n_m K L1v Lv1 n := by
  unfold WVST_pressure
  have e1 : b * n / (b * n_m) = n / n_m := mul_div_mul_left _ _ hb
  have e2 : b * n_m / (b * K / a) = a * (n_m / K) := by field_simp
  simp only [e1, e2]; ring

/-- Virial (pressure model) `p = n exp(-ln K + A n + B n² + C n³)`: `K' = b K / a`, `A' = A / b`, `B' = B / b²`,
`C' = C / b³`; positivity is what `ln` of the product needs -/
theorem virial_units (K A B C a b n : ℝ) (hK : 0 < K) (ha : 0 < a) (hb : 0 < b) :
    Virial_pressure (b * K / a) (A / b) (B / b ^ 2) (C / b ^ 3) (b * n) = a * Virial_pressure K A B C n := by
  unfold Virial_pressure
  have hl : Real.log (b * K / a) = Real.log b + Real.log K - Real.log a := by
    rw [Real.log_div (mul_pos hb hK).ne' ha.ne', Real.log_mul hb.ne' hK.ne']
  have e1 : A / b * (b * n) = A * n := by field_simp
  have e2 : B / b ^ 2 * (b * n) ^ 2 = B * n ^ 2 := by field_simp
  have e3 : C / b ^ 3 * (b * n) ^ 3 = C * n ^ 3 := by field_simp
  rw [hl, e1, e2, e3]
  have e4 : -(Real.log b + Real.log K - Real.log a) + A * n + B * n ^ 2 + C * n ^ 3
      = (Real.log a - Real.log b) + (-Real.log K + A * n + B * n ^ 2 + C * n ^ 3) := by ring
  rw [e4, Real.exp_add, Real.exp_sub, Real.exp_log ha, Real.exp_log hb]
  field_simp

/-- residual vectors under a change of units: if the transformed model `f'` satisfies `f' (a p) = b f p` (the
`*_units` theorems), the residuals on the transformed data are `b` times the residuals on the original data.
This is the hypothesis `hres` of `least_squares_covariance`. -/
theorem residuals_units (f f' : ℝ → ℝ) (a b : ℝ) (h : ∀ p, f' (a * p) = b * f p) (data : List (ℝ × ℝ)) :
    (data.map (fun d => (a * d.1, b * d.2))).map (fun d => f' d.1 - d.2)
      = (data.map (fun d => f d.1 - d.2)).map (b * ·) := by
  simp only [List.map_map]
  apply List.map_congr_left
  intro d _
  simp only [Function.comp_apply, h, mul_sub]

/-- instance: Langmuir residuals -/
theorem langmuir_residuals_units (K n_m a b : ℝ) (ha : a ≠ 0) (data : List (ℝ × ℝ)) :
    (data.map (fun d => (a * d.1, b * d.2))).map (fun d => Langmuir_loading (K / a) (b * n_m) d.1 - d.2)
      = (data.map (fun d => Langmuir_loading K n_m d.1 - d.2)).map (b * ·) :=
  residuals_units (Langmuir_loading K n_m) (Langmuir_loading (K / a) (b * n_m)) a b
    (fun p => langmuir_units K n_m a b p ha) data

end units

section covariance
variable {α : Type} [Field α] [LinearOrder α] [IsStrictOrderedRing α]

omit [LinearOrder α] [IsStrictOrderedRing α] in
/-- the objective in the new units is `b²` times the objective in the old units -/
theorem sumSq_units {Θ Θ' : Type} (T : Θ → Θ') (res : Θ → List α) (res' : Θ' → List α) (b : α)
    (hres : ∀ θ, res' (T θ) = (res θ).map (b * ·)) (θ : Θ) :
    sumSq (res' (T θ)) = b * b * sumSq (res θ) := by
  rw [hres, sumSq_map_mul]

/-- least squares is covariant under a change of units: with `T` the (injective — in particular bijective) change of
parameters and residuals multiplied by `b ≠ 0`, `θ*` minimises the objective over `S` iff `T θ*` minimises the
transformed objective over `T '' S` -/
theorem least_squares_covariance {Θ Θ' : Type} (T : Θ → Θ') (hT : Function.Injective T)
    (res : Θ → List α) (res' : Θ' → List α) (b : α) (hb : b ≠ 0)
    (hres : ∀ θ, res' (T θ) = (res θ).map (b * ·)) (S : Set Θ) (θs : Θ) :
    (θs ∈ S ∧ ∀ θ ∈ S, sumSq (res θs) ≤ sumSq (res θ)) ↔
      (T θs ∈ T '' S ∧ ∀ θ' ∈ T '' S, sumSq (res' (T θs)) ≤ sumSq (res' θ')) := by
  have hbb : 0 < b * b := mul_self_pos.mpr hb
  have key : ∀ θ, sumSq (res' (T θs)) ≤ sumSq (res' (T θ)) ↔ sumSq (res θs) ≤ sumSq (res θ) := by
    intro θ
    rw [sumSq_units T res res' b hres, sumSq_units T res res' b hres]
    constructor
    · exact fun h => le_of_mul_le_mul_left h hbb
    · exact fun h => mul_le_mul_of_nonneg_left h hbb.le
  constructor
  · rintro ⟨hs, hmin⟩
    refine ⟨⟨θs, hs, rfl⟩, ?_⟩
    rintro θ' ⟨θ, hθ, rfl⟩
    exact (key θ).mpr (hmin θ hθ)
  · rintro ⟨⟨θ0, hθ0, he⟩, hmin⟩
    have : θ0 = θs := hT he
    subst this
    exact ⟨hθ0, fun θ hθ => (key θ).mp (hmin (T θ) ⟨θ, hθ, rfl⟩)⟩

/-- unconstrained version for a bijective change of parameters -/
theorem least_squares_covariance_univ {Θ Θ' : Type} (T : Θ → Θ') (hT : Function.Bijective T)
    (res : Θ → List α) (res' : Θ' → List α) (b : α) (hb : b ≠ 0)
    (hres : ∀ θ, res' (T θ) = (res θ).map (b * ·)) (θs : Θ) :
    (∀ θ, sumSq (res θs) ≤ sumSq (res θ)) ↔ (∀ θ', sumSq (res' (T θs)) ≤ sumSq (res' θ')) := by
  have h := least_squares_covariance T hT.injective res res' b hb hres Set.univ θs
  simp only [Set.mem_univ, true_and, forall_const, Set.image_univ, hT.surjective.range_eq] at h
  exact h

/-- consequently the fitted curves correspond: at corresponding optima the residual vector (fitted curve minus data)
is the old one expressed in the new unit, and the reported (normalised) error is identical -/
theorem fit_unit_change_same_curve_and_error {Θ Θ' : Type} (T : Θ → Θ')
    (res : Θ → List α) (res' : Θ' → List α) (b : α) (hb : b ≠ 0)
    (hres : ∀ θ, res' (T θ) = (res θ).map (b * ·)) (θs : Θ) (range : α) :
    res' (T θs) = (res θs).map (b * ·) ∧ rmseSq (res' (T θs)) (b * range) = rmseSq (res θs) range := by
  refine ⟨hres θs, ?_⟩
  rw [hres, rmseSq_scale _ _ _ hb]

/-- bounds are covariant too: scaling a parameter and its bounds by a positive unit factor preserves `inBounds` -/
theorem inBounds_scale (lo hi : Option α) (v k : α) (hk : 0 < k) :
    inBounds (lo.map (k * ·)) (hi.map (k * ·)) (k * v) ↔ inBounds lo hi v := by
  unfold inBounds
  cases lo <;> cases hi <;> simp [mul_le_mul_iff_of_pos_left hk]

end covariance

/-! ## F. non-vacuity -/

section examples
open PgVerif.Gen.R

example : bestIdx ([3, 1, 2, 1] : List ℚ) = some 1 := by decide +kernel
example : bestIdx ([5] : List ℚ) = some 0 := by decide +kernel
example : bestIdx ([2, 2, 2] : List ℕ) = some 0 := by decide +kernel
example : bestIdx ([4, 3, 2, 1] : List ℕ) = some 3 := by decide +kernel
example : bestIdx ([] : List ℚ) = none := rfl

example : clamp (some (0 : ℚ)) none (-3) = 0 := by decide +kernel
example : clamp (some (0 : ℚ)) (some 1) 7 = 1 := by decide +kernel
example : clamp (some (0 : ℚ)) (some 1) (1 / 2) = 1 / 2 := by decide +kernel
example : clamp (none : Option ℚ) none 42 = 42 := by decide +kernel
example : clampGuess [(some (0 : ℚ), none), (some 0, some 1)] [-1, 5] = [0, 1] := by decide +kernel
/-- inconsistent bounds (`lo > hi`) really break `clamp_inBounds`: the guard is necessary -/
example : ¬ inBounds (some (2 : ℚ)) (some 1) (clamp (some 2) (some 1) 0) := by
  unfold inBounds; decide +kernel

example : selectBranch [("a", 0), ("b", 1), ("c", 0)] 0 = ["a", "c"] := by decide
example : selectBranch [("a", 0), ("b", 1), ("c", 0)] 1 = ["b"] := by decide

example : rmseSq ([1, -1] : List ℚ) 2 = 1 / 4 := by norm_num [rmseSq, mse, sumSq]
example : rmseSq (([1, -1] : List ℚ).map (3 * ·)) (3 * 2) = 1 / 4 := by norm_num [rmseSq, mse, sumSq]
example : rmseSq ([0, 0, 0] : List ℚ) 5 = 0 := by norm_num [rmseSq, mse, sumSq]
/-- without the guard `rs ≠ []` the "zero error" clause would be vacuous: the empty fit reports 0 -/
example : rmseSq ([] : List ℚ) 5 = 0 := by norm_num [rmseSq, mse, sumSq]

/-- a concrete unit change: Langmuir `K = 2 /bar`, `n_m = 3 mmol/g` at `p = 1 bar` gives 2 mmol/g; in kPa (`a = 100`)
and mol/kg→cm³/g-like factor `b = 22` the transformed parameters give `22·2 = 44` -/
example : Langmuir_loading 2 3 1 = 2 := by unfold Langmuir_loading; norm_num
example : Langmuir_loading (2 / 100) (22 * 3) (100 * 1) = 44 := by unfold Langmuir_loading; norm_num
example : Langmuir_loading (2 / 100) (22 * 3) (100 * 1) = 22 * Langmuir_loading 2 3 1 :=
  langmuir_units 2 3 100 22 1 (by norm_num)

end examples

end PgVerif.Props.C12
