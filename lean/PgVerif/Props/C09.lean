/-
C09 — database operations are atomic under statement failures and process death.

All statements are about `runOp db mem op fault : Result` of `PgVerif.Model.Store` (the statement-level model of
`with_connection` + the public write operations, with fault injection at statement index `k`).
The program logic used in the proofs is in `PgVerif.Lemmas.Store`.
-/
import PgVerif.Model.Store
import PgVerif.Lemmas.Store
import Mathlib.Tactic

namespace PgVerif.C09
open PgVerif.Model.Store PgVerif.StoreL

/-- the empty store is well formed -/
theorem empty_wellFormed : Db.empty.wellFormed = true := by decide

/-! ### the theorems -/

/-- A call that ends in a `ParsingError` or in any other exception leaves the committed file content unchanged
(for every operation and every fault). -/
theorem failed_call_changes_nothing (db : Db) (mem : Mem) (op : Op) (fault : Option (Nat × FaultKind)) :
    (runOp db mem op fault).out = .parsingError ∨ (runOp db mem op fault).out = .otherError →
      (runOp db mem op fault).db = db := by
  rw [runOp_eq]
  generalize exec (prog op) ⟨db, mem, 0, fault⟩ = rw
  unfold finish
  rcases rw.1 with e | a
  · cases e <;> simp
  · simp only
    split_ifs <;> simp

/-- The committed content, the outcome and the number of statements do not depend on the process-global lists
`MATERIAL_LIST` / `ADSORBATE_LIST` (they are written, never read). -/
theorem runOp_db_independent_of_mem (db : Db) (mem₁ mem₂ : Mem) (op : Op) (f : Option (Nat × FaultKind)) :
    (runOp db mem₁ op f).db = (runOp db mem₂ op f).db ∧ (runOp db mem₁ op f).out = (runOp db mem₂ op f).out := by
  rw [runOp_eq, runOp_eq]
  rcases rel_prog (fun b => memR_stmt b) memR_modifyMem op ⟨db, mem₁, 0, f⟩ ⟨db, mem₂, 0, f⟩ ⟨rfl, rfl, rfl⟩ with
    ⟨_, h, _⟩ | ⟨h1, h2, h3, _⟩
  · exact h.elim
  · have := finish_congr db mem₁ mem₂ f _ _ h1 h2 h3
    exact ⟨this.1, this.2.1⟩


/-- `fault_not_hit`: if the body, run with the fault plan `(k, kind)`, returns normally, then its final working state
(working copy, statement counter, in-memory lists) is exactly the one of the fault-free run.
(Proof: `exec_fault_not_hit` in `PgVerif.Lemmas.Store` — the simulation `faultR` lifted through every operation.) -/
theorem fault_not_hit (db : Db) (mem : Mem) (op : Op) (k : Nat) (kind : FaultKind)
    (h : (exec (prog op) ⟨db, mem, 0, some (k, kind)⟩).1 = .ok ()) :
    (exec (prog op) ⟨db, mem, 0, none⟩).1 = .ok () ∧
    (exec (prog op) ⟨db, mem, 0, some (k, kind)⟩).2.db = (exec (prog op) ⟨db, mem, 0, none⟩).2.db ∧
    (exec (prog op) ⟨db, mem, 0, some (k, kind)⟩).2.n = (exec (prog op) ⟨db, mem, 0, none⟩).2.n ∧
    (exec (prog op) ⟨db, mem, 0, some (k, kind)⟩).2.mem = (exec (prog op) ⟨db, mem, 0, none⟩).2.mem :=
  exec_fault_not_hit db mem op k kind h

/-- **Atomicity**: whatever statement a fault hits and whatever its kind, the committed file content afterwards is either
the content before the call or the content the fault-free call commits. -/
theorem atomic (db : Db) (mem : Mem) (op : Op) (k : Nat) (kind : FaultKind) :
    (runOp db mem op (some (k, kind))).db = db ∨
      (runOp db mem op (some (k, kind))).db = (runOp db mem op none).db := by
  rw [runOp_eq, runOp_eq]
  rcases hr : (exec (prog op) ⟨db, mem, 0, some (k, kind)⟩).1 with e | a
  · exact Or.inl (finish_error_db _ _ _ _ e hr)
  · obtain ⟨h0, h1, _, _⟩ := fault_not_hit db mem op k kind hr
    rw [finish_none_ok _ _ _ h0]
    rcases finish_ok_db db mem (some (k, kind)) _ hr with h | h
    · exact Or.inl h
    · exact Or.inr (h.trans h1)

/-! ### a fault inside the body is always hit -/

/-- unary invariant "the fault plan is `(k, kind)` and statement `k` has not been issued yet", as a relation -/
def notYet (k : Nat) (kind : FaultKind) (w w' : Work) : Prop := w = w' ∧ w.fault = some (k, kind) ∧ w.n ≤ k

lemma notYet_stmt (k : Nat) (kind : FaultKind) {β : Type} (body : Db → Except SqlErr (β × Db)) :
    Rel (fun _ => True) (notYet k kind) (stmt body) := by
  rintro ⟨db, mem, n, f⟩ _ ⟨rfl, h1, h2⟩
  simp only at h1 h2
  subst h1
  rw [exec_stmt]
  simp only
  rcases Nat.lt_or_eq_of_le h2 with hlt | rfl
  · cases injected (some (k, kind)) n with
    | some e => exact Or.inl ⟨e, trivial, rfl⟩
    | none =>
      simp only
      cases body db with
      | error e => exact Or.inl ⟨e, trivial, rfl⟩
      | ok p =>
        obtain ⟨r, d⟩ := p
        simp only
        split
        · exact Or.inl ⟨_, trivial, rfl⟩
        · exact Or.inr (by simp [notYet]; omega)
  · left
    cases kind
    case exitAfter =>
      have : injected (some (n, FaultKind.exitAfter)) n = none := rfl
      rw [this]
      simp only
      cases body db with
      | error e => exact ⟨e, trivial, rfl⟩
      | ok p => exact ⟨.exit, trivial, by simp⟩
    all_goals simp [injected]

lemma notYet_modifyMem (k : Nat) (kind : FaultKind) (f : Mem → Mem) : Rel (fun _ => True) (notYet k kind) (modifyMem f) := by
  rintro w _ ⟨rfl, h1, h2⟩
  exact Or.inr ⟨rfl, rfl, h1, h2⟩

/-- if the body returns normally under the fault plan `(k, kind)`, fewer than `k + 1` statements were issued -/
theorem ok_run_stops_before_fault (db : Db) (mem : Mem) (op : Op) (k : Nat) (kind : FaultKind)
    (h : (exec (prog op) ⟨db, mem, 0, some (k, kind)⟩).1 = .ok ()) :
    (exec (prog op) ⟨db, mem, 0, some (k, kind)⟩).2.n ≤ k := by
  rcases rel_prog (fun b => notYet_stmt k kind b) (notYet_modifyMem k kind) op
      ⟨db, mem, 0, some (k, kind)⟩ _ ⟨rfl, rfl, Nat.zero_le _⟩ with ⟨e, _, he⟩ | ⟨_, _, _, h3⟩
  · rw [h] at he; cases he
  · exact h3


/-- A fault of ANY kind planted at a statement the fault-free run issues (`k < stmtCount`) makes the call fail or die, and
nothing is committed. -/
theorem fault_inside_body_fails (db : Db) (mem : Mem) (op : Op) (k : Nat) (kind : FaultKind)
    (hk : k < stmtCount db mem op) :
    (runOp db mem op (some (k, kind))).out ≠ .ok ∧ (runOp db mem op (some (k, kind))).db = db := by
  rw [stmtCount_eq] at hk
  rw [runOp_eq]
  rcases hr : (exec (prog op) ⟨db, mem, 0, some (k, kind)⟩).1 with e | a
  · exact ⟨finish_error_out _ _ _ _ e hr, finish_error_db _ _ _ _ e hr⟩
  · obtain ⟨_, _, h2, _⟩ := fault_not_hit db mem op k kind hr
    have := ok_run_stops_before_fault db mem op k kind hr
    omega

/-- If the process dies during the call, the file holds either the content before the call, or — only when death strikes
right after the commit (`exitAfter` at index = number of statements issued = `stmtCount`) — the working copy of the
completed body, which is exactly what the fault-free call commits. -/
theorem death_commits_nothing_or_everything (db : Db) (mem : Mem) (op : Op) (fault : Option (Nat × FaultKind))
    (hd : (runOp db mem op fault).out = .died) :
    (runOp db mem op fault).db = db ∨
      ∃ k, fault = some (k, .exitAfter) ∧ k = (runOp db mem op fault).stmts ∧ k = stmtCount db mem op ∧
        (exec (prog op) ⟨db, mem, 0, fault⟩).1 = .ok () ∧
        (runOp db mem op fault).db = (exec (prog op) ⟨db, mem, 0, fault⟩).2.db ∧
        (runOp db mem op fault).db = (runOp db mem op none).db := by
  rcases hr : (exec (prog op) ⟨db, mem, 0, fault⟩).1 with e | a
  · left; rw [runOp_eq]; exact finish_error_db _ _ _ _ e hr
  · by_cases c1 : fault = some ((exec (prog op) ⟨db, mem, 0, fault⟩).2.n, .exitBefore)
    · left; rw [runOp_eq]; unfold finish; rw [hr]; simp only; rw [if_pos c1]
    · by_cases c2 : fault = some ((exec (prog op) ⟨db, mem, 0, fault⟩).2.n, .exitAfter)
      · right
        have hfin : runOp db mem op fault =
            ⟨(exec (prog op) ⟨db, mem, 0, fault⟩).2.db, mem, .died, (exec (prog op) ⟨db, mem, 0, fault⟩).2.n⟩ := by
          rw [runOp_eq]; unfold finish; rw [hr]; simp only; rw [if_neg c1, if_pos c2]
        refine ⟨_, c2, ?_, ?_, rfl, ?_, ?_⟩
        · rw [hfin]
        · rw [stmtCount_eq]
          generalize hn : (exec (prog op) ⟨db, mem, 0, fault⟩).2.n = n at c2
          subst c2
          rw [← hn]
          exact (fault_not_hit db mem op n _ hr).2.2.1
        · rw [hfin]
        · rw [hfin]
          generalize hn : (exec (prog op) ⟨db, mem, 0, fault⟩).2.n = n at c2
          subst c2
          obtain ⟨h0, h1, _, _⟩ := fault_not_hit db mem op n _ hr
          rw [runOp_eq, finish_none_ok _ _ _ h0]
          exact h1
      · exfalso
        rw [runOp_eq] at hd
        unfold finish at hd
        rw [hr] at hd
        simp only at hd
        rw [if_neg c1, if_neg c2] at hd
        cases hd

/-- Death before the commit commits nothing: `exitBefore` at any index, or `exitAfter` at an index smaller than the number of
statements issued. -/
theorem death_before_commit (db : Db) (mem : Mem) (op : Op) (k : Nat) (kind : FaultKind)
    (hd : (runOp db mem op (some (k, kind))).out = .died)
    (hk : kind = .exitBefore ∨ (kind = .exitAfter ∧ k < (runOp db mem op (some (k, kind))).stmts)) :
    (runOp db mem op (some (k, kind))).db = db := by
  rcases death_commits_nothing_or_everything db mem op _ hd with h | ⟨k', h1, h2, _⟩
  · exact h
  · cases h1
    rcases hk with hk | ⟨_, hk⟩
    · cases hk
    · omega

/-- the same with the fault position measured against the fault-free run, and without assuming the outcome:
`exitBefore` at any index `≤ stmtCount` (the commit included) and `exitAfter` at any index `< stmtCount` commit nothing. -/
theorem death_before_commit' (db : Db) (mem : Mem) (op : Op) (k : Nat) (kind : FaultKind)
    (hk : (kind = .exitBefore ∧ k ≤ stmtCount db mem op) ∨ (kind = .exitAfter ∧ k < stmtCount db mem op)) :
    (runOp db mem op (some (k, kind))).db = db := by
  rcases hk with ⟨rfl, hk⟩ | ⟨rfl, hk⟩
  · rcases Nat.lt_or_eq_of_le hk with hlt | heq
    · exact (fault_inside_body_fails db mem op k _ hlt).2
    · rw [runOp_eq]
      rcases hr : (exec (prog op) ⟨db, mem, 0, some (k, .exitBefore)⟩).1 with e | a
      · exact finish_error_db _ _ _ _ e hr
      · obtain ⟨_, _, h2, _⟩ := fault_not_hit db mem op k _ hr
        rw [stmtCount_eq] at heq
        unfold finish
        rw [hr]
        simp only
        rw [if_pos (by rw [h2, ← heq])]
  · exact (fault_inside_body_fails db mem op k _ hk).2

/-- **Retry**: when the call did not commit, repeating the same operation (now without fault) on the resulting state —
whatever the failed call left in the process-global lists — commits exactly what the fault-free call would have
committed in the first place, with the same outcome. -/
theorem retry_after_failure (db : Db) (mem : Mem) (op : Op) (fault : Option (Nat × FaultKind))
    (h : (runOp db mem op fault).db = db) :
    (runOp (runOp db mem op fault).db (runOp db mem op fault).mem op none).db = (runOp db mem op none).db ∧
    (runOp (runOp db mem op fault).db (runOp db mem op fault).mem op none).out = (runOp db mem op none).out := by
  rw [h]
  exact runOp_db_independent_of_mem db _ mem op none

/-- in particular a retry after a failed call succeeds whenever the operation was valid in the first place -/
theorem retry_succeeds (db : Db) (mem : Mem) (op : Op) (fault : Option (Nat × FaultKind))
    (h : (runOp db mem op fault).out = .parsingError ∨ (runOp db mem op fault).out = .otherError)
    (hv : (runOp db mem op none).out = .ok) :
    (runOp (runOp db mem op fault).db (runOp db mem op fault).mem op none).out = .ok :=
  ((retry_after_failure db mem op fault (failed_call_changes_nothing db mem op fault h)).2).trans hv

/-- **Prior content intact** (failed or dead-before-commit runs): unless the call returned normally or died right after the
commit, the file content is unchanged — so every row of every table is still there. -/
theorem prior_content_intact (db : Db) (mem : Mem) (op : Op) (fault : Option (Nat × FaultKind))
    (h : (runOp db mem op fault).out ≠ .ok)
    (hc : ∀ k, fault = some (k, .exitAfter) → k ≠ (runOp db mem op fault).stmts) :
    (runOp db mem op fault).db = db := by
  rcases ho : (runOp db mem op fault).out with _ | _ | _ | _
  · exact absurd ho h
  · exact failed_call_changes_nothing db mem op fault (Or.inl ho)
  · exact failed_call_changes_nothing db mem op fault (Or.inr ho)
  · rcases death_commits_nothing_or_everything db mem op fault ho with h' | ⟨k, h1, h2, _⟩
    · exact h'
    · exact absurd h2 (hc k h1)

/-- row-level reading of `prior_content_intact` -/
theorem prior_rows_intact (db : Db) (mem : Mem) (op : Op) (fault : Option (Nat × FaultKind))
    (h : (runOp db mem op fault).out ≠ .ok)
    (hc : ∀ k, fault = some (k, .exitAfter) → k ≠ (runOp db mem op fault).stmts) :
    (∀ r, r ∈ db.ads → r ∈ (runOp db mem op fault).db.ads) ∧
    (∀ r, r ∈ db.adsProps → r ∈ (runOp db mem op fault).db.adsProps) ∧
    (∀ r, r ∈ db.adsTypes → r ∈ (runOp db mem op fault).db.adsTypes) ∧
    (∀ r, r ∈ db.mats → r ∈ (runOp db mem op fault).db.mats) ∧
    (∀ r, r ∈ db.matProps → r ∈ (runOp db mem op fault).db.matProps) ∧
    (∀ r, r ∈ db.matTypes → r ∈ (runOp db mem op fault).db.matTypes) ∧
    (∀ r, r ∈ db.isoTypes → r ∈ (runOp db mem op fault).db.isoTypes) ∧
    (∀ r, r ∈ db.isos → r ∈ (runOp db mem op fault).db.isos) ∧
    (∀ r, r ∈ db.isoProps → r ∈ (runOp db mem op fault).db.isoProps) ∧
    (∀ r, r ∈ db.isoData → r ∈ (runOp db mem op fault).db.isoData) := by
  rw [prior_content_intact db mem op fault h hc]
  simp


/-! ### uploads never disturb prior content -/

/-- every table of `a` is an initial segment of the corresponding table of `b`: all rows of `a` are in `b`, in the same
order, new rows only appended -/
def Keeps (a b : Db) : Prop :=
  a.ads <+: b.ads ∧ a.adsProps <+: b.adsProps ∧ a.adsTypes <+: b.adsTypes ∧
  a.mats <+: b.mats ∧ a.matProps <+: b.matProps ∧ a.matTypes <+: b.matTypes ∧
  a.isoTypes <+: b.isoTypes ∧ a.isos <+: b.isos ∧ a.isoProps <+: b.isoProps ∧ a.isoData <+: b.isoData

lemma Keeps.refl (a : Db) : Keeps a a :=
  ⟨List.prefix_rfl, List.prefix_rfl, List.prefix_rfl, List.prefix_rfl, List.prefix_rfl, List.prefix_rfl,
   List.prefix_rfl, List.prefix_rfl, List.prefix_rfl, List.prefix_rfl⟩

macro "keeps_disch" : tactic => `(tactic|
  (intro d hd
   try simp only [insAds, insMat, insName, insAdsProp, insMatProp, insType3, insIsoType, insIso, insIsoProp, insIsoData,
     Bool.false_eq_true, if_true, if_false]
   repeat' split
   all_goals with_unfolding_all (first
     | exact trivial
     | (obtain ⟨h1, h2, h3, h4, h5, h6, h7, h8, h9, h10⟩ := hd
        refine ⟨?_, ?_, ?_, ?_, ?_, ?_, ?_, ?_, ?_, ?_⟩ <;>
          first | assumption | exact List.IsPrefix.trans ‹_› (List.prefix_append _ _)))))

lemma keepsRel_adsToDb (db0 : Db) (name props ai) : Inv anyErr (Keeps db0) (adsToDb name props ai false) := by
  unfold adsToDb
  simp only [Bool.false_eq_true, if_false]
  sql_inv [keeps_disch] [trivial]

lemma keepsRel_matToDb (db0 : Db) (name props ai) : Inv anyErr (Keeps db0) (matToDb name props ai false) := by
  unfold matToDb
  simp only [Bool.false_eq_true, if_false]
  sql_inv [keeps_disch] [trivial]

lemma keepsRel_typeToDb (db0 : Db) (tb t u d) : Inv anyErr (Keeps db0) (typeToDb tb t u d false) := by
  unfold typeToDb
  sql_inv [keeps_disch] [trivial]

lemma keepsRel_isoToDb (db0 : Db) (i am aa) : Inv anyErr (Keeps db0) (isoToDb i am aa) := by
  unfold isoToDb
  repeat (first
    | with_reducible exact Inv.pure _
    | with_reducible exact Inv.readStmt _ | with_reducible exact Inv.modifyMem _
    | with_reducible exact keepsRel_adsToDb _ _ _ _ | with_reducible exact keepsRel_matToDb _ _ _ _
    | with_reducible refine Inv.writeStmt _ (by keeps_disch)
    | with_reducible apply Inv.bind | with_reducible apply Inv.ite | with_reducible apply Inv.forIn
    | with_reducible intro _
    | (split)
    | dsimp only)


/-- the operations that only add: uploads without `overwrite` -/
def isUpload : Op → Prop
  | .adsToDb _ _ _ false => True
  | .matToDb _ _ _ false => True
  | .typeToDb _ _ _ _ false => True
  | .isoToDb _ _ _ => True
  | _ => False

/-- **Prior content intact, uploads** (the half of `prior_content_intact` about successful calls): an upload without
`overwrite` — whether it succeeds, is refused, fails or dies at any statement — leaves every previously stored row of every
table in place and in order; new rows are only appended. -/
theorem uploads_keep_prior_rows (db : Db) (mem : Mem) (op : Op) (fault : Option (Nat × FaultKind)) (hu : isUpload op) :
    Keeps db (runOp db mem op fault).db := by
  have none_case : Keeps db (runOp db mem op none).db := by
    have key : ∀ {p : Sql Unit}, Inv anyErr (Keeps db) p →
        Keeps db (match (exec p ⟨db, mem, 1, none⟩).1 with
          | .ok _ => (exec p ⟨db, mem, 1, none⟩).2.db
          | .error _ => db) := by
      intro p hp
      rcases hp ⟨db, mem, 1, none⟩ rfl (Keeps.refl db) with ⟨e, _, hr⟩ | ⟨a, hr, _, hk⟩
      · rw [hr]; exact Keeps.refl db
      · rw [hr]; exact hk
    rw [(runOp_none db mem op).2]
    cases op with
    | adsToDb n p a o => cases o; · exact key (keepsRel_adsToDb db n p a)
                         · exact hu.elim
    | matToDb n p a o => cases o; · exact key (keepsRel_matToDb db n p a)
                         · exact hu.elim
    | typeToDb tb t u d o => cases o; · exact key (keepsRel_typeToDb db tb t u d)
                             · exact hu.elim
    | isoToDb i am aa => exact key (keepsRel_isoToDb db i am aa)
    | adsDelete n => exact hu.elim
    | matDelete n => exact hu.elim
    | typeDelete tb t => exact hu.elim
    | isoDelete id => exact hu.elim
    | isoPropTypeOp w => exact hu.elim
  rcases fault with _ | ⟨k, kind⟩
  · exact none_case
  · rcases atomic db mem op k kind with h | h
    · rw [h]; exact Keeps.refl db
    · rw [h]; exact none_case

/-! ### non-vacuity: concrete instances (kernel evaluation of the executable model) -/

/-- a concrete file: one material, one adsorbate with a property, the three isotherm types, one isotherm -/
def db0 : Db :=
  { Db.empty with
    ads := ["N2"], mats := ["MOF-1"],
    adsTypes := [("formula", "", "")], adsProps := [("N2", "formula", "N2")],
    isoTypes := [("isotherm", ""), ("pointisotherm", ""), ("modelisotherm", "")],
    isos := [("iso1", "pointisotherm", "MOF-1", "N2", "77.0")],
    isoProps := [("iso1", "pressure_unit", "bar")],
    isoData := [("iso1", "pressure", "float", "[1,2]")] }

def mem0 : Mem := ⟨["N2"], ["MOF-1"]⟩

/-- a new isotherm on a new material and a new adsorbate (both auto-inserted) -/
def iso2 : IsoIn :=
  { id := "iso2", isoType := "pointisotherm", material := some "MOF-2", matProps := [("density", [some "1.2"])],
    adsorbate := some "CO2", adsProps := [("formula", [some "CO2"])], temperature := some "298.0",
    props := [("pressure_unit", .val "bar")], data := [("pressure", "float", "[1]")] }

example : db0.wellFormed = true := by decide +kernel

/-- the fault-free isotherm upload with both auto-insertions issues 13 statements, is accepted and changes the file -/
example : (runOp db0 mem0 (.isoToDb iso2 true true) none).out = .ok ∧
          (runOp db0 mem0 (.isoToDb iso2 true true) none).db ≠ db0 ∧
          stmtCount db0 mem0 (.isoToDb iso2 true true) = 13 := by decide +kernel

/-- a statement failure at statement 3 (inside the material auto-insertion): `ParsingError` / other error, file unchanged -/
example : (runOp db0 mem0 (.isoToDb iso2 true true) (some (3, .integrity))).out = .parsingError ∧
          (runOp db0 mem0 (.isoToDb iso2 true true) (some (3, .integrity))).db = db0 ∧
          (runOp db0 mem0 (.isoToDb iso2 true true) (some (3, .operational))).out = .otherError ∧
          (runOp db0 mem0 (.isoToDb iso2 true true) (some (3, .operational))).db = db0 := by decide +kernel

/-- death after statement 3 and death just before the commit: file unchanged; death just after the commit: everything -/
example : (runOp db0 mem0 (.isoToDb iso2 true true) (some (3, .exitAfter))).out = .died ∧
          (runOp db0 mem0 (.isoToDb iso2 true true) (some (3, .exitAfter))).db = db0 ∧
          (runOp db0 mem0 (.isoToDb iso2 true true) (some (13, .exitBefore))).db = db0 ∧
          (runOp db0 mem0 (.isoToDb iso2 true true) (some (13, .exitAfter))).out = .died ∧
          (runOp db0 mem0 (.isoToDb iso2 true true) (some (13, .exitAfter))).db =
            (runOp db0 mem0 (.isoToDb iso2 true true) none).db := by decide +kernel

/-- after the failed call the same upload, repeated, succeeds -/
example :
    (runOp (runOp db0 mem0 (.isoToDb iso2 true true) (some (3, .integrity))).db
           (runOp db0 mem0 (.isoToDb iso2 true true) (some (3, .integrity))).mem (.isoToDb iso2 true true) none).out = .ok := by
  decide +kernel

end PgVerif.C09
