/-
C09 — database operations are atomic under statement failures and process death (placeholder; theorems follow).
-/
import PgVerif.Model.Store

namespace PgVerif.C09
open PgVerif.Model.Store

/-- the empty store is well formed -/
theorem empty_wellFormed : Db.empty.wellFormed = true := by decide

end PgVerif.C09
