/-
C01, second theorem file: the clauses that the first file (`Props/C01.lean`) does not state.

* **Units of another quantity are unknown units.**  The four unit tables are pairwise disjoint, so a
  unit string that is valid for one quantity (`cm3` for a volume, `g` for a mass, `bar` for a pressure,
  `mmol` for an amount) is refused with a parameter error wherever a unit of another quantity is needed —
  in particular on the *same-mode / same-basis* path of `c_pressure`, `c_loading`, `c_material`, the only
  path on which `c_unit` itself does the validation (`Props/C01.lean` has the change-of-basis refusals).
* **No history.**  The reply to a call is a function of that call: whatever was converted before — e.g. the
  same two unit strings in the table in which they are valid — the reply is the same.  Trivial for the model
  (it is a function); the content is the tie: the harness compares the real code with `Req.run` through long
  mixed histories (`harness/props/c01.py`, history oracle).
* **`Material` objects.**  The converters read density and molar mass through the getters of a
  `pygaps.Material`; for every history of constructor keywords and setter calls that leaves a non-zero density
  and molar mass in the property store, `c_material` multiplies by the SI factor for those two numbers.
* **`Adsorbate.saturation_pressure(T, unit)`** is `p_sat[Pa] / Pa-per-unit`, refused for a non-pressure unit.
-/
import PgVerif.Props.C01
import PgVerif.Lemmas.UnitsObj

set_option linter.unusedSectionVars false
set_option linter.unusedSimpArgs false
set_option linter.unusedVariables false

namespace PgVerif.C01
open PgVerif.Model PgVerif.Units
open PgVerif.Spec (LB MB Ads Mat gL gM PRep LRep MRep TRep physScale fac)

variable {α : Type} [Field α] [CharZero α]

/-! ## Units of another quantity -/

/-- the generated unit tables are pairwise disjoint (checked on the tables as they are in the source now) -/
theorem tables_disjoint :
    ∀ t1 ∈ tableNames, ∀ t2 ∈ tableNames, t1 ≠ t2 →
      disjointFrom (Gen.unitTable t1) (Gen.unitTable t2) = true := by decide

/-- the empty string is no unit -/
theorem empty_is_no_unit : ∀ t ∈ tableNames, (Gen.unitTable t).lookup "" = none := by decide

/-- a unit of table `tx` is refused by `_check_unit` against any other table `ty` -/
theorem checkUnit_refuses_foreign (tx ty : String) (hx : tx ∈ tableNames) (hy : ty ∈ tableNames) (hxy : tx ≠ ty)
    (a : String) (ha : ((Gen.unitTable tx).lookup a).isSome = true) :
    (checkUnit (Gen.unitTable ty) (some a) : Except Err α) = .error .param :=
  checkUnit_none_of_lookup _ _ (disjoint_lookup _ _ (tables_disjoint tx hx ty hy hxy) a ha)

/-- `c_unit` refuses when either unit is missing, empty or not in its table -/
theorem cUnit_refuses (t : List (String × Nat × Nat)) (v : α) (uf ut : Option String) (sg : Int)
    (h : (checkUnit t uf : Except Err α) = .error .param ∨ (checkUnit t ut : Except Err α) = .error .param) :
    cUnit t v uf ut sg = .error .param :=
  cUnit_err t v uf ut sg h

/-- `c_unit` on table `ty` with a unit of another table on either side: parameter error, whatever the other side is -/
theorem cUnit_refuses_foreign (tx ty : String) (hx : tx ∈ tableNames) (hy : ty ∈ tableNames) (hxy : tx ≠ ty)
    (v : α) (a : String) (ha : ((Gen.unitTable tx).lookup a).isSome = true) (o : Option String) (sg : Int) :
    cUnit (Gen.unitTable ty) v (some a) o sg = .error .param ∧
    cUnit (Gen.unitTable ty) v o (some a) sg = .error .param :=
  ⟨cUnit_err _ _ _ _ _ (.inl (checkUnit_refuses_foreign tx ty hx hy hxy a ha)),
   cUnit_err _ _ _ _ _ (.inr (checkUnit_refuses_foreign tx ty hx hy hxy a ha))⟩

/-- absolute → absolute with a target unit given: a bad unit on either side is refused -/
theorem cPressure_refuses_unit_same (psat : Option α) (t : Bool) (v : α) (uf ut : Option String)
    (hut : truthy ut = true)
    (h : (checkUnit Gen.pressureUnits uf : Except Err α) = .error .param ∨
         (checkUnit Gen.pressureUnits ut : Except Err α) = .error .param) :
    cPressure psat t v (some "absolute") (some "absolute") uf ut = .error .param := by
  have := cUnit_err Gen.pressureUnits v uf ut 1 h
  simp [cPressure, checkBasis, Gen.pressureMode, List.lookup, hut, this, bind, Except.bind]

/-- same physical loading basis, different units, target unit given: a bad unit on either side is refused -/
theorem cLoading_refuses_unit_same (env : Env α) (v : α) (b : LB) (uf ut bm um : Option String)
    (hut : truthy ut = true) (hne : uf ≠ ut)
    (h : (checkUnit (Gen.unitTable b.table) uf : Except Err α) = .error .param ∨
         (checkUnit (Gen.unitTable b.table) ut : Except Err α) = .error .param) :
    cLoading env v (some b.name) (some b.name) uf ut bm um = .error .param := by
  have hb : checkBasis Gen.loadingMode (some b.name) = .ok (b.name, some b.table) := by cases b <;> rfl
  have := cUnit_err (Gen.unitTable b.table) v uf ut 1 h
  simp [cLoading, hb, hut, hne, this, bind, Except.bind]

theorem cMaterial_refuses_unit_same (env : Env α) (v : α) (b : MB) (uf ut : Option String)
    (hut : truthy ut = true) (hne : uf ≠ ut)
    (h : (checkUnit (Gen.unitTable b.table) uf : Except Err α) = .error .param ∨
         (checkUnit (Gen.unitTable b.table) ut : Except Err α) = .error .param) :
    cMaterial env v (some b.name) (some b.name) uf ut = .error .param := by
  have hb : checkBasis Gen.materialMode (some b.name) = .ok (b.name, some b.table) := by cases b <;> rfl
  have := cUnit_err (Gen.unitTable b.table) v uf ut (-1) h
  simp [cMaterial, hb, hut, hne, this, bind, Except.bind]

private theorem truthy_of_key (tx : String) (hx : tx ∈ tableNames) (a : String)
    (ha : ((Gen.unitTable tx).lookup a).isSome = true) : truthy (some a) = true := by
  have : a ≠ "" := by
    rintro rfl
    rw [empty_is_no_unit tx hx] at ha
    cases ha
  simp [truthy, this]

private theorem LB.table_mem (b : LB) : b.table ∈ tableNames := by cases b <;> decide
private theorem MB.table_mem (b : MB) : b.table ∈ tableNames := by cases b <;> decide

/-- **two units that are valid together for another quantity** (the request a cache keyed by the two unit
strings alone would answer with a number): refused by every converter on its unit-change path -/
theorem cPressure_refuses_foreign_units (psat : Option α) (t : Bool) (v : α) (tx : String) (hx : tx ∈ tableNames)
    (hxy : tx ≠ "pressure") (a a' : String) (ha : ((Gen.unitTable tx).lookup a).isSome = true)
    (ha' : ((Gen.unitTable tx).lookup a').isSome = true) :
    cPressure psat t v (some "absolute") (some "absolute") (some a) (some a') = .error .param :=
  cPressure_refuses_unit_same psat t v _ _ (truthy_of_key tx hx a' ha')
    (.inl (checkUnit_refuses_foreign tx "pressure" hx (by decide) hxy a ha))

theorem cLoading_refuses_foreign_units (env : Env α) (v : α) (b : LB) (tx : String) (hx : tx ∈ tableNames)
    (hxy : tx ≠ b.table) (a a' : String) (hne : a ≠ a') (ha : ((Gen.unitTable tx).lookup a).isSome = true)
    (ha' : ((Gen.unitTable tx).lookup a').isSome = true) (bm um : Option String) :
    cLoading env v (some b.name) (some b.name) (some a) (some a') bm um = .error .param :=
  cLoading_refuses_unit_same env v b _ _ bm um (truthy_of_key tx hx a' ha') (by simpa using hne)
    (.inl (checkUnit_refuses_foreign tx b.table hx (LB.table_mem b) hxy a ha))

theorem cMaterial_refuses_foreign_units (env : Env α) (v : α) (b : MB) (tx : String) (hx : tx ∈ tableNames)
    (hxy : tx ≠ b.table) (a a' : String) (hne : a ≠ a') (ha : ((Gen.unitTable tx).lookup a).isSome = true)
    (ha' : ((Gen.unitTable tx).lookup a').isSome = true) :
    cMaterial env v (some b.name) (some b.name) (some a) (some a') = .error .param :=
  cMaterial_refuses_unit_same env v b _ _ (truthy_of_key tx hx a' ha') (by simpa using hne)
    (.inl (checkUnit_refuses_foreign tx b.table hx (MB.table_mem b) hxy a ha))

/-! ## `Adsorbate.saturation_pressure(T, unit)` -/

/-- in a pressure unit: the value in Pa divided by the Pa content of the unit -/
theorem satPressure_SI (ps : α) (u : String) (f : α) (hu : u ≠ "")
    (hf : (fac Spec.pressureUnits u : Option α) = some f) :
    satPressure (some ps) (some u) = .ok (ps / f) := by
  rw [← tables_eq_spec.1] at hf
  simpa [satPressure] using satP ps u f hu hf

theorem satPressure_Pa (ps : α) : satPressure (some ps) none = .ok ps := rfl

/-- a unit that is not a pressure unit (empty, unknown, or a unit of another quantity) is refused -/
theorem satPressure_refuses (ps : α) (u : String)
    (h : (checkUnit Gen.pressureUnits (some u) : Except Err α) = .error .param) :
    satPressure (some ps) (some u) = .error .param := by
  simpa [satPressure] using cUnit_err Gen.pressureUnits ps (some "Pa") (some u) 1 (.inr h)

/-! ## `Material` objects -/

section material
variable [DecidableEq α]

/-- the setter stores a non-zero value, and only under its own key -/
theorem material_setter_get (ops : List (MatOp α)) (x : α) (hx : x ≠ 0) :
    matDensity (matProps (ops ++ [.set "density" (some x)])) = some x ∧
    matMolarMass (matProps (ops ++ [.set "density" (some x)])) = matMolarMass (matProps ops) ∧
    matMolarMass (matProps (ops ++ [.set "molar_mass" (some x)])) = some x ∧
    matDensity (matProps (ops ++ [.set "molar_mass" (some x)])) = matDensity (matProps ops) := by
  simp [matProps_snoc, matStep, hx, matDensity, matMolarMass, List.lookup]

/-- `if val:` — setting `None` or `0` leaves the store as it is -/
theorem material_setter_falsy (ops : List (MatOp α)) (k : String) :
    matProps (ops ++ [.set k none]) = matProps ops ∧ matProps (ops ++ [.set k (some 0)]) = matProps ops := by
  simp [matProps_snoc, matStep]

/-- a later constructor keyword / setter of *another* name never changes density or molar mass -/
theorem material_other_key (ops : List (MatOp α)) (k : String) (x : α) (hk1 : k ≠ "density") (hk2 : k ≠ "molar_mass") :
    matDensity (matProps (ops ++ [.kw k x])) = matDensity (matProps ops) ∧
    matMolarMass (matProps (ops ++ [.kw k x])) = matMolarMass (matProps ops) := by
  have h1 : ("density" == k) = false := by simpa using fun h => hk1 h.symm
  have h2 : ("molar_mass" == k) = false := by simpa using fun h => hk2 h.symm
  simp [matProps_snoc, matStep, matDensity, matMolarMass, List.lookup, h1, h2]

/-- `get_prop` of the two reserved names is the getter -/
theorem material_get_prop (p : MatProps α) :
    matGetProp p "density" = .ok (matDensity p) ∧ matGetProp p "molar_mass" = .ok (matMolarMass p) := by
  constructor
  · simp only [matGetProp, matDensity]
    cases h : List.lookup "density" p <;> simp
  · simp only [matGetProp, matMolarMass]
    cases h : List.lookup "molar_mass" p <;> simp

/-- **`c_material` with a `Material` object**: whatever history of keywords and setters produced the object,
if its getters return a non-zero density and molar mass, the factor is the SI factor for those two numbers -/
theorem cMaterial_SI_object (ops : List (MatOp α)) (mat : Mat α) (hp : Mat.Pos mat)
    (hd : matDensity (matProps ops) = some mat.density) (hm : matMolarMass (matProps ops) = some mat.molarMass)
    (v : α) (r1 r2 : MRep) (g1 g2 : α)
    (h1 : r1.grams Spec.unitTable mat = some g1) (h2 : r2.grams Spec.unitTable mat = some g2) :
    (Req.materialObj ops v (some r1.b.name) (some r2.b.name) (some r1.u) (some r2.u)).run = .ok (v * g2 / g1) := by
  rw [← unitTable_eq_spec] at h1 h2
  exact cMaterial_spec_env (matEnv (matProps ops)) mat hp hd hm v r1 r2 g1 g2 h1 h2

/-- a material without the needed property is refused (S16: with a `TypeError`, not a parameter error) -/
theorem cMaterial_object_missing_partial (v : α) (um : String)
    (hu : (checkUnit Gen.volumeUnits (some um) : Except Err α) ≠ .error .param) :
    (Req.materialObj ([] : List (MatOp α)) v (some "mass") (some "volume") (some "g") (some um)).run = .error .type := by
  cases h : (checkUnit Gen.volumeUnits (some um) : Except Err α) with
  | error e => exact absurd (by rw [h, checkUnit_err _ _ _ h]) hu
  | ok f =>
    have hg : (checkUnit Gen.massUnits (some "g") : Except Err α) = .ok 1 := by
      simp [checkUnit, facOf, Gen.massUnits, List.lookup]
    simp [Req.run, cMaterial, checkBasis, Gen.materialMode, Gen.unitTable, List.lookup, h, hg, leaf, Gen.materialConst,
      evalConst, evalQty, matEnv, matDensity, matProps, Gen.Qty.isMaterial, bind, Except.bind]

/-! ## No history -/

/-- the reply to a request inside any history of requests is the reply to that request alone -/
theorem reply_history_independent (pre post : List (Req α)) (r : Req α) :
    (runAll (pre ++ r :: post))[pre.length]? = some r.run := by
  simp [runAll]

theorem runAll_append (h1 h2 : List (Req α)) : runAll (h1 ++ h2) = runAll h1 ++ runAll h2 := by
  simp [runAll]

/-- in particular: after *any* history — e.g. one that converted the same two unit strings in the table in
which they are valid — the request against another table is still refused -/
theorem foreign_units_refused_after_any_history (pre : List (Req α)) (tx ty : String) (hx : tx ∈ tableNames)
    (hy : ty ∈ tableNames) (hxy : tx ≠ ty) (v : α) (a a' : String)
    (ha : ((Gen.unitTable tx).lookup a).isSome = true) (sg : Int) :
    (runAll (pre ++ [Req.unit ty v (some a) (some a') sg])).getLast? = some (.error .param) := by
  simp [runAll, Req.run, (cUnit_refuses_foreign tx ty hx hy hxy v a ha (some a') sg).1]

end material

/-! ## Non-vacuity -/

/-- `cm3 → L` is a valid conversion of a gas volume (factor 1/1000) … -/
example : cLoading (fun _ => some (2 : ℚ)) 1 (some "volume_gas") (some "volume_gas") (some "cm3") (some "L") none none
    = .ok (1 / 1000) := by decide +kernel

/-- … and the same two strings are no units of a mass, an amount, a pressure, a material mass -/
example : cLoading (fun _ => some (2 : ℚ)) 1 (some "mass") (some "mass") (some "cm3") (some "L") none none
    = .error .param := by decide +kernel
example : cLoading (fun _ => some (2 : ℚ)) 1 (some "molar") (some "molar") (some "cm3") (some "L") none none
    = .error .param := by decide +kernel
example : cPressure (some (101325 : ℚ)) true 1 (some "absolute") (some "absolute") (some "g") (some "kg")
    = .error .param := by decide +kernel
example : cMaterial (fun _ => some (2 : ℚ)) 1 (some "volume") (some "volume") (some "mmol") (some "mol")
    = .error .param := by decide +kernel
example : "volume" ∈ tableNames ∧ "volume" ≠ LB.mass.table ∧ (Gen.volumeUnits.lookup "cm3").isSome = true := by decide

/-- 1 atm of saturation pressure is 760.002… torr -/
example : satPressure (some (101325 : ℚ)) (some "torr") = .ok (101325 / (66661 / 500)) := by decide +kernel
example : satPressure (some (101325 : ℚ)) (some "g") = .error .param := by decide +kernel

/-- a `Material` built with one density, re-set twice (the falsy value ignored), converts with the last one -/
example : (Req.materialObj [.kw "density" (23 / 10 : ℚ), .set "density" (some 0), .set "density" (some (5 / 2))] 1
    (some "mass") (some "volume") (some "g") (some "cm3")).run = .ok (5 / 2) := by decide +kernel
example : matDensity (matProps [.kw "density" (23 / 10 : ℚ), .kw "molar_mass" 321]) = some (23 / 10) ∧
    matMolarMass (matProps [.kw "density" (23 / 10 : ℚ), .kw "molar_mass" 321]) = some 321 := by decide +kernel

end PgVerif.C01
