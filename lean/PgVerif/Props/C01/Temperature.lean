/-
C01, fourth theorem file: "… the adsorbate's saturation pressure, molar mass and densities **at the stated temperature**".

Model: `Model/UnitsThermo.lean` — the adsorbate is a function `B : Thermo α` of the temperature, every request states its
temperature, `TReq.run B r` uses `B r.temp`.

* **The factor is the SI factor for the constants at the stated temperature**, whatever the backend delivers at any other
  temperature (`pressure_at_stated_temperature`, `loading_at_stated_temperature`, `satp_at_stated_temperature`,
  `quantity_at_stated_temperature`), and whatever was asked before (`reply_history_independent_T`).
* **Two temperatures with different saturation pressures give different pressure conversions** of every non-zero value
  (`pressure_separates_temperatures`): no two temperatures may share a factor unless the backend says so.
* **Memories keyed on a function of the temperature** (`runMemo k`: rounded / truncated / single-precision / formatted
  temperature …): right for every history if the backend does not separate two temperatures with the same key
  (`memo_sound`, in particular the exact key `memo_exact_key`); otherwise *two consecutive requests* — the first one fills the
  memory, the second one states another temperature with the same key — expose it (`memo_two_step_wrong`,
  `memo_exposed_by_pressure`), and for pressure conversions this is an equivalence (`memo_pressure_correct_iff`).
  This is the sequence the harness runs on the real `pygaps.Adsorbate` objects (near-duplicate temperatures, both orders,
  every leaf that reads a constant at T), with constants from CoolProp states of its own at the exact temperatures.
-/
import PgVerif.Props.C01.History
import PgVerif.Model.UnitsThermo

set_option linter.unusedSectionVars false
set_option linter.unusedSimpArgs false
set_option linter.unusedVariables false
set_option linter.unusedDecidableInType false

namespace PgVerif.C01
open PgVerif.Model PgVerif.Units
open PgVerif.Spec (LB MB Ads Mat gL gM PRep LRep MRep TRep physScale fac)

variable {α : Type} [Field α] [CharZero α] [DecidableEq α]

/-- the point a backend delivers when everything can be calculated: saturation pressure `ps` and the constants `a` -/
def pointOf (ps : α) (a : Ads α) : ThermoPoint α :=
  ⟨some ps, some a.rhoG, some a.rhoL, some a.M, some a.rhoGbar, some a.rhoLbar⟩

private theorem pointOf_env (ps : α) (a : Ads α) (mat : Mat α) : (pointOf ps a).env (envOf a mat) = envOf a mat := by
  funext q; cases q <;> rfl

/-! ## The factor is the SI factor for the constants at the stated temperature -/

/-- `c_pressure(…, temp=T)`: the scales are those of the saturation pressure the backend delivers at `T` -/
theorem pressure_at_stated_temperature (B : Thermo α) (T ps v : α) (hT : T ≠ 0) (hB : (B T).psat = some ps) (hps : ps ≠ 0)
    (a b : PRep) (sa sb : α)
    (ha : a.scale Spec.pressureUnits ps = some sa) (hb : b.scale Spec.pressureUnits ps = some sb) :
    (TReq.pressure T v (some a.mode) (some b.mode) a.unit b.unit).run B = .ok (v * sa / sb) := by
  simp only [TReq.run, TReq.runWith, TReq.temp, hB, hT, ne_eq, not_false_eq_true, decide_true]
  exact cPressure_SI ps v hps a b sa sb ha hb

/-- `c_loading(…, temp=T, …)`: the scales are those of the constants the backend delivers at `T` -/
theorem loading_at_stated_temperature (B : Thermo α) (T ps : α) (a : Ads α) (mat : Mat α) (hB : B T = pointOf ps a)
    (hc : a.Consistent) (hp : a.Pos) (v : α) (m : MRep) (r1 r2 : LRep) (s1 s2 : α)
    (h1 : r1.scale Spec.unitTable a m = some s1) (h2 : r2.scale Spec.unitTable a m = some s2) :
    (TReq.loading T (envOf a mat) v (some r1.basis) (some r2.basis) r1.unit r2.unit (some m.b.name) (some m.u)).run B
      = .ok (v * s1 / s2) := by
  simp only [TReq.run, TReq.runWith, TReq.temp, hB, pointOf_env]
  exact cLoading_SI a mat hc hp v m r1 r2 s1 s2 h1 h2

/-- `adsorbate.saturation_pressure(T, unit)` -/
theorem satp_at_stated_temperature (B : Thermo α) (T ps : α) (hB : (B T).psat = some ps) (u : String) (f : α) (hu : u ≠ "")
    (hf : (fac Spec.pressureUnits u : Option α) = some f) :
    (TReq.satp T (some u)).run B = .ok (ps / f) ∧ (TReq.satp T none).run B = .ok ps := by
  simp only [TReq.run, TReq.runWith, TReq.temp, hB]
  exact ⟨satPressure_SI ps u f hu hf, rfl⟩

/-- the density accessors at `T` -/
theorem quantity_at_stated_temperature (B : Thermo α) (T ps : α) (a : Ads α) (hB : B T = pointOf ps a) :
    (TReq.quantity T .gasDensity).run B = .ok a.rhoG ∧ (TReq.quantity T .liquidDensity).run B = .ok a.rhoL ∧
    (TReq.quantity T .gasMolarDensity).run B = .ok a.rhoGbar ∧ (TReq.quantity T .liquidMolarDensity).run B = .ok a.rhoLbar ∧
    (TReq.quantity T .molarMass).run B = .ok a.M := by
  simp [TReq.run, TReq.runWith, TReq.temp, hB, pointOf, ThermoPoint.env, ThermoPoint.qty, evalQty, Gen.Qty.isMaterial]

/-- a request depends on the backend only through its value at the stated temperature -/
theorem run_congr (B B' : Thermo α) (r : TReq α) (h : B r.temp = B' r.temp) : r.run B = r.run B' := by
  simp [TReq.run, h]

/-- the reply to a request inside any history of requests on the same adsorbate is the reply to that request alone -/
theorem reply_history_independent_T (B : Thermo α) (pre post : List (TReq α)) (r : TReq α) :
    (runAllT B (pre ++ r :: post))[pre.length]? = some (r.run B) := by
  simp [runAllT]

/-- no temperature (`None` / 0): a change between absolute and a relative mode is refused whatever the backend delivers -/
theorem pressure_refuses_zero_temperature (B : Thermo α) (v : α) (a : PRep) (u o : Option String) (ha : a.mode ≠ "absolute") :
    (TReq.pressure 0 v (some a.mode) (some "absolute") o u).run B = .error .param ∧
    (TReq.pressure 0 v (some "absolute") (some a.mode) u o).run B = .error .param := by
  simp only [TReq.run, TReq.runWith, TReq.temp, ne_eq, not_true_eq_false, decide_false]
  exact cPressure_refuses_no_temperature _ v a u o ha

/-! ## Different saturation pressures, different conversions -/

/-- absolute ↔ relative / relative % of a non-zero value with two different (non-zero) saturation pressures: different
results, in both directions.  (With `v = 0` or on the paths that do not read the saturation pressure the results agree.) -/
theorem pressure_separates_temperatures (ps1 ps2 v : α) (h1 : ps1 ≠ 0) (h2 : ps2 ≠ 0) (hv : v ≠ 0) (hne : ps1 ≠ ps2)
    (u : String) (f : α) (hu : (PRep.abs u).scale Spec.pressureUnits ps1 = some f) (r : PRep) (hr : r.mode ≠ "absolute") :
    cPressure (some ps1) true v (some "absolute") (some r.mode) (some u) r.unit ≠
      cPressure (some ps2) true v (some "absolute") (some r.mode) (some u) r.unit ∧
    cPressure (some ps1) true v (some r.mode) (some "absolute") r.unit (some u) ≠
      cPressure (some ps2) true v (some r.mode) (some "absolute") r.unit (some u) := by
  have hu2 : (PRep.abs u).scale Spec.pressureUnits ps2 = some f := by simpa [Spec.PRep.scale] using hu
  have hf : f ≠ 0 := PRep.scale_ne_zero ps1 h1 (.abs u) f hu
  have h100 : (100 : α) ≠ 0 := by norm_num
  have key : ∀ (s1 s2 : α), r.scale Spec.pressureUnits ps1 = some s1 → r.scale Spec.pressureUnits ps2 = some s2 →
      s1 ≠ 0 → s2 ≠ 0 → s1 ≠ s2 → _ := fun s1 s2 e1 e2 n1 n2 ne => And.intro
    (show cPressure (some ps1) true v (some (PRep.abs u).mode) (some r.mode) (PRep.abs u).unit r.unit ≠
        cPressure (some ps2) true v (some (PRep.abs u).mode) (some r.mode) (PRep.abs u).unit r.unit by
      rw [cPressure_SI ps1 v h1 (.abs u) r f s1 hu e1, cPressure_SI ps2 v h2 (.abs u) r f s2 hu2 e2]
      intro h
      have h' : v * f / s1 = v * f / s2 := by simpa using h
      apply ne
      field_simp at h'
      exact h'.symm)
    (show cPressure (some ps1) true v (some r.mode) (some (PRep.abs u).mode) r.unit (PRep.abs u).unit ≠
        cPressure (some ps2) true v (some r.mode) (some (PRep.abs u).mode) r.unit (PRep.abs u).unit by
      rw [cPressure_SI ps1 v h1 r (.abs u) s1 f e1 hu, cPressure_SI ps2 v h2 r (.abs u) s2 f e2 hu2]
      intro h
      have h' : v * s1 / f = v * s2 / f := by simpa using h
      apply ne
      field_simp at h'
      exact h')
  cases r with
  | abs x => exact absurd rfl hr
  | rel x => exact key ps1 ps2 rfl rfl h1 h2 hne
  | relp x =>
    exact key (ps1 / 100) (ps2 / 100) rfl rfl (div_ne_zero h1 h100) (div_ne_zero h2 h100)
      (fun h => hne (by field_simp at h; exact h))

/-! ## Memories keyed on a function of the temperature -/

section memo
variable {κ : Type} [DecidableEq κ]

/-- every entry of the memory is the backend's answer for some temperature (of the set `S`) with that key -/
def MemoryFrom (k : α → κ) (B : Thermo α) (S : α → Prop) (cache : List (κ × ThermoPoint α)) : Prop :=
  ∀ x p, cache.lookup x = some p → ∃ T, S T ∧ k T = x ∧ B T = p

/-- **soundness**: if the backend does not separate two temperatures (of the set `S` the requests come from) that have the
same key, the remembering implementation gives the specified replies for every history, from every memory it can have built -/
theorem memo_sound (k : α → κ) (B : Thermo α) (S : α → Prop)
    (hk : ∀ T1 T2, S T1 → S T2 → k T1 = k T2 → B T1 = B T2)
    (h : List (TReq α)) (hS : ∀ r ∈ h, S r.temp) (cache : List (κ × ThermoPoint α)) (hc : MemoryFrom k B S cache) :
    runMemo k B cache h = runAllT B h := by
  induction h generalizing cache with
  | nil => rfl
  | cons r rs ih =>
    have hr : S r.temp := hS r (by simp)
    have hrs : ∀ r' ∈ rs, S r'.temp := fun r' hr' => hS r' (by simp [hr'])
    unfold runMemo
    cases hl : cache.lookup (k r.temp) with
    | some p =>
      obtain ⟨T, hT, hkT, hBT⟩ := hc _ _ hl
      have : p = B r.temp := by rw [← hBT]; exact hk T r.temp hT hr hkT
      simp only [runAllT, List.map_cons, TReq.run, this]
      exact congrArg _ (ih hrs cache hc)
    | none =>
      simp only [runAllT, List.map_cons, TReq.run]
      refine congrArg _ (ih hrs _ ?_)
      intro x p hx
      rw [List.lookup_cons] at hx
      split at hx
      · rename_i heq
        have hx' : x = k r.temp := by simpa using heq
        exact ⟨r.temp, hr, hx'.symm, by simpa using hx⟩
      · exact hc x p hx

/-- the exact temperature as the key is always right -/
theorem memo_exact_key (B : Thermo α) (h : List (TReq α)) : runMemo (fun T => T) B [] h = runAllT B h :=
  memo_sound (fun T => T) B (fun _ => True) (fun _ _ _ _ e => by rw [e]) h (fun _ _ => trivial) []
    (fun _ _ hx => by simp [List.lookup] at hx)

/-- **two consecutive requests are enough**: if two requests state temperatures with the same key and the second one's
reply with the first temperature's constants is not its reply with its own, the remembering implementation, started with
an empty memory, answers the history `[r1, r2]` wrongly (and the first reply is right: the defect needs the sequence) -/
theorem memo_two_step_wrong (k : α → κ) (B : Thermo α) (r1 r2 : TReq α) (hkey : k r1.temp = k r2.temp)
    (hdiff : r2.runWith (B r1.temp) ≠ r2.run B) :
    (runMemo k B [] [r1, r2])[0]? = some (r1.run B) ∧
    (runMemo k B [] [r1, r2])[1]? ≠ some (r2.run B) ∧
    runMemo k B [] [r1, r2] ≠ runAllT B [r1, r2] := by
  have e : runMemo k B [] [r1, r2] = [r1.run B, r2.runWith (B r1.temp)] := by
    simp [runMemo, List.lookup, TReq.run, hkey]
  rw [e]
  refine ⟨rfl, by simpa using hdiff, ?_⟩
  simp only [runAllT, List.map_cons, List.map_nil, ne_eq, List.cons.injEq, true_and, and_true]
  exact hdiff

/-- … and a pressure-mode conversion of any non-zero value is such a pair of requests as soon as the backend's saturation
pressures at the two temperatures differ: convert at `T1`, then at `T2` -/
theorem memo_exposed_by_pressure (k : α → κ) (B : Thermo α) (T1 T2 ps1 ps2 v : α) (hT1 : T1 ≠ 0) (hT2 : T2 ≠ 0)
    (hkey : k T1 = k T2) (hB1 : (B T1).psat = some ps1) (hB2 : (B T2).psat = some ps2)
    (h1 : ps1 ≠ 0) (h2 : ps2 ≠ 0) (hne : ps1 ≠ ps2) (hv : v ≠ 0)
    (u : String) (f : α) (hu : (PRep.abs u).scale Spec.pressureUnits ps1 = some f) (r : PRep) (hr : r.mode ≠ "absolute") :
    runMemo k B [] [.pressure T1 v (some "absolute") (some r.mode) (some u) r.unit,
                    .pressure T2 v (some "absolute") (some r.mode) (some u) r.unit]
      ≠ runAllT B [.pressure T1 v (some "absolute") (some r.mode) (some u) r.unit,
                   .pressure T2 v (some "absolute") (some r.mode) (some u) r.unit] := by
  refine (memo_two_step_wrong k B _ _ (by simpa [TReq.temp] using hkey) ?_).2.2
  simp only [TReq.run, TReq.runWith, TReq.temp, hB1, hB2, hT2, ne_eq, not_false_eq_true, decide_true]
  exact (pressure_separates_temperatures ps1 ps2 v h1 h2 hv hne u f hu r hr).1

/-- **characterisation for pressure conversions**: over a set `S` of non-zero temperatures at which the backend delivers
non-zero saturation pressures, the remembering implementation answers every history of requests stated at temperatures of `S`
like the specification **iff** two temperatures of `S` with the same key have the same backend answer — as far as the pressure
requests can see it, the same saturation pressure.  Stated for backends whose other constants do not depend on what the key
forgets (`hrest`), so that "same saturation pressure" is "same answer". -/
theorem memo_pressure_correct_iff (k : α → κ) (B : Thermo α) (S : α → Prop)
    (hS0 : ∀ T, S T → T ≠ 0) (hps : ∀ T, S T → ∃ ps, (B T).psat = some ps ∧ ps ≠ 0)
    (hrest : ∀ T1 T2, S T1 → S T2 → k T1 = k T2 → (B T1).psat = (B T2).psat → B T1 = B T2) :
    (∀ h : List (TReq α), (∀ r ∈ h, S r.temp) → runMemo k B [] h = runAllT B h) ↔
    (∀ T1 T2, S T1 → S T2 → k T1 = k T2 → (B T1).psat = (B T2).psat) := by
  constructor
  · intro hall T1 T2 s1 s2 hkey
    by_contra hne
    obtain ⟨ps1, e1, n1⟩ := hps T1 s1
    obtain ⟨ps2, e2, n2⟩ := hps T2 s2
    have hne' : ps1 ≠ ps2 := fun h => hne (by rw [e1, e2, h])
    have hPa : (PRep.abs "Pa").scale Spec.pressureUnits ps1 = some (1 : α) := by
      simp [Spec.PRep.scale, Spec.fac, Spec.pressureUnits, List.lookup]
    refine memo_exposed_by_pressure k B T1 T2 ps1 ps2 1 (hS0 T1 s1) (hS0 T2 s2) hkey e1 e2 n1 n2 hne' one_ne_zero
      "Pa" 1 hPa (.rel none) (by simp [Spec.PRep.mode]) (hall _ ?_)
    intro r hr
    simp only [List.mem_cons, List.not_mem_nil, or_false] at hr
    rcases hr with rfl | rfl <;> simpa [TReq.temp]
  · intro hk h hS
    exact memo_sound k B S (fun T1 T2 s1 s2 e => hrest T1 T2 s1 s2 e (hk T1 T2 s1 s2 e)) h hS []
      (fun _ _ hx => by simp [List.lookup] at hx)

end memo

/-! ## Non-vacuity: a nitrogen-like backend around 77 K, a memory keyed on the temperature rounded to 0.01 K -/

/-- p_sat rises by 120 Pa per 0.001 K around 77.3 K, the liquid gets lighter; consistent constants -/
def exB : Thermo ℚ := fun T =>
  pointOf (100000 + 120000 * (T - 773 / 10)) ⟨28, 4 / 5 - (T - 77) / 250, (4 / 5 - (T - 77) / 250) / 28, 7 / 1000, 1 / 4000⟩

/-- `round(T, 2)` -/
def exKey (T : ℚ) : ℤ := ⌊T * 100 + 1 / 2⌋

/-- 77.344 K and 77.336 K have the same key and different saturation pressures -/
example : exKey (77344 / 1000) = exKey (77336 / 1000) ∧ (exB (77344 / 1000)).psat ≠ (exB (77336 / 1000)).psat := by
  decide +kernel

/-- the specification: 1 bar is p/p0 = 0.9497… at 77.344 K and 0.9588… at 77.336 K, in whatever order they are asked -/
example : runAllT exB [.pressure (77344 / 1000) 1 (some "absolute") (some "relative") (some "bar") none,
                       .pressure (77336 / 1000) 1 (some "absolute") (some "relative") (some "bar") none]
    = [.ok (100000 / 105280), .ok (100000 / 104320)] := by decide +kernel

/-- the memory keyed on the rounded temperature answers the second request with the first temperature's p0 … -/
example : runMemo exKey exB [] [.pressure (77344 / 1000) 1 (some "absolute") (some "relative") (some "bar") none,
                                .pressure (77336 / 1000) 1 (some "absolute") (some "relative") (some "bar") none]
    = [.ok (100000 / 105280), .ok (100000 / 105280)] := by decide +kernel

/-- … the same for the liquid density behind a loading conversion (mmol → cm3 of liquid) -/
example : runMemo exKey exB [] [.loading (77344 / 1000) (fun _ => none) 1 (some "molar") (some "volume_liquid") (some "mmol") (some "cm3") none none,
                                .loading (77336 / 1000) (fun _ => none) 1 (some "molar") (some "volume_liquid") (some "mmol") (some "cm3") none none]
    ≠ runAllT exB [.loading (77344 / 1000) (fun _ => none) 1 (some "molar") (some "volume_liquid") (some "mmol") (some "cm3") none none,
                   .loading (77336 / 1000) (fun _ => none) 1 (some "molar") (some "volume_liquid") (some "mmol") (some "cm3") none none] := by
  decide +kernel

/-- … and is right when the temperatures are further apart than the key's resolution -/
example : runMemo exKey exB [] [.pressure (77344 / 1000) 1 (some "absolute") (some "relative") (some "bar") none,
                                .pressure (77355 / 1000) 1 (some "absolute") (some "relative") (some "bar") none]
    = runAllT exB [.pressure (77344 / 1000) 1 (some "absolute") (some "relative") (some "bar") none,
                   .pressure (77355 / 1000) 1 (some "absolute") (some "relative") (some "bar") none] := by decide +kernel

/-- the hypotheses of `loading_at_stated_temperature` hold for this backend at 77.344 K -/
example : (⟨28, 4 / 5 - (77344 / 1000 - 77) / 250, (4 / 5 - (77344 / 1000 - 77) / 250) / 28, 7 / 1000, 1 / 4000⟩ : Ads ℚ).Consistent ∧
    (⟨28, 4 / 5 - (77344 / 1000 - 77) / 250, (4 / 5 - (77344 / 1000 - 77) / 250) / 28, 7 / 1000, 1 / 4000⟩ : Ads ℚ).Pos := by
  refine ⟨⟨?_, ?_⟩, ?_, ?_, ?_, ?_, ?_⟩ <;> norm_num

/-- a table of two neighbouring temperatures (driver): the lookup is by equality -/
example : (TReq.satp (77336 / 1000) none).run (Thermo.ofTable [(77344 / 1000, exB (77344 / 1000)), (77336 / 1000, exB (77336 / 1000))])
    = .ok (104320 : ℚ) ∧
    (TReq.satp (7734 / 100) none).run (Thermo.ofTable [(77344 / 1000, exB (77344 / 1000)), (77336 / 1000, exB (77336 / 1000))])
    = .error .calc := by decide +kernel

end PgVerif.C01
