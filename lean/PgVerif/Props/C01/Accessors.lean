/-
C01 — the adsorbate / material quantities the conversions rely on ("the adsorbate's saturation pressure, molar mass and
densities (or the material's density and molar mass)") are what the accessor methods deliver NOW.

`Model/Units.lean` takes these quantities as an environment `Env α` (and `psat`), and `Props/C01.lean` proves the conversion
laws under the hypotheses `Ads.Consistent` / `Ads.Pos`.  Here the environment is *computed* from the accessor descriptors
generated from core/adsorbate.py (`Gen.Accessors`, = `Spec.Accessors` by `C20.gen_descriptors_eq_spec`) run against an
abstract SI backend: the units are the ones `Spec/Units.lean` assumes (g/mol, g/cm3, mol/cm3, Pa), `Consistent` follows from
the SI consistency of the backend, and the factor `c_pressure` obtains from `saturation_pressure(temp, unit=unit)` is the
`c_unit` conversion of the Pascal value that `cPressure` models.
-/
import PgVerif.Props.C20.Accessors
import PgVerif.Spec.Units

set_option linter.unusedSimpArgs false
set_option linter.unusedVariables false
set_option linter.unusedSectionVars false
set_option linter.unusedDecidableInType false

namespace PgVerif.C01
open PgVerif.Model PgVerif.Model.Acc
open PgVerif.C20 (G liftErr)
open PgVerif.Model.Registry (propValue)

variable {α : Type} [Field α] [DecidableEq α]

/-- the quantities `c_loading` / `c_material` read, as the real accessor methods deliver them at temperature `T`
(`none`: the method raised); material quantities come from the material's dictionary `DM` -/
def accessorEnv (B : Backend α) (D DM : Dict α) (T : α) : Env α
  | .gasDensity => (call G "gas_density" B D { temp := some T }).toOption
  | .liquidDensity => (call G "liquid_density" B D { temp := some T }).toOption
  | .molarMass => (call G "molar_mass" B D {}).toOption
  | .gasMolarDensity => (call G "gas_molar_density" B D { temp := some T }).toOption
  | .liquidMolarDensity => (call G "liquid_molar_density" B D { temp := some T }).toOption
  | .matDensity => DM "density"
  | .matMolarMass => DM "molar_mass"

/-- with a working SI backend the environment holds: M·1000 [g/mol], ρ/1000 [g/cm3], ρ̄/1e6 [mol/cm3] -/
theorem accessorEnv_units (B : Backend α) (D DM : Dict α) (T M rl rlb rg rgb : α)
    (hM : B .state "molar_mass" .none = some M)
    (h1 : B .state "rhomass" (.QT 0 T) = some rl) (h2 : B .state "rhomolar" (.QT 0 T) = some rlb)
    (h3 : B .state "rhomass" (.QT 1 T) = some rg) (h4 : B .state "rhomolar" (.QT 1 T) = some rgb) :
    accessorEnv B D DM T .molarMass = some (1000 * M) ∧
    accessorEnv B D DM T .liquidDensity = some (rl / 1000) ∧
    accessorEnv B D DM T .liquidMolarDensity = some (rlb / 1000000) ∧
    accessorEnv B D DM T .gasDensity = some (rg / 1000) ∧
    accessorEnv B D DM T .gasMolarDensity = some (rgb / 1000000) := by
  refine ⟨?_, ?_, ?_, ?_, ?_⟩
  · simp [accessorEnv, C20.molar_mass_law, Spec.Accessors.molarMass, hM, propValue, liftErr, Except.toOption]
  · simp [accessorEnv, C20.liquid_density_law, Spec.Accessors.liquidDensity, h1, propValue, liftErr, Except.toOption]
  · simp [accessorEnv, C20.liquid_molar_density_law, Spec.Accessors.liquidMolarDensity, h2, propValue, liftErr, Except.toOption]
  · simp [accessorEnv, C20.gas_density_law, Spec.Accessors.gasDensity, h3, propValue, liftErr, Except.toOption]
  · simp [accessorEnv, C20.gas_molar_density_law, Spec.Accessors.gasMolarDensity, h4, propValue, liftErr, Except.toOption]

/-- **the hypothesis `Ads.Consistent` of the conversion theorems is delivered by the accessors** whenever the backend is
consistent in SI units (kg/m3 = mol/m3 · kg/mol in both saturated phases) — for every temperature -/
theorem accessorEnv_consistent [CharZero α] (B : Backend α) (D DM : Dict α) (T M rl rlb rg rgb : α)
    (hM : B .state "molar_mass" .none = some M)
    (h1 : B .state "rhomass" (.QT 0 T) = some rl) (h2 : B .state "rhomolar" (.QT 0 T) = some rlb)
    (h3 : B .state "rhomass" (.QT 1 T) = some rg) (h4 : B .state "rhomolar" (.QT 1 T) = some rgb)
    (hl : rl = rlb * M) (hg : rg = rgb * M) :
    ∃ a : Spec.Ads α,
      accessorEnv B D DM T .molarMass = some a.M ∧ accessorEnv B D DM T .liquidDensity = some a.rhoL ∧
      accessorEnv B D DM T .liquidMolarDensity = some a.rhoLbar ∧ accessorEnv B D DM T .gasDensity = some a.rhoG ∧
      accessorEnv B D DM T .gasMolarDensity = some a.rhoGbar ∧ a.Consistent := by
  obtain ⟨e1, e2, e3, e4, e5⟩ := accessorEnv_units B D DM T M rl rlb rg rgb hM h1 h2 h3 h4
  refine ⟨⟨1000 * M, rl / 1000, rlb / 1000000, rg / 1000, rgb / 1000000⟩, e1, e2, e3, e4, e5, ?_, ?_⟩
  · show rl / 1000 = rlb / 1000000 * (1000 * M)
    rw [hl]; field_simp; norm_num
  · show rg / 1000 = rgb / 1000000 * (1000 * M)
    rw [hg]; field_simp; norm_num

/-- and `Ads.Pos` (no division by zero in the conversion constants) whenever the backend values are non-zero -/
theorem accessorEnv_pos [CharZero α] (M rl rlb rg rgb : α)
    (hM : M ≠ 0) (h1 : rl ≠ 0) (h2 : rlb ≠ 0) (h3 : rg ≠ 0) (h4 : rgb ≠ 0) :
    (⟨1000 * M, rl / 1000, rlb / 1000000, rg / 1000, rgb / 1000000⟩ : Spec.Ads α).Pos := by
  refine ⟨?_, ?_, ?_, ?_, ?_⟩ <;> simp [*]

/-- the factor `c_pressure` uses, `adsorbate.saturation_pressure(temp, unit=unit)`, is the `c_unit` conversion from Pa of the
value without unit — exactly the term `cUnit pressureUnits ps (some "Pa") unit 1` of the model `cPressure`; it holds on the
backend path and, the backend failing, for a user-supplied saturation pressure -/
theorem saturation_pressure_factor (B : Backend α) (D : Dict α) (T ps : α) (u : String)
    (hps : call G "saturation_pressure" B D { temp := some T } = .ok ps) :
    call G "saturation_pressure" B D { temp := some T, unit := some u } = cUnit Gen.pressureUnits ps (some "Pa") (some u) 1 := by
  rw [C20.unit_honoured, hps]
  rfl

/-- a failing accessor (no backend value and no user value) is a `CalculationError`, which `cPressure` passes on as `.calc` -/
theorem saturation_pressure_missing (B : Backend α) (T : α) (u : Option String)
    (hB : B .state "p" (.QT 0 T) = none) :
    call G "saturation_pressure" B (fun _ => none) { temp := some T, unit := u } = .error .calc := by
  rw [G, C20.gen_descriptors_eq_spec]
  cases u <;>
    simp [call, PgVerif.Spec.Accessors.adsorbate, run, evalWith, evalLin, Read.inp, Cond.eval, catches, forward, errOfClass, pyName,
      PgVerif.Spec.Accessors.backendElseDict, PgVerif.Spec.Accessors.fromDict, PgVerif.Spec.Accessors.liquidAt, hB]

/-- the material quantities are the dictionary values; an absent one is `None` (no exception at the accessor: the conversion
that needs it fails later, finding S16) -/
theorem material_env (B : Backend α) (D DM : Dict α) (T : α) (isAttr : String → Bool) (g : GetPropDesc)
    (d : MatDesc) (hd : d ∈ PgVerif.Gen.Accessors.material) :
    (d.name = "density" → matGet g DM isAttr d.body = .ok (accessorEnv B D DM T .matDensity)) ∧
    (d.name = "molar_mass" → matGet g DM isAttr d.body = .ok (accessorEnv B D DM T .matMolarMass)) :=
  ⟨fun hn => C20.material_density DM isAttr g d hd hn, fun hn => C20.material_molar_mass DM isAttr g d hd hn⟩

/-! ## non-vacuity: the nitrogen-like SI backend of `Props/C20/Accessors.lean` yields the `Ads` record used in `Props/C01.lean` -/

example : accessorEnv C20.exB C20.exD (fun _ => none) 77 .molarMass = some 28 ∧
    accessorEnv C20.exB C20.exD (fun _ => none) 77 .liquidDensity = some (4 / 5) ∧
    accessorEnv C20.exB C20.exD (fun _ => none) 77 .liquidMolarDensity = some (1 / 35) := by decide +kernel

example : (⟨28, 4 / 5, 1 / 35, 21 / 5000, 3 / 20000⟩ : Spec.Ads ℚ).Consistent := by
  constructor <;> norm_num

end PgVerif.C01
