/-
C07 — the text formats: format tables, list codec, document structure.

Part 1 (kernel evaluation on the GENERATED tables `PgVerif.Gen.Formats`, regenerated from parsing/{__init__,csv,excel,aif}.py on
every run): the AIF tag map is a bijection between its key sets, old and new AIF maps fit together as the reader assumes, the
writers' and readers' literal prefixes / slices / positions agree, no two Excel fields share a cell and none lies in the data area,
the labelled lines of the CSV model block are written in the order the reader expects BY POSITION, each version gate accepts the
version its writer writes.
Part 2 (general theorems about the hand-written executable models in `PgVerif.Model.TextCodec`): `_to_string`/`_from_list` on flat
sequences of numbers, the material-property prefix, AIF custom keys and quoted values, Excel's end-of-table detection.
-/
import Mathlib.Tactic
import PgVerif.Model.TextCodec
import PgVerif.Gen.Formats
import PgVerif.Props.C07

namespace PgVerif.C07
open PgVerif.Model.TextCodec
open PgVerif.Gen.Formats

/-! ## Part 1 — the generated tables -/

/-! ### AIF -/

/-- no two entries of `_META_DICT` have the same tag (a duplicate key in the dict literal would silently drop a field) -/
theorem aif_tags_distinct : (aifMeta.map (·.1)).Nodup := by decide

/-- no two tags carry the same pyGAPS key (two tags writing the same field: one of them would be written with a popped value) -/
theorem aif_keys_distinct : (aifMeta.map (·.2.1)).Nodup := by decide

/-- hence the table is a bijection between its tags and its keys: looking a row up by its tag (import) or by its key (export) finds
that row, so export followed by import is the identity on the names of these fields -/
theorem aif_meta_bijection :
    ∀ r ∈ aifMeta, aifMeta.find? (fun x => x.1 == r.1) = some r ∧ aifMeta.find? (fun x => x.2.1 == r.2.1) = some r := by decide

/-- every type named in the tables is one the reader can apply to a text -/
theorem aif_types_known : ∀ r ∈ aifMeta ++ aifMetaOld, r.2.2 = "float" ∨ r.2.2 = "str" ∨ r.2.2 = "int" := by decide

/-- the three fields the writer sets by hand use the tag the table gives to that key (the reader finds them through the table) -/
theorem aif_required_in_table : ∀ p ∈ aifRequired, ∃ r ∈ aifMeta, r.1 = p.1 ∧ r.2.1 = p.2 := by decide

/-- old tags: pairwise distinct, none is a current tag, none is taken by the `_pygaps_` branch or excluded before the old table is
consulted, and each maps to a key of the current table with the same type -/
theorem aif_old_new_agree :
    (aifMetaOld.map (·.1)).Nodup ∧
    (∀ o ∈ aifMetaOld, o.1 ∉ aifMeta.map (·.1) ∧ o.1 ∉ aifExcluded ++ aifUnits ∧
      aifCustomReaderPrefix.toList.isPrefixOf o.1.toList = false ∧ ∃ r ∈ aifMeta, r.2.1 = o.2.1 ∧ r.2.2 = o.2.2) := by decide

/-- no table tag begins with the custom prefix: otherwise the custom metadata key spelt like the rest of that tag would be written under
the table's tag and read back under the table's key -/
theorem aif_table_tags_not_custom : ∀ r ∈ aifMeta, aifCustomWriterPrefix.toList.isPrefixOf r.1.toList = false := by decide

/-- custom metadata: writer and reader use the same prefix, the reader's slice removes exactly the prefix, and the quotes the writer
adds are the ones the reader strips -/
theorem aif_custom_prefix_agrees :
    aifCustomWriterPrefix = aifCustomReaderPrefix ∧ aifCustomReaderSlice = aifCustomReaderPrefix.toList.length ∧
    aifReaderStripsQuote = true := by decide

/-- model block: the reader pops exactly the names the writer writes (after the custom prefix is sliced off), for the same attribute
and the same index -/
theorem aif_model_fields_agree :
    (∀ w ∈ aifModelWriter, (w.2.1, w.2.2.1, String.ofList (w.1.toList.drop aifCustomReaderSlice)) ∈ aifModelReader ∧
      aifCustomReaderPrefix.toList.isPrefixOf w.1.toList = true ∧ (w.2.2.2 = "raw" ∨ w.2.2.2 = "str")) ∧
    (∀ r ∈ aifModelReader, ∃ w ∈ aifModelWriter, (w.2.1, w.2.2.1, String.ofList (w.1.toList.drop aifCustomReaderSlice)) = r) ∧
    (aifModelWriter.map (·.1)).Nodup ∧ (aifModelReader.map (·.2.2)).Nodup ∧ (aifModelReader.map fun r => (r.1, r.2.1)).Nodup := by
  decide

/-- model parameters: the reader's test and slice fit the writer's prefix; every name of the model block sends the document to the
model branch and none to the data branch (tested first) -/
theorem aif_model_params_agree :
    aifCustomReaderPrefix.toList.isPrefixOf aifParamWriterPrefix.toList = true ∧
    aifParamReaderPrefix.toList.isPrefixOf (aifParamWriterPrefix.toList.drop aifCustomReaderSlice) = true ∧
    (aifParamWriterPrefix.toList.drop aifCustomReaderSlice).length = aifParamReaderSlice ∧
    (∀ r ∈ aifModelReader, aifDispatchModel.toList.isPrefixOf r.2.2.toList = true ∧
      aifDispatchData.toList.isPrefixOf r.2.2.toList = false) ∧
    aifDispatchModel.toList.isPrefixOf (aifParamWriterPrefix.toList.drop aifCustomReaderSlice) = true := by decide

/-- what the AIF reader builds from the keys it has collected in `raw_dict` (the data loops are stored there as `data0` / `data1`, the
model block under its `model_…` names): `if any(a.startswith(<data>) …): PointIsotherm … if any(a.startswith(<model>) …): ModelIsotherm … BaseIsotherm` -/
inductive AifKind | point | model | base
  deriving DecidableEq, Repr

def aifDispatch (keys : List Str) : AifKind :=
  if keys.any (fun k => aifDispatchData.toList.isPrefixOf k) then .point
  else if keys.any (fun k => aifDispatchModel.toList.isPrefixOf k) then .model else .base

/-- exact failure (recorded finding): ANY collected key that begins with the data prefix — a metadata key `dataset` as well as the
reader's own `data0` — sends the document to the point-isotherm branch, whatever it holds … -/
theorem aif_key_with_data_prefix_dispatches (keys : List Str) (k : Str) (hk : k ∈ keys) (h : aifDispatchData.toList <+: k) :
    aifDispatch keys = .point := by
  unfold aifDispatch
  rw [if_pos]
  exact List.any_eq_true.2 ⟨k, hk, List.isPrefixOf_iff_prefix.2 h⟩

/-- … and, when no key has the data prefix, any key that begins with the model prefix (`model_x`, `modelling`) sends it to the model
branch, which then looks for the names of the model block -/
theorem aif_key_with_model_prefix_dispatches (keys : List Str) (k : Str) (hk : k ∈ keys) (h : aifDispatchModel.toList <+: k)
    (hno : ∀ k' ∈ keys, ¬ aifDispatchData.toList <+: k') : aifDispatch keys = .model := by
  unfold aifDispatch
  rw [if_neg, if_pos]
  · exact List.any_eq_true.2 ⟨k, hk, List.isPrefixOf_iff_prefix.2 h⟩
  · intro hh
    obtain ⟨k', hk', hp⟩ := List.any_eq_true.1 hh
    exact hno k' hk' (List.isPrefixOf_iff_prefix.1 hp)

example : aifDispatch ["material".toList, "dataset".toList] = .point ∧ aifDispatch ["material".toList, "model_x".toList] = .model ∧
    aifDispatch ["material".toList, "date".toList] = .base := by decide

/-- the loop a branch is written to is read back as that branch -/
def aifLoopBranch (loopPrefix : String) : Nat :=
  if aifLoopReaderPrefix.toList.isPrefixOf loopPrefix.toList then aifLoopReaderBranch else aifLoopReaderDefault

/-- data loops: the loop written for `has_branch('ads')` is read back as branch 0 and the one for `'des'` as branch 1 (pyGAPS's
branch numbers), both branches are written; each loop prefix has the length the reader slices off the column tags; the fixed column tags are mapped by `_DATA_DICT` to the column names the reader declares as pressure and
loading keys -/
theorem aif_loops_agree :
    (∀ l ∈ aifLoopsWriter, (l.1, aifLoopBranch l.2.1) ∈ [("ads", 0), ("des", 1)] ∧ l.2.1.toList.length = aifLoopReaderSlice ∧
      l.2.2.map (fun t => (aifData.find? (·.1 == t)).map (·.2)) = [some aifReaderPressureKey, some aifReaderLoadingKey]) ∧
    (∀ b ∈ ["ads", "des"], b ∈ aifLoopsWriter.map (·.1)) ∧ (aifLoopsWriter.map (·.1)).Nodup ∧ (aifData.map (·.1)).Nodup ∧ (aifData.map (·.2)).Nodup := by decide

/-! ### CSV -/

/-- THE positional contract of the model block: the attributes behind the labelled lines, in the order the writer writes them, are
the keys the reader assigns to the 1st, 2nd, … line — and the converters on the two sides undo each other.  Swapping two lines of
the writer (labels and values together, so that each line still looks right) breaks exactly this. -/
theorem csv_model_lines_in_reader_order :
    csvModelWriter.map (·.2.1) = csvModelReader.map (·.1) ∧
    (List.zipWith (fun w r => convCompatible w.2.2.toList r.2.toList) csvModelWriter csvModelReader).all id = true := by decide

/-- the reader's metadata loop stops at a line that starts with one of its stop prefixes (or is empty) -/
def csvMetaLoopStops (line : Str) : Bool := csvMetaStops.any (fun p => p.toList.isPrefixOf line) || line.isEmpty

/-- the header lines the writer emits end the metadata loop and send the reader to the right block, unambiguously (the data test
comes first: the model header must not pass it) -/
theorem csv_headers_dispatch :
    csvMetaLoopStops csvDataHeader.toList = true ∧ csvMetaLoopStops csvModelHeader.toList = true ∧
    csvDataPrefix.toList.isPrefixOf csvDataHeader.toList = true ∧ csvModelPrefix.toList.isPrefixOf csvModelHeader.toList = true ∧
    csvDataPrefix.toList.isPrefixOf csvModelHeader.toList = false := by decide

/-- exact failure (candidate finding): a metadata KEY that begins with a stop prefix (`dataset`, `model_x`, …) ends the metadata block —
the line is never read as metadata and the rest of the document is taken for a data table / model block -/
theorem csv_key_with_stop_prefix_ends_metadata (sep : Char) (k v : Str) (h : ∃ p ∈ csvMetaStops, p.toList <+: k) :
    csvMetaLoopStops (encodeLine sep k v) = true := by
  obtain ⟨p, hp, hk⟩ := h
  unfold csvMetaLoopStops encodeLine
  rw [Bool.or_eq_true, List.any_eq_true]
  refine Or.inl ⟨p, hp, ?_⟩
  rw [List.isPrefixOf_iff_prefix, List.append_assoc]
  exact hk.trans (List.prefix_append _ _)

example : csvMetaLoopStops (encodeLine ',' "dataset".toList "3".toList) = true ∧ csvMetaLoopStops (encodeLine ',' "date".toList "3".toList) = false := by
  decide

/-- the stop test of the generated prefixes is the stop test of the loop model `readMeta` -/
theorem csvMetaLoopStops_eq_stopsAt (line : Str) : csvMetaLoopStops line = stopsAt (csvMetaStops.map String.toList) line := by
  simp [csvMetaLoopStops, stopsAt, List.any_map, Function.comp_def]

/-- the whole metadata block, with the GENERATED stop prefixes and headers: clean entries (no separator in key or value, no blank at
the outer ends, key not a stop prefix) followed by either header the writer emits are read back as exactly these entries, and the
header line is what the reader dispatches on — for every separator that is not a blank -/
theorem csv_metadata_block_read_back (sep : Char) (hsep : isSpaceC sep = false) (entries : List (Str × Str)) (more : List Str)
    (h : ∀ kv ∈ entries, CleanEntry sep (csvMetaStops.map String.toList) kv) :
    ∀ hdr ∈ [csvDataHeader, csvModelHeader],
      readMeta sep (csvMetaStops.map String.toList) (entries.map (fun kv => encodeLine sep kv.1 kv.2) ++ hdr.toList :: more) =
        .read entries (hdr.toList :: more) := by
  intro hdr hh
  refine readMeta_written sep hsep _ entries _ h (Or.inr ⟨_, _, rfl, ?_⟩)
  simp only [List.mem_cons, List.not_mem_nil, or_false] at hh
  rcases hh with rfl | rfl <;> decide

/-- ... and a metadata line whose value ends in the separator (`comment,see notes,`) makes the reader refuse the document -/
theorem csv_metadata_block_refuses_trailing_separator (sep : Char) (hsep : isSpaceC sep = false) (entries : List (Str × Str))
    (k v : Str) (more : List Str) (h : ∀ kv ∈ entries, CleanEntry sep (csvMetaStops.map String.toList) kv)
    (hstop : csvMetaLoopStops (stripR (encodeLine sep k (v ++ [sep]))) = false) :
    readMeta sep (csvMetaStops.map String.toList) (entries.map (fun kv => encodeLine sep kv.1 kv.2) ++ encodeLine sep k (v ++ [sep]) :: more) =
      .refused :=
  readMeta_refuses_separator sep hsep _ entries k _ more h (by rw [← csvMetaLoopStops_eq_stopsAt]; exact hstop) (Or.inr (by simp))

example : csvMetaLoopStops (stripR (encodeLine ',' "comment".toList ("see notes".toList ++ [',']))) = false := by decide

/-- the writer's own metadata keys of the version line do not stop the loop -/
theorem csv_version_key_is_metadata : ∀ v ∈ [csvVersion, xlVersion], csvMetaLoopStops (encodeLine ',' v.writtenTag.toList v.written.toList) = false := by
  decide

/-- what the reader makes of a cell of the branch column -/
def branchDecode (c : BranchCodec) (cell : String) : Nat := if cell = c.readText then c.thenN else c.elseN

/-- the branch column: every number is written as a text the reader maps back to that number; the texts are distinct -/
theorem csv_branch_roundtrip :
    (∀ p ∈ csvBranch.writer, branchDecode csvBranch p.2 = p.1) ∧ (csvBranch.writer.map (·.1)).Nodup ∧ (csvBranch.writer.map (·.2)).Nodup ∧
    (∀ n ∈ [0, 1], n ∈ csvBranch.writer.map (·.1)) := by decide

theorem xl_branch_roundtrip :
    (∀ p ∈ xlBranch.writer, branchDecode xlBranch p.2 = p.1) ∧ (xlBranch.writer.map (·.1)).Nodup ∧ (xlBranch.writer.map (·.2)).Nodup ∧
    (∀ n ∈ [0, 1], n ∈ xlBranch.writer.map (·.1)) := by decide

/-- the four places where a material-property prefix is spelt agree, in each format, and the prefix is not empty -/
theorem material_prefixes_agree :
    ∀ p ∈ [csvMaterial, xlMaterial, aifMaterial],
      p.writer = p.startsWith ∧ p.writer = p.replace ∧ p.writer = p.pop ∧ p.writer ≠ "" := by decide

/-! ### version gates -/

/-- the reader looks the version up under the tag the writer wrote it to, and its gate accepts the version the writer writes -/
theorem version_gates_accept_written :
    ∀ v ∈ [csvVersion, xlVersion, aifVersion],
      v.writtenTag = v.readTag ∧ gateWarns v.gate v.written.toList v.required.toList = some false := by decide

/-- the documented precision of the data tables -/
theorem precision_is_eight_decimals : parserPrecision = 8 := by decide

/-! ### Excel -/

/-- label cell and value cell of every field -/
def xlCells : List (Nat × Nat) :=
  xlMeta.flatMap fun r => [(r.2.2.2.1, r.2.2.2.2), (r.2.2.2.1, r.2.2.2.2 + xlValueColOffsetWriter)]

/-- row and column of the `isotherm_data` field -/
def xlTypeCell : Option (Nat × Nat) := (xlMeta.find? (·.1 == "isotherm_data")).map fun r => (r.2.2.2.1, r.2.2.2.2)

/-- cells the point table or the model block may occupy: every row from the first row either uses, and the dtype row right of the
fixed columns -/
def xlInTableArea (typeRow : Nat) (cell : Nat × Nat) : Bool :=
  decide (typeRow + min (min xlPointWriter.headerRow xlPointWriter.dataRow) ((xlModelWriter.map (·.1)).foldl min xlParamHeadingRow) ≤ cell.1) ||
  (cell.1 == typeRow + xlPointWriter.dtypeRow && decide (xlPointWriter.dtypeCol ≤ cell.2))

/-- no two fields share a cell (labels and values); no dict key is repeated (a repeated key of the literal silently drops a field) and
no two fields carry the same name (the second would find its value already popped) -/
theorem xl_cells_distinct :
    xlCells.Nodup ∧ (xlMeta.map (·.1)).Nodup ∧ (xlMeta.map (·.2.1)).Nodup ∧ 0 < xlValueColOffsetWriter := by decide

/-- no field lies in the area of the point table / model block -/
theorem xl_cells_outside_table_area :
    ∃ t, xlTypeCell = some t ∧ ∀ c ∈ xlCells, xlInTableArea t.1 c = false := by
  refine ⟨_, rfl, ?_⟩
  decide

/-- writer and reader agree on every position of the point table; the dtype cells start right of the fixed columns; the branch
column is one of the fixed columns; rows are ordered dtype ≤ header < data; the end of the rows is looked for in a column every row fills -/
theorem xl_point_positions_agree :
    xlPointWriter = xlPointReader ∧ xlValueColOffsetWriter = xlValueColOffsetReader ∧
    xlPointWriter.dtypeCol = xlPointWriter.firstCol + xlFixedColumns ∧ xlBranchCol < xlFixedColumns ∧
    xlPointWriter.dtypeRow ≤ xlPointWriter.headerRow ∧ xlPointWriter.headerRow < xlPointWriter.dataRow ∧
    xlPointWriter.firstCol ≤ xlRowTestCol ∧ xlRowTestCol < xlPointWriter.firstCol + xlFixedColumns := by decide

/-- model block: the reader takes each model key from the cell where the writer put the value of that attribute, with converters
that undo each other; labels do not collide with values; parameters start where the reader starts, below every labelled row -/
theorem xl_model_positions_agree :
    (∀ w ∈ xlModelWriter, ∃ r ∈ xlModelReader, r.1 = w.2.2.2.1 ∧ r.2.1 = w.1 ∧ r.2.2.1 = w.2.2.2.2.2 ∧
      convCompatible w.2.2.2.2.1.toList r.2.2.2.toList = true ∧ w.2.2.1 ≠ w.2.2.2.2.2) ∧
    (∀ r ∈ xlModelReader, ∃ w ∈ xlModelWriter, r.1 = w.2.2.2.1 ∧ r.2.1 = w.1) ∧
    (xlModelWriter.map (·.1)).Nodup ∧ (xlModelReader.map (·.1)).Nodup ∧
    xlParamsWriter = xlParamsReader ∧ xlParamsWriter.firstRow = xlParamsWriter.valueRow ∧ xlParamsWriter.nameCol ≠ xlParamsWriter.valueCol ∧
    (∀ w ∈ xlModelWriter, w.1 < xlParamsWriter.firstRow) ∧ xlParamHeadingRow < xlParamsWriter.firstRow ∧
    xlParamHeadingRow ∉ xlModelWriter.map (·.1) := by decide

/-- the type marker: read from the cell it is written to; the point marker is taken as point, the model marker as model and NOT as
point (tested first), the metadata-only marker as neither -/
theorem xl_type_markers_dispatch :
    ∃ t, xlTypeCell = some t ∧
      xlTypes.map (fun x => (x.1, x.2.1)) = [(0, t.2 + xlValueColOffsetWriter), (0, t.2 + xlValueColOffsetWriter)] ∧
      xlMarkers.map (fun m => xlTypes.map fun x => x.2.2.toList.isPrefixOf (lower m.toList)) =
        [[true, false], [false, true], [false, false]] := by
  refine ⟨_, rfl, ?_⟩
  decide

/-- a number — zero included — never ends the data rows or the parameter rows; only an empty cell does -/
theorem xl_zero_is_not_end_of_data :
    ∀ t ∈ [xlRowEnd, xlParamRowEnd, xlColEnd], ∀ z, xlIsEnd t (.num z) = false ∧ xlIsEnd t (.bool z) = false ∧ xlIsEnd t .empty = true := by
  decide

/-! ## Part 2 — the hand-written models -/

/-! ### Excel: end of a table -/

/-- with the `== ''` test every row is read as long as the test column holds numbers (any numbers: zero pressure included) … -/
theorem xlCount_emptyText_all (zs : List Bool) : xlCount .emptyText (zs.map .num) = zs.length := by
  unfold xlCount
  induction zs with
  | nil => rfl
  | cons z t ih => simpa [List.takeWhile, xlIsEnd] using ih

/-- … the rows read are exactly those before the first empty cell … -/
theorem xlCount_emptyText_stops (zs : List Bool) (rest : List Cell) :
    xlCount .emptyText (zs.map .num ++ .empty :: rest) = zs.length := by
  unfold xlCount
  induction zs with
  | nil => rfl
  | cons z t ih => simpa [List.takeWhile, xlIsEnd] using ih

/-- … whereas the truthiness test stops at the first zero: the rows from there on are lost -/
theorem xlCount_falsy_stops_at_zero (zs : List Bool) (rest : List Bool) (h : ∀ z ∈ zs, z = false) :
    xlCount .falsy ((zs ++ true :: rest).map .num) = zs.length := by
  unfold xlCount
  induction zs with
  | nil => rfl
  | cons z t ih =>
    have hz : z = false := h z (by simp)
    subst hz
    simpa [List.takeWhile, xlIsEnd] using ih (fun z hz => h z (by simp [hz]))

example : xlCount .falsy [.num false, .num true, .num false] = 1 ∧ xlCount .emptyText [.num false, .num true, .num false] = 3 := by decide

/-- the generated end tests read every row of a numeric column -/
theorem xl_reads_all_rows (zs : List Bool) : xlCount xlRowEnd (zs.map .num) = zs.length ∧ xlCount xlParamRowEnd (zs.map .num) = zs.length :=
  ⟨xlCount_emptyText_all zs, xlCount_emptyText_all zs⟩

/-! ### AIF: quoted values -/

private lemma stripCharL_self (q : Char) (s : Str) (h : s.head? ≠ some q) : stripCharL q s = s := by
  cases s with
  | nil => rfl
  | cons c t =>
    have : c ≠ q := fun e => h (by simp [e])
    simp [stripCharL, this]

/-- `strip` after `quote` is `strip` of the value itself: the writer's quotes vanish together with any the value had at its ends -/
theorem stripChar_quote (q : Char) (v : Str) : stripChar q (quote q v) = stripChar q v := by
  have key : ∀ s : Str, (stripCharL q (s ++ [q]).reverse) = stripCharL q s.reverse := by
    intro s
    simp [stripCharL]
  unfold stripChar quote
  have h1 : stripCharL q (q :: (v ++ [q])) = stripCharL q (v ++ [q]) := by simp [stripCharL]
  rw [h1]
  -- strip on the left, then on the right
  induction v with
  | nil => simp [stripCharL]
  | cons c t ih =>
    by_cases hc : c = q
    · subst hc
      simpa [stripCharL] using ih
    · have e1 : stripCharL q (c :: t ++ [q]) = c :: t ++ [q] := by simp [stripCharL, hc]
      have e2 : stripCharL q (c :: t) = c :: t := by simp [stripCharL, hc]
      rw [e1, e2]
      exact congrArg List.reverse (key (c :: t))

/-- a value with no quote character at either end comes back unchanged -/
theorem stripChar_quote_roundtrip (q : Char) (v : Str) (h1 : v.head? ≠ some q) (h2 : v.getLast? ≠ some q) :
    stripChar q (quote q v) = v := by
  rw [stripChar_quote]
  unfold stripChar
  rw [stripCharL_self q v h1, stripCharL_self q v.reverse (by rwa [List.head?_reverse]), List.reverse_reverse]

private lemma stripCharL_length_le (q : Char) (s : Str) : (stripCharL q s).length ≤ s.length := by
  induction s with
  | nil => exact le_rfl
  | cons c t ih =>
    by_cases hc : c = q
    · subst hc
      have e : stripCharL c (c :: t) = stripCharL c t := by simp [stripCharL]
      rw [e]
      exact le_trans ih (Nat.le_succ _)
    · have e : stripCharL q (c :: t) = c :: t := by simp [stripCharL, hc]
      rw [e]

private lemma stripCharL_eq_self_iff (q : Char) (s : Str) : stripCharL q s = s ↔ s.head? ≠ some q := by
  refine ⟨fun h hq => ?_, stripCharL_self q s⟩
  cases s with
  | nil => simp at hq
  | cons c t =>
    simp only [List.head?_cons, Option.some.injEq] at hq
    subst hq
    have e : stripCharL c (c :: t) = stripCharL c t := by simp [stripCharL]
    have h1 := stripCharL_length_le c t
    rw [← e, h] at h1
    simp at h1

/-- `strip(q)` leaves a text alone iff the text neither begins nor ends with `q` -/
theorem stripChar_eq_self_iff (q : Char) (v : Str) : stripChar q v = v ↔ v.head? ≠ some q ∧ v.getLast? ≠ some q := by
  constructor
  · intro h
    have hlen : (stripChar q v).length ≤ (stripCharL q v).length := by
      unfold stripChar
      rw [List.length_reverse]
      exact le_trans (stripCharL_length_le _ _) (by rw [List.length_reverse])
    have hhead : v.head? ≠ some q := by
      intro hq
      cases v with
      | nil => simp at hq
      | cons c t =>
        simp only [List.head?_cons, Option.some.injEq] at hq
        subst hq
        have e : stripCharL c (c :: t) = stripCharL c t := by simp [stripCharL]
        have h1 := stripCharL_length_le c t
        rw [h, e] at hlen
        simp only [List.length_cons] at hlen
        omega
    refine ⟨hhead, ?_⟩
    unfold stripChar at h
    rw [stripCharL_self q v hhead] at h
    have h' : stripCharL q v.reverse = v.reverse := by rw [← List.reverse_reverse (stripCharL q v.reverse), h]
    rw [← List.head?_reverse]
    exact (stripCharL_eq_self_iff q v.reverse).1 h'
  · rintro ⟨h1, h2⟩
    unfold stripChar
    rw [stripCharL_self q v h1, stripCharL_self q v.reverse (by rwa [List.head?_reverse]), List.reverse_reverse]

/-- the AIF value codec (`'<value>'` written, `.strip("'")` read) returns the value unchanged EXACTLY when the value neither begins nor
ends with the quote character; every other value comes back shorter (candidate finding: `'ab` -> `ab`, never refused) -/
theorem stripChar_quote_roundtrip_iff (q : Char) (v : Str) :
    stripChar q (quote q v) = v ↔ v.head? ≠ some q ∧ v.getLast? ≠ some q := by
  rw [stripChar_quote, stripChar_eq_self_iff]

example : stripChar '\'' (quote '\'' "ab'".toList) = "ab".toList ∧ stripChar '\'' (quote '\'' "'".toList) = [] := by decide

/-- the exact failure: quotes at the ends of the value itself are lost -/
theorem stripChar_quote_loses_own_quotes : stripChar '\'' (quote '\'' "'q'".toList) = "q".toList := by decide

example : stripChar '\'' (quote '\'' "it's".toList) = "it's".toList := by decide

/-! ### AIF: custom metadata keys -/

private lemma isPrefixOf_append_self (p k : Str) : p.isPrefixOf (p ++ k) = true := by
  induction p with
  | nil => rfl
  | cons c t ih => simp [ih]

/-- what comes back for a custom key: the key with every blank replaced by an underscore -/
theorem aifKey_roundtrip_general (pre k : Str) : aifKeyDec pre pre.length (aifKeyEnc pre k) = some (replaceC ' ' '_' k) := by
  unfold aifKeyDec aifKeyEnc
  rw [isPrefixOf_append_self]
  simp

lemma replaceC_self_of_not_mem (a b : Char) (s : Str) (h : a ∉ s) : replaceC a b s = s := by
  unfold replaceC
  conv_rhs => rw [← List.map_id s]
  apply List.map_congr_left
  intro c hc
  have : c ≠ a := fun e => h (e ▸ hc)
  simp [this]

/-- a key without blank comes back as itself -/
theorem aifKey_roundtrip (pre k : Str) (h : ' ' ∉ k) : aifKeyDec pre pre.length (aifKeyEnc pre k) = some k := by
  rw [aifKey_roundtrip_general, replaceC_self_of_not_mem _ _ _ h]

/-- the exact failure: a key WITH a blank never comes back as itself (it comes back with underscores, silently) -/
theorem aifKey_blank_changed (pre k : Str) (h : ' ' ∈ k) : aifKeyDec pre pre.length (aifKeyEnc pre k) ≠ some k := by
  rw [aifKey_roundtrip_general]
  intro e
  have e' : replaceC ' ' '_' k = k := Option.some.inj e
  have : ' ' ∈ replaceC ' ' '_' k := by rw [e']; exact h
  unfold replaceC at this
  obtain ⟨c, -, hc⟩ := List.mem_map.1 this
  by_cases hcs : c = ' '
  · subst hcs; simp at hc
  · simp [hcs] at hc

/-- with the generated prefix and slice -/
theorem aif_custom_key_roundtrip (k : Str) (h : ' ' ∉ k) :
    aifKeyDec aifCustomReaderPrefix.toList aifCustomReaderSlice (aifKeyEnc aifCustomWriterPrefix.toList k) = some k := by
  have e := aif_custom_prefix_agrees
  rw [e.1, e.2.1]
  exact aifKey_roundtrip _ k h

example : aifKeyDec "_pygaps_".toList 8 (aifKeyEnc "_pygaps_".toList "two words".toList) = some "two_words".toList := by decide

/-! ### material properties -/

private lemma removeAllAux_skip (p a k : Str) : removeAllAux p a.length (a ++ k) = removeAllAux p 0 k := by
  induction a with
  | nil => rfl
  | cons c t ih =>
    show removeAllAux p (t.length + 1) (c :: (t ++ k)) = _
    rw [removeAllAux]
    exact ih

/-- `replace` removes the leading prefix and then goes on through the rest -/
theorem removeAll_prefix (p k : Str) (hp : p ≠ []) : removeAll p (p ++ k) = removeAll p k := by
  unfold removeAll
  cases p with
  | nil => exact absurd rfl hp
  | cons c t =>
    show removeAllAux (c :: t) 0 (c :: (t ++ k)) = _
    have hpre : (c :: t).isPrefixOf (c :: (t ++ k)) = true := isPrefixOf_append_self (c :: t) k
    rw [removeAllAux, if_pos hpre]
    simpa using removeAllAux_skip (c :: t) t k

/-- a name in which the prefix does not occur is left alone -/
theorem removeAll_of_not_infix (p k : Str) (h : ¬ p <:+: k) : removeAll p k = k := by
  unfold removeAll
  induction k with
  | nil => rfl
  | cons c t ih =>
    have hpre : p.isPrefixOf (c :: t) = false := by
      rw [Bool.eq_false_iff]
      intro hh
      exact h (List.IsPrefix.isInfix (List.isPrefixOf_iff_prefix.1 hh))
    rw [removeAllAux, if_neg (by simp [hpre])]
    rw [ih (fun hi => h (hi.trans (List.infix_cons List.infix_rfl) |> fun x => x))]

/-- exactly what the reader makes of a property the writer wrote as `P ++ name`: the property `name` when the prefix does not
occur in the name again — otherwise a `KeyError` (the name with the occurrences removed is not found) -/
theorem matRead_join (p k : Str) (hp : p ≠ []) :
    matRead p (matJoin p k) = if removeAll p k = k then .prop k else .keyError := by
  unfold matRead matJoin
  rw [isPrefixOf_append_self, if_pos rfl, removeAll_prefix p k hp]
  by_cases h : removeAll p k = k
  · simp [h]
  · simp [h]

/-- round trip on the stated domain: names that do not contain the prefix -/
theorem matRead_join_roundtrip (p k : Str) (hp : p ≠ []) (h : ¬ p <:+: k) : matRead p (matJoin p k) = .prop k := by
  rw [matRead_join p k hp, if_pos (removeAll_of_not_infix p k h)]

private lemma removeAllAux_length_le (p : Str) (n : Nat) (s : Str) : (removeAllAux p n s).length ≤ s.length := by
  induction s generalizing n with
  | nil => cases n <;> simp [removeAllAux]
  | cons c t ih =>
    cases n with
    | succ k =>
      rw [removeAllAux]
      exact le_trans (ih k) (Nat.le_succ _)
    | zero =>
      rw [removeAllAux]
      split_ifs
      · exact le_trans (ih _) (Nat.le_succ _)
      · simpa using ih 0

/-- an occurrence of the prefix in the name makes the result strictly shorter -/
private lemma removeAll_length_lt (p k : Str) (hp : p ≠ []) (h : p <:+: k) : (removeAll p k).length < k.length := by
  unfold removeAll
  induction k with
  | nil =>
    exact absurd (List.eq_nil_of_infix_nil h) hp
  | cons c t ih =>
    rw [removeAllAux]
    split_ifs with hpre
    · exact Nat.lt_succ_of_le (removeAllAux_length_le p _ t)
    · rcases List.infix_cons_iff.1 h with h' | h'
      · exact absurd (List.isPrefixOf_iff_prefix.2 h') hpre
      · simpa using ih h'

/-- the stated domain is exact: a name is left alone by the reader's `replace` iff the prefix does not occur in it -/
theorem removeAll_eq_self_iff (p k : Str) (hp : p ≠ []) : removeAll p k = k ↔ ¬ p <:+: k := by
  constructor
  · intro e h
    have := removeAll_length_lt p k hp h
    rw [e] at this
    exact lt_irrefl _ this
  · exact removeAll_of_not_infix p k

/-- the material-property round trip holds exactly on names that do not contain the prefix -/
theorem matRead_join_roundtrip_iff (p k : Str) (hp : p ≠ []) : matRead p (matJoin p k) = .prop k ↔ ¬ p <:+: k := by
  rw [matRead_join p k hp, ← removeAll_eq_self_iff p k hp]
  by_cases h : removeAll p k = k <;> simp [h]

/-- a key that does not start with the prefix is ordinary metadata -/
theorem matRead_other (p key : Str) (h : p.isPrefixOf key = false) : matRead p key = .notMaterial := by
  unfold matRead
  simp [h]

/-- the exact failure of a reader that takes the name with `replace` (the defect repaired in the readers — S45; kept as the witness that
the way of taking the name matters): a property name containing the prefix is a `KeyError` at import -/
theorem matRead_name_with_prefix_keyError :
    matRead csvMaterial.startsWith.toList (matJoin csvMaterial.writer.toList "a_material_b".toList) = .keyError ∧
    matRead aifMaterial.startsWith.toList (matJoin aifMaterial.writer.toList "sample_x".toList) = .keyError := by decide

/-- `matRead` is the `replace` reader -/
theorem matReadBy_replaceAll (p key : Str) : matReadBy .replaceAll p key = matRead p key := rfl

/-- a reader that slices the LEADING prefix off: every property the writer wrote comes back under its own name — no hypothesis on
the name (compare `matRead_join_roundtrip_iff`) -/
theorem matReadBy_leading_join (p k : Str) : matReadBy .leading p (matJoin p k) = .prop k := by
  unfold matReadBy matJoin matName
  rw [isPrefixOf_append_self, if_pos rfl]
  simp

/-- a key that does not start with the prefix is ordinary metadata, for either reader -/
theorem matReadBy_other (m : Strip) (p key : Str) (h : p.isPrefixOf key = false) : matReadBy m p key = .notMaterial := by
  unfold matReadBy
  simp [h]

/-- THE material-property round trip of the three GENERATED readers: every property comes back under its own name, whatever the name —
the format's own prefix inside it included (`a_material_b`, `sample_x`).  Holds because each reader slices the leading prefix off
(`strip = .leading`); with `replace` it fails exactly on the names that contain the prefix (`matRead_join_roundtrip_iff`). -/
theorem material_props_roundtrip :
    ∀ p ∈ [csvMaterial, xlMaterial, aifMaterial], ∀ k : Str,
      matReadBy p.strip p.startsWith.toList (matJoin p.writer.toList k) = .prop k := by
  intro p hp k
  have h : ∀ q ∈ [csvMaterial, xlMaterial, aifMaterial], q.strip = .leading ∧ q.writer = q.startsWith := by decide
  rw [(h p hp).1, (h p hp).2]
  exact matReadBy_leading_join _ k

example : matReadBy csvMaterial.strip csvMaterial.startsWith.toList (matJoin csvMaterial.writer.toList "a_material_b".toList) = .prop "a_material_b".toList ∧
    matReadBy aifMaterial.strip aifMaterial.startsWith.toList (matJoin aifMaterial.writer.toList "sample_x".toList) = .prop "sample_x".toList := by decide

/-- exact failure (recorded finding): writer and reader share ONE namespace for metadata keys and material properties — the metadata key
`P ++ t` and the material property `t` are written as the same key, so no reader can tell them apart; both readers take it for the
property: an ordinary metadata key that happens to start with the prefix silently becomes a material property -/
theorem material_key_ambiguous (m : Strip) (p t : Str) (hp : p ≠ []) (h : ¬ p <:+: t) : matReadBy m p (p ++ t) = .prop t := by
  cases m with
  | replaceAll => exact matRead_join_roundtrip p t hp h
  | leading => exact matReadBy_leading_join p t

/-- … with the generated prefixes: `_material_weight` (CSV, Excel), `sample_weight` (AIF) -/
theorem matRead_metadata_key_captured :
    ∀ p ∈ [csvMaterial, xlMaterial, aifMaterial],
      matReadBy p.strip p.startsWith.toList (p.startsWith.toList ++ "weight".toList) = .prop "weight".toList := by decide

/-! ### `_to_string` / `_from_list` -/

private lemma numChar_not_blank {c : Char} (h : isNumChar c = true) : c ≠ ' ' ∧ c ≠ ',' := by
  constructor <;> (rintro rfl; revert h; decide)

/-- an item that `literal_eval` accepts is over the numeric alphabet -/
lemma pyNumClass_some_all {t : Str} (h : (pyNumClass t).isSome = true) : t.all isNumChar = true := by
  unfold pyNumClass at h
  split at h
  · exact absurd h (by simp)
  · rename_i hc
    simpa using hc

lemma pyNumClass_some_ne_nil {t : Str} (h : (pyNumClass t).isSome = true) : t ≠ [] := by
  rintro rfl
  revert h
  decide

private lemma item_clean {t : Str} (h : (pyNumClass t).isSome = true) : ' ' ∉ t ∧ ',' ∉ t := by
  have ha := pyNumClass_some_all h
  rw [List.all_eq_true] at ha
  exact ⟨fun hm => (numChar_not_blank (ha _ hm)).1 rfl, fun hm => (numChar_not_blank (ha _ hm)).2 rfl⟩

private lemma replaceC_append (a b : Char) (s t : Str) : replaceC a b (s ++ t) = replaceC a b s ++ replaceC a b t := by
  simp [replaceC]

/-- blanks between items become commas -/
lemma replaceC_joinWith (items : List Str) (h : ∀ t ∈ items, ' ' ∉ t) :
    replaceC ' ' ',' (joinWith ' ' items) = joinWith ',' items := by
  induction items with
  | nil => rfl
  | cons a rest ih =>
    cases rest with
    | nil => exact replaceC_self_of_not_mem _ _ _ (h a (by simp))
    | cons b t =>
      show replaceC ' ' ',' (a ++ ' ' :: joinWith ' ' (b :: t)) = a ++ ',' :: joinWith ',' (b :: t)
      rw [replaceC_append, replaceC_self_of_not_mem _ _ _ (h a (by simp))]
      congr 1
      rw [← ih (fun x hx => h x (by simp [hx]))]
      rfl

/-- splitting the joined text gives the items back -/
lemma splitOn_joinWith (sep : Char) (items : List Str) (hne : items ≠ []) (h : ∀ t ∈ items, sep ∉ t) :
    splitOn sep (joinWith sep items) = items := by
  induction items with
  | nil => exact absurd rfl hne
  | cons a rest ih =>
    cases rest with
    | nil => exact splitOn_nosep sep a (h a (by simp))
    | cons b t =>
      show splitOn sep (a ++ sep :: joinWith sep (b :: t)) = _
      rw [splitOn_append sep a _ (h a (by simp)), ih (by simp) (fun x hx => h x (by simp [hx]))]

lemma joinWith_ne_nil (sep : Char) (items : List Str) (hne : items ≠ []) (h : ∀ t ∈ items, t ≠ []) : joinWith sep items ≠ [] := by
  cases items with
  | nil => exact absurd rfl hne
  | cons a rest =>
    cases rest with
    | nil => exact h a (by simp)
    | cons b t =>
      show a ++ sep :: joinWith sep (b :: t) ≠ []
      simp

private lemma replaceC_bracket (o c : Char) (s : Str) (ho : o ≠ ' ') (hc : c ≠ ' ') :
    replaceC ' ' ',' (o :: (s ++ [c])) = o :: (replaceC ' ' ',' s ++ [c]) := by
  simp [replaceC, ho, hc]

private lemma unbracket_mk (o c : Char) (inner : Str) (h : ((o == '[' && c == ']') || (o == '(' && c == ')')) = true) :
    unbracket (o :: (inner ++ [c])) = some (o, inner) := by
  simp only [unbracket, List.reverse_append, List.reverse_cons, List.reverse_nil, List.nil_append, List.cons_append, List.reverse_reverse]
  rw [if_pos h]

/-- what `literal_eval` makes of the comma-joined items, for either bracket -/
private lemma literalSeq_joined (o c : Char) (items : List Str) (hne : items ≠ [])
    (hb : ((o == '[' && c == ']') || (o == '(' && c == ')')) = true) (h : ∀ t ∈ items, (pyNumClass t).isSome = true) :
    literalSeq (o :: (joinWith ',' items ++ [c])) =
      some (seqOf o items false) := by
  have hcomma : ∀ t ∈ items, ',' ∉ t := fun t ht => (item_clean (h t ht)).2
  have hnil : ∀ t ∈ items, t ≠ [] := fun t ht => pyNumClass_some_ne_nil (h t ht)
  have hsplit := splitOn_joinWith ',' items hne hcomma
  have hjn := joinWith_ne_nil ',' items hne hnil
  have hlast : (items.getLast? == some []) = false := by
    rw [beq_eq_false_iff_ne]
    intro e
    exact hnil [] (List.mem_of_getLast? e) rfl
  unfold literalSeq
  rw [unbracket_mk o c _ hb]
  simp only [List.isEmpty_iff, hjn, if_false, hsplit, hlast, Bool.and_false, Bool.false_eq_true]
  rw [if_pos (List.all_eq_true.2 h)]

/-- LIST round trip: a list of numbers whose items print as numeric literals comes back as the list of the same items
(negative numbers included: unlike `cast_string`, `literal_eval` reads `-3` as an integer) -/
theorem fromList_toString_list (items : List Str) (h : ∀ t ∈ items, (pyNumClass t).isSome = true) :
    fromList (toStringSeq .list items) = some (.list items) := by
  by_cases hne : items = []
  · subst hne; decide
  · have hblank : ∀ t ∈ items, ' ' ∉ t := fun t ht => (item_clean (h t ht)).1
    unfold fromList toStringSeq
    have e : replaceC ' ' ',' ('[' :: (joinWith ' ' items ++ [']'])) = '[' :: (joinWith ',' items ++ [']']) := by
      rw [replaceC_bracket _ _ _ (by decide) (by decide), replaceC_joinWith items hblank]
    rw [e, literalSeq_joined '[' ']' items hne (by decide) h]
    rfl

/-- TUPLE round trip, as the code has it: a tuple of two or more (or zero) numbers comes back as that tuple … -/
theorem fromList_toString_tuple (items : List Str) (h : ∀ t ∈ items, (pyNumClass t).isSome = true) (hlen : items.length ≠ 1) :
    fromList (toStringSeq .tuple items) = some (.tuple items) := by
  by_cases hne : items = []
  · subst hne; decide
  · have hblank : ∀ t ∈ items, ' ' ∉ t := fun t ht => (item_clean (h t ht)).1
    unfold fromList toStringSeq
    have e : replaceC ' ' ',' ('(' :: (joinWith ' ' items ++ [')'])) = '(' :: (joinWith ',' items ++ [')']) := by
      rw [replaceC_bracket _ _ _ (by decide) (by decide), replaceC_joinWith items hblank]
    rw [e, literalSeq_joined '(' ')' items hne (by decide) h]
    match items, hlen with
    | [], _ => rfl
    | [_], hl => exact absurd rfl hl
    | _ :: _ :: _, _ => rfl

/-- … but a ONE-element tuple is written `(x)` and comes back as the bare number -/
theorem fromList_toString_tuple_single (t : Str) (h : (pyNumClass t).isSome = true) :
    fromList (toStringSeq .tuple [t]) = some (.scalar t) := by
  have hblank : ∀ x ∈ [t], ' ' ∉ x := fun x hx => by
    rw [List.mem_singleton] at hx; subst hx; exact (item_clean h).1
  unfold fromList toStringSeq
  have e : replaceC ' ' ',' ('(' :: (joinWith ' ' [t] ++ [')'])) = '(' :: (joinWith ',' [t] ++ [')']) := by
    rw [replaceC_bracket _ _ _ (by decide) (by decide), replaceC_joinWith [t] hblank]
  rw [e, literalSeq_joined '(' ')' [t] (by simp) (by decide) (fun x hx => by rw [List.mem_singleton] at hx; subst hx; exact h)]
  rfl

/-- the hypotheses are satisfiable and the statements are not vacuous: what `str()` prints for some ints and floats -/
example : ∀ t ∈ ["0", "17", "-3", "2.5", "-0.0", "1e-05", "1.7976931348623157e+308", "5e-324"].map String.toList, (pyNumClass t).isSome = true := by
  decide

example : fromList (toStringSeq .list ["1".toList, "-2".toList, "2.5".toList]) = some (.list ["1".toList, "-2".toList, "2.5".toList]) := by
  decide

/-- outside the domain — exact failures: `inf`/`nan` items, nested lists and text items are errors of `literal_eval` (no pyGAPS error) -/
theorem fromList_failures :
    fromList "[inf 1.0]".toList = none ∧ fromList "[nan]".toList = none ∧ fromList "[1  2]".toList = none ∧
    fromList "[ 1]".toList = none ∧ fromList "[007]".toList = none := by decide

/-- classes of the items that come back -/
theorem pyNumClass_examples :
    pyNumClass "-3".toList = some .int ∧ pyNumClass "3.0".toList = some .float ∧ pyNumClass "1e5".toList = some .float ∧
    pyNumClass "1_000".toList = some .int ∧ pyNumClass "00".toList = some .int ∧ pyNumClass "01".toList = none ∧
    pyNumClass "--1".toList = none ∧ pyNumClass "".toList = none := by decide

end PgVerif.C07
