/-
C06 — the JSON codec's own keys and its domain, tied to the generated tables and to the constructor.

`Model/Json.formatKeys` (the three keys `encode` adds and `decode` removes) are the keys parsing/json.py writes and pops (generated:
`Gen/IsoParams.jsonWriterKeys` / `jsonReaderKeys`), and none of them is a key `BaseIsotherm.__init__` consumes — so removing them before the
constructor call loses nothing and leaves nothing behind.  `toDict_in_json_domain`: the dictionary of any isotherm the constructor has
accepted (`Model/Construct`) is in the domain `InDomain` of the codec theorems of Props/C06.lean as soon as no metadata key is one of the
three format keys: the keys of `to_dict()` are pairwise distinct.
-/
import Mathlib.Tactic
import PgVerif.Props.C06
import Mathlib.Algebra.Order.Field.Rat
import PgVerif.Lemmas.ConstructFacts
import PgVerif.Spec.IsoParams

set_option linter.unusedSimpArgs false

namespace PgVerif.C06
open PgVerif.Model PgVerif.Model.Construct PgVerif.Gen PgVerif.Gen.IsoParams

variable {α : Type}

/-- the model's format keys are the ones the writer adds and the reader removes, and the documented ones; the version string is the model's -/
theorem format_keys_generated :
    Json.formatKeys.Perm jsonReaderKeys ∧ jsonWriterKeys.Perm jsonReaderKeys ∧ Json.formatKeys.Perm Spec.IsoParams.jsonKeys ∧
      jsonParserVersion = "3.0" := by decide

/-- no format key is a unit parameter, a named parameter of `BaseIsotherm.__init__`, a shorthand or one of the keys `to_dict` writes itself -/
theorem format_keys_not_constructor_keys :
    ∀ k ∈ Json.formatKeys, k ∉ unitPops ∧ k ∉ specialKeys ∧ k ∉ topKeys ∧ k ∉ reservedBase := by decide

section
variable [Field α]

/-- **the dictionary of an accepted isotherm is in the domain of the JSON codec** (`decode_encode_none` of Props/C06.lean applies to it)
provided no keyword argument was one of the three format keys -/
theorem toDict_in_json_domain (pr : α → String) (w : World α) (a : Args α) (i : Construct.Iso α) (d : Args α)
    (h : construct w a = .ok i) (hn : (keys a).Nodup) (hd : toDictBase i = .ok d) (hfree : ∀ k ∈ keys a, k ∉ Json.formatKeys) :
    InDomain (content pr d) := by
  obtain ⟨-, -, hp, hnp⟩ := Construct.construct_wellformed w a i h hn
  have top_free : ∀ k ∈ keys i.properties, k ∉ topKeys := by
    intro k hk hk'
    rcases topKeys_special_or_unit k hk' with h' | h'
    · exact (hp k hk).1 h'
    · exact (hp k hk).2 h'
  cases hm : matVal i.material with
  | error e => simp [toDictBase, toDict, hm] at hd
  | ok m =>
    rw [toDictBase_eq i m hm top_free hnp] at hd
    injection hd with hd
    subst hd
    refine ⟨?_, ?_, trivial⟩
    · show ((render pr (topDict i m ++ i.properties)).map (·.1)).Nodup
      rw [keys_render, keys_append, keys_topDict, List.nodup_append]
      refine ⟨by decide, hnp, ?_⟩
      intro x hx y hy hxy
      subst hxy
      exact top_free x hy hx
    · intro kv hkv
      have hk : kv.1 ∈ keys (topDict i m ++ i.properties) := by
        rw [← keys_render pr]
        exact List.mem_map_of_mem hkv
      rw [keys_append, keys_topDict, List.mem_append] at hk
      rcases hk with hk | hk
      · intro hf
        exact (format_keys_not_constructor_keys kv.1 hf).2.2.1 hk
      · exact hfree kv.1 (Construct.reserved_keys_not_in_properties w a i h kv.1 hk).2.2.2

end

/-- non-vacuity: an accepted call with a material dictionary and metadata, keys distinct and none of them a format key -/
example :
    (construct (⟨fun s => if s = "N2" then some "nitrogen" else none, fun _ => none⟩ : World ℚ)
      [("user", .str "x"), ("material", .dict [("name", .str "M"), ("density", .num 2)]), ("a", .str "N2"), ("temperature", .sc (.num 78)),
       ("pressure_mode", .str "relative%"), ("n", .sc (.int 3))]).toOption.map (fun i => (i.material, i.lab.pmode, i.lab.punit, keys i.properties)) =
      some (⟨.str "M", [("density", .num 2)]⟩, "relative%", Val.none, ["user", "n"]) ∧
    (keys ([("user", .str "x"), ("material", .dict [("name", .str "M"), ("density", .num 2)]), ("a", .str "N2"), ("temperature", .sc (.num 78)),
       ("pressure_mode", .str "relative%"), ("n", .sc (.int 3))] : Args ℚ)).Nodup ∧
    ∀ k ∈ ["user", "material", "a", "temperature", "pressure_mode", "n"], k ∉ Json.formatKeys := by decide

end PgVerif.C06
