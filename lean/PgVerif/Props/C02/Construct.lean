/-
C02 — "after every call the isotherm is still valid: its labels would be accepted by the constructor".

`Model/IsoState.validLabels` is the predicate the conversion theorems of Props/C02.lean carry through every history; the harness checks the
real objects by handing `to_dict()` back to `BaseIsotherm`.  This file closes the gap between the two: for a label state `l : Labels`
written out as the seven unit entries of `to_dict()`, the constructor model (`Model/Construct.lean`, statement by statement after
`BaseIsotherm.__init__`, running on the generated tables) accepts the dictionary **iff** `validLabels l`, and stores exactly `l` (with the
pressure unit dropped under a relative mode — which `validLabels` does not look at).
-/
import Mathlib.Tactic
import Mathlib.Algebra.Order.Field.Rat
import PgVerif.Lemmas.ConstructFacts

set_option linter.unusedSimpArgs false

namespace PgVerif.C02
open PgVerif.Model PgVerif.Model.Construct PgVerif.Gen PgVerif.Gen.IsoParams

variable {α : Type}

/-- an optional label as `to_dict()` writes it -/
def optVal (o : Option String) : Val α :=
  match o with
  | some s => .str s
  | none => .none

/-- the seven unit entries of `to_dict()` for a label state -/
def labelArgs (l : Labels) : Args α :=
  [("pressure_mode", .str l.pmode), ("pressure_unit", optVal l.punit), ("material_basis", .str l.mbasis), ("material_unit", optVal l.munit),
   ("loading_basis", .str l.lbasis), ("loading_unit", optVal l.lunit), ("temperature_unit", optVal l.tunit)]

/-- the label state the constructor stores: no pressure unit under a mode that starts with `relative` -/
def forcedLabels (l : Labels) : Labels :=
  { l with punit := if hasPrefix relativePrefix l.pmode then none else l.punit }

lemma strOf_optVal (o : Option String) : strOf (optVal o : Val α) = o := by
  cases o <;> rfl

/-- `validLabels` does not look at the pressure unit of a mode that carries the prefix (`absolute` does not carry it) -/
theorem validLabels_forced (l : Labels) : validLabels (forcedLabels l) = validLabels l := by
  unfold forcedLabels
  by_cases hp : hasPrefix relativePrefix l.pmode = true
  · have hne : l.pmode ≠ "absolute" := by
      intro h
      rw [h] at hp
      revert hp
      decide
    have : (l.pmode != "absolute") = true := by simpa using hne
    simp [validLabels, hp, this]
  · simp [hp]

section
variable [Field α]

omit [Field α] in
lemma prepCall_descr (m a t : Val α) (l : Labels) :
    prepCall ([("material", m), ("adsorbate", a), ("temperature", t)] ++ labelArgs l) = ⟨m, a, t, labelArgs l⟩ := by
  rw [prepCall_eq]
  have hn : (Val.none : Val α).isNone = true := rfl
  simp [labelArgs, List.lookup_cons, pick, hn, List.filter_cons, specialKeys, initParams, shorthands]

omit [Field α] in
lemma effLabels_labelArgs (l : Labels) : effLabels (labelArgs l : Args α) = some (forcedLabels l) := by
  have e (k : String) (v : Val α) (h : (labelArgs l : Args α).lookup k = some v) : eff (labelArgs l : Args α) k = v := by simp [eff, h]
  unfold effLabels
  rw [e "pressure_mode" (.str l.pmode) (by simp [labelArgs, List.lookup_cons]), e "pressure_unit" (optVal l.punit) (by simp [labelArgs, List.lookup_cons]),
    e "loading_basis" (.str l.lbasis) (by simp [labelArgs, List.lookup_cons]), e "loading_unit" (optVal l.lunit) (by simp [labelArgs, List.lookup_cons]),
    e "material_basis" (.str l.mbasis) (by simp [labelArgs, List.lookup_cons]), e "material_unit" (optVal l.munit) (by simp [labelArgs, List.lookup_cons]),
    e "temperature_unit" (optVal l.tunit) (by simp [labelArgs, List.lookup_cons])]
  simp only [strOf_str, strOf_optVal, forcedLabels, forced]
  by_cases hp : hasPrefix relativePrefix l.pmode = true
  · simp [hp, strOf, Val.none]
  · simp [hp, strOf_optVal]

/-- **a label state would be accepted by the constructor iff `validLabels` holds of it** — for any usable material / adsorbate / temperature
descriptors, in any session; and what the constructor stores is that state (pressure unit dropped under a relative mode) -/
theorem constructor_accepts_iff_validLabels (w : World α) (m a t : Val α) (ads : String) (tv : α) (l : Labels)
    (hm : m.isNone = false) (ha : setAdsorbate w a = .ok ads) (ht : toFloat t = .ok tv) :
    (∃ i, construct w ([("material", m), ("adsorbate", a), ("temperature", t)] ++ labelArgs l) = .ok i ∧ i.lab.labels = forcedLabels l) ↔
      validLabels l = true := by
  have hcall := prepCall_descr m a t l
  have hreq : missingRequired (prepCall ([("material", m), ("adsorbate", a), ("temperature", t)] ++ labelArgs l)) = false := by
    rw [hcall, missingRequired_eq]
    have h2 : a.isNone = false := by
      unfold setAdsorbate at ha
      split at ha <;> simp_all [Val.isNone]
    have h3 : t.isNone = false := by
      unfold toFloat at ht
      split at ht <;> simp_all [Val.isNone]
    simp [hm, h2, h3]
  have key := Construct.construct_accepts_iff_validLabels w ([("material", m), ("adsorbate", a), ("temperature", t)] ++ labelArgs l) ads tv hreq
    (by rw [hcall]; exact ha) (by rw [hcall]; exact ht)
  rw [hcall] at key
  simp only [effLabels_labelArgs, Option.some.injEq] at key
  rw [← validLabels_forced]
  constructor
  · rintro ⟨i, hi, hl⟩
    obtain ⟨L, hL, hv⟩ := key.1 ⟨i, hi, hl.symm⟩
    rw [hL]; exact hv
  · intro hv
    obtain ⟨i, hi, hl⟩ := key.2 ⟨_, rfl, hv⟩
    exact ⟨i, hi, hl.symm⟩

end

/-- a session in which `N2` is an alias of the registered `nitrogen` and no material is registered -/
def w0 : World ℚ := ⟨fun s => if s = "N2" ∨ s = "nitrogen" then some "nitrogen" else none, fun _ => none⟩

/-- non-vacuity: a valid state under a relative mode (its stale pressure unit is dropped), and an invalid one (a °C spelling the table does
not have) that the constructor refuses -/
example : validLabels ⟨"relative%", some "bar", "molar", some "mmol", "mass", some "g", some "K"⟩ = true ∧
    forcedLabels ⟨"relative%", some "bar", "molar", some "mmol", "mass", some "g", some "K"⟩ =
      ⟨"relative%", none, "molar", some "mmol", "mass", some "g", some "K"⟩ ∧
    validLabels ⟨"absolute", some "bar", "molar", some "mmol", "mass", some "g", some "C"⟩ = false ∧
    construct w0 ([("material", .str "M"), ("adsorbate", .str "N2"), ("temperature", .sc (.int 77))] ++
      labelArgs ⟨"absolute", some "bar", "molar", some "mmol", "mass", some "g", some "C"⟩) = .error .param := by decide

end PgVerif.C02
