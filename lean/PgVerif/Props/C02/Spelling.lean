/-
C02 — spellings of the temperature unit: "the unit labels name exactly that representation … after every call, successful or
refused, the isotherm is still valid (its labels would be accepted by the constructor)".

`convert_temperature` is the one conversion whose argument is not looked up exactly: every string with a `c`/`C` is a spelling of
Celsius (accepted, stored as `°C`).  Nothing of the kind exists for kelvin.  Over Model/IsoState.lean (`convertTemperature`, the
transcription of `BaseIsotherm.convert_temperature` + `c_temperature`, tied to the code by harness/props/c02.py on every near-miss
spelling of `K` and `°C`):

* `convertTemperature_refuses_other_spellings` — a target that is not exactly `K` and has no `c`/`C` (`k`, `kelvin`, `Kelvin`, `degK`,
  `°K`, ` K`, `F`, …) is refused with ParameterError and nothing changes, whatever the state;
* `convertTemperature_label_accepted` — after ANY call (any argument, accepted or refused) the stored temperature label is one of the two
  the constructor accepts, provided it was before;
* `convertTemperature_celsius_spelling_stored_normalised` — an accepted Celsius spelling is stored as `°C`, never verbatim.
-/
import PgVerif.Props.C02

set_option linter.unusedSectionVars false
set_option linter.unusedSimpArgs false
set_option linter.unusedVariables false

namespace PgVerif.C02
open PgVerif.Model PgVerif.Units
open PgVerif.Spec (TRep)

variable {α : Type} [Field α]

/-- a string that is not `K` and has no `c`/`C` is no temperature unit -/
lemma checkTemp_other_spelling (y : String) (hK : y ≠ "K") (hc : containsC y = false) :
    (checkTemp (some y) : Except Err α) = .error .param := by
  have hC : y ≠ "°C" := by
    intro h; rw [h] at hc; exact absurd hc (by decide)
  have b1 : (y == "K") = false := by simpa using hK
  have b2 : (y == "°C") = false := by simpa using hC
  simp only [checkTemp, tempOffset, Gen.temperatureUnits, List.lookup, b1, b2]
  split <;> rfl

/-- **near-miss spellings of kelvin are impossible targets**: refused with ParameterError, nothing changes — from any state
(the current unit, the stored number and the other labels play no role). -/
theorem convertTemperature_refuses_other_spellings (s : Iso α) (y : String) (hK : y ≠ "K") (hc : containsC y = false) :
    (convertTemperature s (some y)).2 = .err .param ∧ (convertTemperature s (some y)).1 = s := by
  have hn : normTemp (some y) = some y := by
    simp [normTemp, hc]
  have h : cTemperature s.temp s.lab.tunit (some y) = .error .param := by
    simp [cTemperature, hn, checkTemp_other_spelling (α := α) y hK hc, bind, Except.bind]
  simp [convertTemperature, h]

/-- non-vacuity / the spellings the failing-input search sends: each is refused by the model at ℚ from a kelvin and from a Celsius state -/
example : ∀ y ∈ ["k", "kelvin", "Kelvin", "KELVIN", "degK", "°K", " K", "K ", "Ks", "KK", "F", "R"],
    y ≠ "K" ∧ containsC y = false := by decide

variable [CharZero α]

/-- **after any temperature call the label is one the constructor accepts** (given it was before): refused calls keep it, accepted
calls store `K` or `°C` — never the caller's spelling. -/
theorem convertTemperature_label_accepted (s : Iso α) (u : Option String)
    (hs : s.lab.tunit = some "K" ∨ s.lab.tunit = some "°C") :
    (convertTemperature s u).1.lab.tunit = some "K" ∨ (convertTemperature s u).1.lab.tunit = some "°C" := by
  cases h : cTemperature s.temp s.lab.tunit u with
  | error e => simpa [convertTemperature, h] using hs
  | ok x =>
    obtain ⟨t, ht, rfl⟩ := cTemperature_ok_inv _ _ _ _ h
    have hn : normTemp (some t.label) = tLabel t := by
      rw [normTemp_label t ht]; cases t <;> rfl
    simp only [convertTemperature, h, hn]
    cases t
    · left; rfl
    · right; rfl

/-- an accepted Celsius spelling is stored as `°C` -/
theorem convertTemperature_celsius_spelling_stored_normalised (s : Iso α) (y : String) (hy : y ≠ "") (hc : containsC y = true)
    (hok : (convertTemperature s (some y)).2 = .ok) :
    (convertTemperature s (some y)).1.lab.tunit = some "°C" := by
  have hn : normTemp (some y) = some "°C" := by
    simp [normTemp, hc, hy]
  cases h : cTemperature s.temp s.lab.tunit (some y) with
  | error e => simp [convertTemperature, h] at hok
  | ok x => simp [convertTemperature, h, hn]

/-- non-vacuity: `degC` from a kelvin state is accepted at ℚ and stored as `°C` -/
example :
    let s : Iso ℚ := ⟨⟨"absolute", some "bar", "molar", some "mmol", "mass", some "g", some "K"⟩, [1], [2], 77, false, false⟩
    (convertTemperature s (some "degC")).2 = .ok ∧ (convertTemperature s (some "degC")).1.lab.tunit = some "°C" := by
  decide +kernel

end PgVerif.C02
