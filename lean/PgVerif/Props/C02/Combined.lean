/-
C02, continued — the combined call `convert(...)` IS the sequence of its single-quantity calls, stopped at the
first refusal; and what a read query sees after any history is the stored data.

`Props/C02.lean` proves `convertAll_refused_prefix` in terms of the three named sub-steps.  Here the same clause
("a refused combined conversion leaves exactly the effect of the steps completed before the refusal") and its
converse ("an accepted combined conversion is the sequence of the single conversions") are stated against an
independent, order-explicit specification that is *exactly what the harness executes on the real code*
(`harness/props/c02.py`, oracle "combined = singles"):

  (definitions in `Model/IsoSeq.lean`, executed by the driver next to the real single calls)
  * `subSteps pm pu lb lu mb mu` — the single-quantity calls `convert` issues, in the documented order
    pressure → material → loading, each only if one of its two arguments is truthy;
  * `runUntilRefused c s ops` — apply single calls one after the other, stop at the first refusal and
    propagate it.

Theorems: `convertAll_eq_singles` (the model's `convertAll` equals that specification, outcome and state),
`runUntilRefused_ok_eq_run`, `runUntilRefused_refused_prefix` (general, any list of single-quantity calls),
`convertAll_ok_eq_sequence`, `convertAll_refused_eq_completed_steps`, `convertAll_no_early_refusal`
(no hoisted validation: an argument of a later step cannot make the call refuse before the earlier steps
have had their effect).

Part Q: the interpolator caches with their CONTENT (the columns they were built from), queries in between
conversions: `coherent_history` / `query_reads_stored_data` — after any interleaving of conversions and
queries a query is answered from the currently stored columns.
-/
import PgVerif.Props.C02
import PgVerif.Model.IsoSeq

set_option linter.unusedSectionVars false
set_option linter.unusedSimpArgs false
set_option linter.unusedVariables false

namespace PgVerif.C02
open PgVerif.Model

variable {α : Type} [Field α]

/-! ## S. `convert(...)` = its single-quantity calls in the documented order, stopped at the first refusal -/

lemma subSteps_single (pm pu lb lu mb mu : Option String) : ∀ op ∈ subSteps pm pu lb lu mb mu, op.isSingle = true := by
  intro op hop
  unfold subSteps at hop
  simp only [List.mem_append] at hop
  rcases hop with (h | h) | h <;> (split at h <;> simp at h; subst h; rfl)

lemma runUntilRefused_cons_ok (c : Ctx α) (s s' : Iso α) (op : Op) (ops : List Op) (h : step c s op = (s', .ok)) :
    runUntilRefused c s (op :: ops) = runUntilRefused c s' ops := by
  simp [runUntilRefused, h]

lemma runUntilRefused_cons_err (c : Ctx α) (s s' : Iso α) (op : Op) (ops : List Op) (e : Err)
    (h : step c s op = (s', .err e)) : runUntilRefused c s (op :: ops) = (s', .err e) := by
  simp [runUntilRefused, h]

/-- **the combined call is its single calls**: outcome and resulting state of `convert(...)` are those of the
sequence pressure → material → loading of single-quantity calls, stopped at the first refusal.  Any context, any
state, ANY string arguments. -/
theorem convertAll_eq_singles (c : Ctx α) (s : Iso α) (pm pu lb lu mb mu : Option String) :
    convertAll c s pm pu lb lu mb mu = runUntilRefused c s (subSteps pm pu lb lu mb mu) := by
  unfold convertAll subSteps
  by_cases hP : (truthy pm || truthy pu) = true
  · simp only [hP, if_true, List.cons_append, List.nil_append]
    rcases hp : convertPressure c s pm pu with ⟨s1, o1⟩
    cases o1 with
    | err e => rw [runUntilRefused_cons_err c s s1 _ _ e (by simpa [step] using hp)]
    | ok =>
      rw [runUntilRefused_cons_ok c s s1 _ _ (by simpa [step] using hp)]
      by_cases hM : (truthy mb || truthy mu) = true
      · simp only [hM, if_true, List.cons_append, List.nil_append]
        rcases hm : convertMaterial c s1 mb mu with ⟨s2, o2⟩
        cases o2 with
        | err e => rw [runUntilRefused_cons_err c s1 s2 _ _ e (by simpa [step] using hm)]
        | ok =>
          rw [runUntilRefused_cons_ok c s1 s2 _ _ (by simpa [step] using hm)]
          by_cases hL : (truthy lb || truthy lu) = true
          · simp only [hL, if_true]
            rcases hl : convertLoading c s2 lb lu with ⟨s3, o3⟩
            cases o3 with
            | err e => rw [runUntilRefused_cons_err c s2 s3 _ _ e (by simpa [step] using hl)]
            | ok => rw [runUntilRefused_cons_ok c s2 s3 _ _ (by simpa [step] using hl)]; rfl
          · simp only [hL, if_false, Bool.false_eq_true]; rfl
      · simp only [hM, if_false, Bool.false_eq_true, List.nil_append]
        by_cases hL : (truthy lb || truthy lu) = true
        · simp only [hL, if_true]
          rcases hl : convertLoading c s1 lb lu with ⟨s3, o3⟩
          cases o3 with
          | err e => rw [runUntilRefused_cons_err c s1 s3 _ _ e (by simpa [step] using hl)]
          | ok => rw [runUntilRefused_cons_ok c s1 s3 _ _ (by simpa [step] using hl)]; rfl
        · simp only [hL, if_false, Bool.false_eq_true]; rfl
  · simp only [hP, if_false, Bool.false_eq_true, List.nil_append]
    by_cases hM : (truthy mb || truthy mu) = true
    · simp only [hM, if_true, List.cons_append, List.nil_append]
      rcases hm : convertMaterial c s mb mu with ⟨s2, o2⟩
      cases o2 with
      | err e => rw [runUntilRefused_cons_err c s s2 _ _ e (by simpa [step] using hm)]
      | ok =>
        rw [runUntilRefused_cons_ok c s s2 _ _ (by simpa [step] using hm)]
        by_cases hL : (truthy lb || truthy lu) = true
        · simp only [hL, if_true]
          rcases hl : convertLoading c s2 lb lu with ⟨s3, o3⟩
          cases o3 with
          | err e => rw [runUntilRefused_cons_err c s2 s3 _ _ e (by simpa [step] using hl)]
          | ok => rw [runUntilRefused_cons_ok c s2 s3 _ _ (by simpa [step] using hl)]; rfl
        · simp only [hL, if_false, Bool.false_eq_true]; rfl
    · simp only [hM, if_false, Bool.false_eq_true, List.nil_append]
      by_cases hL : (truthy lb || truthy lu) = true
      · simp only [hL, if_true]
        rcases hl : convertLoading c s lb lu with ⟨s3, o3⟩
        cases o3 with
        | err e => rw [runUntilRefused_cons_err c s s3 _ _ e (by simpa [step] using hl)]
        | ok => rw [runUntilRefused_cons_ok c s s3 _ _ (by simpa [step] using hl)]; rfl
      · simp only [hL, if_false, Bool.false_eq_true]; rfl

/-- an accepted sequence is the plain history of its calls -/
theorem runUntilRefused_ok_eq_run (c : Ctx α) (s : Iso α) (ops : List Op)
    (h : (runUntilRefused c s ops).2 = .ok) :
    (runUntilRefused c s ops).1 = run c s ops ∧
      ∀ done op rest, ops = done ++ op :: rest → (step c (run c s done) op).2 = .ok := by
  induction ops generalizing s with
  | nil =>
    refine ⟨rfl, ?_⟩
    intro done op rest h'
    simp at h'
  | cons op ops ih =>
    rcases hs : step c s op with ⟨s', o⟩
    cases o with
    | err e => rw [runUntilRefused_cons_err c s s' op ops e hs] at h; cases h
    | ok =>
      rw [runUntilRefused_cons_ok c s s' op ops hs] at h ⊢
      obtain ⟨h1, h2⟩ := ih s' h
      have hrun : ∀ l, run c s (op :: l) = run c s' l := by
        intro l; simp [run, List.foldl_cons, hs]
      refine ⟨by rw [h1, hrun], ?_⟩
      intro done op' rest hd
      cases done with
      | nil =>
        simp only [List.nil_append, List.cons.injEq] at hd
        obtain ⟨rfl, -⟩ := hd
        simp [run, hs]
      | cons d ds =>
        simp only [List.cons_append, List.cons.injEq] at hd
        obtain ⟨rfl, hd⟩ := hd
        rw [hrun]
        exact h2 ds op' rest hd

/-- **a refused sequence of single-quantity calls leaves exactly the effect of the calls completed before the
refusal**: there is a unique split `done ++ op :: rest` with every call of `done` accepted, `op` refused with
the propagated error *and changing nothing*, nothing of `rest` carried out, and the resulting state is the
state after the history `done`. -/
theorem runUntilRefused_refused_prefix (c : Ctx α) (s : Iso α) (ops : List Op) (e : Err)
    (hsingle : ∀ op ∈ ops, op.isSingle = true)
    (h : (runUntilRefused c s ops).2 = .err e) :
    ∃ done op rest, ops = done ++ op :: rest ∧
      runUntilRefused c s done = (run c s done, .ok) ∧
      step c (run c s done) op = (run c s done, .err e) ∧
      (runUntilRefused c s ops).1 = run c s done := by
  induction ops generalizing s with
  | nil => simp [runUntilRefused] at h
  | cons op ops ih =>
    rcases hs : step c s op with ⟨s', o⟩
    cases o with
    | err e' =>
      rw [runUntilRefused_cons_err c s s' op ops e' hs] at h ⊢
      simp only [Outcome.err.injEq] at h
      subst h
      have hop : ∀ pm pu lb lu mb mu, op ≠ .all pm pu lb lu mb mu := by
        intro pm pu lb lu mb mu he
        have := hsingle op (by simp)
        rw [he] at this
        simp [Op.isSingle] at this
      have hun : (step c s op).1 = s := step_single_refused_unchanged c s op hop (by rw [hs]; simp)
      rw [hs] at hun
      simp only at hun
      subst hun
      exact ⟨[], op, ops, rfl, rfl, by simpa [run] using hs, rfl⟩
    | ok =>
      rw [runUntilRefused_cons_ok c s s' op ops hs] at h ⊢
      obtain ⟨done, op', rest, hsplit, hdone, hstep, hres⟩ :=
        ih s' (fun o ho => hsingle o (by simp [ho])) h
      have hrun : ∀ l, run c s (op :: l) = run c s' l := by
        intro l; simp [run, List.foldl_cons, hs]
      refine ⟨op :: done, op', rest, by rw [hsplit]; rfl, ?_, ?_, ?_⟩
      · rw [runUntilRefused_cons_ok c s s' op done hs, hrun]; exact hdone
      · rw [hrun]; exact hstep
      · rw [hrun]; exact hres

/-- an accepted `convert(...)` is the sequence of its single conversions -/
theorem convertAll_ok_eq_sequence (c : Ctx α) (s : Iso α) (pm pu lb lu mb mu : Option String)
    (h : (convertAll c s pm pu lb lu mb mu).2 = .ok) :
    (convertAll c s pm pu lb lu mb mu).1 = run c s (subSteps pm pu lb lu mb mu) ∧
      ∀ done op rest, subSteps pm pu lb lu mb mu = done ++ op :: rest → (step c (run c s done) op).2 = .ok := by
  rw [convertAll_eq_singles] at h ⊢
  exact runUntilRefused_ok_eq_run c s _ h

/-- a refused `convert(...)` leaves exactly the effect of the single conversions completed before the refusal
(in the documented order), the refusing single conversion itself having changed nothing -/
theorem convertAll_refused_eq_completed_steps (c : Ctx α) (s : Iso α) (pm pu lb lu mb mu : Option String) (e : Err)
    (h : (convertAll c s pm pu lb lu mb mu).2 = .err e) :
    ∃ done op rest, subSteps pm pu lb lu mb mu = done ++ op :: rest ∧
      runUntilRefused c s done = (run c s done, .ok) ∧
      step c (run c s done) op = (run c s done, .err e) ∧
      (convertAll c s pm pu lb lu mb mu).1 = run c s done := by
  rw [convertAll_eq_singles] at h ⊢
  exact runUntilRefused_refused_prefix c s _ e (subSteps_single pm pu lb lu mb mu) h

/-- what the material and the loading step never touch: the pressure column and the pressure labels -/
def SamePressure (s s' : Iso α) : Prop :=
  s'.ps = s.ps ∧ s'.lab.pmode = s.lab.pmode ∧ s'.lab.punit = s.lab.punit

lemma SamePressure.refl (s : Iso α) : SamePressure s s := ⟨rfl, rfl, rfl⟩

lemma SamePressure.trans {s s' s'' : Iso α} (h1 : SamePressure s s') (h2 : SamePressure s' s'') : SamePressure s s'' :=
  ⟨h2.1.trans h1.1, h2.2.1.trans h1.2.1, h2.2.2.trans h1.2.2⟩

lemma lCore_samePressure (c : Ctx α) (s : Iso α) (b : String) (u : Option String) :
    SamePressure s (lCore c s b u).1 := by
  unfold lCore
  split
  · exact SamePressure.refl s
  · split
    · exact SamePressure.refl s
    · split
      · exact SamePressure.refl s
      · exact ⟨rfl, rfl, rfl⟩

lemma mCore_samePressure (c : Ctx α) (s : Iso α) (b : String) (u : Option String) :
    SamePressure s (mCore c s b u).1 := by
  unfold mCore
  split
  · exact SamePressure.refl s
  · split
    · split
      · exact SamePressure.refl s
      · exact ⟨rfl, rfl, rfl⟩
    · split
      · exact SamePressure.refl s
      · simp only
        split
        · exact SamePressure.refl s
        · exact ⟨rfl, rfl, rfl⟩

lemma convTail_samePressure (c : Ctx α) (s1 : Iso α) (lb lu mb mu : Option String) :
    SamePressure s1 (convTail c s1 lb lu mb mu).1 := by
  unfold convTail
  simp only
  have hM : SamePressure s1 (if truthy mb || truthy mu then convertMaterial c s1 mb mu else (s1, .ok)).1 := by
    split
    · rw [convertMaterial_core]; exact mCore_samePressure ..
    · exact SamePressure.refl s1
  cases hr : (if truthy mb || truthy mu then convertMaterial c s1 mb mu else (s1, .ok)) with
  | mk sm om =>
  rw [hr] at hM
  cases om with
  | err e => exact hM
  | ok =>
    simp only
    split
    · exact hM.trans (by rw [convertLoading_core]; exact lCore_samePressure ..)
    · exact hM

/-- **no hoisted validation**: the arguments of the material and of the loading step play no role until the
earlier steps have been carried out.  Whatever they are — unknown basis, unit of another table, a target the
adsorbate has no property for — if the pressure step is issued and accepted singly, then its full effect on the
pressure column and the pressure labels is in the state `convert(...)` leaves, accepted or refused. -/
theorem convertAll_no_early_refusal (c : Ctx α) (s : Iso α) (pm pu lb lu mb mu : Option String)
    (hP : (truthy pm || truthy pu) = true) (hok : (convertPressure c s pm pu).2 = .ok) :
    (convertAll c s pm pu lb lu mb mu).1.ps = (convertPressure c s pm pu).1.ps ∧
    (convertAll c s pm pu lb lu mb mu).1.lab.pmode = (convertPressure c s pm pu).1.lab.pmode ∧
    (convertAll c s pm pu lb lu mb mu).1.lab.punit = (convertPressure c s pm pu).1.lab.punit := by
  rw [convertAll_eq_tail]
  simp only [hP, if_true]
  rcases hp : convertPressure c s pm pu with ⟨s1, o1⟩
  rw [hp] at hok
  simp only at hok
  subst hok
  exact convTail_samePressure c s1 lb lu mb mu

/-- and likewise for an accepted material step when the loading step is the refusing one: the loading arguments
cannot undo or pre-empt it (the state after `convert` has the material labels of the single material call) -/
theorem convertAll_keeps_material_step (c : Ctx α) (s : Iso α) (pm pu lb lu mb mu : Option String) (e : Err)
    (hPok : (truthy pm || truthy pu) = false ∨ (convertPressure c s pm pu).2 = .ok)
    (hM : (truthy mb || truthy mu) = true)
    (hMok : (convertMaterial c (if truthy pm || truthy pu then (convertPressure c s pm pu).1 else s) mb mu).2 = .ok)
    (h : (convertAll c s pm pu lb lu mb mu).2 = .err e) :
    (convertAll c s pm pu lb lu mb mu).1 =
      (convertMaterial c (if truthy pm || truthy pu then (convertPressure c s pm pu).1 else s) mb mu).1 := by
  have := convertAll_refused_prefix c s pm pu lb lu mb mu e h
  simp only at this
  rcases this with ⟨dP, he, -, -⟩ | ⟨-, -, he, -, -⟩ | ⟨-, -, -, -, -, hres⟩
  · rcases hPok with hf | hk
    · rw [hf] at dP; cases dP
    · rw [hk] at he; cases he
  · rw [he] at hMok; cases hMok
  · rw [hres]; simp [hM]

/-! ### non-vacuity: a combined call whose LOADING basis is unknown, after a pressure step that changes the data -/

section ExampleS

/-- `convert(pressure_unit='kPa', loading_basis='volumetric', loading_unit='cm3')` on the bar / mmol / g isotherm of
`Props/C02.lean`: refused by the loading step (ParameterError), the pressure is in kPa, the loading untouched -/
example : (convertAll exCtx exIso none (some "kPa") (some "volumetric") (some "cm3") none none).2 = .err .param ∧
    (convertAll exCtx exIso none (some "kPa") (some "volumetric") (some "cm3") none none).1.ps = [100, 200] ∧
    (convertAll exCtx exIso none (some "kPa") (some "volumetric") (some "cm3") none none).1.ls = [3, 4] ∧
    (convertAll exCtx exIso none (some "kPa") (some "volumetric") (some "cm3") none none).1.lab =
      ⟨"absolute", some "kPa", "molar", some "mmol", "mass", some "g", some "K"⟩ := by decide +kernel

example : subSteps (none : Option String) (some "kPa") (some "volumetric") (some "cm3") none none =
    [.pressure none (some "kPa"), .loading (some "volumetric") (some "cm3")] := by
  simp [subSteps, truthy]

/-- refused by the MATERIAL step (unknown basis) after an accepted pressure step; the loading step (valid) is not carried out -/
example : (convertAll exCtx exIso (some "relative") none (some "mass") (some "mg") (some "surface") (some "m2")).2 = .err .param ∧
    (convertAll exCtx exIso (some "relative") none (some "mass") (some "mg") (some "surface") (some "m2")).1.lab =
      ⟨"relative", none, "molar", some "mmol", "mass", some "g", some "K"⟩ ∧
    (convertAll exCtx exIso (some "relative") none (some "mass") (some "mg") (some "surface") (some "m2")).1.ls = [3, 4] := by
  decide +kernel

/-- an accepted combined call = the three single calls: kPa, per kg of material, mass basis in mg -/
example : (convertAll exCtx exIso none (some "kPa") (some "mass") (some "mg") none (some "kg")).2 = .ok ∧
    (convertAll exCtx exIso none (some "kPa") (some "mass") (some "mg") none (some "kg")).1.ls = [84000, 112000] ∧
    (convertAll exCtx exIso none (some "kPa") (some "mass") (some "mg") none (some "kg")).1.ps = [100, 200] := by decide +kernel

end ExampleS

/-! ## Q. Queries between conversions are answered from the stored data

`Iso.lcache` / `Iso.pcache` say whether the loading / pressure interpolator slot is occupied.  Here the slots get
their CONTENT: the two columns the interpolator was built from.  A conversion never writes into an interpolator,
it can only drop it (`step` touches the flags only); `loading_at` / `pressure_at` (and `spreading_pressure_at`,
which calls `loading_at`) reuse an occupied slot and fill an empty one from the current columns. -/

/-- an isotherm with the content of its cached interpolators -/
structure QIso (α : Type) where
  iso : Iso α
  lsnap : List α × List α      -- (pressure, loading) columns the loading interpolator was built from
  psnap : List α × List α      -- the same for the pressure interpolator

/-- what can happen to a point isotherm between two observations -/
inductive Act
  | conv (op : Op)             -- any conversion call, any arguments, accepted or refused
  | loadingAt                  -- `loading_at` / `spreading_pressure_at`
  | pressureAt                 -- `pressure_at`

/-- the columns a `loading_at` query is answered from -/
def QIso.loadingData (q : QIso α) : List α × List α := if q.iso.lcache then q.lsnap else (q.iso.ps, q.iso.ls)
/-- the columns a `pressure_at` query is answered from -/
def QIso.pressureData (q : QIso α) : List α × List α := if q.iso.pcache then q.psnap else (q.iso.ps, q.iso.ls)

def act (c : Ctx α) (q : QIso α) : Act → QIso α
  | .conv op => { q with iso := (step c q.iso op).1 }
  | .loadingAt => if q.iso.lcache then q else { q with iso := { q.iso with lcache := true }, lsnap := (q.iso.ps, q.iso.ls) }
  | .pressureAt => if q.iso.pcache then q else { q with iso := { q.iso with pcache := true }, psnap := (q.iso.ps, q.iso.ls) }

/-- every occupied slot was built from the columns that are stored now -/
def Coherent (q : QIso α) : Prop :=
  (q.iso.lcache = true → q.lsnap = (q.iso.ps, q.iso.ls)) ∧ (q.iso.pcache = true → q.psnap = (q.iso.ps, q.iso.ls))

/-- a freshly constructed isotherm has empty slots -/
theorem coherent_fresh (s : Iso α) (hl : s.lcache = false) (hp : s.pcache = false) (a b : List α × List α) :
    Coherent ⟨s, a, b⟩ := by
  constructor <;> intro h <;> simp_all

lemma footprint_keeps_slot {s s' : Iso α} (h : Footprint s s') :
    (s'.lcache = true → s.lcache = true ∧ s'.ps = s.ps ∧ s'.ls = s.ls) ∧
    (s'.pcache = true → s.pcache = true ∧ s'.ps = s.ps ∧ s'.ls = s.ls) := by
  obtain ⟨-, ⟨ml, mp⟩, ch⟩ := h
  have same : ∀ (hne : s'.lcache = true ∨ s'.pcache = true), s'.ps = s.ps ∧ s'.ls = s.ls := by
    intro hne
    by_contra hcon
    have : s'.ps ≠ s.ps ∨ s'.ls ≠ s.ls := by
      by_cases h1 : s'.ps = s.ps
      · right; intro h2; exact hcon ⟨h1, h2⟩
      · left; exact h1
    obtain ⟨a, b⟩ := ch this
    rcases hne with h | h
    · rw [a] at h; cases h
    · rw [b] at h; cases h
  refine ⟨fun h => ⟨?_, same (Or.inl h)⟩, fun h => ⟨?_, same (Or.inr h)⟩⟩
  · cases hs : s.lcache with
    | true => rfl
    | false => rw [ml hs] at h; cases h
  · cases hs : s.pcache with
    | true => rfl
    | false => rw [mp hs] at h; cases h

/-- one action keeps the slots coherent with the stored columns -/
theorem coherent_act (c : Ctx α) (q : QIso α) (a : Act) (h : Coherent q) : Coherent (act c q a) := by
  obtain ⟨hl, hp⟩ := h
  cases a with
  | conv op =>
    obtain ⟨kl, kp⟩ := footprint_keeps_slot (step_footprint c q.iso op)
    constructor
    · intro h'
      obtain ⟨a, b, d⟩ := kl h'
      show q.lsnap = ((step c q.iso op).1.ps, (step c q.iso op).1.ls)
      rw [b, d]; exact hl a
    · intro h'
      obtain ⟨a, b, d⟩ := kp h'
      show q.psnap = ((step c q.iso op).1.ps, (step c q.iso op).1.ls)
      rw [b, d]; exact hp a
  | loadingAt =>
    by_cases hc : q.iso.lcache = true
    · have e : act c q .loadingAt = q := by simp [act, hc]
      rw [e]; exact ⟨hl, hp⟩
    · have e : act c q .loadingAt =
          { q with iso := { q.iso with lcache := true }, lsnap := (q.iso.ps, q.iso.ls) } := by simp [act, hc]
      rw [e]; exact ⟨fun _ => rfl, hp⟩
  | pressureAt =>
    by_cases hc : q.iso.pcache = true
    · have e : act c q .pressureAt = q := by simp [act, hc]
      rw [e]; exact ⟨hl, hp⟩
    · have e : act c q .pressureAt =
          { q with iso := { q.iso with pcache := true }, psnap := (q.iso.ps, q.iso.ls) } := by simp [act, hc]
      rw [e]; exact ⟨hl, fun _ => rfl⟩

/-- any interleaving of conversions (any arguments, accepted or refused) and queries keeps the slots coherent -/
theorem coherent_history (c : Ctx α) (q : QIso α) (acts : List Act) (h : Coherent q) :
    Coherent (acts.foldl (act c) q) := by
  induction acts generalizing q with
  | nil => exact h
  | cons a as ih => exact ih _ (coherent_act c q a h)

/-- **after every history a query is answered from the stored data**: whatever conversions and queries came
before, `loading_at` (hence `spreading_pressure_at`) and `pressure_at` read exactly the columns the isotherm
holds now — at a measured point they give the stored datum back, in the current representation. -/
theorem query_reads_stored_data (c : Ctx α) (q : QIso α) (acts : List Act) (h : Coherent q) :
    (acts.foldl (act c) q).loadingData = ((acts.foldl (act c) q).iso.ps, (acts.foldl (act c) q).iso.ls) ∧
    (acts.foldl (act c) q).pressureData = ((acts.foldl (act c) q).iso.ps, (acts.foldl (act c) q).iso.ls) := by
  obtain ⟨hl, hp⟩ := coherent_history c q acts h
  unfold QIso.loadingData QIso.pressureData
  constructor
  · split
    · rename_i hc; exact hl hc
    · rfl
  · split
    · rename_i hc; exact hp hc
    · rfl

section ExampleQ

/-- the theorem has teeth: a conversion that rewrote the pressure column but kept the loading interpolator would
answer the next query from the old column.  (`exIso` has both slots occupied.) -/
example : ¬ Coherent (⟨{ exIso with ps := exIso.ps.map (· * 100) }, (exIso.ps, exIso.ls), (exIso.ps, exIso.ls)⟩ : QIso ℚ) := by
  intro h
  have := h.1 rfl
  revert this
  decide +kernel

/-- query, convert bar → kPa, query again: the second query reads the kPa column -/
example : ((([Act.loadingAt, .conv (.pressure none (some "kPa")), .loadingAt].foldl (act exCtx)
    ⟨{ exIso with lcache := false, pcache := false }, ([], []), ([], [])⟩).loadingData) = ([100, 200], [3, 4])) := by
  decide +kernel

end ExampleQ

end PgVerif.C02
