/-
C16, boundary coincidence and near-coincident data (`Model/Linear.lean` window, `Model/Meso.lean`, `Model/MesoSession.lean`).

Part G: pressure limits that are EXACTLY equal to measured pressures.  The convention of `psd_mesoporous`
        (`numpy.searchsorted(pressure, lo)` … `numpy.searchsorted(pressure, hi) - 1`, both `side='left'`) is a half-open interval:
        a point on the lower limit is used, a point on the upper limit is NOT.  On a strictly increasing grid with `lo = p_i`,
        `hi = p_j` the window is `(i, j - 1)` (and the call is refused iff `j < i + 3`); the same for the default limits when readings
        equal to 0.1 / 0.99 exist, for one limit only, for the first / last point.  Every reported quantity refers to that window:
        in particular the cumulative curve ends at the liquid volume of point `j - 1`, the highest pressure USED, not at the
        volume of the point that lies on the limit.
Part H: near-coincident data.  `distribution × width increments = pore volumes` holds entry by entry for ANY non-zero increments,
        however small (no threshold, no relative tolerance), for every method and for the whole entry point; hence the distribution
        of an interval vanishes exactly when its pore volume does, and a single condensation step between two readings that are
        arbitrarily close gives exactly one non-zero entry of the distribution, `d / Δw`, at that interval.
Part I: non-vacuity at ℚ: limits on data points, two readings 10⁻¹² apart.
-/
import Mathlib.Tactic
import Mathlib.Algebra.Order.Field.Rat
import PgVerif.Model.MesoSession
import PgVerif.Props.C14
import PgVerif.Props.C16
import PgVerif.Props.C16.Session

set_option linter.unusedSectionVars false

namespace PgVerif.Props.C16.Boundary
open PgVerif.Model.Meso PgVerif.Model.Linear PgVerif.Model.MesoSession PgVerif.Props.C16 PgVerif.Props.C16.Session
open PgVerif.Props.C14 (lt_searchsorted_iff searchsorted_le_length given_some_ne given_none given_some_zero inLimits
  limitWindow_spec_general)

/-! ## G. limits that coincide with measured pressures -/

section Ties

variable {α : Type} [Field α] [LinearOrder α]

lemma pairwise_le_of_lt {ps : List α} (hs : ps.Pairwise (· < ·)) : ps.Pairwise (· ≤ ·) :=
  hs.imp (fun h => le_of_lt h)

lemma getElem_lt_of_pairwise {ps : List α} (hs : ps.Pairwise (· < ·)) {i j : Nat} (hj : j < ps.length) (hij : i < j) :
    ps[i]'(by omega) < ps[j] :=
  List.pairwise_iff_getElem.mp hs i j (by omega) hj hij

/-- G1. on a strictly increasing grid `searchsorted(ps, ps[j]) = j`: the points strictly below a measured pressure are exactly
the earlier ones, the point itself is not among them -/
theorem searchsorted_at_point (ps : List α) (hs : ps.Pairwise (· < ·)) (j : Nat) (h : j < ps.length) :
    searchsorted ps ps[j] = j := by
  have hle := pairwise_le_of_lt hs
  have h1 : ¬ (j < searchsorted ps ps[j]) := by
    rw [lt_searchsorted_iff ps hle _ j h]; exact lt_irrefl _
  by_contra hne
  have hlt : searchsorted ps ps[j] < j := by omega
  have hlen : searchsorted ps ps[j] < ps.length := by omega
  have := (lt_searchsorted_iff ps hle ps[j] (searchsorted ps ps[j]) hlen).2 (getElem_lt_of_pairwise hs h hlt)
  exact lt_irrefl _ this

/-- G2. an upper limit equal to the measured pressure `ps[j]`: `maximum = j - 1` (the point on the limit is excluded) -/
theorem limitWindow_upper_tie (ps : List α) (hs : ps.Pairwise (· < ·)) (lo : Option α) (j : Nat) (h : j < ps.length)
    (hne : ps[j] ≠ 0) : (limitWindow ps lo (some ps[j])).2 = (j : ℤ) - 1 := by
  unfold limitWindow
  simp only [given_some_ne hne, searchsorted_at_point ps hs j h]

/-- G3. a lower limit equal to the measured pressure `ps[i]`: `minimum = i` (the point on the limit is included) -/
theorem limitWindow_lower_tie (ps : List α) (hs : ps.Pairwise (· < ·)) (hi : Option α) (i : Nat) (h : i < ps.length)
    (hne : ps[i] ≠ 0) : (limitWindow ps (some ps[i]) hi).1 = i := by
  unfold limitWindow
  simp only [given_some_ne hne, searchsorted_at_point ps hs i h]

/-- G4. both limits on data points, `lo = ps[i]`, `hi = ps[j]`, at least three points in `[i, j)`: the window is `(i, j - 1)` -/
theorem mesoWindow_ties (ps : List α) (hs : ps.Pairwise (· < ·)) (c10 c99 : α) (i j : Nat) (hj : j < ps.length)
    (hij : i + 3 ≤ j) (hi0 : ps[i]'(by omega) ≠ 0) (hj0 : ps[j] ≠ 0) :
    mesoWindow ps c10 c99 (some (some (ps[i]'(by omega)), some ps[j])) = some (i, j - 1) := by
  have h1 := limitWindow_upper_tie ps hs (some (ps[i]'(by omega))) j hj hj0
  have h2 := limitWindow_lower_tie ps hs (some ps[j]) i (by omega) hi0
  unfold mesoWindow decide3
  simp only [h1, h2]
  rw [if_neg (by omega)]
  congr 2
  omega

/-- G5. … fewer than three points in `[i, j)`: refused (`CalculationError`), whatever lies on the upper limit -/
theorem mesoWindow_ties_refused (ps : List α) (hs : ps.Pairwise (· < ·)) (c10 c99 : α) (i j : Nat) (hi : i < ps.length)
    (hj : j < ps.length) (hij : j < i + 3) (hi0 : ps[i] ≠ 0) (hj0 : ps[j] ≠ 0) :
    mesoWindow ps c10 c99 (some (some ps[i], some ps[j])) = none := by
  have h1 := limitWindow_upper_tie ps hs (some ps[i]) j hj hj0
  have h2 := limitWindow_lower_tie ps hs (some ps[j]) i hi hi0
  unfold mesoWindow decide3
  simp only [h1, h2]
  rw [if_pos (by omega)]

/-- G6. the DEFAULT limits on data points (`p_limits=None` and readings equal to 0.1 and 0.99): same half-open window -/
theorem mesoWindow_default_ties (ps : List α) (hs : ps.Pairwise (· < ·)) (c10 c99 : α) (i j : Nat) (hj : j < ps.length)
    (hij : i + 3 ≤ j) (hi : ps[i]'(by omega) = c10) (hjv : ps[j] = c99) (h10 : c10 ≠ 0) (h99 : c99 ≠ 0) :
    mesoWindow ps c10 c99 none = some (i, j - 1) := by
  have := mesoWindow_ties ps hs c10 c99 i j hj hij (by rw [hi]; exact h10) (by rw [hjv]; exact h99)
  rw [hi, hjv] at this
  exact this

/-- G7. only the upper limit given, on the data point `ps[j]` (lower limit `None` or `0`): window `(0, j - 1)` -/
theorem mesoWindow_upper_tie_only (ps : List α) (hs : ps.Pairwise (· < ·)) (c10 c99 : α) (lo : Option α)
    (hlo : lo = none ∨ lo = some 0) (j : Nat) (hj : j < ps.length) (h3 : 3 ≤ j) (hj0 : ps[j] ≠ 0) :
    mesoWindow ps c10 c99 (some (lo, some ps[j])) = some (0, j - 1) := by
  have h1 := limitWindow_upper_tie ps hs lo j hj hj0
  have h2 : (limitWindow ps lo (some ps[j])).1 = 0 := by
    have hg : given lo = none := by rcases hlo with rfl | rfl; exacts [rfl, given_some_zero]
    unfold limitWindow; simp only [hg]
  unfold mesoWindow decide3
  simp only [h1, h2]
  rw [if_neg (by push_cast; omega)]
  congr 2
  omega

/-- G8. only the lower limit given, on the data point `ps[i]` (upper limit `None` or `0`): window `(i, n - 1)` -/
theorem mesoWindow_lower_tie_only (ps : List α) (hs : ps.Pairwise (· < ·)) (c10 c99 : α) (hi : Option α)
    (hhi : hi = none ∨ hi = some 0) (i : Nat) (h3 : i + 3 ≤ ps.length) (hi0 : ps[i]'(by omega) ≠ 0) :
    mesoWindow ps c10 c99 (some (some (ps[i]'(by omega)), hi)) = some (i, ps.length - 1) := by
  have h1 := limitWindow_lower_tie ps hs hi i (by omega) hi0
  have h2 : (limitWindow ps (some (ps[i]'(by omega))) hi).2 = (ps.length : ℤ) - 1 := by
    have hg : given hi = none := by rcases hhi with rfl | rfl; exacts [rfl, given_some_zero]
    unfold limitWindow; simp only [hg]
  unfold mesoWindow decide3
  simp only [h1, h2]
  rw [if_neg (by omega)]
  congr 2
  omega

/-- G9 (general form, any limits): the indices of an accepted window are exactly the points inside the half-open limits
`lo ≤ p < hi` (each limit only if given) -/
theorem mesoWindow_mem_iff (ps : List α) (hs : ps.Pairwise (· ≤ ·)) (c10 c99 : α) (lo hi : Option α) (w : Nat × Nat)
    (h : mesoWindow ps c10 c99 (some (lo, hi)) = some w) (i : Nat) (hi' : i < ps.length) :
    (w.1 ≤ i ∧ i ≤ w.2) ↔ inLimits lo hi ps[i] = true := by
  unfold mesoWindow decide3 at h
  simp only at h
  split_ifs at h with hc
  simp only [Option.some.injEq] at h
  rw [← limitWindow_spec_general ps hs lo hi i hi', ← h]
  simp only
  omega

/-- `a[minimum : maximum + 1][-1] = a[maximum]` -/
lemma slice_getLastD (xs : List α) (w : Nat × Nat) (h1 : w.1 ≤ w.2) (h2 : w.2 < xs.length) :
    (slice xs w).getLastD 0 = xs[w.2] := by
  unfold slice
  rw [List.getLastD_eq_getLast?, List.getLast?_drop, if_neg (by simp; omega), List.getLast?_take,
    if_neg (by omega)]
  simp [List.getElem?_eq_getElem h2]

lemma mesoWindow_some_le (ps : List α) (c10 c99 : α) (l : Option (Option α × Option α)) (w : Nat × Nat)
    (h : mesoWindow ps c10 c99 l = some w) : w.1 + 2 ≤ w.2 := by
  unfold mesoWindow at h
  cases l with
  | none =>
    simp only [decide3] at h
    split_ifs at h with hc
    simp only [Option.some.injEq] at h
    rw [← h]; simp only; omega
  | some p =>
    obtain ⟨lo, hi⟩ := p
    simp only [decide3] at h
    split_ifs at h with hc
    simp only [Option.some.injEq] at h
    rw [← h]; simp only; omega

/-- G10. the cumulative curve ends at the liquid volume of the LAST INDEX OF THE WINDOW -/
theorem analysis_cumulative_at_window_end (R c10 c99 : α) (a : AdsProps α) (d : IsoData α) (q : Request α) (r : Analysis α)
    (h : analysis R c10 c99 a d q = some r) (hne : r.result.volumes ≠ []) (hlen : r.window.2 < d.loading.length) :
    r.cumulative.getLastD 0 = liquidVolume d.massBasis a d.loading[r.window.2] := by
  rw [analysis_cumulative_last R c10 c99 a d q r h hne]
  obtain ⟨hw, -, -⟩ := analysis_some R c10 c99 a d q r h
  have := mesoWindow_some_le _ _ _ _ _ hw
  rw [slice_getLastD _ _ (by omega) (by simpa using hlen)]
  simp

/-- G11. **upper limit on a measured pressure.** `p_limits = (lo, p_j)` on a strictly increasing grid: the call uses the points up to
`j - 1` and the cumulative curve ends at the liquid volume adsorbed at `p_{j-1}`, the highest pressure used — NOT at the volume of
the point `j` that lies on the limit -/
theorem analysis_cumulative_upper_tie (R c10 c99 : α) (a : AdsProps α) (d : IsoData α) (q : Request α) (r : Analysis α)
    (lo : Option α) (j : Nat) (hs : d.pressure.Pairwise (· < ·)) (hj : j < d.pressure.length)
    (hlen : d.loading.length = d.pressure.length) (hj0 : d.pressure[j] ≠ 0)
    (hq : q.limits = some (lo, some d.pressure[j]))
    (h : analysis R c10 c99 a d q = some r) (hne : r.result.volumes ≠ []) :
    r.window.2 = j - 1 ∧ 1 ≤ j ∧
    r.cumulative.getLastD 0 = liquidVolume d.massBasis a (d.loading[j - 1]'(by omega)) := by
  obtain ⟨hw, -, -⟩ := analysis_some R c10 c99 a d q r h
  have hge := mesoWindow_some_le _ _ _ _ _ hw
  rw [hq] at hw
  have h2 := limitWindow_upper_tie d.pressure hs lo j hj hj0
  unfold mesoWindow decide3 at hw
  simp only at hw
  split_ifs at hw with hc
  simp only [Option.some.injEq] at hw
  have hw2 : r.window.2 = j - 1 := by
    rw [← hw]; simp only [h2]; omega
  have hj1 : 1 ≤ j := by
    rw [h2] at hc; omega
  refine ⟨hw2, hj1, ?_⟩
  rw [analysis_cumulative_at_window_end R c10 c99 a d q r h hne (by omega)]
  simp only [hw2]

end Ties

/-! ## H. near-coincident data: `distribution × Δw = V` at any spacing -/

section Spacing

variable {α : Type} [Field α]

lemma increments_eq_succDiff (l : List α) : increments l = succDiff l := by
  induction l with
  | nil => rfl
  | cons a l ih =>
    cases l with
    | nil => rfl
    | cons b r => simp only [increments, succDiff, ih]

/-- H1. every method: the distribution times the increments of the full width list `2 (t + r_K)` equals the pore volumes,
for ANY non-zero increments (no lower bound on their size) -/
theorem method_distribution_times_increment (name g : String) (n : Nat) (vol thick kelvin : List α) (r : Result α)
    (h : method name g vol thick kelvin = some r)
    (hv : vol.length = n) (ht : thick.length = n) (hk : kelvin.length = n)
    (hw : ∀ x ∈ increments (fullWidths thick kelvin), x ≠ 0) :
    List.zipWith (· * ·) r.distribution (increments (fullWidths thick kelvin)) = r.volumes := by
  rw [increments_eq_succDiff] at hw ⊢
  unfold fullWidths at hw ⊢
  unfold method at h
  split_ifs at h with h1 h2 h3 h4 h5
  · cases hc : cLength g with
    | none => rw [hc] at h; exact absurd h (by simp)
    | some c =>
      rw [hc] at h
      simp only [Option.map_some, Option.some.injEq] at h
      rw [← h]; exact distribution_times_increment_pygapsDH c n vol thick kelvin hv ht hk hw
  · simp only [Option.some.injEq] at h
    rw [← h]; exact distribution_times_increment_bjh n vol thick kelvin hv ht hk hw
  · simp only [Option.some.injEq] at h
    rw [← h]; exact distribution_times_increment_dollimoreHeal n vol thick kelvin hv ht hk hw

/-- entry-by-entry reading of `D × W = V` -/
theorem entry_of_product (D W V : List α) (h : List.zipWith (· * ·) D W = V) (i : Nat)
    (hD : i < D.length) (hW : i < W.length) (hV : i < V.length) : D[i] * W[i] = V[i] := by
  subst h
  simp

/-- H2. the distribution of interval `i` is its pore volume divided by its width increment, whatever the size of the increment -/
theorem distribution_entry (D W V : List α) (h : List.zipWith (· * ·) D W = V) (i : Nat)
    (hD : i < D.length) (hW : i < W.length) (hV : i < V.length) (hw : W[i] ≠ 0) : D[i] = V[i] / W[i] := by
  rw [← entry_of_product D W V h i hD hW hV, mul_div_cancel_right₀ _ hw]

/-- H3. … hence it vanishes exactly when the pore volume of the interval vanishes: two distinct readings, however close,
never lose their pore volume from the distribution -/
theorem distribution_entry_ne_zero_iff (D W V : List α) (h : List.zipWith (· * ·) D W = V) (i : Nat)
    (hD : i < D.length) (hW : i < W.length) (hV : i < V.length) (hw : W[i] ≠ 0) : D[i] ≠ 0 ↔ V[i] ≠ 0 := by
  rw [← entry_of_product D W V h i hD hW hV]
  constructor
  · intro hd; exact mul_ne_zero hd hw
  · intro hp hd; exact hp (by rw [hd, zero_mul])

variable [LinearOrder α]

/-- strictly increasing widths have positive increments -/
theorem increments_pos_of_pairwise_lt [IsStrictOrderedRing α] (l : List α) (hs : l.Pairwise (· < ·)) :
    ∀ x ∈ increments l, 0 < x := by
  induction l with
  | nil => intro x hx; simp [increments] at hx
  | cons a l ih =>
    cases l with
    | nil => intro x hx; simp [increments] at hx
    | cons b r =>
      intro x hx
      rw [List.pairwise_cons] at hs
      simp only [increments, List.mem_cons] at hx
      rcases hx with rfl | hx
      · exact sub_pos.mpr (hs.1 b (by simp))
      · exact ih hs.2 x hx

/-- what `analysis … = some r` says about the new field: the full width list of the window -/
theorem analysis_fullWidths (R c10 c99 : α) (a : AdsProps α) (d : IsoData α) (q : Request α) (r : Analysis α)
    (h : analysis R c10 c99 a d q = some r) :
    r.fullWidths = fullWidths (slice q.thick r.window) (kelvinRadii R a d.temperature q (slice q.lnp r.window)) := by
  unfold analysis at h
  cases hw : mesoWindow d.pressure c10 c99 q.limits with
  | none => rw [hw] at h; exact absurd h (by simp)
  | some w =>
    rw [hw] at h
    simp only [] at h
    cases hm : method q.method q.geometry (slice (d.loading.map (liquidVolume d.massBasis a)) w) (slice q.thick w)
        (kelvinRadii R a d.temperature q (slice q.lnp w)) with
    | none => rw [hm] at h; exact absurd h (by simp)
    | some res =>
      rw [hm] at h
      simp only [Option.some.injEq] at h
      subst h
      rfl

/-- the reported widths are the full width list without its last entry -/
theorem analysis_widths_dropLast (R c10 c99 : α) (a : AdsProps α) (d : IsoData α) (q : Request α) (r : Analysis α)
    (h : analysis R c10 c99 a d q = some r)
    (hl : (slice q.thick r.window).length = (slice q.lnp r.window).length) :
    r.result.widths = r.fullWidths.dropLast := by
  rw [analysis_fullWidths R c10 c99 a d q r h, analysis_widths R c10 c99 a d q r h hl]; rfl

lemma kelvinRadii_length (R : α) (a : AdsProps α) (T : α) (q : Request α) (lnp : List α) :
    (kelvinRadii R a T q lnp).length = lnp.length := by
  unfold kelvinRadii; split_ifs <;> simp

/-- H4. **the whole entry point, any spacing.** If the widths at the pressures used are strictly increasing — by however little —
the distribution times the width increments equals the pore volumes, entry by entry -/
theorem analysis_distribution_times_increment [IsStrictOrderedRing α] (R c10 c99 : α) (a : AdsProps α) (d : IsoData α)
    (q : Request α) (r : Analysis α) (n : Nat) (h : analysis R c10 c99 a d q = some r)
    (ht : (slice q.thick r.window).length = n) (hk : (slice q.lnp r.window).length = n)
    (hv : (slice (d.loading.map (liquidVolume d.massBasis a)) r.window).length = n)
    (hinc : r.fullWidths.Pairwise (· < ·)) :
    List.zipWith (· * ·) r.result.distribution (increments r.fullWidths) = r.result.volumes := by
  obtain ⟨-, hm, -⟩ := analysis_some R c10 c99 a d q r h
  have hf := analysis_fullWidths R c10 c99 a d q r h
  have hpos := increments_pos_of_pairwise_lt r.fullWidths hinc
  rw [hf] at hpos ⊢
  exact method_distribution_times_increment _ _ n _ _ _ _ hm hv ht (by rw [kelvinRadii_length, hk])
    (fun x hx => (hpos x hx).ne')

lemma step_getElem (j k i : Nat) (d : α) (h : i < (List.replicate j (0 : α) ++ [d] ++ List.replicate k 0).length) :
    (List.replicate j (0 : α) ++ [d] ++ List.replicate k 0)[i] = if i = j then d else 0 := by
  have hopt : (List.replicate j (0 : α) ++ [d] ++ List.replicate k 0)[i]? = some (if i = j then d else 0) := by
    rcases Nat.lt_trichotomy i j with hlt | heq | hgt
    · rw [List.append_assoc, List.getElem?_append_left (by simpa using hlt), if_neg (by omega)]
      simp [hlt]
    · subst heq
      rw [List.append_assoc, List.getElem?_append_right (by simp)]
      simp
    · obtain ⟨t, rfl⟩ : ∃ t, i = j + 1 + t := ⟨i - j - 1, by omega⟩
      have ht : t < k := by simp at h; omega
      rw [List.getElem?_append_right (by simp), if_neg (by omega)]
      simp [ht]
  rw [List.getElem?_eq_getElem h] at hopt
  exact Option.some.inj hopt

/-- H5. **single step, any spacing.** Zero thickness, a single condensation step of height `d ≠ 0` between the readings `j` and
`j + 1`, strictly increasing Kelvin radii (the two readings may be arbitrarily close): the distribution has exactly one non-zero
entry, at interval `j`, equal to `d / (2 r_{j+1} - 2 r_j)` -/
theorem single_step_distribution_single_peak [IsStrictOrderedRing α] (name g : String) (n j m : Nat) (hm : 1 ≤ m) (v d : α)
    (hd : d ≠ 0) (vol thick kelvin : List α) (r : Result α) (h : method name g vol thick kelvin = some r)
    (hthick : thick = List.replicate n 0) (hk : kelvin.length = n)
    (hvol : vol = List.replicate (j + 1) v ++ List.replicate m (v + d)) (hn : n = j + 1 + m)
    (hpos : ∀ k ∈ kelvin, 0 < k) (hinc : (fullWidths thick kelvin).Pairwise (· < ·))
    (i : Nat) (hi : i < r.distribution.length) (hiw : i < (increments (fullWidths thick kelvin)).length) :
    (r.distribution[i] ≠ 0 ↔ i = j) ∧
    (i = j → r.distribution[i] = d / (increments (fullWidths thick kelvin))[i]) := by
  have hv : vol.length = n := by rw [hvol, hn]; simp
  have ht : thick.length = n := by rw [hthick]; simp
  have hvols : r.volumes = List.replicate j 0 ++ [d] ++ List.replicate (m - 1) 0 := by
    rw [method_zero_thickness_volumes name g n vol thick kelvin r h hthick hk hv hpos, hvol, succDiff_single_step j m hm]
  have hw := increments_pos_of_pairwise_lt _ hinc
  have hprod := method_distribution_times_increment name g n vol thick kelvin r h hv ht hk (fun x hx => (hw x hx).ne')
  have hwi : (increments (fullWidths thick kelvin))[i] ≠ 0 := (hw _ (List.getElem_mem hiw)).ne'
  have hVlen : r.volumes.length = min r.distribution.length (increments (fullWidths thick kelvin)).length := by
    rw [← hprod]; simp
  have hiV : i < r.volumes.length := by rw [hVlen]; omega
  have hVi : r.volumes[i] = if i = j then d else 0 := by
    have hiV' : i < (List.replicate j (0 : α) ++ [d] ++ List.replicate (m - 1) 0).length := by rw [← hvols]; exact hiV
    have : r.volumes[i] = (List.replicate j (0 : α) ++ [d] ++ List.replicate (m - 1) 0)[i] := by
      simp only [hvols]
    rw [this, step_getElem]
  refine ⟨?_, ?_⟩
  · rw [distribution_entry_ne_zero_iff _ _ _ hprod i hi hiw hiV hwi, hVi]
    by_cases hij : i = j
    · simp [hij, hd]
    · simp [hij]
  · intro hij
    rw [distribution_entry _ _ _ hprod i hi hiw hiV hwi, hVi, if_pos hij]

end Spacing

/-! ## I. non-vacuity at ℚ -/

section Examples

def exPs : List ℚ := [1 / 20, 1 / 10, 1 / 5, 2 / 5, 3 / 5, 4 / 5, 9 / 10, 99 / 100]

/-- the grid is strictly increasing and free of zeros: the hypotheses of G1–G8 -/
example : exPs.Pairwise (· < ·) ∧ ∀ p ∈ exPs, p ≠ 0 := by decide +kernel

/-- both limits on data points (`lo = p_1`, `hi = p_5`): points 1 … 4; the default limits with readings at 0.1 and 0.99: points 1 … 6;
upper limit on the last point; lower limit on the first point; neighbouring points: refused -/
example : mesoWindow exPs (1 / 10) (99 / 100) (some (some (1 / 10), some (4 / 5))) = some (1, 4) ∧
    mesoWindow exPs (1 / 10) (99 / 100) none = some (1, 6) ∧
    mesoWindow exPs (1 / 10) (99 / 100) (some (none, some (99 / 100))) = some (0, 6) ∧
    mesoWindow exPs (1 / 10) (99 / 100) (some (some (1 / 20), none)) = some (0, 7) ∧
    mesoWindow exPs (1 / 10) (99 / 100) (some (some (2 / 5), some (3 / 5))) = none ∧
    mesoWindow exPs (1 / 10) (99 / 100) (some (some (2 / 5), some (4 / 5))) = none ∧
    mesoWindow exPs (1 / 10) (99 / 100) (some (some (2 / 5), some (9 / 10))) = some (3, 5) ∧
    mesoWindow exPs (1 / 10) (99 / 100) (some (some (2 / 5), some (99 / 100))) = some (3, 6) := by
  decide +kernel

def exTieIso : IsoData ℚ := ⟨77, exPs, false, [1, 2, 3, 5, 8, 13, 21, 34]⟩
def exTieProps : AdsProps ℚ := ⟨28, 4 / 5, 44 / 5, 1 / 35⟩
def exTieReq (hi : ℚ) : Request ℚ := ⟨"pygaps-DH", "cylinder", 2, false, some (some (1 / 10), some hi), [0, 0, 0, 0, 0, 0, 0, 0],
  [-3, -23 / 10, -16 / 10, -9 / 10, -1 / 2, -2 / 9, -1 / 10, -1 / 100]⟩

/-- an upper limit ON the reading 0.8 (loading 13) ends the cumulative curve at the volume of the reading 0.6 (loading 8), the
highest pressure used; an upper limit just above it ends it at the volume of the reading 0.8 -/
example :
    ((analysis (1 : ℚ) (1 / 10) (99 / 100) exTieProps exTieIso (exTieReq (4 / 5))).map
      (fun r => (r.window, r.cumulative.getLastD 0))) = some ((1, 4), 8 * (1 / 1000) / (1 / 35)) ∧
    ((analysis (1 : ℚ) (1 / 10) (99 / 100) exTieProps exTieIso (exTieReq (801 / 1000))).map
      (fun r => (r.window, r.cumulative.getLastD 0))) = some ((1, 5), 13 * (1 / 1000) / (1 / 35)) := by
  decide +kernel

/-- two readings whose Kelvin radii are 10⁻¹² apart, the whole uptake step between them: one peak, `d / Δw = 3 / (2·10⁻¹²)`;
the same three methods, the same statement -/
example :
    (pygapsDH 2 [1, 1, 4, 4] [0, 0, 0, 0] [1, 2, 2 + 1 / 1000000000000, 3] : Result ℚ).distribution = [0, 1500000000000, 0] ∧
    (bjh [1, 1, 4, 4] [0, 0, 0, 0] [1, 2, 2 + 1 / 1000000000000, 3] : Result ℚ).distribution = [0, 1500000000000, 0] ∧
    (dollimoreHeal [1, 1, 4, 4] [0, 0, 0, 0] [1, 2, 2 + 1 / 1000000000000, 3] : Result ℚ).distribution
      = [0, 1500000000000, 0] ∧
    increments (fullWidths [0, 0, 0, 0] [1, 2, 2 + 1 / 1000000000000, 3] : List ℚ) = [2, 1 / 500000000000, 999999999999 / 500000000000] := by
  decide +kernel

/-- with an adsorbed layer as well: `distribution × Δw = V` entry by entry on widths 10⁻¹² apart -/
example :
    let r : Result ℚ := pygapsDH 3 [1, 2, 4, 5] [1 / 2, 3 / 5, 3 / 5 + 1 / 1000000000000, 7 / 10] [1, 2, 2 + 1 / 1000000000000, 3]
    List.zipWith (· * ·) r.distribution
      (increments (fullWidths [1 / 2, 3 / 5, 3 / 5 + 1 / 1000000000000, 7 / 10] [1, 2, 2 + 1 / 1000000000000, 3])) = r.volumes ∧
    r.volumes.all (· ≠ 0) ∧ r.distribution.all (· ≠ 0) := by
  decide +kernel

end Examples

end PgVerif.Props.C16.Boundary
