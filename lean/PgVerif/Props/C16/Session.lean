/-
C16, the isotherm entry point and sessions of analyses (`Model/MesoSession.lean`).

Part D: what one call of `psd_mesoporous` returns, in terms of the property set it is GIVEN: widths are `2 (r_K + t)` with the Kelvin
        radii of that property set (tied to the generated `kelvin_radius`, which obeys the Kelvin equation), zero-thickness volumes are the
        successive changes of the liquid volume computed with that property set, the cumulative curve ends at its last value.
Part E: sessions.  An analysis reads the property set the isotherm's adsorbate object has AT THE TIME OF THE CALL (after
        re-registration under the same name, after in-place edits) and changes nothing, so the result of an analysis does not depend
        on which analyses were run before it.
-/
import Mathlib.Tactic
import Mathlib.Algebra.Order.Field.Rat
import PgVerif.Gen.CharR
import PgVerif.Model.MesoSession
import PgVerif.Props.C16
import PgVerif.Props.C16.Tabulated

set_option linter.unusedSectionVars false

namespace PgVerif.Props.C16.Session
open PgVerif.Model.Meso PgVerif.Model.Linear PgVerif.Model.MesoSession PgVerif.Props.C16

/-! ## D. one analysis -/

section Analysis

variable {α : Type} [Field α]

/-- the shape of every reported width list: `2 (t + r)` at all but the top pressure -/
theorem method_widths (name g : String) (vol thick kelvin : List α) (r : Result α)
    (h : method name g vol thick kelvin = some r) (hl : thick.length = kelvin.length) :
    r.widths = (List.zipWith (fun t k => 2 * (t + k)) thick kelvin).dropLast := by
  have hcomm : (fun (t k : α) => (t + k) * 2) = (fun t k => 2 * (t + k)) := by
    funext t k; ring
  unfold method at h
  split_ifs at h with h1 h2 h3 h4 h5
  · cases hc : cLength g with
    | none => rw [hc] at h; exact absurd h (by simp)
    | some c =>
      rw [hc] at h
      simp only [Option.map_some, Option.some.injEq] at h
      rw [← h]; exact widths_spec_pygapsDH c vol thick kelvin hl
  · simp only [Option.some.injEq] at h
    rw [← h, widths_spec_bjh vol thick kelvin hl, hcomm]
  · simp only [Option.some.injEq] at h
    rw [← h, widths_spec_dollimoreHeal vol thick kelvin hl, hcomm]

/-- with a zero-thickness layer every method returns the successive changes of the volume it is given -/
theorem method_zero_thickness_volumes [LinearOrder α] [IsStrictOrderedRing α] (name g : String) (n : Nat)
    (vol thick kelvin : List α) (r : Result α) (h : method name g vol thick kelvin = some r)
    (hthick : thick = List.replicate n 0) (hk : kelvin.length = n) (hv : vol.length = n) (hpos : ∀ k ∈ kelvin, 0 < k) :
    r.volumes = succDiff vol := by
  unfold method at h
  split_ifs at h with h1 h2 h3 h4 h5
  · cases hc : cLength g with
    | none => rw [hc] at h; exact absurd h (by simp)
    | some c =>
      rw [hc] at h
      simp only [Option.map_some, Option.some.injEq] at h
      rw [← h]; exact zero_thickness_volumes_pygapsDH c n vol thick kelvin hthick hk hv hpos
  · simp only [Option.some.injEq] at h
    rw [← h]; exact zero_thickness_volumes_bjh n vol thick kelvin hthick hk hv hpos
  · simp only [Option.some.injEq] at h
    rw [← h]; exact zero_thickness_volumes_dollimoreHeal n vol thick kelvin hthick hk hv hpos

variable [LinearOrder α]

/-- what `analysis … = some r` means: the window is the one `mesoWindow` selects and the result is the method's result on the
sliced arrays computed from the property set `a` -/
theorem analysis_some (R c10 c99 : α) (a : AdsProps α) (d : IsoData α) (q : Request α) (r : Analysis α)
    (h : analysis R c10 c99 a d q = some r) :
    mesoWindow d.pressure c10 c99 q.limits = some r.window ∧
    method q.method q.geometry (slice (d.loading.map (liquidVolume d.massBasis a)) r.window) (slice q.thick r.window)
      (kelvinRadii R a d.temperature q (slice q.lnp r.window)) = some r.result ∧
    r.cumulative = cumulative r.result.volumes (slice (d.loading.map (liquidVolume d.massBasis a)) r.window) := by
  unfold analysis at h
  cases hw : mesoWindow d.pressure c10 c99 q.limits with
  | none => rw [hw] at h; exact absurd h (by simp)
  | some w =>
    rw [hw] at h
    simp only [] at h
    cases hm : method q.method q.geometry (slice (d.loading.map (liquidVolume d.massBasis a)) w) (slice q.thick w)
        (kelvinRadii R a d.temperature q (slice q.lnp w)) with
    | none => rw [hm] at h; exact absurd h (by simp)
    | some res =>
      rw [hm] at h
      simp only [Option.some.injEq] at h
      subst h
      exact ⟨rfl, hm, rfl⟩

/-- D1. reported widths are twice (thickness + Kelvin radius of the property set the call is given) at the pressures used,
all but the highest -/
theorem analysis_widths (R c10 c99 : α) (a : AdsProps α) (d : IsoData α) (q : Request α) (r : Analysis α)
    (h : analysis R c10 c99 a d q = some r)
    (hl : (slice q.thick r.window).length = (slice q.lnp r.window).length) :
    r.result.widths = (List.zipWith (fun t k => 2 * (t + k)) (slice q.thick r.window)
      (kelvinRadii R a d.temperature q (slice q.lnp r.window))).dropLast := by
  obtain ⟨-, hm, -⟩ := analysis_some R c10 c99 a d q r h
  refine method_widths _ _ _ _ _ _ hm ?_
  unfold kelvinRadii
  split_ifs <;> simp [hl]

/-- D2. zero thickness: the pore volumes are the successive changes of the liquid volume computed from the amounts the isotherm
holds with the property set the call is given -/
theorem analysis_zero_thickness_volumes [IsStrictOrderedRing α] (R c10 c99 : α) (a : AdsProps α) (d : IsoData α)
    (q : Request α) (r : Analysis α) (n : Nat) (h : analysis R c10 c99 a d q = some r)
    (hthick : slice q.thick r.window = List.replicate n 0) (hk : (slice q.lnp r.window).length = n)
    (hv : (slice (d.loading.map (liquidVolume d.massBasis a)) r.window).length = n)
    (hpos : ∀ k ∈ kelvinRadii R a d.temperature q (slice q.lnp r.window), 0 < k) :
    r.result.volumes = succDiff (slice (d.loading.map (liquidVolume d.massBasis a)) r.window) := by
  obtain ⟨-, hm, -⟩ := analysis_some R c10 c99 a d q r h
  refine method_zero_thickness_volumes _ _ n _ _ _ _ hm hthick ?_ hv hpos
  unfold kelvinRadii
  split_ifs <;> simp [hk]

/-- D3. the cumulative curve ends at the liquid volume (current property set) at the highest pressure used -/
theorem analysis_cumulative_last (R c10 c99 : α) (a : AdsProps α) (d : IsoData α) (q : Request α) (r : Analysis α)
    (h : analysis R c10 c99 a d q = some r) (hne : r.result.volumes ≠ []) :
    r.cumulative.getLastD 0 = (slice (d.loading.map (liquidVolume d.massBasis a)) r.window).getLastD 0 := by
  obtain ⟨-, -, hc⟩ := analysis_some R c10 c99 a d q r h
  rw [hc]; exact cumulative_last _ _ hne

/-- D4. for a self-consistent property set (`liquid_molar_density = liquid_density / molar_mass`) a molar amount `n` mmol/g
is `n · M / ρ / 1000` cm3/g of liquid, a mass amount `m` mg/g is `m / ρ / 1000` -/
theorem liquidVolume_consistent (a : AdsProps α) (n : α) (hM : a.molarMass ≠ 0) (hρ : a.liquidDensity ≠ 0)
    (hc : a.liquidMolarDensity = a.liquidDensity / a.molarMass) :
    liquidVolume false a n = n * a.molarMass / a.liquidDensity / 1000 ∧
    liquidVolume true a n = n / a.liquidDensity / 1000 := by
  unfold liquidVolume
  simp only [Bool.false_eq_true, if_false, if_true, hc]
  constructor <;> field_simp

/-- D5. Kelvin radii of a physical property set at pressures below saturation (`ln p < 0`) are positive -/
theorem kelvinRadius_pos [IsStrictOrderedRing α] (R f T : α) (a : AdsProps α) (lnp : α) (hR : 0 < R) (hf : 0 < f) (hT : 0 < T)
    (hγ : 0 < a.surfaceTension) (hM : 0 < a.molarMass) (hρ : 0 < a.liquidDensity) (hl : lnp < 0) :
    0 < kelvinRadius R f T a lnp := by
  unfold kelvinRadius
  have h1 : 0 < (2 * a.surfaceTension) * (a.molarMass / a.liquidDensity) := by positivity
  have h2 : ((f * R) * T) * lnp < 0 := mul_neg_of_pos_of_neg (by positivity) hl
  exact div_pos_of_neg_of_neg (by linarith) h2

/-- D5'. the Kelvin radius is inversely proportional to the temperature argument: `r(T) · T = r(T') · T'` (both temperatures non-zero;
with the totalised division this also holds when `f R ln p = 0`, where both radii are `0`) -/
theorem kelvinRadius_mul_temperature (R f T T' : α) (a : AdsProps α) (lnp : α) (hT : T ≠ 0) (hT' : T' ≠ 0) :
    kelvinRadius R f T a lnp * T = kelvinRadius R f T' a lnp * T' := by
  unfold kelvinRadius
  by_cases h : (f * R) * lnp = 0
  · have e : ∀ x : α, ((f * R) * x) * lnp = ((f * R) * lnp) * x := fun x => by ring
    rw [e T, e T', h]; simp
  · have hf : f * R ≠ 0 := left_ne_zero_of_mul h
    have hl : lnp ≠ 0 := right_ne_zero_of_mul h
    field_simp

/-- D5''. the temperature the Kelvin model receives must be the ABSOLUTE temperature of the experiment, whatever number the isotherm
stores: for a physical property set below saturation, the radius computed with the stored number `T − c` of another temperature scale
(`c ≠ 0`; `c = 273.15` for °C) is never the radius at `T` — also when the stored number is `0` (0 °C: the totalised division gives `0`,
the true radius is positive) or negative (cryogenic experiments in °C: the "radius" is negative, see `kelvinRadius_neg_of_stored_neg`).
So a pore width computed from the stored number differs from `2 (r_K(T) + t)` at EVERY pressure: the representation-invariance
oracle of the harness (same isotherm stored in K and in °C) observes exactly this. -/
theorem kelvinRadius_stored_scale_ne [IsStrictOrderedRing α] (R f T c : α) (a : AdsProps α) (lnp : α)
    (hR : 0 < R) (hf : 0 < f) (hT : 0 < T) (hγ : 0 < a.surfaceTension) (hM : 0 < a.molarMass) (hρ : 0 < a.liquidDensity)
    (hl : lnp < 0) (hc : c ≠ 0) :
    kelvinRadius R f (T - c) a lnp ≠ kelvinRadius R f T a lnp := by
  have hpos := kelvinRadius_pos R f T a lnp hR hf hT hγ hM hρ hl
  intro heq
  by_cases h0 : T - c = 0
  · have hz : kelvinRadius R f (T - c) a lnp = 0 := by
      unfold kelvinRadius; rw [h0]; simp
    rw [hz] at heq; exact absurd heq.symm (ne_of_gt hpos)
  · have hm := kelvinRadius_mul_temperature R f (T - c) T a lnp h0 (ne_of_gt hT)
    rw [heq] at hm
    have : T - c = T := mul_left_cancel₀ (ne_of_gt hpos) hm
    exact hc (by linarith)

/-- D5'''. a negative stored number (a cryogenic temperature written in °C) turns every Kelvin radius negative -/
theorem kelvinRadius_neg_of_stored_neg [IsStrictOrderedRing α] (R f T : α) (a : AdsProps α) (lnp : α)
    (hR : 0 < R) (hf : 0 < f) (hT : T < 0) (hγ : 0 < a.surfaceTension) (hM : 0 < a.molarMass) (hρ : 0 < a.liquidDensity)
    (hl : lnp < 0) :
    kelvinRadius R f T a lnp < 0 := by
  unfold kelvinRadius
  have h1 : 0 < (2 * a.surfaceTension) * (a.molarMass / a.liquidDensity) := by positivity
  have h2 : 0 < ((f * R) * T) * lnp := mul_pos_of_neg_of_neg (mul_neg_of_pos_of_neg (by positivity) hT) hl
  exact div_neg_of_neg_of_pos (by linarith) h2

/-- non-vacuity: nitrogen-like numbers at 77 K, stored as −196.15 °C, `ln p = −1/2` -/
example : kelvinRadius (8 : ℚ) 2 (77 - 27315 / 100) ⟨28, 4 / 5, 9, 1 / 35⟩ (-1 / 2) ≠ kelvinRadius (8 : ℚ) 2 77 ⟨28, 4 / 5, 9, 1 / 35⟩ (-1 / 2) :=
  kelvinRadius_stored_scale_ne 8 2 77 (27315 / 100) ⟨28, 4 / 5, 9, 1 / 35⟩ (-1 / 2) (by norm_num) (by norm_num) (by norm_num)
    (by norm_num) (by norm_num) (by norm_num) (by norm_num) (by norm_num)

end Analysis

/-! ## D'. ties to the formulas generated from the source -/

section Ties

open PgVerif.Gen.CharR

/-- the gas constant of the model as a real number -/
noncomputable def Rmodel : ℝ := (gasConstant.1 : ℝ) / (gasConstant.2 : ℝ)

theorem Rmodel_eq : Rmodel = Rgas := by
  unfold Rmodel Rgas gasConstant; norm_num

/-- D6. the model's Kelvin radius with `lnp = ln p` IS the generated `kelvin_radius` on the molar volume `M / ρ` of the same property set -/
theorem kelvinRadius_eq_gen (f T : ℝ) (a : AdsProps ℝ) (p : ℝ) :
    kelvinRadius Rmodel f T a (Real.log p)
      = kelvin_radius p T a.surfaceTension (kelvin_molar_density a.liquidDensity a.molarMass) f := by
  rw [Rmodel_eq]
  unfold kelvinRadius kelvin_radius kelvin_molar_density Rgas
  rfl

/-- D6'. the same for the KJS variant -/
theorem kelvinRadiusKJS_eq_gen (T : ℝ) (a : AdsProps ℝ) (p : ℝ) :
    kelvinRadiusKJS Rmodel T a (Real.log p)
      = kelvin_radius_kjs p T a.surfaceTension (kelvin_molar_density a.liquidDensity a.molarMass) := by
  rw [Rmodel_eq]
  unfold kelvinRadiusKJS kelvin_radius_kjs kelvin_molar_density Rgas
  rfl

/-- D7. hence the radii an analysis uses obey the Kelvin equation for the property set it is given:
`ln p = − 2 γ (M/ρ) / (f R T r)`, `r > 0`, on `0 < p < 1` -/
theorem analysis_kelvin_equation (f T : ℝ) (a : AdsProps ℝ) (p : ℝ) (hp : 0 < p) (hp1 : p < 1) (hT : 0 < T) (hf : 0 < f)
    (hγ : 0 < a.surfaceTension) (hM : 0 < a.molarMass) (hρ : 0 < a.liquidDensity) :
    0 < kelvinRadius Rmodel f T a (Real.log p) ∧
    Real.log p = -(2 * a.surfaceTension * (a.molarMass / a.liquidDensity))
      / (f * Rgas * T * kelvinRadius Rmodel f T a (Real.log p)) := by
  rw [kelvinRadius_eq_gen]
  exact kelvin_equation p T a.surfaceTension (kelvin_molar_density a.liquidDensity a.molarMass) f hp hp1 hT hγ
    (by unfold kelvin_molar_density; positivity) hf

/-- D8. the nodes of a standard thickness curve are `convert_to_thickness(n, monolayer)` of the source -/
theorem thicknessTable_eq_gen (monolayer : ℝ) (ps ns : List ℝ) :
    thicknessTable ((layerThickness.1 : ℝ) / (layerThickness.2 : ℝ)) monolayer ps ns
      = List.zipWith (fun p n => (p, convert_to_thickness n monolayer)) ps ns := by
  unfold thicknessTable convert_to_thickness layerThickness
  norm_num

/-- D9. with a tabulated standard thickness curve (increasing pressures, non-decreasing non-negative loadings) the reported widths
`2 (t + r_K)` increase strictly with pressure on (0,1), as for the closed-form thickness models -/
theorem width_strictMono_standard (monolayer : ℝ) (ps ns : List ℝ) (hmono : 0 < monolayer)
    (hp : ps.Pairwise (· < ·)) (hn : ns.Pairwise (· ≤ ·)) (h0 : ∀ n ∈ ns, 0 ≤ n)
    (T γ Vm f : ℝ) (hT : 0 < T) (hγ : 0 < γ) (hVm : 0 < Vm) (hf : 0 < f) :
    StrictMonoOn (fun p => 2 * (standardThickness ((layerThickness.1 : ℝ) / (layerThickness.2 : ℝ)) monolayer ps ns p
      + kelvin_radius p T γ Vm f)) (Set.Ioo 0 1) :=
  width_strictMono_of_monotoneOn _
    ((Tabulated.standardThickness_monotone _ monolayer ps ns (by unfold layerThickness; norm_num) hmono hp hn h0).monotoneOn _)
    T γ Vm f hT hγ hVm hf

end Ties

/-! ## E. sessions -/

section Sessions

variable {α : Type} [Field α] [LinearOrder α]

lemma step_analyse (R c10 c99 : α) (s : State α) (i : Nat) (q : Request α) :
    step R c10 c99 s (.analyse i q)
      = match s.propsOf i with
        | none => (s, .refused)
        | some (a, d) =>
          match analysis R c10 c99 a d q with
          | none => (s, .refused)
          | some r => (s, .result r) := rfl

lemma step_edit (R c10 c99 : α) (s : State α) (obj : Nat) (p : AdsProps α) :
    step R c10 c99 s (.edit obj p)
      = if obj < s.heap.length then ({ s with heap := s.heap.set obj p }, .done obj) else (s, .refused) := rfl

/-- E1. an analysis changes nothing -/
theorem analyse_state (R c10 c99 : α) (s : State α) (i : Nat) (q : Request α) :
    (step R c10 c99 s (.analyse i q)).1 = s := by
  rw [step_analyse]
  split
  · rfl
  · split <;> rfl

/-- E2. an analysis is `analysis` on the property set that the isotherm's adsorbate object has in the heap NOW -/
theorem analyse_reads_current (R c10 c99 : α) (s : State α) (i : Nat) (q : Request α) (a : AdsProps α) (d : IsoData α)
    (h : s.propsOf i = some (a, d)) (r : Analysis α) :
    (step R c10 c99 s (.analyse i q)).2 = .result r ↔ analysis R c10 c99 a d q = some r := by
  rw [step_analyse, h]
  simp only []
  cases analysis R c10 c99 a d q with
  | none => simp
  | some r' => simp

/-- `run` over a concatenation -/
theorem run_append (R c10 c99 : α) (s : State α) (ops₁ ops₂ : List (Op α)) :
    run R c10 c99 s (ops₁ ++ ops₂)
      = ((run R c10 c99 (run R c10 c99 s ops₁).1 ops₂).1, (run R c10 c99 s ops₁).2 ++ (run R c10 c99 (run R c10 c99 s ops₁).1 ops₂).2) := by
  induction ops₁ generalizing s with
  | nil => simp [run]
  | cons op ops ih =>
    simp only [List.cons_append, run]
    rw [ih]

/-- E3. history independence: inserting an analysis anywhere in a session changes neither the final state nor the output of any
other operation — in particular the results of all later analyses -/
theorem run_insert_analysis (R c10 c99 : α) (s : State α) (ops₁ ops₂ : List (Op α)) (i : Nat) (q : Request α) :
    (run R c10 c99 s (ops₁ ++ Op.analyse i q :: ops₂)).1 = (run R c10 c99 s (ops₁ ++ ops₂)).1 ∧
    (run R c10 c99 s (ops₁ ++ Op.analyse i q :: ops₂)).2
      = (run R c10 c99 s ops₁).2 ++ (step R c10 c99 (run R c10 c99 s ops₁).1 (.analyse i q)).2
          :: (run R c10 c99 (run R c10 c99 s ops₁).1 ops₂).2 ∧
    (run R c10 c99 s (ops₁ ++ ops₂)).2 = (run R c10 c99 s ops₁).2 ++ (run R c10 c99 (run R c10 c99 s ops₁).1 ops₂).2 := by
  rw [run_append, run_append]
  simp only [run]
  rw [analyse_state]
  simp

/-- E4. after an in-place edit of the object an isotherm holds, that isotherm sees the new property set -/
theorem edit_then_propsOf (R c10 c99 : α) (s : State α) (i obj : Nat) (d : IsoData α) (p : AdsProps α)
    (hi : s.isos[i]? = some (obj, d)) (ho : obj < s.heap.length) :
    ((step R c10 c99 s (.edit obj p)).1).propsOf i = some (p, d) := by
  rw [step_edit, if_pos ho]
  simp only [State.propsOf, hi, List.getElem?_set_self ho, Option.map_some]

/-- E4'. … and isotherms that hold other objects are not affected -/
theorem edit_other_propsOf (R c10 c99 : α) (s : State α) (i obj obj' : Nat) (d : IsoData α) (p : AdsProps α)
    (hi : s.isos[i]? = some (obj', d)) (hne : obj ≠ obj') :
    ((step R c10 c99 s (.edit obj p)).1).propsOf i = s.propsOf i := by
  rw [step_edit]
  split_ifs with ho
  · simp only [State.propsOf, hi, List.getElem?_set_ne hne]
  · rfl

lemma find_filter_ne (reg : List (String × Nat)) (name : String) :
    find (reg.filter (fun e => !(e.1 == name))) name = none := by
  unfold find
  rw [Option.map_eq_none_iff, List.find?_eq_none]
  intro e he
  have := (List.mem_filter.mp he).2
  simpa using this

lemma find_append_new (reg : List (String × Nat)) (name : String) (id : Nat) (h : find reg name = none) :
    find (reg ++ [(name, id)]) name = some id := by
  unfold find at h ⊢
  rw [Option.map_eq_none_iff] at h
  rw [List.find?_append, h]
  simp

/-- E5. re-registration under the same name: after removing the name from the list and storing a new object, an isotherm built by
name holds the NEW object and an analysis of it reads the NEW property set -/
theorem reregister_then_iso_sees_new (R c10 c99 : α) (s : State α) (name : String) (p : AdsProps α) (d : IsoData α) :
    let s₃ := (run R c10 c99 s [.unregister name, .create name p true, .newIso name d]).1
    s₃.propsOf s.isos.length = some (p, d) := by
  simp only [run, step]
  have h1 := find_filter_ne s.registry name
  simp only [h1, Option.isNone_none, Bool.and_self, if_true]
  rw [find_append_new _ _ _ h1]
  simp [State.propsOf]

/-- E6. (as the library behaves) `Adsorbate(name, store=True)` while an object of that name is in the list does not replace it:
isotherms built by name keep getting the first object -/
theorem create_existing_name_keeps_first (R c10 c99 : α) (s : State α) (name : String) (p : AdsProps α) (obj : Nat)
    (h : find s.registry name = some obj) :
    find ((step R c10 c99 s (.create name p true)).1).registry name = some obj := by
  simp [step, h]

end Sessions

/-! ## F. non-vacuity -/

section Examples

def exA : AdsProps ℚ := ⟨40, 7 / 5, 25 / 2, 7 / 200⟩
def exB : AdsProps ℚ := ⟨28, 4 / 5, 44 / 5, 1 / 35⟩
def exIso : IsoData ℚ := ⟨87, [1 / 10, 2 / 10, 3 / 10, 5 / 10, 7 / 10, 9 / 10], false, [1, 2, 3, 5, 6, 7]⟩
def exReq : Request ℚ := ⟨"pygaps-DH", "cylinder", 2, false, some (none, none), [0, 0, 0, 0, 0, 0],
  [-23 / 10, -16 / 10, -12 / 10, -7 / 10, -36 / 100, -1 / 10]⟩

/-- both property sets are self-consistent -/
example : exA.liquidMolarDensity = exA.liquidDensity / exA.molarMass ∧ exB.liquidMolarDensity = exB.liquidDensity / exB.molarMass := by
  decide +kernel

/-- the same isotherm analysed before and after an in-place edit A → B: the volumes follow the current property set -/
example :
    ((run (1 : ℚ) (1 / 10) (99 / 100) State.empty
      [.create "gas" exA true, .newIso "gas" exIso, .analyse 0 exReq, .edit 0 exB, .analyse 0 exReq]).2.map
        (fun o => match o with | .result r => r.result.volumes | _ => []))
      = [[], [], [1 / 35, 1 / 35, 2 / 35, 1 / 35, 1 / 35], [], [7 / 200, 7 / 200, 7 / 100, 7 / 200, 7 / 200]] := by
  decide +kernel

end Examples

end PgVerif.Props.C16.Session
