/-
C16, the tabulated thickness curves (`models_thickness.load_std_isotherm` / `SiO2_JKO` / `CB_KJG`), model `MesoSession.tabulated`
(= `interp1d(kind="slinear", fill_value=(below, last), bounds_error=False)`), over an arbitrary ordered field.

For a table with strictly increasing pressures and non-decreasing values: the curve passes through the nodes, is linear on every
segment, is `below` under the first node and the last value above the last node, stays between the first and the last value, and is
monotone — so that (Props/C16.lean `width_strictMono_of_monotoneOn`) the reported widths `2 (t + r_K)` still increase with pressure.
-/
import Mathlib.Tactic
import Mathlib.Algebra.Order.Field.Rat
import PgVerif.Model.MesoSession

set_option linter.unusedSectionVars false

namespace PgVerif.Props.C16.Tabulated
open PgVerif.Model.MesoSession

variable {α : Type} [Field α] [LinearOrder α] [IsStrictOrderedRing α]

/-- strictly increasing nodes -/
def SortedX (tab : List (α × α)) : Prop := (tab.map Prod.fst).Pairwise (· < ·)

/-- non-decreasing values -/
def MonoY (tab : List (α × α)) : Prop := (tab.map Prod.snd).Pairwise (· ≤ ·)

/-- the straight line through two nodes -/
def lin (a b : α × α) (x : α) : α := a.2 + (x - a.1) * (b.2 - a.2) / (b.1 - a.1)

/-- the value at or above the first node -/
def inside (below : α) (tab : List (α × α)) (x : α) : α :=
  (interpSeg tab x).getD ((tab.getLast?.map (·.2)).getD below)

/-! ### the line -/

lemma lin_left (a b : α × α) : lin a b a.1 = a.2 := by
  unfold lin; simp

lemma lin_right (a b : α × α) (h : a.1 < b.1) : lin a b b.1 = b.2 := by
  unfold lin
  have : b.1 - a.1 ≠ 0 := (sub_pos.mpr h).ne'
  field_simp
  ring

lemma lin_mono (a b : α × α) (hx : a.1 < b.1) (hy : a.2 ≤ b.2) {x x' : α} (h : x ≤ x') : lin a b x ≤ lin a b x' := by
  unfold lin
  have hd : 0 < b.1 - a.1 := sub_pos.mpr hx
  have hs : 0 ≤ b.2 - a.2 := sub_nonneg.mpr hy
  have : (x - a.1) * (b.2 - a.2) ≤ (x' - a.1) * (b.2 - a.2) := mul_le_mul_of_nonneg_right (by linarith) hs
  have := div_le_div_of_nonneg_right this hd.le
  linarith

lemma lin_ge (a b : α × α) (hx : a.1 < b.1) (hy : a.2 ≤ b.2) {x : α} (h : a.1 ≤ x) : a.2 ≤ lin a b x := by
  have := lin_mono a b hx hy h
  rwa [lin_left] at this

lemma lin_le (a b : α × α) (hx : a.1 < b.1) (hy : a.2 ≤ b.2) {x : α} (h : x ≤ b.1) : lin a b x ≤ b.2 := by
  have := lin_mono a b hx hy h
  rwa [lin_right a b hx] at this

/-! ### unfolding -/

lemma inside_single (below : α) (a : α × α) (x : α) : inside below [a] x = a.2 := by
  simp [inside, interpSeg]

lemma inside_cons_cons (below : α) (a b : α × α) (r : List (α × α)) (x : α) :
    inside below (a :: b :: r) x = if x ≤ b.1 then lin a b x else inside below (b :: r) x := by
  unfold inside
  rw [List.getLast?_cons_cons]
  simp only [interpSeg, lin]
  split_ifs <;> simp

lemma tabulated_cons (below : α) (a : α × α) (r : List (α × α)) (x : α) :
    tabulated below (a :: r) x = if x < a.1 then below else inside below (a :: r) x := rfl

lemma sortedX_cons {a : α × α} {r : List (α × α)} (h : SortedX (a :: r)) : (∀ n ∈ r, a.1 < n.1) ∧ SortedX r := by
  unfold SortedX at h ⊢
  rw [List.map_cons, List.pairwise_cons] at h
  exact ⟨fun n hn => h.1 n.1 (List.mem_map_of_mem hn), h.2⟩

lemma monoY_cons {a : α × α} {r : List (α × α)} (h : MonoY (a :: r)) : (∀ n ∈ r, a.2 ≤ n.2) ∧ MonoY r := by
  unfold MonoY at h ⊢
  rw [List.map_cons, List.pairwise_cons] at h
  exact ⟨fun n hn => h.1 n.2 (List.mem_map_of_mem hn), h.2⟩

/-! ### bounds and monotonicity at or above the first node -/

lemma inside_ge (below : α) (r : List (α × α)) : ∀ (a : α × α) (x : α), SortedX (a :: r) → MonoY (a :: r) → a.1 ≤ x →
    a.2 ≤ inside below (a :: r) x := by
  induction r with
  | nil => intro a x _ _ _; rw [inside_single]
  | cons b r ih =>
    intro a x hs hm hx
    obtain ⟨hs1, hs2⟩ := sortedX_cons hs
    obtain ⟨hm1, hm2⟩ := monoY_cons hm
    have hab := hs1 b (by simp)
    have hyab := hm1 b (by simp)
    rw [inside_cons_cons]
    split_ifs with h
    · exact lin_ge a b hab hyab hx
    · exact hyab.trans (ih b x hs2 hm2 (not_le.mp h).le)

lemma inside_le_last (below : α) (r : List (α × α)) : ∀ (a : α × α) (x : α), SortedX (a :: r) → MonoY (a :: r) →
    inside below (a :: r) x ≤ ((a :: r).getLast (by simp)).2 := by
  induction r with
  | nil => intro a x _ _; rw [inside_single]; simp
  | cons b r ih =>
    intro a x hs hm
    obtain ⟨hs1, hs2⟩ := sortedX_cons hs
    obtain ⟨hm1, hm2⟩ := monoY_cons hm
    have hab := hs1 b (by simp)
    have hyab := hm1 b (by simp)
    rw [inside_cons_cons, List.getLast_cons_cons]
    split_ifs with h
    · refine (lin_le a b hab hyab h).trans ?_
      have hl : (b :: r).getLast (by simp) ∈ b :: r := List.getLast_mem _
      rcases List.mem_cons.mp hl with he | hr
      · rw [he]
      · exact (monoY_cons hm2).1 _ hr
    · exact ih b x hs2 hm2

lemma inside_mono (below : α) (r : List (α × α)) : ∀ (a : α × α) (x x' : α), SortedX (a :: r) → MonoY (a :: r) →
    a.1 ≤ x → x ≤ x' → inside below (a :: r) x ≤ inside below (a :: r) x' := by
  induction r with
  | nil => intro a x x' _ _ _ _; rw [inside_single, inside_single]
  | cons b r ih =>
    intro a x x' hs hm hx hxx
    obtain ⟨hs1, hs2⟩ := sortedX_cons hs
    obtain ⟨hm1, hm2⟩ := monoY_cons hm
    have hab := hs1 b (by simp)
    have hyab := hm1 b (by simp)
    rw [inside_cons_cons, inside_cons_cons]
    by_cases h : x ≤ b.1
    · by_cases h' : x' ≤ b.1
      · rw [if_pos h, if_pos h']; exact lin_mono a b hab hyab hxx
      · rw [if_pos h, if_neg h']
        exact (lin_le a b hab hyab h).trans (inside_ge below r b x' hs2 hm2 (not_le.mp h').le)
    · have h' : ¬ x' ≤ b.1 := fun hc => h (hxx.trans hc)
      rw [if_neg h, if_neg h']
      exact ih b x x' hs2 hm2 (not_le.mp h).le hxx

lemma inside_at_node (below : α) (r : List (α × α)) : ∀ (a : α × α), SortedX (a :: r) → ∀ n ∈ a :: r,
    inside below (a :: r) n.1 = n.2 := by
  induction r with
  | nil =>
    intro a _ n hn
    rw [inside_single]
    simp only [List.mem_singleton] at hn
    rw [hn]
  | cons b r ih =>
    intro a hs n hn
    obtain ⟨hs1, hs2⟩ := sortedX_cons hs
    have hab := hs1 b (by simp)
    rw [inside_cons_cons]
    rcases List.mem_cons.mp hn with he | hr
    · rw [he, if_pos hab.le, lin_left]
    · rcases List.mem_cons.mp hr with hb | hr'
      · rw [hb, if_pos le_rfl, lin_right a b hab]
      · have : b.1 < n.1 := (sortedX_cons hs2).1 n hr'
        rw [if_neg (not_le.mpr this)]
        exact ih b hs2 n hr

lemma inside_above (below : α) (r : List (α × α)) : ∀ (a : α × α) (x : α), SortedX (a :: r) →
    ((a :: r).getLast (by simp)).1 < x → inside below (a :: r) x = ((a :: r).getLast (by simp)).2 := by
  induction r with
  | nil => intro a x _ _; rw [inside_single]; simp
  | cons b r ih =>
    intro a x hs hx
    obtain ⟨-, hs2⟩ := sortedX_cons hs
    rw [List.getLast_cons_cons] at hx ⊢
    have hl : (b :: r).getLast (by simp) ∈ b :: r := List.getLast_mem _
    have hb : b.1 ≤ ((b :: r).getLast (by simp)).1 := by
      rcases List.mem_cons.mp hl with he | hr
      · rw [he]
      · exact ((sortedX_cons hs2).1 _ hr).le
    rw [inside_cons_cons, if_neg (not_le.mpr (hb.trans_lt hx))]
    exact ih b x hs2 hx

/-! ### the theorems -/

/-- T1. under the first node the curve is the lower fill value -/
theorem tabulated_below (below : α) (a : α × α) (r : List (α × α)) (x : α) (h : x < a.1) :
    tabulated below (a :: r) x = below := by
  rw [tabulated_cons, if_pos h]

/-- T2. above the last node it is the last value -/
theorem tabulated_above (below : α) (tab : List (α × α)) (hne : tab ≠ []) (hs : SortedX tab) (x : α)
    (h : (tab.getLast hne).1 < x) : tabulated below tab x = (tab.getLast hne).2 := by
  cases tab with
  | nil => exact absurd rfl hne
  | cons a r =>
    have hl : (a :: r).getLast hne ∈ a :: r := List.getLast_mem _
    have ha : a.1 ≤ ((a :: r).getLast hne).1 := by
      rcases List.mem_cons.mp hl with he | hr
      · rw [he]
      · exact ((sortedX_cons hs).1 _ hr).le
    rw [tabulated_cons, if_neg (not_lt.mpr (ha.trans h.le))]
    exact inside_above below r a x hs h

/-- T3. the curve passes through every node -/
theorem tabulated_at_node (below : α) (tab : List (α × α)) (hs : SortedX tab) (n : α × α) (hn : n ∈ tab) :
    tabulated below tab n.1 = n.2 := by
  cases tab with
  | nil => simp at hn
  | cons a r =>
    have ha : a.1 ≤ n.1 := by
      rcases List.mem_cons.mp hn with he | hr
      · rw [he]
      · exact ((sortedX_cons hs).1 _ hr).le
    rw [tabulated_cons, if_neg (not_lt.mpr ha)]
    exact inside_at_node below r a hs n hn

/-- T4. at or above the first node the curve stays between the first and the last value -/
theorem tabulated_between (below : α) (a : α × α) (r : List (α × α)) (hs : SortedX (a :: r)) (hm : MonoY (a :: r)) (x : α)
    (hx : a.1 ≤ x) :
    a.2 ≤ tabulated below (a :: r) x ∧ tabulated below (a :: r) x ≤ ((a :: r).getLast (by simp)).2 := by
  rw [tabulated_cons, if_neg (not_lt.mpr hx)]
  exact ⟨inside_ge below r a x hs hm hx, inside_le_last below r a x hs hm⟩

/-- T5. a table with increasing pressures and non-decreasing values whose first value is not under the lower fill value gives
a monotone curve -/
theorem tabulated_monotone (below : α) (tab : List (α × α)) (hs : SortedX tab) (hm : MonoY tab)
    (hb : ∀ a ∈ tab.head?, below ≤ a.2) : Monotone (tabulated below tab) := by
  intro x x' hxx
  cases tab with
  | nil => exact le_rfl
  | cons a r =>
    have hba : below ≤ a.2 := hb a (by simp)
    simp only [tabulated_cons]
    by_cases h : x < a.1
    · by_cases h' : x' < a.1
      · rw [if_pos h, if_pos h']
      · rw [if_pos h, if_neg h']
        exact hba.trans (inside_ge below r a x' hs hm (not_lt.mp h'))
    · have h' : ¬ x' < a.1 := fun hc => h (hxx.trans_lt hc)
      rw [if_neg h, if_neg h']
      exact inside_mono below r a x x' hs hm (not_lt.mp h) hxx

/-- T6. between two neighbouring nodes the curve is the straight line through them ("slinear") -/
theorem tabulated_linear_on_segment (below : α) (pre post : List (α × α)) (a b : α × α) (x : α)
    (hs : SortedX (pre ++ a :: b :: post)) (hax : a.1 ≤ x) (hxb : x ≤ b.1) :
    tabulated below (pre ++ a :: b :: post) x = a.2 + (x - a.1) * (b.2 - a.2) / (b.1 - a.1) := by
  have key : ∀ (pre : List (α × α)), SortedX (pre ++ a :: b :: post) →
      inside below (pre ++ a :: b :: post) x = lin a b x := by
    intro pre
    induction pre with
    | nil => intro _; rw [List.nil_append, inside_cons_cons, if_pos hxb]
    | cons c pre ih =>
      intro hs
      obtain ⟨hs1, hs2⟩ := sortedX_cons hs
      cases pre with
      | nil =>
        have hca : c.1 < a.1 := hs1 a (by simp)
        simp only [List.cons_append, List.nil_append] at ih ⊢
        rw [inside_cons_cons]
        split_ifs with h
        · have hxa : x = a.1 := le_antisymm h hax
          rw [hxa, lin_right c a hca, lin_left]
        · exact ih hs2
      | cons d pre =>
        have hda : d.1 < a.1 := (sortedX_cons hs2).1 a (by simp)
        simp only [List.cons_append] at ih ⊢
        rw [inside_cons_cons, if_neg (not_le.mpr (hda.trans_le hax))]
        exact ih hs2
  have hfirst : ∀ c ∈ (pre ++ a :: b :: post).head?, c.1 ≤ x := by
    intro c hc
    cases pre with
    | nil => simp at hc; rw [← hc]; exact hax
    | cons e pre =>
      simp at hc
      rw [← hc]
      exact ((sortedX_cons hs).1 a (by simp)).le.trans hax
  have h := key pre hs
  cases hp : pre ++ a :: b :: post with
  | nil => simp at hp
  | cons e l =>
    rw [hp] at h hfirst
    rw [tabulated_cons, if_neg (not_lt.mpr (hfirst e (by simp))), h]
    rfl

/-! ### the standard thickness curves -/

lemma thicknessTable_fst (layer monolayer : α) : ∀ (ps ns : List α),
    ((thicknessTable layer monolayer ps ns).map Prod.fst).Sublist ps := by
  intro ps
  induction ps with
  | nil => intro ns; simp [thicknessTable]
  | cons p ps ih =>
    intro ns
    cases ns with
    | nil => simp [thicknessTable]
    | cons n ns =>
      simp only [thicknessTable, List.zipWith_cons_cons, List.map_cons]
      exact (ih ns).cons_cons p

lemma thicknessTable_snd (layer monolayer : α) : ∀ (ps ns : List α),
    ((thicknessTable layer monolayer ps ns).map Prod.snd).Sublist (ns.map (fun n => n / monolayer * layer)) := by
  intro ps
  induction ps with
  | nil => intro ns; simp [thicknessTable]
  | cons p ps ih =>
    intro ns
    cases ns with
    | nil => simp [thicknessTable]
    | cons n ns =>
      simp only [thicknessTable, List.zipWith_cons_cons, List.map_cons]
      exact (ih ns).cons_cons _

lemma thicknessTable_sorted (layer monolayer : α) (ps ns : List α) (hp : ps.Pairwise (· < ·)) :
    SortedX (thicknessTable layer monolayer ps ns) :=
  hp.sublist (thicknessTable_fst layer monolayer ps ns)

lemma thicknessTable_mono (layer monolayer : α) (ps ns : List α) (hl : 0 ≤ layer) (hmono : 0 < monolayer)
    (hn : ns.Pairwise (· ≤ ·)) : MonoY (thicknessTable layer monolayer ps ns) := by
  refine List.Pairwise.sublist (thicknessTable_snd layer monolayer ps ns) ?_
  rw [List.pairwise_map]
  refine hn.imp ?_
  intro a b hab
  exact mul_le_mul_of_nonneg_right (div_le_div_of_nonneg_right hab hmono.le) hl

lemma thicknessTable_head_nonneg (layer monolayer : α) (ps ns : List α) (hl : 0 ≤ layer) (hmono : 0 < monolayer)
    (h0 : ∀ n ∈ ns, 0 ≤ n) : ∀ a ∈ (thicknessTable layer monolayer ps ns).head?, (0 : α) ≤ a.2 := by
  intro a ha
  cases ps with
  | nil => simp [thicknessTable] at ha
  | cons p ps =>
    cases ns with
    | nil => simp [thicknessTable] at ha
    | cons n ns =>
      simp [thicknessTable] at ha
      rw [← ha]
      exact mul_nonneg (div_nonneg (h0 n (by simp)) hmono.le) hl

/-- T7. a standard isotherm with increasing pressures and non-decreasing, non-negative loadings gives a monotone thickness curve -/
theorem standardThickness_monotone (layer monolayer : α) (ps ns : List α) (hl : 0 ≤ layer) (hmono : 0 < monolayer)
    (hp : ps.Pairwise (· < ·)) (hn : ns.Pairwise (· ≤ ·)) (h0 : ∀ n ∈ ns, 0 ≤ n) :
    Monotone (standardThickness layer monolayer ps ns) :=
  tabulated_monotone 0 _ (thicknessTable_sorted layer monolayer ps ns hp) (thicknessTable_mono layer monolayer ps ns hl hmono hn)
    (thicknessTable_head_nonneg layer monolayer ps ns hl hmono h0)

/-- T8. … and a non-negative one -/
theorem standardThickness_nonneg (layer monolayer : α) (ps ns : List α) (hl : 0 ≤ layer) (hmono : 0 < monolayer)
    (hp : ps.Pairwise (· < ·)) (hn : ns.Pairwise (· ≤ ·)) (h0 : ∀ n ∈ ns, 0 ≤ n) (x : α) :
    0 ≤ standardThickness layer monolayer ps ns x := by
  unfold standardThickness
  cases ht : thicknessTable layer monolayer ps ns with
  | nil => simp [tabulated]
  | cons a r =>
    have hs := thicknessTable_sorted layer monolayer ps ns hp
    have hm := thicknessTable_mono layer monolayer ps ns hl hmono hn
    have hh := thicknessTable_head_nonneg layer monolayer ps ns hl hmono h0
    rw [ht] at hs hm hh
    have ha : 0 ≤ a.2 := hh a (by simp)
    rw [tabulated_cons]
    split_ifs with h
    · exact le_rfl
    · exact ha.trans (inside_ge 0 r a x hs hm (not_lt.mp h))

/-! ### non-vacuity -/

example : tabulated (0 : ℚ) [(1, 2), (3, 6), (4, 6)] 2 = 4 := by decide +kernel
example : tabulated (0 : ℚ) [(1, 2), (3, 6), (4, 6)] (1 / 2) = 0 := by decide +kernel
example : tabulated (0 : ℚ) [(1, 2), (3, 6), (4, 6)] 5 = 6 := by decide +kernel
example : standardThickness (177 / 500 : ℚ) (1 / 2) [1 / 10, 2 / 10, 4 / 10] [1, 2, 3] (3 / 10) = 177 / 100 := by decide +kernel
example : SortedX ([(1, 2), (3, 6), (4, 6)] : List (ℚ × ℚ)) ∧ MonoY ([(1, 2), (3, 6), (4, 6)] : List (ℚ × ℚ)) := by
  unfold SortedX MonoY; decide +kernel

end PgVerif.Props.C16.Tabulated
