/-
C20 — "found by its name and by each of its aliases in any letter case", at the level of the strings themselves.

`Props/C20.lean` works on the generated registry, whose keys are the numbers of the LOWER-CASED alias strings: that the stored strings are
lower-cased is an assumption there.  This file proves where it comes from and why it is needed:

* the constructor model `ctorAlias` (`Adsorbate.__init__`) stores the normalised name and the normalised form of every written alias and
  nothing else; what it stores is a fixed point of the normalisation;
* hence, in ANY registry built by the constructor from written entries (the JSON source list, a database read back by
  `adsorbates_from_db`, user-made adsorbates) whose stored aliases do not collide, every written name and alias is found in every
  letter case, designates exactly one entry, and nothing else is found;
* a stored alias that is NOT a fixed point of the normalisation can never be matched by `__eq__` / `find` — not even by the identical
  string — so a constructor that keeps some aliases as written loses them (`kept_alias_not_found`, witness: `MEK` of 2-butanone).

`norm` is `str.lower`; the general statements need at most that it is idempotent (`String.toLower` is: `toLower_idem`).
The correspondence of `ctorAlias` / `findS` with the real constructor and the real `Adsorbate.find` is run by `harness/pgv/regroutes.py`
(driver ops `ctor`, `bfind` of `Drv/Registry.lean`).
-/
import PgVerif.Model.Registry
import PgVerif.Props.C20
import Mathlib.Data.List.Nodup
import Mathlib.Data.List.Basic
import Mathlib.Tactic

namespace PgVerif.C20
open PgVerif.Model.Registry PgVerif.Gen.Registry

section General
variable {σ : Type} [DecidableEq σ] {β : Type} (norm : σ → σ)

/-! ## what the constructor stores -/

/-- the lower-cased name is always stored -/
theorem ctor_stores_name (name : σ) (al : Option (List σ)) : norm name ∈ ctorAlias norm name al := by
  cases al with
  | none => simp [ctorAlias]
  | some as =>
    simp only [ctorAlias]
    split
    · rename_i h; simpa using h
    · simp

/-- every written alias is stored in its lower-cased form -/
theorem ctor_stores_every_alias (name : σ) (as : List σ) (a : σ) (ha : a ∈ as) :
    norm a ∈ ctorAlias norm name (some as) := by
  have : norm a ∈ as.map norm := List.mem_map_of_mem ha
  simp only [ctorAlias]
  split
  · exact this
  · exact List.mem_append_left _ this

/-- nothing else is stored -/
theorem ctor_stores_nothing_else (name : σ) (al : Option (List σ)) (s : σ) (hs : s ∈ ctorAlias norm name al) :
    s = norm name ∨ ∃ as a, al = some as ∧ a ∈ as ∧ s = norm a := by
  cases al with
  | none => left; simpa [ctorAlias] using hs
  | some as =>
    simp only [ctorAlias] at hs
    split at hs
    · obtain ⟨a, ha, rfl⟩ := List.mem_map.mp hs
      exact Or.inr ⟨as, a, rfl, ha, rfl⟩
    · rcases List.mem_append.mp hs with h | h
      · obtain ⟨a, ha, rfl⟩ := List.mem_map.mp h
        exact Or.inr ⟨as, a, rfl, ha, rfl⟩
      · left; simpa using h

/-- everything the constructor stores is a fixed point of the normalisation -/
theorem ctor_stored_are_normalised (hn : ∀ x, norm (norm x) = norm x) (name : σ) (al : Option (List σ)) (s : σ)
    (hs : s ∈ ctorAlias norm name al) : norm s = s := by
  rcases ctor_stores_nothing_else norm name al s hs with rfl | ⟨_, a, _, _, rfl⟩ <;> exact hn _

/-- the written strings of an entry, normalised, are exactly what is stored (as sets) -/
theorem ctor_stored_iff (e : σ × Option (List σ)) (s : σ) :
    s ∈ ctorAlias norm e.1 e.2 ↔ ∃ a ∈ written e, s = norm a := by
  constructor
  · intro hs
    rcases ctor_stores_nothing_else norm e.1 e.2 s hs with rfl | ⟨as, a, h, ha, rfl⟩
    · exact ⟨e.1, by simp [written], rfl⟩
    · exact ⟨a, by simp [written, h, ha], rfl⟩
  · rintro ⟨a, ha, rfl⟩
    simp only [written, List.mem_cons] at ha
    rcases ha with rfl | ha
    · exact ctor_stores_name norm _ _
    · cases h : e.2 with
      | none => simp [h] at ha
      | some as =>
        rw [h] at ha
        exact ctor_stores_every_alias norm e.1 as a (by simpa using ha)

/-- keeping nothing as written is the constructor -/
theorem ctorAliasKeeping_none (name : σ) (al : Option (List σ)) :
    ctorAliasKeeping (fun _ => false) norm name al = ctorAlias norm name al := by
  cases al <;> simp [ctorAliasKeeping, ctorAlias]

/-! ## `__eq__` with a string -/

/-- an adsorbate made by the constructor equals each of its written strings in any letter case -/
theorem eq_written_any_case (e : σ × Option (List σ)) (a : σ) (ha : a ∈ written e) (q : σ) (hq : norm q = norm a) :
    eqStr norm (ctorAlias norm e.1 e.2) q = true := by
  have : norm q ∈ ctorAlias norm e.1 e.2 := (ctor_stored_iff norm e (norm q)).mpr ⟨a, ha, hq⟩
  simpa [eqStr] using this

/-- and equals nothing else -/
theorem eq_only_written (e : σ × Option (List σ)) (q : σ) (h : eqStr norm (ctorAlias norm e.1 e.2) q = true) :
    ∃ a ∈ written e, norm q = norm a := by
  have : norm q ∈ ctorAlias norm e.1 e.2 := by simpa [eqStr] using h
  exact (ctor_stored_iff norm e (norm q)).mp this

/-- **a stored alias that is not a fixed point of the normalisation is dead**: `__eq__` gives the same answer with it removed -/
theorem unnormalised_alias_is_dead (hn : ∀ x, norm (norm x) = norm x) (stored : List σ) (q : σ) :
    eqStr norm stored q = eqStr norm (stored.filter fun s => decide (norm s = s)) q := by
  rw [Bool.eq_iff_iff]
  simp only [eqStr, List.contains_iff_mem, List.mem_filter, decide_eq_true_eq]
  exact ⟨fun h => ⟨h, hn q⟩, fun h => h.1⟩

/-- in particular no string at all — not even the identical one — matches it -/
theorem unnormalised_alias_never_matches (hn : ∀ x, norm (norm x) = norm x) (s : σ) (hs : norm s ≠ s) (q : σ) :
    eqStr norm [s] q = false := by
  rw [unnormalised_alias_is_dead norm hn]
  simp [eqStr, hs]

/-! ## `find` over the stored strings -/

/-- if no stored alias occurs twice, a string whose lower-cased form is stored with `e` is resolved to `e`, and designates only `e` -/
theorem findS_of_unique (reg : List (β × List σ)) (hu : (allAliases reg).Nodup)
    (e : β × List σ) (he : e ∈ reg) (q : σ) (hq : norm q ∈ e.2) :
    findS norm reg q = some e.1 ∧ designated norm reg q = [e.1] := by
  unfold findS designated
  induction reg with
  | nil => simp at he
  | cons a rest ih =>
    simp only [allAliases, List.flatMap_cons] at hu
    rw [List.nodup_append] at hu
    obtain ⟨_, hrest, hdisj⟩ := hu
    by_cases ha : eqStr norm a.2 q = true
    · have hk1 : norm q ∈ a.2 := by simpa [eqStr] using ha
      have hnot : ∀ e' ∈ rest, eqStr norm e'.2 q = false := by
        intro e' he'
        by_contra hc
        have hk2 : norm q ∈ List.flatMap (·.2) rest :=
          List.mem_flatMap.mpr ⟨e', he', by simpa [eqStr] using hc⟩
        exact hdisj _ hk1 _ hk2 rfl
      rcases List.mem_cons.mp he with rfl | he'
      · refine ⟨by simp [ha], ?_⟩
        rw [List.filter_cons, if_pos ha]
        have : rest.filter (fun e => eqStr norm e.2 q) = [] := by
          rw [List.filter_eq_nil_iff]; intro e' he'; simp [hnot e' he']
        simp [this]
      · exfalso
        have := hnot e he'
        simp [eqStr, hq] at this
    · rcases List.mem_cons.mp he with rfl | he'
      · exact absurd (by simpa [eqStr] using hq) ha
      · have := ih hrest he'
        refine ⟨?_, ?_⟩
        · rw [List.find?_cons]; simp only [ha]; exact this.1
        · rw [List.filter_cons, if_neg ha]; exact this.2

/-- a string whose lower-cased form is stored nowhere is not found (`Adsorbate.find` raises `ParameterError`) and designates nothing -/
theorem findS_none_of_absent (reg : List (β × List σ)) (q : σ) (h : norm q ∉ allAliases reg) :
    findS norm reg q = none ∧ designated norm reg q = [] := by
  have hno : ∀ e ∈ reg, eqStr norm e.2 q = false := by
    intro e he
    by_contra hc
    exact h (List.mem_flatMap.mpr ⟨e, he, by simpa [eqStr] using hc⟩)
  refine ⟨?_, ?_⟩
  · unfold findS
    rw [Option.map_eq_none_iff, List.find?_eq_none]
    intro e he; simp [hno e he]
  · unfold designated
    rw [List.map_eq_nil_iff, List.filter_eq_nil_iff]
    intro e he; simp [hno e he]

/-- whatever `find` returns was stored under the lower-cased query, which is a fixed point of the normalisation:
only normalised stored strings can ever be the reason of a match -/
theorem findS_some_needs_normalised_key (hn : ∀ x, norm (norm x) = norm x) (reg : List (β × List σ)) (q : σ) (b : β)
    (h : findS norm reg q = some b) : ∃ e ∈ reg, e.1 = b ∧ ∃ s ∈ e.2, s = norm q ∧ norm s = s := by
  unfold findS at h
  obtain ⟨e, hf, rfl⟩ := Option.map_eq_some_iff.mp h
  refine ⟨e, List.mem_of_find?_eq_some hf, rfl, norm q, ?_, rfl, hn q⟩
  simpa [eqStr] using List.find?_some hf

/-- **every registry built by the constructor**: if the stored aliases do not collide, each written name and alias of each entry, in
any letter case, is resolved to that entry and designates exactly that entry -/
theorem find_written_alias_any_case (entries : List (σ × Option (List σ)))
    (hu : (allAliases (build norm entries)).Nodup)
    (e : σ × Option (List σ)) (he : e ∈ entries) (a : σ) (ha : a ∈ written e) (q : σ) (hq : norm q = norm a) :
    findS norm (build norm entries) q = some e.1 ∧ designated norm (build norm entries) q = [e.1] := by
  have hmem : (e.1, ctorAlias norm e.1 e.2) ∈ build norm entries := List.mem_map.mpr ⟨e, he, rfl⟩
  have hk : norm q ∈ ((e.1, ctorAlias norm e.1 e.2) : σ × List σ).2 :=
    (ctor_stored_iff norm e (norm q)).mpr ⟨a, ha, hq⟩
  exact findS_of_unique norm _ hu _ hmem q hk

/-- and a string that is, in lower case, none of the written strings is not found -/
theorem find_unwritten_none (entries : List (σ × Option (List σ))) (q : σ)
    (h : ∀ e ∈ entries, ∀ a ∈ written e, norm q ≠ norm a) :
    findS norm (build norm entries) q = none ∧ designated norm (build norm entries) q = [] := by
  apply findS_none_of_absent
  intro hc
  obtain ⟨r, hr, hs⟩ := List.mem_flatMap.mp hc
  obtain ⟨e, he, rfl⟩ := List.mem_map.mp hr
  obtain ⟨a, ha, h'⟩ := (ctor_stored_iff norm e (norm q)).mp hs
  exact h e he a ha h'

/-- **why the constructor must normalise**: with a constructor that keeps the aliases selected by `keep` as written, a kept alias `a`
is found in NO letter case (not even as written), unless its lower-cased form happens to be stored for another reason (it is the
lower-cased name of an entry, the lower-cased form of an alias that is not kept, or literally a kept alias) -/
theorem kept_alias_not_found (keep : σ → Bool) (entries : List (σ × Option (List σ))) (a : σ)
    (h1 : ∀ e ∈ entries, norm e.1 ≠ norm a)
    (h2 : ∀ e ∈ entries, ∀ a' ∈ e.2.getD [], (if keep a' then a' else norm a') ≠ norm a)
    (q : σ) (hq : norm q = norm a) :
    findS norm (buildKeeping keep norm entries) q = none := by
  refine (findS_none_of_absent norm _ q ?_).1
  intro hc
  obtain ⟨r, hr, hs⟩ := List.mem_flatMap.mp hc
  obtain ⟨e, he, rfl⟩ := List.mem_map.mp hr
  rw [hq] at hs
  cases hal : e.2 with
  | none =>
    simp only [ctorAliasKeeping, hal, List.mem_singleton] at hs
    exact h1 e he hs.symm
  | some as =>
    simp only [ctorAliasKeeping, hal] at hs
    have hmap : norm a ∈ as.map (fun a => if keep a then a else norm a) → False := by
      intro hm
      obtain ⟨a', ha', h'⟩ := List.mem_map.mp hm
      exact h2 e he a' (by simp [hal, ha']) h'
    split at hs
    · exact hmap hs
    · rcases List.mem_append.mp hs with h | h
      · exact hmap h
      · have h' : norm a = norm e.1 := by simpa using h
        exact h1 e he h'.symm

/-- the hypotheses of `kept_alias_not_found` are met by the alias itself exactly when it is not a fixed point:
a kept alias that is already lower-case is stored as its own lower-cased form and stays findable -/
theorem kept_normalised_alias_still_found (keep : σ → Bool) (name : σ) (as : List σ) (a : σ) (ha : a ∈ as) (hfix : norm a = a)
    (q : σ) (hq : norm q = norm a) : eqStr norm (ctorAliasKeeping keep norm name (some as)) q = true := by
  have hm : norm a ∈ as.map (fun a => if keep a then a else norm a) :=
    List.mem_map.mpr ⟨a, ha, by by_cases hk : keep a = true <;> simp [hk, hfix]⟩
  simp only [eqStr, ctorAliasKeeping, hq, List.contains_iff_mem]
  split
  · exact hm
  · exact List.mem_append_left _ hm

/-! ## the string model and the key model agree -/

/-- `find` over numeric keys (`Props/C20.lean`, the generated registry) is `findS` over the strings, for any injective key function -/
theorem findS_eq_find (enc : σ → Nat) (hinj : Function.Injective enc) (reg : List (β × List σ)) (q : σ) :
    findS norm reg q = find (reg.map fun e => (e.1, e.2.map enc)) (enc (norm q)) := by
  unfold findS find eqStr
  induction reg with
  | nil => rfl
  | cons a rest ih =>
    have hiff : (a.2.map enc).contains (enc (norm q)) = a.2.contains (norm q) := by
      rw [Bool.eq_iff_iff]
      simp only [List.contains_iff_mem, List.mem_map]
      exact ⟨fun ⟨x, hx, hxe⟩ => hinj hxe ▸ hx, fun h => ⟨_, h, rfl⟩⟩
    simp only [List.map_cons, List.find?_cons, hiff]
    cases a.2.contains (norm q) with
    | true => rfl
    | false => exact ih

end General

/-! ## `str.lower` on ASCII: `String.toLower` is idempotent -/

private theorem char_toLower_idem (c : Char) : c.toLower.toLower = c.toLower := by
  simp only [Char.toLower]
  split
  · split
    · next h1 h2 =>
      simp only [UInt32.le_iff_toNat_le, UInt32.toNat_add, seval] at h1 h2
      omega
    · simp
  · rfl

/-- lower-casing twice is lower-casing once -/
theorem toLower_idem (s : String) : s.toLower.toLower = s.toLower := by
  unfold String.toLower
  rw [String.map_map, Function.comp_def]
  simp [char_toLower_idem]

/-! ## the generated registry, as strings -/

/-- the generated keys are the keys of the generated alias strings (the translator's pairing, decided on every regeneration) -/
theorem db_keys_are_encoded_aliases : dbKeys = dbAliases.map (fun e => (e.1, e.2.map encode)) := by decide +kernel

/-- no alias string occurs twice in the packaged database -/
theorem db_alias_strings_unique : (allAliases dbAliases).Nodup := by
  have h := db_alias_unique
  rw [db_keys_are_encoded_aliases] at h
  have hmap : allKeys (dbAliases.map fun e => (e.1, e.2.map encode)) = (allAliases dbAliases).map encode := by
    unfold allKeys allAliases
    induction dbAliases with
    | nil => rfl
    | cons a t ih => simp only [List.map_cons, List.flatMap_cons, List.map_append, ih]
  rw [hmap] at h
  exact List.Nodup.of_map _ h

/-- **every shipped adsorbate is found by each of its stored aliases in any letter case, and the string designates exactly that
adsorbate** (`a` ranges over the alias strings as `ADSORBATE_LIST` stores them, i.e. lower-cased — by `ctor_stored_are_normalised`
for every adsorbate the constructor made; letter case in the sense of `String.toLower`: ASCII, which all shipped strings are) -/
theorem shipped_found_in_any_case (e : String × List String) (he : e ∈ dbAliases) (a : String) (ha : a ∈ e.2)
    (q : String) (hq : q.toLower = a) :
    findS String.toLower dbAliases q = some e.1 ∧ designated String.toLower dbAliases q = [e.1] :=
  findS_of_unique String.toLower dbAliases db_alias_strings_unique e he q (hq ▸ ha)

/-! ## non-vacuity and the witness of the defect class -/

/-- the constructor on an entry as written in adsorbates.json -/
example : ctorAlias String.toLower "2-butanone" (some ["MEK", "butanone", "Methyl Ethyl Ketone"])
    = ["mek", "butanone", "methyl ethyl ketone", "2-butanone"] := by decide +kernel
example : ctorAlias String.toLower "Xe" none = ["xe"] := by decide +kernel
example : ctorAlias String.toLower "N2" (some ["n2", "Nitrogen"]) = ["n2", "nitrogen"] := by decide +kernel

/-- found by the acronym in any case when the constructor normalises … -/
example : findS String.toLower (build String.toLower [("acetone", some ["DMK"]), ("2-butanone", some ["MEK", "butanone"])]) "Mek"
    = some "2-butanone" := by decide +kernel

/-- … and in no case — not even as written — when all-upper-case aliases are kept as written -/
example : let keep := fun (a : String) => a.toUpper == a && a.toLower != a
    let reg := buildKeeping keep String.toLower [("acetone", some ["DMK"]), ("2-butanone", some ["MEK", "butanone"])]
    findS String.toLower reg "MEK" = none ∧ findS String.toLower reg "mek" = none ∧ findS String.toLower reg "Mek" = none ∧
    findS String.toLower reg "butanone" = some "2-butanone" := by decide +kernel

example : eqStr String.toLower ["MEK"] "MEK" = false := by decide +kernel
example : "MEK".toLower ≠ "MEK" := by decide +kernel

/-- the hypotheses of `shipped_found_in_any_case` are met by the shipped nitrogen -/
example : findS String.toLower dbAliases "N2" = some "nitrogen" := by decide +kernel

end PgVerif.C20
