/-
C20 (thermodynamic clauses) and the accessor part of C01 — the accessors of `Adsorbate` and `Material`, as the code is NOW.

`Gen.Accessors` is regenerated from core/adsorbate.py and core/material.py on every run (generator `Accessors` of
harness/pgv/translate.py): one descriptor per accessor method — which backend quantity it reads, in which phase, with which exact
rational factor, which dictionary key the fallback reads and how it is scaled, where the `unit` argument is applied, which
exceptions are caught and where they are routed.  `gen_descriptors_eq_spec` decides in the kernel that this is the independent
table `Spec.Accessors` (CoolProp SI conventions + documented pyGAPS units); every later theorem is stated about the *generated*
descriptors run by the semantics of `Model/Accessor.lean`, whose agreement with the real methods is checked on every run by the
stub-backend correspondence of harness/props/c20.py.
-/
import PgVerif.Gen.Accessors
import PgVerif.Spec.Accessors
import PgVerif.Model.Accessor
import PgVerif.Model.Fallback
import PgVerif.Lemmas.Units
import Mathlib.Algebra.Order.Field.Rat
import Mathlib.Tactic

set_option linter.unusedSimpArgs false
set_option linter.unusedVariables false
set_option linter.unusedSectionVars false
set_option linter.unusedDecidableInType false

namespace PgVerif.C20
open PgVerif.Model PgVerif.Model.Acc
open PgVerif.Model.Registry (propValue)

/-- the accessor methods of `Adsorbate`, as generated from the source on this run -/
abbrev G : List Desc := PgVerif.Gen.Accessors.adsorbate

/-! ## tie: what the code says now = the specification table -/

/-- every accessor method reads the backend quantity, phase and factor, and the dictionary key and factor, that the SI
conventions of CoolProp and the documented units of pyGAPS prescribe; same parameters, same defaults, same control flow -/
theorem gen_descriptors_eq_spec : PgVerif.Gen.Accessors.adsorbate = PgVerif.Spec.Accessors.adsorbate := by decide +kernel

/-- `Adsorbate.get_prop` raises `ParameterError` for a missing key, `Material.get_prop` tries the attribute first -/
theorem gen_get_prop_eq_spec : PgVerif.Gen.Accessors.getProp = PgVerif.Spec.Accessors.getProp := by decide +kernel

/-- `Material.density` / `Material.molar_mass` read the dictionary key of their own name -/
theorem gen_material_eq_spec : PgVerif.Gen.Accessors.material = PgVerif.Spec.Accessors.material := by decide +kernel

/-- every accessor calculates by default (`calculate: bool = True`) -/
theorem default_is_calculate : G.all (fun d => defaultCalculate d == some true) = true := by decide +kernel

/-- the generated pressure table the `unit` argument goes through is the SI table (C01 proves the same for all tables) -/
theorem pressure_table_is_SI : Gen.unitTable "pressure" = Spec.pressureUnits := by decide +kernel

variable {α : Type} [Field α] [DecidableEq α]

/-- error classes of `propValue` inside the error type of the unit model -/
def liftErr : Except PgVerif.Model.Registry.Err α → Except Err α
  | .ok v => .ok v
  | .error .param => .error .param
  | .error .calc => .error .calc

-- unfolding set shared by the proofs below
open Lean.Parser.Tactic in
macro "acc_simp" " [" extra:simpLemma,* "]" : tactic =>
  `(tactic| simp [call, PgVerif.Spec.Accessors.adsorbate, run, evalWith, evalLin, Read.inp, Cond.eval, catches, forward,
      errOfClass, pyName, truthyNum, PgVerif.Spec.Accessors.accessor, PgVerif.Spec.Accessors.backendElseDict,
      PgVerif.Spec.Accessors.fromDict, PgVerif.Spec.Accessors.const, PgVerif.Spec.Accessors.liquidAt,
      PgVerif.Spec.Accessors.vapourAt, PgVerif.Spec.Accessors.liquidAtP, PgVerif.Spec.Accessors.vapourAtP,
      PgVerif.Spec.Accessors.user, PgVerif.Spec.Accessors.userBar, PgVerif.Spec.Accessors.userEnthalpy, propValue, liftErr,
      $extra,*])

/-! ## the general fallback law, accessor by accessor

`call G name B D args` is what the method returns for ANY backend `B` (a backend call that raises is `none`) and ANY
dictionary `D`; the right-hand side is the law of `Props/C20.lean` (`fallback_never_silent`): the backend value in the
documented unit, else the user value in the documented unit, else `CalculationError`. -/

theorem molar_mass_law (B : Backend α) (D : Dict α) (c : Bool) :
    call G "molar_mass" B D { calculate := c }
      = liftErr (propValue c (Spec.Accessors.molarMass B) (Spec.Accessors.user D "molar_mass")) := by
  rw [G, gen_descriptors_eq_spec]
  cases c <;> cases h1 : B .state "molar_mass" .none <;> cases h2 : D "molar_mass" <;>
    acc_simp [Spec.Accessors.molarMass, h1, h2]

theorem p_triple_law (B : Backend α) (D : Dict α) (c : Bool) :
    call G "p_triple" B D { calculate := c }
      = liftErr (propValue c (Spec.Accessors.pTriple B) (Spec.Accessors.userBar D "p_triple")) := by
  rw [G, gen_descriptors_eq_spec]
  cases c <;> cases h1 : B .propsSI "PTRIPLE" .none <;> cases h2 : D "p_triple" <;>
    acc_simp [Spec.Accessors.pTriple, h1, h2]

theorem t_triple_law (B : Backend α) (D : Dict α) (c : Bool) :
    call G "t_triple" B D { calculate := c }
      = liftErr (propValue c (Spec.Accessors.tTriple B) (Spec.Accessors.user D "t_triple")) := by
  rw [G, gen_descriptors_eq_spec]
  cases c <;> cases h1 : B .state "Ttriple" .none <;> cases h2 : D "t_triple" <;>
    acc_simp [Spec.Accessors.tTriple, h1, h2]

theorem p_critical_law (B : Backend α) (D : Dict α) (c : Bool) :
    call G "p_critical" B D { calculate := c }
      = liftErr (propValue c (Spec.Accessors.pCritical B) (Spec.Accessors.userBar D "p_critical")) := by
  rw [G, gen_descriptors_eq_spec]
  cases c <;> cases h1 : B .state "p_critical" .none <;> cases h2 : D "p_critical" <;>
    acc_simp [Spec.Accessors.pCritical, h1, h2]

theorem t_critical_law (B : Backend α) (D : Dict α) (c : Bool) :
    call G "t_critical" B D { calculate := c }
      = liftErr (propValue c (Spec.Accessors.tCritical B) (Spec.Accessors.user D "t_critical")) := by
  rw [G, gen_descriptors_eq_spec]
  cases c <;> cases h1 : B .state "T_critical" .none <;> cases h2 : D "t_critical" <;>
    acc_simp [Spec.Accessors.tCritical, h1, h2]

/-- without a `unit` argument: Pa -/
theorem saturation_pressure_law (B : Backend α) (D : Dict α) (T : α) (c : Bool) :
    call G "saturation_pressure" B D { temp := some T, calculate := c }
      = liftErr (propValue c (Spec.Accessors.saturationPressure B T) (Spec.Accessors.user D "saturation_pressure")) := by
  rw [G, gen_descriptors_eq_spec]
  cases c <;> cases h1 : B .state "p" (.QT 0 T) <;> cases h2 : D "saturation_pressure" <;>
    acc_simp [Spec.Accessors.saturationPressure, h1, h2]

theorem surface_tension_law (B : Backend α) (D : Dict α) (T : α) (c : Bool) :
    call G "surface_tension" B D { temp := some T, calculate := c }
      = liftErr (propValue c (Spec.Accessors.surfaceTension B T) (Spec.Accessors.user D "surface_tension")) := by
  rw [G, gen_descriptors_eq_spec]
  cases c <;> cases h1 : B .state "surface_tension" (.QT 0 T) <;> cases h2 : D "surface_tension" <;>
    acc_simp [Spec.Accessors.surfaceTension, h1, h2]

theorem liquid_density_law (B : Backend α) (D : Dict α) (T : α) (c : Bool) :
    call G "liquid_density" B D { temp := some T, calculate := c }
      = liftErr (propValue c (Spec.Accessors.liquidDensity B T) (Spec.Accessors.user D "liquid_density")) := by
  rw [G, gen_descriptors_eq_spec]
  cases c <;> cases h1 : B .state "rhomass" (.QT 0 T) <;> cases h2 : D "liquid_density" <;>
    acc_simp [Spec.Accessors.liquidDensity, h1, h2] <;> ring

theorem liquid_molar_density_law (B : Backend α) (D : Dict α) (T : α) (c : Bool) :
    call G "liquid_molar_density" B D { temp := some T, calculate := c }
      = liftErr (propValue c (Spec.Accessors.liquidMolarDensity B T) (Spec.Accessors.user D "liquid_molar_density")) := by
  rw [G, gen_descriptors_eq_spec]
  cases c <;> cases h1 : B .state "rhomolar" (.QT 0 T) <;> cases h2 : D "liquid_molar_density" <;>
    acc_simp [Spec.Accessors.liquidMolarDensity, h1, h2] <;> ring

theorem gas_density_law (B : Backend α) (D : Dict α) (T : α) (c : Bool) :
    call G "gas_density" B D { temp := some T, calculate := c }
      = liftErr (propValue c (Spec.Accessors.gasDensity B T) (Spec.Accessors.user D "gas_density")) := by
  rw [G, gen_descriptors_eq_spec]
  cases c <;> cases h1 : B .state "rhomass" (.QT 1 T) <;> cases h2 : D "gas_density" <;>
    acc_simp [Spec.Accessors.gasDensity, h1, h2] <;> ring

theorem gas_molar_density_law (B : Backend α) (D : Dict α) (T : α) (c : Bool) :
    call G "gas_molar_density" B D { temp := some T, calculate := c }
      = liftErr (propValue c (Spec.Accessors.gasMolarDensity B T) (Spec.Accessors.user D "gas_molar_density")) := by
  rw [G, gen_descriptors_eq_spec]
  cases c <;> cases h1 : B .state "rhomolar" (.QT 1 T) <;> cases h2 : D "gas_molar_density" <;>
    acc_simp [Spec.Accessors.gasMolarDensity, h1, h2] <;> ring

/-- at a temperature (`temp` truthy, no pressure): kJ/mol; the user value may be stored under either documented key -/
theorem enthalpy_liquefaction_law_temp (B : Backend α) (D : Dict α) (T : α) (hT : T ≠ 0) (c : Bool) :
    call G "enthalpy_liquefaction" B D { temp := some T, calculate := c }
      = liftErr (propValue c (Spec.Accessors.enthalpyVapT B T) (Spec.Accessors.userEnthalpy D)) := by
  rw [G, gen_descriptors_eq_spec]
  cases c <;> cases h1 : B .state "hmolar" (.QT 1 T) <;> cases h0 : B .state "hmolar" (.QT 0 T) <;>
    cases h2 : D "enthalpy_liquefaction" <;> cases h3 : D "enthalpy_vaporisation" <;>
    acc_simp [Spec.Accessors.enthalpyVapT, h0, h1, h2, h3, hT] <;> ring

/-- at a pressure (`press` truthy, no temperature) -/
theorem enthalpy_liquefaction_law_press (B : Backend α) (D : Dict α) (p : α) (hp : p ≠ 0) (c : Bool) :
    call G "enthalpy_liquefaction" B D { press := some p, calculate := c }
      = liftErr (propValue c (Spec.Accessors.enthalpyVapP B p) (Spec.Accessors.userEnthalpy D)) := by
  rw [G, gen_descriptors_eq_spec]
  cases c <;> cases h1 : B .state "hmolar" (.PQ p 1) <;> cases h0 : B .state "hmolar" (.PQ p 0) <;>
    cases h2 : D "enthalpy_liquefaction" <;> cases h3 : D "enthalpy_vaporisation" <;>
    acc_simp [Spec.Accessors.enthalpyVapP, h0, h1, h2, h3, hp] <;> ring

/-- neither temperature nor pressure: the backend path raises inside the `try`, so the user value or a calculation error -/
theorem enthalpy_liquefaction_law_neither (B : Backend α) (D : Dict α) (c : Bool) :
    call G "enthalpy_liquefaction" B D { calculate := c }
      = liftErr (propValue c none (Spec.Accessors.userEnthalpy D)) := by
  rw [G, gen_descriptors_eq_spec]
  cases c <;> cases h2 : D "enthalpy_liquefaction" <;> cases h3 : D "enthalpy_vaporisation" <;> acc_simp [h2, h3]

/-- both given and `calculate`: refused with a calculation error before anything is read -/
theorem enthalpy_liquefaction_both_refused (B : Backend α) (D : Dict α) (T p : α) (hT : T ≠ 0) (hp : p ≠ 0) :
    call G "enthalpy_liquefaction" B D { temp := some T, press := some p, calculate := true } = .error .calc := by
  rw [G, gen_descriptors_eq_spec]
  acc_simp [hT, hp]

/-! ### the two aliases -/

/-- `enthalpy_vaporisation` is `enthalpy_liquefaction`, for all arguments -/
theorem enthalpy_vaporisation_eq_enthalpy_liquefaction (B : Backend α) (D : Dict α) (a : Args α) :
    call G "enthalpy_vaporisation" B D a = call G "enthalpy_liquefaction" B D a := by
  rw [G, gen_descriptors_eq_spec]
  simp [call, PgVerif.Spec.Accessors.adsorbate]

/-- `pressure_saturation` is `saturation_pressure`, for all arguments -/
theorem pressure_saturation_eq_saturation_pressure (B : Backend α) (D : Dict α) (a : Args α) :
    call G "pressure_saturation" B D a = call G "saturation_pressure" B D a := by
  rw [G, gen_descriptors_eq_spec]
  simp [call, PgVerif.Spec.Accessors.adsorbate]

/-! ### `calculate=False` never touches the backend -/

/-- for every accessor and all arguments: with `calculate = false` the result does not depend on the backend at all -/
theorem calculate_false_ignores_backend (B B' : Backend α) (D : Dict α) (a : Args α) (name : String)
    (hc : a.calculate = false) : call G name B D a = call G name B' D a := by
  rw [G, gen_descriptors_eq_spec]
  by_cases hn : name ∈ PgVerif.Spec.Accessors.adsorbate.map (·.name)
  · simp [PgVerif.Spec.Accessors.adsorbate] at hn
    rcases hn with rfl | rfl | rfl | rfl | rfl | rfl | rfl | rfl | rfl | rfl | rfl | rfl | rfl | rfl <;>
      acc_simp [hc]
  · have : PgVerif.Spec.Accessors.adsorbate.find? (·.name == name) = none := by
      rw [List.find?_eq_none]
      intro d hd hdn
      exact hn (List.mem_map.mpr ⟨d, hd, by simpa using hdn⟩)
    simp [call, this]

/-- and the error of a missing user value is always the calculation error (never `ParameterError`, never a number) -/
theorem calculate_false_missing_is_calc (B : Backend α) (a : Args α) (name : String)
    (hn : name ∈ G.map (·.name)) (hc : a.calculate = false) : call G name B (fun _ => none) a = .error .calc := by
  rw [G, gen_descriptors_eq_spec] at *
  simp [PgVerif.Spec.Accessors.adsorbate] at hn
  rcases hn with rfl | rfl | rfl | rfl | rfl | rfl | rfl | rfl | rfl | rfl | rfl | rfl | rfl | rfl <;>
    acc_simp [hc]

/-! ## consistency laws that follow from the scale factors -/

/-- if the backend itself is consistent in SI (kg/m3 = mol/m3 · kg/mol) then
`liquid_density = liquid_molar_density × molar_mass` in the documented units (g/cm3 = mol/cm3 · g/mol), for every temperature -/
theorem liquid_density_consistent [CharZero α] (B : Backend α) (D : Dict α) (T rm rb M : α)
    (h1 : B .state "rhomass" (.QT 0 T) = some rm) (h2 : B .state "rhomolar" (.QT 0 T) = some rb)
    (h3 : B .state "molar_mass" .none = some M) (hSI : rm = rb * M) :
    ∃ ρ ρb m, call G "liquid_density" B D { temp := some T } = .ok ρ ∧
      call G "liquid_molar_density" B D { temp := some T } = .ok ρb ∧
      call G "molar_mass" B D {} = .ok m ∧ ρ = ρb * m := by
  refine ⟨rm / 1000, rb / 1000000, 1000 * M, ?_, ?_, ?_, ?_⟩
  · rw [liquid_density_law]; simp [Spec.Accessors.liquidDensity, h1, propValue, liftErr]
  · rw [liquid_molar_density_law]; simp [Spec.Accessors.liquidMolarDensity, h2, propValue, liftErr]
  · rw [molar_mass_law]; simp [Spec.Accessors.molarMass, h3, propValue, liftErr]
  · rw [hSI]; field_simp; norm_num

/-- the same for the vapour -/
theorem gas_density_consistent [CharZero α] (B : Backend α) (D : Dict α) (T rm rb M : α)
    (h1 : B .state "rhomass" (.QT 1 T) = some rm) (h2 : B .state "rhomolar" (.QT 1 T) = some rb)
    (h3 : B .state "molar_mass" .none = some M) (hSI : rm = rb * M) :
    ∃ ρ ρb m, call G "gas_density" B D { temp := some T } = .ok ρ ∧
      call G "gas_molar_density" B D { temp := some T } = .ok ρb ∧
      call G "molar_mass" B D {} = .ok m ∧ ρ = ρb * m := by
  refine ⟨rm / 1000, rb / 1000000, 1000 * M, ?_, ?_, ?_, ?_⟩
  · rw [gas_density_law]; simp [Spec.Accessors.gasDensity, h1, propValue, liftErr]
  · rw [gas_molar_density_law]; simp [Spec.Accessors.gasMolarDensity, h2, propValue, liftErr]
  · rw [molar_mass_law]; simp [Spec.Accessors.molarMass, h3, propValue, liftErr]
  · rw [hSI]; field_simp; norm_num

/-- the liquid density is read on the liquid side and the gas density on the vapour side: they differ as soon as the
backend's saturated phases do -/
theorem liquid_and_gas_density_read_different_phases (B : Backend α) (D : Dict α) (T rl rg : α)
    (hl : B .state "rhomass" (.QT 0 T) = some rl) (hg : B .state "rhomass" (.QT 1 T) = some rg) (hne : rl ≠ rg)
    [CharZero α] :
    call G "liquid_density" B D { temp := some T } ≠ call G "gas_density" B D { temp := some T } := by
  rw [liquid_density_law, gas_density_law]
  simp [Spec.Accessors.liquidDensity, Spec.Accessors.gasDensity, hl, hg, propValue, liftErr]
  intro h
  exact hne h

section ordered
variable [LinearOrder α] [IsStrictOrderedRing α]

/-- the calculated vaporisation enthalpy is `(h_vapour − h_liquid)/1000`, hence positive iff `h_vapour > h_liquid` -/
theorem enthalpy_positive_iff (B : Backend α) (D : Dict α) (T hv hl : α) (hT : T ≠ 0)
    (h1 : B .state "hmolar" (.QT 1 T) = some hv) (h0 : B .state "hmolar" (.QT 0 T) = some hl) :
    ∃ h, call G "enthalpy_vaporisation" B D { temp := some T } = .ok h ∧ h = (hv - hl) / 1000 ∧ (0 < h ↔ hl < hv) := by
  refine ⟨(hv - hl) / 1000, ?_, rfl, ?_⟩
  · rw [enthalpy_vaporisation_eq_enthalpy_liquefaction, enthalpy_liquefaction_law_temp B D T hT]
    simp [Spec.Accessors.enthalpyVapT, h1, h0, propValue, liftErr]
  · rw [div_pos_iff_of_pos_right (by norm_num : (0 : α) < 1000), sub_pos]

end ordered

/-! ## the `unit` argument -/

/-- `x >>= c_unit(pressure table, x, 'Pa', u)` -/
def thenUnit (r : Except Err α) (u : String) : Except Err α :=
  match r with
  | .ok v => cUnit (Gen.unitTable "pressure") v (some "Pa") (some u) 1
  | .error e => .error e

/-- **the unit is honoured whenever a value is calculated** — `saturation_pressure(T, unit=u)` is `saturation_pressure(T)`
(Pa) converted with the pressure table, whether the value came from the backend or, the backend failing, from the
dictionary: both paths -/
theorem unit_honoured (B : Backend α) (D : Dict α) (T : α) (u : String) :
    call G "saturation_pressure" B D { temp := some T, unit := some u, calculate := true }
      = thenUnit (call G "saturation_pressure" B D { temp := some T, calculate := true }) u := by
  rw [G, gen_descriptors_eq_spec]
  cases h1 : B .state "p" (.QT 0 T) <;> cases h2 : D "saturation_pressure" <;> acc_simp [thenUnit, h1, h2]

/-- in SI terms: for a unit of the SI table worth `f` Pa the result is the Pascal value divided by `f` -/
theorem unit_honoured_SI [CharZero α] (B : Backend α) (D : Dict α) (T v f : α) (u : String) (hu : u ≠ "")
    (hf : (Spec.fac Spec.pressureUnits u : Option α) = some f)
    (hv : call G "saturation_pressure" B D { temp := some T, calculate := true } = .ok v) :
    call G "saturation_pressure" B D { temp := some T, unit := some u, calculate := true } = .ok (v / f) := by
  rw [unit_honoured, hv]
  have hf' : (facOf (Gen.unitTable "pressure") u : Option α) = some f := by
    rw [pressure_table_is_SI]; exact hf
  have hpa : (facOf (Gen.unitTable "pressure") "Pa" : Option α) = some 1 := by
    rw [pressure_table_is_SI]; simp [facOf, Spec.pressureUnits, List.lookup]
  simp only [thenUnit]
  rw [PgVerif.Units.cUnit_ok _ v "Pa" u 1 f 1 (by decide) hu hpa hf']
  simp [div_eq_mul_inv]

/-- an unknown unit is refused with a parameter error as soon as there is a value to convert -/
theorem unit_unknown_refused (B : Backend α) (D : Dict α) (T v : α) (u : String)
    (hu : (Gen.unitTable "pressure").lookup u = none)
    (hv : call G "saturation_pressure" B D { temp := some T, calculate := true } = .ok v) :
    call G "saturation_pressure" B D { temp := some T, unit := some u, calculate := true } = .error .param := by
  rw [unit_honoured, hv]
  simp [thenUnit, cUnit, checkUnit, facOf, hu]
  split <;> rfl

/-- (S20, as the code is) asked for the stored value directly (`calculate=False`) the `unit` argument is ignored: the stored
number comes back unconverted — unlike the fallback of the calculating path, which converts it (`unit_honoured`) -/
theorem unit_ignored_without_calculate (B : Backend α) (D : Dict α) (T : α) (u : String) :
    call G "saturation_pressure" B D { temp := some T, unit := some u, calculate := false }
      = call G "saturation_pressure" B D { temp := some T, calculate := false } := by
  rw [G, gen_descriptors_eq_spec]
  cases h2 : D "saturation_pressure" <;> acc_simp [h2]

/-! ## Material -/

/-- `Material.density` is the dictionary value, `None` when absent — it never raises -/
theorem material_density (D : Dict α) (isAttr : String → Bool) (g : GetPropDesc) (d : MatDesc)
    (hd : d ∈ PgVerif.Gen.Accessors.material) (hn : d.name = "density") : matGet g D isAttr d.body = .ok (D "density") := by
  rw [gen_material_eq_spec] at hd
  simp [PgVerif.Spec.Accessors.material] at hd
  rcases hd with rfl | rfl
  · rfl
  · simp at hn

/-- `Material.molar_mass` likewise -/
theorem material_molar_mass (D : Dict α) (isAttr : String → Bool) (g : GetPropDesc) (d : MatDesc)
    (hd : d ∈ PgVerif.Gen.Accessors.material) (hn : d.name = "molar_mass") : matGet g D isAttr d.body = .ok (D "molar_mass") := by
  rw [gen_material_eq_spec] at hd
  simp [PgVerif.Spec.Accessors.material] at hd
  rcases hd with rfl | rfl
  · simp at hn
  · rfl

/-- `Material.get_prop(k)`: the dictionary value; a key that is neither in the dictionary nor an attribute raises `ParameterError` -/
theorem material_get_prop_law (D : Dict α) (isAttr : String → Bool) (g : GetPropDesc) (k : String)
    (hg : PgVerif.Gen.Accessors.getProp.find? (·.cls == "Material") = some g) :
    getProp g D isAttr k =
      match D k with
      | some v => .ok (some v)
      | none => if isAttr k then .ok none else .error .param := by
  have : g = ⟨"Material", true, "ParameterError"⟩ := by
    rw [gen_get_prop_eq_spec] at hg
    have h : PgVerif.Spec.Accessors.getProp.find? (·.cls == "Material") = some ⟨"Material", true, "ParameterError"⟩ := by
      decide +kernel
    rw [h] at hg; exact (Option.some.inj hg).symm
  subst this
  cases h : D k <;> simp [getProp, h, errOfClass]

/-- `Adsorbate.get_prop(k)`: the dictionary value or `ParameterError` (which every accessor turns into `CalculationError`) -/
theorem adsorbate_get_prop_law (D : Dict α) (isAttr : String → Bool) (g : GetPropDesc) (k : String)
    (hg : PgVerif.Gen.Accessors.getProp.find? (·.cls == "Adsorbate") = some g) :
    getProp g D isAttr k =
      match D k with
      | some v => .ok (some v)
      | none => .error .param := by
  have : g = ⟨"Adsorbate", false, "ParameterError"⟩ := by
    rw [gen_get_prop_eq_spec] at hg
    have h : PgVerif.Spec.Accessors.getProp.find? (·.cls == "Adsorbate") = some ⟨"Adsorbate", false, "ParameterError"⟩ := by
      decide +kernel
    rw [h] at hg; exact (Option.some.inj hg).symm
  subst this
  cases h : D k <;> simp [getProp, h, errOfClass]

/-! ## non-vacuity (α = ℚ): a nitrogen-like backend at 77 K, SI values -/

/-- M = 0.028 kg/mol; liquid 800 kg/m3 = 200000/7 mol/m3 · M; vapour 4.2 kg/m3 = 150 mol/m3 · M; p_sat 101325 Pa;
h_liquid −3400 J/mol, h_vapour 2200 J/mol; no surface tension available (raises) -/
def exB : Backend ℚ := fun s g i =>
  match s, g, i with
  | .state, "molar_mass", .none => some (28 / 1000)
  | .state, "rhomass", .QT 0 77 => some 800
  | .state, "rhomolar", .QT 0 77 => some (200000 / 7)
  | .state, "rhomass", .QT 1 77 => some (42 / 10)
  | .state, "rhomolar", .QT 1 77 => some 150
  | .state, "p", .QT 0 77 => some 101325
  | .state, "hmolar", .QT 0 77 => some (-3400)
  | .state, "hmolar", .QT 1 77 => some 2200
  | _, _, _ => none

/-- a dictionary with a stored saturation pressure (Pa), critical pressure (bar) and surface tension (mN/m) -/
def exD : Dict ℚ := fun k =>
  match k with
  | "saturation_pressure" => some 12345
  | "p_critical" => some (33958 / 1000)
  | "surface_tension" => some (89 / 10)
  | _ => none

-- the hypotheses of `liquid_density_consistent` / `gas_density_consistent` hold of this backend
example : (800 : ℚ) = 200000 / 7 * (28 / 1000) ∧ (42 / 10 : ℚ) = 150 * (28 / 1000) := by norm_num
example : call G "liquid_density" exB exD { temp := some 77 } = .ok (4 / 5) := by decide +kernel
example : call G "liquid_molar_density" exB exD { temp := some 77 } = .ok (1 / 35) := by decide +kernel
example : call G "gas_density" exB exD { temp := some 77 } = .ok (21 / 5000) := by decide +kernel
example : call G "molar_mass" exB exD {} = .ok 28 := by decide +kernel
example : call G "enthalpy_vaporisation" exB exD { temp := some 77 } = .ok (28 / 5) := by decide +kernel
-- the backend cannot answer (above the "critical point" of the example): user value, scaled from bar to Pa
example : call G "p_critical" exB exD {} = .ok 3395800 := by decide +kernel
example : call G "surface_tension" exB exD { temp := some 77 } = .ok (89 / 10) := by decide +kernel
-- nothing anywhere: calculation error, with and without `calculate`
example : call G "t_critical" exB exD {} = .error .calc := by decide +kernel
example : call G "t_critical" exB exD { calculate := false } = .error .calc := by decide +kernel
-- unit honoured on the backend path and on the fallback path (T = 500: the backend raises)
example : call G "saturation_pressure" exB exD { temp := some 77, unit := some "kPa" } = .ok (4053 / 40) := by decide +kernel
example : call G "saturation_pressure" exB exD { temp := some 500, unit := some "kPa" } = .ok (2469 / 200) := by decide +kernel
-- S20 witness: the same stored value asked for directly comes back unconverted
example : call G "saturation_pressure" exB exD { temp := some 500, unit := some "kPa", calculate := false } = .ok 12345 := by
  decide +kernel
example : call G "pressure_saturation" exB exD { temp := some 77, unit := some "furlong" } = .error .param := by decide +kernel
example : call G "enthalpy_liquefaction" exB exD { temp := some 77, press := some 101325 } = .error .calc := by decide +kernel

end PgVerif.C20
